(* Stage 4: the label of every nested expression is the jump-table index the
   compiler gives its body ([lab_okC], the same traversal as compC), so an
   expression value is the same tree for the evaluator and the machine.
   [lplaced] = located in the program (Placement.placed) + labelled that way;
   the decomposition lemmas of Placement.v, restated for lplaced, plus the two
   constructs stage 4 adds. *)
From Coq Require Import ZArith NArith List Bool Arith Lia.
From GV Require Import Base.Host Gen.Instr Model.Num Model.Value Model.Machine Model.CompileExpr Spec.Ast Spec.Eval
  Proofs.C01.MachineFacts Proofs.C01.Sizes Proofs.C01.Placement.
Import ListNotations.

Fixpoint lab_okC (ic : bool) (lk : option list_kind) (e : expr) (j ajb jb : nat) {struct e} : bool :=
  match e with
  | ELit _ | EValue | EIdent _ => true
  | EUn _ x | EGroup x | EReapply x => lab_okC false None x j 0 jb
  | EBin o l r =>
      if right_first o
      then lab_okC false None r j 0 (jb + sjo (sizes None l)) && lab_okC false None l (j + sji (sizes None r)) 0 jb
      else lab_okC false None l j 0 (jb + sjo (sizes None r)) && lab_okC false None r (j + sji (sizes None l)) 0 jb
  | EAnd l r | EOr l r =>
      lab_okC false None l j 0 (jb + sji (sizes None r) + sjo (sizes None r))
      && lab_okC false None r jb 0 (jb + sji (sizes None r))
  | EList k l r =>
      lab_okC false (Some k) l j 0 (jb + sjo (sizes (Some k) r))
      && lab_okC false (Some k) r (j + sji (sizes (Some k) l)) 0 jb
  | ECond _ c a =>
      if ic
      then lab_okC false None c j 0 jb && lab_okC false None a ajb 0 (ajb + sji (sizes None a))
      else lab_okC false None c j 0 (jb + sji (sizes None a) + sjo (sizes None a))
           && lab_okC false None a jb 0 (jb + sji (sizes None a))
  | EElse l r =>
      if ic
      then lab_okC true None l j (ajb + cajo (csizes r)) (jb + cijo (csizes r))
           && lab_okC true None r (j + cji (csizes l)) ajb jb
      else lab_okC true None l j (jb + cajo (csizes r)) (jb + (cajo (csizes r) + cajo (csizes l)) + cijo (csizes r))
           && lab_okC true None r (j + cji (csizes l)) jb (jb + (cajo (csizes r) + cajo (csizes l)))
  | ESeq _ l r | ESide l r =>
      lab_okC false None l j 0 (jb + sjo (sizes None r)) && lab_okC false None r (j + sji (sizes None l)) 0 jb
  | ENested lbl b =>
      N.eqb lbl (N.of_nat j) && lab_okC false None b jb 0 (jb + sji (sizes None b))
  end.

(* in the plain reading the arms parameter is not looked at *)
Lemma lab_plain_ajb : forall e lk j a jb, lab_okC false lk e j a jb = lab_okC false lk e j 0 jb.
Proof. destruct e; intros; reflexivity. Qed.

Lemma lab_plain_item : forall e lk j ajb jb,
  is_cond e = false -> is_else e = false -> lab_okC true lk e j ajb jb = lab_okC false lk e j 0 jb.
Proof. destruct e; intros; cbn [lab_okC]; auto; discriminate. Qed.

Lemma lab_lk : forall e ic k j ajb jb,
  is_list_of k e = false -> lab_okC ic (Some k) e j ajb jb = lab_okC ic None e j ajb jb.
Proof. destruct e; intros; cbn [lab_okC]; auto. Qed.

Section L.
Variable sym_hash : list N -> N.
Variable C : list minstr.
Variable J : list nat.
Notation placed := (placed sym_hash C J).
Notation placedC := (placedC sym_hash C J).

Definition lplaced (cont : nat) (lk : option list_kind) (e : expr) (pc j ob jb : nat) : Prop :=
  placed cont lk e pc j ob jb /\ lab_okC false lk e j 0 jb = true.
Definition lplacedC (ic : bool) (cont : nat) (lk : option list_kind) (e : expr) (pc j aob ajb ob jb jj : nat) : Prop :=
  placedC ic cont lk e pc j aob ajb ob jb jj /\ lab_okC ic lk e j ajb jb = true.

Ltac lab2 L A B := cbn [lab_okC] in L; apply andb_prop in L; destruct L as [A B].

Lemma lplaced_EUn : forall cont lk o x pc j ob jb,
  lplaced cont lk (EUn o x) pc j ob jb ->
  lplaced cont None x pc j ob jb /\
  nth_error C (pc + si (sizes None x)) = Some (ins (unop_instr o)).
Proof.
  intros cont lk o x pc j ob jb [H L]. edestruct (placed_EUn sym_hash C J) as (P1 & N1); [exact H | ].
  cbn [lab_okC] in L. unfold lplaced; tauto.
Qed.

Lemma lplaced_EBin_lr : forall cont lk o l r pc j ob jb,
  right_first o = false ->
  lplaced cont lk (EBin o l r) pc j ob jb ->
  lplaced cont None l pc j (ob + so (sizes None r)) (jb + sjo (sizes None r)) /\
  lplaced cont None r (pc + si (sizes None l)) (j + sji (sizes None l)) ob jb /\
  nth_error C (pc + si (sizes None l) + si (sizes None r)) = Some (ins (binop_instr o)).
Proof.
  intros cont lk o l r pc j ob jb Hrf [H L].
  edestruct (placed_EBin_lr sym_hash C J) as (P1 & P2 & N1); [exact Hrf | exact H | ].
  cbn [lab_okC] in L. rewrite Hrf in L. apply andb_prop in L. destruct L as [L1 L2].
  unfold lplaced, lplacedC; tauto.
Qed.

Lemma lplaced_EBin_rl : forall cont lk o l r pc j ob jb,
  right_first o = true ->
  lplaced cont lk (EBin o l r) pc j ob jb ->
  lplaced cont None r pc j (ob + so (sizes None l)) (jb + sjo (sizes None l)) /\
  lplaced cont None l (pc + si (sizes None r)) (j + sji (sizes None r)) ob jb /\
  nth_error C (pc + si (sizes None r) + si (sizes None l)) = Some (ins (binop_instr o)).
Proof.
  intros cont lk o l r pc j ob jb Hrf [H L].
  edestruct (placed_EBin_rl sym_hash C J) as (P1 & P2 & N1); [exact Hrf | exact H | ].
  cbn [lab_okC] in L. rewrite Hrf in L. apply andb_prop in L. destruct L as [L1 L2].
  unfold lplaced, lplacedC; tauto.
Qed.

Lemma lplaced_logical : forall (is_and : bool) cont lk l r pc j ob jb,
  lplaced cont lk (if is_and then EAnd l r else EOr l r) pc j ob jb ->
  let a := sizes None l in let b := sizes None r in
  lplaced cont None l pc j (ob + (si b + logical_ends r + so b)) (jb + sji b + sjo b) /\
  lplaced cont None r ob jb (ob + si b + logical_ends r) (jb + sji b) /\
  nth_error C (pc + si a) = Some (insn (if is_and then I_And else I_Or) (j + sji a)) /\
  nth_error J (j + sji a) = Some ob /\
  nth_error J (j + sji a + 1) = Some (pc + si a + 1) /\
  code_at C (ob + si b) (logical_tail r (j + sji a + 1)).
Proof.
  intros is_and cont lk l r pc j ob jb [H L] a b. subst a b.
  edestruct (placed_logical sym_hash C J) as (P1 & P2 & R); [exact H | ].
  assert (L' : lab_okC false None l j 0 (jb + sji (sizes None r) + sjo (sizes None r)) = true /\
               lab_okC false None r jb 0 (jb + sji (sizes None r)) = true).
  { destruct is_and; cbn [lab_okC] in L; apply andb_prop in L; exact L. }
  destruct L' as [L1 L2]. unfold lplaced; tauto.
Qed.

Lemma lplaced_EList : forall cont lk k l r pc j ob jb,
  lplaced cont lk (EList k l r) pc j ob jb ->
  lplaced cont (Some k) l pc j (ob + so (sizes (Some k) r)) (jb + sjo (sizes (Some k) r)) /\
  lplaced cont (Some k) r (pc + si (sizes (Some k) l)) (j + sji (sizes (Some k) l)) ob jb /\
  (in_list lk k = false ->
   nth_error C (pc + si (sizes (Some k) l) + si (sizes (Some k) r)) = Some (insn I_MakeList (leaves k (EList k l r)))).
Proof.
  intros cont lk k l r pc j ob jb [H L].
  edestruct (placed_EList sym_hash C J) as (P1 & P2 & N1); [exact H | ].
  lab2 L L1 L2. unfold lplaced, lplacedC; tauto.
Qed.

Lemma lplaced_EGroup : forall cont lk x pc j ob jb,
  lplaced cont lk (EGroup x) pc j ob jb -> lplaced cont None x pc j ob jb.
Proof.
  intros cont lk x pc j ob jb [H L]. split; [eapply placed_EGroup; eauto | exact L].
Qed.

Lemma lplaced_ECond : forall cont lk neg c a pc j ob jb,
  lplaced cont lk (ECond neg c a) pc j ob jb ->
  let x := sizes None c in let y := sizes None a in
  lplaced cont None c pc j (ob + (si y + 1 + so y)) (jb + sji y + sjo y) /\
  lplaced cont None a ob jb (ob + si y + 1) (jb + sji y) /\
  nth_error C (pc + si x) = Some (insn (jump_if_instr neg) (j + sji x)) /\
  nth_error C (pc + si x + 1) = Some (ins I_PutValue) /\
  nth_error J (j + sji x) = Some ob /\
  nth_error J (j + sji x + 1) = Some (pc + si x + 2) /\
  nth_error C (ob + si y) = Some (insn I_JumpTo (j + sji x + 1)).
Proof.
  intros cont lk neg c a pc j ob jb [H L] x y. subst x y.
  edestruct (placed_ECond sym_hash C J) as (P1 & P2 & R); [exact H | ].
  lab2 L L1 L2. unfold lplaced, lplacedC; tauto.
Qed.

Lemma lplaced_ESeq : forall cont lk s l r pc j ob jb,
  lplaced cont lk (ESeq s l r) pc j ob jb ->
  lplaced cont None l pc j (ob + so (sizes None r)) (jb + sjo (sizes None r)) /\
  lplaced cont None r (pc + si (sizes None l) + 1) (j + sji (sizes None l)) ob jb /\
  nth_error C (pc + si (sizes None l)) = Some (ins I_UpdateValue).
Proof.
  intros cont lk s l r pc j ob jb [H L].
  edestruct (placed_ESeq sym_hash C J) as (P1 & P2 & N1); [exact H | ].
  lab2 L L1 L2. unfold lplaced, lplacedC; tauto.
Qed.

Lemma lplaced_ESide : forall cont lk a sd pc j ob jb,
  lplaced cont lk (ESide a sd) pc j ob jb ->
  lplaced cont None a pc j (ob + so (sizes None sd)) (jb + sjo (sizes None sd)) /\
  lplaced cont None sd (pc + si (sizes None a) + 1) (j + sji (sizes None a)) ob jb /\
  nth_error C (pc + si (sizes None a)) = Some (ins I_StartSideEffect) /\
  nth_error C (pc + si (sizes None a) + 1 + si (sizes None sd)) = Some (ins I_EndSideEffect).
Proof.
  intros cont lk a sd pc j ob jb [H L].
  edestruct (placed_ESide sym_hash C J) as (P1 & P2 & N1 & N2); [exact H | ].
  lab2 L L1 L2. unfold lplaced, lplacedC; tauto.
Qed.

Lemma lplaced_EElse_head : forall cont lk l r pc j ob jb,
  lplaced cont lk (EElse l r) pc j ob jb ->
  let a := csizes l in let b := csizes r in
  let jj := j + cji a + cji b in
  lplacedC true cont None l pc j (ob + cao b) (jb + cajo b)
           (ob + (cao b + cao a) + cio b) (jb + (cajo b + cajo a) + cijo b) jj /\
  lplacedC true cont None r (pc + ci a) (j + cji a) ob jb (ob + (cao b + cao a)) (jb + (cajo b + cajo a)) jj /\
  (cn a + cn b <> 0 -> nth_error J jj = Some (pc + ci a + ci b)).
Proof.
  intros cont lk l r pc j ob jb [H L] a b jj. subst a b jj.
  edestruct (placed_EElse_head sym_hash C J) as (P1 & P2 & N1); [exact H | ].
  lab2 L L1 L2. unfold lplaced, lplacedC; tauto.
Qed.

Lemma lplacedC_EElse : forall cont lk l r pc j aob ajb ob jb jj,
  lplacedC true cont lk (EElse l r) pc j aob ajb ob jb jj ->
  let a := csizes l in let b := csizes r in
  lplacedC true cont None l pc j (aob + cao b) (ajb + cajo b) (ob + cio b) (jb + cijo b) jj /\
  lplacedC true cont None r (pc + ci a) (j + cji a) aob ajb ob jb jj.
Proof.
  intros cont lk l r pc j aob ajb ob jb jj [H L] a b. subst a b.
  edestruct (placedC_EElse sym_hash C J) as (P1 & P2); [exact H | ].
  lab2 L L1 L2. unfold lplaced, lplacedC; tauto.
Qed.

Lemma lplacedC_ECond : forall cont lk neg c a pc j aob ajb ob jb jj,
  lplacedC true cont lk (ECond neg c a) pc j aob ajb ob jb jj ->
  let x := sizes None c in let y := sizes None a in
  lplaced cont None c pc j ob jb /\
  lplaced cont None a aob ajb (aob + si y + 1) (ajb + sji y) /\
  nth_error C (pc + si x) = Some (insn (jump_if_instr neg) (j + sji x)) /\
  nth_error J (j + sji x) = Some aob /\
  nth_error C (aob + si y) = Some (insn I_JumpTo jj).
Proof.
  intros cont lk neg c a pc j aob ajb ob jb jj [H L] x y. subst x y.
  edestruct (placedC_ECond sym_hash C J) as (P1 & P2 & R); [exact H | ].
  lab2 L L1 L2. unfold lplaced, lplacedC; tauto.
Qed.

Lemma lplacedC_plain_item : forall cont e pc j aob ajb ob jb jj,
  is_cond e = false -> is_else e = false ->
  lplacedC true cont None e pc j aob ajb ob jb jj -> lplaced cont None e pc j ob jb.
Proof.
  intros cont e pc j aob ajb ob jb jj H1 H2 [H L]. split.
  - eapply placedC_plain_item; eauto.
  - rewrite lab_plain_item in L; auto.
Qed.

Lemma lplaced_lk : forall cont k e pc j ob jb,
  is_list_of k e = false -> lplaced cont (Some k) e pc j ob jb -> lplaced cont None e pc j ob jb.
Proof.
  intros cont k e pc j ob jb Hn [H L]. split.
  - unfold Placement.placed, comp in *.
    rewrite (compC_lk sym_hash e false cont k pc j 0 0 ob jb 0 Hn) in H. exact H.
  - rewrite lab_lk in L; auto.
Qed.

Lemma lplaced_list_ctx : forall cont k l r pc j ob jb,
  lplaced cont None (EList k l r) pc j ob jb -> lplaced cont (Some k) (EList k l r) pc j ob jb.
Proof.
  intros cont k l r pc j ob jb [H L]. split; [|exact L].
  unfold Placement.placed, comp in *. cbn [compC] in *. cbv zeta in *.
  cbn [in_list] in *. assert (Hk : same_kind k k = true) by (destruct k; reflexivity). rewrite Hk.
  cbn [to_frag of_frag f_inl f_ool f_ji f_jo c_inl c_ji c_iool c_ijo] in *.
  destruct H as (A & B & E & F). repeat split; auto.
  rewrite !app_assoc in A. apply code_at_app in A. destruct A as [A _].
  rewrite app_nil_r. exact A.
Qed.

(* ---- the constructs of stage 4 ---- *)
Lemma lplaced_ENested : forall cont lk lbl b pc j ob jb,
  lplaced cont lk (ENested lbl b) pc j ob jb ->
  lbl = N.of_nat j /\
  nth_error C pc = Some (I_Put, MVal (VExpr (N.of_nat j))) /\
  nth_error J j = Some ob /\
  lplaced j None b ob jb (ob + si (sizes None b) + 1) (jb + sji (sizes None b)) /\
  nth_error C (ob + si (sizes None b)) = Some (ins I_EndExpression).
Proof.
  intros cont lk lbl b pc j ob jb [H L].
  cbn [lab_okC] in L. apply andb_prop in L. destruct L as [L1 L2]. apply N.eqb_eq in L1.
  unfold Placement.placed, comp in H. cbn [compC] in H. cbv zeta in H.
  cbn [to_frag of_frag f_inl f_ool f_ji f_jo c_inl c_ji c_iool c_ijo] in H.
  destruct H as (A & B & E & F).
  apply code_at_one in A. apply code_at_one in B.
  repeat (rewrite ?code_at_app, ?code_at_cons, ?code_at_one in E).
  repeat (rewrite ?app_length, ?len_inl, ?len_ji, ?len_iool, ?len_ijo in E; cbn [length] in E).
  repeat (rewrite ?code_at_app in F).
  repeat (rewrite ?app_length, ?len_inl, ?len_ji, ?len_iool, ?len_ijo in F; cbn [length] in F).
  unfold lplaced, Placement.placed, comp, sizes in *.
  cbn [to_frag to_sz f_inl f_ool f_ji f_jo si so sji sjo] in *.
  rewrite ?Nat.add_assoc, ?Nat.add_1_r in *.
  repeat split; auto; tauto.
Qed.

Lemma lplaced_EReapply : forall cont lk x pc j ob jb,
  lplaced cont lk (EReapply x) pc j ob jb ->
  lplaced cont None x pc j ob jb /\
  nth_error C (pc + si (sizes None x)) = Some (ins I_UpdateValue) /\
  nth_error C (pc + si (sizes None x) + 1) = Some (insn I_JumpTo cont).
Proof.
  intros cont lk x pc j ob jb [H L]. cbn [lab_okC] in L.
  unfold Placement.placed, comp in H. cbn [compC] in H. cbv zeta in H.
  cbn [to_frag of_frag f_inl f_ool f_ji f_jo c_inl c_ji c_iool c_ijo] in H.
  destruct H as (A & B & E & F).
  repeat (rewrite ?code_at_app, ?code_at_cons, ?code_at_one in A).
  repeat (rewrite ?app_length, ?len_inl in A; cbn [length] in A).
  unfold lplaced, Placement.placed, comp, sizes in *.
  cbn [to_frag to_sz f_inl f_ool f_ji f_jo si so sji sjo] in *.
  rewrite ?Nat.add_assoc, ?Nat.add_1_r in *.
  repeat split; auto; tauto.
Qed.

End L.
