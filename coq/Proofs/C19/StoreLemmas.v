(* C19 proofs, part 2: what push / get / set / lookup / the small loops do to a store. *)
From Coq Require Import NArith List Bool Arith Lia.
From GV Require Import Base.Result Model.Optimize Spec.HeapIso Proofs.C19.Base.
Import ListNotations.

(* everything except the cells and the allocated size *)
Definition same_meta (s s1 : store) : Prop :=
  retention s1 = retention s /\ dstart s1 = dstart s /\ symtab s1 = symtab s /\
  cur_value s1 = cur_value s /\ cur_register s1 = cur_register s /\ cur_frame s1 = cur_frame s /\
  strat s1 = strat s /\ maxitems s1 = maxitems s.

(* [s1] is [s] with cells appended *)
Definition ext (s s1 : store) : Prop :=
  same_meta s s1 /\ exists l, cells s1 = cells s ++ l.

Lemma same_meta_refl : forall s, same_meta s s.
Proof. intro s. unfold same_meta. tauto. Qed.

Lemma same_meta_trans : forall s1 s2 s3, same_meta s1 s2 -> same_meta s2 s3 -> same_meta s1 s3.
Proof. unfold same_meta. intros s1 s2 s3 H1 H2. intuition congruence. Qed.

Lemma ext_refl : forall s, ext s s.
Proof. intro s. split; [apply same_meta_refl|]. exists []. rewrite app_nil_r. reflexivity. Qed.

Lemma ext_trans : forall s1 s2 s3, ext s1 s2 -> ext s2 s3 -> ext s1 s3.
Proof.
  intros s1 s2 s3 [M1 [l1 E1]] [M2 [l2 E2]]. split; [eapply same_meta_trans; eauto|].
  exists (l1 ++ l2). rewrite E2, E1, app_assoc. reflexivity.
Qed.

Lemma ext_agree : forall s s1, ext s s1 -> agree (cells s) (cells s1).
Proof. intros s s1 [_ [l E]]. rewrite E. apply agree_app. Qed.

Lemma ext_length : forall s s1, ext s s1 -> length (cells s) <= length (cells s1).
Proof. intros s s1 [_ [l E]]. rewrite E, app_length. lia. Qed.

Lemma ext_nth : forall s s1 k c, ext s s1 -> nth_error (cells s) k = Some c -> nth_error (cells s1) k = Some c.
Proof. intros s s1 k c [_ [l E]] H. rewrite E. apply nth_error_app_l. exact H. Qed.

Lemma ext_nth_lt : forall s s1 k, ext s s1 -> k < length (cells s) -> nth_error (cells s1) k = nth_error (cells s) k.
Proof. intros s s1 k [_ [l E]] H. rewrite E. apply nth_error_app1. exact H. Qed.

(* ---------------------------------------------------------------- push / get / set *)
Lemma push_ok : forall s c s1 p, push s c = Ok (s1, p) ->
  p = length (cells s) /\ cells s1 = cells s ++ [c] /\ same_meta s s1.
Proof.
  intros s c s1 p H. unfold push in H.
  destruct (dsize s <=? cursor s) eqn:E1.
  - destruct (maxitems s) as [m|] eqn:Em.
    + destruct (m <? next_size s); cbn in H; try discriminate.
      unfold cursor in H; cbn in H.
      destruct (next_size s <=? length (cells s)); try discriminate.
      inversion H; subst. cbn. unfold same_meta; cbn. rewrite Em. tauto.
    + cbn in H. unfold cursor in H; cbn in H.
      destruct (next_size s <=? length (cells s)); try discriminate.
      inversion H; subst. cbn. unfold same_meta; cbn. rewrite Em. tauto.
  - cbn in H. rewrite E1 in H. inversion H; subst. cbn. unfold cursor, same_meta; cbn. tauto.
Qed.

Lemma push_ext : forall s c s1 p, push s c = Ok (s1, p) -> ext s s1.
Proof. intros s c s1 p H. apply push_ok in H. destruct H as [_ [E M]]. split; auto. eauto. Qed.

Lemma push__ok : forall s c s1, push_ s c = Ok s1 -> cells s1 = cells s ++ [c] /\ same_meta s s1.
Proof.
  intros s c s1 H. unfold push_ in H. destruct (push s c) as [[s2 p]| | |] eqn:E; cbn in H; try discriminate.
  inversion H; subst. apply push_ok in E. tauto.
Qed.

Lemma push__ext : forall s c s1, push_ s c = Ok s1 -> ext s s1.
Proof. intros s c s1 H. apply push__ok in H. destruct H as [E M]. split; auto. eauto. Qed.

Lemma get_ok : forall s i c, get s i = Ok c -> nth_error (cells s) i = Some c.
Proof. intros s i c H. unfold get in H. destruct (nth_error (cells s) i); inversion H; reflexivity. Qed.

Lemma get_of_nth : forall s i c, nth_error (cells s) i = Some c -> get s i = Ok c.
Proof. intros s i c H. unfold get. rewrite H. reflexivity. Qed.

Lemma set_ok : forall s i c s1, set s i c = Ok s1 ->
  i < length (cells s) /\ cells s1 = set_nth (cells s) i c /\ same_meta s s1 /\ dsize s1 = dsize s.
Proof.
  intros s i c s1 H. unfold set, cursor in H. destruct (i <? length (cells s)) eqn:E; try discriminate.
  apply Nat.ltb_lt in E. inversion H; subst. cbn. unfold same_meta; cbn. tauto.
Qed.

(* ---------------------------------------------------------------- lookups *)
Lemma find_map_some : forall idx l v, find_map idx l = Some v ->
  exists k, nth_error l k = Some (CCloneMap idx v).
Proof.
  induction l as [|c l IH]; intros v H; cbn in H; try discriminate.
  destruct c; try (destruct (IH v H) as [k Hk]; exists (S k); exact Hk).
  destruct (orig =? idx) eqn:E.
  - apply Nat.eqb_eq in E. inversion H; subst. exists 0. reflexivity.
  - destruct (IH v H) as [k Hk]. exists (S k). exact Hk.
Qed.

Lemma nth_error_skipn' : forall (A : Type) (l : list A) n k, nth_error (skipn n l) k = nth_error l (n + k).
Proof.
  induction l as [|x l IH]; intros [|n] k; cbn; auto.
  - destruct k; reflexivity.
Qed.

Lemma nth_error_firstn_some : forall (A : Type) (l : list A) n k x,
  nth_error (firstn n l) k = Some x -> k < n /\ nth_error l k = Some x.
Proof.
  induction l as [|y l IH]; intros [|n] [|k] x H; cbn in *; try discriminate.
  - split; [lia|exact H].
  - apply IH in H. split; [lia|tauto].
Qed.

Lemma nth_error_firstn_lt : forall (A : Type) (l : list A) n k, k < n -> nth_error (firstn n l) k = nth_error l k.
Proof.
  induction l as [|y l IH]; intros [|n] [|k] H; cbn; auto; try lia.
  apply IH. lia.
Qed.

(* a successful optional lookup is the identity below the retention count, or the payload of a CloneMap
   cell inside the slice *)
Lemma lookup_opt_some : forall s st en idx v, lookup_opt s st en idx = Ok (Some v) ->
  (idx < retention s /\ v = idx) \/
  (retention s <= idx /\ exists k, st - dstart s <= k /\ k < en - dstart s /\
                         nth_error (cells s) k = Some (CCloneMap idx v)).
Proof.
  intros s st en idx v H. unfold lookup_opt in H.
  destruct (idx <? retention s) eqn:E1.
  - apply Nat.ltb_lt in E1. inversion H; subst. left. tauto.
  - apply Nat.ltb_ge in E1. destruct (en <? st); try discriminate.
    destruct (dstart s + dsize s <? en); try discriminate.
    inversion H as [H1]. apply find_map_some in H1. destruct H1 as [k Hk].
    apply nth_error_firstn_some in Hk. destruct Hk as [Hlt Hk]. rewrite nth_error_skipn' in Hk.
    right. split; auto. exists (st - dstart s + k). split; [lia|]. split; [lia|exact Hk].
Qed.

Lemma lookup_ok : forall s st en idx v, lookup s st en idx = Ok v -> lookup_opt s st en idx = Ok (Some v).
Proof.
  intros s st en idx v H. unfold lookup in H. destruct (lookup_opt s st en idx) as [[x|]| | |]; cbn in H; try discriminate.
  inversion H; reflexivity.
Qed.

(* ---------------------------------------------------------------- loops *)
Lemma for_range_ext : forall body,
  (forall i s s1, body i s = Ok s1 -> ext s s1) ->
  forall n i s s1, for_range n i body s = Ok s1 -> ext s s1.
Proof.
  intros body Hb. induction n as [|n IH]; intros i s s1 H; cbn in H.
  - inversion H. apply ext_refl.
  - destruct (body i s) as [s2| | |] eqn:E; cbn in H; try discriminate.
    eapply ext_trans; eauto.
Qed.

Lemma push_items_ext : forall l s s1, push_items s l = Ok s1 -> ext s s1.
Proof.
  induction l as [|a l IH]; intros s s1 H; cbn in H.
  - inversion H. apply ext_refl.
  - destruct (push_ s (CCloneItem a)) as [s2| | |] eqn:E; cbn in H; try discriminate.
    eapply ext_trans; [eapply push__ext; eauto|eauto].
Qed.

(* copy_following appends exactly the cells it reads *)
Lemma copy_loop : forall n a s s1 payload,
  length payload = n ->
  (forall k, k < n -> nth_error (cells s) (a + k) = nth_error payload k) ->
  for_range n a (fun i s => do c <- get s i; push_ s c) s = Ok s1 ->
  cells s1 = cells s ++ payload /\ same_meta s s1.
Proof.
  induction n as [|n IH]; intros a s s1 payload Hlen Hn H; cbn in H.
  - destruct payload; try discriminate. inversion H; subst. rewrite app_nil_r. split; [reflexivity|apply same_meta_refl].
  - destruct payload as [|c payload]; try discriminate.
    pose proof (Hn 0 ltac:(lia)) as H0. rewrite Nat.add_0_r in H0. cbn in H0.
    unfold get in H at 1. rewrite H0 in H. cbn in H.
    destruct (push_ s c) as [s2| | |] eqn:E; cbn in H; try discriminate.
    apply push__ok in E. destruct E as [Ec Em].
    apply IH with (payload := payload) in H.
    + destruct H as [Hc Hm]. split; [|eapply same_meta_trans; eauto].
      rewrite Hc, Ec, <- app_assoc. reflexivity.
    + cbn in Hlen. lia.
    + intros k Hk. specialize (Hn (S k) ltac:(lia)). cbn in Hn. rewrite <- Hn.
      replace (S a + k) with (a + S k) by lia. rewrite Ec.
      destruct (nth_error (cells s) (a + S k)) eqn:E2.
      * apply nth_error_app_l. exact E2.
      * exfalso. cbn in Hlen. assert (Hsome : nth_error payload k <> None) by (apply nth_error_Some; lia).
        congruence.
Qed.
