(* C17  Host extension points are called exactly as documented.
   Only statements, [exact] and [Print Assumptions] live here.
   The theorems are about the runtime model Model/Machine.v (resolve.rs,
   apply.rs: tied to the Rust by the exec correspondence, which compares every
   host call of every generated program on both data implementations). *)
From Coq Require Import ZArith NArith List Bool Arith.
From GV Require Import Base.Result Base.Host Gen.Instr Model.Num Model.Value Model.Machine
  Model.CompileExpr Spec.Ast Spec.Eval
  Spec.Printer Proofs.C01.MachineFacts Proofs.C01.Fragment Proofs.C01.Stages Proofs.C01.Main Proofs.C01.StageThms Proofs.C01.Witness Proofs.C17.HostOps.
Import ListNotations.

(* One Resolve step, identifier found in the current input value: the value is
   pushed, the host is not called (state and trace unchanged). *)
Theorem C17_resolve_op_found : forall hstate host sym vin v pcx sg vs fs h t,
  input_lookup sym vin = Ok (Some v) ->
  resolve_op hstate host (MVal (VSym sym)) (mkSt hstate pcx sg (vin :: vs) fs h t) =
  Ok (mkSt hstate pcx (v :: sg) (vin :: vs) fs h t, None).
Proof. exact resolve_found. Qed.
Print Assumptions C17_resolve_op_found.

(* ... not found: the host's resolve is called exactly once, with that symbol;
   its answer is pushed, unit if it declines. *)
Theorem C17_resolve_op : forall hstate host sym vin pcx sg vs fs h t,
  input_lookup sym vin = Ok None ->
  resolve_op hstate host (MVal (VSym sym)) (mkSt hstate pcx sg (vin :: vs) fs h t) =
  Ok (mkSt hstate pcx ((match snd (host h (HResolve sym)) with Some v => v | None => VUnit end) :: sg)
         (vin :: vs) fs (fst (host h (HResolve sym))) (t ++ [HResolve sym]), None).
Proof. exact resolve_not_found. Qed.
Print Assumptions C17_resolve_op.

Theorem C17_resolve_op_error : forall hstate host sym vin c pcx sg vs fs h t,
  input_lookup sym vin = Err c ->
  resolve_op hstate host (MVal (VSym sym)) (mkSt hstate pcx sg (vin :: vs) fs h t) = Err c.
Proof. exact resolve_error. Qed.
Print Assumptions C17_resolve_op_error.

(* Apply with an external value on the left: the host's apply is called exactly
   once with the external's number and the argument; unit if it declines. *)
Theorem C17_external_op : forall hstate host p (i : instruction) k arg pcx sg vs fs h t,
  apply_internal hstate host p i (mkSt hstate pcx (arg :: VExternal k :: sg) vs fs h t) =
  Ok (mkSt hstate pcx ((match snd (host h (HApply k arg)) with Some v => v | None => VUnit end) :: sg)
         vs fs (fst (host h (HApply k arg))) (t ++ [HApply k arg]), Some (S pcx)).
Proof. exact apply_external. Qed.
Print Assumptions C17_external_op.

(* Whole programs, every construct of the core language (C01 stages 1-4): the
   machine's observable host trace is the reference evaluator's, call for call
   (identifier occurrences in evaluation order, skipped branches contribute
   nothing, loops contribute once per iteration), and the final host state is
   the evaluator's. *)
Theorem C17_program : forall sym_hash hstate host, declines_defer hstate host ->
  forall e vin h n v h' t,
  printable e = true -> known_K1 e = false -> known_K2 e = false -> labels_ok e = true ->
  eval_prog sym_hash hstate host n e vin h = ODone v (h', t) ->
  exists s0 fuel steps sfin,
    initial hstate (compile_prog sym_hash e) 0 vin h = Some s0 /\
    run hstate host fuel (compile_prog sym_hash e) s0 = REnd hstate sfin steps /\
    current_value hstate sfin = Some v /\ hs sfin = h' /\ observable (tr sfin) = t.
Proof. exact all_programs. Qed.
Print Assumptions C17_program.

(* non-vacuity: a program whose identifier is answered by the host, twice *)
Example C17_ex_trace :
  exists v h t, eval_prog Proofs.C01.Bounded.sh nat host9 30 demo VUnit 0 = ODone v (h, t) /\ length t = 2 /\ h = 2 /\
    v = VPair (VNum (Int 1)) (VPair (VSym (Proofs.C01.Bounded.sh [107%N])) (VList [VNum (Int 1); VNum (Int 2)])).
Proof. exact demo_evaluates. Qed.
