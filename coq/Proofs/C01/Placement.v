(* Where the code of a sub-expression lies: from "the fragments of e are located
   in the program (C, J) at position (pc, j, ob, jb)" to the same fact for the
   operands of e, plus the instructions and jump-table entries e itself adds.
   CompCert's code_at pattern; all arithmetic on offsets lives in this file. *)
From Coq Require Import ZArith NArith List Bool Arith Lia.
From GV Require Import Base.Host Gen.Instr Model.Num Model.Value Model.Machine Model.CompileExpr Spec.Ast Spec.Eval
  Proofs.C01.MachineFacts Proofs.C01.Sizes.
Import ListNotations.

Section Placement.
Variable sym_hash : list N -> N.
Variable C : list minstr.
Variable J : list nat.
Notation compC := (compC sym_hash).
Notation comp := (comp sym_hash).

Definition placedC (ic : bool) (cont : nat) (lk : option list_kind) (e : expr) (pc j aob ajb ob jb jj : nat) : Prop :=
  let f := compC ic cont lk e pc j aob ajb ob jb jj in
  code_at C pc (c_inl f) /\ code_at J j (c_ji f) /\
  code_at C aob (c_arms f) /\ code_at J ajb (c_ajo f) /\
  code_at C ob (c_iool f) /\ code_at J jb (c_ijo f).

Definition placed (cont : nat) (lk : option list_kind) (e : expr) (pc j ob jb : nat) : Prop :=
  let f := comp cont lk e pc j ob jb in
  code_at C pc (f_inl f) /\ code_at J j (f_ji f) /\ code_at C ob (f_ool f) /\ code_at J jb (f_jo f).

Lemma placedC_plain : forall cont lk e pc j ob jb,
  placedC false cont lk e pc j 0 0 ob jb 0 -> placed cont lk e pc j ob jb.
Proof.
  unfold placedC, placed, CompileExpr.comp. intros cont lk e pc j ob jb (A & B & _ & _ & E & F).
  cbn [to_frag f_inl f_ool f_ji f_jo]. auto.
Qed.

(* in the plain reading there are no arms *)
Lemma plain_no_arms : forall e cont lk pc j a b ob jb jj,
  c_arms (compC false cont lk e pc j a b ob jb jj) = [] /\ c_ajo (compC false cont lk e pc j a b ob jb jj) = [].
Proof.
  destruct e; intros; cbn [CompileExpr.compC of_frag c_arms c_ajo]; auto.
  destruct (right_first o); auto.
Qed.

(* ... and the chain parameters do not matter *)
Lemma plain_params : forall e cont lk pc j a b ob jb jj,
  compC false cont lk e pc j a b ob jb jj = compC false cont lk e pc j 0 0 ob jb 0.
Proof.
  destruct e; intros; cbn [CompileExpr.compC]; auto.
Qed.

Lemma placed_plainC : forall cont lk e pc j ob jb,
  placed cont lk e pc j ob jb -> placedC false cont lk e pc j 0 0 ob jb 0.
Proof.
  unfold placedC, placed, CompileExpr.comp. intros cont lk e pc j ob jb (A & B & E & F).
  cbn [to_frag f_inl f_ool f_ji f_jo] in *.
  destruct (plain_no_arms e cont lk pc j 0 0 ob jb 0) as [X Y]. rewrite X, Y.
  repeat split; auto; apply code_at_nil.
Qed.

Ltac projs :=
  cbn [to_frag of_frag to_sz of_sz f_inl f_ool f_ji f_jo c_inl c_ji c_arms c_ajo c_iool c_ijo
       ci cji cao cajo cio cijo cn si so sji sjo] in *.
Ltac lens H :=
  repeat (rewrite ?app_length, ?len_inl, ?len_ji, ?len_arms, ?len_ajo, ?len_iool, ?len_ijo in H; cbn [length] in H).
Ltac open_placed H :=
  unfold placed, CompileExpr.comp in H; cbn [CompileExpr.compC] in H; cbv zeta in H; projs.
Ltac norm := rewrite ?Nat.add_assoc, ?Nat.add_1_r in *.
Ltac split_code H :=
  repeat (rewrite ?code_at_app, ?code_at_cons, ?code_at_one in H); lens H.

Lemma placed_EUn : forall cont lk o x pc j ob jb,
  placed cont lk (EUn o x) pc j ob jb ->
  placed cont None x pc j ob jb /\
  nth_error C (pc + si (sizes None x)) = Some (ins (unop_instr o)).
Proof.
  intros cont lk o x pc j ob jb H. open_placed H.
  destruct H as (A & B & E & F). split_code A.
  unfold placed, CompileExpr.comp, sizes. projs. tauto.
Qed.

Lemma placed_EBin_lr : forall cont lk o l r pc j ob jb,
  right_first o = false ->
  placed cont lk (EBin o l r) pc j ob jb ->
  placed cont None l pc j (ob + so (sizes None r)) (jb + sjo (sizes None r)) /\
  placed cont None r (pc + si (sizes None l)) (j + sji (sizes None l)) ob jb /\
  nth_error C (pc + si (sizes None l) + si (sizes None r)) = Some (ins (binop_instr o)).
Proof.
  intros cont lk o l r pc j ob jb Hrf H. open_placed H. rewrite Hrf in H. projs.
  destruct H as (A & B & E & F). split_code A. split_code B. split_code E. split_code F.
  unfold placed, CompileExpr.comp, sizes in *. projs. tauto.
Qed.

Lemma placed_EBin_rl : forall cont lk o l r pc j ob jb,
  right_first o = true ->
  placed cont lk (EBin o l r) pc j ob jb ->
  placed cont None r pc j (ob + so (sizes None l)) (jb + sjo (sizes None l)) /\
  placed cont None l (pc + si (sizes None r)) (j + sji (sizes None r)) ob jb /\
  nth_error C (pc + si (sizes None r) + si (sizes None l)) = Some (ins (binop_instr o)).
Proof.
  intros cont lk o l r pc j ob jb Hrf H. open_placed H. rewrite Hrf in H. projs.
  destruct H as (A & B & E & F). split_code A. split_code B. split_code E. split_code F.
  unfold placed, CompileExpr.comp, sizes in *. projs. tauto.
Qed.

Definition logical_tail (r : expr) (jjoin : nat) : list minstr := [ins I_Tis; insn I_JumpTo jjoin].
Lemma logical_tail_length : forall r jj, length (logical_tail r jj) = logical_ends r.
Proof. intros. reflexivity. Qed.

Lemma placed_logical : forall (is_and : bool) cont lk l r pc j ob jb,
  placed cont lk (if is_and then EAnd l r else EOr l r) pc j ob jb ->
  let a := sizes None l in let b := sizes None r in
  placed cont None l pc j (ob + (si b + logical_ends r + so b)) (jb + sji b + sjo b) /\
  placed cont None r ob jb (ob + si b + logical_ends r) (jb + sji b) /\
  nth_error C (pc + si a) = Some (insn (if is_and then I_And else I_Or) (j + sji a)) /\
  nth_error J (j + sji a) = Some ob /\
  nth_error J (j + sji a + 1) = Some (pc + si a + 1) /\
  code_at C (ob + si b) (logical_tail r (j + sji a + 1)).
Proof.
  intros is_and cont lk l r pc j ob jb H a b. subst a b.
  destruct is_and; open_placed H; fold (logical_tail r (j + sji (sizes None l) + 1)) in H;
    destruct H as (A & B & E & F); split_code A; split_code B; split_code E; split_code F;
    rewrite logical_tail_length in E;
    unfold placed, CompileExpr.comp, sizes in *; projs;
    rewrite ?Nat.add_assoc, ?Nat.add_1_r in *; tauto.
Qed.

Ltac finish_placed :=
  unfold placed, placedC, CompileExpr.comp, sizes, csizes in *; projs; norm; tauto.

Lemma placed_EList : forall cont lk k l r pc j ob jb,
  placed cont lk (EList k l r) pc j ob jb ->
  placed cont (Some k) l pc j (ob + so (sizes (Some k) r)) (jb + sjo (sizes (Some k) r)) /\
  placed cont (Some k) r (pc + si (sizes (Some k) l)) (j + sji (sizes (Some k) l)) ob jb /\
  (in_list lk k = false ->
   nth_error C (pc + si (sizes (Some k) l) + si (sizes (Some k) r)) = Some (insn I_MakeList (leaves k (EList k l r)))).
Proof.
  intros cont lk k l r pc j ob jb H. open_placed H.
  destruct H as (A & B & E & F).
  destruct (in_list lk k) eqn:Hin;
  split_code A; split_code B; split_code E; split_code F;
  unfold placed, CompileExpr.comp, sizes in *; projs; norm;
  (split; [tauto | split; [tauto | ]]); intros Hx; try discriminate; tauto.
Qed.

Lemma placed_EGroup : forall cont lk x pc j ob jb,
  placed cont lk (EGroup x) pc j ob jb -> placed cont None x pc j ob jb.
Proof.
  intros cont lk x pc j ob jb H. open_placed H. finish_placed.
Qed.

Definition jump_if_instr (neg : bool) : instruction := if neg then I_JumpIfFalse else I_JumpIfTrue.

Lemma placed_ECond : forall cont lk neg c a pc j ob jb,
  placed cont lk (ECond neg c a) pc j ob jb ->
  let x := sizes None c in let y := sizes None a in
  placed cont None c pc j (ob + (si y + 1 + so y)) (jb + sji y + sjo y) /\
  placed cont None a ob jb (ob + si y + 1) (jb + sji y) /\
  nth_error C (pc + si x) = Some (insn (jump_if_instr neg) (j + sji x)) /\
  nth_error C (pc + si x + 1) = Some (ins I_PutValue) /\
  nth_error J (j + sji x) = Some ob /\
  nth_error J (j + sji x + 1) = Some (pc + si x + 2) /\
  nth_error C (ob + si y) = Some (insn I_JumpTo (j + sji x + 1)).
Proof.
  intros cont lk neg c a pc j ob jb H x y. subst x y. open_placed H.
  destruct H as (A & B & E & F). split_code A. split_code B. split_code E. split_code F.
  unfold jump_if_instr. finish_placed.
Qed.

Lemma placed_ESeq : forall cont lk s l r pc j ob jb,
  placed cont lk (ESeq s l r) pc j ob jb ->
  placed cont None l pc j (ob + so (sizes None r)) (jb + sjo (sizes None r)) /\
  placed cont None r (pc + si (sizes None l) + 1) (j + sji (sizes None l)) ob jb /\
  nth_error C (pc + si (sizes None l)) = Some (ins I_UpdateValue).
Proof.
  intros cont lk s l r pc j ob jb H. open_placed H.
  destruct H as (A & B & E & F). split_code A. split_code B. split_code E. split_code F.
  finish_placed.
Qed.

Lemma placed_ESide : forall cont lk a sd pc j ob jb,
  placed cont lk (ESide a sd) pc j ob jb ->
  placed cont None a pc j (ob + so (sizes None sd)) (jb + sjo (sizes None sd)) /\
  placed cont None sd (pc + si (sizes None a) + 1) (j + sji (sizes None a)) ob jb /\
  nth_error C (pc + si (sizes None a)) = Some (ins I_StartSideEffect) /\
  nth_error C (pc + si (sizes None a) + 1 + si (sizes None sd)) = Some (ins I_EndSideEffect).
Proof.
  intros cont lk a sd pc j ob jb H. open_placed H.
  destruct H as (A & B & E & F). split_code A. split_code B. split_code E. split_code F.
  finish_placed.
Qed.

(* ---- else-chains ---- *)
Lemma placed_EElse_head : forall cont lk l r pc j ob jb,
  placed cont lk (EElse l r) pc j ob jb ->
  let a := csizes l in let b := csizes r in
  let jj := j + cji a + cji b in
  placedC true cont None l pc j (ob + cao b) (jb + cajo b)
          (ob + (cao b + cao a) + cio b) (jb + (cajo b + cajo a) + cijo b) jj /\
  placedC true cont None r (pc + ci a) (j + cji a) ob jb (ob + (cao b + cao a)) (jb + (cajo b + cajo a)) jj /\
  (cn a + cn b <> 0 -> nth_error J jj = Some (pc + ci a + ci b)).
Proof.
  intros cont lk l r pc j ob jb H a b jj. subst a b jj. open_placed H.
  destruct H as (A & B & E & F).
  destruct (Nat.eqb (cn (csizes l) + cn (csizes r)) 0) eqn:Hn;
  split_code A; split_code B; split_code E; split_code F;
  unfold placedC, csizes in *; projs; norm; (split; [tauto | split; [tauto | ]]).
  - intros Hne. apply Nat.eqb_eq in Hn. lia.
  - intros _. tauto.
Qed.

Lemma placedC_EElse : forall cont lk l r pc j aob ajb ob jb jj,
  placedC true cont lk (EElse l r) pc j aob ajb ob jb jj ->
  let a := csizes l in let b := csizes r in
  placedC true cont None l pc j (aob + cao b) (ajb + cajo b) (ob + cio b) (jb + cijo b) jj /\
  placedC true cont None r (pc + ci a) (j + cji a) aob ajb ob jb jj.
Proof.
  intros cont lk l r pc j aob ajb ob jb jj H a b. subst a b.
  unfold placedC in H. cbn [CompileExpr.compC] in H. cbv zeta in H. projs.
  destruct H as (A & B & A2 & B2 & E & F).
  split_code A. split_code B. split_code A2. split_code B2. split_code E. split_code F.
  unfold placedC, csizes in *; projs; norm; tauto.
Qed.

Lemma placedC_ECond : forall cont lk neg c a pc j aob ajb ob jb jj,
  placedC true cont lk (ECond neg c a) pc j aob ajb ob jb jj ->
  let x := sizes None c in let y := sizes None a in
  placed cont None c pc j ob jb /\
  placed cont None a aob ajb (aob + si y + 1) (ajb + sji y) /\
  nth_error C (pc + si x) = Some (insn (jump_if_instr neg) (j + sji x)) /\
  nth_error J (j + sji x) = Some aob /\
  nth_error C (aob + si y) = Some (insn I_JumpTo jj).
Proof.
  intros cont lk neg c a pc j aob ajb ob jb jj H x y. subst x y.
  unfold placedC in H. cbn [CompileExpr.compC] in H. cbv zeta in H. projs.
  destruct H as (A & B & A2 & B2 & E & F).
  split_code A. split_code B. split_code A2. split_code B2.
  unfold jump_if_instr. finish_placed.
Qed.

(* an item that is neither a conditional nor a chain is compiled as in the plain reading *)
Lemma compC_plain_item : forall e cont lk pc j aob ajb ob jb jj,
  is_cond e = false -> is_else e = false ->
  compC true cont lk e pc j aob ajb ob jb jj = compC false cont lk e pc j 0 0 ob jb 0.
Proof.
  destruct e; intros; cbn [CompileExpr.compC]; auto; discriminate.
Qed.
Lemma sizesC_plain_item : forall e lk,
  is_cond e = false -> is_else e = false -> sizesC true lk e = sizesC false lk e.
Proof.
  destruct e; intros; cbn [sizesC]; auto; discriminate.
Qed.

Lemma placedC_plain_item : forall cont e pc j aob ajb ob jb jj,
  is_cond e = false -> is_else e = false ->
  placedC true cont None e pc j aob ajb ob jb jj -> placed cont None e pc j ob jb.
Proof.
  intros cont e pc j aob ajb ob jb jj H1 H2 H. unfold placedC in H.
  rewrite (compC_plain_item e cont None pc j aob ajb ob jb jj H1 H2) in H.
  apply placedC_plain. unfold placedC.
  destruct H as (A & B & A2 & B2 & E & F).
  destruct (plain_no_arms e cont None pc j 0 0 ob jb 0) as [X Y]. rewrite X, Y.
  repeat split; auto; apply code_at_nil.
Qed.

(* the list context only matters for a list of that kind *)
Lemma compC_lk : forall e ic cont k pc j aob ajb ob jb jj,
  is_list_of k e = false ->
  compC ic cont (Some k) e pc j aob ajb ob jb jj = compC ic cont None e pc j aob ajb ob jb jj.
Proof.
  destruct e; intros; cbn [CompileExpr.compC]; auto.
  destruct k, k0; cbn in *; auto; discriminate.
Qed.
Lemma sizesC_lk : forall e ic k,
  is_list_of k e = false -> sizesC ic (Some k) e = sizesC ic None e.
Proof.
  destruct e; intros; cbn [sizesC]; auto.
  destruct k, k0; cbn in *; auto; discriminate.
Qed.

End Placement.
