(* Tie 1 for the store models: the variants of BasicData / SimpleData, the
   arms of StorageBlock::next_size and StorageSettings::default, re-extracted
   from /repo on every check (Gen/StoreCells.v), are the ones the hand-written
   models [cell], [sdata], [next_size], [default_settings] were written for.
   A changed enum or growth formula breaks these lemmas. *)
From Coq Require Import String List Arith.
From GV Require Import Gen.StoreCells Model.StoreBase Model.BasicStore Model.SimpleStore.
Import ListNotations.
Local Open Scope string_scope.

(* the constructors of [cell], in order, with the Rust payload types they model:
   usize -> nat, u64 / char / u8 -> N, GarnishDataType -> data_type, Instruction -> instruction,
   BasicNumber -> snum, T (= ()) -> no payload *)
Definition model_cell_variants : list (string * list string) :=
  [("Unit", []); ("True", []); ("False", []); ("Type", ["GarnishDataType"]); ("Number", ["BasicNumber"]);
   ("Char", ["char"]); ("Byte", ["u8"]); ("Symbol", ["u64"]); ("SymbolList", ["usize"]); ("Expression", ["usize"]);
   ("External", ["usize"]); ("CharList", ["usize"]); ("ByteList", ["usize"]); ("Pair", ["usize"; "usize"]);
   ("Range", ["usize"; "usize"]); ("Slice", ["usize"; "usize"]); ("Partial", ["usize"; "usize"]);
   ("List", ["usize"; "usize"]); ("Concatenation", ["usize"; "usize"]); ("Custom", ["T"]); ("Empty", []);
   ("UninitializedList", ["usize"; "usize"]); ("ListItem", ["usize"]); ("AssociativeItem", ["u64"; "usize"]);
   ("Value", ["usize"; "usize"]); ("ValueRoot", ["usize"]); ("Register", ["usize"; "usize"]); ("RegisterRoot", ["usize"]);
   ("InstructionWithData", ["Instruction"; "usize"]); ("Instruction", ["Instruction"]); ("JumpPoint", ["usize"]);
   ("Frame", ["usize"; "usize"]); ("FrameIndex", ["usize"]); ("FrameRegister", ["usize"]); ("FrameRoot", []);
   ("CloneItem", ["usize"]); ("CloneIndexMap", ["usize"; "usize"])].

Definition model_sdata_variants : list (string * list string) :=
  [("Unit", []); ("True", []); ("False", []); ("Type", ["GarnishDataType"]); ("Number", ["SimpleNumber"]);
   ("Char", ["char"]); ("Byte", ["u8"]); ("Symbol", ["u64"]); ("SymbolList", ["Vec<u64>"]); ("Expression", ["usize"]);
   ("External", ["usize"]); ("CharList", ["String"]); ("ByteList", ["Vec<u8>"]); ("Pair", ["usize"; "usize"]);
   ("Range", ["usize"; "usize"]); ("Slice", ["usize"; "usize"]); ("Partial", ["usize"; "usize"]);
   ("List", ["Vec<usize>"; "Vec<usize>"]); ("Concatenation", ["usize"; "usize"]); ("StackFrame", ["SimpleStackFrame"]);
   ("Custom", ["T"])].

Lemma basic_data_variants_agree : basic_data_variants = model_cell_variants.
Proof. reflexivity. Qed.

Lemma simple_data_variants_agree : simple_data_variants = model_sdata_variants.
Proof. reflexivity. Qed.

(* next_size: FixedSize(arg) => size + arg, Multiplicative(arg) => size * arg *)
Lemma next_size_arms_agree : next_size_arms = [("FixedSize", "size + arg"); ("Multiplicative", "size * arg")].
Proof. reflexivity. Qed.

Lemma next_size_model : forall st cur sz se k m,
  next_size (mkBlock st cur sz (mkSettings se None (FixedSize k))) = sz + k /\
  next_size (mkBlock st cur sz (mkSettings se None (Multiplicative m))) = sz * m.
Proof. intros. split; reflexivity. Qed.

Lemma default_settings_agree :
  default_storage_settings = (initial_size default_settings, "usize::MAX", "FixedSize", 10) /\
  default_settings = mkSettings 10 None (FixedSize 10).
Proof. split; reflexivity. Qed.
