(* (d), second half: identifier, whitespace, annotation and line-annotation tokens are
   maximal runs of the character class the lexer uses for them.  Instance of
   Proofs.C13.LexMaxGen. *)
From Coq Require Import NArith List Bool Lia.
From GV Require Import Base.Result Gen.TokenTypes Gen.Tokens Model.Lexer Spec.LexSpec
  Proofs.C13.LexBase Proofs.C13.LexInv Proofs.C13.LexRun Proofs.C13.LexOp Proofs.C13.LexMaxGen.
Import ListNotations.
Local Open Scope N_scope.

(* "the character after the token, if there is one, is not in class p" *)
Definition next_not (p : N -> bool) (nx : option N) : Prop :=
  match nx with Some c => p c = false | None => True end.

(* space, tab or line feed: what the Spaces / Subexpression states append to a whitespace token *)
Definition pad_lf (c : N) : bool := (c =? 32) || (c =? 9) || (c =? 10).

Lemma forallb_snoc : forall (p : N -> bool) a c, forallb p a = true -> p c = true -> forallb p (a ++ [c]) = true.
Proof. intros p a c Ha Hc. rewrite forallb_app, Ha. cbn. rewrite Hc. reflexivity. Qed.

Lemma byte_len_one : forall x r, (byte_len (x :: r) =? 1) = true -> r = [].
Proof.
  intros x r H. apply N.eqb_eq in H. cbn [byte_len] in H.
  pose proof (utf8_len_pos x). destruct r as [|y r]; [reflexivity|].
  cbn [byte_len] in H. pose proof (utf8_len_pos y). lia.
Qed.

Section Max.
  Variables un ua : N -> bool.
  Notation is_numeric := (is_numeric un).
  Notation is_alphanumeric := (is_alphanumeric ua).
  Notation is_identifier_char := (is_identifier_char ua).
  Notation start_token := (start_token un ua).
  Notation run_arm := (run_arm un ua).

  (* alphanumeric or '_': what the Annotation state appends *)
  Definition ann_char (c : N) : bool := is_alphanumeric c || (c =? 95).
  (* what keeps an identifier going: an identifier character, or a backtick (which turns it
     into a prefix/infix identifier token) *)
  Definition id_next (c : N) : bool := is_identifier_char c || (c =? 96).

  Definition id_shape (txt : list N) : Prop :=
    forallb is_identifier_char txt = true /\
    match txt with c :: _ => is_numeric c = false | [] => True end.
  Definition ws_shape (txt : list N) : Prop :=
    exists h r, txt = h :: r /\ is_ascii_whitespace h = true /\ forallb pad_lf r = true.
  Definition ann_shape (txt : list N) : Prop :=
    exists r, txt = 64 :: r /\ forallb ann_char r = true.
  Definition lann_open (txt : list N) : Prop :=
    exists b, txt = 64 :: 64 :: b /\ ~ In 10 b.

  Definition TM (ty : option token_type) (txt : list N) (nx : option N) : Prop :=
    (ty = Some TT_Identifier -> id_shape txt /\ next_not id_next nx) /\
    (ty = Some TT_Whitespace -> ws_shape txt /\ next_not pad_lf nx) /\
    (ty = Some TT_Annotation ->
       ann_shape txt /\ next_not ann_char nx /\ (txt = [64] -> next_not (fun c => c =? 64) nx)) /\
    (ty = Some TT_LineAnnotation ->
       exists b, ~ In 10 b /\ ((txt = 64 :: 64 :: b /\ nx = None) \/ txt = 64 :: 64 :: b ++ [10])).

  Definition Inv (l : lexer) : Prop :=
    (cur_ty l = Some TT_Identifier -> st l = SIdentifier) /\
    (cur_ty l = Some TT_Identifier -> id_shape (cur l)) /\
    (cur_ty l = Some TT_Whitespace -> st l = SSpaces \/ st l = SSubexpression) /\
    (st l = SSpaces \/ st l = SSubexpression -> ws_shape (cur l)) /\
    (cur_ty l = Some TT_Annotation -> st l = SAnnotation) /\
    (st l = SAnnotation -> ann_shape (cur l)) /\
    (cur_ty l = Some TT_LineAnnotation -> st l = SLineAnnotation) /\
    (st l = SLineAnnotation -> lann_open (cur l)).

  Lemma Inv_ext : forall l l', cur l = cur l' -> cur_ty l = cur_ty l' -> st l = st l' -> Inv l -> Inv l'.
  Proof. intros l l' E1 E2 E3. unfold Inv. rewrite E1, E2, E3. auto. Qed.

  Lemma Inv_idle : forall l, cur l = [] -> cur_ty l = None -> st l = SNoToken -> Inv l.
  Proof.
    intros l E1 E2 E3. unfold Inv. rewrite E1, E2, E3.
    repeat split; intros H; try discriminate H; destruct H; discriminate.
  Qed.

  Lemma id_shape_snoc : forall a c, a <> [] -> id_shape a -> is_identifier_char c = true -> id_shape (a ++ [c]).
  Proof.
    intros a c Hne [H1 H2] Hc. split; [apply forallb_snoc; assumption|].
    destruct a; [congruence | exact H2].
  Qed.
  Lemma ws_shape_snoc : forall a c, ws_shape a -> pad_lf c = true -> ws_shape (a ++ [c]).
  Proof.
    intros a c (h & r & -> & Hh & Hr) Hc. exists h, (r ++ [c]). split; [reflexivity|].
    split; [exact Hh | apply forallb_snoc; assumption].
  Qed.
  Lemma ann_shape_snoc : forall a c, ann_shape a -> ann_char c = true -> ann_shape (a ++ [c]).
  Proof.
    intros a c (r & -> & Hr) Hc. exists (r ++ [c]). split; [reflexivity | apply forallb_snoc; assumption].
  Qed.
  Lemma lann_open_snoc : forall a c, lann_open a -> c <> 10 -> lann_open (a ++ [c]).
  Proof.
    intros a c (b & -> & Hb) Hc. exists (b ++ [c]). split; [reflexivity|].
    intros Hin. apply in_app_or in Hin as [Hin|[Hin|[]]]; [exact (Hb Hin) | congruence].
  Qed.

  Ltac split_all := repeat match goal with |- _ /\ _ => split end.

  Ltac char_cases c :=
    unfold pad_lf, is_ascii_whitespace, ch_space, ch_tab, ch_lf, ch_ff, ch_cr in *;
    destruct (c =? 32) eqn:?, (c =? 9) eqn:?, (c =? 10) eqn:?, (c =? 12) eqn:?, (c =? 13) eqn:?;
    cbn in *; try congruence; try discriminate; try reflexivity.

  (* ------------------------------------------------------------ start_token *)
  Lemma Inv_start : forall l c, result (start_token l c) = None -> Inv (start_token l c).
  Proof.
    intros l c. unfold Lexer.start_token.
    destruct (current_operator _) eqn:Eop.
    - intros _. cbn in Eop. unfold Inv. cbn.
      assert (Hn : forall ty, nonop_ty (Some ty) = true -> o <> Some ty).
      { intros ty Hty ->. apply nonop_not_operator in Hty. apply Hty. exists [c].
        apply trie_lookup_in. exact Eop. }
      split_all; intros H; try discriminate H; try (destruct H; discriminate); exfalso.
      + eapply Hn; [|exact H]. auto with nonop.
      + eapply Hn; [|exact H]. auto with nonop.
      + eapply Hn; [|exact H]. auto with nonop.
      + eapply Hn; [|exact H]. auto with nonop.
      + eapply Hn; [|exact H]. auto with nonop.
    - repeat break_if; cbn; intros Hr; try discriminate; unfold Inv; cbn;
        split_all; intros H; try discriminate H; try (destruct H; discriminate); auto.
      + exists c, []. split_all; try reflexivity. char_cases c.
      + exists c, []. split_all; try reflexivity. assumption.
      + split; cbn; [|assumption].
        match goal with H : is_identifier_char c = true |- _ => rewrite H end. reflexivity.
      + exists []. match goal with H : (c =? ch_at) = true |- _ => apply N.eqb_eq in H; subst c end.
        split; reflexivity.
  Qed.

  (* -------------------------------------------------------------- state arms *)
  Ltac ty_contra :=
    exfalso;
    repeat match goal with
           | H : cur_ty ?l = Some ?T -> _ , Hty : cur_ty ?l = Some ?T |- _ => specialize (H Hty)
           end; intuition congruence.

  Ltac tm_open :=
    unfold TM; split_all; intros Hty; try discriminate Hty; try (solve [ty_contra]).

  Ltac arm_true :=
    split; [intros Hsct nx Hnx; try (cbn in Hsct; congruence) | intros Hscf nx; try (cbn in Hscf; congruence)];
    tm_open.

  Ltac arm_false :=
    intros Hr1; split;
    [ unfold Inv; cbn; split_all; intros Hh; try discriminate Hh; try (destruct Hh; discriminate); auto; try (solve [ty_contra])
    | intros t Ht; try discriminate Ht ].

  Ltac nx_cases Hnx := destruct Hnx as [->|[-> Hc0]]; cbn [next_not]; [exact I|].

  Notation arm_max := (arm_max Inv TM).

  Lemma op_not_nonop : forall p ty, current_operator p = Some (Some ty) -> nonop_ty (Some ty) = true -> False.
  Proof.
    intros p ty H Hn. apply nonop_not_operator in Hn. apply Hn. exists p. apply trie_lookup_in. exact H.
  Qed.

  Lemma starts_with_true : forall x s, starts_with x s = true -> exists r, s = x :: r.
  Proof. intros x [|y s] H; [discriminate|]. cbn in H. apply N.eqb_eq in H. subst. eexists; reflexivity. Qed.

  Lemma arm_Operator_max : forall l c, WF l -> Inv l -> result l = None -> st l = SOperator -> arm_max l c (run_arm l c).
  Proof.
    intros l c [[Hnt Htk Hsc _ _] _] (Hidty & Hid & Hwsty & Hws & Hannty & Hann & Hlannty & Hlann) Hres Hst.
    unfold Lexer.run_arm. rewrite Hst. unfold arm_operator.
    destruct (current_operator (cur (push l c))) eqn:Eop; [|repeat break_if]; unfold LexMaxGen.arm_max; cbn.
    all: try arm_true. all: try arm_false.
    all: try (exfalso; subst o; eapply op_not_nonop; [exact Eop | auto with nonop]; fail).
    apply andb_true_iff in Heqb as [H1 H2]. split; [exact H2|].
    apply starts_with_true in H1 as [r Hr]. cbn in Hr. rewrite Hr. reflexivity.
  Qed.

  Lemma arm_Identifier_max : forall l c, WF l -> Inv l -> result l = None -> st l = SIdentifier -> arm_max l c (run_arm l c).
  Proof.
    intros l c [[Hnt Htk Hsc _ _] _] (Hidty & Hid & Hwsty & Hws & Hannty & Hann & Hlannty & Hlann) Hres Hst.
    unfold Lexer.run_arm. rewrite Hst. unfold arm_identifier.
    repeat break_if; unfold LexMaxGen.arm_max; cbn.
    all: try arm_true. all: try arm_false.
    - apply id_shape_snoc; auto. apply Htk; congruence.
    - split; [auto|]. nx_cases Hnx. unfold id_next. change ch_backtick with 96 in *. rewrite Heqb, Heqb0. reflexivity.
  Qed.

  Lemma arm_Spaces_max : forall l c, WF l -> Inv l -> result l = None -> st l = SSpaces -> arm_max l c (run_arm l c).
  Proof.
    intros l c [[Hnt Htk Hsc _ _] _] (Hidty & Hid & Hwsty & Hws & Hannty & Hann & Hlannty & Hlann) Hres Hst.
    unfold Lexer.run_arm. rewrite Hst. unfold arm_spaces.
    repeat break_if; unfold LexMaxGen.arm_max; cbn.
    all: try arm_true. all: try arm_false.
    - apply ws_shape_snoc; [apply Hws; auto|]. char_cases c.
    - split; [apply Hws; auto|]. nx_cases Hnx. char_cases c.
    - apply ws_shape_snoc; [apply Hws; auto|]. char_cases c.
  Qed.

  Lemma arm_Subexpression_max : forall l c, WF l -> Inv l -> result l = None -> st l = SSubexpression -> arm_max l c (run_arm l c).
  Proof.
    intros l c [[Hnt Htk Hsc _ _] _] (Hidty & Hid & Hwsty & Hws & Hannty & Hann & Hlannty & Hlann) Hres Hst.
    unfold Lexer.run_arm. rewrite Hst. unfold arm_subexpression.
    repeat break_if; unfold LexMaxGen.arm_max; cbn.
    all: try arm_true. all: try arm_false.
    - apply ws_shape_snoc; [apply Hws; auto|]. char_cases c.
    - split; [apply Hws; auto|]. nx_cases Hnx. char_cases c.
  Qed.

  Lemma arm_Annotation_max : forall l c, WF l -> Inv l -> result l = None -> st l = SAnnotation -> arm_max l c (run_arm l c).
  Proof.
    intros l c [[Hnt Htk Hsc _ _] _] (Hidty & Hid & Hwsty & Hws & Hannty & Hann & Hlannty & Hlann) Hres Hst.
    unfold Lexer.run_arm. rewrite Hst. unfold arm_annotation.
    repeat break_if; unfold LexMaxGen.arm_max; cbn.
    all: try arm_true. all: try arm_false.
    - apply andb_true_iff in Heqb as [H1 H2]. apply N.eqb_eq in H1. subst c.
      destruct (Hann Hst) as (r & Hr & _). rewrite Hr in *. apply byte_len_one in H2. subst r.
      exists []. split; [reflexivity | intros []].
    - apply ann_shape_snoc; [auto|]. exact Heqb0.
    - split; [auto|]. split.
      + nx_cases Hnx. exact Heqb0.
      + intros Hcur. nx_cases Hnx. rewrite Hcur in Heqb. cbn in Heqb. rewrite andb_true_r in Heqb. exact Heqb.
  Qed.

  Lemma arm_LineAnnotation_max : forall l c, WF l -> Inv l -> result l = None -> st l = SLineAnnotation -> arm_max l c (run_arm l c).
  Proof.
    intros l c [[Hnt Htk Hsc _ _] _] (Hidty & Hid & Hwsty & Hws & Hannty & Hann & Hlannty & Hlann) Hres Hst.
    unfold Lexer.run_arm. rewrite Hst. unfold arm_line_annotation.
    repeat break_if; unfold LexMaxGen.arm_max; cbn.
    all: try arm_true. all: try arm_false.
    - destruct (Hlann Hst) as (b & Hb & Hnb). exists b. split; [exact Hnb|]. right.
      rewrite Hb. apply N.eqb_eq in Heqb. subst c. reflexivity.
    - destruct (Hlann Hst) as (b & Hb & Hnb). exists b. split; [exact Hnb|]. left. split; [exact Hb|].
      destruct Hnx as [->|[_ Hc0]]; [reflexivity|]. apply N.eqb_eq in Heqb0. change ch_nul with 0 in Heqb0. congruence.
    - apply lann_open_snoc; [auto|]. apply N.eqb_neq. exact Heqb.
  Qed.

  Ltac other_state arm :=
    intros l c [[Hnt Htk Hsc _ _] _] (Hidty & Hid & Hwsty & Hws & Hannty & Hann & Hlannty & Hlann) Hres Hst;
    unfold Lexer.run_arm; rewrite Hst; unfold arm;
    repeat break_if; unfold LexMaxGen.arm_max; cbn;
    try arm_true; try arm_false.

  Lemma arm_Number_max : forall l c, WF l -> Inv l -> result l = None -> st l = SNumber -> arm_max l c (run_arm l c).
  Proof. other_state arm_number. Qed.

  Lemma arm_Float_max : forall l c, WF l -> Inv l -> result l = None -> st l = SFloat -> arm_max l c (run_arm l c).
  Proof.
    intros l c [[Hnt Htk Hsc _ _] _] (Hidty & Hid & Hwsty & Hws & Hannty & Hann & Hlannty & Hlann) Hres Hst.
    unfold Lexer.run_arm. rewrite Hst. unfold arm_float.
    destruct (is_number_char un ua c).
    - unfold LexMaxGen.arm_max; cbn. arm_false.
    - destruct ((c =? ch_period) && ends_with ch_period (cur l)) eqn:Esplit.
      + apply andb_true_iff in Esplit as [Hc Hend]. apply N.eqb_eq in Hc. subst c.
        destruct (text_col (set_start_row l (text_row l)) =? 0); [exact I|].
        change ch_period with 46.
        change (push (set_start_col (start_token (set_start_row l (text_row l)) 46)
                        (text_col (set_start_row l (text_row l)) - 1)) 46) with (float_split_state un ua l).
        rewrite float_split_state_eq. cbn [cur]. rewrite current_operator_range.
        unfold LexMaxGen.arm_max. intros _. split.
        * unfold Inv; cbn; split_all; intros Hh; try discriminate Hh; destruct Hh; discriminate.
        * intros t Ht. inversion Ht; subst. cbn. exists 46. split; [reflexivity|]. tm_open.
      + unfold LexMaxGen.arm_max; cbn. arm_true.
  Qed.

  Lemma arm_CharList_max : forall l c, WF l -> Inv l -> result l = None -> st l = SCharList -> arm_max l c (run_arm l c).
  Proof. other_state arm_list. Qed.
  Lemma arm_ByteList_max : forall l c, WF l -> Inv l -> result l = None -> st l = SByteList -> arm_max l c (run_arm l c).
  Proof. other_state arm_list. Qed.
  Lemma arm_StartCharList_max : forall l c, WF l -> Inv l -> result l = None -> st l = SStartCharList -> arm_max l c (run_arm l c).
  Proof. other_state arm_start_list. Qed.
  Lemma arm_StartByteList_max : forall l c, WF l -> Inv l -> result l = None -> st l = SStartByteList -> arm_max l c (run_arm l c).
  Proof. other_state arm_start_list. Qed.

  Lemma Inv_arm : forall l c, WF l -> Inv l -> result l = None -> arm_max l c (run_arm l c).
  Proof.
    intros l c Hwf Hinv Hres. destruct (st l) eqn:Hst.
    - unfold Lexer.run_arm. rewrite Hst. unfold LexMaxGen.arm_max. intros Hr.
      split; [apply Inv_start; exact Hr | intros t Ht; discriminate Ht].
    - apply arm_Operator_max; auto.
    - apply arm_Spaces_max; auto.
    - apply arm_Subexpression_max; auto.
    - apply arm_Number_max; auto.
    - apply arm_Float_max; auto.
    - apply arm_Identifier_max; auto.
    - apply arm_Annotation_max; auto.
    - apply arm_LineAnnotation_max; auto.
    - apply arm_CharList_max; auto.
    - apply arm_StartCharList_max; auto.
    - apply arm_ByteList_max; auto.
    - apply arm_StartByteList_max; auto.
  Qed.

  (* ------------------------------------------------------------- the theorems *)
  Theorem lex_tokens_TM : forall s ts,
    lex un ua s = Ok ts ->
    forall pre t post, ts = pre ++ t :: post ->
      TM (Some (tok_type t)) (tok_text t) (hd_error (texts post)).
  Proof. exact (lex_tokens_max un ua Inv TM Inv_ext Inv_idle Inv_start Inv_arm). Qed.
End Max.

(* ------------------------------------------------- readable forms, one per class *)
Lemma hd_error_none : forall (s : list N), hd_error s = None -> s = [].
Proof. intros [|x s] H; [reflexivity | discriminate]. Qed.

Theorem lex_identifier_maximal : forall un ua s ts,
  lex un ua s = Ok ts ->
  forall pre t post, ts = pre ++ t :: post -> tok_type t = TT_Identifier ->
    forallb (is_identifier_char ua) (tok_text t) = true /\
    match tok_text t with c :: _ => is_numeric un c = false | [] => True end /\
    match concat (map tok_text post) with
    | c :: _ => is_identifier_char ua c = false /\ c <> 96
    | [] => True
    end.
Proof.
  intros un ua s ts H pre t post E Hty.
  destruct (lex_tokens_TM un ua s ts H pre t post E) as (Hid & _).
  destruct (Hid (f_equal Some Hty)) as [[H1 H2] H3]. split; [exact H1|]. split; [exact H2|].
  unfold texts in H3. destruct (concat (map tok_text post)) as [|c r]; [exact I|].
  cbn in H3. unfold id_next in H3. apply orb_false_iff in H3 as [H3 H4]. split; [exact H3|].
  apply N.eqb_neq. exact H4.
Qed.

(* the same in the vocabulary of Spec.LexSpec *)
Theorem lex_identifier_right_maximal : forall un ua s ts,
  lex un ua s = Ok ts -> right_maximal (is_identifier_char ua) TT_Identifier ts.
Proof.
  intros un ua s ts H pre t post E Hty.
  destruct (lex_identifier_maximal un ua s ts H pre t post E Hty) as (H1 & _ & H3).
  split; [exact H1|]. unfold texts. destruct (concat (map tok_text post)); [exact I | exact (proj1 H3)].
Qed.

Theorem lex_whitespace_maximal : forall un ua s ts,
  lex un ua s = Ok ts ->
  forall pre t post, ts = pre ++ t :: post -> tok_type t = TT_Whitespace ->
    (exists h r, tok_text t = h :: r /\ is_ascii_whitespace h = true /\
                 forallb (fun c => (c =? 32) || (c =? 9) || (c =? 10)) r = true) /\
    match concat (map tok_text post) with
    | c :: _ => (c =? 32) || (c =? 9) || (c =? 10) = false
    | [] => True
    end.
Proof.
  intros un ua s ts H pre t post E Hty.
  destruct (lex_tokens_TM un ua s ts H pre t post E) as (_ & Hws & _).
  destruct (Hws (f_equal Some Hty)) as [H1 H2]. split; [exact H1|].
  unfold texts in H2. destruct (concat (map tok_text post)) as [|c r]; [exact I | exact H2].
Qed.

Theorem lex_annotation_maximal : forall un ua s ts,
  lex un ua s = Ok ts ->
  forall pre t post, ts = pre ++ t :: post -> tok_type t = TT_Annotation ->
    (exists r, tok_text t = 64 :: r /\
               forallb (fun c => is_alphanumeric ua c || (c =? 95)) r = true) /\
    match concat (map tok_text post) with
    | c :: _ => is_alphanumeric ua c || (c =? 95) = false /\ (tok_text t = [64] -> c <> 64)
    | [] => True
    end.
Proof.
  intros un ua s ts H pre t post E Hty.
  destruct (lex_tokens_TM un ua s ts H pre t post E) as (_ & _ & Han & _).
  destruct (Han (f_equal Some Hty)) as (H1 & H2 & H3). split; [exact H1|].
  unfold texts in H2, H3. destruct (concat (map tok_text post)) as [|c r]; [exact I|].
  split; [exact H2|]. intros Ht. apply N.eqb_neq. exact (H3 Ht).
Qed.

Theorem lex_line_annotation_maximal : forall un ua s ts,
  lex un ua s = Ok ts ->
  forall pre t post, ts = pre ++ t :: post -> tok_type t = TT_LineAnnotation ->
    exists b, ~ In 10 b /\
      ((tok_text t = 64 :: 64 :: b /\ concat (map tok_text post) = []) \/
       tok_text t = 64 :: 64 :: b ++ [10]).
Proof.
  intros un ua s ts H pre t post E Hty.
  destruct (lex_tokens_TM un ua s ts H pre t post E) as (_ & _ & _ & Hla).
  destruct (Hla (f_equal Some Hty)) as (b & Hb & Hc). exists b. split; [exact Hb|].
  destruct Hc as [[Ht Hn]|Ht]; [left | right; exact Ht]. split; [exact Ht|].
  apply hd_error_none. exact Hn.
Qed.
