//! Value trees in a small textual format, built on either data implementation.
//! Included by the cmp and eq harness binaries with `#[path = "../valtree.rs"] mod valtree;`.
//!
//! Grammar (ASCII, no tabs; items inside parentheses are separated by one space):
//!   U | T | F                      unit, true, false
//!   i<hex> | f<16 hex digits>      number (i32 sign+magnitude hex | f64 bit pattern)
//!   c<hex>                         char (code point)
//!   b<hex>                         byte
//!   s<hex>                         symbol (u64 value)
//!   Y<decimal>                     type value (index into GarnishDataType, see `type_of_index`)
//!   E<hex> | X<hex>                expression / external
//!   C[h,h,..]  B[h,h,..]           char list (code points) / byte list; C[] B[] are empty
//!   S[h,h,..]                      symbol list (u64 values; built with merge_to_symbol_list, so >= 2 parts)
//!   (P a b) (K a b) (R a b) (Z a b) (A a b)   pair, concatenation, range, slice, partial
//!   (L a b ..)                     list; (L) is the empty list
//!   !v                             build v by the alternate route (different constructor, never interned)
//!   #name=v                        build v and remember its address under `name`
//!   $name                          the remembered address again (a shared sub-value)
#![allow(dead_code)]
use garnish_lang_simple_data::{BasicGarnishData, DataError, NoCustom, SimpleGarnishData, SimpleNumber};
use garnish_lang_traits::{GarnishData, GarnishDataType};
use std::collections::HashMap;

#[derive(Debug, Clone)]
pub enum V {
    Unit,
    True,
    False,
    Type(usize),
    Num(SimpleNumber),
    Char(char),
    Byte(u8),
    Sym(u64),
    Expr(usize),
    External(usize),
    Chars(Vec<char>),
    Bytes(Vec<u8>),
    SymList(Vec<u64>),
    Pair(Box<V>, Box<V>),
    Concat(Box<V>, Box<V>),
    Range(Box<V>, Box<V>),
    Slice(Box<V>, Box<V>),
    Partial(Box<V>, Box<V>),
    List(Vec<V>),
    Alt(Box<V>),
    Def(String, Box<V>),
    Ref(String),
}

pub fn type_of_index(i: usize) -> GarnishDataType {
    use GarnishDataType::*;
    [
        Invalid, Unit, Number, Type, Char, CharList, Byte, ByteList, Symbol, SymbolList, Pair, Range, Concatenation, Slice, Partial, List,
        Expression, External, True, False, Custom,
    ][i]
}

pub struct Parser<'a> {
    s: &'a [u8],
    pub i: usize,
}

impl<'a> Parser<'a> {
    pub fn new(s: &'a str) -> Self {
        Parser { s: s.as_bytes(), i: 0 }
    }
    fn peek(&self) -> u8 {
        if self.i < self.s.len() { self.s[self.i] } else { 0 }
    }
    pub fn skip_spaces(&mut self) {
        while self.peek() == b' ' {
            self.i += 1;
        }
    }
    pub fn at_end(&self) -> bool {
        self.i >= self.s.len()
    }
    fn word(&mut self) -> String {
        let st = self.i;
        while self.i < self.s.len() && !matches!(self.s[self.i], b' ' | b')' | b'(' | b',' | b']' | b'[' | b'=') {
            self.i += 1;
        }
        String::from_utf8(self.s[st..self.i].to_vec()).expect("ascii")
    }
    fn hex_list(&mut self) -> Vec<u64> {
        assert_eq!(self.peek(), b'[', "expected [");
        self.i += 1;
        let mut out = vec![];
        loop {
            if self.peek() == b']' {
                self.i += 1;
                break;
            }
            if self.peek() == b',' {
                self.i += 1;
                continue;
            }
            let w = self.word();
            out.push(u64::from_str_radix(&w, 16).expect("hex item"));
        }
        out
    }
    fn two(&mut self) -> (Box<V>, Box<V>) {
        self.skip_spaces();
        let a = self.value();
        self.skip_spaces();
        let b = self.value();
        self.skip_spaces();
        assert_eq!(self.peek(), b')', "expected )");
        self.i += 1;
        (Box::new(a), Box::new(b))
    }
    pub fn value(&mut self) -> V {
        let c = self.peek();
        self.i += 1;
        match c {
            b'U' => V::Unit,
            b'T' => V::True,
            b'F' => V::False,
            b'i' => {
                let w = self.word();
                let (neg, body) = match w.strip_prefix('-') {
                    Some(r) => (true, r.to_string()),
                    None => (false, w),
                };
                let m = i64::from_str_radix(&body, 16).expect("hex int");
                V::Num(SimpleNumber::Integer((if neg { -m } else { m }) as i32))
            }
            b'f' => {
                let w = self.word();
                V::Num(SimpleNumber::Float(f64::from_bits(u64::from_str_radix(&w, 16).expect("bits"))))
            }
            b'c' => {
                let w = self.word();
                V::Char(char::from_u32(u32::from_str_radix(&w, 16).expect("hex")).expect("code point"))
            }
            b'b' => {
                let w = self.word();
                V::Byte(u8::from_str_radix(&w, 16).expect("hex byte"))
            }
            b's' => {
                let w = self.word();
                V::Sym(u64::from_str_radix(&w, 16).expect("hex sym"))
            }
            b'Y' => {
                let w = self.word();
                V::Type(w.parse().expect("type index"))
            }
            b'E' => {
                let w = self.word();
                V::Expr(usize::from_str_radix(&w, 16).expect("hex"))
            }
            b'X' => {
                let w = self.word();
                V::External(usize::from_str_radix(&w, 16).expect("hex"))
            }
            b'C' => V::Chars(self.hex_list().into_iter().map(|c| char::from_u32(c as u32).expect("code point")).collect()),
            b'B' => V::Bytes(self.hex_list().into_iter().map(|b| b as u8).collect()),
            b'S' => V::SymList(self.hex_list()),
            b'!' => V::Alt(Box::new(self.value())),
            b'#' => {
                let name = self.word();
                assert_eq!(self.peek(), b'=', "expected =");
                self.i += 1;
                V::Def(name, Box::new(self.value()))
            }
            b'$' => V::Ref(self.word()),
            b'(' => {
                let k = self.peek();
                self.i += 1;
                match k {
                    b'P' => {
                        let (a, b) = self.two();
                        V::Pair(a, b)
                    }
                    b'K' => {
                        let (a, b) = self.two();
                        V::Concat(a, b)
                    }
                    b'R' => {
                        let (a, b) = self.two();
                        V::Range(a, b)
                    }
                    b'Z' => {
                        let (a, b) = self.two();
                        V::Slice(a, b)
                    }
                    b'A' => {
                        let (a, b) = self.two();
                        V::Partial(a, b)
                    }
                    b'L' => {
                        let mut items = vec![];
                        loop {
                            self.skip_spaces();
                            if self.peek() == b')' {
                                self.i += 1;
                                break;
                            }
                            items.push(self.value());
                        }
                        V::List(items)
                    }
                    _ => panic!("bad form"),
                }
            }
            _ => panic!("bad value syntax at {}", self.i),
        }
    }
}

/// Parse a line holding `n` values separated by spaces.
pub fn parse_values(line: &str) -> Vec<V> {
    let mut p = Parser::new(line);
    let mut out = vec![];
    loop {
        p.skip_spaces();
        if p.at_end() {
            break;
        }
        out.push(p.value());
    }
    out
}

/// What the two data implementations share, plus their own raw constructors.
pub trait Store: GarnishData<Number = SimpleNumber, Char = char, Byte = u8, Symbol = u64, Size = usize, Error = DataError> {
    const NAME: &'static str;
    fn fresh() -> Self;
    fn chars_primary(&mut self, cs: &[char]) -> Result<usize, DataError>;
    fn chars_alt(&mut self, cs: &[char]) -> Result<usize, DataError>;
    fn bytes_primary(&mut self, bs: &[u8]) -> Result<usize, DataError>;
    fn bytes_alt(&mut self, bs: &[u8]) -> Result<usize, DataError>;
}

fn escaped_literal(cs: &[char]) -> String {
    let mut s = String::from("\"");
    for c in cs {
        s.push_str(&format!("\\u{{{:x}}}", *c as u32));
    }
    s.push('"');
    s
}

fn byte_number_literal(bs: &[u8]) -> String {
    let parts: Vec<String> = bs.iter().map(|b| b.to_string()).collect();
    format!("''{}''", parts.join(" "))
}

impl Store for SimpleGarnishData<NoCustom> {
    const NAME: &'static str = "S";
    fn fresh() -> Self {
        SimpleGarnishData::new()
    }
    fn chars_primary(&mut self, cs: &[char]) -> Result<usize, DataError> {
        self.start_char_list()?;
        for c in cs {
            self.add_to_char_list(*c)?;
        }
        self.end_char_list()
    }
    fn chars_alt(&mut self, cs: &[char]) -> Result<usize, DataError> {
        self.add_string(cs.iter().collect::<String>())
    }
    fn bytes_primary(&mut self, bs: &[u8]) -> Result<usize, DataError> {
        self.start_byte_list()?;
        for b in bs {
            self.add_to_byte_list(*b)?;
        }
        self.end_byte_list()
    }
    fn bytes_alt(&mut self, bs: &[u8]) -> Result<usize, DataError> {
        self.add_u8_vec(bs.to_vec())
    }
}

impl Store for BasicGarnishData {
    const NAME: &'static str = "B";
    fn fresh() -> Self {
        BasicGarnishData::new(garnish_lang_simple_data::NoOpCompanion::new()).expect("basic data")
    }
    fn chars_primary(&mut self, cs: &[char]) -> Result<usize, DataError> {
        // all-ASCII literal with \u{..} escapes: independent of how multi-byte source text is measured
        self.parse_add_char_list(&escaped_literal(cs))
    }
    fn chars_alt(&mut self, cs: &[char]) -> Result<usize, DataError> {
        if cs.iter().all(|c| c.is_ascii()) {
            self.add_string(&cs.iter().collect::<String>())
        } else {
            self.parse_add_char_list(&escaped_literal(cs))
        }
    }
    fn bytes_primary(&mut self, bs: &[u8]) -> Result<usize, DataError> {
        self.add_byte_slice(bs)
    }
    fn bytes_alt(&mut self, bs: &[u8]) -> Result<usize, DataError> {
        if bs.is_empty() { self.add_byte_slice(bs) } else { self.parse_add_byte_list(&byte_number_literal(bs)) }
    }
}

pub struct Builder {
    pub names: HashMap<String, usize>,
}

impl Builder {
    pub fn new() -> Self {
        Builder { names: HashMap::new() }
    }

    pub fn build<D: Store>(&mut self, d: &mut D, v: &V, alt: bool) -> Result<usize, DataError> {
        Ok(match v {
            V::Unit => d.add_unit()?,
            V::True => d.add_true()?,
            V::False => d.add_false()?,
            V::Type(i) => d.add_type(type_of_index(*i))?,
            V::Num(n) => d.add_number(*n)?,
            V::Char(c) => d.add_char(*c)?,
            V::Byte(b) => d.add_byte(*b)?,
            V::Sym(s) => d.add_symbol(*s)?,
            V::Expr(e) => d.add_expression(*e)?,
            V::External(e) => d.add_external(*e)?,
            V::Chars(cs) => {
                if alt { d.chars_alt(cs)? } else { d.chars_primary(cs)? }
            }
            V::Bytes(bs) => {
                if alt { d.bytes_alt(bs)? } else { d.bytes_primary(bs)? }
            }
            V::SymList(parts) => {
                assert!(parts.len() >= 2, "symbol lists are built by merging, need two parts");
                let mut acc = d.add_symbol(parts[0])?;
                for p in &parts[1..] {
                    let s = d.add_symbol(*p)?;
                    acc = d.merge_to_symbol_list(acc, s)?;
                }
                acc
            }
            V::Pair(a, b) => {
                let (x, y) = self.two(d, a, b, alt)?;
                d.add_pair((x, y))?
            }
            V::Concat(a, b) => {
                let (x, y) = self.two(d, a, b, alt)?;
                d.add_concatenation(x, y)?
            }
            V::Range(a, b) => {
                let (x, y) = self.two(d, a, b, alt)?;
                d.add_range(x, y)?
            }
            V::Slice(a, b) => {
                let (x, y) = self.two(d, a, b, alt)?;
                d.add_slice(x, y)?
            }
            V::Partial(a, b) => {
                let (x, y) = self.two(d, a, b, alt)?;
                d.add_partial(x, y)?
            }
            V::List(items) => {
                let mut addrs = vec![];
                for it in items {
                    addrs.push(self.build(d, it, alt)?);
                }
                let l = d.start_list(addrs.len())?;
                for a in addrs {
                    d.add_to_list(l, a)?;
                }
                d.end_list(l)?
            }
            V::Alt(inner) => self.build(d, inner, true)?,
            V::Def(name, inner) => {
                let a = self.build(d, inner, alt)?;
                self.names.insert(name.clone(), a);
                a
            }
            V::Ref(name) => *self.names.get(name).expect("undefined $name"),
        })
    }

    fn two<D: Store>(&mut self, d: &mut D, a: &V, b: &V, alt: bool) -> Result<(usize, usize), DataError> {
        let x = self.build(d, a, alt)?;
        let y = self.build(d, b, alt)?;
        Ok((x, y))
    }
}

/// Read a boolean/unit result back through the getters only.
pub fn show_result<D: Store>(d: &D, addr: usize) -> String {
    match d.get_data_type(addr) {
        Ok(GarnishDataType::True) => "T".to_string(),
        Ok(GarnishDataType::False) => "F".to_string(),
        Ok(GarnishDataType::Unit) => "U".to_string(),
        Ok(_) => "?".to_string(),
        Err(_) => "?".to_string(),
    }
}
