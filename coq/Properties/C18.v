(* C18  Layout that carries no meaning does not change the result.
   Only statements, [exact] and [Print Assumptions] live here. *)
From Coq Require Import List Arith Bool NArith.
From GV Require Import Base.Result Gen.TokenTypes Gen.Defs Model.Parser Spec.Layout Spec.LayoutSim
  Proofs.C03.Bounded4 Proofs.C18.Bounded Proofs.C18.Sim Proofs.C18.Trim Proofs.C18.Main
  Proofs.C18.Insert Proofs.C18.Always.
From GV Require Import Spec.RefTable Spec.Pratt Spec.Chains Proofs.C18.ViaPratt Proofs.C18.ViaPrattParens.
Import ListNotations.

(* The parser model takes a list of token TYPES: the text of a whitespace run, of an
   annotation or of any other token cannot influence the tree (the real parser is
   compared with this model node-for-node on every run). *)

(* Token level, every sequence of at most three non-trivia tokens over the
   representative alphabet that does not begin or end with a separator:
   - putting an annotation into a gap (with or without surrounding whitespace) changes
     neither acceptance nor the tree;
   - any two whitespace spellings of the gaps that are both accepted give the same tree;
   - parentheses around a complete operand (no separator, no side-effect bracket) change
     the tree only by group nodes. *)
Theorem C18_layout_transparent_bounded_3_rep : forall s : list token_type,
  length s <= 3 -> (forall t, In t s -> In t plain_alphabet) -> fragment s = true ->
  annotation_ok s = true /\ whitespace_ok s = true /\
  (existsb not_operand_tok s = false -> paren_ok s = true).
Proof. exact layout_transparent_bounded_3_rep. Qed.
Print Assumptions C18_layout_transparent_bounded_3_rep.

(* full statement (unbounded; not proved): *)
Definition C18_full_statement : Prop :=
  forall s : list token_type, fragment s = true ->
    annotation_ok s = true /\ whitespace_ok s = true /\
    (existsb not_operand_tok s = false -> paren_ok s = true).

(* non-vacuity: the three clauses say something on a real expression, and the tree
   comparison does distinguish different trees *)
Example C18_ex :
  annotation_ok [TT_Number; TT_PlusSign; TT_Number] = true /\
  parse_tree [TT_Number; TT_Whitespace; TT_Annotation; TT_Whitespace; TT_PlusSign; TT_Number]
    = parse_tree [TT_Number; TT_PlusSign; TT_Number] /\
  parse_tree [TT_Number; TT_PlusSign; TT_Number] <> None /\
  opt_gtree_eqb (parse_tree [TT_Number; TT_PlusSign; TT_Number])
                (parse_tree [TT_Number; TT_MultiplicationSign; TT_Number]) = false.
Proof. vm_compute. repeat split; try reflexivity; discriminate. Qed.

(* ------------------------------------------------------------------------------------
   Unbounded part: whitespace / annotation / comment-line rewrites, for EVERY token list
   (induction over the main loop; no bound on the length, no restriction of the alphabet,
   no condition on where in the program the rewrite is applied).

   [trivia_run d]: d is a non-empty run of whitespace / annotation / line-annotation
   tokens; [has_ws d]: it contains a whitespace token (Spec/LayoutSim.v).
   [has_sig l]: l has a token that trim_tokens keeps, i.e. one that is not whitespace, a
   blank-line separator, an annotation or a comment line. *)

(* the parser's main loop cannot tell token indices apart: related states stay related *)
Theorem C18_step_ignores_token_indices : forall n i n' i' tok st st',
  eq_mod_tok st st' -> Nat.leb n (i + 1) = Nat.leb n' (i' + 1) ->
  res_eq_mod_tok (step n i tok st) (step n' i' tok st').
Proof. exact step_congr. Qed.
Print Assumptions C18_step_ignores_token_indices.

(* whitespace, blank-line separators, annotations and comment lines at either end of the
   program are ignored *)
Theorem C18_trim_ends : forall a s b : list token_type,
  has_sig a = false -> has_sig b = false -> parse_tree (a ++ s ++ b) = parse_tree s.
Proof. exact parse_tree_trim_ends. Qed.
Print Assumptions C18_trim_ends.

(* Before its first real work on a token, [step] moves last_left from a closed side-effect
   block that hangs under a parent and took no left operand to that parent.
   [settled_after pre] (Spec/LayoutSim.v): in the state after the prefix [pre], doing that
   once more changes nothing.  It holds after EVERY prefix (parser-state invariant: node ids
   grow, everything created after an open group hangs inside it, so the parent walk never
   climbs past the innermost open group, open groups are never re-parented, and a
   side-effect block under a left-less side-effect block is under the enclosing one) *)
Theorem C18_settled_always : forall pre : list token_type, settled_after pre.
Proof. exact settled_always. Qed.
Print Assumptions C18_settled_always.

(* between the same tokens (or at either end of the program), two trivia runs of the same
   kind are indistinguishable: same acceptance, same tree *)
Theorem C18_trivia_runs_full : forall pre post d d' : list token_type,
  trivia_run d = true -> trivia_run d' = true -> has_ws d = has_ws d' ->
  opt_gtree_eqb (parse_tree (pre ++ d ++ post)) (parse_tree (pre ++ d' ++ post)) = true.
Proof. exact trivia_runs_everywhere. Qed.
Print Assumptions C18_trivia_runs_full.

(* the named rewrites: an annotation (or comment line) next to whitespace is invisible *)
Theorem C18_annotation_next_to_whitespace_full : forall (pre post : list token_type) (a : token_type),
  is_annotation_tok a = true ->
  opt_gtree_eqb (parse_tree (pre ++ [TT_Whitespace] ++ post))
                (parse_tree (pre ++ [TT_Whitespace; a; TT_Whitespace] ++ post)) = true /\
  opt_gtree_eqb (parse_tree (pre ++ [TT_Whitespace] ++ post))
                (parse_tree (pre ++ [a; TT_Whitespace] ++ post)) = true /\
  opt_gtree_eqb (parse_tree (pre ++ [TT_Whitespace] ++ post))
                (parse_tree (pre ++ [TT_Whitespace; a] ++ post)) = true.
Proof. exact annotation_next_to_whitespace_everywhere. Qed.
Print Assumptions C18_annotation_next_to_whitespace_full.

(* ... and any number of adjacent whitespace tokens behaves as one *)
Theorem C18_whitespace_repetition_full : forall (pre post : list token_type) (k : nat),
  opt_gtree_eqb (parse_tree (pre ++ [TT_Whitespace] ++ post))
                (parse_tree (pre ++ repeat TT_Whitespace (S k) ++ post)) = true.
Proof. exact whitespace_repetition_everywhere. Qed.
Print Assumptions C18_whitespace_repetition_full.

(* an annotation or comment line inserted ANYWHERE in an accepted program (with or without
   whitespace in that gap, e.g. a comment line right after a blank line, a header comment
   before a blank line): still accepted, same tree.  One direction only: `5 [](1)` is a
   composition error while `5 []@a(1)` is accepted (example below) *)
Theorem C18_annotation_insert_full : forall (pre post : list token_type) (a : token_type) (t : gtree),
  is_annotation_tok a = true ->
  parse_tree (pre ++ post) = Some t -> parse_tree (pre ++ [a] ++ post) = Some t.
Proof. exact annotation_insert_everywhere. Qed.
Print Assumptions C18_annotation_insert_full.

(* non-vacuity.  `(5+a) 7 (b,3)`: 13 tokens, two groups, a space list of three items; the
   program is accepted, and the theorem's conclusion is the concrete fact that a comment
   in its first gap is invisible *)
Definition ex_pre : list token_type :=
  [TT_StartGroup; TT_Number; TT_PlusSign; TT_Identifier; TT_EndGroup].
Definition ex_post : list token_type :=
  [TT_Number; TT_Whitespace; TT_StartGroup; TT_Identifier; TT_Comma; TT_Number; TT_EndGroup].
Example C18_ex_unbounded_hypotheses :
  trivia_run [TT_Whitespace; TT_LineAnnotation; TT_Whitespace] = true /\
  parse_tree (ex_pre ++ [TT_Whitespace] ++ ex_post) <> None /\
  (exists l x r, parse_tree (ex_pre ++ [TT_Whitespace] ++ ex_post) = Some (GN D_List (GN D_List l x) r)).
Proof.
  vm_compute. repeat split; try reflexivity; try discriminate.
  eexists _, _, _. reflexivity.
Qed.
Example C18_ex_unbounded_instance :
  opt_gtree_eqb (parse_tree (ex_pre ++ [TT_Whitespace] ++ ex_post))
                (parse_tree (ex_pre ++ [TT_Whitespace; TT_LineAnnotation; TT_Whitespace] ++ ex_post)) = true.
Proof. apply C18_trivia_runs_full; reflexivity. Qed.
(* a gap right after a side-effect block: `5 [1] 7 (2)` with a comment in the gap after `]` *)
Definition ex_pre3 : list token_type :=
  [TT_Number; TT_Whitespace; TT_StartSideEffect; TT_Number; TT_EndSideEffect].
Definition ex_post3 : list token_type := [TT_Number; TT_Whitespace; TT_StartGroup; TT_Number; TT_EndGroup].
Example C18_ex_after_block :
  parse_tree (ex_pre3 ++ [TT_Whitespace] ++ ex_post3) <> None /\
  opt_gtree_eqb (parse_tree (ex_pre3 ++ [TT_Whitespace] ++ ex_post3))
                (parse_tree (ex_pre3 ++ [TT_Whitespace; TT_Annotation; TT_Whitespace] ++ ex_post3)) = true.
Proof.
  split; [vm_compute; discriminate|].
  apply C18_trivia_runs_full; reflexivity.
Qed.
(* the comparison is discriminating: replacing the whitespace by an annotation alone (a
   run of the other kind) or removing it is NOT covered and does change the outcome *)
Example C18_ex_discriminating :
  opt_gtree_eqb (parse_tree (ex_pre ++ [TT_Whitespace] ++ ex_post))
                (parse_tree (ex_pre ++ [TT_Annotation] ++ ex_post)) = false /\
  opt_gtree_eqb (parse_tree (ex_pre ++ [TT_Whitespace] ++ ex_post))
                (parse_tree (ex_pre ++ ex_post)) = false /\
  has_ws [TT_Whitespace] <> has_ws [TT_Annotation].
Proof. vm_compute. repeat split; try reflexivity; discriminate. Qed.

(* `(5+a) 7 <blank line> (b,3)` with a comment line put right after the blank line (no
   whitespace in that gap): the program is accepted and stays the same; the converse
   direction of C18_annotation_insert_full really fails *)
Definition ex_pre2 : list token_type :=
  [TT_StartGroup; TT_Number; TT_PlusSign; TT_Identifier; TT_EndGroup; TT_Whitespace; TT_Number; TT_Subexpression].
Definition ex_post2 : list token_type := [TT_StartGroup; TT_Identifier; TT_Comma; TT_Number; TT_EndGroup].
Example C18_ex_insert :
  (exists l r, parse_tree (ex_pre2 ++ ex_post2) = Some (GN D_Subexpression l r)) /\
  parse_tree (ex_pre2 ++ [TT_LineAnnotation] ++ ex_post2) = parse_tree (ex_pre2 ++ ex_post2).
Proof.
  split.
  - vm_compute. eexists _, _. reflexivity.
  - destruct (parse_tree (ex_pre2 ++ ex_post2)) as [t|] eqn:E; [|vm_compute in E; discriminate E].
    apply (C18_annotation_insert_full ex_pre2 ex_post2 TT_LineAnnotation t); [reflexivity|exact E].
Qed.
Example C18_ex_insert_one_direction :
  parse_tree [TT_Number; TT_Whitespace; TT_StartSideEffect; TT_EndSideEffect; TT_StartGroup; TT_Number; TT_EndGroup] = None /\
  parse_tree [TT_Number; TT_Whitespace; TT_StartSideEffect; TT_EndSideEffect; TT_Annotation; TT_StartGroup; TT_Number; TT_EndGroup]
    <> None.
Proof. vm_compute. split; [reflexivity|discriminate]. Qed.

(* regression examples for two repaired defects of the parser (found while testing these
   statements, see known_findings.json):
   - an annotation at either end of the program used to shield a blank-line separator from
     trim_tokens: `5 <blank line> @a` was Subexpression(5, -) and did not build, a header
     comment followed by blank lines gave Subexpression(-, 5);
   - after two adjacent side-effect blocks whitespace used to become the list operator:
     `[][]5` was 5 but `[][] 5` a list that failed at run time.
   Both pairs now agree *)
Example C18_annotation_at_the_ends_former_refuted :
  parse_tree [TT_Number; TT_Subexpression; TT_Whitespace; TT_Annotation] = parse_tree [TT_Number] /\
  parse_tree [TT_LineAnnotation; TT_Subexpression; TT_Number] = parse_tree [TT_Number] /\
  parse_tree [TT_Number] <> None.
Proof. vm_compute. repeat split; try reflexivity; discriminate. Qed.
Example C18_whitespace_after_blocks_former_refuted :
  parse_tree [TT_StartSideEffect; TT_EndSideEffect; TT_StartSideEffect; TT_EndSideEffect; TT_Whitespace; TT_Number] =
  parse_tree [TT_StartSideEffect; TT_EndSideEffect; TT_StartSideEffect; TT_EndSideEffect; TT_Number] /\
  parse_tree [TT_StartSideEffect; TT_EndSideEffect; TT_StartSideEffect; TT_EndSideEffect; TT_Number] <> None /\
  (exists l r, parse_tree [TT_Number; TT_Whitespace; TT_StartSideEffect; TT_Number; TT_EndSideEffect;
                           TT_StartSideEffect; TT_Number; TT_EndSideEffect; TT_Whitespace; TT_Number]
               = Some (GN D_List l r)).
Proof. vm_compute. repeat split; try reflexivity; try discriminate. eexists _, _. reflexivity. Qed.

(* known finding C18-K1 (not repaired, see known_findings.json): after a side-effect block
   that has no operand before it a plain value is accepted, a parenthesised operand or a
   prefix operator is rejected as malformed -- parentheses around that operand change
   acceptance; with an operand before the block both spellings are accepted *)
Example C18_K1_parens_after_operandless_block_refuted :
  parse_tree [TT_StartSideEffect; TT_Number; TT_EndSideEffect; TT_Whitespace; TT_Number] <> None /\
  parse [TT_StartSideEffect; TT_Number; TT_EndSideEffect; TT_Whitespace; TT_StartGroup; TT_Number; TT_EndGroup]
    = Err E_malformed /\
  parse [TT_StartSideEffect; TT_Number; TT_EndSideEffect; TT_Whitespace; TT_Opposite; TT_Number] = Err E_malformed /\
  parse_tree [TT_Number; TT_Whitespace; TT_StartSideEffect; TT_Number; TT_EndSideEffect; TT_Whitespace;
              TT_StartGroup; TT_Number; TT_EndGroup] <> None.
Proof. vm_compute. repeat split; try reflexivity; discriminate. Qed.

(* ------------------------------------------------------------------------------------
   Unbounded, on the operator fragment, through the reference parser of C02 and C02_full.
   The reference [pratt] is defined exactly on the operator expressions (values, prefix /
   suffix / binary operators, the implicit space list, round brackets nested to any depth,
   whitespace anywhere); there [parse] accepts and its tree is the image [rg false t] of the
   reference tree [t] under a map that ignores token indices (an identifier directly to the
   right of `.` is stored as Property). *)
Theorem C18_parse_tree_is_reference_image : forall (toks : list token_type) (t : rtree),
  pratt toks = Some t -> parse_tree toks = Some (rg false t).
Proof. exact parse_tree_pratt. Qed.
Print Assumptions C18_parse_tree_is_reference_image.

(* (a) layout that does not change the item list of the reference (token indices apart) does
   not change acceptance or the tree *)
Theorem C18_same_items_same_tree_operator_expressions :
  forall (toks toks' : list token_type) (its its' : list item) (t : rtree),
  items_of toks 0 None false = Some its -> items_of toks' 0 None false = Some its' ->
  map untok_item its = map untok_item its' -> pratt toks = Some t ->
  opt_gtree_eqb (parse_tree toks) (parse_tree toks') = true /\ parse_tree toks <> None.
Proof. exact same_items_same_tree_b. Qed.
Print Assumptions C18_same_items_same_tree_operator_expressions.

(* ... in particular a whitespace token may be added or removed in ANY gap of an operator
   expression of any length, except between the end of a value and the start of one (there it
   is the list operator): [gap_neutral pre post] says that the last non-whitespace token of
   [pre] does not end a value (value, suffix operator, closing bracket) or the first
   non-whitespace token of [post] does not start one (value, prefix operator, opening
   bracket).  Either spelling may be the one known to be an expression. *)
Theorem C18_whitespace_where_allowed_operator_expressions : forall pre post : list token_type,
  gap_neutral pre post = true ->
  (exists t, pratt (pre ++ post) = Some t) \/ (exists t, pratt (pre ++ [TT_Whitespace] ++ post) = Some t) ->
  opt_gtree_eqb (parse_tree (pre ++ post)) (parse_tree (pre ++ [TT_Whitespace] ++ post)) = true /\
  parse_tree (pre ++ post) <> None.
Proof. exact whitespace_where_allowed_b. Qed.
Print Assumptions C18_whitespace_where_allowed_operator_expressions.

(* (b) round brackets around a whole operator expression of any length -- without the
   separator `;`, which inside round brackets is whitespace by design -- change the tree only
   by the group node (the unbounded form of the clause [paren_ok] of the bounded theorem) *)
Theorem C18_parens_operator_expressions : forall (toks : list token_type) (t : rtree),
  no_separators toks = true -> pratt toks = Some t ->
  exists g g', parse_tree toks = Some g /\
               parse_tree (TT_StartGroup :: toks ++ [TT_EndGroup]) = Some g' /\
               strip_groups g' = strip_groups g.
Proof. exact parens_whole_program. Qed.
Print Assumptions C18_parens_operator_expressions.

(* non-vacuity: `(a + b)*-c.d~~ e` -- whitespace around `*` is free (`)` ends a value but `*`
   does not start one), the gap before `e` is not (there whitespace is the list operator and
   removing it is an error), and the theorems' hypotheses hold *)
Definition ex_vp_pre : list token_type :=
  [TT_StartGroup; TT_Identifier; TT_Whitespace; TT_PlusSign; TT_Whitespace; TT_Identifier; TT_EndGroup].
Definition ex_vp_post : list token_type :=
  [TT_MultiplicationSign; TT_Opposite; TT_Identifier; TT_Period; TT_Identifier; TT_EmptyApply; TT_Whitespace; TT_Identifier].
Example C18_ex_via_pratt :
  gap_neutral ex_vp_pre ex_vp_post = true /\
  (exists t, pratt (ex_vp_pre ++ ex_vp_post) = Some t) /\
  (exists l x r, parse_tree (ex_vp_pre ++ ex_vp_post)
                 = Some (GN D_List (GN D_MultiplicationSign l (GN D_Opposite GLeaf x)) r) /\
                 x = GN D_EmptyApply (GN D_Access (GN D_Identifier GLeaf GLeaf) (GN D_Property GLeaf GLeaf)) GLeaf) /\
  gap_neutral (ex_vp_pre ++ firstn 6 ex_vp_post) (skipn 7 ex_vp_post) = false /\
  parse_tree (ex_vp_pre ++ firstn 6 ex_vp_post ++ skipn 7 ex_vp_post) = None.
Proof.
  vm_compute. split; [reflexivity|]. split; [eexists; reflexivity|]. split; [|split; reflexivity].
  eexists _, _, _. split; reflexivity.
Qed.
Example C18_ex_via_pratt_instances :
  opt_gtree_eqb (parse_tree (ex_vp_pre ++ ex_vp_post)) (parse_tree (ex_vp_pre ++ [TT_Whitespace] ++ ex_vp_post)) = true /\
  (exists g g', parse_tree (ex_vp_pre ++ ex_vp_post) = Some g /\
                parse_tree (TT_StartGroup :: (ex_vp_pre ++ ex_vp_post) ++ [TT_EndGroup]) = Some g' /\
                strip_groups g' = strip_groups g).
Proof.
  split.
  - apply C18_whitespace_where_allowed_operator_expressions; [reflexivity|]. left. vm_compute. eexists; reflexivity.
  - destruct (pratt (ex_vp_pre ++ ex_vp_post)) as [t|] eqn:E; [|vm_compute in E; discriminate E].
    apply (C18_parens_operator_expressions _ t); [vm_compute; reflexivity|exact E].
Qed.

(* (b) continued: round brackets around ONE OPERAND anywhere inside an operator expression of
   any length.  A value token [v] may be put in brackets wherever it stands -- except an
   identifier directly after the access operator `.`, where `a.b` (property b) and `a.(b)`
   (the value of b) differ by design: [after_period pre] says that the last non-whitespace
   token of [pre] is `.`. *)
Theorem C18_parens_around_value_operator_expressions :
  forall (pre post : list token_type) (v : token_type) (t : rtree),
  is_value_tok v = true -> pratt (pre ++ v :: post) = Some t ->
  definition_eqb (ref_def v) D_Identifier && after_period pre = false ->
  exists g g', parse_tree (pre ++ v :: post) = Some g /\
               parse_tree (pre ++ TT_StartGroup :: v :: TT_EndGroup :: post) = Some g' /\
               strip_groups g' = strip_groups g.
Proof. exact parens_value. Qed.
Print Assumptions C18_parens_around_value_operator_expressions.

(* ... and an already bracketed sub-expression `( e )` may be bracketed once more *)
Theorem C18_parens_around_group_operator_expressions :
  forall (pre e post : list token_type) (t te : rtree),
  pratt (pre ++ TT_StartGroup :: e ++ TT_EndGroup :: post) = Some t -> pratt e = Some te ->
  no_separators e = true ->
  exists g g', parse_tree (pre ++ TT_StartGroup :: e ++ TT_EndGroup :: post) = Some g /\
               parse_tree (pre ++ TT_StartGroup :: TT_StartGroup :: e ++ TT_EndGroup :: TT_EndGroup :: post) = Some g' /\
               strip_groups g' = strip_groups g.
Proof. exact parens_group. Qed.
Print Assumptions C18_parens_around_group_operator_expressions.

(* non-vacuity and the excluded case: in `x * a.b + -c` the operand c (and x, a) may be
   bracketed; bracketing b changes Property b into the value of b *)
Definition ex_pv_pre : list token_type :=
  [TT_Identifier; TT_MultiplicationSign; TT_Identifier; TT_Period; TT_Identifier; TT_Whitespace; TT_PlusSign; TT_Whitespace; TT_Opposite].
Example C18_ex_parens_value :
  (exists g g', parse_tree (ex_pv_pre ++ TT_Identifier :: [TT_EmptyApply]) = Some g /\
                parse_tree (ex_pv_pre ++ TT_StartGroup :: TT_Identifier :: TT_EndGroup :: [TT_EmptyApply]) = Some g' /\
                strip_groups g' = strip_groups g) /\
  after_period (firstn 4 ex_pv_pre) = true /\
  (match parse_tree (firstn 4 ex_pv_pre ++ TT_Identifier :: skipn 5 ex_pv_pre ++ [TT_Identifier]),
         parse_tree (firstn 4 ex_pv_pre ++ TT_StartGroup :: TT_Identifier :: TT_EndGroup :: skipn 5 ex_pv_pre ++ [TT_Identifier]) with
   | Some g, Some g' => gtree_eqb (strip_groups g') (strip_groups g)
   | _, _ => true
   end) = false.
Proof.
  split; [|vm_compute; split; reflexivity].
  destruct (pratt (ex_pv_pre ++ TT_Identifier :: [TT_EmptyApply])) as [t|] eqn:E; [|vm_compute in E; discriminate E].
  apply (C18_parens_around_value_operator_expressions ex_pv_pre [TT_EmptyApply] TT_Identifier t); [reflexivity|exact E|reflexivity].
Qed.

(* ------------------------------------------------------------------------------------
   The RESULT half for parentheses: Group nodes emit nothing.
   On the tree compiler of Model/Compile.v (proved equal to the builder model on every proper
   tree: compile_agrees_full in Properties/C05.v).  [wrap_at p g t] puts a Group node with
   index g above the sub-tree of t at path p (false = left child, true = right child);
   [wrap_ok p t] is the boolean side condition, read off the builder: the wrapped node is
   NOT (i) a list of the kind its parent flattens (`a b c` against `(a b) c`), (ii) a
   conditional or an else link that has a conditional parent, i.e. a link of an else-chain
   or the left operand of && / || (`a ?> b |> c ?> d` against `a ?> b |> (c ?> d)`).
   (An identifier that becomes a Property under `.` is a matter of the PARSER -- excluded in
   C18_parens_around_value_operator_expressions; on trees the definitions are given.)
   Then: if the tree compiles, the tree with the extra Group node compiles, with the same
   entry, the same instruction list -- operands included -- and the same jump table
   (the metadata, node indices, is not compared). *)
From GV Require Import Gen.Instr Model.BuilderWL Model.Compile Proofs.C05.Known Proofs.C18.GroupSim Proofs.C18.ParensCode.

Theorem C18_group_nodes_emit_nothing : forall init lit p g t t' c e,
  wrap_ok p t = true -> wrap_at p g t = Some t' ->
  compile init lit t = Ok (c, e) ->
  exists c', compile init lit t' = Ok (c', e) /\ ci c' = ci c /\ cj c' = cj c.
Proof. exact group_node_emits_nothing. Qed.
Print Assumptions C18_group_nodes_emit_nothing.

(* the general form: ANY number of Group nodes at neutral positions together with a renaming
   of the node indices ([grel], Proofs/C18/GroupSim.v: same shape and definitions apart from
   the extra groups, literal oracles lit' / lit and data labels f' / f agreeing on
   corresponding nodes): same entry and jump table, same instructions with every data
   operand read through the labels *)
Theorem C18_group_nodes_emit_nothing_renamed : forall init lit' lit f' f t' t c e,
  grel lit' lit f' f None false t' t -> compile init lit t = Ok (c, e) ->
  exists c', compile init lit' t' = Ok (c', e) /\
             map (ren f') (ci c') = map (ren f) (ci c) /\ cj c' = cj c.
Proof. exact compile_sim. Qed.
Print Assumptions C18_group_nodes_emit_nothing_renamed.

(* each clause of the side condition is necessary (counterexamples: the condition fails, both
   trees compile, the codes differ), and at every other position of the same four trees --
   `1 2 3`, `1 ?> 2 |> 3 ?> 4`, `1 ?> 2 |> 3 ?> 4 |> 5`, `1 ?> 2 && 3` -- the codes agree *)
Example C18_group_side_condition_list_necessary :
  wrap_ok [false] ex_list = false /\ code_wrapped [false] ex_list <> code_of ex_list /\ code_of ex_list <> None /\
  code_wrapped [false] ex_list <> None.
Proof. exact neutral_list_needed. Qed.
Example C18_group_side_condition_else_chain_necessary :
  wrap_ok [true] ex_else = false /\ code_wrapped [true] ex_else <> code_of ex_else /\ code_of ex_else <> None /\
  code_wrapped [true] ex_else <> None.
Proof. exact neutral_cond_needed. Qed.
Example C18_group_side_condition_else_link_necessary :
  wrap_ok [false] ex_else2 = false /\ code_wrapped [false] ex_else2 <> code_of ex_else2 /\ code_of ex_else2 <> None /\
  code_wrapped [false] ex_else2 <> None.
Proof. exact neutral_else_link_needed. Qed.
Example C18_group_side_condition_logical_left_necessary :
  wrap_ok [false] ex_and = false /\ code_wrapped [false] ex_and <> code_of ex_and /\ code_of ex_and <> None /\
  code_wrapped [false] ex_and <> None.
Proof. exact neutral_logical_left_needed. Qed.
(* non-vacuity of the theorem: the hypotheses hold at the root of `1 ?> 2 |> 3 ?> 4` and
   the code is a real one (9 instructions, 4 jump entries) *)
Example C18_ex_group_nodes :
  wrap_ok [] ex_else = true /\
  (exists t' c e, wrap_at [] 99 ex_else = Some t' /\ compile empty_init lit_true ex_else = Ok (c, e) /\
                  length (ci c) = 9 /\ length (cj c) = 4).
Proof. vm_compute. split; [reflexivity|]. eexists _, _, _. repeat split; reflexivity. Qed.

(* End to end, for round brackets around a whole operator expression of any length (the
   rewrite of C18_parens_operator_expressions).  [same_code_of_builds sigma toks toks']
   (Proofs/C18/ParensCode.v), with [sigma k] the place of the k-th token of toks in toks':
   both token lists are accepted, and whenever the builder model (Model/BuilderWL.v, diffed
   against build.rs on every run) succeeds on both -- into the same data object, with any
   fuel, with literal oracles that agree on nodes made from corresponding tokens -- the two
   instruction streams are equal instruction by instruction: operation, jump / list-length /
   expression operands, and every data operand (in the model the index of a parse node) names
   a node made from the corresponding source token ([src_tok]: the node's token index in the
   list as given), i.e. a constant made from the same text in the same emission order; the
   jump tables are equal and the same entry is reported.  So every machine run on the two
   programs is the same.  (That one build succeeds when the other does is not part of the
   statement: the builder model's fuel is a free parameter; on the tree compiler it holds,
   C18_group_nodes_emit_nothing_renamed.)
   This is the first clause of C18_parens_same_code_full_statement below. *)
Theorem C18_parens_whole_same_code_partial : forall (toks : list token_type) (t : rtree),
  no_separators toks = true -> pratt toks = Some t ->
  same_code_of_builds S toks (TT_StartGroup :: toks ++ [TT_EndGroup]).
Proof. exact parens_whole_same_code. Qed.
Print Assumptions C18_parens_whole_same_code_partial.

(* the full statement (clauses two and three not proved): the same for the other two bracket
   rewrites -- one value token, an existing group -- whose reference trees are so far only
   known up to [strip_groups] (the machine simulation of Proofs/C18/ViaPrattParens.v), which
   is too coarse for the builder: `(a b) c` and `a b c` are equal up to groups and build
   differently.  What is missing is the exact reference tree of the bracketed token list (the
   plain one with one RGroup put around that operand); C18_group_nodes_emit_nothing_renamed
   then applies as it stands: a value and a group are neutral in every context *)
Definition C18_parens_same_code_full_statement : Prop :=
  (forall (toks : list token_type) (t : rtree),
     no_separators toks = true -> pratt toks = Some t ->
     same_code_of_builds S toks (TT_StartGroup :: toks ++ [TT_EndGroup])) /\
  (forall (pre post : list token_type) (v : token_type) (t : rtree),
     is_value_tok v = true -> pratt (pre ++ v :: post) = Some t ->
     definition_eqb (ref_def v) D_Identifier && after_period pre = false ->
     same_code_of_builds (fun k => if k <? length pre then k else if k =? length pre then k + 1 else k + 2)
       (pre ++ v :: post) (pre ++ TT_StartGroup :: v :: TT_EndGroup :: post)) /\
  (forall (pre e post : list token_type) (t te : rtree),
     pratt (pre ++ TT_StartGroup :: e ++ TT_EndGroup :: post) = Some t -> pratt e = Some te ->
     no_separators e = true ->
     same_code_of_builds (fun k => if k <? length pre then k else if k <=? length pre + length e + 1 then k + 1 else k + 2)
       (pre ++ TT_StartGroup :: e ++ TT_EndGroup :: post)
       (pre ++ TT_StartGroup :: TT_StartGroup :: e ++ TT_EndGroup :: TT_EndGroup :: post)).

(* non-vacuity: ` (a + b)*-c.d~~ e` (with a leading blank, so the token offsets differ) and
   the same in brackets both build (more than 10 instructions, data operands at different
   node indices) and the conclusion holds on them *)
Example C18_ex_parens_whole_same_code :
  let toks := TT_Whitespace :: ex_vp_pre ++ ex_vp_post in
  no_separators toks = true /\
  (exists t, pratt toks = Some t) /\
  match parse toks, parse (TT_StartGroup :: toks ++ [TT_EndGroup]) with
  | Ok (root, nodes), Ok (root', nodes') =>
    match build nodes empty_init lit_all (build_fuel nodes) root, build nodes' empty_init lit_all (build_fuel nodes') root' with
    | Ok r, Ok r' =>
      map (ren (src_tok (TT_StartGroup :: toks ++ [TT_EndGroup]) nodes')) (instrs (fst r')) =
        map (ren (fun i => S (src_tok toks nodes i))) (instrs (fst r)) /\
      jumps (fst r') = jumps (fst r) /\
      snd r' = snd r /\ instrs (fst r') <> instrs (fst r) /\ 10 <= length (instrs (fst r)) /\
      existsb (fun i => match snd i with OData _ => true | _ => false end) (instrs (fst r)) = true
    | _, _ => False
    end
  | _, _ => False
  end.
Proof.
  vm_compute. split; [reflexivity|]. split; [eexists; reflexivity|].
  repeat split; try reflexivity; try discriminate. repeat constructor.
Qed.

(* The end-to-end statement for ALL bracket rewrites, reduced to a fact about the reference
   parser alone (no parser, no builder).  [rrel sigma false r' r] (Proofs/C18/ParensCodeRef.v):
   the reference tree r' is r with round brackets put around any number of operands that are
   value tokens (not an identifier that is the right operand of `.`) or bracketed groups, a
   token at place k of the plain list standing at place sigma k of the bracketed one.  Then
   the two token lists build to the same code in the sense of [same_code_of_builds].  A
   value and a group are neutral in EVERY context, so no side condition is left over.
   Clauses two and three of C18_parens_same_code_full_statement follow once the reference
   trees of `pre ( v ) post` and `pre (( e )) post` are computed exactly (so far they are
   known up to strip_groups only). *)
From GV Require Import Proofs.C18.ParensCodeRef.
Theorem C18_parens_same_code_from_reference_trees :
  forall (sigma : nat -> nat) (toks toks' : list token_type) (r r' : rtree),
  pratt toks = Some r -> pratt toks' = Some r' -> rrel sigma false r' r ->
  same_code_of_builds sigma toks toks'.
Proof. exact rrel_same_code. Qed.
Print Assumptions C18_parens_same_code_from_reference_trees.

(* non-vacuity: `x * a.b + -c~~` against `x * a.b + -(c)~~` (clause two of the full statement
   on one instance): the reference trees are related, hence same code *)
Example C18_ex_parens_value_same_code :
  let sigma := fun k => if k <? 9 then k else if k =? 9 then k + 1 else k + 2 in
  let toks := ex_pv_pre ++ TT_Identifier :: [TT_EmptyApply] in
  let toks' := ex_pv_pre ++ TT_StartGroup :: TT_Identifier :: TT_EndGroup :: [TT_EmptyApply] in
  (exists r r', pratt toks = Some r /\ pratt toks' = Some r' /\ rrel sigma false r' r) /\
  same_code_of_builds sigma toks toks'.
Proof.
  cbv zeta.
  assert (H : exists r r', pratt (ex_pv_pre ++ TT_Identifier :: [TT_EmptyApply]) = Some r /\
                           pratt (ex_pv_pre ++ TT_StartGroup :: TT_Identifier :: TT_EndGroup :: [TT_EmptyApply]) = Some r' /\
                           rrel (fun k => if k <? 9 then k else if k =? 9 then k + 1 else k + 2) false r' r).
  { eexists _, _. split; [vm_compute; reflexivity|]. split; [vm_compute; reflexivity|].
    vm_compute. repeat (first [reflexivity | split | right]). }
  split; [exact H|]. destruct H as (r & r' & H1 & H2 & H3).
  exact (C18_parens_same_code_from_reference_trees _ _ _ _ _ H1 H2 H3).
Qed.
