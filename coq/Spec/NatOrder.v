(* What C12 means, independent of the comparison algorithm.
   Numbers are ordered as the (extended) reals they denote: an integer z is
   IZR z, a finite binary64 is its real value B2R, the two infinities sit
   below and above every real; NaN denotes nothing.  Characters and bytes are
   ordered by code; char lists and byte lists lexicographically, a proper
   prefix before any of its extensions. *)
From Coq Require Import ZArith NArith List Bool Reals.
From Flocq Require Import Core IEEE754.BinarySingleNaN IEEE754.Binary IEEE754.Bits.
From GV Require Import Gen.Instr Model.Num Model.Value.
Import ListNotations.

Inductive xreal : Type := XNegInf | XFin (r : R) | XPosInf.

Definition xcompare (a b : xreal) : comparison :=
  match a, b with
  | XNegInf, XNegInf => Eq | XNegInf, _ => Lt
  | XFin _, XNegInf => Gt | XFin x, XFin y => Rcompare x y | XFin _, XPosInf => Lt
  | XPosInf, XPosInf => Eq | XPosInf, _ => Gt
  end.

Definition denote_f64 (f : binary64) : option xreal :=
  match f with
  | B754_nan _ _ _ _ _ => None
  | B754_infinity _ _ s => Some (if s then XNegInf else XPosInf)
  | _ => Some (XFin (B2R 53 1024 f))
  end.

Definition denote (n : num) : option xreal :=
  match n with
  | Int z => Some (XFin (IZR z))
  | Flt f => denote_f64 f
  end.

Definition is_nan_num (n : num) : bool :=
  match n with Flt f => f64_is_nan f | Int _ => false end.

(* a Number value holds an i32 or any binary64 *)
Definition num_wf (n : num) : Prop :=
  match n with Int z => in_i32 z = true | Flt _ => True end.

(* lexicographic order, shorter prefix first *)
Fixpoint lex_compare (l r : list N) : comparison :=
  match l, r with
  | [], [] => Eq
  | [], _ :: _ => Lt
  | _ :: _, [] => Gt
  | x :: l', y :: r' => match (x ?= y)%N with Eq => lex_compare l' r' | c => c end
  end.

(* the same order as a relation, for reading: l sorts strictly before r iff l
   is a proper prefix of r, or they agree up to a position where l's item is
   smaller (proved equivalent to lex_compare = Lt in Proofs/C12/Lex.v) *)
Definition lex_lt (l r : list N) : Prop :=
  (exists s, s <> [] /\ r = l ++ s) \/
  (exists p x y l' r', l = p ++ x :: l' /\ r = p ++ y :: r' /\ (x < y)%N).

(* the natural order on C12's domain; None: not comparable (different kinds,
   another type, or a NaN) *)
Definition nat_order (l r : val) : option comparison :=
  match l, r with
  | VNum a, VNum b =>
      match denote a, denote b with
      | Some x, Some y => Some (xcompare x y)
      | _, _ => None
      end
  | VChar a, VChar b => Some (a ?= b)%N
  | VByte a, VByte b => Some (a ?= b)%N
  | VChars a, VChars b => Some (lex_compare a b)
  | VBytes a, VBytes b => Some (lex_compare a b)
  | _, _ => None
  end.

(* what each operator means for an order result (pinned, not generated) *)
Inductive rel_op : Type := RLt | RLe | RGt | RGe.
Definition rel_holds (o : rel_op) (c : comparison) : bool :=
  match o, c with
  | RLt, Lt => true | RLt, _ => false
  | RLe, Gt => false | RLe, _ => true
  | RGt, Gt => true | RGt, _ => false
  | RGe, Lt => false | RGe, _ => true
  end.

Definition vbool (b : bool) : val := if b then VTrue else VFalse.

(* the same-type pairs on which C12 demands the natural order *)
Definition ordered_pair (lt rt : data_type) : bool :=
  match lt, rt with
  | T_Number, T_Number | T_Char, T_Char | T_Byte, T_Byte
  | T_CharList, T_CharList | T_ByteList, T_ByteList => true
  | _, _ => false
  end.
(* Slice x Slice: the code orders slices of text; C12 says nothing about it *)
Definition slice_pair (lt rt : data_type) : bool :=
  match lt, rt with T_Slice, T_Slice => true | _, _ => false end.

(* executable fragment of nat_order for the differential oracle: everything
   except numbers involving a float *)
Definition nat_order_exec (l r : val) : option (option comparison) :=
  match l, r with
  | VNum (Int a), VNum (Int b) => Some (Some (a ?= b)%Z)
  | VNum _, VNum _ => None
  | VChar a, VChar b => Some (Some (a ?= b)%N)
  | VByte a, VByte b => Some (Some (a ?= b)%N)
  | VChars a, VChars b => Some (Some (lex_compare a b))
  | VBytes a, VBytes b => Some (Some (lex_compare a b))
  | _, _ => Some None
  end.
