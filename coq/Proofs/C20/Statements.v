(* Proof terms of the theorems stated in Properties/C20.v (the property file only
   states them and checks their assumptions). *)
From Coq Require Import List Arith Bool NArith.
From GV Require Import Base.Result Gen.TokenTypes Gen.Defs Gen.Instr Model.Parser Model.BuilderWL Model.Compile
  Spec.WfCode Spec.Reloc Proofs.C05.Known Proofs.C05.Bounded Proofs.C05.Refuted Proofs.C20.Bounded Proofs.C20.Refuted Proofs.C05.Operands Proofs.C05.Jumps Proofs.C05.Bodies Proofs.C20.Frame Proofs.C20.FrameFull Proofs.C20.Relocate Proofs.C20.LastInstr Proofs.C20.RelocFull.
Import ListNotations.

Lemma C20_relocation_triples_bounded_3_proof : forall a b c init, In init inits -> relocates [a; b; c] init.
Proof. intros a b c init Hi. exact (check_r_meaning _ init (triples_check_r a b c) Hi). Qed.

Lemma C20_relocation_reduced_bounded_5_proof : forall toks init,
  length toks <= 5 -> (forall x, In x toks -> In x reduced_alphabet) -> In init inits -> relocates toks init.
Proof. intros toks init Hl Ha Hi. exact (check_r_meaning _ init (reduced_check_r toks Hl Ha) Hi). Qed.

Lemma C20_no_foreign_jump_all_trees_proof : forall nodes root t init lit,
  tree_of nodes root = Some t -> compile init lit t <> Err E_foreign_jump.
Proof. intros nodes root t init lit Ht. exact (compile_not_foreign nodes init lit t (tree_of_in nodes root t Ht)). Qed.

Lemma C20_own_jump_refs_all_trees_proof : forall nodes root t init lit r,
  tree_of nodes root = Some t -> compile init lit t = Ok r ->
  forallb (own_ref (i_jump_len init) (i_jump_len init + length (cj (fst r)))) (ci (fst r)) = true /\
  in_range (i_jump_len init) (i_jump_len init + length (cj (fst r))) (snd r) = true.
Proof. intros nodes root t init lit r Ht Hc. exact (compile_own_refs nodes init lit t r (tree_of_in nodes root t Ht) Hc). Qed.

Lemma C20_frame_full_proof :
  forall nodes root t init lit r,
    tree_of nodes root = Some t -> ~ Known_C05_K2 t ->
    compile init lit t = Ok r -> own_code init (code_of_compile r) = true.
Proof.
  intros nodes root t init lit r Ht Hk2 Hc.
  apply (compile_own_code nodes init lit t r (tree_of_in nodes root t Ht)); [| exact Hc].
  unfold tree_good. destruct (drops_arms t) eqn:E; [exfalso; apply Hk2; exact E | reflexivity].
Qed.

Lemma C20_relocation_full_proof :
  forall t init lit, compile init lit t = shRes (shR init) (compile empty_init lit t).
Proof. intros t init lit. apply compile_relocates. Qed.

Lemma C20_relocated_full_proof : forall nodes root t init lit r r0,
  tree_of nodes root = Some t ->
  ~ Known_C05_K2 t ->
  compile init lit t = Ok r -> compile empty_init lit t = Ok r0 ->
  relocated init (code_of_compile r0) (code_of_compile r) = true.
Proof.
  intros nodes root t init lit r r0 Ht Hk2 Hc Hc0.
  apply (compile_relocated nodes init lit t r r0 (tree_of_in nodes root t Ht)); auto.
  unfold tree_good. destruct (drops_arms t) eqn:E; [exfalso; apply Hk2; exact E | reflexivity].
Qed.
