#!/usr/bin/env python3
"""Assemble MANIFEST.json from the MANIFEST_ENTRY of every tools/props/cNN.py
module and tools/manifest_base.json; properties without a module go to
not_applicable with the reason given in manifest_base.json."""
import importlib, json, os, sys
sys.path.insert(0, os.path.dirname(os.path.abspath(__file__)))
V = "/verif"


def main():
    base = json.load(open(os.path.join(V, "tools", "manifest_base.json")))
    props = [json.loads(l) for l in open(os.path.join(V, "properties.jsonl"))]
    checks, na = [], []
    for p in props:
        pid = p["id"]
        modp = os.path.join(V, "tools", "props", pid.lower() + ".py")
        entry = None
        if os.path.exists(modp) and pid in base.get("enabled", []):
            mod = importlib.import_module("props." + pid.lower())
            entry = getattr(mod, "MANIFEST_ENTRY", None)
        if entry:
            e = {
                "property_id": pid,
                "quick_cmd": "python3 tools/vp.py check %s --tier quick" % pid,
                "thorough_cmd": "python3 tools/vp.py check %s --tier thorough" % pid,
                "evidence_file": "/verif/evidence/%s.json" % pid,
                "replay_cmd_template": "python3 tools/vp.py replay {path}",
                "engine": "coq-model",
            }
            e.update(entry)
            checks.append(e)
        else:
            na.append({"property_id": pid, "reason": base["pending_reasons"].get(pid, base["pending_default"])})
    m = dict(base["manifest"])
    m["checks"] = checks
    m["not_applicable"] = na
    for eng in m.get("engines", []):
        eng["serves_properties"] = [c["property_id"] for c in checks]
    json.dump(m, open(os.path.join(V, "MANIFEST.json"), "w"), indent=1)
    print("MANIFEST.json: %d checks, %d not_applicable" % (len(checks), len(na)))


if __name__ == "__main__":
    main()
