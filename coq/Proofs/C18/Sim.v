(* Every piece of [step] commutes with erasing token indices: the helpers read only
   definition / secondary / links of a node and write only links.  Consequence
   ([step_congr], [run_steps_congr]): related states stay related under the same
   token types and the same is-last flags. *)
From Coq Require Import List Arith Bool NArith Lia.
From GV Require Import Base.Result Gen.TokenTypes Gen.Defs Model.Parser Spec.Layout Spec.LayoutSim
  Proofs.C18.StepParts.
Import ListNotations.

(* erasure of the token indices only (the arms never read prev_sec) *)
Definition erase_tok (st : pstate) : pstate :=
  mkState (map strip_tok (nodes st)) (next_parent st) (last_left st) (check_for_list st) None
          (next_last_left st) (group_stack st) (current_group st) (prev_sec st) (prev_sig st)
          (separated st) (se_prev st).
Definition E1 (r : pstate * info) : pstate * info := (erase_tok (fst r), snd r).
Definition strip3 (r : list pnode * option nat * option nat) : list pnode * option nat * option nat :=
  (map strip_tok (fst (fst r)), snd (fst r), snd r).

Lemma strip_idem n : strip_tok (strip_tok n) = strip_tok n.
Proof. reflexivity. Qed.

Lemma map_strip_idem ns : map strip_tok (map strip_tok ns) = map strip_tok ns.
Proof. rewrite map_map. apply map_ext. intros a. apply strip_idem. Qed.

Lemma erase_idem st : erase (erase st) = erase st.
Proof.
  unfold erase. cbn [nodes next_parent last_left check_for_list next_last_left group_stack current_group prev_sec prev_sig separated se_prev].
  rewrite map_strip_idem. destruct (prev_sec st); reflexivity.
Qed.

Lemma erase_erase_tok st : erase (erase_tok st) = erase st.
Proof.
  unfold erase, erase_tok. cbn [nodes next_parent last_left check_for_list next_last_left group_stack current_group prev_sec prev_sig separated se_prev].
  rewrite map_strip_idem. reflexivity.
Qed.

Lemma upd_map {A B} (g : A -> B) (f : A -> A) (f' : B -> B) (Hc : forall x, g (f x) = f' (g x)) :
  forall l i, upd (map g l) i f' = option_map (map g) (upd l i f).
Proof.
  induction l as [|x r IH]; intros [|i]; cbn [map upd option_map]; try reflexivity.
  - rewrite Hc. reflexivity.
  - rewrite IH. destruct (upd r i f); reflexivity.
Qed.

Lemma upd_strip_parent p l i :
  upd (map strip_tok l) i (set_parent p) = option_map (map strip_tok) (upd l i (set_parent p)).
Proof. apply upd_map. reflexivity. Qed.
Lemma upd_strip_right p l i :
  upd (map strip_tok l) i (set_right p) = option_map (map strip_tok) (upd l i (set_right p)).
Proof. apply upd_map. reflexivity. Qed.
Lemma upd_strip_const x l i :
  upd (map strip_tok l) i (fun _ => strip_tok x) = option_map (map strip_tok) (upd l i (fun _ => x)).
Proof. apply upd_map. reflexivity. Qed.

Lemma walk_strip fuel ns id my se rtl ug : forall cl tl count,
  walk fuel (map strip_tok ns) id my se rtl ug cl tl count = walk fuel ns id my se rtl ug cl tl count.
Proof.
  induction fuel as [|f IH]; intros cl tl count; [reflexivity|].
  cbn [walk]. destruct cl as [li|]; [|reflexivity].
  rewrite nth_error_map. destruct (nth_error ns li) as [n|]; cbn [option_map]; [|reflexivity].
  cbn [strip_tok n_def n_sec n_right n_parent]. rewrite map_length.
  destruct (prio_of (n_def n)); cbn [bind]; try reflexivity.
  rewrite IH. reflexivity.
Qed.

Ltac crunch :=
  repeat (cbn [option_map bind rmap fst snd strip_tok n_def n_sec n_parent n_left n_right n_tok];
    match goal with
    | |- _ => reflexivity
    | |- context [nth_error (map strip_tok ?l) ?i] => rewrite (nth_error_map strip_tok i l)
    | |- context [upd (map strip_tok ?l) ?i (set_parent ?p)] => rewrite (upd_strip_parent p l i)
    | |- context [upd (map strip_tok ?l) ?i (set_right ?p)] => rewrite (upd_strip_right p l i)
    | |- context [upd (map strip_tok ?l) ?i (fun _ => strip_tok ?x)] => rewrite (upd_strip_const x l i)
    | |- context [length (map strip_tok ?l)] => rewrite (map_length strip_tok l)
    | |- context [match nth_error ?l ?i with _ => _ end] => destruct (nth_error l i)
    | |- context [match upd ?l ?i ?f with _ => _ end] => destruct (upd l i f)
    | |- context [match ?x with Some _ => _ | None => _ end] => destruct x
    | |- context [if ?c then _ else _] => destruct c
    end).

Lemma parse_token_strip id d l ns ug rtl :
  parse_token id d l (map strip_tok ns) ug rtl = rmap strip3 (parse_token id d l ns ug rtl).
Proof.
  unfold parse_token. rewrite map_length.
  destruct (prio_of d) as [my| | |]; cbn [bind rmap]; try reflexivity.
  rewrite walk_strip.
  destruct (walk _ ns id my _ rtl ug l l 0) as [[parent tl]| | |]; cbn [bind]; try reflexivity.
  destruct (if opt_nat_eqb parent tl then None else tl) as [ix|].
  - rewrite upd_strip_parent. destruct (upd ns ix (set_parent (Some id))) as [ns1|]; cbn [option_map bind]; [|reflexivity].
    destruct parent as [pix|]; [|reflexivity]. crunch.
  - cbn [bind]. destruct parent as [pix|]; [|reflexivity]. crunch.
Qed.

Lemma make_list_node_strip cid oid st ug :
  make_list_node cid oid (erase_tok st) ug = rmap (map strip_tok) (make_list_node cid oid st ug).
Proof.
  unfold make_list_node, erase_tok. cbn [nodes last_left last_token].
  rewrite parse_token_strip.
  destruct (parse_token cid D_List (last_left st) (nodes st) ug false) as [[[ns1 p] tl]| | |]; cbn [bind rmap strip3 fst snd]; try reflexivity.
  rewrite map_app. reflexivity.
Qed.

Lemma block_has_operand_strip ns : forall fuel n count,
  block_has_operand fuel (map strip_tok ns) (strip_tok n) count = block_has_operand fuel ns n count.
Proof.
  induction fuel as [|f IH]; intros n count; [reflexivity|].
  cbn [block_has_operand strip_tok n_left]. destruct (n_left n) as [l|]; [|reflexivity].
  rewrite nth_error_map. destruct (nth_error ns l) as [ln|]; cbn [option_map]; [|reflexivity].
  cbn [strip_tok n_def]. rewrite map_length.
  destruct (negb _); [reflexivity|]. destruct (Nat.ltb _ _); [reflexivity|]. apply IH.
Qed.

Lemma space_list_check_strip st ug : space_list_check (erase_tok st) ug = space_list_check st ug.
Proof.
  unfold space_list_check, erase_tok. cbn [nodes last_left check_for_list].
  destruct (last_left st) as [l|]; [|reflexivity].
  rewrite nth_error_map. destruct (nth_error (nodes st) l) as [ln|]; cbn [option_map]; [|reflexivity].
  rewrite map_length, block_has_operand_strip. reflexivity.
Qed.

Lemma space_list_check_erase st ug : space_list_check (erase st) ug = space_list_check st ug.
Proof.
  unfold space_list_check, erase. cbn [nodes last_left check_for_list].
  destruct (last_left st) as [l|]; [|reflexivity].
  rewrite nth_error_map. destruct (nth_error (nodes st) l) as [ln|]; cbn [option_map]; [|reflexivity].
  rewrite map_length, block_has_operand_strip. reflexivity.
Qed.

(* ---- the arms ---- *)
Ltac open_erase :=
  unfold erase; cbn [nodes next_parent last_left check_for_list last_token next_last_left group_stack current_group prev_sec prev_sig separated se_prev].

Lemma arm_ws_erase st ug t : arm_ws (erase st) ug t = rmap E1 (arm_ws st ug t).
Proof.
  unfold arm_ws. rewrite space_list_check_erase.
  destruct (space_list_check st ug); reflexivity.
Qed.

Lemma arm_annot_erase d st t : arm_annot d (erase st) t = rmap E1 (arm_annot d st t).
Proof. reflexivity. Qed.

Lemma make_list_node_erase cid oid st ug :
  make_list_node cid oid (erase st) ug = rmap (map strip_tok) (make_list_node cid oid st ug).
Proof. exact (make_list_node_strip cid oid st ug). Qed.

Lemma arm_value_erase cid d st ug t : arm_value cid d (erase st) ug t = rmap E1 (arm_value cid d st ug t).
Proof.
  unfold arm_value. rewrite make_list_node_erase. open_erase.
  destruct (check_for_list st).
  - destruct (make_list_node cid (cid + 1) st ug) as [ns| | |]; cbn [bind rmap]; try reflexivity.
    rewrite map_length, parse_token_strip.
    destruct (parse_token (cid + 1) d (Some cid) ns ug false) as [[[ns2 p] tl]| | |]; reflexivity.
  - rewrite parse_token_strip.
    destruct (parse_token cid d (last_left st) (nodes st) ug false) as [[[ns2 p] tl]| | |]; reflexivity.
Qed.

Lemma arm_binary_erase rtl cid ar d st ug t :
  arm_binary rtl cid ar d (erase st) ug t = rmap E1 (arm_binary rtl cid ar d st ug t).
Proof.
  unfold arm_binary. open_erase. rewrite parse_token_strip.
  destruct (parse_token cid d (last_left st) (nodes st) ug rtl) as [[[ns2 p] tl]| | |]; reflexivity.
Qed.

Lemma arm_prefix_erase cid ar d st ug t :
  arm_prefix cid ar d (erase st) ug t = rmap E1 (arm_prefix cid ar d st ug t).
Proof.
  unfold arm_prefix. rewrite make_list_node_erase. open_erase.
  destruct (check_for_list st); [|reflexivity].
  destruct (make_list_node cid (cid + 1) st ug) as [ns| | |]; cbn [bind rmap]; try reflexivity.
  rewrite map_length. reflexivity.
Qed.

Lemma arm_suffix_erase cid d st ug t :
  arm_suffix cid d (erase st) ug t = rmap E1 (arm_suffix cid d st ug t).
Proof.
  unfold arm_suffix. open_erase. rewrite parse_token_strip.
  destruct (parse_token cid d (last_left st) (nodes st) ug false) as [[[ns2 p] tl]| | |]; reflexivity.
Qed.

Lemma arm_startgroup_erase cid ar d st ug t :
  arm_startgroup cid ar d (erase st) ug t = rmap E1 (arm_startgroup cid ar d st ug t).
Proof.
  unfold arm_startgroup. rewrite make_list_node_erase. open_erase.
  destruct (check_for_list st); [|reflexivity].
  destruct (make_list_node cid (cid + 1) st ug) as [ns| | |]; reflexivity.
Qed.

Lemma arm_startse_erase cid ar d st ug t :
  arm_startse cid ar d (erase st) ug t = rmap E1 (arm_startse cid ar d st ug t).
Proof.
  unfold arm_startse. open_erase. rewrite parse_token_strip.
  destruct (parse_token cid d (last_left st) (nodes st) ug false) as [[[ns2 p] tl]| | |]; reflexivity.
Qed.

Lemma end_fixup_erase cid st gleft :
  end_fixup cid (erase st) gleft = rmap (map strip_tok) (end_fixup cid st gleft).
Proof.
  unfold end_fixup. open_erase.
  destruct (last_left st) as [l|]; [|reflexivity].
  rewrite nth_error_map. destruct (nth_error (nodes st) l) as [ln|]; cbn [option_map]; [|reflexivity].
  cbn [strip_tok n_def n_sec n_right n_parent n_left].
  match goal with |- context [if ?c then set_right None (strip_tok ln) else strip_tok ln] =>
    change (if c then set_right None (strip_tok ln) else strip_tok ln)
      with (if c then strip_tok (set_right None ln) else strip_tok ln);
    replace (if c then strip_tok (set_right None ln) else strip_tok ln)
      with (strip_tok (if c then set_right None ln else ln)) by (destruct c; reflexivity);
    generalize (if c then set_right None ln else ln)
  end.
  intros ln1. crunch.
Qed.

Lemma arm_end_erase cid tok st t : arm_end cid tok (erase st) t = rmap E1 (arm_end cid tok st t).
Proof.
  unfold arm_end. change (group_stack (erase st)) with (group_stack st).
  destruct (removelast_pair (group_stack st)) as [[gs' [gleft nlc]]|]; [|reflexivity].
  change (nodes (erase st)) with (map strip_tok (nodes st)).
  rewrite nth_error_map. destruct (nth_error (nodes st) gleft) as [sgn|]; cbn [option_map]; [|reflexivity].
  cbn [strip_tok n_def]. destruct (expected_end (n_def sgn)) as [ex|]; [|reflexivity].
  destruct (negb (token_type_eqb tok ex)); [reflexivity|].
  rewrite end_fixup_erase.
  destruct (end_fixup cid st gleft); reflexivity.
Qed.

Lemma subexpr_group_erase st : subexpr_group (erase st) = subexpr_group st.
Proof.
  unfold subexpr_group. open_erase.
  destruct (current_group st) as [g|]; [|reflexivity].
  destruct (nth_error (group_stack st) g) as [[gidx b]|]; [|reflexivity]. crunch.
Qed.

Lemma subexpr_drop_erase st ig gi :
  subexpr_drop (erase st) ig gi = rmap (fun r => (map strip_tok (fst r), snd r)) (subexpr_drop st ig gi).
Proof.
  unfold subexpr_drop. open_erase.
  destruct (last_left st) as [l|]; [|reflexivity].
  rewrite nth_error_map. destruct (nth_error (nodes st) l) as [ln|]; cbn [option_map]; [|reflexivity].
  cbn [strip_tok n_def n_sec].
  match goal with |- context [if ?c then set_right None (strip_tok ln) else strip_tok ln] =>
    change (if c then set_right None (strip_tok ln) else strip_tok ln)
      with (if c then strip_tok (set_right None ln) else strip_tok ln);
    replace (if c then strip_tok (set_right None ln) else strip_tok ln)
      with (strip_tok (if c then set_right None ln else ln)) by (destruct c; reflexivity);
    generalize (if c then set_right None ln else ln)
  end.
  intros ln1. crunch.
Qed.

Lemma arm_subexpr_erase cid ar d st ug t :
  arm_subexpr cid ar d (erase st) ug t = rmap E1 (arm_subexpr cid ar d st ug t).
Proof.
  unfold arm_subexpr. rewrite subexpr_group_erase, space_list_check_erase.
  destruct (subexpr_group st) as [[ig gi]| | |]; cbn [bind rmap]; try reflexivity.
  destruct (definition_eqb ig D_Group).
  - open_erase. destruct (space_list_check st ug); reflexivity.
  - rewrite subexpr_drop_erase.
    destruct (subexpr_drop st ig gi) as [[ns1 drop]| | |]; cbn [bind rmap fst snd]; try reflexivity.
    open_erase. destruct drop; [reflexivity|].
    rewrite parse_token_strip.
    destruct (parse_token cid d (last_left st) ns1 ug false) as [[[ns2 p] tl]| | |]; reflexivity.
Qed.

Lemma step_arm_erase cid ar tok d sec st ug t :
  step_arm cid ar tok d sec (erase st) ug t = rmap E1 (step_arm cid ar tok d sec st ug t).
Proof.
  destruct sec; cbn [step_arm].
  - reflexivity.
  - apply arm_annot_erase.
  - apply arm_value_erase.
  - apply arm_binary_erase.
  - apply arm_binary_erase.
  - apply arm_binary_erase.
  - apply arm_prefix_erase.
  - apply arm_suffix_erase.
  - apply arm_startse_erase.
  - apply arm_end_erase.
  - apply arm_startgroup_erase.
  - apply arm_end_erase.
  - apply arm_subexpr_erase.
  - apply arm_ws_erase.
  - apply arm_value_erase.
Qed.

(* ---- the final push ---- *)
Lemma pushed_nodes_strip i i' sec st1 inf :
  map strip_tok (pushed_nodes i' sec (erase_tok st1) inf) = map strip_tok (pushed_nodes i sec st1 inf).
Proof.
  destruct inf as [[[d p] l] r]. unfold pushed_nodes, erase_tok. cbn [nodes].
  destruct (definition_eqb d D_Drop); [apply map_strip_idem|].
  rewrite !map_app, map_strip_idem. f_equal.
  destruct (definition_eqb d D_Identifier); [|reflexivity].
  destruct p as [p|]; [|reflexivity].
  rewrite nth_error_map. destruct (nth_error (nodes st1) p); reflexivity.
Qed.

Lemma pushed_nodes_nil i i' sec st1 inf :
  match pushed_nodes i' sec (erase_tok st1) inf with [] => true | _ => false end =
  match pushed_nodes i sec st1 inf with [] => true | _ => false end.
Proof.
  pose proof (pushed_nodes_strip i i' sec st1 inf) as H.
  destruct (pushed_nodes i' sec (erase_tok st1) inf), (pushed_nodes i sec st1 inf); try reflexivity; discriminate H.
Qed.

Lemma step_finish_erase i i' sec cid r :
  erase (step_finish i' sec cid (E1 r)) = erase (step_finish i sec cid r).
Proof.
  destruct r as [st1 inf]. unfold step_finish, E1. cbn [fst snd].
  pose proof (pushed_nodes_strip i i' sec st1 inf) as Hs.
  pose proof (pushed_nodes_nil i i' sec st1 inf) as Hn.
  set (X := pushed_nodes i' sec (erase_tok st1) inf) in *.
  set (Y := pushed_nodes i sec st1 inf) in *.
  clearbody X Y.
  unfold erase, erase_tok.
  cbn [nodes next_parent last_left check_for_list last_token next_last_left group_stack current_group prev_sec prev_sig separated se_prev].
  rewrite Hs. destruct (next_last_left st1); [reflexivity|].
  destruct X, Y; try discriminate Hn; reflexivity.
Qed.

(* ---- the step ---- *)
Lemma forbidden_norm p c b : forbidden (norm_sec p) c b = forbidden p c b.
Proof. destruct p; reflexivity. Qed.

Lemma under_group_of_erase st : under_group_of (erase st) = under_group_of st.
Proof. reflexivity. Qed.

Definition norm3 (a : option nat * secondary * secondary) : option nat * secondary * secondary :=
  (fst (fst a), norm_sec (snd (fst a)), snd a).

Lemma adjust3_of_erase st ug : adjust3_of (erase st) ug = rmap norm3 (adjust3_of st ug).
Proof.
  unfold adjust3_of. open_erase.
  destruct (last_left st) as [li|]; [|reflexivity].
  rewrite nth_error_map. destruct (nth_error (nodes st) li) as [n|]; cbn [option_map]; [|reflexivity].
  cbn [strip_tok n_def n_parent n_left].
  match goal with |- (if ?c then _ else _) = _ => destruct c end; reflexivity.
Qed.

Lemma step_main_erase last i i' tok st0 ug adj :
  rmap erase (step_main last i' tok (erase st0) ug (norm3 adj)) = rmap erase (step_main last i tok st0 ug adj).
Proof.
  destruct adj as [[ll ps] pg]. unfold step_main, norm3. cbn [fst snd].
  change (adjusted (erase st0) ll (norm_sec ps) pg) with (erase (adjusted st0 ll ps pg)).
  set (st := adjusted st0 ll ps pg).
  change (length (nodes (erase st0))) with (length (map strip_tok (nodes st0))). rewrite map_length.
  change (prev_sec (erase st)) with (norm_sec (prev_sec st)). rewrite forbidden_norm.
  change (check_for_list (erase st)) with (check_for_list st).
  change (separated (erase st)) with (separated st).
  change (prev_sig (erase st)) with (prev_sig st).
  change (new_tail (snd (get_definition tok)) (erase st)) with (new_tail (snd (get_definition tok)) st).
  destruct (forbidden _ _ _); [reflexivity|].
  destruct (_ && _ && _); [reflexivity|].
  rewrite step_arm_erase.
  destruct (step_arm _ _ tok _ _ st ug _) as [r| | |]; cbn [bind rmap]; try reflexivity.
  rewrite !step_finish_res_eq. cbn [bind rmap]. f_equal. apply step_finish_erase.
Qed.

Theorem step_erase n i n' i' tok st0 :
  Nat.leb n' (i' + 1) = Nat.leb n (i + 1) ->
  rmap erase (step n' i' tok (erase st0)) = rmap erase (step n i tok st0).
Proof.
  intros Hf. rewrite !step_decomp, Hf, under_group_of_erase.
  destruct (under_group_of st0) as [ug| | |]; cbn [bind rmap]; try reflexivity.
  rewrite adjust3_of_erase.
  destruct (adjust3_of st0 ug) as [adj| | |]; cbn [bind rmap]; try reflexivity.
  apply step_main_erase.
Qed.

Theorem step_congr n i n' i' tok st st' :
  eq_mod_tok st st' -> Nat.leb n (i + 1) = Nat.leb n' (i' + 1) ->
  res_eq_mod_tok (step n i tok st) (step n' i' tok st').
Proof.
  intros He Hf. unfold res_eq_mod_tok, eq_mod_tok in *.
  rewrite <- (step_erase n i n i tok st eq_refl), <- (step_erase n' i' n i tok st' Hf), He. reflexivity.
Qed.

Lemma Ok_inj {A} (x y : A) : Ok x = Ok y -> x = y.
Proof. intros H. injection H. auto. Qed.

Lemma res_eq_bind (r r' : res pstate) (f f' : pstate -> res pstate) :
  res_eq_mod_tok r r' ->
  (forall s s', eq_mod_tok s s' -> res_eq_mod_tok (f s) (f' s')) ->
  res_eq_mod_tok (bind r f) (bind r' f').
Proof.
  unfold res_eq_mod_tok, eq_mod_tok. intros Hr Hf.
  destruct r, r'; cbn [rmap bind] in *; try discriminate Hr; try exact Hr.
  apply Hf, Ok_inj, Hr.
Qed.

Lemma res_eq_refl r : res_eq_mod_tok r r.
Proof. reflexivity. Qed.
Lemma res_eq_sym r r' : res_eq_mod_tok r r' -> res_eq_mod_tok r' r.
Proof. unfold res_eq_mod_tok. intros H. symmetry. exact H. Qed.
Lemma res_eq_trans r r' r'' : res_eq_mod_tok r r' -> res_eq_mod_tok r' r'' -> res_eq_mod_tok r r''.
Proof. unfold res_eq_mod_tok. intros H H'. rewrite H. exact H'. Qed.

(* same token types, same is-last flags at every position *)
Theorem run_steps_congr n n' toks : forall i i' st st',
  eq_mod_tok st st' ->
  (forall k, k < length toks -> Nat.leb n (i + k + 1) = Nat.leb n' (i' + k + 1)) ->
  res_eq_mod_tok (run_steps n i toks st) (run_steps n' i' toks st').
Proof.
  induction toks as [|t rest IH]; intros i i' st st' He Hf; cbn [run_steps].
  - unfold res_eq_mod_tok. cbn [rmap bind]. f_equal. exact He.
  - apply res_eq_bind.
    + apply step_congr; [exact He|]. specialize (Hf 0). cbn [length] in Hf.
      rewrite !Nat.add_0_r in Hf. apply Hf. lia.
    + intros s s' Hs. apply IH; [exact Hs|]. intros k Hk.
      specialize (Hf (S k)). cbn [length] in Hf.
      replace (S i + k + 1) with (i + S k + 1) by lia. replace (S i' + k + 1) with (i' + S k + 1) by lia.
      apply Hf. lia.
Qed.

Lemma run_steps_app n toks1 toks2 : forall i st,
  run_steps n i (toks1 ++ toks2) st =
  do st' <- run_steps n i toks1 st; run_steps n (i + length toks1) toks2 st'.
Proof.
  induction toks1 as [|t r IH]; intros i st; cbn [app run_steps length bind].
  - rewrite Nat.add_0_r. reflexivity.
  - destruct (step n i t st) as [s| | |]; cbn [bind]; try reflexivity.
    rewrite IH. replace (S i + length r) with (i + S (length r)) by lia. reflexivity.
Qed.
