(* Token-level layout transparency, bounded (bounds in the names):
   - annotations: putting an annotation into a gap, next to the whitespace that is
     already there or into a gap without whitespace, never changes acceptance or tree;
   - whitespace: adding whitespace to a gap changes nothing whenever both spellings
     are accepted;
   - parentheses around a whole accepted expression add exactly one group node. *)
From Coq Require Import List Arith Bool NArith Lia.
From GV Require Import Base.Result Gen.TokenTypes Gen.Defs Model.Parser Spec.Layout
  Proofs.C03.Bounded Proofs.C03.Bounded4.
Import ListNotations.

Definition no_trivia (t : token_type) : bool :=
  match snd (get_definition t) with S_Whitespace | S_Annotation => false | _ => true end.

Definition plain_alphabet : list token_type := filter no_trivia rep_alphabet.

Definition filler_pairs : list (filler * filler) :=
  flat_map (fun a => map (fun b => (a, b)) all_fillers) all_fillers.

(* annotation transparency for one sequence of at most 3 tokens (at most 2 gaps) *)
Definition annotation_ok (s : list token_type) : bool :=
  forallb (fun fg : filler * filler =>
    let base := [if is_space_filler (fst fg) then FSpace else FNone;
                 if is_space_filler (snd fg) then FSpace else FNone] in
    opt_gtree_eqb (parse_tree (fill s base)) (parse_tree (fill s [fst fg; snd fg])))
    filler_pairs.

(* whitespace transparency: any two spacings that are both accepted give the same tree *)
Definition whitespace_ok (s : list token_type) : bool :=
  let variants := map (fun fg : filler * filler => parse_tree (fill s [fst fg; snd fg]))
                      [(FNone, FNone); (FSpace, FNone); (FNone, FSpace); (FSpace, FSpace)] in
  forallb (fun a => forallb (fun b => match a, b with
                                      | Some x, Some y => gtree_eqb x y
                                      | _, _ => true end) variants) variants.

Definition paren_ok (s : list token_type) : bool :=
  match parse_tree s with
  | Some t =>
    match t with
    | GLeaf => true
    | _ => match parse_tree (TT_StartGroup :: s ++ [TT_EndGroup]) with
           | Some t' => gtree_eqb (strip_groups t') (strip_groups t)
           | None => false
           end
    end
  | None => true
  end.

Definition is_separator_tok (t : token_type) : bool :=
  match t with TT_Subexpression | TT_ExpressionSeparator => true | _ => false end.
(* tokens that keep a sequence from being "a complete operand" for the parenthesis clause:
   separators (inside a group they separate list items, by design) and side-effect
   brackets (a block has no value of its own) *)
Definition not_operand_tok (t : token_type) : bool :=
  is_separator_tok t || match t with TT_StartSideEffect | TT_EndSideEffect => true | _ => false end.

(* a program fragment: does not begin or end with a separator (those are trimmed away or
   dangle), and for the parenthesis clause contains none (inside a group a separator is
   a list separator by design) *)
Definition fragment (s : list token_type) : bool :=
  match s with
  | [] => true
  | t :: _ => negb (is_separator_tok t) && negb (is_separator_tok (last s t))
  end.

Definition layout_ok (s : list token_type) : bool :=
  negb (fragment s) ||
  (annotation_ok s && whitespace_ok s && (existsb not_operand_tok s || paren_ok s)).

Lemma layout_ok_rep_3 : forallb layout_ok (seqs_upto plain_alphabet 3) = true.
Proof. vm_compute. reflexivity. Qed.

Theorem layout_transparent_bounded_3_rep (s : list token_type) :
  length s <= 3 -> (forall t, In t s -> In t plain_alphabet) -> fragment s = true ->
  annotation_ok s = true /\ whitespace_ok s = true /\ (existsb not_operand_tok s = false -> paren_ok s = true).
Proof.
  intros Hl Hin. pose proof layout_ok_rep_3 as F. rewrite forallb_forall in F.
  intros Hf. specialize (F s (seqs_upto_complete plain_alphabet 3 s Hin Hl)). unfold layout_ok in F.
  rewrite Hf in F. simpl in F.
  apply andb_true_iff in F. destruct F as [F F3]. apply andb_true_iff in F. destruct F as [F1 F2].
  split; [exact F1|split; [exact F2|]]. intros Hs. rewrite Hs in F3. exact F3.
Qed.
