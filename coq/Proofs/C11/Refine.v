(* C11_refines: the worklist loop on the operand stack computes struct_eq and restores the stack. *)
From Coq Require Import ZArith NArith List Bool Arith Lia.
From GV Require Import Base.Result Gen.Instr Gen.EqTable Model.Num Model.Value Model.Equality Spec.StructEq.
Import ListNotations.
From GV Require Import Proofs.C11.Canon Proofs.C11.DataEqual.

Lemma stack_of_length ps base : length (stack_of ps base) = 2 * length ps + length base.
Proof. induction ps as [|[x y] ps IH]; cbn [stack_of length]; [reflexivity|]. rewrite IH. lia. Qed.

Lemma drain_stack ps base : drain (stack_of ps base) (length base) = base.
Proof.
  unfold drain. rewrite stack_of_length.
  replace (2 * length ps + length base - length base) with (2 * length ps) by lia.
  induction ps as [|[x y] ps IH]; [reflexivity|].
  cbn [length stack_of]. replace (2 * S (length ps)) with (S (S (2 * length ps))) by lia. cbn [skipn]. exact IH.
Qed.

Lemma Forall_pair_app ps qs : Forall pair_modelled ps -> Forall pair_modelled qs -> Forall pair_modelled (ps ++ qs).
Proof. intros. apply Forall_app. split; assumption. Qed.

Theorem eq_loop_correct fuel : forall ps base,
  measure ps < fuel -> Forall pair_modelled ps ->
  eq_loop fuel (length base) (stack_of ps base) = Ok (base, forallb seqp ps).
Proof.
  induction fuel as [|fuel IH]; intros ps base Hm Hok; [lia|].
  cbn [eq_loop]. rewrite stack_of_length.
  destruct ps as [|[x y] ps].
  - cbn [length stack_of forallb]. replace (2 * 0 + length base) with (length base) by lia.
    rewrite Nat.ltb_irrefl. reflexivity.
  - replace (length base <? 2 * length ((x, y) :: ps) + length base) with true
      by (symmetry; apply Nat.ltb_lt; cbn [length]; lia).
    cbn [stack_of].
    inversion Hok as [|p ps' [Hx Hy] Hrest]; subst. cbn [fst snd] in Hx, Hy.
    destruct (data_equal_ok x y (stack_of ps base) Hx Hy) as (new & b & Hde & Hseq & Hnew & Hnok).
    rewrite Hde. cbn [bind]. cbn [forallb]. unfold seqp at 1. cbn [fst snd]. rewrite Hseq.
    destruct b.
    + rewrite <- stack_of_app. rewrite IH.
      * rewrite forallb_app. reflexivity.
      * rewrite measure_app. cbn [measure] in Hm. unfold pair_size in Hm. cbn [fst snd] in Hm. lia.
      * apply Forall_pair_app; assumption.
    + rewrite <- stack_of_app, drain_stack. reflexivity.
Qed.

Theorem perform_equality_check_correct fuel l r base : modelled l -> modelled r ->
  val_size l + val_size r < fuel ->
  perform_equality_check fuel (r :: l :: base) = Ok (base, struct_eq l r).
Proof.
  intros Ml Mr Hf. unfold perform_equality_check. cbn [length Nat.ltb Nat.leb].
  replace (S (S (length base)) - 2) with (length base) by lia.
  change (r :: l :: base) with (stack_of [(l, r)] base).
  rewrite eq_loop_correct.
  - cbn [forallb]. unfold seqp. cbn [fst snd]. rewrite andb_true_r. reflexivity.
  - cbn [measure]. unfold pair_size. cbn [fst snd]. lia.
  - constructor; [split; assumption | constructor].
Qed.

Theorem equal_refines fuel l r base : modelled l -> modelled r ->
  val_size l + val_size r < fuel ->
  equal_fuel fuel (r :: l :: base) = Ok ((if struct_eq l r then VTrue else VFalse) :: base) /\
  not_equal_fuel fuel (r :: l :: base) = Ok ((if struct_eq l r then VFalse else VTrue) :: base).
Proof.
  intros Ml Mr Hf. unfold equal_fuel, not_equal_fuel.
  rewrite (perform_equality_check_correct fuel l r base Ml Mr Hf). cbn [bind]. unfold push_boolean.
  destruct (struct_eq l r); split; reflexivity.
Qed.

(* the instructions as the driver runs them: fuel computed from the operands suffices *)
Theorem equal_instr_refines l r base : modelled l -> modelled r ->
  equal (r :: l :: base) = Ok ((if struct_eq l r then VTrue else VFalse) :: base) /\
  not_equal (r :: l :: base) = Ok ((if struct_eq l r then VFalse else VTrue) :: base).
Proof.
  intros Ml Mr. unfold equal, not_equal. cbn [fuel_for].
  apply equal_refines; try assumption. lia.
Qed.

(* early exit with arbitrary pairs still pending: everything above the base is dropped *)
Theorem early_exit_restores fuel x y ps base : modelled x -> modelled y -> Forall pair_modelled ps ->
  struct_eq x y = false -> measure ((x, y) :: ps) < fuel ->
  eq_loop fuel (length base) (stack_of ((x, y) :: ps) base) = Ok (base, false).
Proof.
  intros Mx My Mps Hne Hf. rewrite eq_loop_correct; try assumption.
  - cbn [forallb]. unfold seqp at 1. cbn [fst snd]. rewrite Hne. reflexivity.
  - constructor; [split; assumption | assumption].
Qed.

(* too few registers: the state error, nothing else *)
Lemma too_few_registers fuel regs : length regs < 2 -> perform_equality_check fuel regs = Err E_state.
Proof. intros H. unfold perform_equality_check. apply Nat.ltb_lt in H. rewrite H. reflexivity. Qed.
