//! wfcode (C05): lex / parse / build on both data implementations and print what the build
//! added, with the data type found at every data-operand address.
//!   T <tt> <tt> ...        token-type indices (declaration order of TokenType)
//!   S <cp>,<cp>,...        source text as hex code points ("-" = empty)
//! Output: <case>\t<result>\t<oracle>
//!   result:  L=<ok|ERR|PANIC> P=<ERRn|PANIC|OK:root:[def.sec.parent.left.right.tok;...]>
//!            B=<ERRn|PANIC|OK:entry:I[..]:J[..]:M[..]> K=<K[type index per data operand]> (SimpleGarnishData)
//!            BB=<same|..> BK=<same|..>  (BasicGarnishData; `same` when equal to the Simple text)
//!   oracle:  toks=<token-type indices seen by parse>
#[path = "../codekit.rs"]
mod codekit;
use codekit::*;
use garnish_verif_harness::*;

fn build_and_show<D: Kit>(p: &Parsed) -> (String, String) {
    let mut data = D::fresh();
    match build_into(&mut data, p) {
        Err(c) => (c, "-".to_string()),
        Ok(b) => (show_built(&data, &b), show_kinds(&data, b.instr_from, b.instr_to)),
    }
}

fn main() {
    supervised(3000, |line| {
        let (kind, rest) = line.split_at(1);
        let rest = rest.trim_start();
        match tokens_of(kind, rest) {
            Lexed::Fail(c) => {
                if c == "BADCASE" {
                    format!("{}\tBADCASE\t-", line)
                } else {
                    format!("{}\tL={}\t-", line, c)
                }
            }
            Lexed::Tokens(tokens, idx) => {
                let res = match parse_tokens(&tokens) {
                    Err(c) => format!("P={} B=- K=- BB=same BK=same", c),
                    Ok(p) => {
                        let (b, k) = build_and_show::<Simple>(&p);
                        let (bb, bk) = build_and_show::<Basic>(&p);
                        format!(
                            "P=OK:{}:[{}] B={} K={} BB={} BK={}",
                            p.root,
                            show_nodes(&p.nodes),
                            b,
                            k,
                            if bb == b { "same".to_string() } else { bb },
                            if bk == k { "same".to_string() } else { bk }
                        )
                    }
                };
                format!("{}\tL=ok {}\t{}", line, res, toks_field(&idx))
            }
        }
    });
}
