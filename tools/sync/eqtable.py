"""Gen/EqTable.v: the (left type, right type) arms of data_equal in
runtime/src/runtime/equality.rs, in source order, each classified by its
whitespace-normalised body.  Arms that involve a Slice or a Range are outside
C11's domain and are recorded as EqOutOfScope whatever their body.  A body that
is not recognised raises: a broken tie."""
import re
from . import rustsrc as R
from .cmptable import split_arms, norm

SRC = "runtime/src/runtime/equality.rs"
EXT = "Extents::new(Data::Number::zero(),Data::Number::max_value())"
GETTERS = {"get_expression": "G_expression", "get_external": "G_external", "get_symbol": "G_symbol",
           "get_char": "G_char", "get_byte": "G_byte", "get_number": "G_number"}
ITERS = {"get_list_item_iter": "It_list", "get_concatenation_iter": "It_concat"}
PAIR_BODY = ("{let(left1,right1)=this.get_pair(left_addr)?;let(left2,right2)=this.get_pair(right_addr)?;"
             "this.push_register(left1)?;this.push_register(left2)?;this.push_register(right1)?;this.push_register(right2)?;true}")


def classify(body):
    b = norm(body).rstrip(",")
    if b.startswith("{") and b.endswith("}") and ";" not in b:
        b = b[1:-1]     # a block holding one expression
    if b == "true": return "EqTrue"
    if b == "false": return "EqFalse"
    if b == "this.get_type(left_addr)?==this.get_type(right_addr)?": return "EqType"
    m = re.fullmatch(r"compare\(this,left_addr,right_addr,Data::(\w+)\)\?", b)
    if m and m.group(1) in GETTERS:
        return "(EqGet %s)" % GETTERS[m.group(1)]
    for kind, ek in (("char", "EK_char"), ("byte", "EK_byte")):
        tail = ",Data::get_%s_list_len,Data::get_%s_list_item,Data::get_%s,)?" % (kind, kind, kind)
        if b == "compare_list_to_primitive(this,left_addr,right_addr" + tail: return "(EqListPrim %s true)" % ek
        if b == "compare_list_to_primitive(this,right_addr,left_addr" + tail: return "(EqListPrim %s false)" % ek
    for kind, ik in (("char_list", "IK_chars"), ("byte_list", "IK_bytes"), ("symbol_list", "IK_symbols")):
        if b == ("compare_index_iterator_values(this,this.get_%s_iter(left_addr.clone(),%s)?,this.get_%s_iter(right_addr.clone(),%s)?,)?"
                 % (kind, EXT, kind, EXT)):
            return "(EqIter %s)" % ik
    if norm(body).rstrip(",") == PAIR_BODY: return "EqPair"
    m = re.fullmatch(r"compare_item_iterators\(this,left_addr,right_addr,Data::(\w+)\)\?", b)
    if m and m.group(1) in ITERS:
        return "(EqItems %s %s)" % (ITERS[m.group(1)], ITERS[m.group(1)])
    m = re.fullmatch(r"compare_item_iterators_2\(this,left_addr,right_addr,Data::(\w+),Data::(\w+),%s,%s\)\?" % (re.escape(EXT), re.escape(EXT)), b)
    if m and m.group(1) in ITERS and m.group(2) in ITERS:
        return "(EqItems %s %s)" % (ITERS[m.group(1)], ITERS[m.group(2)])
    raise ValueError("data_equal: unrecognised arm body %r" % b[:140])


def split_alternatives(pat):
    out, depth, cur = [], 0, ""
    for c in pat:
        if c in "([{": depth += 1
        elif c in ")]}": depth -= 1
        if c == "|" and depth == 0:
            out.append(cur.strip()); cur = ""
        else:
            cur += c
    if cur.strip():
        out.append(cur.strip())
    return out


def generate():
    src = R.strip_comments(R.read(SRC))
    fn = R.item_body(src, r"fn data_equal<")
    m = re.search(r"let\s+equal\s*=\s*match\s*\(left_type,\s*right_type\)\s*\{", fn)
    if not m or not re.search(r"let\s*\(left_type,\s*right_type\)\s*=\s*\(this\.get_data_type\(left_addr\.clone\(\)\)\?,\s*this\.get_data_type\(right_addr\.clone\(\)\)\?\);", fn):
        raise ValueError("data_equal: dispatch match not found")
    start = m.end() - 1
    end = R.match_brace(fn, start)
    rows, default = [], None
    for pat, body in split_arms(fn[start + 1:end - 1]):
        if pat == "_":
            default = classify(body)
            continue
        if default is not None:
            raise ValueError("data_equal: arm after the wildcard")
        for alt in split_alternatives(pat):
            pm = re.fullmatch(r"\(GarnishDataType::(\w+),\s*GarnishDataType::(\w+)\)", alt)
            if not pm:
                raise ValueError("data_equal: unrecognised pattern %r" % alt)
            a, b = pm.group(1), pm.group(2)
            if "Slice" in (a, b) or "Range" in (a, b):
                kind = "EqOutOfScope"
            else:
                kind = classify(body)
            rows.append((a, b, kind))
    if default is None:
        raise ValueError("data_equal: no wildcard arm")
    L = [R.HEADER % SRC, "From GV Require Import Gen.Instr.\n"]
    L.append("Inductive getter : Type := G_expression | G_external | G_symbol | G_char | G_byte | G_number.")
    L.append("Inductive elem_kind : Type := EK_char | EK_byte.")
    L.append("Inductive iter_kind : Type := IK_chars | IK_bytes | IK_symbols.")
    L.append("Inductive item_iter : Type := It_list | It_concat.")
    L.append("Inductive eq_arm : Type :=\n| EqTrue | EqFalse | EqType\n| EqGet (g : getter)\n"
             "| EqListPrim (k : elem_kind) (list_is_left : bool)\n| EqIter (k : iter_kind)\n| EqPair\n"
             "| EqItems (l r : item_iter)\n| EqOutOfScope.")
    L.append("(* arms of data_equal's (left type, right type) match, in source order (alternatives expanded) *)")
    L.append("Definition eq_arms : list (data_type * data_type * eq_arm) :=\n  [" +
             ";\n   ".join("(T_%s, T_%s, %s)" % r for r in rows) + "].")
    L.append("Definition eq_default : eq_arm := %s." % default)
    return {"EqTable.v": "\n".join(L) + "\n"}
