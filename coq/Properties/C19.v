(* C19  Compaction and cloning preserve everything reachable.
   Only statements, [exact] and [Print Assumptions] live here.

   Vocabulary (coq/Spec/HeapIso.v, coq/Model/Optimize.v):
     [Reads h a t]     the structure reachable from address [a] of data block [h] is the tree [t]
                       (labels with every address erased; covers values, list item/association slots,
                       text cells, and the Register/Value/Frame cells the stacks are made of, so the
                       read-back of a stack is a function of the tree at its head: regs_of, vals_of,
                       frames_of);
     [Maps s s' a a']  whatever is read at [a] in [s] is read at [a'] in [s'];
     [closed_prefix s] what is read below the retention count is read inside the retained prefix
                       (no value straddles the boundary, no retained cell points above it).
   The theorems are about the executable model of optimize / clone_data, for every store and every
   outcome [Ok]; whether the call succeeds is not part of them (see C19_K1_refuted). *)
From Coq Require Import NArith List Arith.
From GV Require Import Base.Result Model.Optimize Spec.HeapIso Proofs.C19.Base Proofs.C19.StoreLemmas
  Proofs.C19.CloneStack Proofs.C19.CloneData Proofs.C19.OptimizeProof Proofs.C19.Reader Proofs.C19.Closure Proofs.C19.Examples Proofs.C19.Bounded.
Import ListNotations.

(* clone_data: the result reads as the argument did, and the original is intact: no cell below the
   old cursor changed, so every address reads as before; stack heads, symbol table and retention
   count are untouched *)
Theorem C19_clone : forall s a s' a', clone_data s a = Ok (s', a') ->
  (forall t, Reads (cells s) a t -> Reads (cells s') a' t) /\
  firstn (length (cells s)) (cells s') = cells s /\
  (forall b t, Reads (cells s) b t -> Reads (cells s') b t) /\
  same_meta s s'.
Proof. exact clone_data_correct. Qed.
Print Assumptions C19_clone.

(* optimize: extra roots through the returned mapping, the three stacks through the new heads, the
   symbol table entry by entry, the retained prefix in place *)
Theorem C19_optimize : forall s roots s' m, optimize s roots = Ok (s', m) ->
  retention s <= length (cells s) -> closed_prefix s ->
  length m = length roots /\
  (forall i r, nth_error roots i = Some r -> exists r', nth_error m i = Some r' /\ Maps s s' r r') /\
  head_preserved s s' (cur_register s) (cur_register s') /\
  head_preserved s s' (cur_value s) (cur_value s') /\
  head_preserved s s' (cur_frame s) (cur_frame s') /\
  length (symtab s') = length (symtab s) /\
  (forall i sym idx, nth_error (symtab s) i = Some (sym, idx) ->
     exists idx', nth_error (symtab s') i = Some (sym, idx') /\ Maps s s' idx idx') /\
  retention s' = retention s /\
  firstn (retention s) (cells s') = firstn (retention s) (cells s) /\
  (forall b, b < retention s -> Maps s s' b b).
Proof. exact optimize_correct. Qed.
Print Assumptions C19_optimize.

(* the executable reader of the spec computes exactly the relation the theorems speak of *)
Theorem C19_reader_sound : forall n h a t, read_f n h a = Some t -> Reads h a t.
Proof. exact read_f_sound. Qed.
Print Assumptions C19_reader_sound.

Theorem C19_reader_complete : forall h a t, Reads h a t -> exists n, forall m, n <= m -> read_f m h a = Some t.
Proof. exact read_f_complete. Qed.
Print Assumptions C19_reader_complete.

(* the worklist-closure lemma: after a successful create_index_stack every queued address is followed,
   later in the list, by each address its cell refers to ([kids_of]: what the match of
   create_index_stack queues for a cell); this is what lets the reverse-order copy loop find every
   child already copied *)
Theorem C19_worklist_closed : forall s from s1 start, create_index_stack s from = Ok (s1, start) ->
  start = length (cells s) /\
  nth_error (cells s1) start = Some (CCloneItem from) /\
  closed_upto (cells s1) start (length (cells s1)).
Proof. exact create_index_stack_closed. Qed.
Print Assumptions C19_worklist_closed.

(* children first: while position [i] of the index list is rewritten, an address queued at a later
   position already has its CloneMap cell, so its lookup succeeds (with C19_worklist_closed: the
   lookups of a cell's own kids cannot fail with NoMappedIndexFoundDuringClone) *)
Theorem C19_children_first : forall h0 c0 o ret ds sI i s k q,
  Inv h0 c0 o ret ds sI (S i) s -> i < q -> q < c0 -> c0 <= dsize s ->
  nth_error h0 q = Some (CCloneItem k) ->
  exists k', lookup s (ds + S i) (ds + c0) k = Ok k'.
Proof. exact lookup_of_later_item_succeeds. Qed.
Print Assumptions C19_children_first.

(* ADDITIONAL, BOUNDED (finite, by vm_compute; the bound is in the name): on every one of the
   1 + 4 + 36 + 576 data blocks of at most 4 cells over {number, pair, RegisterRoot, ValueRoot} with
   addresses pointing below the cell, every register head, value head, retention count 0..2 and extra
   root, the model's optimize returns Ok and [check1] holds: the executable read-back of the root, of
   both heads and of the retained cells is unchanged.  Not a substitute for C19_optimize; it adds that
   the call succeeds, on this finite family only. *)
Theorem C19_optimize_succeeds_bounded_4 : forall n h ret hr hv root,
  In n [1; 2; 3; 4] -> In h (blocks n) ->
  In ret [0; 1; 2] -> ret <= length h -> In hr (heads_of is_rr h) -> In hv (heads_of is_vr h) -> root < length h ->
  check1 h ret hr hv root = true.
Proof. exact optimize_succeeds_bounded_4. Qed.
Print Assumptions C19_optimize_succeeds_bounded_4.

Example C19_bounded_family_sizes : map (fun n => length (blocks n)) [1; 2; 3; 4] = [1; 4; 36; 576].
Proof. exact blocks_count. Qed.

(* non-vacuity: concrete stores meet the hypotheses, the calls succeed and move things *)
Example C19_ex_optimize : exists s', optimize ex_store [2; 10] = Ok (s', [3; 0]) /\
  length (cells s') = 15 /\ cur_register s' = Some 9 /\ cur_frame s' = Some 11 /\ cur_value s' = Some 12 /\
  symtab s' = [(5%N, 13)] /\
  read_any (cells s') 6 = Some ex_list_tree /\
  read_any (cells s') 11 = read_any (cells ex_store) 13 /\
  read_any (cells s') 13 = read_any (cells ex_store) 8.
Proof. exact ex_store_optimize. Qed.

Example C19_ex_hyps : retention ex_store <= length (cells ex_store) /\ closed_prefix ex_store /\
  retention ex_ret <= length (cells ex_ret) /\ closed_prefix ex_ret /\
  Reads (cells ex_store) 5 ex_list_tree.
Proof.
  exact (conj (proj1 ex_store_hyps) (conj (proj2 ex_store_hyps)
        (conj (proj1 ex_ret_hyps) (conj (proj2 ex_ret_hyps) (proj1 ex_store_reads))))).
Qed.

Example C19_ex_retained : exists s', optimize ex_ret [3; 4] = Ok (s', [4; 3]) /\
  firstn 3 (cells s') = firstn 3 (cells ex_ret) /\ read_any (cells s') 4 = read_any (cells ex_ret) 3.
Proof. exact ex_ret_optimize. Qed.

Example C19_ex_clone : exists s', clone_data ex_store 5 = Ok (s', 26) /\
  read_any (cells s') 26 = Some ex_list_tree /\ firstn 15 (cells s') = cells ex_store.
Proof. exact ex_store_clone. Qed.

(* finding C19-K1: success is not guaranteed on a well-formed store -- a ten-cell block with shared
   sub-values makes both calls fail with CloneLimitReached *)
Theorem C19_K1_refuted : (exists t, Reads (cells k1_store) 9 t) /\ closed_prefix k1_store /\
  optimize k1_store [] = Err E_CloneLimit /\ clone_data k1_store 8 = Err E_CloneLimit.
Proof. exact k1_store_fails. Qed.
Print Assumptions C19_K1_refuted.

(* not proved (kept visible): the calls succeed on every well-formed store outside C19-K1 whose block
   may still grow, and the runtime's step relation commutes with optimize (no runtime model here; the
   check injects optimize at every step boundary of generated programs instead) *)
Definition Known_C19_K1 (s : store) (roots : list nat) : Prop := optimize s roots = Err E_CloneLimit.
Definition C19_success_statement : Prop :=
  forall s roots,
    maxitems s = None -> retention s <= length (cells s) -> closed_prefix s ->
    (forall r, In r (roots ++ opt_list (cur_register s) ++ opt_list (cur_value s) ++ opt_list (cur_frame s)
                       ++ map snd (symtab s)) -> exists t, Reads (cells s) r t) ->
    (match strat s with Fixed n => 0 < n | Mult n => 1 < n /\ 0 < dsize s end) ->
    ~ Known_C19_K1 s roots ->
    exists s' m, optimize s roots = Ok (s', m).
