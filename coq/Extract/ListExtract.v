(* Extraction of the store models plus the list/runtime model for the C16
   correspondence check.  ExtrOcamlBasic only; no Extract Constant. *)
Require Import ExtrOcamlBasic.
From Coq Require Import NArith ZArith List.
From GV Require Import Base.Result Gen.Instr Model.StoreBase Model.BasicStore Model.SimpleStore Model.StoreOps Model.Lists.
Cd "../build/ocaml".
Extraction "list_model.ml"
  bstep sstep run new_default new_with_settings simple_new all_instruction all_data_type instruction_index data_type_index
  basic_ops simple_ops make_list build_list access apply_list iterate_concatenation index_list access_with_symbol access_with_integer
  get_data_len get_data_type get_number get_type get_char get_byte get_symbol get_expression get_external
  get_pair get_concatenation get_range get_slice get_partial get_list_len get_list_item get_list_item_with_symbol
  get_char_list_len get_char_list_item get_byte_list_len get_byte_list_item get_symbol_list_len get_symbol_list_item
  get_list_item_iter_all get_register_len get_register pop_register push_register
  add_number add_symbol add_pair add_unit add_string add_concatenation
  s_get_data_len s_get_data_type s_get_number s_get_type s_get_char s_get_byte s_get_symbol s_get_expression s_get_external
  s_get_pair s_get_concatenation s_get_range s_get_slice s_get_partial s_get_list_len s_get_list_item s_get_list_item_with_symbol
  s_get_char_list_len s_get_char_list_item s_get_byte_list_len s_get_byte_list_item s_get_symbol_list_len s_get_symbol_list_item
  s_get_list_item_iter s_get_register_len s_get_register s_pop_register s_push_register
  s_add_number s_add_symbol s_add_pair s_add_unit s_add_concatenation
  s_start_char_list s_add_to_char_list s_end_char_list usize_of_int.
Cd "../../coq".
