(* C07: the checked primitives, number <-> usize casts and the GarnishNumber guards. *)
From Coq Require Import ZArith NArith List Bool Lia.
From Flocq Require Import IEEE754.Binary IEEE754.Bits.
From GV Require Import Base.Result Model.Num Model.RuntimeIndex.
Local Open Scope N_scope.

Lemma usub_ok site a b : b <= a -> usub site a b = Ok (a - b).
Proof. intros H. unfold usub. destruct (b <=? a) eqn:E; [reflexivity | apply N.leb_gt in E; lia]. Qed.

Lemma vec_index_ok site len i : i < len -> vec_index site len i = Ok i.
Proof. intros H. unfold vec_index. destruct (i <? len) eqn:E; [reflexivity | apply N.ltb_ge in E; lia]. Qed.

Lemma vec_slice_ok site len s e : s <= e -> e <= len -> vec_slice site len s e = Ok (s, e).
Proof.
  intros H1 H2. unfold vec_slice.
  destruct (s <=? e) eqn:E1; [| apply N.leb_gt in E1; lia].
  destruct (e <=? len) eqn:E2; [reflexivity | apply N.leb_gt in E2; lia].
Qed.

Lemma umod_ok site a b : b <> 0 -> umod site a b = Ok (a mod b).
Proof. intros H. unfold umod. destruct (b =? 0) eqn:E; [apply N.eqb_eq in E; contradiction | reflexivity]. Qed.

(* ---- casts: total functions that land in the usize range (an `as` cast never panics) *)
Lemma f64_as_usize_range f : f64_as_usize f <= usize_max.
Proof.
  destruct f as [s | s | s pl H | s m e H]; cbn [f64_as_usize]; try (destruct s); unfold usize_max; lia.
Qed.

Theorem usize_of_num_no_panic : forall x,
  (match x with Int v => in_i32 v = true | Flt _ => True end) -> usize_of_num x <= usize_max.
Proof.
  intros [v | f] H; cbn [usize_of_num].
  - unfold in_i32, i32_min, i32_max in H. unfold usize_max. lia.
  - apply f64_as_usize_range.
Qed.

Lemma usize_of_int_neg v : (v <= 0)%Z -> usize_of_num (Int v) = 0.
Proof. intros H. cbn [usize_of_num]. lia. Qed.

Lemma usize_of_int_pos v : (0 <= v)%Z -> usize_of_num (Int v) = Z.to_N v.
Proof. intros H. cbn [usize_of_num]. f_equal. lia. Qed.

Lemma i32_as_usize_nonneg v : (0 <= v)%Z -> i32_as_usize v = Z.to_N v.
Proof. intros H. unfold i32_as_usize. destruct (v <? 0)%Z eqn:E; [lia | reflexivity]. Qed.

Lemma i32_as_usize_neg_huge v : in_i32 v = true -> (v < 0)%Z -> 18446744071562067968 <= i32_as_usize v.
Proof.
  intros H Hn. unfold i32_as_usize. destruct (v <? 0)%Z eqn:E; [| lia].
  unfold in_i32, i32_min, i32_max in H. lia.
Qed.

Lemma wrap32_small z : (0 <= z < 2147483648)%Z -> wrap32 z = z.
Proof. intros H. unfold wrap32. rewrite Z.mod_small by lia. lia. Qed.

Lemma size_to_number_small n : n < 2147483648 -> size_to_number n = Int (Z.of_N n).
Proof. intros H. unfold size_to_number. rewrite wrap32_small by lia. reflexivity. Qed.

(* ---- GarnishNumber: no primitive is called outside its precondition *)
Lemma is_zero_int_false b : is_zero_num (Int b) = false -> b <> 0%Z.
Proof.
  intros H Hb. subst b. unfold is_zero_num, num_eq, num_partial_cmp in H. cbn in H. discriminate.
Qed.

Theorem num_ops_no_panic : forall powf o l r,
  num_binop_res powf o l r = Ok (num_binop powf o l r).
Proof.
  intros powf o l r.
  destruct o; cbn [num_binop_res num_binop]; try reflexivity.
  - (* div *)
    unfold num_divide_res, num_divide. destruct (is_zero_num r) eqn:Z; [reflexivity|].
    destruct l as [a | fa], r as [b | fb]; try reflexivity.
    unfold div_prim. apply is_zero_int_false in Z.
    destruct (b =? 0)%Z eqn:E; [lia|]. cbn [bind do_op flag_result]. reflexivity.
  - (* integer divide *)
    unfold num_integer_divide_res, num_integer_divide. destruct (is_zero_num r) eqn:Z; [reflexivity|].
    destruct l as [a | fa], r as [b | fb]; try reflexivity.
    unfold div_prim. apply is_zero_int_false in Z.
    destruct (b =? 0)%Z eqn:E; [lia|]. cbn [bind flag_result]. reflexivity.
  - (* remainder *)
    unfold num_remainder_res, num_remainder. destruct (is_zero_num r) eqn:Z; [reflexivity|].
    destruct l as [a | fa], r as [b | fb]; try reflexivity.
    unfold rem_prim. apply is_zero_int_false in Z.
    destruct (b =? 0)%Z eqn:E; [lia|]. cbn [bind do_op flag_result]. reflexivity.
Qed.

(* every operation, every operand pair (shift counts, MIN / -1, zero divisors included): a value or unit, never Panic *)
Corollary num_binop_never_panics : forall powf o l r, no_panic (num_binop_res powf o l r).
Proof. intros. rewrite num_ops_no_panic. exact I. Qed.

(* the shifts as written before deb7c97 did panic (regression witness; C09 owns the fix) *)
Lemma raw_shift_v0_refuted : raw_shift_v0 true (Int 1) (Int 32) = Panic site_num_prim
  /\ num_binop (fun a _ => a) OpShl (Int 1) (Int 32) = None.
Proof. split; vm_compute; reflexivity. Qed.

(* comparisons *)
Lemma num_ltb_int a b : num_ltb (Int a) (Int b) = (a <? b)%Z.
Proof. unfold num_ltb, num_partial_cmp. rewrite Z.ltb_compare. destruct (a ?= b)%Z; reflexivity. Qed.
Lemma num_leb_int a b : num_leb (Int a) (Int b) = (a <=? b)%Z.
Proof. unfold num_leb, num_partial_cmp. rewrite Z.leb_compare. destruct (a ?= b)%Z; reflexivity. Qed.
Lemma num_geb_int a b : num_geb (Int a) (Int b) = (b <=? a)%Z.
Proof.
  unfold num_geb, num_partial_cmp. rewrite Z.leb_compare, (Z.compare_antisym a b).
  destruct (a ?= b)%Z; reflexivity.
Qed.
