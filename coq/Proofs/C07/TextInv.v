(* C07: a strengthening of C15's invariant, proved preserved by every operation of the C15
   history vocabulary (without touching Proofs/C15):
     - the n cells after a CharList(n) / ByteList(n) header exist below the data cursor and are
       Char / Byte cells (the runs that get_char_list_iter, get_byte_list_iter, get_symbol_string
       and conversions/bytes.rs slice, and whose cells they unwrap);
     - a finished list header List(len, n) has n <= len (the association slice of
       get_list_item_with_symbol stays inside the 2*len cells the list owns).
   Side condition on histories ([wf_op]): add_string / parse_add_symbol write the number of
   characters as the header -- what /repo does since 626dd96; C15's model leaves that number free. *)
From Coq Require Import NArith ZArith List Bool Arith Lia Permutation.
From GV Require Import Base.Result Gen.Instr Model.StoreBase Model.BasicStore Model.StoreOps Spec.AbsTables
  Proofs.C15.ListFacts Proofs.C15.Layout Proofs.C15.Stable Proofs.C15.Steps Proofs.C15.History.
Import ListNotations.

Definition textish (c : cell) : bool :=
  match c with CCharList _ | CByteList _ | CChar _ | CByte _ => true | _ => false end.
Definition okcell (c : cell) : Prop := match c with CList len ac => ac <= len | _ => True end.

Record X (T : list cell) : Prop := {
  x_chars : forall p n, nth_error T p = Some (CCharList n) ->
              p + n < length T /\ forall k, 1 <= k <= n -> exists x, nth_error T (p + k) = Some (CChar x);
  x_bytes : forall p n, nth_error T p = Some (CByteList n) ->
              p + n < length T /\ forall k, 1 <= k <= n -> exists x, nth_error T (p + k) = Some (CByte x);
  x_cells : forall p c, nth_error T p = Some c -> okcell c }.

Definition wf_op (o : op) : Prop :=
  match o with
  | OText byte_len chars => byte_len = length chars
  | OSymbol _ byte_len name => byte_len = length name
  | _ => True
  end.

(* in-place change that neither creates nor destroys a text cell *)
Definition NT (T T' : list cell) : Prop :=
  length T' = length T /\
  forall i, nth_error T' i = nth_error T i \/
            exists c c', nth_error T i = Some c /\ nth_error T' i = Some c' /\
                         textish c = false /\ textish c' = false /\ okcell c'.

Lemma X_nil : X [].
Proof. constructor; intros p; intros; destruct p; discriminate. Qed.

Lemma X_app : forall T cells, X T -> X cells -> X (T ++ cells).
Proof.
  intros T cells [C1 B1 K1] [C2 B2 K2]. constructor.
  - intros p n Hp. destruct (lt_dec p (length T)) as [Hlt|Hge].
    + rewrite nth_error_app1 in Hp by assumption. destruct (C1 p n Hp) as [Hb Hk].
      split; [rewrite app_length; lia|]. intros k Hkk. destruct (Hk k Hkk) as [x Hx]. exists x.
      rewrite nth_error_app1 by lia. exact Hx.
    + rewrite nth_error_app2 in Hp by lia. destruct (C2 _ n Hp) as [Hb Hk].
      split; [rewrite app_length; lia|]. intros k Hkk. destruct (Hk k Hkk) as [x Hx]. exists x.
      rewrite nth_error_app2 by lia. replace (p + k - length T) with (p - length T + k) by lia. exact Hx.
  - intros p n Hp. destruct (lt_dec p (length T)) as [Hlt|Hge].
    + rewrite nth_error_app1 in Hp by assumption. destruct (B1 p n Hp) as [Hb Hk].
      split; [rewrite app_length; lia|]. intros k Hkk. destruct (Hk k Hkk) as [x Hx]. exists x.
      rewrite nth_error_app1 by lia. exact Hx.
    + rewrite nth_error_app2 in Hp by lia. destruct (B2 _ n Hp) as [Hb Hk].
      split; [rewrite app_length; lia|]. intros k Hkk. destruct (Hk k Hkk) as [x Hx]. exists x.
      rewrite nth_error_app2 by lia. replace (p + k - length T) with (p - length T + k) by lia. exact Hx.
  - intros p c Hp. destruct (lt_dec p (length T)) as [Hlt|Hge].
    + rewrite nth_error_app1 in Hp by assumption. exact (K1 p c Hp).
    + rewrite nth_error_app2 in Hp by lia. exact (K2 _ c Hp).
Qed.

(* cells without text headers and without list headers violating okcell *)
Lemma X_plain : forall cells,
  (forall c, In c cells -> (forall n, c <> CCharList n) /\ (forall n, c <> CByteList n) /\ okcell c) -> X cells.
Proof.
  intros cells H. constructor.
  - intros p n Hp. apply nth_error_In in Hp. destruct (H _ Hp) as (Hc & _). exfalso. exact (Hc n eq_refl).
  - intros p n Hp. apply nth_error_In in Hp. destruct (H _ Hp) as (_ & Hb & _). exfalso. exact (Hb n eq_refl).
  - intros p c Hp. apply nth_error_In in Hp. exact (proj2 (proj2 (H _ Hp))).
Qed.

Lemma nth_map_char : forall cs k, nth_error (map CChar cs) k = option_map CChar (nth_error cs k).
Proof. intros. apply nth_error_map. Qed.

Lemma X_charlist : forall cs, X (CCharList (length cs) :: map CChar cs).
Proof.
  intros cs. constructor.
  - intros p n Hp. destruct p as [|p].
    + cbn in Hp. inversion Hp. subst n. cbn [length]. rewrite map_length. split; [lia|].
      intros k Hk. destruct k as [|k]; [lia|]. cbn [Nat.add nth_error]. rewrite nth_error_map.
      destruct (nth_error cs k) eqn:E; [eexists; reflexivity|]. apply nth_error_None in E. lia.
    + cbn [nth_error] in Hp. rewrite nth_error_map in Hp. destruct (nth_error cs p); discriminate.
  - intros p n Hp. destruct p as [|p]; [discriminate|]. cbn [nth_error] in Hp. rewrite nth_error_map in Hp.
    destruct (nth_error cs p); discriminate.
  - intros p c Hp. destruct p as [|p]; [inversion Hp; exact I|]. cbn [nth_error] in Hp. rewrite nth_error_map in Hp.
    destruct (nth_error cs p); inversion Hp. exact I.
Qed.

Lemma X_bytelist : forall l, X (CByteList (length l) :: map CByte l).
Proof.
  intros cs. constructor.
  - intros p n Hp. destruct p as [|p]; [discriminate|]. cbn [nth_error] in Hp. rewrite nth_error_map in Hp.
    destruct (nth_error cs p); discriminate.
  - intros p n Hp. destruct p as [|p].
    + cbn in Hp. inversion Hp. subst n. cbn [length]. rewrite map_length. split; [lia|].
      intros k Hk. destruct k as [|k]; [lia|]. cbn [Nat.add nth_error]. rewrite nth_error_map.
      destruct (nth_error cs k) eqn:E; [eexists; reflexivity|]. apply nth_error_None in E. lia.
    + cbn [nth_error] in Hp. rewrite nth_error_map in Hp. destruct (nth_error cs p); discriminate.
  - intros p c Hp. destruct p as [|p]; [inversion Hp; exact I|]. cbn [nth_error] in Hp. rewrite nth_error_map in Hp.
    destruct (nth_error cs p); inversion Hp. exact I.
Qed.

Lemma NT_refl : forall T, NT T T.
Proof. intros T. split; [reflexivity|]. intro i. left. reflexivity. Qed.

Lemma NT_trans : forall A B C, NT A B -> NT B C -> NT A C.
Proof.
  intros A B C [L1 H1] [L2 H2]. split; [congruence|]. intro i.
  destruct (H2 i) as [E2|(c2 & c2' & Hb & Hc & T2 & T2' & K2)].
  - rewrite E2. exact (H1 i).
  - destruct (H1 i) as [E1|(c1 & c1' & Ha & Hb' & T1 & T1' & K1)].
    + right. exists c2, c2'. rewrite <- E1. auto.
    + right. exists c1, c2'. auto.
Qed.

Lemma NT_X : forall T T', X T -> NT T T' -> X T'.
Proof.
  intros T T' [C B K] [L H].
  assert (keep : forall i c, nth_error T i = Some c -> textish c = true -> nth_error T' i = Some c).
  { intros i c Hc Ht. destruct (H i) as [E|(c0 & c' & H0 & _ & T0 & _)]; [congruence|]. congruence. }
  assert (back : forall i c, nth_error T' i = Some c -> textish c = true -> nth_error T i = Some c).
  { intros i c Hc Ht. destruct (H i) as [E|(c0 & c' & _ & H0 & _ & T0 & _)]; [congruence|]. congruence. }
  constructor.
  - intros p n Hp. pose proof (back p _ Hp eq_refl) as Hp0. destruct (C p n Hp0) as [Hb Hk]. split; [lia|].
    intros k Hkk. destruct (Hk k Hkk) as [x Hx]. exists x. exact (keep _ _ Hx eq_refl).
  - intros p n Hp. pose proof (back p _ Hp eq_refl) as Hp0. destruct (B p n Hp0) as [Hb Hk]. split; [lia|].
    intros k Hkk. destruct (Hk k Hkk) as [x Hx]. exists x. exact (keep _ _ Hx eq_refl).
  - intros p c Hp. destruct (H p) as [E|(c0 & c' & _ & H0 & _ & _ & K0)].
    + rewrite E in Hp. exact (K p c Hp).
    + rewrite Hp in H0. inversion H0. subst c'. exact K0.
Qed.

(* one cell overwritten *)
Lemma NT_set : forall T T' i old new, nth_error T i = Some old -> set_ix T i new = Some T' ->
  textish old = false -> textish new = false -> okcell new -> NT T T'.
Proof.
  intros T T' i old new Ho Hs To Tn Kn. split; [exact (set_ix_length _ _ _ _ Hs)|].
  intro j. rewrite (set_ix_nth _ _ _ _ j Hs). destruct (j =? i) eqn:E; [|left; reflexivity].
  apply Nat.eqb_eq in E. subst j. right. exists old, new. auto.
Qed.

(* ------------------------------------------------------------------ effects of one operation *)
Definition Eff (s s' : basic) : Prop :=
  (exists cells, data s' = data s ++ cells /\ X cells) \/ NT (data s) (data s').

Lemma Eff_X : forall s s', X (data s) -> Eff s s' -> X (data s').
Proof.
  intros s s' Hx [(cells & Hd & Hc)|Hn].
  - rewrite Hd. apply X_app; assumption.
  - eapply NT_X; eassumption.
Qed.

Lemma Eff_same : forall s s', data s' = data s -> Eff s s'.
Proof. intros s s' H. right. rewrite H. apply NT_refl. Qed.

Lemma Eff_app : forall s s' cells, data s' = data s ++ cells -> X cells -> Eff s s'.
Proof. intros. left. eauto. Qed.

Lemma lift_inv : forall A (f : A -> result) (m : BM A) s s' r,
  lift f m s = Ok (s', r) -> exists o, m s = Ok (s', o).
Proof.
  intros A f m s s' r H. unfold lift in H. destruct (m s) as [[s1 [a|e]]| | |]; inversion H; subst; eauto.
Qed.

(* ---- primitives ---- *)
Lemma push_data_eff : forall s c s' o, Good s -> push_to_data_block c s = Ok (s', o) ->
  Good s' /\ data s' = data s ++ [c] /\ o = Done (length (data s)).
Proof.
  intros s c s' o Gs H. destruct (push_data_raw s c Gs) as (s1 & H1 & (G1 & D1 & _)).
  rewrite H in H1. inversion H1. subst. auto.
Qed.

Lemma push_all_eff : forall cells s s' o, Good s -> push_all cells s = Ok (s', o) ->
  Good s' /\ data s' = data s ++ cells /\ o = Done tt.
Proof.
  intros cells s s' o Gs H. destruct (push_all_raw cells s Gs) as (s1 & H1 & (G1 & D1 & _)).
  rewrite H in H1. inversion H1. subst. auto.
Qed.

Lemma push_other_eff : forall s b c s' o, Good s -> b <> BData -> push_to b c s = Ok (s', o) ->
  Good s' /\ data s' = data s.
Proof.
  intros s b c s' o Gs Hb H. destruct (push_to_ok s b c Gs) as (s1 & H1 & G1 & _ & Ho & _).
  rewrite H in H1. inversion H1. subst. split; [exact G1|]. unfold data. apply Ho. congruence.
Qed.

Lemma Good_same_blocks : forall s s', Good s -> Inv s' -> (forall b, get_block s' b = get_block s b) -> Good s'.
Proof.
  intros s s' [I P M] I' Hb. constructor; [exact I'| |].
  - intro b. rewrite Hb. apply P.
  - intro b. unfold sett. rewrite Hb. apply M.
Qed.

Lemma sort_other_eff : forall s b s' o, Good s -> b <> BData ->
  sort_range (b_start (get_block s b)) (b_start (get_block s b) + b_cursor (get_block s b)) s = Ok (s', o) ->
  Good s' /\ data s' = data s.
Proof.
  intros s b s' o Gs Hb H. pose proof (good_inv s Gs) as I.
  destruct (sort_range_ok s b 0 (cur s b) I) as (s1 & H1 & I1 & _ & Ho & Hbl & _); [lia|lia|].
  unfold st, cur in H1. rewrite Nat.add_0_r in H1. rewrite H in H1. inversion H1. subst.
  split; [eapply Good_same_blocks; eassumption|]. unfold data. apply Ho. congruence.
Qed.

Lemma push_assoc_eff : forall s b sym v s' o, Good s -> b <> BData -> push_assoc b sym v s = Ok (s', o) ->
  Good s' /\ data s' = data s.
Proof.
  intros s b sym v s' o Gs Hb H. unfold push_assoc, sbind in H.
  destruct (push_to b (CAssociativeItem sym v) s) as [[s1 [a|e]]| | |] eqn:E; try discriminate.
  - destruct (push_other_eff s b _ s1 _ Gs Hb E) as [G1 D1].
    destruct (sort_other_eff s1 b s' o G1 Hb H) as [G2 D2]. split; [exact G2|congruence].
  - inversion H. subst. exact (push_other_eff s b _ s' _ Gs Hb E).
Qed.

Lemma get_data_spec : forall s i, Inv s ->
  get_data i s = match nth_error (data s) i with Some c => Ok (s, Done c) | None => Ok (s, Fail E_index) end.
Proof.
  intros s i I. unfold get_data, sread. rewrite (get_from_block_ok s BData i I). fold (data s).
  destruct (nth_error (data s) i); reflexivity.
Qed.

Lemma set_data_spec : forall s i c, Good s -> i < length (data s) ->
  exists s', set_data i c s = Ok (s', Done tt) /\ Good s' /\ set_ix (data s) i c = Some (data s') /\
             (forall b, get_block s' b = get_block s b).
Proof.
  intros s i c Gs Hi. pose proof (good_inv s Gs) as I. rewrite (data_len s I) in Hi.
  destruct (set_in_block_ok s BData i c I Hi) as (s' & l' & Hr & I' & Hset & Hw & _ & Hb & _).
  exists s'. unfold set_data. split; [exact Hr|]. split; [eapply Good_same_blocks; eassumption|].
  split; [|exact Hb]. unfold data. rewrite Hw. exact Hset.
Qed.

Lemma data_same_store : forall s s', same_store s s' -> data s' = data s.
Proof. intros. unfold data. apply same_store_window. assumption. Qed.

(* ---- operations that only append to the data block ---- *)
Lemma plain_single : forall c, (forall n, c <> CCharList n) -> (forall n, c <> CByteList n) -> okcell c -> X [c].
Proof. intros c H1 H2 H3. apply X_plain. intros c' [<-|[]]. auto. Qed.

Lemma push_single_eff : forall s c s' o, G s -> push_to_data_block c s = Ok (s', o) ->
  (forall n, c <> CCharList n) -> (forall n, c <> CByteList n) -> okcell c -> Eff s s'.
Proof.
  intros s c s' o Gs H H1 H2 H3. destruct (push_data_eff s c s' o (g_good s Gs) H) as (_ & D & _).
  eapply Eff_app; [exact D|]. apply plain_single; assumption.
Qed.

Lemma add_string_eff : forall s cs s' o, G s -> add_string (length cs) cs s = Ok (s', o) -> Eff s s'.
Proof.
  intros s cs s' o Gs H. unfold add_string, sbind in H.
  destruct (push_to_data_block (CCharList (length cs)) s) as [[s1 [a|e]]| | |] eqn:E1; try discriminate.
  - destruct (push_data_eff _ _ _ _ (g_good s Gs) E1) as (G1 & D1 & _).
    destruct (push_all (map CChar cs) s1) as [[s2 [u|e]]| | |] eqn:E2; try discriminate.
    + destruct (push_all_eff _ _ _ _ G1 E2) as (G2 & D2 & _). inversion H. subst.
      eapply Eff_app; [|apply (X_charlist cs)]. rewrite D2, D1, <- app_assoc. reflexivity.
    + destruct (push_all_eff _ _ _ _ G1 E2) as (_ & _ & Ho). discriminate.
  - destruct (push_data_eff _ _ _ _ (g_good s Gs) E1) as (_ & _ & Ho). discriminate.
Qed.

Lemma add_byte_slice_eff : forall s l s' o, G s -> add_byte_slice l s = Ok (s', o) -> Eff s s'.
Proof.
  intros s cs s' o Gs H. unfold add_byte_slice, sbind in H.
  destruct (push_to_data_block (CByteList (length cs)) s) as [[s1 [a|e]]| | |] eqn:E1; try discriminate.
  - destruct (push_data_eff _ _ _ _ (g_good s Gs) E1) as (G1 & D1 & _).
    destruct (push_all (map CByte cs) s1) as [[s2 [u|e]]| | |] eqn:E2; try discriminate.
    + destruct (push_all_eff _ _ _ _ G1 E2) as (G2 & D2 & _). inversion H. subst.
      eapply Eff_app; [|apply (X_bytelist cs)]. rewrite D2, D1, <- app_assoc. reflexivity.
    + destruct (push_all_eff _ _ _ _ G1 E2) as (_ & _ & Ho). discriminate.
  - destruct (push_data_eff _ _ _ _ (g_good s Gs) E1) as (_ & _ & Ho). discriminate.
Qed.

Lemma X_cons_plain : forall c cells, (forall n, c <> CCharList n) -> (forall n, c <> CByteList n) -> okcell c ->
  X cells -> X (c :: cells).
Proof. intros c cells H1 H2 H3 Hx. apply (X_app [c] cells); [apply plain_single; assumption|exact Hx]. Qed.

Lemma sym_not_data : BSym <> BData. Proof. discriminate. Qed.
Lemma expr_not_data : BExpr <> BData. Proof. discriminate. Qed.

Lemma parse_add_symbol_eff : forall s sym name s' o, G s -> parse_add_symbol sym (length name) name s = Ok (s', o) -> Eff s s'.
Proof.
  intros s sym cs s' o Gs H. unfold parse_add_symbol, sbind in H.
  destruct (push_to_data_block (CSymbol sym) s) as [[s0 [a0|e]]| | |] eqn:E0; try discriminate.
  2:{ destruct (push_data_eff _ _ _ _ (g_good s Gs) E0) as (_ & _ & Ho). discriminate. }
  destruct (push_data_eff _ _ _ _ (g_good s Gs) E0) as (G0 & D0 & _).
  destruct (push_to_data_block (CCharList (length cs)) s0) as [[s1 [a|e]]| | |] eqn:E1; try discriminate.
  2:{ destruct (push_data_eff _ _ _ _ G0 E1) as (_ & _ & Ho). discriminate. }
  destruct (push_data_eff _ _ _ _ G0 E1) as (G1 & D1 & _).
  destruct (push_all (map CChar cs) s1) as [[s2 [u|e]]| | |] eqn:E2; try discriminate.
  2:{ destruct (push_all_eff _ _ _ _ G1 E2) as (_ & _ & Ho). discriminate. }
  destruct (push_all_eff _ _ _ _ G1 E2) as (G2 & D2 & _).
  assert (D : data s' = data s2).
  { unfold push_to_symbol_table_block in H.
    destruct (push_assoc BSym sym a s2) as [[s3 [u3|e]]| | |] eqn:E3; try discriminate;
      destruct (push_assoc_eff _ _ _ _ _ _ G2 sym_not_data E3) as (_ & D3); inversion H; subst; exact D3. }
  eapply Eff_app.
  - rewrite D, D2, D1, D0, <- !app_assoc. reflexivity.
  - cbn [app]. apply X_cons_plain; [discriminate|discriminate|exact I|apply (X_charlist cs)].
Qed.

Lemma start_list_eff : forall s n s' o, G s -> start_list n s = Ok (s', o) -> Eff s s'.
Proof.
  intros s n s' o Gs H. unfold start_list in H.
  destruct (push_data_raw s (CUninitializedList n 0) (g_good s Gs)) as (s1 & H1 & A1).
  destruct (push_empties_raw (n * 2) s1 (proj1 A1)) as (s2 & H2 & A2).
  rewrite (sbind_done _ _ _ _ _ _ _ _ H1), (sbind_done _ _ _ _ _ _ _ _ H2) in H. cbn [sret] in H. inversion H. subst.
  destruct (appended_trans s s1 s' _ _ A1 A2) as (_ & D & _).
  eapply Eff_app; [exact D|]. apply X_plain. intros c [<-|Hc].
  - split; [discriminate|]. split; [discriminate|exact I].
  - apply repeat_spec in Hc. subst c. split; [discriminate|]. split; [discriminate|exact I].
Qed.

Lemma push_then_head_eff : forall s c (f : basic -> nat -> basic) s' o, G s ->
  (forall x n, same_store x (f x n)) ->
  (forall n, c <> CCharList n) -> (forall n, c <> CByteList n) -> okcell c ->
  sbind (push_to_data_block c) (fun index s1 => Ok (f s1 index, Done tt)) s = Ok (s', o) -> Eff s s'.
Proof.
  intros s c f s' o Gs Hf H1 H2 H3 H. unfold sbind in H.
  destruct (push_to_data_block c s) as [[s1 [a|e]]| | |] eqn:E; try discriminate.
  - destruct (push_data_eff _ _ _ _ (g_good s Gs) E) as (_ & D & _). inversion H. subst.
    eapply Eff_app; [|apply plain_single; eassumption]. rewrite (data_same_store s1 (f s1 a) (Hf s1 a)). exact D.
  - destruct (push_data_eff _ _ _ _ (g_good s Gs) E) as (_ & _ & Ho). discriminate.
Qed.

Lemma push_register_eff : forall s a s' o, G s -> push_register a s = Ok (s', o) -> Eff s s'.
Proof.
  intros s a s' o Gs H. unfold push_register in H. unfold sbind at 1 in H. cbn [sget] in H.
  destruct (cur_register s) as [p|];
    eapply (push_then_head_eff s _ (fun x n => set_cur_register x (Some n))); try exact H; try exact Gs;
    try (intros; apply same_store_set_cur_register); try discriminate; exact I.
Qed.

Lemma push_value_stack_eff : forall s a s' o, G s -> push_value_stack a s = Ok (s', o) -> Eff s s'.
Proof.
  intros s a s' o Gs H. unfold push_value_stack in H. unfold sbind at 1 in H. cbn [sget] in H.
  destruct (cur_value s) as [p|];
    eapply (push_then_head_eff s _ (fun x n => set_cur_value x (Some n))); try exact H; try exact Gs;
    try (intros; apply same_store_set_cur_value); try discriminate; exact I.
Qed.

Lemma push_frame_eff : forall s n s' o, G s -> push_frame n s = Ok (s', o) -> Eff s s'.
Proof.
  intros s n s' o Gs H. unfold push_frame in H. unfold sbind at 1 in H.
  destruct (push_to_data_block (CJumpPoint n) s) as [[s1 [a|e]]| | |] eqn:E1; try discriminate.
  2:{ destruct (push_data_eff _ _ _ _ (g_good s Gs) E1) as (_ & _ & Ho). discriminate. }
  destruct (push_data_eff _ _ _ _ (g_good s Gs) E1) as (G1 & D1 & _).
  unfold sbind at 1 in H. cbn [sget] in H. unfold sbind in H.
  match type of H with context [push_to_data_block ?c s1] => set (fc := c) in * end.
  assert (Hfc : (forall k, fc <> CCharList k) /\ (forall k, fc <> CByteList k) /\ okcell fc).
  { subst fc. destruct (cur_frame s1), (cur_register s1); (split; [discriminate|split; [discriminate|exact I]]). }
  destruct (push_to_data_block fc s1) as [[s2 [a2|e]]| | |] eqn:E2; try discriminate.
  2:{ destruct (push_data_eff _ _ _ _ G1 E2) as (_ & _ & Ho). discriminate. }
  destruct (push_data_eff _ _ _ _ G1 E2) as (G2 & D2 & _). inversion H. subst.
  eapply (Eff_app s _ [CJumpPoint n; fc]).
  - rewrite (data_same_store s2 _ (same_store_set_cur_frame s2 (Some a2))), D2, D1, <- app_assoc. reflexivity.
  - apply X_plain. intros c [<-|[<-|[]]].
    + split; [discriminate|split; [discriminate|exact I]].
    + exact Hfc.
Qed.

(* ---- operations that change only the chain heads ---- *)
Lemma pop_register_data : forall s s' o, pop_register s = Ok (s', o) -> data s' = data s.
Proof.
  intros s s' o H. unfold pop_register in H.
  destruct (cur_register s); [|inversion H; reflexivity].
  destruct (get_from_block BData n s) as [c| | |]; try discriminate; [|inversion H; reflexivity].
  destruct c; inversion H; subst; try reflexivity; apply data_same_store; apply same_store_set_cur_register.
Qed.

Lemma pop_value_stack_data : forall s s' o, pop_value_stack s = Ok (s', o) -> data s' = data s.
Proof.
  intros s s' o H. unfold pop_value_stack in H.
  destruct (cur_value s); [|inversion H; reflexivity].
  destruct (get_from_block BData n s) as [c| | |]; try discriminate; [|inversion H; reflexivity].
  destruct c; inversion H; subst; try reflexivity; apply data_same_store; apply same_store_set_cur_value.
Qed.

Lemma same_store_two : forall s a b, same_store s (set_cur_register (set_cur_frame s a) b).
Proof. intros. split; [reflexivity|]. intro x. destruct x; reflexivity. Qed.

Lemma pop_frame_data : forall s s' o, pop_frame s = Ok (s', o) -> data s' = data s.
Proof.
  intros s s' o H. unfold pop_frame in H.
  destruct (cur_frame s) as [[|im1]|]; [discriminate| |inversion H; reflexivity].
  destruct (do c <- get_from_block BData im1 s; as_jump_point c) as [ri| | |]; try discriminate; [|inversion H; reflexivity].
  destruct (get_from_block BData (S im1) s) as [c| | |]; try discriminate; [|inversion H; reflexivity].
  destruct c; inversion H; subst; try reflexivity; apply data_same_store; apply same_store_two.
Qed.

(* ---- in-place updates ---- *)
Lemma set_data_NT : forall s i old new s' o, Good s -> nth_error (data s) i = Some old ->
  set_data i new s = Ok (s', o) -> textish old = false -> textish new = false -> okcell new ->
  Good s' /\ o = Done tt /\ set_ix (data s) i new = Some (data s') /\ NT (data s) (data s').
Proof.
  intros s i old new s' o Gs Ho H To Tn Kn.
  assert (Hi : i < length (data s)) by (apply nth_error_Some; congruence).
  destruct (set_data_spec s i new Gs Hi) as (s1 & H1 & G1 & Hs & _).
  rewrite H in H1. inversion H1. subst. split; [exact G1|]. split; [reflexivity|]. split; [exact Hs|].
  eapply NT_set; eassumption.
Qed.

Lemma set_current_value_eff : forall s v s' o, G s -> set_current_value v s = Ok (s', o) -> Eff s s'.
Proof.
  intros s v s' o Gs H. pose proof (g_good s Gs) as Gd. pose proof (good_inv s Gd) as Iv.
  unfold set_current_value in H.
  destruct (cur_value s) as [index|]; [|inversion H; subst; apply Eff_same; reflexivity].
  rewrite (get_from_block_ok s BData index Iv) in H. fold (data s) in H.
  destruct (nth_error (data s) index) as [c|] eqn:Ec; [|inversion H; subst; apply Eff_same; reflexivity].
  destruct c; try (inversion H; subst; apply Eff_same; reflexivity).
  - destruct (set_data index (CValue prev v) s) as [[s1 [u|e]]| | |] eqn:E; try discriminate.
    + destruct (set_data_NT s index _ _ s1 _ Gd Ec E eq_refl eq_refl I) as (_ & _ & _ & N). inversion H. subst. right. exact N.
    + destruct (set_data_NT s index _ _ s1 _ Gd Ec E eq_refl eq_refl I) as (_ & Ho & _). discriminate.
  - destruct (set_data index (CValueRoot v) s) as [[s1 [u|e]]| | |] eqn:E; try discriminate.
    + destruct (set_data_NT s index _ _ s1 _ Gd Ec E eq_refl eq_refl I) as (_ & _ & _ & N). inversion H. subst. right. exact N.
    + destruct (set_data_NT s index _ _ s1 _ Gd Ec E eq_refl eq_refl I) as (_ & Ho & _). discriminate.
Qed.

Lemma set_jump_table_eff : forall s idx v s' o, G s -> set_jump_table idx v s = Ok (s', o) -> Eff s s'.
Proof.
  intros s idx v s' o Gs H. pose proof (good_inv s (g_good s Gs)) as Iv.
  unfold set_jump_table in H.
  destruct (get_from_jump_table_block_ensure_index idx s) as [x|e| |]; try discriminate;
    [|inversion H; subst; apply Eff_same; reflexivity].
  assert (D : forall s1 o1, set_in_block BJump idx (CJumpPoint v) s = Ok (s1, o1) -> data s1 = data s).
  { intros s1 o1 E. destruct (le_lt_dec (cur s BJump) idx) as [Hge|Hlt].
    - rewrite (set_in_block_fail s BJump idx _ Hge) in E. inversion E. reflexivity.
    - destruct (set_in_block_ok s BJump idx (CJumpPoint v) Iv Hlt) as (s2 & l' & Hr & _ & _ & _ & Ho & _).
      rewrite E in Hr. inversion Hr. subst. unfold data. apply Ho. discriminate. }
  destruct (set_in_block BJump idx (CJumpPoint v) s) as [[s1 [u|e]]| | |] eqn:E; try discriminate;
    inversion H; subst; apply Eff_same; eapply D; reflexivity.
Qed.

Lemma scratch_nontext : forall c, scratch c = true -> textish c = false /\ okcell c.
Proof. destruct c; cbn; intros; try discriminate; auto. Qed.

Lemma add_to_list_eff : forall s l it s' o, G s -> add_to_list l it s = Ok (s', o) -> Eff s s'.
Proof.
  intros s l it s' o Gs H. pose proof (g_good s Gs) as Gd. pose proof (good_inv s Gd) as Iv.
  unfold add_to_list in H. unfold sbind at 1 in H. rewrite (get_data_spec s l Iv) in H.
  destruct (nth_error (data s) l) as [h|] eqn:Eh; [|inversion H; subst; apply Eff_same; reflexivity].
  destruct h; try (cbn [sfail] in H; inversion H; subst; apply Eff_same; reflexivity).
  destruct (len <=? count) eqn:Elc; [cbn [sfail] in H; inversion H; subst; apply Eff_same; reflexivity|].
  apply Nat.leb_gt in Elc.
  destruct (g_region s Gs l _ len Eh eq_refl) as [Hb Hreg].
  (* first write: the header *)
  unfold sbind at 1 in H.
  destruct (set_data l (CUninitializedList len (S count)) s) as [[s1 [u1|e1]]| | |] eqn:E1; try discriminate.
  2:{ destruct (set_data_NT s l _ _ s1 _ Gd Eh E1 eq_refl eq_refl I) as (_ & Ho & _). discriminate. }
  destruct (set_data_NT s l _ _ s1 _ Gd Eh E1 eq_refl eq_refl I) as (G1 & _ & S1 & N1).
  assert (K1 : forall j, j <> l -> nth_error (data s1) j = nth_error (data s) j).
  { intros j Hj. rewrite (set_ix_nth _ _ _ _ j S1). destruct (j =? l) eqn:E; [apply Nat.eqb_eq in E; lia|reflexivity]. }
  (* second write: the item cell *)
  destruct (Hreg (1 + count)) as (c2 & Hc2 & Sc2); [lia|].
  replace (l + (1 + count)) with (l + 1 + count) in Hc2 by lia.
  destruct (scratch_nontext c2 Sc2) as [T2 _].
  unfold sbind at 1 in H.
  assert (Hc2' : nth_error (data s1) (l + 1 + count) = Some c2) by (rewrite K1 by lia; exact Hc2).
  destruct (set_data (l + 1 + count) (CListItem it) s1) as [[s2 [u2|e2]]| | |] eqn:E2; try discriminate.
  2:{ destruct (set_data_NT s1 _ _ _ s2 _ G1 Hc2' E2 T2 eq_refl I) as (_ & Ho & _). discriminate. }
  destruct (set_data_NT s1 _ _ _ s2 _ G1 Hc2' E2 T2 eq_refl I) as (G2 & _ & S2 & N2).
  pose proof (NT_trans _ _ _ N1 N2) as N12.
  assert (K2 : forall j, j <> l + 1 + count -> nth_error (data s2) j = nth_error (data s1) j).
  { intros j Hj. rewrite (set_ix_nth _ _ _ _ j S2). destruct (j =? l + 1 + count) eqn:E; [apply Nat.eqb_eq in E; lia|reflexivity]. }
  (* reads *)
  unfold sbind at 1 in H. rewrite (get_data_spec s2 it (good_inv s2 G2)) in H.
  destruct (nth_error (data s2) it) as [itc|]; [|inversion H; subst; right; exact N12].
  destruct itc; try (cbn [sret] in H; inversion H; subst; right; exact N12).
  unfold sbind at 1 in H. rewrite (get_data_spec s2 a (good_inv s2 G2)) in H.
  destruct (nth_error (data s2) a) as [lc|]; [|inversion H; subst; right; exact N12].
  destruct lc; try (cbn [sret] in H; inversion H; subst; right; exact N12).
  (* third write: the association cell *)
  destruct (Hreg (1 + count + len)) as (c3 & Hc3 & Sc3); [lia|].
  replace (l + (1 + count + len)) with (l + 1 + count + len) in Hc3 by lia.
  destruct (scratch_nontext c3 Sc3) as [T3 _].
  assert (Hc3' : nth_error (data s2) (l + 1 + count + len) = Some c3).
  { rewrite K2 by lia. rewrite K1 by lia. exact Hc3. }
  unfold sbind in H.
  destruct (set_data (l + 1 + count + len) (CAssociativeItem s0 b) s2) as [[s3 [u3|e3]]| | |] eqn:E3; try discriminate.
  - destruct (set_data_NT s2 _ _ _ s3 _ G2 Hc3' E3 T3 eq_refl I) as (_ & _ & _ & N3).
    cbn [sret] in H. inversion H. subst. right. eapply NT_trans; eassumption.
  - destruct (set_data_NT s2 _ _ _ s3 _ G2 Hc3' E3 T3 eq_refl I) as (_ & Ho & _). discriminate.
Qed.

Lemma filter_length_le : forall {A} (f : A -> bool) l, length (filter f l) <= length l.
Proof. induction l as [|x r IH]; cbn; [lia|]. destruct (f x); cbn; lia. Qed.

Lemma end_list_eff : forall s l s' o, G s -> end_list l s = Ok (s', o) -> Eff s s'.
Proof.
  intros s l s' o Gs H. pose proof (g_good s Gs) as Gd. pose proof (good_inv s Gd) as Iv.
  unfold end_list in H. unfold sbind at 1 in H. rewrite (get_data_spec s l Iv) in H.
  destruct (nth_error (data s) l) as [h|] eqn:Eh; [|inversion H; subst; apply Eff_same; reflexivity].
  destruct h; try (cbn [sfail] in H; inversion H; subst; apply Eff_same; reflexivity).
  destruct (count <? len) eqn:Ecl; [cbn [sfail] in H; inversion H; subst; apply Eff_same; reflexivity|].
  destruct (g_region s Gs l _ len Eh eq_refl) as [Hb Hreg].
  unfold sbind at 1 in H. cbn [sget] in H.
  change (b_start (blk_data s)) with (st s BData) in H.
  replace (st s BData + l + 1 + len) with (st s BData + (l + 1 + len)) in H by lia.
  replace (st s BData + (l + 1 + len) + len) with (st s BData + (l + 1 + len + len)) in H by lia.
  destruct (slice_ix (heap s) (st s BData + (l + 1 + len)) (st s BData + (l + 1 + len + len))) as [sl|] eqn:Esl;
    [|unfold spanic in H; discriminate].
  assert (Hsl : length sl <= len).
  { unfold slice_ix in Esl. destruct ((st s BData + (l + 1 + len) <=? st s BData + (l + 1 + len + len)) &&
                                       (st s BData + (l + 1 + len + len) <=? length (heap s))); [|discriminate].
    inversion Esl. rewrite firstn_length. lia. }
  pose proof (data_len s Iv) as Hdl.
  destruct (sort_range_ok s BData (l + 1 + len) (l + 1 + len + len) Iv) as (s1 & Hr & I1 & Hw & _ & Hbl & _); [lia|lia|].
  unfold sbind at 1 in H. rewrite Hr in H.
  fold (data s) in Hw. fold (data s1) in Hw.
  remember (l + 1 + len + len) as b' eqn:Eb. remember (l + 1 + len) as a' eqn:Ea.
  remember (stable_sort assoc_le (firstn (b' - a') (skipn a' (data s)))) as srt eqn:Esrt.
  assert (Hlen_srt : length srt = b' - a').
  { subst srt. rewrite stable_sort_length, firstn_length, skipn_length. lia. }
  assert (G1 : Good s1) by (eapply Good_same_blocks; eassumption).
  (* the sorted range holds scratch cells before and after *)
  assert (N1 : NT (data s) (data s1)).
  { split; [rewrite Hw; apply splice_ix_length; lia|]. intro j. rewrite Hw.
    rewrite (splice_ix_nth (data s) a' b' srt j) by lia.
    destruct ((a' <=? j) && (j <? b')) eqn:Ein; [|left; reflexivity].
    apply andb_true_iff in Ein. destruct Ein as [E1 E2]. apply Nat.leb_le in E1. apply Nat.ltb_lt in E2.
    right.
    destruct (Hreg (j - l)) as (cold & Hcold & Scold); [lia|].
    replace (l + (j - l)) with j in Hcold by lia.
    destruct (nth_error srt (j - a')) as [cnew|] eqn:En; [|apply nth_error_None in En; lia].
    exists cold, cnew. split; [exact Hcold|]. split; [reflexivity|].
    assert (Hin : In cnew (firstn (b' - a') (skipn a' (data s)))).
    { apply (Permutation_in cnew (Permutation_sym (stable_sort_perm assoc_le _))). eapply nth_error_In. rewrite <- Esrt. exact En. }
    destruct (in_slice _ _ _ _ Hin) as (k & Hk & Hck).
    destruct (Hreg (a' + k - l)) as (c0 & Hc0 & Sc0); [lia|].
    replace (l + (a' + k - l)) with (a' + k) in Hc0 by lia.
    rewrite Hck in Hc0. inversion Hc0. subst c0.
    destruct (scratch_nontext cold Scold) as [To _]. destruct (scratch_nontext cnew Sc0) as [Tn Kn]. auto. }
  assert (Eh1 : nth_error (data s1) l = Some (CUninitializedList len count)).
  { rewrite Hw. rewrite (splice_ix_nth (data s) a' b' srt l) by lia.
    assert (E : (a' <=? l) = false) by (apply Nat.leb_gt; lia). rewrite E. exact Eh. }
  unfold sbind at 1 in H.
  set (ac := length (filter (fun c : cell => negb (is_empty_cell c)) sl)) in *.
  assert (Hac : ac <= len) by (subst ac; pose proof (filter_length_le (fun c : cell => negb (is_empty_cell c)) sl); lia).
  destruct (set_data l (CList len ac) s1) as [[s2 [u2|e2]]| | |] eqn:E2; try discriminate.
  - destruct (set_data_NT s1 l _ _ s2 _ G1 Eh1 E2 eq_refl eq_refl Hac) as (_ & _ & _ & N2).
    cbn [sret] in H. inversion H. subst. right. eapply NT_trans; eassumption.
  - destruct (set_data_NT s1 l _ _ s2 _ G1 Eh1 E2 eq_refl eq_refl Hac) as (_ & Ho & _). discriminate.
Qed.

(* ------------------------------------------------------------------ every operation *)
Theorem step_eff : forall o s s' r, G s -> wf_op o -> bstep o s = Ok (s', r) -> Eff s s'.
Proof.
  intros o s s' r Gs Hwf H. pose proof (g_good s Gs) as Gd.
  destruct o; cbn [bstep] in H;
    try (apply lift_inv in H; destruct H as [oo H]);
    try (unfold add_unit, add_true, add_false, add_number, add_type, add_char, add_byte, add_symbol, add_expression,
           add_external, add_pair, add_concatenation, add_range, add_slice, add_partial in H;
         eapply push_single_eff; [exact Gs|exact H|discriminate|discriminate|exact I]).
  - (* OInstr *) unfold push_to_instruction_block in H. apply Eff_same. eapply push_other_eff; [exact Gd| |exact H]. discriminate.
  - (* OJump *) unfold push_to_jump_table_block in H. apply Eff_same. eapply push_other_eff; [exact Gd| |exact H]. discriminate.
  - (* OJumpSet *) eapply set_jump_table_eff; eassumption.
  - (* OSymbol *) cbn [wf_op] in Hwf. subst byte_len. eapply parse_add_symbol_eff; eassumption.
  - (* OExprSym *) unfold push_to_expression_symbol_block in H. apply Eff_same.
    eapply (push_assoc_eff s BExpr); [exact Gd|exact expr_not_data|exact H].
  - (* OCustom *) unfold push_to_custom_data_block in H. apply Eff_same. eapply push_other_eff; [exact Gd| |exact H]. discriminate.
  - (* OText *) cbn [wf_op] in Hwf. subst byte_len. eapply add_string_eff; eassumption.
  - (* OBytes *) eapply add_byte_slice_eff; eassumption.
  - (* OListStart *) eapply start_list_eff; eassumption.
  - (* OListAdd *) eapply add_to_list_eff; eassumption.
  - (* OListEnd *) eapply end_list_eff; eassumption.
  - (* ORegPush *) eapply push_register_eff; eassumption.
  - (* ORegPop *) apply Eff_same. eapply pop_register_data; eassumption.
  - (* OValPush *) eapply push_value_stack_eff; eassumption.
  - (* OValPop *) apply Eff_same. eapply pop_value_stack_data; eassumption.
  - (* OValSet *) eapply set_current_value_eff; eassumption.
  - (* OFramePush *) eapply push_frame_eff; eassumption.
  - (* OFramePop *) apply Eff_same. eapply pop_frame_data; eassumption.
  - (* OCursor *) inversion H. subst. apply Eff_same. apply data_same_store. apply same_store_set_ip.
Qed.

Theorem step_X : forall o s s' r, G s -> X (data s) -> wf_op o -> bstep o s = Ok (s', r) -> X (data s').
Proof. intros o s s' r Gs Hx Hwf H. eapply Eff_X; [exact Hx|]. eapply step_eff; eassumption. Qed.

Theorem run_X : forall ops s s' rs, G s -> X (data s) -> Forall wf_op ops -> run bstep ops s = Ok (s', rs) -> X (data s').
Proof.
  induction ops as [|o rest IH]; intros s s' rs Gs Hx Hwf H.
  - cbn [run] in H. inversion H. subst. exact Hx.
  - inversion Hwf as [|? ? Ho Hrest]. subst.
    destruct (bstep_ok o s Gs) as (s1 & r & H1 & G1 & _).
    cbn [run] in H. rewrite H1 in H. cbn [bind fst snd] in H.
    destruct (run bstep rest s1) as [[s2 rs2]| | |] eqn:E; cbn [bind fst snd] in H; try discriminate.
    inversion H. subst. apply (IH s1 s' rs2 G1 (step_X o s s1 r Gs Hx Ho H1) Hrest E).
Qed.
