#!/bin/sh
# build_ocaml.sh <component>: link build/ocaml/<c>_model.ml (extracted) with
# ocaml/zconv.ml + ocaml/<c>_driver.ml into build/ocaml/<c>_driver
set -e
c="$1"
cd /verif/build/ocaml
cap=$(echo "$c" | sed 's/./\U&/')
{ echo "open ${cap}_model"; cat /verif/ocaml/zconv.ml /verif/ocaml/${c}_driver.ml; } > ${c}_main.ml
ocamlfind ocamlopt -O3 -w -a ${c}_model.mli ${c}_model.ml ${c}_main.ml -o ${c}_driver 2>/dev/null || \
ocamlfind ocamlopt -w -a ${c}_model.mli ${c}_model.ml ${c}_main.ml -o ${c}_driver
