(* What C09 means for integers: the mathematically exact result in Z (wider
   than the code under test), [None] where the language defines no number. *)
From Coq Require Import ZArith Bool.
From GV Require Import Model.Num.
Local Open Scope Z_scope.

Definition shift_count_ok (c : Z) : bool := (0 <=? c) && (c <=? 31).

(* [None]: no result is defined (zero divisor, negative exponent, shift count
   outside 0..31, MIN % -1 whose quotient overflows).  Left shift is a bit
   operation on 32-bit two's complement: the bits shifted out are discarded. *)
Definition exact_binop (o : binop) (a b : Z) : option Z :=
  match o with
  | OpAdd => Some (a + b)
  | OpSub => Some (a - b)
  | OpMul => Some (a * b)
  | OpDiv | OpIntDiv => if b =? 0 then None else Some (Z.quot a b)
  | OpRem => if b =? 0 then None else if in_i32 (Z.quot a b) then Some (Z.rem a b) else None
  | OpPow => if b <? 0 then None else Some (a ^ b)
  | OpAnd => Some (Z.land a b)
  | OpOr => Some (Z.lor a b)
  | OpXor => Some (Z.lxor a b)
  | OpShl => if shift_count_ok b then Some (wrap32 (a * 2 ^ b)) else None
  | OpShr => if shift_count_ok b then Some (a / 2 ^ b) else None
  end.

Definition exact_unop (o : unop) (a : Z) : Z :=
  match o with
  | OpAbs => Z.abs a
  | OpNeg => - a
  | OpInc => a + 1
  | OpDec => a - 1
  | OpNot => - a - 1
  end.

Definition representable (z : option Z) : option num :=
  match z with
  | Some z => if in_i32 z then Some (Int z) else None
  | None => None
  end.

Definition spec_int_binop (o : binop) (a b : Z) : option num := representable (exact_binop o a b).
Definition spec_int_unop (o : unop) (a : Z) : option num := representable (Some (exact_unop o a)).

(* executable form of the integer spec for the differential oracle: [a ^ b] is
   not computed when it certainly overflows or is trivially 0 / 1 / -1
   (equality with [spec_int_binop] is [spec_exec_eq] in Proofs/C09/IntOps.v) *)
Definition spec_int_binop_exec (o : binop) (a b : Z) : option num :=
  match o with
  | OpPow =>
      if b <? 0 then None
      else if a =? 0 then Some (Int (if b =? 0 then 1 else 0))
      else if a =? 1 then Some (Int 1)
      else if a =? -1 then Some (Int (if Z.even b then 1 else -1))
      else if 31 <? b then None
      else spec_int_binop o a b
  | _ => spec_int_binop o a b
  end.
