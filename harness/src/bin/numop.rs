//! numop: run GarnishNumber operations of SimpleNumber on case lines.
//!   B <op> <num> <num> | U <op> <num> | C <num> <num>
//!   <num> = i<hex sign+magnitude> | f<16 hex digits of the f64 bit pattern>
//! Output: <case>\t<result>\t<oracle>   (oracle: powf=<bits> for float powers, else -)
use garnish_lang_simple_data::SimpleNumber;
use garnish_lang_simple_data::SimpleNumber::*;
use garnish_lang_traits::GarnishNumber;
use garnish_verif_harness::*;

fn parse_num(s: &str) -> SimpleNumber {
    match s.as_bytes()[0] {
        b'i' => Integer(parse_hex_i64(&s[1..]) as i32),
        b'f' => Float(f64::from_bits(u64::from_str_radix(&s[1..], 16).expect("bits"))),
        _ => panic!("bad num {}", s),
    }
}

fn show(n: Option<SimpleNumber>) -> String {
    match n {
        None => "None".to_string(),
        Some(Integer(v)) => format!("I:{}", hex_i64(v as i64)),
        Some(Float(f)) => {
            if f.is_nan() { "F:NaN".to_string() } else { format!("F:{:016x}", f.to_bits()) }
        }
    }
}

fn as_f64(n: SimpleNumber) -> f64 {
    match n {
        Integer(v) => f64::from(v),
        Float(f) => f,
    }
}

fn main() {
    quiet_panics();
    for_each_line(|line| {
        let parts: Vec<&str> = line.split(' ').collect();
        let mut oracle = "-".to_string();
        let res = catch(|| match parts[0] {
            "B" => {
                let l = parse_num(parts[2]);
                let r = parse_num(parts[3]);
                show(match parts[1] {
                    "add" => l.plus(r),
                    "sub" => l.subtract(r),
                    "mul" => l.multiply(r),
                    "div" => l.divide(r),
                    "idiv" => l.integer_divide(r),
                    "pow" => l.power(r),
                    "rem" => l.remainder(r),
                    "and" => l.bitwise_and(r),
                    "or" => l.bitwise_or(r),
                    "xor" => l.bitwise_xor(r),
                    "shl" => l.bitwise_shift_left(r),
                    "shr" => l.bitwise_shift_right(r),
                    o => panic!("bad op {}", o),
                })
            }
            "U" => {
                let x = parse_num(parts[2]);
                show(match parts[1] {
                    "abs" => x.absolute_value(),
                    "neg" => x.opposite(),
                    "inc" => x.increment(),
                    "dec" => x.decrement(),
                    "not" => x.bitwise_not(),
                    o => panic!("bad op {}", o),
                })
            }
            "C" => {
                let l = parse_num(parts[1]);
                let r = parse_num(parts[2]);
                match l.partial_cmp(&r) {
                    None => "None".to_string(),
                    Some(std::cmp::Ordering::Less) => "Lt".to_string(),
                    Some(std::cmp::Ordering::Equal) => "Eq".to_string(),
                    Some(std::cmp::Ordering::Greater) => "Gt".to_string(),
                }
            }
            _ => panic!("bad case"),
        });
        if parts[0] == "B" && parts[1] == "pow" {
            let l = parse_num(parts[2]);
            let r = parse_num(parts[3]);
            if !(matches!(l, Integer(_)) && matches!(r, Integer(_))) {
                let v = as_f64(l).powf(as_f64(r));
                oracle = format!("powf={:016x}", v.to_bits());
            }
        }
        let res = res.unwrap_or_else(|_| "PANIC".to_string());
        format!("{}\t{}\t{}", line, res, oracle)
    });
}
