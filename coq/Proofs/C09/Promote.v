(* i32 -> f64 promotion is exact, so mixed comparison is comparison in Z / R. *)
From Coq Require Import ZArith Bool Lia Reals Psatz SpecFloat.
From Flocq Require Import Core IEEE754.BinarySingleNaN IEEE754.Binary IEEE754.Bits.
From GV Require Import Model.Num Proofs.C09.IntArith.
Local Open Scope Z_scope.

Lemma format_int (z : Z) : Z.abs z < 2 ^ 53 ->
  generic_format radix2 (SpecFloat.fexp 53 1024) (IZR z).
Proof.
  intros Hz.
  apply generic_format_FLT.
  exists (Float radix2 z 0).
  - unfold F2R. simpl. lra.
  - simpl. exact Hz.
  - simpl. unfold SpecFloat.emin. lia.
Qed.

Lemma f64_of_int_exact z : Z.abs z < 2 ^ 53 ->
  B2R 53 1024 (f64_of_i32 z) = IZR z /\ is_finite 53 1024 (f64_of_i32 z) = true.
Proof.
  intros Hz. unfold f64_of_i32.
  pose proof (binary_normalize_correct 53 1024 (eq_refl _) (eq_refl _) mode_NE z 0 false) as H.
  assert (HF : F2R (Float radix2 z 0) = IZR z) by (unfold F2R; simpl; lra).
  rewrite HF in H.
  rewrite round_generic in H; [| apply valid_rnd_N | apply format_int; exact Hz].
  rewrite Rlt_bool_true in H.
  - destruct H as (H1 & H2 & _). split; assumption.
  - rewrite <- abs_IZR. change (bpow radix2 1024) with (IZR (2 ^ 1024)).
    apply IZR_lt. assert (2 ^ 53 < 2 ^ 1024) by (apply Z.pow_lt_mono_r; lia). lia.
Qed.

Lemma i32_small z : in_i32 z = true -> Z.abs z < 2 ^ 53.
Proof. rewrite in_i32_iff. change (2 ^ 53) with 9007199254740992. lia. Qed.

Lemma f64_of_i32_exact z : in_i32 z = true ->
  B2R 53 1024 (f64_of_i32 z) = IZR z /\ is_finite 53 1024 (f64_of_i32 z) = true.
Proof. intros H. apply f64_of_int_exact, i32_small, H. Qed.

Lemma cmp_promoted_promoted a b : in_i32 a = true -> in_i32 b = true ->
  b64_compare (f64_of_i32 a) (f64_of_i32 b) = Some (a ?= b).
Proof.
  intros Ha Hb.
  destruct (f64_of_i32_exact a Ha) as [Ra Fa]. destruct (f64_of_i32_exact b Hb) as [Rb Fb].
  unfold b64_compare. rewrite Bcompare_correct by assumption.
  rewrite Ra, Rb, Rcompare_IZR. reflexivity.
Qed.

Lemma cmp_promoted_zero b : in_i32 b = true ->
  b64_compare (f64_of_i32 b) (B754_zero 53 1024 false) = Some (b ?= 0).
Proof.
  intros Hb. destruct (f64_of_i32_exact b Hb) as [Rb Fb].
  unfold b64_compare. rewrite Bcompare_correct by (assumption || reflexivity).
  rewrite Rb. simpl B2R. change 0%R with (IZR 0). rewrite Rcompare_IZR. reflexivity.
Qed.

Lemma is_zero_int b : in_i32 b = true -> is_zero_num (Int b) = (b =? 0).
Proof.
  intros Hb. unfold is_zero_num, num_eq, num_partial_cmp.
  rewrite cmp_promoted_zero by assumption.
  destruct (Z.compare_spec b 0); simpl; lia.
Qed.
