(* The operator fragment of the core grammar on which C01 is closed END TO END
   (printer -> parser model -> builder model -> machine), and what the printed
   tokens of such an AST must parse to.  Definitions only; the proofs are in
   Proofs/C01/EndToEnd/*.v.

   [efrag lvl e]: e is built from literals, `$`, identifiers, round groups,
   prefix / suffix operators, the binary operators (arithmetic, bitwise,
   comparison, equality, `^^`, pair, access, the apply forms), and
     lvl >= 1: space lists and comma lists,
     lvl >= 2: `&&` `||`,
     lvl >= 3: conditionals `?>` `!>` and else-chains `|>`,
     lvl >= 4: nested expressions `{ body }` whose body is one expression of
               the fragment (no separators inside),
     lvl >= 5: re-apply `^~ e` (restarts the enclosing expression body),
     lvl >= 6: sequences `l ; r` (at the top of a program or of a `{ }` body;
               a round group does not contain a sequence directly).
   Side-effect blocks [ ] and the blank-line separator are outside (the
   reference parser Spec/Pratt.v is undefined on them).

   [rtree_of_expr e off]: the reference tree (Spec/Pratt.v) of the tokens
   Spec/Printer.v prints for e, when the first token of e has index [off].
   [rep e off t]: the index-carrying parser tree t (Spec/Chains.v) is that of
   e: same shape, definitions as the parser stores them (an identifier right
   of `.` is a Property), token positions as printed. *)
From Coq Require Import ZArith NArith List Bool Arith.
From GV Require Import Gen.TokenTypes Gen.Defs Model.Parser Spec.RefTable Spec.Pratt Spec.Chains
  Spec.Ast Spec.Printer.
Import ListNotations.

Definition is_semi (s : sep) : bool := match s with Semi => true | Blank => false end.

Fixpoint efrag (lvl : nat) (e : expr) : bool :=
  match e with
  | ELit _ | EValue | EIdent _ => true
  | EUn _ x => efrag lvl x
  | EBin _ l r => efrag lvl l && efrag lvl r
  | EGroup x => negb (is_seq x) && efrag lvl x
  | EList _ l r => Nat.leb 1 lvl && efrag lvl l && efrag lvl r
  | EAnd l r | EOr l r => Nat.leb 2 lvl && efrag lvl l && efrag lvl r
  | ECond _ c a => Nat.leb 3 lvl && efrag lvl c && efrag lvl a
  | EElse l r => Nat.leb 3 lvl && efrag lvl l && efrag lvl r
  | ENested _ b => Nat.leb 4 lvl && efrag lvl b
  | EReapply x => Nat.leb 5 lvl && efrag lvl x
  | ESeq s l r => is_semi s && Nat.leb 6 lvl && efrag lvl l && efrag lvl r
  | ESide _ _ => false
  end.

(* number of tokens printed for e *)
Definition ntoks (e : expr) : nat := length (aprint e).

(* the token types of the printed text: what the parser model is run on *)
Definition ttoks (e : expr) : list token_type := map (fun t => fst (fst t)) (aprint e).

(* the definition of the head operator, by the pinned table *)
Definition hdef (e : expr) : definition :=
  match head_tt e with
  | Some t => ref_def t
  | None => D_List
  end.

(* rank of the head operator in the pinned table *)
Definition rrank (e : expr) : N :=
  match ref_rank (hdef e) with Some p => p | None => 0%N end.

(* binary-shaped constructs: operator token (None: the implicit space list),
   left and right operand *)
Definition as_binary (e : expr) : option (option token_type * expr * expr) :=
  match e with
  | EBin o l r => Some (Some (binop_tt o), l, r)
  | EAnd l r => Some (Some TT_And, l, r)
  | EOr l r => Some (Some TT_Or, l, r)
  | EList Space l r => Some (None, l, r)
  | EList Comma l r => Some (Some TT_Comma, l, r)
  | ECond neg c a => Some (Some (cond_tt neg), c, a)
  | EElse l r => Some (Some TT_ElseJump, l, r)
  | ESeq Semi l r => Some (Some TT_ExpressionSeparator, l, r)
  | _ => None
  end.

Fixpoint rtree_of_expr (e : expr) (off : nat) : rtree :=
  match e with
  | ELit _ | EValue | EIdent _ => RAtom (hdef e) off
  | EUn o x =>
      if is_prefix o then RPre (hdef e) off (rtree_of_expr x (off + 2))
      else RSuf (hdef e) (off + ntoks x + 1) (rtree_of_expr x off)
  | EGroup x => RGroup BRound off (rtree_of_expr x (off + 1))
  | ENested _ b => RGroup BCurly off (rtree_of_expr b (off + 2))
  | EReapply x => RPre (hdef e) off (rtree_of_expr x (off + 2))
  | EList Space l r =>
      RBin D_List None (rtree_of_expr l off) (rtree_of_expr r (off + ntoks l + 1))
  | EBin _ l r | EAnd l r | EOr l r | EList Comma l r | ECond _ l r | EElse l r | ESeq Semi l r =>
      RBin (hdef e) (Some (off + ntoks l + 1)) (rtree_of_expr l off) (rtree_of_expr r (off + ntoks l + 3))
  | ESeq Blank _ _ | ESide _ _ => RAtom D_Drop off
  end.

(* the items (Spec/Pratt.v) of the printed tokens *)
Fixpoint eitems (e : expr) (off : nat) : list item :=
  match e with
  | ELit _ | EValue | EIdent _ => [IValue (hdef e) off]
  | EUn o x =>
      if is_prefix o then IPrefix (hdef e) off :: eitems x (off + 2)
      else eitems x off ++ [ISuffix (hdef e) (off + ntoks x + 1)]
  | EGroup x => IOpen BRound off :: eitems x (off + 1) ++ [IClose BRound (off + 1 + ntoks x)]
  | ENested _ b => IOpen BCurly off :: eitems b (off + 2) ++ [IClose BCurly (off + 3 + ntoks b)]
  | EReapply x => IPrefix (hdef e) off :: eitems x (off + 2)
  | EList Space l r => eitems l off ++ IBinary D_List None :: eitems r (off + ntoks l + 1)
  | EBin _ l r | EAnd l r | EOr l r | EList Comma l r | ECond _ l r | EElse l r | ESeq Semi l r =>
      eitems l off ++ IBinary (hdef e) (Some (off + ntoks l + 1)) :: eitems r (off + ntoks l + 3)
  | ESeq Blank _ _ | ESide _ _ => []
  end.

(* the definition the parser stores for an atom *)
Definition stored_def (e : expr) : definition :=
  match e with
  | ELit (LProp _) => D_Property
  | _ => hdef e
  end.

(* the tree correspondence *)
Fixpoint rep (e : expr) (off : nat) (t : ntree) : Prop :=
  match e with
  | ELit _ | EValue | EIdent _ =>
      match t with NAtom _ d k => d = stored_def e /\ k = off | _ => False end
  | EUn o x =>
      if is_prefix o then
        match t with NPre _ d k a => d = hdef e /\ k = off /\ rep x (off + 2) a | _ => False end
      else
        match t with NSuf _ d k a => d = hdef e /\ k = off + ntoks x + 1 /\ rep x off a | _ => False end
  | EGroup x =>
      match t with NGroup BRound _ k a => k = off /\ rep x (off + 1) a | _ => False end
  | ENested _ b =>
      match t with NGroup BCurly _ k a => k = off /\ rep b (off + 2) a | _ => False end
  | EReapply x =>
      match t with NPre _ d k a => d = hdef e /\ k = off /\ rep x (off + 2) a | _ => False end
  | EList Space l r =>
      match t with
      | NBin _ d k tl tr => d = D_List /\ k = None /\ rep l off tl /\ rep r (off + ntoks l + 1) tr
      | _ => False
      end
  | EBin _ l r | EAnd l r | EOr l r | EList Comma l r | ECond _ l r | EElse l r | ESeq Semi l r =>
      match t with
      | NBin _ d k tl tr =>
          d = hdef e /\ k = Some (off + ntoks l + 1) /\ rep l off tl /\ rep r (off + ntoks l + 3) tr
      | _ => False
      end
  | ESeq Blank _ _ | ESide _ _ => False
  end.

(* the fragment the end-to-end theorem of C01 is stated for: all levels *)
Definition LV : nat := 6.
Definition frag_e2e (e : expr) : bool := efrag LV e.
