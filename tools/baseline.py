#!/usr/bin/env python3
"""Run /repo's test suite with the verification guard OFF and compare the set of
passing tests with /root/.vp/BASELINE.json (stable_pass). Exit 0 iff every
stable_pass test passes."""
import json, os, subprocess, sys, xml.etree.ElementTree as ET
REPO = sys.argv[1] if len(sys.argv) > 1 else "/repo"
here = os.path.dirname(os.path.abspath(__file__))
env = dict(os.environ)
env.pop("RUSTFLAGS", None)
env["CARGO_NET_OFFLINE"] = "true"
cmd = ["cargo", "nextest", "run", "--workspace", "--no-fail-fast", "--tool-config-file",
       "vb:" + os.path.join(here, "nextest.toml"), "--profile", "vb", "--test-threads", "8", "--offline"]
p = subprocess.run(cmd, cwd=REPO, env=env, stdout=subprocess.PIPE, stderr=subprocess.STDOUT, text=True)
junit = os.path.join(REPO, "target", "nextest", "vb", "junit.xml")
passed, failed = set(), set()
if os.path.exists(junit):
    for tc in ET.parse(junit).getroot().iter("testcase"):
        tid = (tc.get("classname") or "") + "::" + (tc.get("name") or "")
        if tc.find("failure") is not None or tc.find("error") is not None:
            failed.add(tid)
        elif tc.find("skipped") is None:
            passed.add(tid)
else:
    print(p.stdout[-3000:])
    print("no junit output; build failed?")
    sys.exit(2)
base = json.load(open("/root/.vp/BASELINE.json"))
stable = set(base["stable_pass"])
missing = sorted(stable - passed)
print(f"passed={len(passed)} failed={len(failed)} stable_pass={len(stable)} stable_missing={len(missing)}")
for m in missing[:50]:
    print("  NOT PASSING:", m)
sys.exit(0 if not missing else 1)
