#!/bin/sh
# import_seed.sh <PID> [round-tag]: copy /tmp/seed<tag>_<PID>/out/<n> into /verif/seeded/<PID>_<n> and drop the worktree
pid="$1"; tag="${2:-2}"
wt=/tmp/seed${tag}_$pid
for d in $wt/out/*/; do
  n=$(basename $d)
  mkdir -p /verif/seeded/${pid}_$n
  cp -r $d/* /verif/seeded/${pid}_$n/
done
git -C /repo worktree remove --force $wt
rm -rf $wt
ls /verif/seeded | grep "^${pid}_"
