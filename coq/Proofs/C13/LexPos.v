(* Positions: each token carries the line/column of its first character, for
   inputs without carriage return and form feed. *)
From Coq Require Import NArith List Bool Lia.
From GV Require Import Base.Result Gen.TokenTypes Gen.Tokens Model.Lexer Spec.LexSpec
  Proofs.C13.LexBase Proofs.C13.LexInv Proofs.C13.LexRun.
Import ListNotations.
Local Open Scope N_scope.

Definition tp (l : lexer) : N * N := (text_row l, text_col l).
Definition sp (l : lexer) : N * N := (start_row l, start_col l).
Definition step_pos (p : N * N) (c : N) : N * N :=
  if c =? 10 then (fst p + 1, 0) else (fst p, snd p + 1).

Lemma pos_after_app : forall p q r k, pos_after r k (p ++ q) = let '(r', k') := pos_after r k p in pos_after r' k' q.
Proof.
  induction p as [|c p IH]; intros q r k; cbn [app pos_after]; [reflexivity|].
  destruct (c =? 10); apply IH.
Qed.

Lemma position_of_snoc : forall p c, position_of (p ++ [c]) = step_pos (position_of p) c.
Proof.
  intros p c. unfold position_of. rewrite pos_after_app.
  destruct (pos_after 0 0 p) as [r k]. cbn. unfold step_pos. cbn. destruct (c =? 10); reflexivity.
Qed.

Lemma ws_newline_cases : forall c,
  is_ascii_whitespace c && negb ((c =? ch_tab) || (c =? ch_space)) = true -> c = 10 \/ c = 12 \/ c = 13.
Proof.
  intros c H. apply andb_true_iff in H as [H1 H2]. unfold is_ascii_whitespace in H1.
  apply negb_true_iff in H2. apply orb_false_iff in H2 as [H3 H4].
  rewrite !orb_true_iff in H1. destruct H1 as [[[[H|H]|H]|H]|H]; try congruence.
  - apply N.eqb_eq in H. auto.
  - apply N.eqb_eq in H. auto.
  - apply N.eqb_eq in H. auto.
Qed.

Section Pos.
  Variables uni_numeric uni_alnum : N -> bool.
  Notation start_token := (start_token uni_numeric uni_alnum).
  Notation run_arm := (run_arm uni_numeric uni_alnum).
  Notation process_char := (process_char uni_numeric uni_alnum).
  Notation start_new_tail := (start_new_tail uni_numeric uni_alnum).

  (* ------------------------------------------------------------ start_token *)
  Lemma start_token_pos : forall l c, c <> 12 -> result (start_token l c) = None ->
    sp (start_token l c) = tp l /\
    tp (advance (start_token l c) c) = step_pos (tp l) c.
  Proof.
    intros l c Hff. unfold start_token.
    destruct (current_operator _) eqn:Eop.
    - intros _. split; [reflexivity|].
      assert (Hc : plain_op_char c = true).
      { eapply current_operator_chars; [exact Eop | cbn; left; reflexivity]. }
      unfold advance, step_pos. cbn [st set_cur_ty set_st]. change ch_lf with 10.
      destruct (c =? 10) eqn:E; [apply N.eqb_eq in E; subst c; vm_compute in Hc; discriminate|].
      reflexivity.
    - unfold advance, step_pos. change ch_lf with 10.
      destruct (c =? 10) eqn:E.
      + apply N.eqb_eq in E. subst c. intros _. cbn. split; reflexivity.
      + repeat break_if; cbn; intros Hr; try discriminate; try (split; reflexivity).
        exfalso. clear Hr.
        match goal with H : is_ascii_whitespace c = true |- _ => rename H into Hws end.
        match goal with H : (c =? ch_space) || (c =? ch_tab) || (c =? ch_cr) = false |- _ =>
          rewrite !orb_false_iff in H; destruct H as [[A B] C] end.
        unfold is_ascii_whitespace in Hws. rewrite A, B, C in Hws. change ch_lf with 10 in Hws. rewrite E in Hws.
        rewrite orb_false_r in Hws. cbn [orb] in Hws. apply N.eqb_eq in Hws. apply Hff. exact Hws.
  Qed.

  (* ------------------------------------------------------------- state arms *)
  Definition arm_pos (l : lexer) (c : N) (ar : arm_result) : Prop :=
    match ar with
    | ArmPanic _ | Early _ => True
    | Arm l1 nt true =>
      sp l1 = sp l /\
      tp l1 = (if should_create l1 then tp l else if c =? 10 then (text_row l + 1, 0) else tp l)
    | Arm l1 nt false =>
      result l1 = None ->
      tp (advance l1 c) = step_pos (tp l) c /\
      match nt with
      | None => if lstate_eqb (st l) SNoToken then sp l1 = tp l else sp l1 = sp l
      | Some t => (tok_row t, tok_col t) = sp l /\ sp l1 = (text_row l, text_col l - 1) /\ c = 46 /\
                  st l <> SNoToken /\ cur l = tok_text t ++ [46]
      end
    end.

  Ltac pos_consts := cbv [ch_lf ch_nul ch_tab ch_ff ch_cr ch_space ch_dquote ch_squote ch_period ch_colon ch_at ch_underscore ch_backtick] in *.

  Lemma forallb_snoc_false : forall (f : N -> bool) a c, f c = false -> forallb f (a ++ [c]) = false.
  Proof. intros f a c H. rewrite forallb_app. cbn. rewrite H. apply andb_false_r. Qed.

  Lemma arm_pos_NoToken : forall l c, c <> 12 -> st l = SNoToken -> arm_pos l c (run_arm l c).
  Proof.
    intros l c Hff Hst. unfold run_arm. rewrite Hst. unfold arm_pos. rewrite Hst. cbn [lstate_eqb].
    intros Hr. destruct (start_token_pos l c Hff Hr). split; assumption.
  Qed.

  (* every remaining arm, first for a line feed (all tests on the character compute) ... *)
  Lemma arm_pos_lf : forall l, should_create l = true -> st l <> SNoToken -> arm_pos l 10 (run_arm l 10).
  Proof.
    intros l Hsc Hst. unfold run_arm. destruct (st l) eqn:E; [congruence| | | | | | | | | | | |].
    - (* Operator: no spelling contains a line feed *)
      unfold arm_operator.
      assert (Hn : current_operator (cur (push l 10)) = None).
      { apply (current_operator_none _ 10); [cbn; apply in_or_app; right; left; reflexivity | reflexivity]. }
      rewrite Hn.
      assert (Hid : forallb (is_identifier_char uni_alnum) (cur (push l 10)) = false)
        by (apply forallb_snoc_false; reflexivity).
      rewrite Hid, andb_false_r.
      replace (is_numeric uni_numeric 10) with false by reflexivity. rewrite andb_false_r. cbn [andb].
      cbn. rewrite Hsc. split; reflexivity.
    - (* Spaces *) cbn. destruct (could_sub l); cbn; rewrite ?E; cbn; auto.
    - (* Subexpression *) cbn. auto.
    - (* Number *) cbn. rewrite Hsc. auto.
    - (* Float *) cbn. rewrite Hsc. auto.
    - (* Identifier *) cbn. repeat break_if; unfold tp, sp in *; cbn in *; try congruence; auto.
    - (* Annotation *) cbn. rewrite Hsc. auto.
    - (* LineAnnotation *) cbn. auto.
    - (* CharList *) cbn. intros _. rewrite !E. cbn. auto.
    - (* StartCharList *) unfold arm_start_list. cbn. repeat break_if; cbn; rewrite ?Hsc, ?E; cbn; auto.
    - (* ByteList *) cbn. intros _. rewrite !E. cbn. auto.
    - (* StartByteList *) unfold arm_start_list. cbn. repeat break_if; cbn; rewrite ?Hsc, ?E; cbn; auto.
  Qed.

  (* ... then for every other character except CR and FF *)
  Ltac pos_fin Hlf Hsc := unfold tp, sp, step_pos; rewrite ?Hlf; cbn; rewrite ?Hsc; try (intros; split); try congruence; auto.

  Lemma arm_pos_other : forall l c, should_create l = true -> st l <> SNoToken ->
    c <> 10 -> c <> 12 -> c <> 13 ->
    (st l = SFloat -> ends_with 46 (cur l) = true -> exists nb, cur l = nb ++ [46] /\ nb <> [] /\ ~ In 46 nb) ->
    arm_pos l c (run_arm l c).
  Proof.
    intros l c Hsc Hst Hlf Hff Hcr Hfl. apply N.eqb_neq in Hlf.
    unfold run_arm. destruct (st l) eqn:E; [congruence| | | | | | | | | | | |].
    - (* Operator *)
      unfold arm_operator. destruct (current_operator (cur (push l c))).
      + unfold arm_pos, advance. change ch_lf with 10. rewrite Hlf, E. pos_fin Hlf Hsc.
      + repeat break_if; unfold arm_pos, advance; change ch_lf with 10; rewrite ?Hlf, ?E; pos_fin Hlf Hsc.
    - (* Spaces *)
      unfold arm_spaces. change ch_lf with 10. rewrite Hlf.
      repeat break_if; unfold arm_pos, advance; change ch_lf with 10; rewrite ?Hlf, ?E; pos_fin Hlf Hsc.
    - (* Subexpression *)
      unfold arm_subexpression. destruct (is_ascii_whitespace c && negb ((c =? ch_tab) || (c =? ch_space))) eqn:Ews.
      + apply ws_newline_cases in Ews. apply N.eqb_neq in Hlf. destruct Ews as [?|[?|?]]; congruence.
      + repeat break_if; unfold arm_pos, advance; change ch_lf with 10; rewrite ?Hlf, ?E; pos_fin Hlf Hsc.
    - (* Number *)
      unfold arm_number. repeat break_if; unfold arm_pos, advance; change ch_lf with 10; rewrite ?Hlf, ?E; pos_fin Hlf Hsc.
    - (* Float *)
      unfold arm_float. destruct (is_number_char uni_numeric uni_alnum c).
      + unfold arm_pos, advance; change ch_lf with 10; rewrite ?Hlf, ?E; pos_fin Hlf Hsc.
      + destruct ((c =? ch_period) && ends_with ch_period (cur l)) eqn:Esplit.
        * apply andb_true_iff in Esplit as [Hc Hend]. apply N.eqb_eq in Hc. subst c.
          destruct (Hfl eq_refl Hend) as (nb & Hnb & Hne & Hno).
          destruct (text_col (set_start_row l (text_row l)) =? 0); [exact I|].
          change ch_period with 46.
          change (push (set_start_col (start_token (set_start_row l (text_row l)) 46)
                          (text_col (set_start_row l (text_row l)) - 1)) 46) with (float_split_state uni_numeric uni_alnum l).
          rewrite float_split_state_eq. cbn [cur]. rewrite current_operator_range.
          unfold arm_pos, advance. cbn. intros _.
          rewrite Hnb, trim_matches_number by assumption. rewrite E. repeat split; auto; discriminate.
        * unfold arm_pos, advance; change ch_lf with 10; rewrite ?Hlf, ?E; pos_fin Hlf Hsc.
    - (* Identifier *)
      unfold arm_identifier. repeat break_if; unfold arm_pos, advance; change ch_lf with 10; rewrite ?Hlf, ?E; pos_fin Hlf Hsc.
    - (* Annotation *)
      unfold arm_annotation. repeat break_if; unfold arm_pos, advance; change ch_lf with 10; rewrite ?Hlf, ?E; pos_fin Hlf Hsc.
    - (* LineAnnotation *)
      unfold arm_line_annotation. change ch_lf with 10. rewrite Hlf.
      repeat break_if; unfold arm_pos, advance; change ch_lf with 10; rewrite ?Hlf, ?E; pos_fin Hlf Hsc.
    - (* CharList *)
      unfold arm_list. repeat break_if; unfold arm_pos, advance; change ch_lf with 10; rewrite ?Hlf, ?E; pos_fin Hlf Hsc.
    - (* StartCharList *)
      unfold arm_start_list. repeat break_if; unfold arm_pos, advance; change ch_lf with 10; rewrite ?Hlf, ?E; pos_fin Hlf Hsc.
    - (* ByteList *)
      unfold arm_list. repeat break_if; unfold arm_pos, advance; change ch_lf with 10; rewrite ?Hlf, ?E; pos_fin Hlf Hsc.
    - (* StartByteList *)
      unfold arm_start_list. repeat break_if; unfold arm_pos, advance; change ch_lf with 10; rewrite ?Hlf, ?E; pos_fin Hlf Hsc.
  Qed.

  Lemma run_arm_pos : forall l c, WF l -> c <> 12 -> c <> 13 -> arm_pos l c (run_arm l c).
  Proof.
    intros l c [[H1 H2 H3 H4 H5] H6] Hff Hcr.
    destruct (lstate_eqb (st l) SNoToken) eqn:Est.
    - apply arm_pos_NoToken; auto. destruct (st l); try discriminate; reflexivity.
    - assert (Hst : st l <> SNoToken) by (intros E; rewrite E in Est; discriminate).
      destruct (N.eq_dec c 10) as [->|Hlf].
      + apply arm_pos_lf; auto.
      + apply arm_pos_other; auto.
  Qed.

End Pos.
