(* C04 "in order", unbounded on the operator fragment: whenever the reference parser
   (Spec.Pratt) is defined on a token list -- i.e. on every operator expression of any
   length and bracket depth, C02_full -- the in-order walk of the accepted parse visits the
   nodes 0, 1, 2, ... in this order (node indices are in token order), and hence the token
   indices along the walk increase strictly and every non-trivia token is met.
   From the token-ordered-tree invariant of Proofs/C02 and C04_tokens_accounted. *)
From Coq Require Import List Arith Bool NArith Lia.
From GV Require Import Base.Result Gen.TokenTypes Gen.Defs Model.Parser Model.BuilderWL
  Spec.RefTable Spec.Pratt Spec.Chains Spec.TreeShape Spec.TokenAccount
  Proofs.C02.Denote Proofs.C02.OpExpr Proofs.C02.Full Proofs.C04.Tokens.
Import ListNotations.

(* ---- the in-order list of node indices of an index-carrying tree ---- *)
Fixpoint io (t : ntree) : list nat :=
  match t with
  | NAtom i _ _ => [i]
  | NPre i _ _ a => i :: io a
  | NSuf i _ _ a => io a ++ [i]
  | NBin i _ _ l r => io l ++ i :: io r
  | NGroup _ i _ a => i :: io a
  end.

Lemma inorder_go_tree ns : forall t p, denotes ns p t ->
  forall fuel stack acc,
    inorder_go (2 * size t + fuel) ns stack (Some (nid t)) acc
    = inorder_go fuel ns stack None (rev (io t) ++ acc).
Proof.
  induction t as [i d k|i d k a IH|i d k a IH|i d k l IHl r IHr|b i k a IH]; intros p D fuel stack acc;
    simpl in D; destruct D as (n & Hn & A); cbn [nid size io].
  - destruct A as (_ & _ & _ & _ & A5 & A6 & _).
    replace (2 * 1 + fuel) with (S (S fuel)) by lia. cbn [inorder_go]. rewrite Hn, A5. cbn [inorder_go].
    rewrite ?Hn, A6. reflexivity.
  - destruct A as (_ & _ & _ & A4 & A5 & _ & A7).
    replace (2 * S (size a) + fuel) with (S (S (2 * size a + fuel))) by lia.
    cbn [inorder_go]. rewrite Hn, A4. cbn [inorder_go]. rewrite ?Hn, A5.
    rewrite (IH _ A7). cbn [rev]. rewrite <- app_assoc. reflexivity.
  - destruct A as (_ & _ & _ & A4 & A5 & _ & A7).
    replace (2 * S (size a) + fuel) with (S (2 * size a + S fuel)) by lia.
    cbn [inorder_go]. rewrite Hn, A4. rewrite (IH _ A7). cbn [inorder_go]. rewrite ?Hn, A5.
    rewrite rev_app_distr. reflexivity.
  - destruct A as (_ & _ & A3 & A4 & A5 & A6).
    replace (2 * S (size l + size r) + fuel) with (S (2 * size l + S (2 * size r + fuel))) by lia.
    cbn [inorder_go]. rewrite Hn, A3. rewrite (IHl _ A5). cbn [inorder_go]. rewrite ?Hn, A4.
    rewrite (IHr _ A6). rewrite rev_app_distr. cbn [rev]. rewrite <- !app_assoc. reflexivity.
  - destruct A as (_ & _ & _ & A4 & A5 & _ & A7).
    replace (2 * S (size a) + fuel) with (S (S (2 * size a + fuel))) by lia.
    cbn [inorder_go]. rewrite Hn, A4. cbn [inorder_go]. rewrite ?Hn, A5.
    rewrite (IH _ A7). cbn [rev]. rewrite <- app_assoc. reflexivity.
Qed.

Lemma io_has t j : In j (io t) <-> has_id t j.
Proof.
  induction t as [i d k|i d k a IH|i d k a IH|i d k l IHl r IHr|b i k a IH]; simpl.
  - split; [intros [H|[]]; auto|intros ->; auto].
  - rewrite <- IH. split; [intros [H|H]; auto|intros [->|H]; auto].
  - rewrite in_app_iff, <- IH. simpl. split; [intros [H|[H|[]]]; auto|intros [->|H]; auto].
  - rewrite in_app_iff, <- IHl, <- IHr. simpl. split; [intros [H|[H|H]]; auto|intros [->|[H|H]]; auto].
  - rewrite <- IH. split; [intros [H|H]; auto|intros [->|H]; auto].
Qed.

Lemma increasing_app a b : increasing a -> increasing b -> (forall x y, In x a -> In y b -> x < y) ->
  increasing (a ++ b).
Proof.
  induction a as [|x r IH]; intros Ha Hb H; [exact Hb|]. simpl in Ha |- *. destruct Ha as [H1 H2]. split.
  - intros y Hy. apply in_app_or in Hy. destruct Hy as [Hy|Hy]; [apply H1; exact Hy|apply H; [left; reflexivity|exact Hy]].
  - apply IH; auto. intros x0 y Hx Hy. apply H; [right; exact Hx|exact Hy].
Qed.

Lemma io_increasing t : ordered t -> increasing (io t).
Proof.
  induction t as [i d k|i d k a IH|i d k a IH|i d k l IHl r IHr|bk i k a IH]; simpl.
  - intros _. split; [intros b []|exact I].
  - intros [H1 H2]. split; [|apply IH; exact H2]. intros b Hb. apply io_has in Hb.
    pose proof (ordered_range a b H2 Hb). lia.
  - intros [H1 H2]. apply increasing_app; [apply IH; exact H2|split; [intros b []|exact I]|].
    intros x y Hx [<-|[]]. apply io_has in Hx. pose proof (ordered_range a x H2 Hx). lia.
  - intros (H1 & H2 & H3 & H4). apply increasing_app; [apply IHl; exact H3| |].
    + split; [|apply IHr; exact H4]. intros b Hb. apply io_has in Hb. pose proof (ordered_range r b H4 Hb). lia.
    + intros x y Hx Hy. apply io_has in Hx. pose proof (ordered_range l x H3 Hx).
      destruct Hy as [<-|Hy]; [lia|]. apply io_has in Hy. pose proof (ordered_range r y H4 Hy). lia.
  - intros [H1 H2]. split; [|apply IH; exact H2]. intros b Hb. apply io_has in Hb.
    pose proof (ordered_range a b H2 Hb). lia.
Qed.

Lemma increasing_is_seq : forall n a l, increasing l -> (forall j, In j l <-> a <= j < a + n) -> l = seq a n.
Proof.
  induction n as [|n IH]; intros a l Hi Hl.
  - destruct l as [|x r]; [reflexivity|]. exfalso. pose proof (proj1 (Hl x) (or_introl eq_refl)). lia.
  - destruct l as [|x r]; [exfalso; pose proof (proj2 (Hl a) ltac:(lia)) as []|].
    simpl in Hi. destruct Hi as [H1 H2].
    assert (x = a).
    { pose proof (proj1 (Hl x) (or_introl eq_refl)). destruct (proj2 (Hl a) ltac:(lia)) as [E|E]; [lia|].
      specialize (H1 a E). lia. }
    subst x. cbn [seq]. f_equal. apply IH; [exact H2|]. intros j. split.
    + intros Hj. pose proof (H1 j Hj). pose proof (proj1 (Hl j) (or_intror Hj)). lia.
    + intros Hj. destruct (proj2 (Hl j) ltac:(lia)) as [E|E]; [lia|exact E].
Qed.

(* the walk of a token-ordered tree that fills the array: 0, 1, 2, ... *)
Lemma inorder_tree ns t :
  denotes ns None t -> ordered t -> (forall j, j < length ns -> has_id t j) ->
  inorder ns (nid t) = Some (seq 0 (length ns)).
Proof.
  intros D O Cov. unfold inorder.
  pose proof (ordered_size t O) as Hsz.
  assert (Hhi : hi t < length ns) by (eapply denotes_lt; [exact D|apply has_id_hi]).
  replace (4 * length ns + 4) with (2 * size t + S (4 * length ns + 3 - 2 * size t)) by lia.
  rewrite (inorder_go_tree ns t None D). cbn [inorder_go]. rewrite app_nil_r, rev_involutive.
  f_equal. apply increasing_is_seq; [apply io_increasing; exact O|].
  intros j. rewrite io_has. split.
  - intros Hj. pose proof (denotes_lt _ _ _ _ D Hj). lia.
  - intros Hj. apply Cov. lia.
Qed.

(* ---- the token indices along the walk ---- *)
Definition tok_entry (off : nat) (n : pnode) : list nat :=
  if synthesised n then [] else match n_tok n with Some t => [t + off] | None => [0] end.

Lemma flat_map_seq_nth {B} (f : pnode -> list B) : forall (ns : list pnode) (pre : list pnode),
  flat_map (fun i => match nth_error (pre ++ ns) i with Some n => f n | None => [] end) (seq (length pre) (length ns))
  = flat_map f ns.
Proof.
  induction ns as [|n r IH]; intros pre; [reflexivity|]. cbn [length seq flat_map].
  rewrite nth_error_app2 by lia. rewrite Nat.sub_diag. cbn [nth_error]. f_equal.
  specialize (IH (pre ++ [n])). rewrite <- app_assoc in IH. cbn [app] in IH.
  rewrite app_length in IH. cbn [length] in IH. replace (length pre + 1) with (S (length pre)) in IH by lia. exact IH.
Qed.

Lemma forallb_seq_nth (f : pnode -> bool) : forall (ns : list pnode) (pre : list pnode),
  forallb (fun i => match nth_error (pre ++ ns) i with Some n => f n | None => false end) (seq (length pre) (length ns))
  = forallb f ns.
Proof.
  induction ns as [|n r IH]; intros pre; [reflexivity|]. cbn [length seq forallb].
  rewrite nth_error_app2 by lia. rewrite Nat.sub_diag. cbn [nth_error]. f_equal.
  specialize (IH (pre ++ [n])). rewrite <- app_assoc in IH. cbn [app] in IH.
  rewrite app_length in IH. cbn [length] in IH. replace (length pre + 1) with (S (length pre)) in IH by lia. exact IH.
Qed.

(* in an accounted node array the only List nodes are the synthesised ones, and every other
   node carries a token index *)
Lemma accounted_implicit toks : forall i lt added, accounted i toks lt added ->
  forall l, In l added ->
    (is_implicit l = true -> snd (fst l) = S_StartGrouping) /\
    (is_implicit l = false -> exists k, snd l = Some k).
Proof.
  induction toks as [|t r IH]; intros i lt added H l Hl; cbn [accounted] in H.
  - subst. contradiction.
  - destruct H as [pre [post [rest [-> [Hpre [Hpost Hacc]]]]]].
    apply in_app_or in Hl. destruct Hl as [Hl|Hl].
    + destruct Hpre as [->| ->]; [contradiction|]. destruct Hl as [<-|[]]. split; [reflexivity|discriminate].
    + apply in_app_or in Hl. destruct Hl as [Hl|Hl]; [|eapply IH; eauto].
      destruct Hpost as [[-> _]|[l0 [-> [Hm _]]]]; [contradiction|]. destruct Hl as [<-|[]].
      pose proof (label_matches_real _ _ _ Hm) as Hr. split; [rewrite Hr; discriminate|].
      intros _. exists i. apply Hm.
Qed.

Lemma strictly_increasing_map off : forall l, increasing l -> strictly_increasing (map (fun k => k + off) l) = true.
Proof.
  induction l as [|a r IH]; intros H; [reflexivity|]. simpl in H. destruct H as [H1 H2].
  destruct r as [|b r']; [reflexivity|]. cbn [map strictly_increasing].
  apply andb_true_iff. split; [apply Nat.ltb_lt; specialize (H1 b (or_introl eq_refl)); lia|].
  apply IH. exact H2.
Qed.

Lemma forallb_i_nth {A} (f : nat -> A -> bool) : forall (l : list A) i,
  (forall k t, nth_error l k = Some t -> f (i + k) t = true) -> forallb_i f i l = true.
Proof.
  induction l as [|x r IH]; intros i H; [reflexivity|]. cbn [forallb_i].
  apply andb_true_iff. split.
  - specialize (H 0 x eq_refl). rewrite Nat.add_0_r in H. exact H.
  - apply IH. intros k t Hk. specialize (H (S k) t Hk). replace (S i + k) with (i + S k) by lia. exact H.
Qed.

(* trimming: what is cut at both ends is trivia *)
Lemma drop_while_trim_split l : exists pre, l = pre ++ drop_while_trim l /\ forallb is_trim pre = true.
Proof.
  induction l as [|t r IH]; [exists []; split; reflexivity|]. cbn [drop_while_trim].
  destruct (is_trim t) eqn:E.
  - destruct IH as [pre [E1 E2]]. exists (t :: pre). split; [cbn [app]; f_equal; exact E1|].
    cbn [forallb]. rewrite E, E2. reflexivity.
  - exists []. split; reflexivity.
Qed.

Lemma trim_tokens_split toks :
  exists pre post, toks = pre ++ snd (trim_tokens toks) ++ post /\ length pre = fst (trim_tokens toks) /\
                   forallb is_trim pre = true /\ forallb is_trim post = true.
Proof.
  unfold trim_tokens. cbn [fst snd].
  destruct (drop_while_trim_split toks) as [pre [E1 E2]].
  set (l1 := drop_while_trim toks) in *.
  destruct (drop_while_trim_split (rev l1)) as [pr [E3 E4]].
  exists pre, (rev pr). split; [|split; [|split; [exact E2|]]].
  - rewrite E1 at 1. f_equal. rewrite <- rev_app_distr, <- E3, rev_involutive. reflexivity.
  - assert (Hl : length toks = length pre + length l1) by (rewrite E1 at 1; apply app_length). lia.
  - rewrite forallb_forall in *. intros x Hx. apply E4. apply in_rev. exact Hx.
Qed.

Lemma trim_is_trivia t : is_trim t = true -> is_trivia t = true.
Proof. destruct t; intros H; try discriminate H; reflexivity. Qed.

Lemma nodeless_is_trivia t : in_fragment t = true -> never_a_node t = true \/ maybe_dropped t = true ->
  is_trivia t = true.
Proof.
  destruct t; intros H1 H2; try discriminate H1; try reflexivity;
    destruct H2 as [H2|H2]; vm_compute in H2; discriminate H2.
Qed.

Lemma existsb_eqb_in k l : In k l -> existsb (Nat.eqb k) l = true.
Proof. intros H. apply existsb_exists. exists k. split; [exact H|apply Nat.eqb_refl]. Qed.

Lemma real_toks_in l ls k : In l ls -> is_implicit l = false -> snd l = Some k -> In k (real_toks ls).
Proof.
  intros Hl Hi Hk. unfold real_toks. apply in_flat_map. exists l. split; [exact Hl|]. rewrite Hi, Hk. left. reflexivity.
Qed.

Theorem in_order_when_reference_defined (toks : list token_type) (T : rtree) :
  pratt toks = Some T ->
  exists root ns,
    parse toks = Ok (root, ns) /\ ns <> [] /\
    inorder ns root = Some (seq 0 (length ns)) /\
    tokens_in_order_b toks (fst (trim_tokens toks)) ns root = true.
Proof.
  intros Hpr. destruct (pratt_parse toks T Hpr) as (Tn & ns & its & _ & _ & _ & Hp & DT & OT & _ & CovT & _).
  pose proof (inorder_tree ns Tn DT OT CovT) as Hio.
  exists (nid Tn), ns. split; [exact Hp|].
  assert (Hne : ns <> []).
  { destruct (denotes_root _ _ _ DT) as (nr & Hnr & _). intros ->. destruct (nid Tn); discriminate Hnr. }
  split; [exact Hne|]. split; [exact Hio|].
  pose proof (parse_tokens_accounted toks _ _ Hp) as Hacc.
  set (off := fst (trim_tokens toks)). set (mid := snd (trim_tokens toks)) in *.
  unfold tokens_in_order_b. destruct ns as [|n0 nr] eqn:Ens; [congruence|]. rewrite <- Ens in *. rewrite Hio.
  (* every node: synthesised = implicit; otherwise it carries a token index *)
  assert (Hnode : forall n, In n ns -> synthesised n = is_implicit (label_of n) /\
                                        (is_implicit (label_of n) = false -> exists k, n_tok n = Some k)).
  { intros n Hn. destruct (accounted_implicit _ _ _ _ Hacc (label_of n) (in_map label_of _ _ Hn)) as [H1 H2].
    split; [|exact H2]. unfold synthesised, is_implicit, label_of in *. cbn [fst snd] in *.
    destruct (definition_eqb (n_def n) D_List); [|reflexivity]. rewrite (H1 eq_refl). reflexivity. }
  assert (Hseq : flat_map (fun i => match nth_error ns i with
                                    | Some n => if synthesised n then [] else
                                                  match n_tok n with Some t => [t + off] | None => [0] end
                                    | None => [] end) (seq 0 (length ns))
                 = map (fun k => k + off) (real_toks (labels ns))).
  { transitivity (flat_map (tok_entry off) ns); [exact (flat_map_seq_nth (tok_entry off) ns [])|]. unfold real_toks, labels.
    clear -Hnode. induction ns as [|n r IH]; [reflexivity|]. cbn [flat_map map].
    rewrite map_app. f_equal; [|apply IH; intros n' Hn'; apply Hnode; right; exact Hn'].
    destruct (Hnode n (or_introl eq_refl)) as [H1 H2]. unfold tok_entry. rewrite H1.
    destruct (is_implicit (label_of n)); [reflexivity|]. destruct (H2 eq_refl) as [k Hk].
    unfold label_of at 1. cbn [snd]. rewrite Hk. reflexivity. }
  rewrite Hseq.
  assert (Hnoempty : forallb (fun i => match nth_error ns i with
                                       | Some n => synthesised n || match n_tok n with Some _ => true | None => false end
                                       | None => false end) (seq 0 (length ns)) = true).
  { transitivity (forallb (fun n => synthesised n || match n_tok n with Some _ => true | None => false end) ns);
      [exact (forallb_seq_nth _ ns [])|].
    apply forallb_forall. intros n Hn. destruct (Hnode n Hn) as [H1 H2]. rewrite H1.
    destruct (is_implicit (label_of n)); [reflexivity|]. destruct (H2 eq_refl) as [k ->]. reflexivity. }
  rewrite Hnoempty. rewrite (strictly_increasing_map off _ (accounted_increasing _ _ _ _ Hacc)). cbn [andb].
  (* every non-trivia token is met *)
  destruct (trim_tokens_split toks) as (pre & post & Etoks & Hlen & Hpre & Hpost). fold mid in Etoks. fold off in Hlen.
  assert (Hfrag : forallb in_fragment toks = true).
  { unfold pratt in Hpr. destruct (items_of toks 0 None false) as [x|] eqn:E; [|discriminate].
    eapply items_of_fragment; exact E. }
  apply forallb_i_nth. intros k t Hk. cbn [plus].
  assert (Hft : in_fragment t = true).
  { rewrite forallb_forall in Hfrag. apply Hfrag. eapply nth_error_In; exact Hk. }
  rewrite Etoks in Hk.
  destruct (Nat.lt_ge_cases k (length pre)) as [Hlt|Hge].
  { rewrite nth_error_app1 in Hk by exact Hlt. rewrite forallb_forall in Hpre.
    rewrite (trim_is_trivia t (Hpre t (nth_error_In _ _ Hk))). reflexivity. }
  rewrite nth_error_app2 in Hk by exact Hge.
  destruct (Nat.lt_ge_cases (k - length pre) (length mid)) as [Hlt2|Hge2].
  - rewrite nth_error_app1 in Hk by exact Hlt2.
    destruct (never_a_node t) eqn:E1; [rewrite (nodeless_is_trivia t Hft (or_introl E1)); reflexivity|].
    destruct (maybe_dropped t) eqn:E2; [rewrite (nodeless_is_trivia t Hft (or_intror E2)); reflexivity|].
    destruct (accounted_complete _ _ _ _ Hacc _ _ Hk E1 E2) as (l & Hl & Hm). cbn [plus] in Hm.
    apply orb_true_iff. right. apply existsb_eqb_in. apply in_map_iff. exists (k - length pre).
    split; [lia|]. eapply real_toks_in; [exact Hl|exact (label_matches_real _ _ _ Hm)|apply Hm].
  - rewrite nth_error_app2 in Hk by exact Hge2. rewrite forallb_forall in Hpost.
    rewrite (trim_is_trivia t (Hpost t (nth_error_In _ _ Hk))). reflexivity.
Qed.
