(* Soundness of the depth checker / abstract interpreter of Spec/Depth.v: an
   assignment accepted by [check_typed] (in particular every answer of
   [infer_depths]) is a typing. *)
From Coq Require Import List Arith Bool NArith Lia.
From GV Require Import Base.Result Gen.Instr Model.BuilderWL Spec.Depth.
Import ListNotations.

Lemma dp_eqb_eq : forall a b, dp_eqb a b = true -> a = b.
Proof.
  intros [a1 a2] [b1 b2] H. unfold dp_eqb in H. cbn in H.
  apply andb_true_iff in H. destruct H as [H1 H2].
  apply Nat.eqb_eq in H1. apply Nat.eqb_eq in H2. subst. reflexivity.
Qed.

Lemma dmap_of_some : forall p l pc x,
  dmap_of p l pc = Some x ->
  pg_ibase p <= pc /\ nth_error l (pc - pg_ibase p) = Some (Some x).
Proof.
  intros p l pc x H. unfold dmap_of in H.
  destruct (Nat.ltb pc (pg_ibase p)) eqn:E; [discriminate|].
  apply Nat.ltb_ge in E. split; [exact E|].
  unfold dl_get in H. destruct (nth_error l (pc - pg_ibase p)) as [[y|]|]; try discriminate.
  inversion H; subst. reflexivity.
Qed.

Lemma check_nodes_spec : forall p l ins ds k0,
  check_nodes p l k0 ins ds = true ->
  length ins = length ds /\
  forall k io x, nth_error ins k = Some io -> nth_error ds k = Some (Some x) ->
    exists nexts, succs p (pg_ibase p + (k0 + k)) io x = Some nexts /\
      forall n, In n nexts -> dmap_of p l (fst n) = Some (snd n).
Proof.
  intros p l ins. induction ins as [|io ins IH]; intros ds k0 H.
  - destruct ds; [|discriminate]. split; [reflexivity|]. intros k io x Hk. destruct k; discriminate.
  - destruct ds as [|dx ds]; [discriminate|]. cbn [check_nodes] in H.
    apply andb_true_iff in H. destruct H as [Hhd Htl].
    destruct (IH ds (S k0) Htl) as [Hlen Hrest]. split; [cbn; congruence|].
    intros k io' x Hk Hd. destruct k as [|k].
    + cbn in Hk, Hd. inversion Hk; inversion Hd; subst. clear Hk Hd.
      rewrite Nat.add_0_r.
      destruct (succs p (pg_ibase p + k0) io' x) as [nexts|]; [|discriminate].
      exists nexts. split; [reflexivity|].
      rewrite forallb_forall in Hhd. intros n Hn. specialize (Hhd n Hn).
      destruct (dmap_of p l (fst n)) as [y|]; [|discriminate].
      apply dp_eqb_eq in Hhd. subst. reflexivity.
    + cbn in Hk, Hd. destruct (Hrest k io' x Hk Hd) as [nexts [Hs Hn]].
      exists nexts. split; [|exact Hn].
      replace (pg_ibase p + (k0 + S k)) with (pg_ibase p + (S k0 + k)) by lia. exact Hs.
Qed.

Theorem check_typed_sound : forall p l, check_typed p l = true -> typed p (dmap_of p l).
Proof.
  intros p l H. unfold check_typed in H.
  apply andb_true_iff in H. destruct H as [H Hnodes].
  apply andb_true_iff in H. destruct H as [Hlen Hentries].
  apply Nat.eqb_eq in Hlen.
  destruct (check_nodes_spec p l (pg_instrs p) l 0 Hnodes) as [_ Hn].
  split.
  - intros j Hj. unfold check_entries in Hentries. rewrite forallb_forall in Hentries.
    specialize (Hentries j Hj).
    destruct (pjump p j) as [t|]; [|discriminate]. exists t. split; [reflexivity|].
    destruct (dmap_of p l t) as [x|]; [|discriminate]. apply dp_eqb_eq in Hentries. subst. reflexivity.
  - intros pc x Hd. destruct (dmap_of_some p l pc x Hd) as [Hge Hnth].
    assert (Hlt : pc - pg_ibase p < length (pg_instrs p)).
    { rewrite <- Hlen. apply nth_error_Some. rewrite Hnth. discriminate. }
    destruct (nth_error (pg_instrs p) (pc - pg_ibase p)) as [io|] eqn:Hio.
    2:{ apply nth_error_None in Hio. lia. }
    destruct (Hn (pc - pg_ibase p) io x Hio Hnth) as [nexts [Hs Hall]].
    exists io, nexts. split; [|split].
    + unfold pinstr. destruct (Nat.ltb pc (pg_ibase p)) eqn:E; [apply Nat.ltb_lt in E; lia | exact Hio].
    + replace (pg_ibase p + (0 + (pc - pg_ibase p))) with pc in Hs by lia. exact Hs.
    + intros pc' x' Hin. exact (Hall (pc', x') Hin).
Qed.

Theorem infer_depths_sound : forall p l, infer_depths p = Some l -> typed p (dmap_of p l).
Proof.
  intros p l H. unfold infer_depths in H.
  destruct (entry_targets p (entry_refs p)) as [work|]; [|discriminate].
  destruct (propagate _ p _ work) as [l'|]; [|discriminate].
  destruct (check_typed p l') eqn:Hc; [|discriminate].
  inversion H; subst. apply check_typed_sound. exact Hc.
Qed.

(* an expression ends at operand depth one with its side effects closed *)
Theorem typed_ends_at_one : forall p d, typed p d -> ends_at_one p d.
Proof.
  intros p d [_ Ht] pc x o Hd Hi.
  destruct (Ht pc x Hd) as [io [l [Hio [Hs _]]]].
  rewrite Hi in Hio. inversion Hio; subst. clear Hio.
  unfold succs in Hs. destruct x as [r v]. cbn [fst] in Hs.
  destruct (dp_eqb (r, v) (1, 0)) eqn:E; [|discriminate].
  apply dp_eqb_eq in E. exact E.
Qed.
