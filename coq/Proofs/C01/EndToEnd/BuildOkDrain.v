(* The converse of the builder / tree-compiler agreement (Proofs/Builder/RootsSim.v,
   build_compile): where the tree compiler of Model/Compile.v succeeds on the
   proper tree below the root of a node array, the worklist model of build()
   (Model/BuilderWL.v) succeeds too -- it neither errs, nor runs into the
   iteration cap, nor runs out of fuel.

   The key lemma is the forward drain equation [drain_fwd]: with the root of a
   subtree on top of the node stack and the record build() gives a fresh child,
   IF inline compilation of the subtree succeeds THEN the inner loop pops the
   subtree (a bounded number of iterations) and reaches a state related to the
   compiler's by [post] of DrainSim.v. *)
From Coq Require Import List Arith Bool NArith Lia.
From GV Require Import Base.Result Gen.TokenTypes Gen.Defs Gen.Instr Model.Parser Model.BuilderWL Model.Compile
  Proofs.C05.InlBase Proofs.C05.Known Proofs.C05.Jumps Proofs.Builder.BState Proofs.Builder.TreeAt Proofs.Builder.Owned
  Proofs.Builder.DrainSim Proofs.Builder.ValidTree.
Import ListNotations.

(* ------------------------------------------------ elementary steps, forward *)
Lemma upd_some : forall A (l : list A) i f, i < length l -> exists l', upd l i f = Some l'.
Proof.
  intros A l. induction l as [|a r IH]; intros i f H; cbn [length] in H; [lia|].
  destruct i; cbn [upd]; [eauto|]. destruct (IH i f ltac:(lia)) as [l' E]. rewrite E. eauto.
Qed.

Lemma lk_lt : forall s i x, lk s i = Some x -> i < blen s.
Proof. intros s i x H. unfold lk in H. unfold blen. apply nth_error_Some. congruence. Qed.

Lemma put_b_fwd : forall s i b, i < blen s ->
  exists s', put_b s i b = Ok s' /\ setb s s' i b /\ steps s' = steps s.
Proof.
  intros s i b H. unfold put_b. destruct (upd_some _ (bnodes s) i (fun _ => Some b) H) as [l E].
  exists (with_bnodes s l). split; [rewrite E; reflexivity|]. split; [|reflexivity].
  apply put_b_ok. unfold put_b. rewrite E. reflexivity.
Qed.

Lemma assign_b_fwd : forall s i b, i < blen s ->
  exists s', assign_b s i b = Ok s' /\ setb s s' i b /\ steps s' = steps s.
Proof.
  intros s i b H. unfold assign_b. destruct (upd_some _ (bnodes s) i (fun _ => Some b) H) as [l E].
  exists (with_bnodes s l). split; [rewrite E; reflexivity|]. split; [|reflexivity].
  apply assign_b_ok. unfold assign_b. rewrite E. reflexivity.
Qed.

Lemma after_node_list_fwd : forall s ni b lp d pb,
  lk s ni = Some (Some b) -> b_contrib b = true -> b_list_parent b = Some (lp, d) ->
  lp <> ni -> lk s lp = Some (Some pb) ->
  exists s1 s2, after_node s ni = Ok s2 /\ setb s s1 ni (b_set_contrib false b) /\
                setb s1 s2 lp (b_inc_count pb) /\ steps s2 = steps s.
Proof.
  intros s ni b lp d pb H Hc Hl Hne Hp. unfold after_node. unfold lk in H. rewrite H, Hc, Hl.
  destruct (put_b_fwd s ni (b_set_contrib false b)) as [s1 [E1 [S1 T1]]]; [eapply lk_lt; exact H|].
  rewrite E1. cbn [bind].
  assert (Hp1 : lk s1 lp = Some (Some pb)) by (rewrite (setb_ne _ _ _ _ lp S1 Hne); exact Hp).
  rewrite (get_b_lk _ _ _ Hp1). cbn [bind].
  destruct (put_b_fwd s1 lp (b_inc_count pb)) as [s2 [E2 [S2 T2]]]; [eapply lk_lt; exact Hp1|].
  exists s1, s2. rewrite E2. repeat split; try assumption; try apply S1; try apply S2. congruence.
Qed.

(* ------------------------------------------------ what is left for other bodies *)
(* number of nodes in the registered bodies / arms: these are not visited inline *)
Definition psz (ps : list pend) : nat := length (flat_map (fun p => indices (p_tree p)) ps).
Definition isz (its : list (tree * nat)) : nat := length (flat_map (fun it => indices (fst it)) its).

Lemma psz_nil : psz [] = 0.  Proof. reflexivity. Qed.
Lemma isz_nil : isz [] = 0.  Proof. reflexivity. Qed.
Lemma psz_app : forall a b, psz (a ++ b) = psz a + psz b.
Proof. intros. unfold psz. rewrite flat_map_app, app_length. reflexivity. Qed.
Lemma isz_app : forall a b, isz (a ++ b) = isz a + isz b.
Proof. intros. unfold isz. rewrite flat_map_app, app_length. reflexivity. Qed.
Lemma psz_cons : forall p l, psz (p :: l) = size (p_tree p) + psz l.
Proof. intros. unfold psz. cbn [flat_map]. rewrite app_length, size_indices. reflexivity. Qed.
Lemma isz_cons : forall it l, isz (it :: l) = size (fst it) + isz l.
Proof. intros. unfold isz. cbn [flat_map]. rewrite app_length, size_indices. reflexivity. Qed.
Lemma psz_items : forall c e (its : list (tree * nat)),
  psz (map (fun it : tree * nat => mkP (fst it) c (snd it) e) its) = isz its.
Proof. intros. unfold psz, isz. rewrite flat_map_items. reflexivity. Qed.

Ltac sz_norm :=
  cbn [size];
  repeat first [ rewrite psz_app | rewrite isz_app | rewrite psz_items | rewrite psz_cons | rewrite isz_cons
               | rewrite psz_nil | rewrite isz_nil ];
  cbn [p_tree fst].

(* keeps an equation out of the reach of [subst] *)
Definition keep {A} (x y : A) : Prop := x = y.

Section Fwd.
Variable nodes : list pnode.
Variable init : binit.
Variable lit_ok : nat -> bool.

(* [n] iterations of the inner loop lead from (s, st) to (s', st') -- provided the
   iteration counter stays below the cap *)
Definition runs (crj : nat) (s : bstate) (st : list nat) (s' : bstate) (st' : list nat) (n : nat) : Prop :=
  steps s' = steps s + n /\
  (steps s' <= max_steps nodes ->
   forall fuel, drain nodes init lit_ok (n + fuel) s crj st = drain nodes init lit_ok fuel s' crj st').

Lemma runs_refl : forall crj s st, runs crj s st s st 0.
Proof. intros. split; [lia|]. intros _ fuel. reflexivity. Qed.

Lemma runs_trans : forall crj s st s1 st1 n1 s2 st2 n2,
  runs crj s st s1 st1 n1 -> runs crj s1 st1 s2 st2 n2 -> runs crj s st s2 st2 (n1 + n2).
Proof.
  intros crj s st s1 st1 n1 s2 st2 n2 [A1 A2] [B1 B2]. split; [lia|].
  intros Hle fuel. rewrite <- Nat.add_assoc. rewrite A2 by lia. apply B2. exact Hle.
Qed.

Lemma runs_one : forall crj s ni rest pn s1 st1 s2,
  nth_error nodes ni = Some pn ->
  handle_parse_node init lit_ok (bump s) crj rest ni pn = Ok (s1, st1) ->
  after_node s1 ni = Ok s2 ->
  steps s2 = S (steps s) ->
  runs crj s (ni :: rest) s2 st1 1.
Proof.
  intros crj s ni rest pn s1 st1 s2 Hn Hh Ha Hs. split; [lia|].
  intros Hle fuel. cbn [Nat.add drain]. fold (bump s).
  replace (Nat.ltb (max_steps nodes) (steps (bump s))) with false
    by (symmetry; apply Nat.ltb_ge; cbn [bump steps]; lia).
  rewrite Hn, Hh. cbn [bind]. rewrite Ha. cbn [bind]. reflexivity.
Qed.


End Fwd.

(* ------------------------------------------------------------ tactics *)
Ltac steps_norm_in H := cbn [steps push_instr push_jump push_root bump with_bnodes] in H.
Ltac steps_solve := cbn [steps push_instr push_jump push_root bump with_bnodes]; lia.
Ltac blen_side := solve [ blen_norm; assumption ].
Ltac blen_eq := solve [ blen_norm; first [reflexivity | assumption] ].

(* the writes of a handler succeed: the indices are inside the array *)
Ltac fwd_b ER :=
  match type of ER with
  | context [put_b ?s0 ?i ?b] =>
    let s' := fresh "s" in let E := fresh "E" in let Hs := fresh "Hset" in let Ht := fresh "Hst" in
    destruct (put_b_fwd s0 i b ltac:(blen_side)) as (s' & E & Hs & Ht);
    rewrite E in ER; clear E; cbn [bind] in ER; cbv beta iota in ER; steps_norm_in Ht
  | context [assign_b ?s0 ?i ?b] =>
    let s' := fresh "s" in let E := fresh "E" in let Hs := fresh "Hset" in let Ht := fresh "Hst" in
    destruct (assign_b_fwd s0 i b ltac:(blen_side)) as (s' & E & Hs & Ht);
    rewrite E in ER; clear E; cbn [bind] in ER; cbv beta iota in ER; steps_norm_in Ht
  end.

Ltac bool_facts_in ER :=
  repeat match goal with
         | H : ?x = false |- _ => match type of ER with context [x] => rewrite H in ER end
         | H : ?x = true |- _ => match type of ER with context [x] => rewrite H in ER end
         end.

(* the bookkeeping after a visit, forward *)
Ltac after_fwd sK ix k :=
  let Hx := fresh "Hx" in
  eassert (Hx : lk sK ix = _) by lk_chain;
  first [ let Han := fresh "Han" in
          pose proof (after_node_plain _ _ _ Hx ltac:(plain_side)) as Han; clear Hx; k sK Han
        | let sm := fresh "s" in let s2 := fresh "s" in let Han := fresh "Han" in
          let A := fresh "Hown" in let C := fresh "Hbump" in let Hst := fresh "Hst" in
          let Hp := fresh "Hp" in
          match goal with
          | Hpar : b_list_parent _ = Some (?lp, _) |- _ =>
            eassert (Hp : lk sK lp = Some (Some _)) by lk_chain;
            destruct (after_node_list_fwd _ _ _ _ _ _ Hx ltac:(bsimpl; rewrite_ready; reflexivity)
                        ltac:(bsimpl; rewrite_ready; reflexivity) ltac:(ne_solve) Hp) as (sm & s2 & Han & A & C & Hst);
            clear Hx Hp; steps_norm_in Hst; k s2 Han
          end ].

(* one visit of the node itself, forward: [own_open] computes the handler's result up to
   its writes, [own_close] adds the bookkeeping after the node and extends the run *)
Ltac lk_rewrite_in ER :=
  repeat match type of ER with
         | context [nth_error (bnodes ?sx) ?j] =>
           change (nth_error (bnodes sx) j) with (lk sx j) in ER;
           let Hg := fresh "Hg" in
           eassert (Hg : lk sx j = Some (Some _)) by lk_chain;
           rewrite Hg in ER; clear Hg
         end.

Ltac own_open opener :=
  match goal with
  | Hcur : runs ?nodes ?init ?lit ?crj ?s0 ?st0 ?sc (?ni :: ?r') ?nc, Hnth : nth_error ?nodes ?ni = Some ?pn |- _ =>
    let R := fresh "R" in let ER0 := fresh "ER0" in let ER := fresh "ER" in let EX := fresh "EX" in
    assert (EX : exists R, keep (handle_parse_node init lit (bump sc) crj r' ni pn) R /\
                           handle_parse_node init lit (bump sc) crj r' ni pn = R) by (eexists; split; reflexivity);
    destruct EX as (R & ER0 & ER);
    opener ER;
    match type of ER with
    | context [get_b ?sx ?ix] =>
      let Hg := fresh "Hg" in
      eassert (Hg : lk sx ix = Some (Some _)) by lk_chain;
      rewrite !(get_b_lk _ _ _ Hg) in ER; clear Hg
    | _ => idtac
    end;
    lk_rewrite_in ER;
    cbn [bind] in ER; bsimpl_in ER; rewrite_ready_in ER; cbn [negb andb imap map app] in ER; cbv iota beta in ER;
    lk_rewrite_in ER;
    cbv iota beta in ER;
    match goal with
    | Hl : n_left pn = _, Hr : n_right pn = _ |- _ => rewrite ?Hl, ?Hr in ER
    end;
    bool_facts_in ER; rewrite ?definition_eqb_refl in ER;
    cbn [need bind negb andb] in ER; cbv iota beta in ER
  end.

Ltac own_close :=
  match goal with
  | ER0 : keep (handle_parse_node ?init ?lit (bump ?sc) ?crj ?r' ?ni ?pn) ?R, ER : Ok (?sK, ?stK) = ?R,
    Hcur : runs ?nodes ?init ?lit ?crj ?s0 ?st0 ?sc (?ni :: ?r') ?nc, Hnth : nth_error ?nodes ?ni = Some ?pn |- _ =>
    unfold keep in ER0; rewrite <- ER in ER0; clear ER; clear R;
    after_fwd sK ni ltac:(fun s2 Han =>
      let Hone := fresh "Hone" in
      pose proof (runs_one nodes init lit crj sc ni r' pn sK stK s2 Hnth ER0 Han ltac:(steps_solve)) as Hone;
      let Hnew := fresh "Hcur" in
      pose proof (runs_trans _ _ _ _ _ _ _ _ _ _ _ _ Hcur Hone) as Hnew; clear Hcur Hone ER0 Han)
  end.

Ltac own_fwd opener :=
  own_open opener;
  match goal with
  | ER0 : keep _ ?R, ER : _ = ?R |- _ => repeat fwd_b ER
  end;
  own_close.

Ltac child_fwd IH :=
  match goal with
  | Hcur : runs ?nodes ?init ?lit ?crj ?s0 ?st0 ?sc (t_ix ?a :: ?r') ?nc |- _ =>
    let Hb := fresh "Hb" in
    eassert (Hb : lk sc (t_ix a) = Some (Some _)) by lk_chain;
    match type of Hb with
    | _ = Some (Some ?ba) =>
      let m := mode_of ba in let c := cont_of ba in
      match goal with
      | Ha : tree_at nodes a, Hn : NoDup (indices a), Hi : inl _ _ crj a _ ?C = Ok (?ca, ?psa, ?itsa) |- _ =>
        let Hc := fresh "Hc" in
        assert (Hc : cst_of sc = C) by (cst_norm; reflexivity);
        rewrite <- Hc in Hi; clear Hc;
        let sa := fresh "s" in let na := fresh "n" in let Hpost := fresh "Hpost" in
        let Hna := fresh "Hn" in let Hna' := fresh "Hn" in let Hra := fresh "Hruns" in
        destruct (IH a eq_refl m c sc crj r' ba ca psa itsa Ha Hn Hb ltac:(ready_solve)
                     ltac:(first [exact I | assumption]) ltac:(sp_side) ltac:(blen_eq) Hi)
          as (sa & na & Hpost & [Hna Hna'] & Hra);
        let Hnew := fresh "Hcur" in
        pose proof (runs_trans _ _ _ _ _ _ _ _ _ _ _ _ Hcur Hra) as Hnew; clear Hcur Hra
      end
    end
  end.

Ltac items_nil :=
  repeat match goal with
         | H : inl ?i ?lo _ _ _ _ = Ok (_, _, ?it) |- _ =>
           is_var it;
           let E := fresh in
           assert (E : it = []) by (apply (proj1 (inl_items i lo _ _ _ _ _ _ _ H)); reflexivity);
           subst it
         end.

Ltac post_fwd :=
  unfold post; refine (conj _ (conj _ (conj _ (conj _ (conj _ (conj _ (conj _ _)))))));
  [ cst_norm; first [ reflexivity | cbn [list_count kcount]; do 3 f_equal; lia ]
  | roots_norm; rewrite ?map_app, ?rev_app_distr; unfold proot; cbn [map rev app p_tree]; rewrite ?app_nil_r, <- ?app_assoc; reflexivity
  | blen_norm; reflexivity
  | let j := fresh "j" in let Hj := fresh "Hj" in let Hs := fresh "Hs" in
    intros j Hj Hs; cbn [sp_of] in Hs; frame_facts Hj;
    try (assert (Fsp := fun E => Hs (f_equal Some E)));
    lk_chain
  | idtac
  | cbn [t_ix]; eexists; split; [lk_chain | bsimpl; reflexivity]
  | rewrite ?app_nil_r; repeat (apply Forall_app; split); first [pend_leaf | pend_new | idtac]
  | rewrite ?app_nil_r; repeat (apply Forall_app; split); first [item_leaf | item_new | idtac] ].

Ltac finish_fwd :=
  items_nil;
  match goal with
  | Hcur : runs _ _ _ _ _ _ ?s' _ ?n |- _ =>
    exists s', n; split; [ post_fwd | split; [ sz_norm; lia | exact Hcur ] ]
  end.

Ltac run_fwd IHl IHr opener :=
  repeat first [ child_fwd IHl | child_fwd IHr | own_fwd opener ].

Lemma fold_push_root_steps : forall (items : list (nat * nat)) s1,
  steps (fold_left (fun acc it => push_root acc (fst it)) items s1) = steps s1.
Proof. induction items as [|it items IH]; intros s1; [reflexivity|]. cbn [fold_left]. rewrite IH. reflexivity. Qed.

Lemma fold_assign_fwd : forall c jt items s2,
  (forall it, In it items -> fst it < blen s2) ->
  exists s3, fold_left (assign_arm c jt) items (Ok s2) = Ok s3 /\ steps s3 = steps s2.
Proof.
  intros c jt. induction items as [|it items IH]; intros s2 H; [exists s2; split; reflexivity|].
  cbn [fold_left]. unfold assign_arm at 2. cbn [bind].
  destruct (assign_b_fwd s2 (fst it) (b_new_jump_end (fst it) c (snd it) [(I_JumpTo, ONum jt)])) as (s2' & E & S & T).
  { apply H. left. reflexivity. }
  rewrite E. destruct (IH s2') as (s3 & E3 & T3).
  { intros it' Hin. rewrite (setb_len _ _ _ _ S). apply H. right. exact Hin. }
  exists s3. split; [exact E3 | congruence].
Qed.

Section Drain.
Variable nodes : list pnode.
Variable init : binit.
Variable lit_ok : nat -> bool.

Definition P_fwd (t : tree) : Prop :=
  forall m c s crj rest b c' ps its,
    tree_at nodes t -> NoDup (indices t) ->
    lk s (t_ix t) = Some (Some b) -> ready b (t_ix t) c m -> mode_ok m ->
    (forall j, sp_of m = Some j -> ~ In j (indices t) /\ exists pb, lk s j = Some (Some pb)) ->
    blen s = length nodes ->
    inl init lit_ok crj t (cx_of c m) (cst_of s) = Ok (c', ps, its) ->
    exists s' n, post s s' t m b c' ps its /\ (1 <= n /\ n + 3 * (psz ps + isz its) <= 3 * size t) /\
                 runs nodes init lit_ok crj s (t_ix t :: rest) s' rest n.

Theorem drain_fwd : forall t, P_fwd t.
Proof.
  induction t as [ix d l r IHl IHr] using tree_ind'.
  intros m c s crj rest b c' ps its Hat Hnd Hlk Hrd Hmo Hsp Hlen Hinl.
  cbn [t_ix] in *.
  destruct Hat as [[pn [Hnth [Hdef [Hl Hr]]]] [Hal Har]].
  destruct (nodup_node _ _ _ _ Hnd) as [N1 [N2 [N3 [N4 N5]]]].
  subst d.
  assert (Hix : ix < length nodes) by (apply nth_error_Some; congruence).
  pose proof (runs_refl nodes init lit_ok crj s (ix :: rest)) as Hcur.
  cbn [inl] in Hinl. cbv zeta in Hinl.
  destruct (kind_of (n_def pn)) eqn:Hk.
  all: destruct l as [a|]; destruct r as [bb|]; cbn [oix oindices] in *.
  all: try (assert (Hra : t_ix a < length nodes) by (apply (tree_at_in_range nodes a Hal); apply ix_in)).
  all: try (assert (Hrb : t_ix bb < length nodes) by (apply (tree_at_in_range nodes bb Har); apply ix_in)).
  all: try (assert (Nia : ix <> t_ix a) by (intros E; apply N1; rewrite E; apply ix_in)).
  all: try (assert (Nib : ix <> t_ix bb) by (intros E; apply N2; rewrite E; apply ix_in)).
  all: try (assert (Nab : ~ In (t_ix a) (indices bb)) by (apply N5; apply ix_in)).
  all: try (assert (Nba : ~ In (t_ix bb) (indices a)) by (intros E; exact (N5 _ E (ix_in bb)))).
  all: try (assert (Nab' : t_ix a <> t_ix bb) by (intros E; apply Nab; rewrite E; apply ix_in)).
  all: destruct m as [|lp d'|cp]; cbn [lp_of cp_of cx_of mode_ok] in *.
  all: try (destruct (Hsp _ eq_refl) as [Hspn [pb0 Hpb0]]; frame_facts Hspn).
  all: match goal with Hp : lk ?s0 ?j = Some (Some _), Hlen' : blen ?s0 = length _ |- _ =>
         assert (Hsplt : j < length nodes) by (rewrite <- Hlen'; eapply lk_lt; exact Hp) end.
  all: try (assert (Hdeq : definition_eqb (n_def pn) d' = false) by (apply deq_kind_false; [rewrite Hk; discriminate | exact Hmo])).
  all: cbn [cx_containing cx_list cx_cond plain present andb negb] in Hinl; cbv beta iota in Hinl.
  all: try match type of Hk with _ = KValue _ ?w => destruct w end.
  all: try match type of Hk with _ = KUnary _ ?w => destruct w end.
  all: try match type of Hk with _ = KBinary _ ?w => destruct w end.
  all: try match type of Hk with _ = KFixApply ?w => destruct w end.
  all: repeat inv_ok.
  all: repeat match goal with H : true && _ = _ |- _ => cbn [andb] in H end.
  all: repeat match goal with H : definition_eqb ?x ?y = true |- _ => apply definition_eqb_eq in H; subst x end.
  all: try match goal with H : [] = ?x ++ ?y |- _ =>
             symmetry in H; apply app_eq_nil in H; destruct H; subst x y end.
  all: destruct Hrd as [R1 [R2 [R3 [R4 [R5 [R6 [R7 [R8 R9]]]]]]]]; cbn [lp_of cp_of] in *.
  all: try (pose proof (kind_group _ Hk) as HdefD).
  all: try (pose proof (kind_side_effect _ Hk) as HdefD).
  all: try (pose proof (kind_nested _ Hk) as HdefD).
  all: try (pose proof (kind_reapply _ Hk) as HdefD).
  all: try (pose proof (kind_infix _ Hk) as HdefD).
  all: try (destruct (kind_subexpr _ Hk) as [HdefD|HdefD]).
  all: try solve [ run_fwd IHl IHr ltac:(fun Hh =>
      first [ rewrite (hpn_value init lit_ok _ _ _ _ _ _ _ Hk) in Hh; unfold handle_value_like in Hh
            | rewrite (hpn_binary init lit_ok _ _ _ _ _ _ _ Hk) in Hh; unfold handle_binary in Hh
            | rewrite (hpn_unary_prefix init lit_ok _ _ _ _ _ _ Hk) in Hh; unfold handle_unary in Hh
            | rewrite (hpn_unary_suffix init lit_ok _ _ _ _ _ _ Hk) in Hh; unfold handle_unary_suffix in Hh
            | rewrite (hpn_list init lit_ok _ _ _ _ _ Hk) in Hh; unfold handle_list in Hh
            | rewrite (hpn_logical init lit_ok _ _ _ _ _ _ Hk) in Hh; unfold handle_logical in Hh
            | rewrite (hpn_jump_if init lit_ok _ _ _ _ _ _ Hk) in Hh; unfold handle_jump_if in Hh
            | rewrite (hpn_else init lit_ok _ _ _ _ _ Hk) in Hh; unfold handle_else in Hh
            | rewrite (hpn_fix_suffix init lit_ok _ _ _ _ _ Hk) in Hh; unfold handle_fix_apply in Hh
            | rewrite (hpn_fix_prefix init lit_ok _ _ _ _ _ Hk) in Hh; unfold handle_fix_apply in Hh
            | unfold handle_parse_node in Hh; rewrite HdefD in Hh ];
      rewrite ?Hl, ?Hr in Hh; cbn [need bind] in Hh); finish_fwd; try sp_solve ].
  (* the else-chain head with arms registered: a join entry, the arms on root_stack, their records *)
  all: run_fwd IHl IHr ltac:(fun Hh =>
      first [ rewrite (hpn_value init lit_ok _ _ _ _ _ _ _ Hk) in Hh; unfold handle_value_like in Hh
            | rewrite (hpn_binary init lit_ok _ _ _ _ _ _ _ Hk) in Hh; unfold handle_binary in Hh
            | rewrite (hpn_unary_prefix init lit_ok _ _ _ _ _ _ Hk) in Hh; unfold handle_unary in Hh
            | rewrite (hpn_unary_suffix init lit_ok _ _ _ _ _ _ Hk) in Hh; unfold handle_unary_suffix in Hh
            | rewrite (hpn_list init lit_ok _ _ _ _ _ Hk) in Hh; unfold handle_list in Hh
            | rewrite (hpn_logical init lit_ok _ _ _ _ _ _ Hk) in Hh; unfold handle_logical in Hh
            | rewrite (hpn_jump_if init lit_ok _ _ _ _ _ _ Hk) in Hh; unfold handle_jump_if in Hh
            | rewrite (hpn_else init lit_ok _ _ _ _ _ Hk) in Hh; unfold handle_else in Hh
            | rewrite (hpn_fix_suffix init lit_ok _ _ _ _ _ Hk) in Hh; unfold handle_fix_apply in Hh
            | rewrite (hpn_fix_prefix init lit_ok _ _ _ _ _ Hk) in Hh; unfold handle_fix_apply in Hh
            | unfold handle_parse_node in Hh; rewrite HdefD in Hh ];
      rewrite ?Hl, ?Hr in Hh; cbn [need bind] in Hh).
  all: own_open ltac:(fun Hh =>
      first [ rewrite (hpn_value init lit_ok _ _ _ _ _ _ _ Hk) in Hh; unfold handle_value_like in Hh
            | rewrite (hpn_binary init lit_ok _ _ _ _ _ _ _ Hk) in Hh; unfold handle_binary in Hh
            | rewrite (hpn_unary_prefix init lit_ok _ _ _ _ _ _ Hk) in Hh; unfold handle_unary in Hh
            | rewrite (hpn_unary_suffix init lit_ok _ _ _ _ _ _ Hk) in Hh; unfold handle_unary_suffix in Hh
            | rewrite (hpn_list init lit_ok _ _ _ _ _ Hk) in Hh; unfold handle_list in Hh
            | rewrite (hpn_logical init lit_ok _ _ _ _ _ _ Hk) in Hh; unfold handle_logical in Hh
            | rewrite (hpn_jump_if init lit_ok _ _ _ _ _ _ Hk) in Hh; unfold handle_jump_if in Hh
            | rewrite (hpn_else init lit_ok _ _ _ _ _ Hk) in Hh; unfold handle_else in Hh
            | rewrite (hpn_fix_suffix init lit_ok _ _ _ _ _ Hk) in Hh; unfold handle_fix_apply in Hh
            | rewrite (hpn_fix_prefix init lit_ok _ _ _ _ _ Hk) in Hh; unfold handle_fix_apply in Hh
            | unfold handle_parse_node in Hh; rewrite HdefD in Hh ];
      rewrite ?Hl, ?Hr in Hh; cbn [need bind] in Hh).
  {
    destruct (inl_owned nodes init lit_ok a Hal N3 _ _ _ _ _ _ Ha) as [OA [OB [OC OD]]].
    destruct (inl_owned nodes init lit_ok bb Har N4 _ _ _ _ _ _ Hf) as [OA' [OB' [OC' OD']]].
    pose proof (owned_roots_nodup _ _ OA) as NDa. pose proof (owned_roots_nodup _ _ OA') as NDb.
    pose proof (post_items _ _ _ _ _ _ _ _ Hpost) as PIa. pose proof (post_items _ _ _ _ _ _ _ _ Hpost0) as PIb.
    pose proof (post_pends _ _ _ _ _ _ _ _ Hpost) as PPa. pose proof (post_pends _ _ _ _ _ _ _ _ Hpost0) as PPb.
    rewrite Forall_forall in PIa, PIb.
    assert (Hia : forall y, In y (map iroot i1) -> In y (indices a)).
    { intros y Hx. apply in_map_iff in Hx. destruct Hx as [it [E Hit]]. subst y. apply In_tl, PIa, Hit. }
    assert (Hib : forall y, In y (map iroot i2) -> In y (indices bb)).
    { intros y Hx. apply in_map_iff in Hx. destruct Hx as [it [E Hit]]. subst y. apply In_tl, PIb, Hit. }
    assert (Hroots : forall y, In y (map fst (imap (i1 ++ i2))) -> In y (indices a) \/ In y (indices bb)).
    { intros y Hx. rewrite imap_fst, map_app, in_app_iff in Hx. destruct Hx; [left; auto | right; auto]. }
    assert (NDi : NoDup (map fst (imap (i1 ++ i2)))).
    { rewrite imap_fst, map_app. destruct (nodup_app_inv _ _ _ NDa) as [_ [Na _]]. destruct (nodup_app_inv _ _ _ NDb) as [_ [Nb _]].
      apply nodup_app_intro; [exact Na | exact Nb |]. intros y Hx Hy. exact (N5 y (Hia y Hx) (Hib y Hy)). }
    replace (imap i1 ++ imap i2) with (imap (i1 ++ i2)) in ER by (unfold imap; rewrite map_app; reflexivity).
    rewrite <- Hi in ER. cbn [imap map] in ER. cbv iota beta in ER.
    change ((t_ix (fst p0), snd p0) :: map (fun it : tree * nat => (t_ix (fst it), snd it)) l0) with (imap (p0 :: l0)) in ER.
    rewrite Hi in ER.
    match type of ER with context [fold_left _ ?items (Ok ?s2)] =>
      match type of ER with context [b_new_jump_end _ ?cc _ [(I_JumpTo, ONum ?jt)]] =>
        match s2 with fold_left _ _ ?s1' =>
          destruct (fold_push_root_spec items s1') as [PA [PB [PC PD]]];
          pose proof (fold_push_root_steps items s1') as PS;
          destruct (fold_assign_fwd cc jt items s2) as (sF & Hfold & HstF)
        end
      end
    end.
    { intros it Hit. rewrite PC. blen_norm.
      destruct (Hroots (fst it) (in_map fst _ _ Hit)) as [Hy|Hy];
        [exact (tree_at_in_range nodes a Hal _ Hy) | exact (tree_at_in_range nodes bb Har _ Hy)]. }
    destruct (fold_assign_spec _ _ _ _ _ Hfold) as [FA [FB [FC [FD FE]]]].
    specialize (FE NDi).
    unfold assign_arm in Hfold. rewrite Hfold in ER. cbn [bind] in ER.
    rewrite PS in HstF. steps_norm_in HstF.
    match type of PA with cst_of ?sp = _ => set (sP := sp) in * end.
    clearbody sP.
    own_close.
    match goal with |- context [?h :: map ?F l0] => change (h :: map F l0) with (map F (p0 :: l0)) end.
    rewrite Hi. items_nil.
    match goal with Hc : runs _ _ _ _ _ _ ?s' _ ?n |- _ => exists s', n; split; [|split; [sz_norm; lia | exact Hc]] end.
    unfold post; refine (conj _ (conj _ (conj _ (conj _ (conj _ (conj _ (conj _ _))))))).
    - cst_norm. reflexivity.
    - roots_norm. rewrite imap_fst. rewrite !map_app, !proot_items, !rev_app_distr, <- !app_assoc. reflexivity.
    - blen_norm. reflexivity.
    - intros j Hj Hs; cbn [sp_of] in Hs; frame_facts Hj; try (assert (Fsp := fun E => Hs (f_equal Some E))); lk_chain.
    - sp_solve.
    - cbn [t_ix]; eexists; split; [lk_chain | bsimpl; reflexivity].
    - rewrite Forall_forall in PPa, PPb.
      assert (Hna : forall p, In p p1 -> ~ In (proot p) (map fst (imap (i1 ++ i2)))).
      { intros p Hp E. rewrite imap_fst, map_app, in_app_iff in E.
        destruct (nodup_app_inv _ _ _ NDa) as [_ [_ Dab]].
        destruct E as [E|E]; [exact (Dab _ (in_map proot _ _ Hp) E)|].
        apply (N5 (proot p)); [apply In_tl; apply (PPa p Hp) | apply Hib; exact E]. }
      assert (Hnb : forall p, In p p2 -> ~ In (proot p) (map fst (imap (i1 ++ i2)))).
      { intros p Hp E. rewrite imap_fst, map_app, in_app_iff in E.
        destruct (nodup_app_inv _ _ _ NDb) as [_ [_ Dab]].
        destruct E as [E|E]; [|exact (Dab _ (in_map proot _ _ Hp) E)].
        apply (N5 (proot p)); [apply Hia; exact E | apply In_tl; apply (PPb p Hp)]. }
      apply Forall_app. split; [apply Forall_app; split|].
      + apply Forall_forall. intros p Hp. destruct (PPa p Hp) as [[bp [Hbp Hrest]] Hin]. pose proof (In_tl _ _ _ Hin) as Hin'.
        split; [|cbn [indices tl]; rewrite in_app_iff; left; exact Hin'].
        exists bp. split; [|exact Hrest]. rewrite (FD _ (Hna p Hp)). lk_chain.
      + apply Forall_forall. intros p Hp. destruct (PPb p Hp) as [[bp [Hbp Hrest]] Hin]. pose proof (In_tl _ _ _ Hin) as Hin'.
        split; [|cbn [indices tl]; rewrite in_app_iff; right; exact Hin'].
        exists bp. split; [|exact Hrest]. rewrite (FD _ (Hnb p Hp)). lk_chain.
      + apply Forall_map. apply Forall_forall. intros it Hit. unfold reg, proot. cbn [p_tree p_containing p_jump p_end].
        split.
        * eexists. split; [apply (FE (t_ix (fst it), snd it)); unfold imap; apply (in_map (fun it0 : tree * nat => (t_ix (fst it0), snd it0))); exact Hit|].
          cbn [fst snd]. split; [ready_solve | split; unfold ends_of; bsimpl; cst_norm; reflexivity].
        * cbn [indices tl]. rewrite in_app_iff. apply in_app_or in Hit. destruct Hit as [Hit|Hit];
            [left; apply In_tl, PIa, Hit | right; apply In_tl, PIb, Hit].
    - apply Forall_nil.
  }
  {
    destruct (inl_owned nodes init lit_ok a Hal N3 _ _ _ _ _ _ Ha) as [OA [OB [OC OD]]].
    destruct (inl_owned nodes init lit_ok bb Har N4 _ _ _ _ _ _ Hf) as [OA' [OB' [OC' OD']]].
    pose proof (owned_roots_nodup _ _ OA) as NDa. pose proof (owned_roots_nodup _ _ OA') as NDb.
    pose proof (post_items _ _ _ _ _ _ _ _ Hpost) as PIa. pose proof (post_items _ _ _ _ _ _ _ _ Hpost0) as PIb.
    pose proof (post_pends _ _ _ _ _ _ _ _ Hpost) as PPa. pose proof (post_pends _ _ _ _ _ _ _ _ Hpost0) as PPb.
    rewrite Forall_forall in PIa, PIb.
    assert (Hia : forall y, In y (map iroot i1) -> In y (indices a)).
    { intros y Hx. apply in_map_iff in Hx. destruct Hx as [it [E Hit]]. subst y. apply In_tl, PIa, Hit. }
    assert (Hib : forall y, In y (map iroot i2) -> In y (indices bb)).
    { intros y Hx. apply in_map_iff in Hx. destruct Hx as [it [E Hit]]. subst y. apply In_tl, PIb, Hit. }
    assert (Hroots : forall y, In y (map fst (imap (i1 ++ i2))) -> In y (indices a) \/ In y (indices bb)).
    { intros y Hx. rewrite imap_fst, map_app, in_app_iff in Hx. destruct Hx; [left; auto | right; auto]. }
    assert (NDi : NoDup (map fst (imap (i1 ++ i2)))).
    { rewrite imap_fst, map_app. destruct (nodup_app_inv _ _ _ NDa) as [_ [Na _]]. destruct (nodup_app_inv _ _ _ NDb) as [_ [Nb _]].
      apply nodup_app_intro; [exact Na | exact Nb |]. intros y Hx Hy. exact (N5 y (Hia y Hx) (Hib y Hy)). }
    replace (imap i1 ++ imap i2) with (imap (i1 ++ i2)) in ER by (unfold imap; rewrite map_app; reflexivity).
    rewrite <- Hi in ER. cbn [imap map] in ER. cbv iota beta in ER.
    change ((t_ix (fst p0), snd p0) :: map (fun it : tree * nat => (t_ix (fst it), snd it)) l0) with (imap (p0 :: l0)) in ER.
    rewrite Hi in ER.
    match type of ER with context [fold_left _ ?items (Ok ?s2)] =>
      match type of ER with context [b_new_jump_end _ ?cc _ [(I_JumpTo, ONum ?jt)]] =>
        match s2 with fold_left _ _ ?s1' =>
          destruct (fold_push_root_spec items s1') as [PA [PB [PC PD]]];
          pose proof (fold_push_root_steps items s1') as PS;
          destruct (fold_assign_fwd cc jt items s2) as (sF & Hfold & HstF)
        end
      end
    end.
    { intros it Hit. rewrite PC. blen_norm.
      destruct (Hroots (fst it) (in_map fst _ _ Hit)) as [Hy|Hy];
        [exact (tree_at_in_range nodes a Hal _ Hy) | exact (tree_at_in_range nodes bb Har _ Hy)]. }
    destruct (fold_assign_spec _ _ _ _ _ Hfold) as [FA [FB [FC [FD FE]]]].
    specialize (FE NDi).
    unfold assign_arm in Hfold. rewrite Hfold in ER. cbn [bind] in ER.
    rewrite PS in HstF. steps_norm_in HstF.
    match type of PA with cst_of ?sp = _ => set (sP := sp) in * end.
    clearbody sP.
    own_close.
    match goal with |- context [?h :: map ?F l0] => change (h :: map F l0) with (map F (p0 :: l0)) end.
    rewrite Hi. items_nil.
    match goal with Hc : runs _ _ _ _ _ _ ?s' _ ?n |- _ => exists s', n; split; [|split; [sz_norm; lia | exact Hc]] end.
    unfold post; refine (conj _ (conj _ (conj _ (conj _ (conj _ (conj _ (conj _ _))))))).
    - cst_norm. reflexivity.
    - roots_norm. rewrite imap_fst. rewrite !map_app, !proot_items, !rev_app_distr, <- !app_assoc. reflexivity.
    - blen_norm. reflexivity.
    - intros j Hj Hs; cbn [sp_of] in Hs; frame_facts Hj; try (assert (Fsp := fun E => Hs (f_equal Some E))); lk_chain.
    - sp_solve.
    - cbn [t_ix]; eexists; split; [lk_chain | bsimpl; reflexivity].
    - rewrite Forall_forall in PPa, PPb.
      assert (Hna : forall p, In p p1 -> ~ In (proot p) (map fst (imap (i1 ++ i2)))).
      { intros p Hp E. rewrite imap_fst, map_app, in_app_iff in E.
        destruct (nodup_app_inv _ _ _ NDa) as [_ [_ Dab]].
        destruct E as [E|E]; [exact (Dab _ (in_map proot _ _ Hp) E)|].
        apply (N5 (proot p)); [apply In_tl; apply (PPa p Hp) | apply Hib; exact E]. }
      assert (Hnb : forall p, In p p2 -> ~ In (proot p) (map fst (imap (i1 ++ i2)))).
      { intros p Hp E. rewrite imap_fst, map_app, in_app_iff in E.
        destruct (nodup_app_inv _ _ _ NDb) as [_ [_ Dab]].
        destruct E as [E|E]; [|exact (Dab _ (in_map proot _ _ Hp) E)].
        apply (N5 (proot p)); [apply Hia; exact E | apply In_tl; apply (PPb p Hp)]. }
      apply Forall_app. split; [apply Forall_app; split|].
      + apply Forall_forall. intros p Hp. destruct (PPa p Hp) as [[bp [Hbp Hrest]] Hin]. pose proof (In_tl _ _ _ Hin) as Hin'.
        split; [|cbn [indices tl]; rewrite in_app_iff; left; exact Hin'].
        exists bp. split; [|exact Hrest]. rewrite (FD _ (Hna p Hp)). lk_chain.
      + apply Forall_forall. intros p Hp. destruct (PPb p Hp) as [[bp [Hbp Hrest]] Hin]. pose proof (In_tl _ _ _ Hin) as Hin'.
        split; [|cbn [indices tl]; rewrite in_app_iff; right; exact Hin'].
        exists bp. split; [|exact Hrest]. rewrite (FD _ (Hnb p Hp)). lk_chain.
      + apply Forall_map. apply Forall_forall. intros it Hit. unfold reg, proot. cbn [p_tree p_containing p_jump p_end].
        split.
        * eexists. split; [apply (FE (t_ix (fst it), snd it)); unfold imap; apply (in_map (fun it0 : tree * nat => (t_ix (fst it0), snd it0))); exact Hit|].
          cbn [fst snd]. split; [ready_solve | split; unfold ends_of; bsimpl; cst_norm; reflexivity].
        * cbn [indices tl]. rewrite in_app_iff. apply in_app_or in Hit. destruct Hit as [Hit|Hit];
            [left; apply In_tl, PIa, Hit | right; apply In_tl, PIb, Hit].
    - apply Forall_nil.
  }
Qed.

End Drain.

Print Assumptions drain_fwd.

