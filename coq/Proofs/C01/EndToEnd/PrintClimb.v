(* (a2) Printer / reference-parser round trip.  The printer never adds
   parentheses; [paren_ok e] says every operand binds tightly enough to stand
   where it stands.  For such an AST of the operator fragment the reference
   precedence-climbing parser (Spec/Pratt.v over the pinned table) is DEFINED
   on the printed tokens and returns [rtree_of_expr e 0].

   The classical argument: an operand c of an operator of rank p may stand
   unparenthesised iff (i) the head operator of c would be taken inside the
   operand being built under the limit it is parsed with ([fits]) and (ii) the
   operator that follows c is not taken inside c's own right edge ([stops]).
   The generated priority table (Gen/Defs.v, what the printer consults) and the
   pinned table (Spec/RefTable.v, what the reference consults) order every pair
   of definitions the same way (C02_table_order). *)
From Coq Require Import ZArith NArith List Bool Arith Lia.
From GV Require Import Gen.TokenTypes Gen.Defs Model.Parser Spec.RefTable Spec.Pratt Spec.Chains
  Spec.Ast Spec.Printer Spec.Fragment Proofs.C02.Table Proofs.C02.Spine Proofs.C01.EndToEnd.PrintItems.
Import ListNotations.
Local Open Scope N_scope.

(* ---- the two tables on the heads of the fragment ---- *)
Lemma get_definition_ref t : fst (get_definition t) = ref_def t.
Proof. destruct t; reflexivity. Qed.

Lemma def_of_hdef e : def_of e = hdef e.
Proof. unfold def_of, hdef. destruct (head_tt e); [apply get_definition_ref|reflexivity]. Qed.

Lemma hdef_ranked lvl e : efrag lvl e = true -> exists p, ref_rank (hdef e) = Some p /\ p < INF.
Proof.
  intros F. destruct e; try discriminate F; unfold hdef; cbn [head_tt].
  - destruct l; eexists; split; reflexivity.
  - eexists; split; reflexivity.
  - eexists; split; reflexivity.
  - destruct o; eexists; split; reflexivity.
  - destruct o; eexists; split; reflexivity.
  - eexists; split; reflexivity.
  - eexists; split; reflexivity.
  - destruct k; eexists; split; reflexivity.
  - eexists; split; reflexivity.
  - destruct neg; eexists; split; reflexivity.
  - eexists; split; reflexivity.
  - destruct s; [eexists; split; reflexivity|discriminate F].
  - eexists; split; reflexivity.
  - eexists; split; reflexivity.
Qed.

Lemma hdef_ranked_RL lvl e : efrag lvl e = true -> is_seq e = false -> exists p, ref_rank (hdef e) = Some p /\ p < ROUND_LIMIT.
Proof.
  intros F Hs. destruct e; try discriminate F; try discriminate Hs; unfold hdef; cbn [head_tt].
  - destruct l; eexists; split; reflexivity.
  - eexists; split; reflexivity.
  - eexists; split; reflexivity.
  - destruct o; eexists; split; reflexivity.
  - destruct o; eexists; split; reflexivity.
  - eexists; split; reflexivity.
  - eexists; split; reflexivity.
  - destruct k; eexists; split; reflexivity.
  - eexists; split; reflexivity.
  - destruct neg; eexists; split; reflexivity.
  - eexists; split; reflexivity.
  - eexists; split; reflexivity.
  - eexists; split; reflexivity.
Qed.

Lemma inside_below d p q : ref_rank d = Some p -> p < q -> inside d q = true.
Proof. intros H L. unfold inside. rewrite H. apply N.ltb_lt in L. rewrite L. reflexivity. Qed.

Lemma rrank_spec lvl e : efrag lvl e = true -> ref_rank (hdef e) = Some (rrank e).
Proof. intros F. destruct (hdef_ranked lvl e F) as (p & Hp & _). unfold rrank. rewrite Hp. reflexivity. Qed.

Lemma rrank_lt_INF lvl e : efrag lvl e = true -> rrank e < INF.
Proof. intros F. destruct (hdef_ranked lvl e F) as (p & Hp & Hlt). unfold rrank. rewrite Hp. exact Hlt. Qed.

Lemma prio_spec lvl e : efrag lvl e = true -> priority (hdef e) = Some (prio e).
Proof.
  intros F. destruct (hdef_ranked lvl e F) as (p & Hp & _).
  destruct (proj2 (table_same_domain (hdef e)) (ex_intro _ p Hp)) as [a Ha].
  unfold prio. rewrite def_of_hdef, Ha. reflexivity.
Qed.

Lemma prio_cmp lvl c e : efrag lvl c = true -> efrag lvl e = true ->
  (prio c ?= prio e) = (rrank c ?= rrank e).
Proof.
  intros Fc Fe.
  exact (table_order_agrees _ _ _ _ _ _ (prio_spec _ _ Fc) (prio_spec _ _ Fe) (rrank_spec _ _ Fc) (rrank_spec _ _ Fe)).
Qed.

Lemma prio_leb lvl c e : efrag lvl c = true -> efrag lvl e = true -> (prio c <=? prio e) = (rrank c <=? rrank e).
Proof. intros Fc Fe. unfold N.leb. rewrite (prio_cmp lvl c e Fc Fe). reflexivity. Qed.
Lemma prio_ltb lvl c e : efrag lvl c = true -> efrag lvl e = true -> (prio c <? prio e) = (rrank c <? rrank e).
Proof. intros Fc Fe. unfold N.ltb. rewrite (prio_cmp lvl c e Fc Fe). reflexivity. Qed.
Lemma prio_eqb lvl c e : efrag lvl c = true -> efrag lvl e = true -> (prio c =? prio e) = (rrank c =? rrank e).
Proof.
  intros Fc Fe. pose proof (prio_cmp lvl c e Fc Fe) as H.
  destruct (N.eqb_spec (prio c) (prio e)) as [E|E]; destruct (N.eqb_spec (rrank c) (rrank e)) as [E'|E']; try reflexivity.
  - rewrite E, N.compare_refl in H. symmetry in H. apply N.compare_eq in H. contradiction.
  - rewrite E', N.compare_refl in H. apply N.compare_eq in H. contradiction.
Qed.

(* the only right-to-left head *)
Lemma rtl_is_pair d : ref_rtl d = true -> d = D_Pair.
Proof. destruct d; intros H; try discriminate H; reflexivity. Qed.
Lemma rank_of_pair_unique d : ref_rank d = ref_rank D_Pair -> d = D_Pair.
Proof. destruct d; intros H; try discriminate H; reflexivity. Qed.

(* ---- what [paren_ok] says about the operands, on the pinned ranks ---- *)
Definition left_open (e : expr) : bool :=
  match e with
  | EUn o _ => negb (is_prefix o)
  | EBin _ _ _ | EAnd _ _ | EOr _ _ | EList _ _ _ | ECond _ _ _ | EElse _ _ | ESeq _ _ _ => true
  | _ => false
  end.

(* the head operator of e is taken inside an operand built under the limit q *)
Definition fits (e : expr) (q : N) : Prop := left_open e = true -> inside (hdef e) q = true.

(* the items after an operand built under the limit q do not extend it *)
Definition stops (q : N) (rest : list item) : Prop :=
  match rest with
  | [] => True
  | IClose _ _ :: _ => True
  | IBinary d _ :: _ | ISuffix d _ :: _ => inside d q = false
  | _ => False
  end.

Lemma inside_spec d p q : ref_rank d = Some p -> inside d q = (p <? q) || ((p =? q) && ref_rtl d).
Proof. intros H. unfold inside. rewrite H. reflexivity. Qed.

Lemma stops_mono q q' rest : q' <= q -> stops q rest -> stops q' rest.
Proof.
  intros Hle H. destruct rest as [|[d k|d k|d k|d k|b k|b k] r]; cbn [stops] in *; try exact H.
  - unfold inside in *. destruct (ref_rank d) as [p|]; [|reflexivity].
    apply orb_false_iff in H. destruct H as [H1 H2]. apply N.ltb_ge in H1.
    apply orb_false_iff. split; [apply N.ltb_ge; lia|].
    destruct (N.eqb_spec p q') as [E|E]; [|reflexivity]. cbn [andb].
    assert (p = q) by lia. subst q. rewrite N.eqb_refl in H2. exact H2.
  - unfold inside in *. destruct (ref_rank d) as [p|]; [|reflexivity].
    apply orb_false_iff in H. destruct H as [H1 H2]. apply N.ltb_ge in H1.
    apply orb_false_iff. split; [apply N.ltb_ge; lia|].
    destruct (N.eqb_spec p q') as [E|E]; [|reflexivity]. cbn [andb].
    assert (p = q) by lia. subst q. rewrite N.eqb_refl in H2. exact H2.
Qed.

Lemma stops_done q rest lhs : stops q rest -> Climb q (Some lhs) rest lhs rest.
Proof.
  intros H. destruct rest as [|[d k|d k|d k|d k|b k|b k] r]; cbn [stops] in H; try contradiction.
  - apply C_end.
  - apply C_suf_out. exact H.
  - apply C_bin_out. exact H.
  - apply C_close.
Qed.

Lemma paren_ok_children e : paren_ok e = true -> ok_children e = true.
Proof. destruct e; cbn [paren_ok]; intros H; apply andb_true_iff in H; apply H. Qed.

Lemma paren_ok_un o x : paren_ok (EUn o x) = true -> paren_ok x = true.
Proof. cbn [paren_ok]. intros H. apply andb_true_iff in H. apply H. Qed.
Lemma paren_ok_group x : paren_ok (EGroup x) = true -> paren_ok x = true.
Proof. cbn [paren_ok]. intros H. apply andb_true_iff in H. apply H. Qed.
Lemma paren_ok_nested lbl b : paren_ok (ENested lbl b) = true -> paren_ok b = true.
Proof. cbn [paren_ok]. intros H. apply andb_true_iff in H. apply H. Qed.
Lemma paren_ok_reapply x : paren_ok (EReapply x) = true -> paren_ok x = true.
Proof. cbn [paren_ok]. intros H. apply andb_true_iff in H. apply H. Qed.
Lemma paren_ok_binary e t l r : as_binary e = Some (t, l, r) -> paren_ok e = true ->
  paren_ok l = true /\ paren_ok r = true.
Proof.
  intros Hb H. destruct e; try discriminate Hb; cbn [as_binary] in Hb; try (destruct k); try (destruct s; try discriminate Hb); injection Hb as <- <- <-;
    cbn [paren_ok] in H; apply andb_true_iff in H; destruct H as [_ H]; apply andb_true_iff in H; exact H.
Qed.

Lemma ok_children_binary e t l r : as_binary e = Some (t, l, r) -> ok_children e = true ->
  if ref_rtl (hdef e)
  then (prio l <? prio e) = true /\ (prio r <=? prio e) = true
  else (prio l <=? prio e) = true /\ (prio r <? prio e) = true.
Proof.
  intros Hb H. destruct e; try discriminate Hb; cbn [as_binary] in Hb; try (destruct k); try (destruct s; try discriminate Hb); injection Hb as <- <- <-.
  - destruct o; cbn [ok_children] in H; unfold ok_left_ltr, ok_right_ltr, ok_left_rtl, ok_right_rtl in H;
      apply andb_true_iff in H; exact H.
  - cbn [ok_children] in H. apply andb_true_iff in H. exact H.
  - cbn [ok_children] in H. apply andb_true_iff in H. exact H.
  - cbn [ok_children] in H. apply andb_true_iff in H. exact H.
  - cbn [ok_children] in H. apply andb_true_iff in H. exact H.
  - cbn [ok_children] in H. apply andb_true_iff in H. destruct neg; exact H.
  - cbn [ok_children] in H. apply andb_true_iff in H. exact H.
  - cbn [ok_children] in H. apply andb_true_iff in H. exact H.
Qed.

Lemma left_open_not_prefix x : left_open x = true -> is_prefix_expr x = false.
Proof. destruct x; intros H; try discriminate H; try reflexivity. cbn in *. destruct (is_prefix o); [discriminate H|reflexivity]. Qed.

(* ---- the round trip, as a big-step climb ---- *)
Lemma climb_expr_n lvl : forall n e, (size e < n)%nat -> efrag lvl e = true -> paren_ok e = true ->
  forall q rest T R off, fits e q -> stops (rrank e) rest ->
  Climb q (Some (rtree_of_expr e off)) rest T R ->
  Climb q None (eitems e off ++ rest) T R.
Proof.
  induction n as [|n IHn]; intros e Hn; [lia|].
  assert (IH : forall y, (size y < size e)%nat -> efrag lvl y = true -> paren_ok y = true ->
    forall q rest T R off, fits y q -> stops (rrank y) rest ->
    Climb q (Some (rtree_of_expr y off)) rest T R -> Climb q None (eitems y off ++ rest) T R).
  { intros y Hy. apply IHn. lia. }
  clear IHn Hn. intros F P q rest T R off Hfit Hstop HC.
  pose proof (rrank_spec lvl e F) as Hrk.
  destruct (shape_of lvl e F) as [El Hi Hr _|o x -> Ho|o x -> Ho|x ->|lbl b ->|x ->|l r ->|t l r Hb].
  - (* atom *)
    rewrite Hi. cbn [app]. apply C_val. rewrite Hr in HC. exact HC.
  - (* prefix operator: the operand is built under the operator's own rank *)
    cbn [efrag] in F. pose proof (paren_ok_un _ _ P) as Px. apply paren_ok_children in P.
    cbn [ok_children] in P. rewrite Ho in P. unfold ok_prefix in P.
    assert (Fe : efrag lvl (EUn o x) = true) by exact F.
    rewrite (prio_ltb lvl x _ F Fe), (prio_eqb lvl x _ F Fe) in P.
    cbn [eitems rtree_of_expr] in *. rewrite Ho in *. cbn [app].
    eapply C_pre; [exact Hrk| |exact HC].
    apply (IH x); [cbn [size]; lia|exact F|exact Px| | |].
    + intros Hlo. rewrite (left_open_not_prefix x Hlo), andb_false_r, orb_false_r in P.
      rewrite (inside_spec _ _ _ (rrank_spec lvl x F)), P. reflexivity.
    + eapply stops_mono; [|exact Hstop]. apply orb_true_iff in P. destruct P as [P|P].
      * apply N.ltb_lt in P. lia.
      * apply andb_true_iff in P. destruct P as [P _]. apply N.eqb_eq in P. lia.
    + apply stops_done. exact Hstop.
  - (* suffix operator *)
    cbn [efrag] in F. pose proof (paren_ok_un _ _ P) as Px. apply paren_ok_children in P.
    cbn [ok_children] in P. rewrite Ho in P. unfold ok_suffix in P.
    assert (Fe : efrag lvl (EUn o x) = true) by exact F.
    rewrite (prio_leb lvl x _ F Fe) in P. apply N.leb_le in P.
    assert (Hin : inside (hdef (EUn o x)) q = true) by (apply Hfit; cbn [left_open]; rewrite Ho; reflexivity).
    assert (Hnr : ref_rtl (hdef (EUn o x)) = false) by (destruct o; try discriminate Ho; reflexivity).
    pose proof Hin as Hin'. rewrite (inside_spec _ _ _ Hrk), Hnr, andb_false_r, orb_false_r in Hin'. apply N.ltb_lt in Hin'.
    cbn [eitems rtree_of_expr] in *. rewrite Ho in *. rewrite <- app_assoc. cbn [app].
    apply (IH x); [cbn [size]; lia|exact F|exact Px| | |].
    + intros _. rewrite (inside_spec _ _ _ (rrank_spec lvl x F)). apply orb_true_iff. left. apply N.ltb_lt. lia.
    + cbn [stops]. rewrite (inside_spec _ _ _ Hrk), Hnr, andb_false_r, orb_false_r. apply N.ltb_ge. exact P.
    + apply C_suf_in; [exact Hin|exact HC].
  - (* round group: its content is not a sequence, so every head ranks below the round limit *)
    cbn [efrag] in F. apply andb_true_iff in F. destruct F as [Hns F]. apply negb_true_iff in Hns.
    pose proof (paren_ok_group _ P) as Px.
    cbn [eitems rtree_of_expr] in *. cbn [app]. rewrite <- app_assoc. cbn [app].
    eapply C_open; [|exact HC]. cbn [blimit].
    apply (IH x); [cbn [size]; lia|exact F|exact Px| | |].
    + intros _. destruct (hdef_ranked_RL lvl x F Hns) as (p0 & Hp0 & Hl0). eapply inside_below; [exact Hp0|exact Hl0].
    + exact I.
    + apply C_close.
  - (* nested expression: the braces are brackets *)
    cbn [efrag] in F. apply andb_true_iff in F. destruct F as [_ F]. pose proof (paren_ok_nested _ _ P) as Px.
    cbn [eitems rtree_of_expr] in *. cbn [app]. rewrite <- app_assoc. cbn [app].
    eapply C_open; [|exact HC]. cbn [blimit].
    apply (IH b); [cbn [size]; lia|exact F|exact Px| | |].
    + intros _. eapply inside_INF; [apply (rrank_spec lvl b F)|apply (rrank_lt_INF lvl b F)].
    + exact I.
    + apply C_close.
  - (* re-apply: a prefix operator *)
    pose proof F as Fe. cbn [efrag] in F. apply andb_true_iff in F. destruct F as [_ F].
    pose proof (paren_ok_reapply _ P) as Px. apply paren_ok_children in P.
    cbn [ok_children] in P. unfold ok_prefix in P.
    rewrite (prio_ltb lvl x _ F Fe), (prio_eqb lvl x _ F Fe) in P.
    cbn [eitems rtree_of_expr] in *. cbn [app].
    eapply C_pre; [exact Hrk| |exact HC].
    apply (IH x); [cbn [size]; lia|exact F|exact Px| | |].
    + intros Hlo. rewrite (left_open_not_prefix x Hlo), andb_false_r, orb_false_r in P.
      rewrite (inside_spec _ _ _ (rrank_spec lvl x F)), P. reflexivity.
    + eapply stops_mono; [|exact Hstop]. apply orb_true_iff in P. destruct P as [P|P].
      * apply N.ltb_lt in P. lia.
      * apply andb_true_iff in P. destruct P as [P _]. apply N.eqb_eq in P. lia.
    + apply stops_done. exact Hstop.
  - (* space list *)
    assert (Hb : as_binary (EList Space l r) = Some (None, l, r)) by reflexivity.
    destruct (efrag_binary _ _ _ _ _ F Hb) as [Fl Fr]. destruct (paren_ok_binary _ _ _ _ Hb P) as [Pl Pr].
    pose proof (ok_children_binary _ _ _ _ Hb (paren_ok_children _ P)) as Hc.
    change (ref_rtl (hdef (EList Space l r))) with false in Hc. cbv iota in Hc. destruct Hc as [Hl Hr].
    rewrite (prio_leb lvl l _ Fl F) in Hl. rewrite (prio_ltb lvl r _ Fr F) in Hr. apply N.leb_le in Hl. apply N.ltb_lt in Hr.
    assert (Hin : inside D_List q = true) by (apply Hfit; reflexivity).
    pose proof Hin as Hin'. rewrite (inside_spec _ _ _ Hrk) in Hin'. change (ref_rtl D_List) with false in Hin'.
    rewrite andb_false_r, orb_false_r in Hin'. apply N.ltb_lt in Hin'.
    cbn [eitems rtree_of_expr] in *. rewrite <- app_assoc. cbn [app].
    apply (IH l); [cbn [size]; lia|exact Fl|exact Pl| | |].
    + intros _. rewrite (inside_spec _ _ _ (rrank_spec lvl l Fl)). apply orb_true_iff. left. apply N.ltb_lt.
      change (hdef (EList Space l r)) with D_List in *. lia.
    + cbn [stops]. change (hdef (EList Space l r)) with D_List in *.
      rewrite (inside_spec _ _ _ Hrk). change (ref_rtl D_List) with false. rewrite andb_false_r, orb_false_r.
      apply N.ltb_ge. exact Hl.
    + change (hdef (EList Space l r)) with D_List in *.
      eapply C_bin_in; [exact Hin|exact Hrk| |exact HC].
      apply (IH r); [cbn [size]; lia|exact Fr|exact Pr| | |].
      * intros _. rewrite (inside_spec _ _ _ (rrank_spec lvl r Fr)). apply orb_true_iff. left. apply N.ltb_lt. exact Hr.
      * eapply stops_mono; [|exact Hstop]. lia.
      * apply stops_done. exact Hstop.
  - (* binary operator *)
    destruct (efrag_binary _ _ _ _ _ F Hb) as [Fl Fr]. destruct (paren_ok_binary _ _ _ _ Hb P) as [Pl Pr].
    pose proof (ok_children_binary _ _ _ _ Hb (paren_ok_children _ P)) as Hc.
    assert (Sl : (size l < size e /\ size r < size e)%nat).
    { destruct e; try discriminate Hb; cbn [as_binary] in Hb; try (destruct k; try discriminate Hb); try (destruct s; try discriminate Hb);
        injection Hb as <- <- <-; cbn [size]; lia. }
    assert (Hlo : left_open e = true).
    { destruct e; try discriminate Hb; reflexivity. }
    pose proof (Hfit Hlo) as Hin. pose proof Hin as Hin'. rewrite (inside_spec _ _ _ Hrk) in Hin'.
    rewrite (eitems_binary _ _ _ _ _ Hb), <- app_assoc. cbn [app]. rewrite (rtree_binary _ _ _ _ _ Hb) in HC.
    pose proof (rrank_spec lvl l Fl) as Hrl. pose proof (rrank_spec lvl r Fr) as Hrr.
    destruct (ref_rtl (hdef e)) eqn:Hrtl; destruct Hc as [Hl Hr].
    + (* right to left: pair *)
      rewrite (prio_ltb lvl l _ Fl F) in Hl. rewrite (prio_leb lvl r _ Fr F) in Hr. apply N.ltb_lt in Hl. apply N.leb_le in Hr.
      rewrite andb_true_r in Hin'.
      assert (Hq : rrank e <= q).
      { apply orb_true_iff in Hin'. destruct Hin' as [H|H]; [apply N.ltb_lt in H; lia|apply N.eqb_eq in H; lia]. }
      apply (IH l); [apply Sl|exact Fl|exact Pl| | |].
      * intros _. rewrite (inside_spec _ _ _ Hrl). apply orb_true_iff. left. apply N.ltb_lt. lia.
      * cbn [stops]. rewrite (inside_spec _ _ _ Hrk). apply orb_false_iff. split; [apply N.ltb_ge; lia|].
        destruct (N.eqb_spec (rrank e) (rrank l)); [lia|reflexivity].
      * eapply C_bin_in; [exact Hin|exact Hrk| |exact HC].
        apply (IH r); [apply Sl|exact Fr|exact Pr| | |].
        -- intros _. rewrite (inside_spec _ _ _ Hrr).
           destruct (N.ltb_spec (rrank r) (rrank e)) as [Hlt|Hge]; [reflexivity|].
           assert (E : rrank r = rrank e) by lia. rewrite E, N.eqb_refl. cbn [orb andb].
           pose proof (rtl_is_pair _ Hrtl) as Ep. rewrite Ep in Hrk. rewrite E, <- Hrk in Hrr.
           rewrite (rank_of_pair_unique _ Hrr). reflexivity.
        -- eapply stops_mono; [|exact Hstop]. exact Hr.
        -- apply stops_done. exact Hstop.
    + (* left to right *)
      rewrite (prio_leb lvl l _ Fl F) in Hl. rewrite (prio_ltb lvl r _ Fr F) in Hr. apply N.leb_le in Hl. apply N.ltb_lt in Hr.
      rewrite andb_false_r, orb_false_r in Hin'. apply N.ltb_lt in Hin'.
      apply (IH l); [apply Sl|exact Fl|exact Pl| | |].
      * intros _. rewrite (inside_spec _ _ _ Hrl). apply orb_true_iff. left. apply N.ltb_lt. lia.
      * cbn [stops]. rewrite (inside_spec _ _ _ Hrk), Hrtl, andb_false_r, orb_false_r. apply N.ltb_ge. exact Hl.
      * eapply C_bin_in; [exact Hin|exact Hrk| |exact HC].
        apply (IH r); [apply Sl|exact Fr|exact Pr| | |].
        -- intros _. rewrite (inside_spec _ _ _ Hrr). apply orb_true_iff. left. apply N.ltb_lt. exact Hr.
        -- eapply stops_mono; [|exact Hstop]. lia.
        -- apply stops_done. exact Hstop.
Qed.

(* the reference parser on the printed tokens *)
Theorem pratt_printed lvl e : efrag lvl e = true -> paren_ok e = true ->
  pratt (ttoks e) = Some (rtree_of_expr e 0).
Proof.
  intros F P. unfold pratt. rewrite (items_of_printed lvl e F).
  assert (HC : Climb INF None (eitems e 0) (rtree_of_expr e 0) []).
  { rewrite <- (app_nil_r (eitems e 0)).
    apply (climb_expr_n lvl (S (size e)) e); [lia|exact F|exact P| |exact I|apply C_end].
    intros _. eapply inside_INF; [apply (rrank_spec lvl e F)|apply (rrank_lt_INF lvl e F)]. }
  apply Climb_sound in HC. destruct HC as [_ HC]. rewrite HC; [reflexivity|lia].
Qed.
