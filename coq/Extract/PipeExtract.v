(* Extraction of the parser and worklist-builder models (ExtrOcamlBasic only). *)
Require Import ExtrOcamlBasic.
From Coq Require Import List NArith ZArith.
From GV Require Import Base.Result Gen.TokenTypes Gen.Defs Gen.Instr Model.Parser Model.BuilderWL Spec.RefTable Spec.Pratt.
Cd "../build/ocaml".
Extraction "pipe_model.ml" parse trim_tokens build build_fuel empty_init all_token_type
  definition_index secondary_index instruction_index token_type_index Z.of_N N.of_nat N.to_nat
  pratt c02_agree.
Cd "../../coq".
