(* C18, result half for parentheses: Group nodes emit nothing.
   A simulation on the tree compiler of Model/Compile.v: a labelled tree t' that is
   t with (a) Group nodes inserted above sub-trees at positions where the builder's
   behaviour does not depend on the child's definition ([neutral]) and (b) node
   indices renamed (literal oracle and data labels agreeing on corresponding nodes)
   compiles to the same instruction stream -- data operands compared through the
   labels -- and the same jump table. *)
From Coq Require Import List Arith Bool NArith Lia.
From GV Require Import Base.Result Gen.TokenTypes Gen.Defs Gen.Instr Model.Parser Model.BuilderWL Model.Compile
  Proofs.C05.InlBase.
Import ListNotations.

(* the context a node hands to its inline children: the list it flattens into, and
   whether it is a conditional parent *)
Definition clo (d : definition) : option definition := match kind_of d with KList => Some d | _ => None end.
Definition ccl (d : definition) : bool := match kind_of d with KLogical _ | KElse => true | _ => false end.
Definition ccr (d : definition) : bool := match kind_of d with KElse => true | _ => false end.

(* THE SIDE CONDITION.  A Group node may be put above a node with definition [d] that
   stands in the context (flattening list [lo], conditional parent [cond]) iff
   - it is not a list of the kind its parent flattens (the parent would take its items
     as its own: `a b c` against `(a b) c`), and
   - it is not a conditional / else link under a conditional parent (it would register
     its arm with the else-chain head: `a ?> b |> c ?> d` against `a ?> b |> (c ?> d)`,
     or be the left operand of && / ||). *)
Definition neutral (lo : option definition) (cond : bool) (d : definition) : bool :=
  negb (match lo with Some d0 => definition_eqb d0 d | None => false end) &&
  (negb cond || match kind_of d with KJumpIf _ | KElse => false | _ => true end).

(* the nodes whose index becomes a data operand (and whose literal is parsed) *)
Definition uses_data (d : definition) : bool :=
  match kind_of d with KValue _ true | KFixApply _ | KInfix => true | _ => false end.

(* data operands seen through a labelling of the nodes *)
Definition ren (f : nat -> nat) (i : instr) : instr :=
  match snd i with OData n => (fst i, OData (f n)) | _ => i end.

Definition rrel {A} (R : A -> A -> Prop) (a' a : res A) : Prop :=
  match a', a with
  | Ok x', Ok x => R x' x
  | Err e', Err e => e' = e
  | Panic p', Panic p => p' = p
  | OutOfFuel, OutOfFuel => True
  | _, _ => False
  end.

Lemma definition_eqb_eq : forall d d', definition_eqb d d' = true -> d = d'.
Proof. intros [] []; intros H; try reflexivity; vm_compute in H; discriminate H. Qed.
Lemma definition_eqb_sym : forall a b, definition_eqb a b = definition_eqb b a.
Proof. intros a b. unfold definition_eqb. apply N.eqb_sym. Qed.

Lemma Forall2_rev {A B} (R : A -> B -> Prop) : forall l l', Forall2 R l l' -> Forall2 R (rev l) (rev l').
Proof. induction 1; cbn; [constructor|]. apply Forall2_app; [assumption|constructor; [assumption|constructor]]. Qed.

Section Sim.
Variable init : binit.
Variables lit' lit : nat -> bool.
Variables f' f : nat -> nat.

(* t' is t with neutral Group nodes inserted and indices renamed *)
Fixpoint grel (lo : option definition) (cond : bool) (t' t : tree) {struct t'} : Prop :=
  match t' with
  | T ix' d' l' r' =>
    (match t with
     | T ix d l r =>
       d' = d /\ (uses_data d = true -> f' ix' = f ix) /\ (uses_data d = true -> lit' ix' = lit ix) /\
       match l', l with
       | Some a', Some a => grel (clo d) (ccl d) a' a
       | None, None => True
       | _, _ => False
       end /\
       match r', r with
       | Some b', Some b => grel (clo d) (ccr d) b' b
       | None, None => True
       | _, _ => False
       end
     end)
    \/ (d' = D_Group /\ l' = None /\
        match r' with
        | Some u' => neutral lo cond (t_def t) = true /\ grel None false u' t
        | None => False
        end)
  end.

Definition veq (s' s : cst) : Prop := map (ren f') (ci s') = map (ren f) (ci s) /\ cj s' = cj s.

Definition plain_end (e : instr) : Prop := match snd e with OData _ => False | _ => True end.

Definition prel (p' p : pend) : Prop :=
  grel None false (p_tree p') (p_tree p) /\ p_containing p' = p_containing p /\ p_jump p' = p_jump p /\
  p_end p' = p_end p /\ Forall plain_end (p_end p).
Definition irel (x' x : tree * nat) : Prop := grel None false (fst x') (fst x) /\ snd x' = snd x.

Definition outrel (x' x : out) : Prop :=
  match x', x with
  | (s', p', i'), (s, p, i) => veq s' s /\ Forall2 prel p' p /\ Forall2 irel i' i
  end.

Lemma veq_il s' s : veq s' s -> il init s' = il init s.
Proof. intros [H _]. unfold il. f_equal. apply (f_equal (@length _)) in H. rewrite !map_length in H. exact H. Qed.
Lemma veq_jl s' s : veq s' s -> jl init s' = jl init s.
Proof. intros [_ H]. unfold jl. rewrite H. reflexivity. Qed.
Lemma veq_emit s' s i' i m' m : veq s' s -> ren f' i' = ren f i -> veq (emit s' i' m') (emit s i m).
Proof. intros [H1 H2] Hi. split; cbn [emit ci cj]; [|exact H2]. rewrite !map_app, H1. cbn [map]. rewrite Hi. reflexivity. Qed.
Lemma veq_emit_same s' s i m' m : plain_end i -> veq s' s -> veq (emit s' i m') (emit s i m).
Proof. intros Hp Hv. apply veq_emit; [exact Hv|]. unfold ren. destruct i as [a [| | |]]; cbn in *; try reflexivity. contradiction. Qed.
Lemma veq_new_jump s' s x : veq s' s -> veq (new_jump s' x) (new_jump s x).
Proof. intros [H1 H2]. split; cbn [new_jump ci cj]; [exact H1|]. rewrite H2. reflexivity. Qed.
Lemma veq_patch s' s k x : veq s' s -> rrel veq (patch init s' k x) (patch init s k x).
Proof.
  intros [H1 H2]. unfold patch. destruct (Nat.ltb k (i_jump_len init)); [reflexivity|]. rewrite H2.
  destruct (upd (cj s) (k - i_jump_len init) (fun _ => x)); cbn; [|reflexivity]. split; [exact H1|reflexivity].
Qed.

Lemma ret_rel s' s : veq s' s -> rrel outrel (ret s') (ret s).
Proof. intros H. cbn. repeat split; try apply H; constructor. Qed.

Lemma seq2_rel a' a g' g : rrel outrel a' a -> (forall s' s, veq s' s -> rrel outrel (g' s') (g s)) ->
  rrel outrel (seq2 a' g') (seq2 a g).
Proof.
  unfold seq2. destruct a' as [[[s1' p1'] i1']|e'|q'|], a as [[[s1 p1] i1]|e|q|]; cbn; try tauto.
  intros (Hv & Hp & Hi) Hg. specialize (Hg _ _ Hv).
  destruct (g' s1') as [[[s2' p2'] i2']|e'|q'|], (g s1) as [[[s2 p2] i2]|e|q|]; cbn in *; try tauto.
  destruct Hg as (Hv2 & Hp2 & Hi2). repeat split; try apply Hv2; apply Forall2_app; assumption.
Qed.

Lemma drop_items_rel a' a : rrel outrel a' a -> rrel outrel (drop_items a') (drop_items a).
Proof.
  unfold drop_items. destruct a' as [[[s1' p1'] i1']|e'|q'|], a as [[[s1 p1] i1]|e|q|]; cbn; try tauto.
  intros (Hv & Hp & Hi). repeat split; try apply Hv; try assumption. constructor.
Qed.

(* ---- a neutral node does not look at the list / conditional part of its context ---- *)
Lemma neutral_blind lo cond t rj c s :
  neutral lo cond (t_def t) = true ->
  inl init lit rj t (mkCx c lo cond) s = inl init lit rj t (mkCx c None false) s.
Proof.
  destruct t as [ix d l r]. cbn [t_def]. unfold neutral. intros H. apply andb_true_iff in H. destruct H as [H1 H2].
  apply negb_true_iff in H1.
  cbn [inl]. cbn [cx_containing cx_list cx_cond]. destruct (kind_of d) eqn:K; try reflexivity.
  - rewrite H1. reflexivity.
  - cbn in H2. rewrite orb_false_r in H2. apply negb_true_iff in H2. subst cond. reflexivity.
  - cbn in H2. rewrite orb_false_r in H2. apply negb_true_iff in H2. subst cond. reflexivity.
Qed.

Lemma count_rel d : kind_of d = KList -> forall a' a cond, grel (Some d) cond a' a -> count_items d a' = count_items d a.
Proof.
  intros Kd. induction a' as [ix' d' l' r' IHl IHr] using tree_ind'. intros [ix d0 l r] cond H.
  cbn [grel] in H. destruct H as [(-> & _ & _ & Hl & Hr)|(-> & -> & H)].
  - cbn [count_items]. destruct (definition_eqb d0 d) eqn:E; [|reflexivity].
    apply definition_eqb_eq in E. subst d0. unfold clo in Hl, Hr. rewrite Kd in Hl, Hr.
    f_equal.
    + destruct l' as [a'|], l as [a|]; try contradiction; [|reflexivity]. eapply IHl; [reflexivity|exact Hl].
    + destruct r' as [b'|], r as [b|]; try contradiction; [|reflexivity]. eapply IHr; [reflexivity|exact Hr].
  - destruct r' as [u'|]; [|contradiction]. destruct H as [Hn _].
    cbn [count_items]. assert (Eg : definition_eqb D_Group d = false).
    { destruct (definition_eqb D_Group d) eqn:E; [|reflexivity]. apply definition_eqb_eq in E. subst d. discriminate Kd. }
    rewrite Eg. cbn [t_def] in Hn. unfold neutral in Hn. apply andb_true_iff in Hn. destruct Hn as [Hn _].
    apply negb_true_iff in Hn. rewrite definition_eqb_sym, Hn. reflexivity.
Qed.

Definition orel (lo : option definition) (cond : bool) (o' o : option tree) : Prop :=
  match o', o with
  | Some a', Some a => grel lo cond a' a
  | None, None => True
  | _, _ => False
  end.

Definition P (a' : tree) : Prop :=
  forall t lo cond, grel lo cond a' t -> forall rj' rj c s' s, veq s' s ->
    rrel outrel (inl init lit' rj' a' (mkCx c lo cond) s') (inl init lit rj t (mkCx c lo cond) s).

Lemma sub_rel lo cond o' o rj' rj c s' s :
  orel lo cond o' o -> (forall a', o' = Some a' -> P a') -> veq s' s ->
  rrel outrel (match o' with None => ret s' | Some t' => inl init lit' rj' t' (mkCx c lo cond) s' end)
              (match o with None => ret s | Some t0 => inl init lit rj t0 (mkCx c lo cond) s end).
Proof.
  intros Ho IH Hv. destruct o' as [a'|], o as [a|]; cbn in Ho; try contradiction.
  - apply (IH a' eq_refl); assumption.
  - apply ret_rel; assumption.
Qed.

Lemma req_rel lo cond o' o rj' rj c s' s :
  orel lo cond o' o -> (forall a', o' = Some a' -> P a') -> veq s' s ->
  rrel outrel (match o' with None => cerr | Some t' => inl init lit' rj' t' (mkCx c lo cond) s' end)
              (match o with None => cerr | Some t0 => inl init lit rj t0 (mkCx c lo cond) s end).
Proof.
  intros Ho IH Hv. destruct o' as [a'|], o as [a|]; cbn in Ho; try contradiction.
  - apply (IH a' eq_refl); assumption.
  - reflexivity.
Qed.

Lemma orel_present lo cond o' o : orel lo cond o' o -> present o' = present o.
Proof. destruct o', o; cbn; tauto. Qed.

Lemma ren_data ix' ix i : f' ix' = f ix -> ren f' (i, OData ix') = ren f (i, OData ix).
Proof. intros H. unfold ren. cbn. rewrite H. reflexivity. Qed.

Ltac plain_emit := apply veq_emit_same; [exact I|].

Theorem inl_sim : forall a', P a'.
Proof.
  induction a' as [ix' d' l' r' IHl IHr] using tree_ind'. intros [ix d l r] lo cond H rj' rj c s' s Hv.
  cbn [grel] in H. destruct H as [(-> & Hf & Hlit & Hl & Hr)|(-> & -> & H)].
  2:{ destruct r' as [u'|]; [|contradiction]. destruct H as [Hn Hg].
      rewrite (neutral_blind lo cond _ rj c s Hn).
      cbn [inl kind_of]. apply (IHr u' eq_refl _ None false Hg); assumption. }
  fold (orel (clo d) (ccl d) l' l) in Hl. fold (orel (clo d) (ccr d) r' r) in Hr.
  pose proof (orel_present _ _ _ _ Hl) as Hpl. pose proof (orel_present _ _ _ _ Hr) as Hpr.
  cbn [inl]. cbn [cx_containing cx_list cx_cond]. unfold plain.
  unfold clo, ccl, ccr in Hl, Hr. unfold uses_data in Hf, Hlit.
  destruct (kind_of d) eqn:K.
  - (* KValue *)
    apply seq2_rel; [apply sub_rel; assumption|]. intros s1' s1 Hv1.
    destruct with_data; cbn [andb].
    + rewrite (Hlit eq_refl). destruct (negb (lit ix)); [reflexivity|].
      apply sub_rel; try assumption. apply veq_emit; [assumption|]. apply ren_data; apply Hf; reflexivity.
    + apply sub_rel; try assumption. apply veq_emit; [assumption|reflexivity].
  - (* KUnary *)
    destruct child_right.
    + apply seq2_rel; [apply req_rel; assumption|]. intros s1' s1 Hv1. apply ret_rel. plain_emit. assumption.
    + apply seq2_rel; [apply req_rel; assumption|]. intros s1' s1 Hv1. apply sub_rel; try assumption. plain_emit. assumption.
  - (* KBinary *)
    rewrite Hpl, Hpr. destruct (negb (present r && present l)); [reflexivity|].
    destruct right_first.
    + apply seq2_rel; [apply req_rel; assumption|]. intros s1' s1 Hv1.
      apply seq2_rel; [apply req_rel; assumption|]. intros s2' s2 Hv2. apply ret_rel. plain_emit. assumption.
    + apply seq2_rel; [apply req_rel; assumption|]. intros s1' s1 Hv1.
      apply seq2_rel; [apply req_rel; assumption|]. intros s2' s2 Hv2. apply ret_rel. plain_emit. assumption.
  - (* KList *)
    apply seq2_rel; [apply sub_rel; assumption|]. intros s1' s1 Hv1.
    apply seq2_rel; [apply sub_rel; assumption|]. intros s2' s2 Hv2.
    destruct (match lo with Some d'0 => definition_eqb d'0 d | None => false end); [apply ret_rel; assumption|].
    apply ret_rel.
    assert (Hc : list_count (T ix' d l' r') = list_count (T ix d l r)).
    { cbn [list_count]. f_equal.
      - destruct l' as [x'|], l as [x|]; cbn in Hl; try contradiction; [|reflexivity]. eapply count_rel; eassumption.
      - destruct r' as [x'|], r as [x|]; cbn in Hr; try contradiction; [|reflexivity]. eapply count_rel; eassumption. }
    rewrite Hc. plain_emit. assumption.
  - (* KLogical *)
    apply seq2_rel; [apply drop_items_rel, req_rel; assumption|]. intros s1' s1 Hv1.
    destruct r' as [rt'|], r as [rt|]; cbn in Hr; try contradiction; [|reflexivity].
    cbn [rrel outrel]. rewrite (veq_jl _ _ Hv1).
    assert (Hv3 : veq (emit (new_jump s1' 0) (i, ONum (jl init s1)) (Some ix')) (emit (new_jump s1 0) (i, ONum (jl init s1)) (Some ix))).
    { plain_emit. apply veq_new_jump. assumption. }
    rewrite (veq_jl _ _ Hv3), (veq_il _ _ Hv3).
    split; [apply veq_new_jump; assumption|]. split; [|constructor].
    constructor; [|constructor]. unfold prel. cbn [p_tree p_containing p_jump p_end].
    repeat split; try assumption. repeat constructor.
  - (* KGroup *)
    apply sub_rel; assumption.
  - (* KSideEffect *)
    apply seq2_rel; [apply sub_rel; assumption|]. intros s1' s1 Hv1.
    apply seq2_rel; [apply sub_rel; try assumption; plain_emit; assumption|]. intros s2' s2 Hv2.
    apply ret_rel. plain_emit. assumption.
  - (* KNested *)
    destruct r' as [rt'|], r as [rt|]; cbn in Hr; try contradiction.
    + cbn [rrel outrel]. rewrite (veq_jl _ _ Hv).
      split; [plain_emit; apply veq_new_jump; assumption|]. split; [|constructor].
      constructor; [|constructor]. unfold prel. cbn [p_tree p_containing p_jump p_end].
      repeat split; try assumption. repeat constructor.
    + apply ret_rel. plain_emit. assumption.
  - (* KJumpIf *)
    apply seq2_rel; [apply req_rel; assumption|]. intros s1' s1 Hv1.
    destruct r' as [rt'|], r as [rt|]; cbn in Hr; try contradiction; [|reflexivity].
    rewrite (veq_jl _ _ Hv1).
    assert (Hv3 : veq (emit (new_jump s1' 0) (i, ONum (jl init s1)) (Some ix')) (emit (new_jump s1 0) (i, ONum (jl init s1)) (Some ix))).
    { plain_emit. apply veq_new_jump. assumption. }
    destruct cond.
    + cbn [rrel outrel]. split; [assumption|]. split; [constructor|]. constructor; [|constructor]. split; [assumption|reflexivity].
    + assert (Hv4 : veq (emit (emit (new_jump s1' 0) (i, ONum (jl init s1)) (Some ix')) (I_PutValue, ONone) None)
                        (emit (emit (new_jump s1 0) (i, ONum (jl init s1)) (Some ix)) (I_PutValue, ONone) None)).
      { plain_emit. assumption. }
      cbn [rrel outrel]. rewrite (veq_jl _ _ Hv4), (veq_il _ _ Hv4).
      split; [apply veq_new_jump; assumption|]. split; [|constructor].
      constructor; [|constructor]. unfold prel. cbn [p_tree p_containing p_jump p_end].
      repeat split; try assumption. repeat constructor.
  - (* KElse *)
    rewrite Hpl, Hpr. destruct (negb (present r && present l)); [reflexivity|].
    assert (Hx : rrel outrel
      (seq2 (match l' with Some t' => inl init lit' rj' t' (mkCx c None true) s' | None => cerr end)
            (fun s1 => match r' with Some t' => inl init lit' rj' t' (mkCx c None true) s1 | None => cerr end))
      (seq2 (match l with Some t' => inl init lit rj t' (mkCx c None true) s | None => cerr end)
            (fun s1 => match r with Some t' => inl init lit rj t' (mkCx c None true) s1 | None => cerr end))).
    { apply seq2_rel; [apply req_rel; assumption|]. intros s1' s1 Hv1. apply req_rel; assumption. }
    destruct (seq2 (match l' with Some t' => inl init lit' rj' t' (mkCx c None true) s' | None => cerr end) _) as [[[s2' ps'] its']|e'|q'|];
    destruct (seq2 (match l with Some t' => inl init lit rj t' (mkCx c None true) s | None => cerr end) _) as [[[s2 ps] its]|e|q|];
      cbn [rrel outrel] in Hx; try contradiction; cbn [bind]; try assumption.
    destruct Hx as (Hv2 & Hps & Hits).
    destruct cond; [cbn; auto|].
    destruct Hits as [|it' it its' its Hit Hits]; [cbn; repeat split; try apply Hv2; auto|].
    cbn [rrel outrel]. rewrite (veq_jl _ _ Hv2), (veq_il _ _ Hv2).
    split; [apply veq_new_jump; assumption|]. split; [|constructor].
    apply Forall2_app; [assumption|].
    assert (Hall : Forall2 irel (it' :: its') (it :: its)) by (constructor; assumption).
    clear -Hall. induction Hall as [|x' x m' m Hx Hm IH]; cbn [map]; constructor; [|exact IH].
    destruct Hx as [Hx1 Hx2]. unfold prel. cbn [p_tree p_containing p_jump p_end]. repeat split; try assumption. repeat constructor.
  - (* KReapply *)
    apply seq2_rel; [apply req_rel; assumption|]. intros s1' s1 Hv1. apply ret_rel. plain_emit. plain_emit. assumption.
  - (* KSubexpr *)
    rewrite Hpl, Hpr. destruct (negb (present r && present l)); [reflexivity|].
    apply seq2_rel; [apply req_rel; assumption|]. intros s1' s1 Hv1. apply req_rel; try assumption. plain_emit. assumption.
  - (* KFixApply *)
    rewrite (Hlit eq_refl). destruct (negb (lit ix)); [reflexivity|].
    assert (Hv1 : veq (emit s' (I_Resolve, OData ix') None) (emit s (I_Resolve, OData ix) None)).
    { apply veq_emit; [assumption|apply ren_data; apply Hf; reflexivity]. }
    destruct child_right.
    + apply seq2_rel; [apply req_rel; assumption|]. intros s2' s2 Hv2. apply ret_rel. plain_emit. assumption.
    + apply seq2_rel; [apply req_rel; assumption|]. intros s2' s2 Hv2. apply sub_rel; try assumption. plain_emit. assumption.
  - (* KInfix *)
    rewrite (Hlit eq_refl). destruct (negb (lit ix)); [reflexivity|].
    assert (Hv1 : veq (emit s' (I_Resolve, OData ix') None) (emit s (I_Resolve, OData ix) None)).
    { apply veq_emit; [assumption|apply ren_data; apply Hf; reflexivity]. }
    rewrite Hpl, Hpr. destruct (negb (present r && present l)); [reflexivity|].
    apply seq2_rel; [apply req_rel; assumption|]. intros s2' s2 Hv2.
    apply seq2_rel; [apply req_rel; assumption|]. intros s3' s3 Hv3. apply ret_rel. plain_emit. plain_emit. assumption.
  - reflexivity.
Qed.

(* ---- bodies ---- *)
Lemma instr_eqb_ren a b e : ren f' a = ren f b -> plain_end e -> instr_eqb a e = instr_eqb b e.
Proof.
  destruct a as [ia [|na|na|na]], b as [ib [|nb|nb|nb]], e as [ie [|ne|ne|ne]]; unfold ren, plain_end, instr_eqb; cbn;
    intros H Hp; try contradiction; try (inversion H; subst; reflexivity); rewrite ?andb_false_r; reflexivity.
Qed.

Lemma last_cmp s' s e : veq s' s -> plain_end e ->
  option_map (fun li => instr_eqb li e) (last_instr init s') = option_map (fun li => instr_eqb li e) (last_instr init s).
Proof.
  intros [H _] He. unfold last_instr. apply (f_equal (@rev _)) in H. rewrite <- !map_rev in H.
  destruct (rev (ci s')) as [|a ra], (rev (ci s)) as [|b rb]; cbn in H; try discriminate H.
  - reflexivity.
  - inversion H. cbn. f_equal. apply instr_eqb_ren; assumption.
Qed.

Definition fin_step (last : option instr) (tg : bool) (acc : cst) (e : instr) : cst :=
  match last with
  | Some li => if instr_eqb li e && instruction_eqb (fst e) I_EndExpression && negb tg then acc else emit acc e None
  | None => emit acc e None
  end.

Lemma finish_fold last' last tg ends :
  (forall e, plain_end e -> option_map (fun li => instr_eqb li e) last' = option_map (fun li => instr_eqb li e) last) ->
  Forall plain_end ends -> forall acc' acc, veq acc' acc ->
  veq (fold_left (fin_step last' tg) ends acc') (fold_left (fin_step last tg) ends acc).
Proof.
  intros Hl He. induction He as [|e ends Hp He IH]; intros acc' acc Hv; cbn [fold_left]; [assumption|].
  apply IH. specialize (Hl e Hp). unfold fin_step.
  destruct last' as [li'|], last as [li|]; cbn in Hl; try discriminate Hl.
  - injection Hl as Hl. rewrite Hl. destruct (instr_eqb li e && instruction_eqb (fst e) I_EndExpression && negb tg); [assumption|].
    apply veq_emit_same; assumption.
  - apply veq_emit_same; assumption.
Qed.

Lemma finish_rel s' s ends : veq s' s -> Forall plain_end ends -> veq (finish init s' ends) (finish init s ends).
Proof.
  intros Hv He. unfold finish. rewrite (veq_il _ _ Hv). replace (cj s') with (cj s) by (symmetry; apply Hv).
  apply (finish_fold (last_instr init s') (last_instr init s)); try assumption.
  intros e Hp. apply last_cmp; assumption.
Qed.

Definition foldrun (lt : nat -> bool) (fuel : nat) (ps : list pend) (a : res cst) : res cst :=
  fold_left (fun (acc : res cst) (q : pend) => do x <- acc; run_body init lt fuel q x) ps a.

Lemma foldrun_rel fuel :
  (forall p' p s' s, prel p' p -> veq s' s -> rrel veq (run_body init lit' fuel p' s') (run_body init lit fuel p s)) ->
  forall ps' ps, Forall2 prel ps' ps -> forall a' a, rrel veq a' a -> rrel veq (foldrun lit' fuel ps' a') (foldrun lit fuel ps a).
Proof.
  intros IH ps' ps Hps. unfold foldrun. induction Hps as [|p' p m' m Hp Hm IHm]; intros a' a Ha; cbn [fold_left]; [assumption|].
  apply IHm. destruct a' as [x'|e'|q'|], a as [x|e|q|]; cbn in Ha |- *; try contradiction; try assumption.
  apply IH; assumption.
Qed.

Theorem run_body_rel : forall fuel p' p s' s, prel p' p -> veq s' s ->
  rrel veq (run_body init lit' fuel p' s') (run_body init lit fuel p s).
Proof.
  induction fuel as [|fu IH]; intros p' p s' s Hp Hv; [exact I|].
  destruct Hp as (Hg & Hc & Hj & He & Hpe). cbn [run_body]. rewrite Hc, Hj, He, (veq_il _ _ Hv).
  pose proof (veq_patch _ _ (p_jump p) (il init s) Hv) as Hpa.
  destruct (patch init s' (p_jump p) (il init s)) as [s1'|e'|q'|], (patch init s (p_jump p) (il init s)) as [s1|e|q|];
    cbn in Hpa; try contradiction; cbn [bind]; try assumption.
  pose proof (inl_sim _ _ None false Hg (p_jump p) (p_jump p) (p_containing p) _ _ Hpa) as Hi. fold (plain (p_containing p)) in Hi.
  destruct (inl init lit' (p_jump p) (p_tree p') (plain (p_containing p)) s1') as [[[s2' ps'] its']|e'|q'|],
           (inl init lit (p_jump p) (p_tree p) (plain (p_containing p)) s1) as [[[s2 ps] its]|e|q|];
    cbn in Hi; try contradiction; cbn [bind]; try assumption.
  destruct Hi as (Hv2 & Hps & _).
  apply (foldrun_rel fu IH); [apply Forall2_rev; assumption|]. cbn [rrel]. apply finish_rel; assumption.
Qed.

(* ---- the whole build ---- *)
Lemma foldrun_err lt fuel ps a : (forall x, a <> Ok x) -> foldrun lt fuel ps a = a.
Proof.
  unfold foldrun. revert a. induction ps as [|p m IH]; intros a Ha; [reflexivity|]. cbn [fold_left].
  destruct a as [x|e|q|]; [exfalso; eapply Ha; reflexivity| | |]; cbn [bind]; apply IH; intros x; discriminate.
Qed.

Lemma run_body_more lt : forall f1 f2 p s x, f1 <= f2 -> run_body init lt f1 p s = Ok x -> run_body init lt f2 p s = Ok x.
Proof.
  induction f1 as [|f1 IH]; intros f2 p s x Hle H; [discriminate H|].
  destruct f2 as [|f2]; [lia|]. cbn [run_body] in H |- *.
  destruct (patch init s (p_jump p) (il init s)) as [s1| | |]; try discriminate H. cbn [bind] in H |- *.
  destruct (inl init lt (p_jump p) (p_tree p) (plain (p_containing p)) s1) as [[[s2 ps] its]| | |]; try discriminate H.
  cbn [bind] in H |- *.
  fold (foldrun lt f1 (rev ps) (Ok (finish init s2 (p_end p)))) in H. fold (foldrun lt f2 (rev ps) (Ok (finish init s2 (p_end p)))).
  revert H. generalize (Ok (finish init s2 (p_end p))). generalize (rev ps). clear -IH Hle.
  induction l as [|q m IHm]; intros a H; [exact H|].
  unfold foldrun in *. cbn [fold_left] in H |- *.
  destruct a as [y|e|k|].
  - cbn [bind] in H |- *. destruct (run_body init lt f1 q y) as [z|e|k|] eqn:E.
    + rewrite (IH f2 q y z ltac:(lia) E). apply IHm. exact H.
    + exfalso. fold (foldrun lt f1 m (Err e)) in H. rewrite foldrun_err in H by (intros ?; discriminate). discriminate H.
    + exfalso. fold (foldrun lt f1 m (Panic k)) in H. rewrite foldrun_err in H by (intros ?; discriminate). discriminate H.
    + exfalso. fold (foldrun lt f1 m (@OutOfFuel cst)) in H. rewrite foldrun_err in H by (intros ?; discriminate). discriminate H.
  - exfalso. cbn [bind] in H. fold (foldrun lt f1 m (Err e)) in H. rewrite foldrun_err in H by (intros ?; discriminate). discriminate H.
  - exfalso. cbn [bind] in H. fold (foldrun lt f1 m (Panic k)) in H. rewrite foldrun_err in H by (intros ?; discriminate). discriminate H.
  - exfalso. cbn [bind] in H. fold (foldrun lt f1 m (@OutOfFuel cst)) in H. rewrite foldrun_err in H by (intros ?; discriminate). discriminate H.
Qed.

Lemma foldrun_more lt f1 f2 : f1 <= f2 -> forall ps a x, foldrun lt f1 ps a = Ok x -> foldrun lt f2 ps a = Ok x.
Proof.
  intros Hle. unfold foldrun. induction ps as [|q m IHm]; intros a x H; [exact H|]. cbn [fold_left] in H |- *.
  destruct a as [y|e|k|]; cbn [bind] in H |- *.
  - destruct (run_body init lt f1 q y) as [z|e|k|] eqn:E.
    + rewrite (run_body_more lt f1 f2 q y z Hle E). apply IHm. exact H.
    + exfalso. fold (foldrun lt f1 m (Err e)) in H. rewrite foldrun_err in H by (intros ?; discriminate). discriminate H.
    + exfalso. fold (foldrun lt f1 m (Panic k)) in H. rewrite foldrun_err in H by (intros ?; discriminate). discriminate H.
    + exfalso. fold (foldrun lt f1 m (@OutOfFuel cst)) in H. rewrite foldrun_err in H by (intros ?; discriminate). discriminate H.
  - exfalso. fold (foldrun lt f1 m (Err e)) in H. rewrite foldrun_err in H by (intros ?; discriminate). discriminate H.
  - exfalso. fold (foldrun lt f1 m (Panic k)) in H. rewrite foldrun_err in H by (intros ?; discriminate). discriminate H.
  - exfalso. fold (foldrun lt f1 m (@OutOfFuel cst)) in H. rewrite foldrun_err in H by (intros ?; discriminate). discriminate H.
Qed.

Lemma grel_size : forall t' t lo cond, grel lo cond t' t -> size t <= size t'.
Proof.
  induction t' as [ix' d' l' r' IHl IHr] using tree_ind'. intros [ix d l r] lo cond H.
  cbn [grel] in H. destruct H as [(-> & _ & _ & Hl & Hr)|(-> & -> & H)].
  - cbn [size]. apply le_n_S. apply Nat.add_le_mono.
    + destruct l' as [a'|], l as [a|]; try contradiction; [|lia]. eapply IHl; [reflexivity|exact Hl].
    + destruct r' as [b'|], r as [b|]; try contradiction; [|lia]. eapply IHr; [reflexivity|exact Hr].
  - destruct r' as [u'|]; [|contradiction]. destruct H as [_ Hg]. pose proof (IHr u' eq_refl _ _ _ Hg) as Hs.
    cbn [size] in *. lia.
Qed.

(* whenever the tree without the extra groups compiles, so does the one with them: same
   entry, same jump table, same instructions (data operands through the labels) *)
Theorem compile_sim t' t c e : grel None false t' t -> compile init lit t = Ok (c, e) ->
  exists c', compile init lit' t' = Ok (c', e) /\ veq c' c.
Proof.
  intros Hg H. unfold compile in *.
  set (s1 := new_jump (mkC [] [] []) (il init (mkC [] [] []))) in *.
  assert (Hv1 : veq s1 s1) by (split; reflexivity).
  pose proof (inl_sim _ _ None false Hg (i_jump_len init) (i_jump_len init) (i_jump_len init) _ _ Hv1) as Hi.
  fold (plain (i_jump_len init)) in Hi.
  destruct (inl init lit (i_jump_len init) t (plain (i_jump_len init)) s1) as [[[s2 ps] its]|e0|q|]; try discriminate H.
  destruct (inl init lit' (i_jump_len init) t' (plain (i_jump_len init)) s1) as [[[s2' ps'] its']|e0'|q'|]; cbn in Hi; try contradiction.
  destruct Hi as (Hv2 & Hps & _). cbn [bind] in H |- *.
  fold (foldrun lit (size t) (rev ps) (Ok (finish init s2 default_end))) in H.
  fold (foldrun lit' (size t') (rev ps') (Ok (finish init s2' default_end))).
  destruct (foldrun lit (size t) (rev ps) (Ok (finish init s2 default_end))) as [s4|e0|q|] eqn:E; try discriminate H.
  cbn [bind] in H. injection H as <- <-.
  assert (Hf : rrel veq (foldrun lit' (size t) (rev ps') (Ok (finish init s2' default_end)))
                        (foldrun lit (size t) (rev ps) (Ok (finish init s2 default_end)))).
  { apply (foldrun_rel (size t) (run_body_rel (size t))); [apply Forall2_rev; assumption|].
    cbn [rrel]. apply finish_rel; [assumption|]. repeat constructor. }
  rewrite E in Hf.
  destruct (foldrun lit' (size t) (rev ps') (Ok (finish init s2' default_end))) as [s4'|e0|q|] eqn:E'; cbn in Hf; try contradiction.
  rewrite (foldrun_more lit' (size t) (size t') (grel_size _ _ _ _ Hg) _ _ _ E'). cbn [bind].
  exists s4'. split; [reflexivity|assumption].
Qed.
End Sim.

(* ---- one Group node inserted at a path (false = left child, true = right child) ---- *)
Fixpoint wrap_at (p : list bool) (g : nat) (t : tree) : option tree :=
  match p with
  | [] => Some (T g D_Group None (Some t))
  | b :: p' =>
    match t with
    | T ix d l r =>
      if b then match r with
                | Some x => option_map (fun x' => T ix d l (Some x')) (wrap_at p' g x)
                | None => None
                end
      else match l with
           | Some x => option_map (fun x' => T ix d (Some x') r) (wrap_at p' g x)
           | None => None
           end
    end
  end.

(* the context of the sub-tree at a path and its definition *)
Fixpoint ctx_at (p : list bool) (lo : option definition) (cond : bool) (t : tree) : option (option definition * bool * definition) :=
  match p with
  | [] => Some (lo, cond, t_def t)
  | b :: p' =>
    match t with
    | T ix d l r =>
      if b then match r with Some x => ctx_at p' (clo d) (ccr d) x | None => None end
      else match l with Some x => ctx_at p' (clo d) (ccl d) x | None => None end
    end
  end.

(* the boolean side condition of the insertion *)
Definition wrap_ok (p : list bool) (t : tree) : bool :=
  match ctx_at p None false t with
  | Some (lo, cond, d) => neutral lo cond d
  | None => false
  end.

Definition idn (n : nat) : nat := n.

Lemma ren_id l : map (ren idn) l = l.
Proof. induction l as [|[i [|n|n|n]] l IH]; cbn [map]; rewrite ?IH; reflexivity. Qed.

Lemma grel_refl lit : forall t lo cond, grel lit lit idn idn lo cond t t.
Proof.
  induction t as [ix d l r IHl IHr] using tree_ind'. intros lo cond. cbn [grel]. left.
  split; [reflexivity|]. split; [reflexivity|]. split; [reflexivity|]. split.
  - destruct l as [a|]; [apply (IHl a eq_refl)|exact I].
  - destruct r as [b|]; [apply (IHr b eq_refl)|exact I].
Qed.

Lemma grel_group_intro lit' lit f' f lo cond g u' t :
  neutral lo cond (t_def t) = true -> grel lit' lit f' f None false u' t ->
  grel lit' lit f' f lo cond (T g D_Group None (Some u')) t.
Proof. intros Hn Hg. cbn [grel]. right. split; [reflexivity|]. split; [reflexivity|]. split; assumption. Qed.

Lemma grel_node_intro lit' lit f' f lo cond ix' ix d l' l r' r :
  (uses_data d = true -> f' ix' = f ix) -> (uses_data d = true -> lit' ix' = lit ix) ->
  orel lit' lit f' f (clo d) (ccl d) l' l -> orel lit' lit f' f (clo d) (ccr d) r' r ->
  grel lit' lit f' f lo cond (T ix' d l' r') (T ix d l r).
Proof. intros Hf Hl Ha Hb. cbn [grel]. left. split; [reflexivity|]. split; [assumption|]. split; [assumption|]. split; assumption. Qed.

Lemma orel_refl lit lo cond o : orel lit lit idn idn lo cond o o.
Proof. destruct o as [a|]; [apply grel_refl|exact I]. Qed.

Lemma wrap_grel lit g : forall p t lo cond t',
  wrap_at p g t = Some t' ->
  match ctx_at p lo cond t with Some (lo', c', d) => neutral lo' c' d = true | None => False end ->
  grel lit lit idn idn lo cond t' t.
Proof.
  induction p as [|b p IH]; intros t lo cond t' Hw Hc.
  - cbn in Hw. injection Hw as <-. cbn [ctx_at] in Hc. apply grel_group_intro; [exact Hc|apply grel_refl].
  - destruct t as [ix d l r]. cbn [wrap_at ctx_at] in Hw, Hc. destruct b.
    + destruct r as [x|]; [|discriminate Hw]. destruct (wrap_at p g x) as [x'|] eqn:E; [|discriminate Hw].
      injection Hw as <-. apply grel_node_intro; try reflexivity; [apply orel_refl|]. apply (IH x _ _ x' E Hc).
    + destruct l as [x|]; [|discriminate Hw]. destruct (wrap_at p g x) as [x'|] eqn:E; [|discriminate Hw].
      injection Hw as <-. apply grel_node_intro; try reflexivity; [|apply orel_refl]. apply (IH x _ _ x' E Hc).
Qed.

(* (1) THE GENERAL LEMMA, single insertion: same entry, instruction list and jump table *)
Theorem group_node_emits_nothing : forall init lit p g t t' c e,
  wrap_ok p t = true -> wrap_at p g t = Some t' ->
  compile init lit t = Ok (c, e) ->
  exists c', compile init lit t' = Ok (c', e) /\ ci c' = ci c /\ cj c' = cj c.
Proof.
  intros init lit p g t t' c e Hok Hw Hc.
  assert (Hg : grel lit lit idn idn None false t' t).
  { apply (wrap_grel lit g p t None false t' Hw). unfold wrap_ok in Hok.
    destruct (ctx_at p None false t) as [[[lo' c'] d]|]; [exact Hok|discriminate Hok]. }
  destruct (compile_sim init lit lit idn idn t' t c e Hg Hc) as (c' & Hc' & Hv1 & Hv2).
  exists c'. split; [exact Hc'|]. rewrite !ren_id in Hv1. split; assumption.
Qed.

(* ---- each clause of the side condition is necessary ---- *)
Definition lit_true (_ : nat) : bool := true.
Definition num (i : nat) : tree := T i D_Number None None.
Definition code_of (t : tree) : option (list instr * list nat) :=
  match compile empty_init lit_true t with Ok (c, _) => Some (ci c, cj c) | _ => None end.
Definition code_wrapped (p : list bool) (t : tree) : option (list instr * list nat) :=
  match wrap_at p 99 t with Some t' => code_of t' | None => None end.

(* `1 2 3` against `(1 2) 3`: the inner list is flattened by its parent *)
Definition ex_list : tree := T 4 D_List (Some (T 3 D_List (Some (num 0)) (Some (num 1)))) (Some (num 2)).
(* `1 ?> 2 |> 3 ?> 4` against `1 ?> 2 |> (3 ?> 4)`: a conditional that is a link of an else-chain *)
Definition ex_else : tree :=
  T 6 D_ElseJump (Some (T 4 D_JumpIfTrue (Some (num 0)) (Some (num 1)))) (Some (T 5 D_JumpIfTrue (Some (num 2)) (Some (num 3)))).
(* the else link itself: `a ?> b |> c ?> d |> e`, the inner `|>` node *)
Definition ex_else2 : tree :=
  T 8 D_ElseJump (Some (T 6 D_ElseJump (Some (T 4 D_JumpIfTrue (Some (num 0)) (Some (num 1))))
                                        (Some (T 5 D_JumpIfTrue (Some (num 2)) (Some (num 3))))))
                 (Some (num 7)).
(* `(1 ?> 2) && 3`: the left operand of a logical operator has a conditional parent *)
Definition ex_and : tree := T 4 D_And (Some (T 3 D_JumpIfTrue (Some (num 0)) (Some (num 1)))) (Some (num 2)).

Example neutral_list_needed :
  wrap_ok [false] ex_list = false /\ code_wrapped [false] ex_list <> code_of ex_list /\ code_of ex_list <> None /\
  code_wrapped [false] ex_list <> None.
Proof. vm_compute. repeat split; discriminate. Qed.
Example neutral_cond_needed :
  wrap_ok [true] ex_else = false /\ code_wrapped [true] ex_else <> code_of ex_else /\ code_of ex_else <> None /\
  code_wrapped [true] ex_else <> None.
Proof. vm_compute. repeat split; discriminate. Qed.
Example neutral_else_link_needed :
  wrap_ok [false] ex_else2 = false /\ code_wrapped [false] ex_else2 <> code_of ex_else2 /\ code_of ex_else2 <> None /\
  code_wrapped [false] ex_else2 <> None.
Proof. vm_compute. repeat split; discriminate. Qed.
Example neutral_logical_left_needed :
  wrap_ok [false] ex_and = false /\ code_wrapped [false] ex_and <> code_of ex_and /\ code_of ex_and <> None /\
  code_wrapped [false] ex_and <> None.
Proof. vm_compute. repeat split; discriminate. Qed.
(* ... and where it holds the codes agree: every other position of the four trees *)
Example neutral_positions_agree :
  forallb (fun pt : list bool * tree =>
             wrap_ok (fst pt) (snd pt) &&
             match code_wrapped (fst pt) (snd pt), code_of (snd pt) with
             | Some a, Some b => forallb (fun x => instr_eqb (fst x) (snd x)) (combine (fst a) (fst b))
                                 && (length (fst a) =? length (fst b)) && forallb (fun x => Nat.eqb (fst x) (snd x)) (combine (snd a) (snd b))
                                 && (length (snd a) =? length (snd b))
             | _, _ => false
             end)
          [([], ex_list); ([true], ex_list); ([false; false], ex_list); ([false; true], ex_list);
           ([], ex_else); ([true; true], ex_else); ([true; false], ex_else); ([false; true], ex_else);
           ([], ex_else2); ([true], ex_else2); ([], ex_and); ([true], ex_and); ([false; false], ex_and); ([false; true], ex_and)] = true.
Proof. vm_compute. reflexivity. Qed.
