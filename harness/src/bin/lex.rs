//! lex: run garnish_lang_compiler::lex::lex on case lines.
//!   L <cp>,<cp>,...     input string as hex code points ("L -" = empty string)
//! Output: <case>\t<result>\t<oracle>
//!   result = OK <tok>;<tok>;...   tok = <TokenType>:<cp>,<cp>,...:<line hex>:<column hex>   ("OK" alone = no tokens)
//!          | ERR <class>:<line hex>:<column hex>
//!          | PANIC
//!   oracle = for every non-ASCII code point of the case  <cp>=<n><a><w>  (char::is_numeric,
//!            char::is_alphanumeric, char::is_ascii_whitespace as 0/1), comma separated, or "-"
use garnish_lang_compiler::lex::lex;
use garnish_verif_harness::*;

fn parse_case(s: &str) -> Option<String> {
    if s == "-" {
        return Some(String::new());
    }
    let mut out = String::new();
    for p in s.split(',') {
        let v = u32::from_str_radix(p, 16).ok()?;
        out.push(char::from_u32(v)?);
    }
    Some(out)
}

fn hex_text(s: &str) -> String {
    let v: Vec<String> = s.chars().map(|c| format!("{:x}", c as u32)).collect();
    if v.is_empty() { "-".to_string() } else { v.join(",") }
}

fn err_class(msg: &str) -> &'static str {
    if msg.starts_with("Invalid start to token") {
        "InvalidStart"
    } else if msg.starts_with("Identifiers must contain") {
        "Identifier"
    } else if msg.starts_with("Could not setup range token") {
        "Range"
    } else if msg.starts_with("No token") {
        "NoToken"
    } else if msg.starts_with("Unterminated token") {
        "Unterminated"
    } else {
        "Other"
    }
}

/// line/column are private in CompilerError; its derived Debug prints `line: N, column: N, source:`
fn err_pos(dbg: &str) -> (usize, usize) {
    fn field(dbg: &str, key: &str) -> usize {
        match dbg.rfind(key) {
            Some(i) => {
                let rest = &dbg[i + key.len()..];
                let digits: String = rest.chars().take_while(|c| c.is_ascii_digit()).collect();
                digits.parse().unwrap_or(usize::MAX)
            }
            None => usize::MAX,
        }
    }
    (field(dbg, ", line: "), field(dbg, ", column: "))
}

fn main() {
    quiet_panics();
    for_each_line(|line| {
        let arg = line.strip_prefix("L ").unwrap_or("");
        let input = match parse_case(arg) {
            Some(s) => s,
            None => return format!("{}\tBADCASE\t-", line),
        };
        let res = catch(|| lex(&input));
        let shown = match res {
            Err(()) => "PANIC".to_string(),
            Ok(Err(e)) => {
                let (l, c) = err_pos(&format!("{:?}", e));
                format!("ERR {}:{:x}:{:x}", err_class(e.get_message()), l, c)
            }
            Ok(Ok(tokens)) => {
                let v: Vec<String> = tokens
                    .iter()
                    .map(|t| format!("{:?}:{}:{:x}:{:x}", t.get_token_type(), hex_text(t.get_text()), t.get_line(), t.get_column()))
                    .collect();
                if v.is_empty() { "OK".to_string() } else { format!("OK {}", v.join(";")) }
            }
        };
        let mut seen: Vec<char> = input.chars().filter(|c| !c.is_ascii()).collect();
        seen.sort();
        seen.dedup();
        let oracle: Vec<String> = seen
            .iter()
            .map(|c| {
                format!("{:x}={}{}{}", *c as u32, c.is_numeric() as u8, c.is_alphanumeric() as u8, c.is_ascii_whitespace() as u8)
            })
            .collect();
        format!("{}\t{}\t{}", line, shown, if oracle.is_empty() { "-".to_string() } else { oracle.join(",") })
    });
}
