(* The program-level clauses of C10 on the reference evaluator: what `&&`, `||`,
   a conditional and an else-chain evaluate, in which order, and that nothing
   else is evaluated (the state, which carries the host trace, is untouched).
   Together with the simulation (the machine's observable trace is the
   evaluator's) they are statements about the compiled program. *)
From Coq Require Import ZArith NArith List Bool Arith.
From GV Require Import Base.Host Gen.Instr Model.Num Model.Value Spec.Ast Spec.Eval.
Import ListNotations.

Section Clauses.
Variable sym_hash : list N -> N.
Variable hstate : Type.
Variable host : hstate -> host_call -> hstate * option val.
Variable pb : list (N * expr).
Notation eval := (eval sym_hash hstate host pb).
Notation eval_chain := (eval_chain sym_hash hstate host pb).
Notation est := (st hstate).

Lemma obind_done' : forall (A B : Type) (o : out est A) (k : A -> est -> out est B) b s',
  obind o k = ODone b s' -> exists a s1, o = ODone a s1 /\ k a s1 = ODone b s'.
Proof. intros A B o k b s' H. destruct o; cbn in H; try discriminate. eauto. Qed.

Lemma and_clause : forall n l r vin (s : est) v s',
  eval (S n) (EAnd l r) vin s = ODone v s' ->
  exists vl s1, eval n l vin s = ODone vl s1 /\
    if truthy vl
    then exists vr, eval n r vin s1 = ODone vr s' /\ v = vbool (truthy vr)
    else v = VFalse /\ s' = s1.
Proof.
  intros n l r vin s v s' H. cbn [Eval.eval] in H. apply obind_done' in H.
  destruct H as (vl & s1 & El & H). exists vl, s1. split; auto.
  destruct (truthy vl).
  - apply obind_done' in H. destruct H as (vr & s2 & Er & H). injection H as <- <-. eauto.
  - injection H as <- <-. auto.
Qed.

Lemma or_clause : forall n l r vin (s : est) v s',
  eval (S n) (EOr l r) vin s = ODone v s' ->
  exists vl s1, eval n l vin s = ODone vl s1 /\
    if truthy vl
    then v = VTrue /\ s' = s1
    else exists vr, eval n r vin s1 = ODone vr s' /\ v = vbool (truthy vr).
Proof.
  intros n l r vin s v s' H. cbn [Eval.eval] in H. apply obind_done' in H.
  destruct H as (vl & s1 & El & H). exists vl, s1. split; auto.
  destruct (truthy vl).
  - injection H as <- <-. auto.
  - apply obind_done' in H. destruct H as (vr & s2 & Er & H). injection H as <- <-. eauto.
Qed.

Lemma logical_boolean : forall n (is_and : bool) l r vin (s : est) v s',
  eval (S n) (if is_and then EAnd l r else EOr l r) vin s = ODone v s' -> v = VTrue \/ v = VFalse.
Proof.
  intros n is_and l r vin s v s' H. destruct is_and.
  - destruct (and_clause _ _ _ _ _ _ _ H) as (vl & s1 & _ & Hc). destruct (truthy vl).
    + destruct Hc as (vr & _ & ->). destruct (truthy vr); auto.
    + destruct Hc as [-> _]; auto.
  - destruct (or_clause _ _ _ _ _ _ _ H) as (vl & s1 & _ & Hc). destruct (truthy vl).
    + destruct Hc as [-> _]; auto.
    + destruct Hc as (vr & _ & ->). destruct (truthy vr); auto.
Qed.

Lemma cond_clause : forall n neg c a vin (s : est) v s',
  eval (S n) (ECond neg c a) vin s = ODone v s' ->
  exists vc s1, eval n c vin s = ODone vc s1 /\
    if cond_holds neg vc then eval n a vin s1 = ODone v s' else v = vin /\ s' = s1.
Proof.
  intros n neg c a vin s v s' H. cbn [Eval.eval] in H. apply obind_done' in H.
  destruct H as (vc & s1 & Ec & H). exists vc, s1. split; auto.
  destruct (cond_holds neg vc); auto. injection H as <- <-. auto.
Qed.

(* an else-chain: the left part first; the right part only if no arm was taken *)
Lemma chain_clause : forall n l r vin (s : est) o s',
  eval_chain (S n) (EElse l r) vin s = ODone o s' ->
  exists ol s1, eval_chain n l vin s = ODone ol s1 /\
    match ol with
    | Some x => o = Some x /\ s' = s1
    | None => eval_chain n r vin s1 = ODone o s'
    end.
Proof.
  intros n l r vin s o s' H. cbn [Eval.eval_chain] in H. apply obind_done' in H.
  destruct H as (ol & s1 & El & H). exists ol, s1. split; auto.
  destruct ol; auto. injection H as <- <-. auto.
Qed.

(* a chain item: its condition, then its arm only if the condition holds *)
Lemma chain_item_clause : forall n neg c a vin (s : est) o s',
  eval_chain (S n) (ECond neg c a) vin s = ODone o s' ->
  exists vc s1, eval n c vin s = ODone vc s1 /\
    if cond_holds neg vc
    then exists v, eval n a vin s1 = ODone v s' /\ o = Some v
    else o = None /\ s' = s1.
Proof.
  intros n neg c a vin s o s' H. cbn [Eval.eval_chain] in H. apply obind_done' in H.
  destruct H as (vc & s1 & Ec & H). exists vc, s1. split; auto.
  destruct (cond_holds neg vc).
  - apply obind_done' in H. destruct H as (v & s2 & Ea & H). injection H as <- <-. eauto.
  - injection H as <- <-. auto.
Qed.

(* the truth test of conditionals and logical operators is C10's: exactly unit and false are false *)
Lemma truthy_spec : forall v, truthy v = false <-> (v = VUnit \/ v = VFalse).
Proof. intros v. destruct v; cbn; split; intros H; auto; try discriminate; destruct H; discriminate. Qed.

End Clauses.
