(* C07: ties tools/panic_map.json to this development.  Every inventoried site that
   the map classifies as "model" cites a lemma; [proved] lists the lemmas of
   Proofs/C07 by name (each name also occurs in [proved_terms], so it exists), and the finite check below fails to compile when the
   map cites a lemma that is not in the list, or when the source gains a site
   the map does not know (Gen/PanicSites.v is regenerated from /repo on every run). *)
From Coq Require Import NArith List String Bool.
From GV Require Import Gen.PanicSites Model.RuntimeIndex
  Proofs.C07.Arith Proofs.C07.Runtime Proofs.C07.Simple Proofs.C07.Basic Proofs.C07.Depth Proofs.C07.Run.
Import ListNotations.
Local Open Scope string_scope.

(* each cited name denotes a proved statement (the tuple does not type-check otherwise) *)
Definition proved_terms :=
  (equality_start_no_panic,
   make_list_start_no_panic,
   simple_item_no_panic,
   simple_assoc_probe_no_panic,
   simple_end_list_no_panic,
   simple_concat_slice_window_no_panic,
   conversion_depth_bounded,
   usize_of_num_no_panic,
   size_iter_no_panic,
   vec_iter_no_panic,
   block_prefix_slice_no_panic,
   data_run_slice_no_panic,
   block_get_no_panic,
   block_push_no_panic,
   realloc_copy_no_panic,
   bsearch_no_panic,
   basic_assoc_slice_no_panic,
   extents_no_panic,
   concat_iter_no_panic,
   basic_end_list_slice_no_panic,
   pop_frame_no_panic,
   bytes_conv_slice_no_panic,
   bytes_to_i32_no_panic,
   list_item_in_range_some).

Definition proved : list string :=
  [ "equality_start_no_panic"; "make_list_start_no_panic"; "simple_item_no_panic"; "simple_assoc_probe_no_panic";
    "simple_end_list_no_panic"; "simple_concat_slice_window_no_panic"; "conversion_depth_bounded"; "usize_of_num_no_panic";
    "size_iter_no_panic"; "vec_iter_no_panic"; "block_prefix_slice_no_panic"; "data_run_slice_no_panic"; "block_get_no_panic";
    "block_push_no_panic"; "realloc_copy_no_panic"; "bsearch_no_panic"; "basic_assoc_slice_no_panic"; "extents_no_panic";
    "concat_iter_no_panic"; "basic_end_list_slice_no_panic"; "pop_frame_no_panic"; "bytes_conv_slice_no_panic";
    "bytes_to_i32_no_panic"; "list_item_in_range_some" ].

Definition cited_ok (p : N * string) : bool := existsb (String.eqb (snd p)) proved.

(* finite: one entry per modelled site of the current source tree *)
Theorem modelled_sites_covered : forallb cited_ok modelled_site_lemmas = true.
Proof. vm_compute. reflexivity. Qed.

(* no site of the current source tree is missing from the map *)
Theorem no_unmapped_sites : unmapped_sites = [].
Proof. reflexivity. Qed.

Theorem every_modelled_site_has_a_lemma : forall id lemma,
  In (id, lemma) modelled_site_lemmas -> In lemma proved.
Proof.
  intros id lemma H.
  pose proof (proj1 (forallb_forall cited_ok modelled_site_lemmas) modelled_sites_covered (id, lemma) H) as Hc.
  unfold cited_ok in Hc. apply existsb_exists in Hc. destruct Hc as [x [Hin Heq]].
  cbn [snd] in Heq. apply String.eqb_eq in Heq. subst x. exact Hin.
Qed.
