(* C07: the shape of the full statement.  If every step from a state that
   satisfies an invariant is Ok or Err and re-establishes the invariant, no run
   of any length panics. *)
From Coq Require Import List.
From Coq Require Import NArith.
From GV Require Import Base.Result Model.RuntimeIndex Proofs.C07.Arith Proofs.C07.Runtime.

Section Run.
  Variable state : Type.
  Variable step : state -> res state.
  Variable Inv : state -> Prop.

  Definition step_safe : Prop :=
    forall s, Inv s -> no_panic (step s) /\ (forall s', step s = Ok s' -> Inv s').

  Theorem run_no_panic : step_safe -> forall n s, Inv s -> no_panic (run state step n s).
  Proof.
    intros Hs. induction n as [| k IH]; intros s Hi; cbn [run]; [exact I|].
    destruct (Hs s Hi) as [Hnp Hpres].
    destruct (step s) as [s' | c | st |] eqn:E; cbn [bind]; try exact I; try contradiction.
    apply IH. apply Hpres. reflexivity.
  Qed.
  (* the full statement of C07 for a machine [step] with invariant [Inv] *)
  Definition full_statement : Prop :=
    (forall s, Inv s -> no_panic (step s) /\ (forall s', step s = Ok s' -> Inv s')) /\
    (forall n s, Inv s -> no_panic (run state step n s)).

  Theorem run_from_step : step_safe -> full_statement.
  Proof. intros H. split; [exact H | exact (run_no_panic H)]. Qed.
End Run.

(* non-vacuity: a toy machine whose only state is the register depth and whose step is an Equal instruction
   (two registers popped, one pushed; an error when fewer than two are left) meets the one-step premise with
   the trivial invariant, so no run of it panics -- runs end in Err once the registers are used up. *)
Definition toy_step (register_len : N) : res N := do start <- equality_start register_len ; Ok (start + 1)%N.

Lemma toy_step_safe : step_safe N toy_step (fun _ => True).
Proof.
  intros s _. split; [| intros; exact I]. unfold toy_step.
  pose proof (equality_start_no_panic s) as H. destruct (equality_start s); cbn [bind]; try exact I; contradiction.
Qed.

Lemma toy_run_example :
  full_statement N toy_step (fun _ => True) /\ run N toy_step 2 3%N = Ok 1%N /\ run N toy_step 3 3%N = Err 1%N.
Proof. split; [exact (run_from_step N toy_step _ toy_step_safe)|]. split; vm_compute; reflexivity. Qed.
