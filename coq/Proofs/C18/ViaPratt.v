(* C18 on the operator fragment, through the reference parser of C02 (Spec.Pratt) and
   C02_full: the parse tree of a token list on which the reference is defined is a function
   of the reference tree that ignores token indices.  Hence (a) whitespace that does not
   change the item list (i.e. that neither creates nor destroys an implicit space list) does
   not change the tree, and (b) a pair of round brackets around the whole program changes
   the tree only by the group node.  No bound on length or depth. *)
From Coq Require Import List Arith Bool NArith Lia.
From GV Require Import Base.Result Gen.TokenTypes Gen.Defs Model.Parser Spec.RefTable Spec.Pratt Spec.Chains
  Spec.Layout
  Proofs.C02.Spine Proofs.C02.Denote Proofs.C02.Chains Proofs.C02.OpExpr Proofs.C02.Full.
Import ListNotations.

(* ---- the parse tree as a function of the index-carrying tree ---- *)
Fixpoint gt (t : ntree) : gtree :=
  match t with
  | NAtom _ d _ => GN d GLeaf GLeaf
  | NPre _ d _ a => GN d GLeaf (gt a)
  | NSuf _ d _ a => GN d (gt a) GLeaf
  | NBin _ d _ l r => GN d (gt l) (gt r)
  | NGroup b _ _ a => GN (bdef b) GLeaf (gt a)
  end.

Lemma gtree_of_denotes ns : forall t p fuel, denotes ns p t -> size t < fuel ->
  gtree_of fuel ns (Some (nid t)) = Some (gt t).
Proof.
  induction t as [i d k|i d k a IH|i d k a IH|i d k l IHl r IHr|b i k a IH]; intros p fuel D Hf;
    (destruct fuel as [|fuel]; [lia|]); simpl in D, Hf; destruct D as (n & Hn & A);
    cbn [gtree_of nid gt]; rewrite Hn.
  - destruct A as (_ & A2 & _ & _ & A5 & A6 & _). rewrite A5, A6, A2.
    destruct fuel as [|fuel]; [lia|]. reflexivity.
  - destruct A as (_ & A2 & _ & A4 & A5 & _ & A7). rewrite A4, A5, A2.
    rewrite (IH _ fuel A7) by lia. destruct fuel as [|fuel]; [lia|]. reflexivity.
  - destruct A as (_ & A2 & _ & A4 & A5 & _ & A7). rewrite A4, A5, A2.
    rewrite (IH _ fuel A7) by lia. destruct fuel as [|fuel]; [lia|]. reflexivity.
  - destruct A as ([A0 _] & _ & A3 & A4 & A5 & A6). rewrite A3, A4, A0.
    rewrite (IHl _ fuel A5) by lia. rewrite (IHr _ fuel A6) by lia. reflexivity.
  - destruct A as (_ & A2 & _ & A4 & A5 & _ & A7). rewrite A4, A5, A2.
    rewrite (IH _ fuel A7) by lia. destruct fuel as [|fuel]; [lia|]. reflexivity.
Qed.

(* ---- the parse tree as a function of the reference tree: an identifier that is the
   right operand of the access operator `.` is stored as Property ---- *)
Definition store_def (ctx : bool) (d : definition) : definition :=
  if ctx && definition_eqb d D_Identifier then D_Property else d.

Fixpoint rg (ctx : bool) (t : rtree) : gtree :=
  match t with
  | RAtom d _ => GN (store_def ctx d) GLeaf GLeaf
  | RPre d _ a => GN d GLeaf (rg false a)
  | RSuf d _ a => GN d (rg false a) GLeaf
  | RBin d _ l r => GN d (rg false l) (rg (definition_eqb d D_Access) r)
  | RGroup b _ a => GN (bdef b) GLeaf (rg false a)
  end.

(* the stored definitions of an index-carrying tree are the ones its position dictates *)
Fixpoint wfd (ctx : bool) (t : ntree) : Prop :=
  match t with
  | NAtom _ d _ => d = store_def ctx (norm_atom d)
  | NPre _ _ _ a => wfd false a
  | NSuf _ _ _ a => wfd false a
  | NBin _ d _ l r => wfd false l /\ wfd (definition_eqb d D_Access) r
  | NGroup _ _ _ a => wfd false a
  end.

Lemma gt_rg : forall t ctx, wfd ctx t -> gt t = rg ctx (erase t).
Proof.
  induction t as [i d k|i d k a IH|i d k a IH|i d k l IHl r IHr|b i k a IH]; intros ctx H; simpl in *.
  - rewrite <- H. reflexivity.
  - rewrite (IH _ H). reflexivity.
  - rewrite (IH _ H). reflexivity.
  - destruct H as [H1 H2]. rewrite (IHl _ H1), (IHr _ H2). reflexivity.
  - rewrite (IH _ H). reflexivity.
Qed.

(* the spine machine stores the dictated definitions *)
Definition top_is_access (fs : list frame) : bool :=
  match fs with f :: _ => definition_eqb (frame_def f) D_Access | [] => false end.

Definition fwfd (f : frame) : Prop :=
  match f with
  | FBin _ _ _ l => wfd false l
  | FPre _ d _ => definition_eqb d D_Access = false
  | FGroup _ _ _ => True
  end.

Definition acc_wfd (fs : list frame) (acc : option ntree) : Prop :=
  match acc with Some t => wfd (top_is_access fs) t | None => True end.

(* what the items of a token list are like *)
Definition item_sane (it : item) : Prop :=
  match it with
  | IValue d _ => norm_atom d = d /\ definition_eqb d D_Property = false
  | IPrefix d _ => definition_eqb d D_Access = false
  | IBinary d _ | ISuffix d _ => inside d 30%N = false
  | _ => True
  end.

Lemma plug_wfd f r t c : fwfd f -> wfd (top_is_access (f :: r)) t -> wfd c (plug f t).
Proof.
  destruct f as [i d k l|i d k|b i k]; simpl; intros Hf Ht.
  - split; assumption.
  - rewrite Hf in Ht. exact Ht.
  - destruct b; exact Ht.
Qed.

Lemma pop_wfd d : inside d 30%N = false -> forall fs t fs' t',
  Forall fwfd fs -> wfd (top_is_access fs) t -> pop d fs t = (fs', t') ->
  Forall fwfd fs' /\ wfd false t'.
Proof.
  intros Hd. induction fs as [|f r IH]; intros t fs' t' HF Ht H; cbn [pop] in H.
  - injection H as <- <-. split; [constructor|exact Ht].
  - inversion HF as [|? ? Hf HF']; subst. destruct (stays_below d f) eqn:E.
    + injection H as <- <-. split; [exact HF|].
      assert (Ha : top_is_access (f :: r) = false).
      { cbn [top_is_access]. destruct (definition_eqb (frame_def f) D_Access) eqn:Ea; [|reflexivity]. exfalso.
        destruct f as [i d0 k l|i d0 k|b0 i k]; cbn [frame_def] in Ea.
        - assert (d0 = D_Access) by (unfold definition_eqb in Ea; apply N.eqb_eq in Ea;
            destruct d0; try reflexivity; vm_compute in Ea; discriminate Ea). subst d0.
          unfold stays_below in E. cbn [frame_def ref_rank] in E. rewrite Hd in E. discriminate E.
        - simpl in Hf. rewrite Hf in Ea. discriminate Ea.
        - destruct b0; discriminate Ea. }
      rewrite Ha in Ht. exact Ht.
    + eapply IH; [exact HF'| |exact H]. apply (plug_wfd f r t _ Hf Ht).
Qed.

Lemma close_group_wfd b : forall fs t fs' t',
  Forall fwfd fs -> wfd (top_is_access fs) t -> close_group b fs t = Some (fs', t') ->
  Forall fwfd fs' /\ forall c, wfd c t'.
Proof.
  induction fs as [|f r IH]; intros t fs' t' HF Ht H; [discriminate|].
  inversion HF as [|? ? Hf HF']; subst.
  destruct f as [i d k l|i d k|b0 i k]; cbn [close_group] in H.
  - eapply IH; [exact HF'| |exact H]. apply (plug_wfd (FBin i d k l) r t _ Hf Ht).
  - eapply IH; [exact HF'| |exact H]. apply (plug_wfd (FPre i d k) r t _ Hf Ht).
  - destruct (bkind_eqb b0 b); [|discriminate H]. injection H as <- <-. split; [exact HF'|]. intros c.
    simpl in Ht |- *. destruct b0; exact Ht.
Qed.

Lemma atom_store_wfd d fs k n : norm_atom d = d -> definition_eqb d D_Property = false ->
  wfd (top_is_access fs) (NAtom n (atom_store d fs) k).
Proof.
  intros Hn Hp. cbn [wfd]. rewrite (norm_atom_store d fs Hn). unfold atom_store, store_def, top_is_access.
  destruct (definition_eqb d D_Identifier) eqn:E; [|rewrite andb_false_r; reflexivity].
  destruct fs as [|f r]; [reflexivity|]. destruct (definition_eqb (frame_def f) D_Access); reflexivity.
Qed.

Lemma spine_run_wfd : forall its n fs acc fs' t',
  Forall item_sane its -> Forall fwfd fs -> acc_wfd fs acc ->
  spine_run its n (fs, acc) = Some (fs', Some t') ->
  Forall fwfd fs' /\ wfd (top_is_access fs') t'.
Proof.
  induction its as [|it r IH]; intros n fs acc fs' t' HI HF Ha H.
  - simpl in H. injection H as <- ->. split; [exact HF|exact Ha].
  - inversion HI as [|? ? Hit HI']; subst. cbn [spine_run] in H.
    destruct (spine_step it n (fs, acc)) as [[fs2 acc2]|] eqn:Es; [|discriminate].
    apply (IH (next_index it n) fs2 acc2 fs' t' HI'); [| |exact H];
      destruct it as [d k|d k|d k|d k|b k|b k]; destruct acc as [t|]; cbn [spine_step] in Es; try discriminate.
    + injection Es as <- <-. exact HF.
    + destruct (ref_rank d); [|discriminate]. injection Es as <- <-. constructor; [exact Hit|exact HF].
    + destruct (ref_rank d); [|discriminate]. destruct (pop d fs t) as [fs1 t1] eqn:Ep. injection Es as <- <-.
      apply (pop_wfd d Hit _ _ _ _ HF Ha Ep).
    + destruct (ref_rank d); [|discriminate]. destruct (pop d fs t) as [fs1 t1] eqn:Ep.
      destruct (sep_blocked d fs1); [discriminate|]. injection Es as <- <-.
      destruct (pop_wfd d Hit _ _ _ _ HF Ha Ep) as [H1 H2]. constructor; [exact H2|exact H1].
    + injection Es as <- <-. constructor; [exact I|exact HF].
    + destruct (close_group b fs t) as [[fs1 t1]|] eqn:Ec; [|discriminate]. injection Es as <- <-.
      apply (close_group_wfd _ _ _ _ _ HF Ha Ec).
    + injection Es as <- <-. destruct Hit as [H1 H2]. apply atom_store_wfd; assumption.
    + destruct (ref_rank d); [|discriminate]. injection Es as <- <-. exact I.
    + destruct (ref_rank d); [|discriminate]. destruct (pop d fs t) as [fs1 t1] eqn:Ep. injection Es as <- <-.
      cbn [acc_wfd wfd]. apply (pop_wfd d Hit _ _ _ _ HF Ha Ep).
    + destruct (ref_rank d); [|discriminate]. destruct (pop d fs t) as [fs1 t1] eqn:Ep.
      destruct (sep_blocked d fs1); [discriminate|]. injection Es as <- <-. exact I.
    + injection Es as <- <-. exact I.
    + destruct (close_group b fs t) as [[fs1 t1]|] eqn:Ec; [|discriminate]. injection Es as <- <-.
      cbn [acc_wfd]. apply (close_group_wfd _ _ _ _ _ HF Ha Ec).
Qed.

Lemma close_wfd : forall fs t, Forall fwfd fs -> wfd (top_is_access fs) t -> wfd false (close fs t).
Proof.
  induction fs as [|f r IH]; intros t HF Ht; [exact Ht|].
  inversion HF as [|? ? Hf HF']; subst. cbn [close]. apply IH; [exact HF'|]. apply (plug_wfd f r t _ Hf Ht).
Qed.

Lemma spine_insert_wfd its T : Forall item_sane its -> spine_insert its = Some T -> wfd false T.
Proof.
  intros HI H. unfold spine_insert in H.
  destruct (spine_run its 0 ([], None)) as [[fs [t|]]|] eqn:E; try discriminate.
  destruct (existsb is_fgroup fs); [discriminate|]. injection H as <-.
  destruct (spine_run_wfd its 0 [] None fs t HI (Forall_nil _) I E) as [H1 H2].
  apply close_wfd; assumption.
Qed.

(* the items of a token list are sane (finite check over the token table) *)
Definition tok_sane (t : token_type) : bool :=
  match ref_kind t with
  | KValue => definition_eqb (norm_atom (ref_def t)) (ref_def t) && negb (definition_eqb (ref_def t) D_Property)
  | KPrefix => negb (definition_eqb (ref_def t) D_Access)
  | KBinary | KSuffix => negb (inside (ref_def t) 30%N)
  | _ => true
  end.

Lemma toks_sane : forallb tok_sane all_token_type = true.
Proof. vm_compute. reflexivity. Qed.

Lemma tok_sane_all t : tok_sane t = true.
Proof. pose proof toks_sane as F. rewrite forallb_forall in F. apply F. apply Proofs.C02.Steps.all_tokens_in. Qed.

Lemma items_of_sane : forall l i prev sp its, items_of l i prev sp = Some its -> Forall item_sane its.
Proof.
  induction l as [|t r IH]; intros i prev sp its H.
  - injection H as <-. constructor.
  - cbn [items_of] in H. pose proof (tok_sane_all t) as Hs. unfold tok_sane in Hs.
    assert (Hlead : Forall item_sane
                      (match prev with
                       | Some p => if sp && ends_value_k p && starts_value_k (ref_kind t) then [IBinary D_List None] else []
                       | None => [] end)).
    { destruct prev as [p|]; [|constructor]. destruct (sp && ends_value_k p && _); constructor; [reflexivity|constructor]. }
    destruct (ref_kind t) eqn:Ek; try discriminate H;
      try (destruct (items_of r (S i) _ false) as [rest|] eqn:E; [|discriminate H]; injection H as <-;
           apply Forall_app; split; [exact Hlead|]; constructor; [|eapply IH; exact E]).
    + apply andb_true_iff in Hs. destruct Hs as [H1 H2]. split.
      * unfold definition_eqb in H1. apply N.eqb_eq in H1.
        destruct (ref_def t); try reflexivity; vm_compute in H1; discriminate H1.
      * apply negb_true_iff. exact H2.
    + apply negb_true_iff. exact Hs.
    + apply negb_true_iff. exact Hs.
    + apply negb_true_iff. exact Hs.
    + exact I.
    + exact I.
    + eapply IH; exact H.
Qed.

Lemma rg_shift a : forall t c, rg c (shift_rtree a t) = rg c t.
Proof.
  induction t as [d k|d k x IH|d k x IH|d k l IHl r IHr|b k x IH]; intros c; simpl; rewrite ?IH, ?IHl, ?IHr; reflexivity.
Qed.

(* THE BRIDGE: where the reference is defined, the parse tree is its image *)
Theorem parse_tree_pratt (toks : list token_type) (T : rtree) :
  pratt toks = Some T -> parse_tree toks = Some (rg false T).
Proof.
  intros Hpr. destruct (pratt_parse toks T Hpr) as (Tn & ns & its & Hits & _ & Hins & Hp & DT & OT & _ & _ & ->).
  unfold parse_tree. rewrite Hp.
  destruct (denotes_root _ _ _ DT) as (nr & Hnr & _).
  destruct ns as [|n0 nr0] eqn:Ens; [destruct (nid Tn); discriminate Hnr|]. rewrite <- Ens in *.
  pose proof (ordered_size Tn OT) as Hsz.
  assert (Hhi : hi Tn < length ns) by (eapply denotes_lt; [exact DT|apply has_id_hi]).
  rewrite (gtree_of_denotes ns Tn None _ DT) by lia.
  rewrite rg_shift. f_equal. apply gt_rg. eapply spine_insert_wfd; [|exact Hins]. eapply items_of_sane; exact Hits.
Qed.

Lemma gtree_eqb_refl t : gtree_eqb t t = true.
Proof. induction t as [|d l IHl r IHr]; [reflexivity|]. simpl. rewrite definition_eqb_refl, IHl, IHr. reflexivity. Qed.

(* ---- (a) token indices do not matter to the reference ---- *)
Definition untok_item (it : item) : item :=
  match it with
  | IValue d _ => IValue d 0
  | IPrefix d _ => IPrefix d 0
  | ISuffix d _ => ISuffix d 0
  | IBinary d k => IBinary d (option_map (fun _ => 0) k)
  | IOpen b _ => IOpen b 0
  | IClose b _ => IClose b 0
  end.

Fixpoint untok (t : rtree) : rtree :=
  match t with
  | RAtom d _ => RAtom d 0
  | RPre d _ x => RPre d 0 (untok x)
  | RSuf d _ x => RSuf d 0 (untok x)
  | RBin d k l r => RBin d (option_map (fun _ => 0) k) (untok l) (untok r)
  | RGroup b _ x => RGroup b 0 (untok x)
  end.

Definition untok_res (x : rtree * list item) : rtree * list item := (untok (fst x), map untok_item (snd x)).

Lemma climb_untok : forall f q acc its,
  climb f q (option_map untok acc) (map untok_item its) = option_map untok_res (climb f q acc its).
Proof.
  induction f as [|f IH]; intros q acc its; [reflexivity|].
  destruct acc as [lhs|]; cbn [option_map climb].
  - destruct its as [|it r]; [reflexivity|]. cbn [map].
    destruct it as [d k|d k|d k|d k|b k|b k]; cbn [untok_item]; try reflexivity.
    + destruct (inside d q); [|reflexivity].
      change (Some (RSuf d 0 (untok lhs))) with (option_map untok (Some (RSuf d k lhs))). apply IH.
    + destruct (inside d q); [|reflexivity]. destruct (ref_rank d) as [p|]; [|reflexivity].
      pose proof (IH p None r) as E0. cbn [option_map] in E0. rewrite E0. clear E0.
      destruct (climb f p None r) as [[rhs r']|]; [|reflexivity]. cbn [option_map untok_res fst snd].
      change (Some (RBin d (option_map (fun _ => 0) k) (untok lhs) (untok rhs)))
        with (option_map untok (Some (RBin d k lhs rhs))). apply IH.
  - destruct its as [|it r]; [reflexivity|]. cbn [map].
    destruct it as [d k|d k|d k|d k|b k|b k]; cbn [untok_item]; try reflexivity.
    + change (Some (RAtom d 0)) with (option_map untok (Some (RAtom d k))). apply IH.
    + destruct (ref_rank d) as [p|]; [|reflexivity].
      pose proof (IH p None r) as E0. cbn [option_map] in E0. rewrite E0. clear E0.
      destruct (climb f p None r) as [[arg r']|]; [|reflexivity]. cbn [option_map untok_res fst snd].
      change (Some (RPre d 0 (untok arg))) with (option_map untok (Some (RPre d k arg))). apply IH.
    + pose proof (IH (blimit b) None r) as E0. cbn [option_map] in E0. rewrite E0. clear E0.
      destruct (climb f (blimit b) None r) as [[inner [|c r']]|]; try reflexivity. cbn [option_map untok_res fst snd map].
      destruct c as [d0 k0|d0 k0|d0 k0|d0 k0|b0 k0|b0 k0]; cbn [untok_item]; try reflexivity.
      destruct (bkind_eqb b b0); [|reflexivity].
      change (Some (RGroup b 0 (untok inner))) with (option_map untok (Some (RGroup b k inner))). apply IH.
Qed.

Lemma rg_untok : forall t c, rg c (untok t) = rg c t.
Proof.
  induction t as [d k|d k x IH|d k x IH|d k l IHl r IHr|b k x IH]; intros c; simpl; rewrite ?IH, ?IHl, ?IHr; reflexivity.
Qed.

(* two token lists whose item lists agree up to token indices: the reference is defined on
   both or on neither, and the trees agree up to token indices *)
Lemma pratt_untok toks toks' its its' T :
  items_of toks 0 None false = Some its -> items_of toks' 0 None false = Some its' ->
  map untok_item its = map untok_item its' ->
  pratt toks = Some T -> exists T', pratt toks' = Some T' /\ untok T' = untok T.
Proof.
  intros H1 H2 E Hpr. unfold pratt in *. rewrite H1 in Hpr. rewrite H2.
  assert (Hl : length its' = length its).
  { rewrite <- (map_length untok_item its'), <- E, map_length. reflexivity. }
  rewrite Hl.
  pose proof (climb_untok (4 * length its + 8) INF None its) as C1.
  pose proof (climb_untok (4 * length its + 8) INF None its') as C2.
  cbn [option_map] in C1, C2. rewrite E in C1. rewrite C1 in C2.
  destruct (climb (4 * length its + 8) INF None its) as [[T1 [|c rc]]|]; try discriminate Hpr.
  injection Hpr as ->.
  destruct (climb (4 * length its + 8) INF None its') as [[T2 r2]|]; [|discriminate C2].
  cbn [option_map untok_res fst snd map] in C2. injection C2 as C2a C2b.
  destruct r2; [|discriminate C2b]. exists T2. split; [reflexivity|]. symmetry. exact C2a.
Qed.

Theorem same_items_same_tree toks toks' its its' T :
  items_of toks 0 None false = Some its -> items_of toks' 0 None false = Some its' ->
  map untok_item its = map untok_item its' ->
  pratt toks = Some T ->
  exists g, parse_tree toks = Some g /\ parse_tree toks' = Some g.
Proof.
  intros H1 H2 E Hpr. destruct (pratt_untok _ _ _ _ _ H1 H2 E Hpr) as (T' & Hpr' & Hu).
  exists (rg false T). split; [apply parse_tree_pratt; exact Hpr|].
  rewrite (parse_tree_pratt _ _ Hpr'). f_equal. rewrite <- (rg_untok T'), Hu, rg_untok. reflexivity.
Qed.

(* ---- whitespace in a gap that is not between the end of a value and the start of one ---- *)
Definition sig_kind (t : token_type) : option tok_kind :=
  match ref_kind t with KSpace => None | k => Some k end.

(* kind of the last token of [pre] that is not whitespace ([dflt] if there is none) *)
Fixpoint last_sig (dflt : option tok_kind) (pre : list token_type) : option tok_kind :=
  match pre with
  | [] => dflt
  | t :: r => last_sig (match sig_kind t with Some k => Some k | None => dflt end) r
  end.

Fixpoint first_sig (post : list token_type) : option tok_kind :=
  match post with
  | [] => None
  | t :: r => match sig_kind t with Some k => Some k | None => first_sig r end
  end.

Definition joins_values (p k : option tok_kind) : bool :=
  match p, k with Some a, Some b => ends_value_k a && starts_value_k b | _, _ => false end.

(* whitespace may be added or removed at the gap between [pre] and [post] *)
Definition gap_neutral (pre post : list token_type) : bool :=
  negb (joins_values (last_sig None pre) (first_sig post)).

Definition oitems (o : option (list item)) : option (list item) := option_map (map untok_item) o.

Lemma items_of_index : forall l i j prev sp, oitems (items_of l i prev sp) = oitems (items_of l j prev sp).
Proof.
  induction l as [|t r IH]; intros i j prev sp; [reflexivity|]. cbn [items_of].
  destruct (ref_kind t) eqn:Ek; try reflexivity; try apply IH;
    (pose proof (IH (S i) (S j) (Some (ref_kind t)) false) as E; rewrite Ek in E;
     destruct (items_of r (S i) _ false) as [ra|]; destruct (items_of r (S j) _ false) as [rb|];
     cbn [oitems option_map] in E |- *; try discriminate E; [|reflexivity];
     injection E as E; rewrite !map_app; cbn [map untok_item]; rewrite E; reflexivity).
Qed.

Lemma items_of_spaced : forall post i prev sp sp',
  joins_values prev (first_sig post) = false ->
  oitems (items_of post i prev sp) = oitems (items_of post i prev sp').
Proof.
  induction post as [|t r IH]; intros i prev sp sp' H; [reflexivity|]. cbn [items_of].
  cbn [first_sig] in H. unfold sig_kind in H.
  destruct (ref_kind t) eqn:Ek; try reflexivity;
    try (destruct prev as [p|]; [|reflexivity]; cbn [joins_values] in H;
         cbn [starts_value_k] in H |- *; rewrite ?H, ?andb_false_r;
         destruct (ends_value_k p); cbn [andb] in H |- *; try discriminate H; rewrite ?andb_false_r; reflexivity).
Qed.

Lemma items_gap post : forall pre i prev sp,
  joins_values (last_sig prev pre) (first_sig post) = false ->
  oitems (items_of (pre ++ TT_Whitespace :: post) i prev sp) = oitems (items_of (pre ++ post) i prev sp).
Proof.
  induction pre as [|t r IH]; intros i prev sp H.
  - cbn [app items_of ref_kind last_sig] in *.
    rewrite (items_of_index post (S i) i prev true). apply items_of_spaced. exact H.
  - cbn [app items_of]. cbn [last_sig] in H. unfold sig_kind in H.
    destruct (ref_kind t) eqn:Ek; try reflexivity; try (apply IH; exact H);
      (pose proof (IH (S i) (Some (ref_kind t)) false) as E; rewrite Ek in E; specialize (E H);
       destruct (items_of (r ++ TT_Whitespace :: post) (S i) _ false) as [ra|];
       destruct (items_of (r ++ post) (S i) _ false) as [rb|];
       cbn [oitems option_map] in E |- *; try discriminate E; [|reflexivity];
       injection E as E; rewrite !map_app; cbn [map]; rewrite E; reflexivity).
Qed.

Theorem whitespace_where_allowed (pre post : list token_type) :
  gap_neutral pre post = true ->
  (exists T, pratt (pre ++ post) = Some T) \/ (exists T, pratt (pre ++ [TT_Whitespace] ++ post) = Some T) ->
  exists g, parse_tree (pre ++ post) = Some g /\ parse_tree (pre ++ [TT_Whitespace] ++ post) = Some g.
Proof.
  intros Hg Hdef. unfold gap_neutral in Hg. apply negb_true_iff in Hg.
  pose proof (items_gap post pre 0 None false Hg) as E. cbn [app].
  destruct Hdef as [[T Hpr]|[T Hpr]].
  - assert (exists its, items_of (pre ++ post) 0 None false = Some its) as [its Hi].
    { unfold pratt in Hpr. destruct (items_of (pre ++ post) 0 None false) as [x|]; [eauto|discriminate]. }
    rewrite Hi in E. destruct (items_of (pre ++ TT_Whitespace :: post) 0 None false) as [its'|] eqn:Hi'; [|discriminate E].
    cbn [oitems option_map] in E. injection E as E.
    destruct (same_items_same_tree _ _ _ _ _ Hi Hi' (eq_sym E) Hpr) as (g & G1 & G2). exists g. split; assumption.
  - cbn [app] in Hpr.
    assert (exists its, items_of (pre ++ TT_Whitespace :: post) 0 None false = Some its) as [its Hi].
    { unfold pratt in Hpr. destruct (items_of (pre ++ TT_Whitespace :: post) 0 None false) as [x|]; [eauto|discriminate]. }
    rewrite Hi in E. destruct (items_of (pre ++ post) 0 None false) as [its'|] eqn:Hi'; [|discriminate E].
    cbn [oitems option_map] in E. injection E as E.
    destruct (same_items_same_tree _ _ _ _ _ Hi Hi' E Hpr) as (g & G1 & G2). exists g. split; assumption.
Qed.

(* ---- (b) round brackets around the whole program ---- *)
Lemma climb_fuel_mono : forall f q acc its x, climb f q acc its = Some x ->
  forall f', f <= f' -> climb f' q acc its = Some x.
Proof.
  induction f as [|f IH]; intros q acc its x H f' Hle; [discriminate|].
  destruct f' as [|f']; [lia|]. assert (Hle' : f <= f') by lia.
  destruct acc as [lhs|]; cbn [climb] in H |- *.
  - destruct its as [|it r]; [exact H|].
    destruct it as [d k|d k|d k|d k|b k|b k]; try exact H.
    + destruct (inside d q); [|exact H]. exact (IH _ _ _ _ H f' Hle').
    + destruct (inside d q); [|exact H]. destruct (ref_rank d) as [p|]; [|exact H].
      destruct (climb f p None r) as [[rhs r']|] eqn:E; [|discriminate H].
      rewrite (IH _ _ _ _ E f' Hle'). exact (IH _ _ _ _ H f' Hle').
  - destruct its as [|it r]; [exact H|].
    destruct it as [d k|d k|d k|d k|b k|b k]; try exact H.
    + exact (IH _ _ _ _ H f' Hle').
    + destruct (ref_rank d) as [p|]; [|exact H].
      destruct (climb f p None r) as [[arg r']|] eqn:E; [|discriminate H].
      rewrite (IH _ _ _ _ E f' Hle'). exact (IH _ _ _ _ H f' Hle').
    + destruct (climb f (blimit b) None r) as [[inner [|c r']]|] eqn:E; try discriminate H.
      rewrite (IH _ _ _ _ E f' Hle'). destruct c; try discriminate H.
      destruct (bkind_eqb b b0); [|discriminate H]. exact (IH _ _ _ _ H f' Hle').
Qed.

(* a climb does not look beyond the item it returns at: a closing bracket put behind the
   whole list is where a complete climb returns *)
Lemma climb_app_close bc c x : forall f q acc its t r,
  climb f q acc its = Some (t, r) -> climb f q acc (its ++ IClose bc c :: x) = Some (t, r ++ IClose bc c :: x).
Proof.
  induction f as [|f IH]; intros q acc its t r H; [discriminate|].
  destruct acc as [lhs|]; cbn [climb] in H |- *.
  - destruct its as [|it r0]; [injection H as <- <-; reflexivity|]. cbn [app].
    destruct it as [d k|d k|d k|d k|b k|b k]; try (injection H as <- <-; reflexivity).
    + destruct (inside d q); [|injection H as <- <-; reflexivity]. exact (IH _ _ _ _ _ H).
    + destruct (inside d q); [|injection H as <- <-; reflexivity]. destruct (ref_rank d) as [p|]; [|discriminate H].
      destruct (climb f p None r0) as [[rhs r']|] eqn:E; [|discriminate H].
      rewrite (IH _ _ _ _ _ E). exact (IH _ _ _ _ _ H).
  - destruct its as [|it r0]; [discriminate H|]. cbn [app].
    destruct it as [d k|d k|d k|d k|b k|b k]; try discriminate H.
    + exact (IH _ _ _ _ _ H).
    + destruct (ref_rank d) as [p|]; [|discriminate H].
      destruct (climb f p None r0) as [[arg r']|] eqn:E; [|discriminate H].
      rewrite (IH _ _ _ _ _ E). exact (IH _ _ _ _ _ H).
    + destruct (climb f (blimit b) None r0) as [[inner [|c0 r']]|] eqn:E; try discriminate H.
      rewrite (IH _ _ _ _ _ E). cbn [app]. destruct c0; try discriminate H.
      destruct (bkind_eqb b b0); [|discriminate H]. exact (IH _ _ _ _ _ H).
Qed.

Lemma items_of_after_open b : forall l i sp, items_of l i (Some (KOpen b)) sp = items_of l i None sp.
Proof.
  induction l as [|t r IH]; intros i sp; [reflexivity|]. cbn [items_of].
  destruct (ref_kind t); try reflexivity; try apply IH; cbn [ends_value_k]; rewrite andb_false_r; reflexivity.
Qed.

Lemma items_of_app_close : forall l i prev sp,
  items_of (l ++ [TT_EndGroup]) i prev sp
  = option_map (fun its => its ++ [IClose BRound (i + length l)]) (items_of l i prev sp).
Proof.
  induction l as [|t r IH]; intros i prev sp.
  - cbn [app items_of ref_kind option_map length]. rewrite Nat.add_0_r.
    destruct prev as [p|]; [|reflexivity]. cbn [starts_value_k]. rewrite andb_false_r. reflexivity.
  - cbn [app items_of length]. replace (i + S (length r)) with (S i + length r) by lia.
    destruct (ref_kind t); try reflexivity; try apply IH;
      (rewrite IH; destruct (items_of r (S i) _ false) as [rest|]; [|reflexivity]; cbn [option_map];
       rewrite <- app_assoc; reflexivity).
Qed.

(* without separators the limit of a round bracket and the outermost limit admit the same operators *)
Definition lim_ok (it : item) : bool :=
  match it with
  | IBinary d _ | ISuffix d _ => Bool.eqb (inside d ROUND_LIMIT) (inside d INF)
  | _ => true
  end.

Lemma climb_limit : forall f acc its, forallb lim_ok its = true ->
  climb f ROUND_LIMIT acc its = climb f INF acc its.
Proof.
  induction f as [|f IH]; intros acc its HP; [reflexivity|].
  destruct acc as [lhs|]; cbn [climb].
  - destruct its as [|it r]; [reflexivity|].
    assert (HPr : forallb lim_ok r = true) by (cbn [forallb] in HP; apply andb_true_iff in HP; apply HP).
    destruct it as [d k|d k|d k|d k|b k|b k]; try reflexivity.
    + cbn [forallb lim_ok] in HP. apply andb_true_iff in HP. destruct HP as [Hd _]. apply eqb_prop in Hd. rewrite Hd.
      destruct (inside d INF); [|reflexivity]. apply IH. exact HPr.
    + cbn [forallb lim_ok] in HP. apply andb_true_iff in HP. destruct HP as [Hd _]. apply eqb_prop in Hd. rewrite Hd.
      destruct (inside d INF); [|reflexivity]. destruct (ref_rank d) as [p|]; [|reflexivity].
      destruct (climb f p None r) as [[rhs r']|] eqn:E1; [|reflexivity].
      apply IH. exact (climb_rest_forall _ _ _ _ _ _ _ E1 HPr).
  - destruct its as [|it r]; [reflexivity|].
    assert (HPr : forallb lim_ok r = true) by (cbn [forallb] in HP; apply andb_true_iff in HP; apply HP).
    destruct it as [d k|d k|d k|d k|b k|b k]; try reflexivity.
    + apply IH. exact HPr.
    + destruct (ref_rank d) as [p|]; [|reflexivity].
      destruct (climb f p None r) as [[arg r']|] eqn:E1; [|reflexivity].
      apply IH. exact (climb_rest_forall _ _ _ _ _ _ _ E1 HPr).
    + destruct (climb f (blimit b) None r) as [[inner [|c r']]|] eqn:E1; try reflexivity.
      destruct c as [d0 k0|d0 k0|d0 k0|d0 k0|b0 k0|b0 k0]; try reflexivity.
      destruct (bkind_eqb b b0); [|reflexivity]. apply IH.
      pose proof (climb_rest_forall _ _ _ _ _ _ _ E1 HPr) as HP1. cbn [forallb] in HP1. apply andb_true_iff in HP1. apply HP1.
Qed.

Lemma tok_lim_ok t : sep_tok t = false ->
  match ref_kind t with
  | KBinary | KSuffix => Bool.eqb (inside (ref_def t) ROUND_LIMIT) (inside (ref_def t) INF)
  | _ => true end = true.
Proof. destruct t; intros H; try reflexivity; discriminate H. Qed.

Lemma items_of_lim_ok : forall l i prev sp its, no_separators l = true ->
  items_of l i prev sp = Some its -> forallb lim_ok its = true.
Proof.
  induction l as [|t r IH]; intros i prev sp its Hns H; [injection H as <-; reflexivity|].
  cbn [no_separators forallb] in Hns. apply andb_true_iff in Hns. destruct Hns as [Ht Hns]. apply negb_true_iff in Ht.
  fold (no_separators r) in Hns. cbn [items_of] in H. pose proof (tok_lim_ok t Ht) as Hk.
  assert (Hlead : forallb lim_ok
                    (match prev with
                     | Some p => if sp && ends_value_k p && starts_value_k (ref_kind t) then [IBinary D_List None] else []
                     | None => [] end) = true).
  { destruct prev as [p|]; [|reflexivity]. destruct (sp && ends_value_k p && _); reflexivity. }
  destruct (ref_kind t) eqn:Ek; try discriminate H; try (eapply IH; [exact Hns|exact H]);
    (destruct (items_of r (S i) _ false) as [rest|] eqn:E; [|discriminate H]; injection H as <-;
     cbn [starts_value_k] in Hlead; rewrite forallb_app, Hlead; cbn [forallb andb]; rewrite (IH _ _ _ _ Hns E), andb_true_r;
     first [reflexivity | exact Hk]).
Qed.

(* the reference tree of `( toks )` is the group of the reference tree of `toks` *)
Lemma pratt_wrapped toks T :
  no_separators toks = true -> pratt toks = Some T ->
  pratt (TT_StartGroup :: toks ++ [TT_EndGroup]) = Some (RGroup BRound 0 (shift_rtree 1 T)).
Proof.
  intros Hns Hpr. unfold pratt in *. destruct (items_of toks 0 None false) as [its|] eqn:Hits; [|discriminate].
  destruct (climb (4 * length its + 8) INF None its) as [[T1 [|c rc]]|] eqn:Hcl; try discriminate.
  injection Hpr as ->.
  cbn [items_of ref_kind app]. rewrite items_of_app_close, items_of_after_open.
  pose proof (items_of_shift 1 toks 0 None false) as Es. cbn [plus] in Es. rewrite Es, Hits. clear Es. cbn [option_map app].
  set (its1 := map (shift_item 1) its).
  set (F' := 4 * length (IOpen BRound 0 :: its1 ++ [IClose BRound (1 + length toks)]) + 8).
  assert (HF' : F' = S (4 * length its + 15)).
  { unfold F', its1. cbn [length]. rewrite app_length, map_length. cbn [length]. lia. }
  rewrite HF'. cbn [climb blimit].
  pose proof (climb_shift 1 (4 * length its + 8) INF None its) as Cs. cbn [option_map] in Cs.
  rewrite Hcl in Cs. cbn [option_map shift_res fst snd map] in Cs. fold its1 in Cs.
  pose proof (climb_fuel_mono _ _ _ _ _ Cs (4 * length its + 15) ltac:(lia)) as Cm.
  assert (Hlo : forallb lim_ok its1 = true).
  { unfold its1. pose proof (items_of_lim_ok _ _ _ _ _ Hns Hits) as H0. clear -H0.
    induction its as [|it r IH]; [reflexivity|]. cbn [map forallb] in *. apply andb_true_iff in H0. destruct H0 as [H1 H2].
    rewrite (IH H2), andb_true_r. destruct it as [d k|d k|d k|d [k|]|k0 k|k0 k]; exact H1. }
  rewrite <- (climb_limit _ None its1 Hlo) in Cm.
  rewrite (climb_app_close BRound _ [] _ _ _ _ _ _ Cm). cbn [app].
  destruct (4 * length its + 15) as [|f] eqn:Ef; [lia|]. reflexivity.
Qed.

Theorem parens_whole_program (toks : list token_type) (T : rtree) :
  no_separators toks = true -> pratt toks = Some T ->
  exists g g', parse_tree toks = Some g /\ parse_tree (TT_StartGroup :: toks ++ [TT_EndGroup]) = Some g' /\
               strip_groups g' = strip_groups g.
Proof.
  intros Hns Hpr. exists (rg false T), (rg false (RGroup BRound 0 (shift_rtree 1 T))).
  split; [apply parse_tree_pratt; exact Hpr|]. split; [apply parse_tree_pratt, pratt_wrapped; assumption|].
  cbn [rg strip_groups bdef]. rewrite rg_shift. reflexivity.
Qed.

(* the statements in the form of Properties/C18.v *)
Theorem same_items_same_tree_b toks toks' its its' T :
  items_of toks 0 None false = Some its -> items_of toks' 0 None false = Some its' ->
  map untok_item its = map untok_item its' -> pratt toks = Some T ->
  opt_gtree_eqb (parse_tree toks) (parse_tree toks') = true /\ parse_tree toks <> None.
Proof.
  intros H1 H2 E Hpr. destruct (same_items_same_tree _ _ _ _ _ H1 H2 E Hpr) as (g & G1 & G2).
  rewrite G1, G2. split; [apply gtree_eqb_refl|discriminate].
Qed.

Theorem whitespace_where_allowed_b (pre post : list token_type) :
  gap_neutral pre post = true ->
  (exists T, pratt (pre ++ post) = Some T) \/ (exists T, pratt (pre ++ [TT_Whitespace] ++ post) = Some T) ->
  opt_gtree_eqb (parse_tree (pre ++ post)) (parse_tree (pre ++ [TT_Whitespace] ++ post)) = true /\
  parse_tree (pre ++ post) <> None.
Proof.
  intros Hg Hd. destruct (whitespace_where_allowed pre post Hg Hd) as (g & G1 & G2).
  rewrite G1, G2. split; [apply gtree_eqb_refl|discriminate].
Qed.
