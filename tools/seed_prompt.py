#!/usr/bin/env python3
"""Print the prompt for a fresh mutation-seeding sub-agent for one property (nothing from /verif but the property text)."""
import json, sys
pid = sys.argv[1]
rnd = sys.argv[2] if len(sys.argv) > 2 else ""
wt = "/tmp/seed%s_%s" % (rnd, pid)
n1, n2 = {"": (1, 2), "2": (3, 4), "3": (5, 6), "4": (7, 8), "5": (9, 10), "6": (11, 12)}.get(rnd, (9, 10))
extra4 = " Prefer defects that need state carried across several steps to show (call frames, the value stack, jump tables filled by earlier builds, interning, growth of a table, an earlier token influencing a later one), or that appear on only one of the two data implementations, or only for values at a representation boundary (i32 limits, multi-byte characters, empty containers, u64::MAX symbols, subnormal floats). Avoid the single most obvious function for this property."
extra5 = " Make each change look like ordinary maintenance (a refactoring, a performance shortcut, a clean-up of seemingly redundant code, a merged match arm, a hoisted computation, a changed default or constant) and choose a different crate for each of the two changes if the property allows. The change should alter behaviour only for a narrow class of inputs that a reviewer skimming the diff would not think of."
extra6 = " Aim for a change that needs TWO things at once to show: for example two cooperating sites that each look fine alone, state left behind by an earlier operation (an earlier build into the same data object, an earlier token, an earlier list, a growth or compaction step, a previous call frame) combined with a particular later input, or a value at a representation boundary reaching a helper through an indirect path (through a concatenation, a slice, a nested expression, a derived context). Choose helpers, trait implementations, iterators, conversions, bookkeeping fields or default settings rather than the function a reader would look at first, and make the diff look like ordinary maintenance."
extra = extra6 if rnd == "6" else "" if rnd in ("", "2") else extra4 if rnd == "4" else extra5 if rnd == "5" else " Stay away from the single most obvious function for this property: choose sites at least one call level away from it (helpers, trait implementations in the data crates, iterators, conversions, table construction, bookkeeping of the builder or parser state), or interactions between two crates."
p = [json.loads(l) for l in open("/verif/properties.jsonl") if json.loads(l)["id"] == pid][0]
print(f"""You are testing how robust a Rust code base is against subtle regressions. You work ONLY inside the scratch git worktree {wt} (a checkout of the repository garnish-lang/garnish-core: a scripting-language core with a hand-written lexer (compiler/src/lex), a precedence parser (compiler/src/parse), an instruction builder (compiler/src/build), a stack runtime (runtime/src) generic over a data trait (traits/src) and two data implementations (data/src: SimpleGarnishData in simple.rs/runtime.rs, BasicGarnishData under basic/)). Do not read or write anything under /verif or /repo, and do not use the network (run cargo with --offline).

This semantic property of the code base is supposed to hold:

  [{p['id']}] {p['title']}
  {p['statement']}
  (It quantifies over: {p['quantifier']['text']})

Your task: produce TWO different, independent source changes (different mechanisms / different sites) to the repository, each of which BREAKS this property while (a) the workspace still compiles and (b) the existing test suite still passes exactly as before (run `cargo test --workspace --offline 2>&1 | grep -E "^test result|FAILED"` before and after in the worktree: the same tests must pass; about 39 tests already fail upstream, that set must not change). Prefer changes that look like plausible maintenance mistakes or refactorings, and that need something specific to manifest — an unusual input, a particular combination of operand types or values, a multi-step sequence, two cooperating sites that each look fine alone, a boundary value — rather than ones any ordinary use would expose at once. Do not edit or delete existing tests.{extra}

For EACH of the two changes deliver, under {wt}/out/<n>/ (n = {n1}, {n2}):
  - patch.diff   : `git diff` of the change against the worktree's HEAD (source files only; applies with `git apply`)
  - a demonstration that FAILS with the change applied and PASSES without it: either demo_test.rs (a self-contained Rust integration test file that can be dropped into {wt}/tests/tests/ or compiler/tests/ etc. — say exactly where and how to run it) or a small program / script with the exact commands; keep it minimal and deterministic
  - meta.json    : {{"property": "{p['id']}", "what_breaks": "...", "needs_to_manifest": "the specific input / sequence / combination needed", "files_changed": [...], "how_to_run_demo": "...", "suite_before": "...", "suite_after": "..."}}
Verify each yourself: demo passes on the clean worktree, fails with the patch, and the suite result lines are unchanged with the patch. Leave the worktree clean (`git checkout -- . ` and remove untracked demo files from the source tree) when done, keeping only the out/ directory. Final answer: a short description of the two changes and where the files are.""")
