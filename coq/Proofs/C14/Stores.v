(* Length headers: what both data implementations store for a parsed char /
   byte list is read back item for item, and a symbol keeps its name. *)
From Coq Require Import ZArith NArith List Bool Lia.
From GV Require Import Base.Result Model.Literals Spec.LitDenote.
Import ListNotations.
Local Open Scope N_scope.

Definition ok_items (l : list N) : list (res (option N)) := map (fun c => Ok (Some c)) l.

Lemma read_items_exact : forall (item : N -> res (option N)) l i,
  (forall k c, nth_error l k = Some c -> item (i + N.of_nat k) = Ok (Some c)) ->
  read_items item (length l) i = ok_items l.
Proof.
  intros item l. induction l as [|c l IH]; intros i H; [reflexivity|].
  cbn [length read_items ok_items map]. f_equal.
  - specialize (H O c eq_refl). rewrite N.add_0_r in H. exact H.
  - apply IH. intros k c' Hk. specialize (H (S k) c' Hk).
    replace (i + 1 + N.of_nat k) with (i + N.of_nat (S k)) by lia. exact H.
Qed.

Lemma nth_error_lt : forall (A : Type) (l : list A) k c, nth_error l k = Some c -> (k < length l)%nat.
Proof. intros A l k c H. apply nth_error_Some. congruence. Qed.

Theorem simple_store_chars_exact : forall s,
  simple_store_chars chars_count s = (N.of_nat (length s), ok_items s).
Proof.
  intros s. unfold simple_store_chars, simple_char_list_len, chars_count. rewrite Nat2N.id. f_equal.
  apply read_items_exact. intros k c Hk. unfold simple_char_list_item.
  rewrite N.add_0_l, Nat2N.id, Hk. reflexivity.
Qed.

Theorem simple_store_bytes_exact : forall bs,
  simple_store_bytes bs = (N.of_nat (length bs), ok_items bs).
Proof.
  intros bs. unfold simple_store_bytes. rewrite Nat2N.id. f_equal.
  apply read_items_exact. intros k c Hk. rewrite N.add_0_l, Nat2N.id, Hk. reflexivity.
Qed.

Theorem basic_store_chars_exact : forall s,
  basic_store_chars s = (N.of_nat (length s), ok_items s).
Proof.
  intros s. unfold basic_store_chars, basic_text_cells, chars_count.
  change (basic_char_list_len (CCharList (N.of_nat (length s)) :: map CChar s) 0) with (@Ok N (N.of_nat (length s))).
  cbv iota. rewrite Nat2N.id. f_equal.
  apply read_items_exact. intros k c Hk. unfold basic_char_list_item.
  change (basic_char_list_len (CCharList (N.of_nat (length s)) :: map CChar s) 0) with (@Ok N (N.of_nat (length s))).
  cbn [bind]. pose proof (nth_error_lt _ _ _ _ Hk) as Hlt.
  replace (N.of_nat (length s) <=? 0 + N.of_nat k) with false by (symmetry; apply N.leb_gt; lia).
  unfold cell_at. replace (N.to_nat (0 + 1 + (0 + N.of_nat k))) with (S k) by lia.
  cbn [nth_error]. rewrite nth_error_map, Hk. reflexivity.
Qed.

Theorem basic_store_bytes_exact : forall bs,
  basic_store_bytes bs = (N.of_nat (length bs), ok_items bs).
Proof.
  intros bs. unfold basic_store_bytes, basic_bytes_cells.
  change (basic_byte_list_len (CByteList (N.of_nat (length bs)) :: map CByte bs) 0) with (@Ok N (N.of_nat (length bs))).
  cbv iota. rewrite Nat2N.id. f_equal.
  apply read_items_exact. intros k c Hk. unfold basic_byte_list_item.
  change (basic_byte_list_len (CByteList (N.of_nat (length bs)) :: map CByte bs) 0) with (@Ok N (N.of_nat (length bs))).
  cbn [bind]. pose proof (nth_error_lt _ _ _ _ Hk) as Hlt.
  replace (N.of_nat (length bs) <=? 0 + N.of_nat k) with false by (symmetry; apply N.leb_gt; lia).
  unfold cell_at. replace (N.to_nat (0 + 1 + (0 + N.of_nat k))) with (S k) by lia.
  cbn [nth_error]. rewrite nth_error_map, Hk. reflexivity.
Qed.

Lemma read_chars_map : forall s, read_chars_panic (map CChar s) = Ok s.
Proof. induction s as [|c s IH]; [reflexivity|]. cbn [map read_chars_panic]. rewrite IH. reflexivity. Qed.

(* a symbol keeps the name it was written with (BasicGarnishData: the name is a
   CharList whose header is the character count) *)
Theorem basic_symbol_keeps_name : forall (hash : str -> N) name,
  basic_get_symbol_string (fst (basic_parse_add_symbol chars_count hash 0 name))
    (snd (basic_parse_add_symbol chars_count hash 0 name)) (hash (symbol_key name)) = Ok (Some name).
Proof.
  intros hash name. unfold basic_parse_add_symbol. cbn [fst snd]. unfold basic_get_symbol_string. cbn [fst snd].
  rewrite N.eqb_refl. unfold basic_slice_chars, basic_text_cells.
  change (basic_char_list_len (CSymbol (hash (symbol_key name)) :: CCharList (chars_count name) :: map CChar name) (0 + 1))
    with (@Ok N (chars_count name)).
  cbn [bind]. unfold chars_count. cbn [length]. rewrite map_length.
  replace (N.of_nat (S (S (length name))) <? 0 + 1 + 1 + N.of_nat (length name)) with false
    by (symmetry; apply N.ltb_ge; lia).
  replace (N.to_nat (0 + 1 + 1)) with 2%nat by lia. cbn [skipn]. rewrite Nat2N.id.
  rewrite <- (map_length CChar name) at 1. rewrite firstn_all, read_chars_map. reflexivity.
Qed.

Theorem simple_symbol_keeps_name : forall (hash : str -> N) name,
  simple_symbol_name (simple_parse_add_symbol hash name) (hash (symbol_key name)) = Some name.
Proof. intros hash name. unfold simple_symbol_name, simple_parse_add_symbol. cbn [fst snd]. rewrite N.eqb_refl. reflexivity. Qed.

(* the headers as they were before the fixes (String::len()): witnesses *)
Lemma simple_byte_length_header_refuted :
  simple_store_chars str_len [233] <> (1, ok_items [233]).
Proof. vm_compute. discriminate. Qed.

Lemma basic_symbol_byte_length_header_refuted :
  basic_get_symbol_string (fst (basic_parse_add_symbol str_len (fun _ => 7) 0 [233]))
    (snd (basic_parse_add_symbol str_len (fun _ => 7) 0 [233])) 7 = Panic 5.
Proof. vm_compute. reflexivity. Qed.
