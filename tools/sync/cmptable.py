"""Gen/CmpTable.v: the tables of runtime/src/runtime/comparison.rs.

* for each of less_than / less_than_or_equal / greater_than / greater_than_or_equal:
  the ordering handed to perform_comparison as "the one that counts as false",
  the Ordering test applied to the result (is_lt ...), and what a None result pushes;
* the (left type, right type) arms of perform_comparison in source order, each
  classified by its (whitespace-normalised) body, and the wildcard arm.

An arm body or operator shape that is not recognised raises: a broken tie."""
import re
from . import rustsrc as R

SRC = "runtime/src/runtime/comparison.rs"
OPS = [("less_than", "CLt"), ("less_than_or_equal", "CLe"), ("greater_than", "CGt"), ("greater_than_or_equal", "CGe")]
ORD = {"Less": "Lt", "Equal": "Eq", "Greater": "Gt"}
TESTS = {"is_lt": "Is_lt", "is_le": "Is_le", "is_gt": "Is_gt", "is_ge": "Is_ge", "is_eq": "Is_eq", "is_ne": "Is_ne"}


def norm(s):
    return re.sub(r"\s+", "", s)


def classify_body(body):
    b = norm(body).rstrip(",")
    table = {
        "this.get_number(left)?.partial_cmp(&this.get_number(right)?)": "ArmNumber",
        "this.get_char(left)?.partial_cmp(&this.get_char(right)?)": "ArmChar",
        "this.get_byte(left)?.partial_cmp(&this.get_byte(right)?)": "ArmByte",
        "cmp_list(this,left,right,Data::Number::zero(),Data::Number::zero(),Data::get_char_list_item,Data::get_char_list_len,)?": "ArmCharList",
        "cmp_list(this,left,right,Data::Number::zero(),Data::Number::zero(),Data::get_byte_list_item,Data::get_byte_list_len,)?": "ArmByteList",
        "returnOk(Some(false_ord))": "ArmFalseOrd",
    }
    if b in table:
        return table[b]
    if b.startswith("{let(left_value,left_range)=this.get_slice(left)?;"):
        return "ArmSlice"
    raise ValueError("perform_comparison: unrecognised arm body %r" % b[:120])


def split_arms(body):
    """[(pattern text, body text)] of a match body, top level only."""
    arms, i, n = [], 0, len(body)
    while i < n:
        j = i
        depth = 0
        # pattern: up to `=>` at depth 0
        while j < n and not (depth == 0 and body.startswith("=>", j)):
            if body[j] in "([{": depth += 1
            elif body[j] in ")]}": depth -= 1
            j += 1
        if j >= n:
            if body[i:].strip():
                raise ValueError("trailing text in match body: %r" % body[i:i + 60])
            break
        pat = body[i:j].strip()
        k = j + 2
        while k < n and body[k].isspace():
            k += 1
        if k < n and body[k] == "{":
            e = R.match_brace(body, k)
            arm_body = body[k:e]
            k = e
            while k < n and body[k] in " \t\r\n,":
                k += 1
        else:
            e, depth = k, 0
            while e < n and not (depth == 0 and body[e] == ","):
                if body[e] in "([{": depth += 1
                elif body[e] in ")]}": depth -= 1
                e += 1
            arm_body = body[k:e]
            k = e + 1
        arms.append((pat, arm_body))
        i = k
    return arms


def generate():
    src = R.strip_comments(R.read(SRC))
    lines = [R.HEADER % SRC, "From GV Require Import Gen.Instr.\n"]
    fo, tests = {}, {}
    for fn, ctor in OPS:
        body = R.item_body(src, r"pub fn %s<" % fn)
        m = re.search(r"perform_comparison\(this,\s*Ordering::(\w+)\)", body)
        t = re.search(r"Some\(result\)\s*=>\s*push_boolean\(this,\s*result\.(is_\w+)\(\)\)", body)
        u = re.search(r"None\s*=>\s*push_unit\(this\)", body)
        if not (m and t and u) or m.group(1) not in ORD or t.group(1) not in TESTS:
            raise ValueError("%s: operator shape not recognised" % fn)
        fo[ctor], tests[ctor] = ORD[m.group(1)], TESTS[t.group(1)]
    lines.append("Inductive cmp_op : Type := CLt | CLe | CGt | CGe.")
    lines.append("Definition all_cmp_op : list cmp_op := [CLt; CLe; CGt; CGe].")
    lines.append("Inductive ord_test : Type := Is_lt | Is_le | Is_gt | Is_ge | Is_eq | Is_ne.")
    lines.append("(* the ordering each operator passes to perform_comparison as its false_ord *)")
    lines.append("Definition op_false_ord (o : cmp_op) : comparison :=\n  match o with " +
                 " | ".join("%s => %s" % (c, fo[c]) for _, c in OPS) + " end.")
    lines.append("(* the Ordering method applied to Some(result); None pushes unit *)")
    lines.append("Definition op_test (o : cmp_op) : ord_test :=\n  match o with " +
                 " | ".join("%s => %s" % (c, tests[c]) for _, c in OPS) + " end.")
    pc = R.item_body(src, r"fn perform_comparison<")
    if not re.search(r"let\s*\(right,\s*left\)\s*=\s*next_two_raw_ref\(this\)\?;", pc):
        raise ValueError("perform_comparison: operand pop order not recognised")
    m = re.search(r"match\s*\(this\.get_data_type\(left\.clone\(\)\)\?,\s*this\.get_data_type\(right\.clone\(\)\)\?\)\s*\{", pc)
    if not m:
        raise ValueError("perform_comparison: dispatch match not found")
    start = m.end() - 1
    end = R.match_brace(pc, start)
    arms = split_arms(pc[start + 1:end - 1])
    rows, default = [], None
    for pat, body in arms:
        kind = classify_body(body)
        if pat == "_":
            default = kind
            continue
        pm = re.fullmatch(r"\(GarnishDataType::(\w+),\s*GarnishDataType::(\w+)\)", pat)
        if not pm or default is not None:
            raise ValueError("perform_comparison: unrecognised pattern %r" % pat)
        rows.append((pm.group(1), pm.group(2), kind))
    if default is None:
        raise ValueError("perform_comparison: no wildcard arm")
    lines.append("Inductive cmp_arm : Type := ArmNumber | ArmChar | ArmByte | ArmCharList | ArmByteList | ArmSlice | ArmFalseOrd.")
    lines.append("(* arms of perform_comparison's (left type, right type) match, in source order *)")
    lines.append("Definition cmp_arms : list (data_type * data_type * cmp_arm) :=\n  [" +
                 ";\n   ".join("(T_%s, T_%s, %s)" % r for r in rows) + "].")
    lines.append("Definition cmp_default : cmp_arm := %s." % default)
    return {"CmpTable.v": "\n".join(lines) + "\n"}
