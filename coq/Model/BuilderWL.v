(* Executable transliteration of compiler/src/build/build.rs: the two-stack
   worklist of build() on the raw parse-node array.  It runs on anything the
   parser produces (including node graphs that are not trees), with explicit
   fuel ([OutOfFuel] = the Rust loops forever) and [Panic] at the unchecked
   indexing sites (`nodes[right] = ...`).  The data object is abstracted to what
   the builder itself reads and writes: the instruction table, the jump table
   and the kind of each data operand.  Literal parsing (the parse_add functions) is an
   oracle: [lit_ok node] says whether the node's literal text parses.
   No proofs in this file. *)
From Coq Require Import List Arith Bool NArith.
From GV Require Import Base.Result Gen.TokenTypes Gen.Defs Gen.Instr Model.Parser.
Import ListNotations.

Definition E_build : N := 10%N.       (* CompilerError from build itself *)
Definition E_literal : N := 11%N.     (* data error from a parse_add function *)
Definition P_index : N := 20%N.       (* `nodes[i] = ...` out of range *)

Inductive operand : Type :=
| ONone
| ONum (n : nat)        (* jump-table index or list length *)
| OData (node : nat)    (* constant made from the literal of parse node [node] *)
| OExpr (jump : nat).   (* expression value whose body is jump-table entry [jump] *)

Definition operand_eqb (a b : operand) : bool :=
  match a, b with
  | ONone, ONone => true
  | ONum x, ONum y => Nat.eqb x y
  | OData x, OData y => Nat.eqb x y
  | OExpr x, OExpr y => Nat.eqb x y
  | _, _ => false
  end.

Definition instr : Type := (instruction * operand)%type.
Definition instr_eqb (a b : instr) : bool :=
  instruction_eqb (fst a) (fst b) && operand_eqb (snd a) (snd b).

Record bnode : Type := mkB {
  b_init : bool;
  b_pidx : nat;
  b_containing : nat;
  b_list_parent : option (nat * definition);
  b_child_count : nat;
  b_contrib : bool;
  b_jump_upd : option nat;
  b_root_end : option (list instr);
  b_cond_parent : option nat;
  b_cond_items : list (nat * nat);    (* (node_index, jump_index_to_update) *)
  b_left_built : bool
}.

Definition b_new (p c : nat) : bnode := mkB false p c None 0 true None None None [] false.
Definition b_new_list (p c lp : nat) (d : definition) : bnode := mkB false p c (Some (lp, d)) 0 true None None None [] false.
Definition b_new_cond (p c cp : nat) : bnode := mkB false p c None 0 true None None (Some cp) [] false.
Definition b_new_jump (p c j : nat) : bnode := mkB false p c None 0 true (Some j) None None [] false.
Definition b_new_jump_end (p c j : nat) (e : list instr) : bnode := mkB false p c None 0 true (Some j) (Some e) None [] false.

Definition b_set_init (b : bnode) : bnode :=
  mkB true (b_pidx b) (b_containing b) (b_list_parent b) (b_child_count b) (b_contrib b)
      (b_jump_upd b) (b_root_end b) (b_cond_parent b) (b_cond_items b) (b_left_built b).
Definition b_set_contrib (v : bool) (b : bnode) : bnode :=
  mkB (b_init b) (b_pidx b) (b_containing b) (b_list_parent b) (b_child_count b) v
      (b_jump_upd b) (b_root_end b) (b_cond_parent b) (b_cond_items b) (b_left_built b).
Definition b_inc_count (b : bnode) : bnode :=
  mkB (b_init b) (b_pidx b) (b_containing b) (b_list_parent b) (S (b_child_count b)) (b_contrib b)
      (b_jump_upd b) (b_root_end b) (b_cond_parent b) (b_cond_items b) (b_left_built b).
Definition b_add_item (it : nat * nat) (b : bnode) : bnode :=
  mkB (b_init b) (b_pidx b) (b_containing b) (b_list_parent b) (b_child_count b) (b_contrib b)
      (b_jump_upd b) (b_root_end b) (b_cond_parent b) (b_cond_items b ++ [it]) (b_left_built b).
Definition b_set_left_built (b : bnode) : bnode :=
  mkB (b_init b) (b_pidx b) (b_containing b) (b_list_parent b) (b_child_count b) (b_contrib b)
      (b_jump_upd b) (b_root_end b) (b_cond_parent b) (b_cond_items b) true.

Record bstate : Type := mkBS {
  bnodes : list (option bnode);
  instrs : list instr;            (* instructions pushed by this build, in order *)
  meta : list (option nat);       (* one record per pushed instruction *)
  jumps : list nat;               (* jump-table entries pushed by this build (absolute targets) *)
  root_stack : list nat;
  steps : nat                     (* iterations of the node loop so far (max_steps guard) *)
}.

(* what the data object held before this build *)
Record binit : Type := mkInit {
  i_instr_len : nat;
  i_jump_len : nat;
  i_last_instr : option instr
}.
Definition empty_init : binit := mkInit 0 0 None.

Section Build.
Variable tree : list pnode.
Variable init : binit.
Variable lit_ok : nat -> bool.

Definition berr {A} : res A := Err E_build.

Definition instr_len (s : bstate) : nat := i_instr_len init + length (instrs s).
Definition jump_len (s : bstate) : nat := i_jump_len init + length (jumps s).

Definition push_instr (s : bstate) (i : instr) (m : option nat) : bstate :=
  mkBS (bnodes s) (instrs s ++ [i]) (meta s ++ [m]) (jumps s) (root_stack s) (steps s).
Definition push_jump (s : bstate) (target : nat) : bstate :=
  mkBS (bnodes s) (instrs s) (meta s) (jumps s ++ [target]) (root_stack s) (steps s).
Definition push_root (s : bstate) (r : nat) : bstate :=
  mkBS (bnodes s) (instrs s) (meta s) (jumps s) (r :: root_stack s) (steps s).
Definition with_bnodes (s : bstate) (l : list (option bnode)) : bstate :=
  mkBS l (instrs s) (meta s) (jumps s) (root_stack s) (steps s).

(* get_from_jump_table_mut(index) = value: only entries of this build can be
   addressed in the model; an index below the initial length would overwrite an
   earlier program's entry, which the model reports as a build error class of
   its own so that C20 can talk about it *)
Definition E_foreign_jump : N := 12%N.
Definition set_jump (s : bstate) (index target : nat) : res bstate :=
  if Nat.ltb index (i_jump_len init) then Err E_foreign_jump else
  match upd (jumps s) (index - i_jump_len init) (fun _ => target) with
  | Some l => Ok (mkBS (bnodes s) (instrs s) (meta s) l (root_stack s) (steps s))
  | None => berr
  end.

Definition get_b (s : bstate) (i : nat) : res bnode :=
  match nth_error (bnodes s) i with
  | Some (Some b) => Ok b
  | _ => berr
  end.
(* nodes.get_mut(i) -> write back *)
Definition put_b (s : bstate) (i : nat) (b : bnode) : res bstate :=
  match upd (bnodes s) i (fun _ => Some b) with
  | Some l => Ok (with_bnodes s l)
  | None => berr
  end.
(* nodes[i] = Some(b): panics when out of range *)
Definition assign_b (s : bstate) (i : nat) (b : bnode) : res bstate :=
  match upd (bnodes s) i (fun _ => Some b) with
  | Some l => Ok (with_bnodes s l)
  | None => Panic P_index
  end.

Definition need {A} (o : option A) : res A := match o with Some a => Ok a | None => berr end.

Definition wl : Type := (bstate * list nat)%type.   (* state, node stack (head = top) *)

Definition handle_value_like (i : instruction) (with_data : bool) (s : bstate) (stack : list nat)
           (ni : nat) (pn : pnode) : res wl :=
  do b <- get_b s ni;
  if negb (b_init b) then
    do s1 <- put_b s ni (b_set_init b);
    let c := b_containing b in
    do r1 <- match n_right pn with
             | None => Ok (s1, stack)
             | Some r => do s2 <- assign_b s1 r (b_new r c); Ok (s2, r :: stack)
             end;
    let '(s2, st2) := r1 in
    let st3 := ni :: st2 in
    match n_left pn with
    | None => Ok (s2, st3)
    | Some l => do s3 <- assign_b s2 l (b_new l c); Ok (s3, l :: st3)
    end
  else
    if with_data && negb (lit_ok ni) then Err E_literal else
    Ok (push_instr s (i, if with_data then OData ni else ONone) (Some ni), stack).

Definition handle_unary (i : instruction) (child : option nat) (s : bstate) (stack : list nat)
           (ni : nat) : res wl :=
  do b <- get_b s ni;
  if negb (b_init b) then
    do s1 <- put_b s ni (b_set_init b);
    do c <- need child;
    do s2 <- assign_b s1 c (b_new c (b_containing b));
    Ok (s2, c :: b_pidx b :: stack)
  else Ok (push_instr s (i, ONone) (Some (b_pidx b)), stack).

(* handle_unary_suffix: a right child (a side effect block following the suffix
   expression) is built after the operation *)
Definition handle_unary_suffix (i : instruction) (s : bstate) (stack : list nat)
           (ni : nat) (pn : pnode) : res wl :=
  do b <- get_b s ni;
  if negb (b_init b) then
    do s1 <- put_b s ni (b_set_init b);
    let c := b_containing b in
    do r1 <- match n_right pn with
             | None => Ok (s1, stack)
             | Some r => do s2 <- assign_b s1 r (b_new r c); Ok (s2, r :: stack)
             end;
    let '(s2, st2) := r1 in
    do l <- need (n_left pn);
    do s3 <- assign_b s2 l (b_new l c);
    Ok (s3, l :: ni :: st2)
  else Ok (push_instr s (i, ONone) (Some (b_pidx b)), stack).

Definition handle_binary (i : instruction) (left_right_order : bool) (s : bstate) (stack : list nat)
           (ni : nat) (pn : pnode) : res wl :=
  do b <- get_b s ni;
  if negb (b_init b) then
    do s1 <- put_b s ni (b_set_init b);
    do r <- need (n_right pn);
    do l <- need (n_left pn);
    (* order_fn: default |l, r| (r, l): push right then left, so left is popped
       first; Pair / ApplyTo use |l, r| (l, r): right is popped first *)
    let '(first, second) := if left_right_order then (l, r) else (r, l) in
    let c := b_containing b in
    do s2 <- assign_b s1 r (b_new r c);
    do s3 <- assign_b s2 l (b_new l c);
    Ok (s3, second :: first :: b_pidx b :: stack)
  else Ok (push_instr s (i, ONone) (Some (b_pidx b)), stack).

Definition handle_list (s : bstate) (stack : list nat) (ni : nat) (pn : pnode) : res wl :=
  do b <- get_b s ni;
  let same := match b_list_parent b with
              | Some (_, d) => definition_eqb d (n_def pn) | None => false end in
  if negb (b_init b) then
    let '(parent, d, contributes) :=
      match b_list_parent b with
      | Some (p, d) => if definition_eqb d (n_def pn) then (p, d, false) else (ni, n_def pn, true)
      | None => (ni, n_def pn, true)
      end in
    do s1 <- put_b s ni (b_set_contrib contributes (b_set_init b));
    let c := b_containing b in
    let st1 := b_pidx b :: stack in
    do r1 <- match n_right pn with
             | None => Ok (s1, st1)
             | Some r => do s2 <- assign_b s1 r (b_new_list r c parent d); Ok (s2, r :: st1)
             end;
    let '(s2, st2) := r1 in
    match n_left pn with
    | None => Ok (s2, st2)
    | Some l => do s3 <- assign_b s2 l (b_new_list l c parent d); Ok (s3, l :: st2)
    end
  else
    if same then Ok (s, stack)
    else
      do b2 <- get_b s ni;
      let count := b_child_count b2 in
      do s1 <- put_b s ni (b_inc_count b2);
      Ok (push_instr s1 (I_MakeList, ONum count) (Some (b_pidx b2)), stack).

Definition handle_logical (i : instruction) (s : bstate) (stack : list nat) (ni : nat) (pn : pnode) : res wl :=
  do b <- get_b s ni;
  if negb (b_init b) then
    do s1 <- put_b s ni (b_set_init b);
    do l <- need (n_left pn);
    do s2 <- assign_b s1 l (b_new_cond l (b_containing b) ni);
    Ok (s2, l :: b_pidx b :: stack)
  else
    let jump_index := jump_len s in
    let s1 := push_jump s 0 in
    let s2 := push_instr s1 (i, ONum jump_index) (Some ni) in
    do r <- need (n_right pn);
    let s3 := push_root s2 r in
    let jump_to := jump_len s3 in
    let s4 := push_jump s3 (instr_len s3) in
    do s5 <- assign_b s4 r (b_new_jump_end r (b_containing b) jump_index [(I_Tis, ONone); (I_JumpTo, ONum jump_to)]);
    Ok (s5, stack).

Definition handle_jump_if (i : instruction) (s : bstate) (stack : list nat) (ni : nat) (pn : pnode) : res wl :=
  do b <- get_b s ni;
  if negb (b_init b) then
    do s1 <- put_b s ni (b_set_init b);
    do l <- need (n_left pn);
    do s2 <- assign_b s1 l (b_new l (b_containing b));
    Ok (s2, l :: b_pidx b :: stack)
  else
    let jump_index := jump_len s in
    let s1 := push_jump s 0 in
    do r <- need (n_right pn);
    match b_cond_parent b with
    | Some cp =>
      match nth_error (bnodes s1) cp with
      | Some (Some parent) =>
        do s2 <- put_b s1 cp (b_add_item (r, jump_index) parent);
        Ok (push_instr s2 (i, ONum jump_index) (Some ni), stack)
      | _ => Ok (s1, stack)
      end
    | None =>
      let s2 := push_instr s1 (i, ONum jump_index) (Some ni) in
      let s3 := push_instr s2 (I_PutValue, ONone) None in
      let s4 := push_root s3 r in
      let jump_to := jump_len s4 in
      let s5 := push_jump s4 (instr_len s4) in
      do s6 <- assign_b s5 r (b_new_jump_end r (b_containing b) jump_index [(I_JumpTo, ONum jump_to)]);
      Ok (s6, stack)
    end.

Definition handle_else (s : bstate) (stack : list nat) (ni : nat) (pn : pnode) : res wl :=
  do b <- get_b s ni;
  if negb (b_init b) then
    do s1 <- put_b s ni (b_set_init b);
    do r <- need (n_right pn);
    do l <- need (n_left pn);
    let c := b_containing b in
    let cp := match b_cond_parent b with Some p => p | None => ni end in
    do s2 <- assign_b s1 r (b_new_cond r c cp);
    do s3 <- assign_b s2 l (b_new_cond l c cp);
    Ok (s3, l :: r :: b_pidx b :: stack)
  else
    match b_cond_parent b with
    | Some _ => Ok (s, stack)
    | None =>
      match b_cond_items b with
      | [] => Ok (s, stack)
      | items =>
        let jump_to := jump_len s in
        let s1 := push_jump s (instr_len s) in
        let s2 := fold_left (fun acc it => push_root acc (fst it)) items s1 in
        do s3 <- fold_left (fun (acc : res bstate) (it : nat * nat) =>
                     do a <- acc;
                     assign_b a (fst it) (b_new_jump_end (fst it) (b_containing b) (snd it) [(I_JumpTo, ONum jump_to)]))
                   items (Ok s2);
        Ok (s3, stack)
      end
    end.

Definition handle_fix_apply (child : option nat) (after : option nat) (s : bstate) (stack : list nat) (ni : nat) : res wl :=
  do b <- get_b s ni;
  if negb (b_init b) then
    do s1 <- put_b s ni (b_set_init b);
    if negb (lit_ok ni) then Err E_literal else
    let s2 := push_instr s1 (I_Resolve, OData ni) None in
    do c <- need child;
    let cj := b_containing b in
    do r1 <- match after with
             | None => Ok (s2, stack)
             | Some a => do s' <- assign_b s2 a (b_new a cj); Ok (s', a :: stack)
             end;
    let '(s3, st3) := r1 in
    do s4 <- assign_b s3 c (b_new c cj);
    Ok (s4, c :: ni :: st3)
  else Ok (push_instr s (I_Apply, ONone) (Some ni), stack).

Definition binary_instruction (d : definition) : option (instruction * bool) :=
  match d with
  | D_Addition => Some (I_Add, false) | D_Subtraction => Some (I_Subtract, false)
  | D_MultiplicationSign => Some (I_Multiply, false) | D_Division => Some (I_Divide, false)
  | D_Access => Some (I_Access, false) | D_Range => Some (I_MakeRange, false)
  | D_StartExclusiveRange => Some (I_MakeStartExclusiveRange, false)
  | D_EndExclusiveRange => Some (I_MakeEndExclusiveRange, false)
  | D_ExclusiveRange => Some (I_MakeExclusiveRange, false)
  | D_ExponentialSign => Some (I_Power, false) | D_Remainder => Some (I_Remainder, false)
  | D_IntegerDivision => Some (I_IntegerDivide, false)
  | D_BitwiseAnd => Some (I_BitwiseAnd, false) | D_BitwiseOr => Some (I_BitwiseOr, false)
  | D_BitwiseXor => Some (I_BitwiseXor, false)
  | D_BitwiseRightShift => Some (I_BitwiseShiftRight, false)
  | D_BitwiseLeftShift => Some (I_BitwiseShiftLeft, false)
  | D_Xor => Some (I_Xor, false) | D_TypeEqual => Some (I_TypeEqual, false)
  | D_TypeCast => Some (I_ApplyType, false) | D_Equality => Some (I_Equal, false)
  | D_Inequality => Some (I_NotEqual, false) | D_LessThan => Some (I_LessThan, false)
  | D_LessThanOrEqual => Some (I_LessThanOrEqual, false) | D_GreaterThan => Some (I_GreaterThan, false)
  | D_GreaterThanOrEqual => Some (I_GreaterThanOrEqual, false)
  | D_Apply => Some (I_Apply, false) | D_PartialApply => Some (I_PartialApply, false)
  | D_Concatenation => Some (I_Concat, false)
  | D_Pair => Some (I_MakePair, true) | D_ApplyTo => Some (I_Apply, true)
  | _ => None
  end.

Definition handle_parse_node (s : bstate) (current_root_jump : nat) (stack : list nat) (ni : nat) (pn : pnode) : res wl :=
  match n_def pn with
  | D_Unit | D_False | D_True | D_Number | D_CharList | D_ByteList | D_Symbol =>
      handle_value_like I_Put true s stack ni pn
  | D_Value => handle_value_like I_PutValue false s stack ni pn
  | D_Identifier => handle_value_like I_Resolve true s stack ni pn
  | D_Property => handle_value_like I_Put true s stack ni pn
  | D_ExpressionTerminator => handle_value_like I_EndExpression false s stack ni pn
  | D_AbsoluteValue => handle_unary I_AbsoluteValue (n_right pn) s stack ni
  | D_Opposite => handle_unary I_Opposite (n_right pn) s stack ni
  | D_BitwiseNot => handle_unary I_BitwiseNot (n_right pn) s stack ni
  | D_Not => handle_unary I_Not (n_right pn) s stack ni
  | D_Tis => handle_unary I_Tis (n_right pn) s stack ni
  | D_TypeOf => handle_unary I_TypeOf (n_right pn) s stack ni
  | D_AccessLeftInternal => handle_unary I_AccessLeftInternal (n_right pn) s stack ni
  | D_EmptyApply => handle_unary_suffix I_EmptyApply s stack ni pn
  | D_AccessRightInternal => handle_unary_suffix I_AccessRightInternal s stack ni pn
  | D_AccessLengthInternal => handle_unary_suffix I_AccessLengthInternal s stack ni pn
  | D_CommaList | D_List => handle_list s stack ni pn
  | D_Or => handle_logical I_Or s stack ni pn
  | D_And => handle_logical I_And s stack ni pn
  | D_Group =>
      match n_right pn with
      | None => Ok (s, stack)
      | Some r =>
        do b <- get_b s ni;
        do s1 <- assign_b s r (b_new r (b_containing b));
        Ok (s1, r :: stack)
      end
  | D_SideEffect =>
      do b <- get_b s ni;
      match (if negb (b_init b) && negb (b_left_built b) then n_left pn else None) with
      | Some l =>
        do s1 <- put_b s ni (b_set_left_built b);
        do s2 <- assign_b s1 l (b_new l (b_containing b));
        Ok (s2, l :: ni :: stack)
      | None =>
      if negb (b_init b) then
        do s1 <- put_b s ni (b_set_init b);
        let s2 := push_instr s1 (I_StartSideEffect, ONone) (Some ni) in
        match n_right pn with
        | None => Ok (s2, ni :: stack)
        | Some r => do s3 <- assign_b s2 r (b_new r (b_containing b)); Ok (s3, r :: ni :: stack)
        end
      else Ok (push_instr s (I_EndSideEffect, ONone) (Some ni), stack)
      end
  | D_NestedExpression =>
      match n_right pn with
      | None =>
        let c := match nth_error (bnodes s) ni with
                 | Some (Some b) => b_containing b
                 | _ => current_root_jump
                 end in
        Ok (push_instr s (I_Put, OExpr c) (Some ni), stack)
      | Some r =>
        let jump_index := jump_len s in
        let s1 := push_jump s 0 in
        let s2 := push_instr s1 (I_Put, OExpr jump_index) (Some ni) in
        do s3 <- assign_b s2 r (b_new_jump r jump_index jump_index);
        Ok (push_root s3 r, stack)
      end
  | D_JumpIfFalse => handle_jump_if I_JumpIfFalse s stack ni pn
  | D_JumpIfTrue => handle_jump_if I_JumpIfTrue s stack ni pn
  | D_ElseJump => handle_else s stack ni pn
  | D_Reapply =>
      do b <- get_b s ni;
      if negb (b_init b) then
        do s1 <- put_b s ni (b_set_init b);
        do r <- need (n_right pn);
        do s2 <- assign_b s1 r (b_new r (b_containing b));
        Ok (s2, r :: b_pidx b :: stack)
      else
        let s1 := push_instr s (I_UpdateValue, ONone) (Some ni) in
        Ok (push_instr s1 (I_JumpTo, ONum (b_containing b)) (Some ni), stack)
  | D_Subexpression | D_ExpressionSeparator =>
      do b <- get_b s ni;
      if negb (b_init b) then
        do s1 <- put_b s ni (b_set_init b);
        do r <- need (n_right pn);
        do l <- need (n_left pn);
        let c := b_containing b in
        do s2 <- assign_b s1 r (b_new r c);
        do s3 <- assign_b s2 l (b_new l c);
        Ok (s3, l :: ni :: r :: stack)
      else Ok (push_instr s (I_UpdateValue, ONone) (Some ni), stack)
  | D_SuffixApply => handle_fix_apply (n_left pn) (n_right pn) s stack ni
  | D_PrefixApply => handle_fix_apply (n_right pn) None s stack ni
  | D_InfixApply =>
      do b <- get_b s ni;
      if negb (b_init b) then
        do s1 <- put_b s ni (b_set_init b);
        if negb (lit_ok ni) then Err E_literal else
        let s2 := push_instr s1 (I_Resolve, OData ni) None in
        do r <- need (n_right pn);
        do l <- need (n_left pn);
        let c := b_containing b in
        do s3 <- assign_b s2 r (b_new r c);
        do s4 <- assign_b s3 l (b_new l c);
        Ok (s4, l :: r :: ni :: stack)
      else
        let s1 := push_instr s (I_MakeList, ONum 2) None in
        Ok (push_instr s1 (I_Apply, ONone) (Some ni), stack)
  | D_Drop => berr
  | _ =>
      match binary_instruction (n_def pn) with
      | Some (i, lf) => handle_binary i lf s stack ni pn
      | None => berr
      end
  end.

(* bookkeeping after handle_parse_node: a node that contributes to a list bumps
   its list parent's child count once *)
Definition after_node (s : bstate) (ni : nat) : res bstate :=
  match nth_error (bnodes s) ni with
  | Some (Some b) =>
    if b_contrib b then
      match b_list_parent b with
      | Some (parent, _) =>
        do s1 <- put_b s ni (b_set_contrib false b);
        do pb <- get_b s1 parent;
        put_b s1 parent (b_inc_count pb)
      | None => Ok s
      end
    else Ok s
  | _ => Ok s
  end.

Definition max_steps : nat := length tree * 16 + 16.

(* the link check at the start of build *)
Definition links_in_range : bool :=
  forallb (fun n => match n_left n with Some c => Nat.ltb c (length tree) | None => true end &&
                    match n_right n with Some c => Nat.ltb c (length tree) | None => true end) tree.

(* inner loop: drain the node stack *)
Fixpoint drain (fuel : nat) (s : bstate) (current_root_jump : nat) (stack : list nat) : res (bstate * nat) :=
  match fuel with
  | O => OutOfFuel
  | S fuel' =>
    match stack with
    | [] => Ok (s, fuel')
    | ni :: rest =>
      let s := mkBS (bnodes s) (instrs s) (meta s) (jumps s) (root_stack s) (S (steps s)) in
      if Nat.ltb max_steps (steps s) then berr else
      match nth_error tree ni with
      | None => berr
      | Some pn =>
        do r <- handle_parse_node s current_root_jump rest ni pn;
        let '(s1, st1) := r in
        do s2 <- after_node s1 ni;
        drain fuel' s2 current_root_jump st1
      end
    end
  end.

Definition last_instruction (s : bstate) : option instr :=
  match rev (instrs s) with
  | i :: _ => Some i
  | [] => i_last_instr init
  end.

Definition finish_root (s : bstate) (root_index : nat) : bstate :=
  let last := last_instruction s in
  let ends := match nth_error (bnodes s) root_index with
              | Some (Some b) => match b_root_end b with Some e => e | None => [(I_EndExpression, ONone)] end
              | _ => [(I_EndExpression, ONone)]
              end in
  (* a jump entry of this build names the current end of the stream (the join after an
     else-chain that ends in `;;`, the entry of a body that emitted nothing): the closing
     EndExpression is then not a repetition (read once, like [last]) *)
  let end_is_jump_target := existsb (Nat.eqb (instr_len s)) (jumps s) in
  fold_left (fun acc e =>
               match last with
               | Some li => if instr_eqb li e && instruction_eqb (fst e) I_EndExpression && negb end_is_jump_target
                            then acc else push_instr acc e None
               | None => push_instr acc e None
               end) ends s.

(* outer loop over the root stack; every body gets the full inner budget [dfuel] *)
Fixpoint roots (dfuel : nat) (fuel : nat) (s : bstate) : res bstate :=
  match fuel with
  | O => OutOfFuel
  | S fuel' =>
    match root_stack s with
    | [] => Ok s
    | root_index :: rest =>
      let s0 := mkBS (bnodes s) (instrs s) (meta s) (jumps s) rest (steps s) in
      do r <- match nth_error (bnodes s0) root_index with
              | Some (Some b) =>
                match b_jump_upd b with
                | Some index => do s1 <- set_jump s0 index (instr_len s0); Ok (s1, index)
                | None => let index := jump_len s0 in Ok (push_jump s0 (instr_len s0), index)
                end
              | _ => let index := jump_len s0 in Ok (push_jump s0 (instr_len s0), index)
              end;
      let '(s1, current_root_jump) := r in
      do d <- drain dfuel s1 current_root_jump [root_index];
      let '(s2, _) := d in
      roots dfuel fuel' (finish_root s2 root_index)
    end
  end.

(* result: instructions, metadata, jump entries pushed by this build, and the
   reported entry point (BuildData::jump_index) *)
Definition build (fuel : nat) (root : nat) : res (bstate * nat) :=
  match tree with
  | [] =>
    Ok (mkBS [] [(I_EndExpression, ONone)] [None] [] [] 0, 0)
  | _ =>
    if negb (Nat.ltb root (length tree)) then berr else
    if negb links_in_range then berr else
    let tree_root_jump := i_jump_len init in
    let s0 := mkBS (map (fun _ => None) tree) [] [] [] [root] 0 in
    do s1 <- assign_b s0 root (b_new root tree_root_jump);
    do s2 <- roots fuel fuel s1;
    Ok (s2, tree_root_jump)
  end.

End Build.

(* the fuel the checks use: generous multiple of the tree size *)
Definition build_fuel (tree : list pnode) : nat := 40 * length tree + 40.
