(* Witnesses for the two C20 finding classes (by evaluation). *)
From Coq Require Import List Arith Bool NArith Lia.
From GV Require Import Base.Result Gen.TokenTypes Gen.Defs Gen.Instr Model.Parser Model.BuilderWL Model.Compile
  Spec.WfCode Spec.Reloc Proofs.C05.Known Proofs.C05.Refuted Proofs.C20.Bounded.
Import ListNotations.

(* `( )` built after a program ending in EndExpression (the state [k1b_init] of
   Proofs/C05/Refuted.v: 2 instructions, 1 jump entry): alone it builds to one
   EndExpression with entry -> instruction 0; shared it emits NOTHING and its
   entry names instruction 2, one past the end *)
Definition k1_alone : bstate * nat := Eval vm_compute in built empty_init k1b_p.

Lemma K1_alone_build : build (snd k1b_p) empty_init lit_all (build_fuel (snd k1b_p)) (fst k1b_p) = Ok k1_alone.
Proof. vm_compute. reflexivity. Qed.
Lemma K1_alone_code : instrs (fst k1_alone) = [(I_EndExpression, ONone)] /\ jumps (fst k1_alone) = [0].
Proof. vm_compute. split; reflexivity. Qed.
Lemma K1_shared_code : instrs (fst k1b_r) = [] /\ jumps (fst k1b_r) = [2] /\ snd k1b_r = 1.
Proof. vm_compute. repeat split; reflexivity. Qed.
Lemma K1_not_relocated : relocated k1b_init (code_of_build k1_alone) (code_of_build k1b_r) = false.
Proof. vm_compute. reflexivity. Qed.
Lemma K1_not_own : own_code k1b_init (code_of_build k1b_r) = false.
Proof. vm_compute. reflexivity. Qed.
Lemma K1_elides : elides_across k1b_init (code_of_build k1_alone) (code_of_build k1b_r) = true.
Proof. vm_compute. reflexivity. Qed.

Lemma K1_refuted20 :
  exists root nodes t r r0,
    parse k1b_tokens = Ok (root, nodes) /\ tree_of nodes root = Some t /\ Known_C20_K1 k1b_init t /\
    build nodes k1b_init lit_all (build_fuel nodes) root = Ok r /\
    build nodes empty_init lit_all (build_fuel nodes) root = Ok r0 /\
    relocated k1b_init (code_of_build r0) (code_of_build r) = false /\
    own_code k1b_init (code_of_build r) = false /\
    elides_across k1b_init (code_of_build r0) (code_of_build r) = true.
Proof.
  exists (fst k1b_p), (snd k1b_p), k1b_t, k1b_r, k1_alone.
  split; [exact k1b_parse|]. split; [exact k1b_tree|]. split; [exact k1b_known|].
  split; [exact k1b_build|]. split; [exact K1_alone_build|].
  split; [exact K1_not_relocated|]. split; [exact K1_not_own|]. exact K1_elides.
Qed.

(* the empty program after the same program: entry 0 is the FIRST program's entry *)
Definition k2_shared : bstate * nat := Eval vm_compute in built k1b_init (0, []).
Lemma K2_build : build [] k1b_init lit_all (build_fuel []) 0 = Ok k2_shared.
Proof. vm_compute. reflexivity. Qed.
Lemma K2_entry_foreign : snd k2_shared = 0 /\ jumps (fst k2_shared) = [] /\ own_code k1b_init (code_of_build k2_shared) = false.
Proof. vm_compute. repeat split; reflexivity. Qed.

Lemma K2_refuted20 :
  exists r, build [] k1b_init lit_all (build_fuel []) 0 = Ok r /\
    snd r < i_jump_len k1b_init /\ jumps (fst r) = [] /\ own_code k1b_init (code_of_build r) = false.
Proof.
  exists k2_shared. split; [exact K2_build|].
  destruct K2_entry_foreign as [He [Hj Ho]]. rewrite He. split; [cbn; lia|]. split; assumption.
Qed.
