//! optimize (C19): compaction and cloning on BasicGarnishData.
//!
//! Case kinds (one per line):
//!   G [@<init>:<F|M><n>:<max|->] <tok> <tok> ...      value-graph script (see `run_graph`)
//!   M ...                                            same script syntax; malformed blocks: no structural read-back
//!   X <src as hex code points> [k=<max single injections>]   program with `optimize` injected at step boundaries
//!
//! Output: <case>\t<result>\t<oracle>
//!   G: result = records joined by " ## "; one record per action (`opt..`, `cl..`):
//!        O | roots=<addr.addr|-> | res=<Ok:<m.m|->|Err:<class>|PANIC> | pre=<raw> | post=<raw> | spre=<snapshot> | spost=<snapshot>
//!        C | arg=<addr> | res=<Ok:<addr>|Err:<class>|PANIC> | pre=<raw> | post=<raw> | spre=<snapshot+A:tree> | spost=<snapshot+A:tree+B:tree>
//!      oracle = "syms=<hex>.." (symbols with names the case registered)
//!   X: result = base=.. | every=.. | twice=.. | rooted=.. | singles=.. ## raw O records of a few injected calls
//!
//! raw state:  st=<data start>:<cursor>:<size>:<retention>:<value head|->:<register head|->:<frame head|->:<non-empty cells beyond cursor>:<clone-map cells before the data block>
//!             ;cfg=<F|M><n>:<max|->;sy=[<sym hex>.<idx>,...];d=[<cell>,<cell>,...]
//! snapshot:   R[tree;..] V[tree;..] F[<jump>:R[..];..] Y[<sym hex>=<name cps|?>;..] K[<label>@<addr>:<tree>;..]
//! Everything structural is read through the public GarnishData getters only; the raw state uses the
//! cfg(garnish_core_verif) accessors verif_block_layout / verif_heap / verif_heads.
use garnish_lang_compiler::build::build;
use garnish_lang_compiler::lex::lex;
use garnish_lang_compiler::parse::parse;
use garnish_lang_runtime::{execute_current_instruction, SimpleRuntimeState};
use garnish_lang_simple_data::{BasicData, BasicGarnishData, DataError, NoOpCompanion, ReallocationStrategy, SimpleNumber, StorageSettings};
use garnish_lang_traits::{GarnishData, GarnishDataType, SymbolListPart};
use garnish_verif_harness::*;

type D = BasicGarnishData<(), NoOpCompanion>;

// ------------------------------------------------------------------ small helpers
fn hex_i(v: i64) -> String {
    if v < 0 { format!("-{:x}", (v as i128).unsigned_abs()) } else { format!("{:x}", v) }
}

fn show_num(n: SimpleNumber) -> String {
    match n {
        SimpleNumber::Integer(v) => format!("i{}", hex_i(v as i64)),
        SimpleNumber::Float(f) => format!("f{:016x}", f.to_bits()),
    }
}

fn parse_num(s: &str) -> SimpleNumber {
    match s.as_bytes()[0] {
        b'i' => {
            let t = &s[1..];
            let v = if let Some(r) = t.strip_prefix('-') { -(i64::from_str_radix(r, 16).expect("hex")) } else { i64::from_str_radix(t, 16).expect("hex") };
            SimpleNumber::Integer(v as i32)
        }
        b'f' => SimpleNumber::Float(f64::from_bits(u64::from_str_radix(&s[1..], 16).expect("bits"))),
        _ => panic!("bad num {}", s),
    }
}

fn opt_s(o: Option<usize>) -> String {
    match o {
        None => "-".to_string(),
        Some(v) => v.to_string(),
    }
}

fn dotted<I: Iterator<Item = String>>(it: I) -> String {
    let v: Vec<String> = it.collect();
    if v.is_empty() { "-".to_string() } else { v.join(".") }
}

fn dec_list(s: &str) -> Vec<usize> {
    if s == "-" || s.is_empty() {
        return vec![];
    }
    s.split('.').map(|x| x.parse().expect("decimal")).collect()
}

fn hex_list(s: &str) -> Vec<u64> {
    if s == "-" || s.is_empty() {
        return vec![];
    }
    s.split('.').map(|x| u64::from_str_radix(x, 16).expect("hex")).collect()
}

fn type_of_index(i: usize) -> GarnishDataType {
    use GarnishDataType::*;
    let t = [
        Invalid, Unit, Number, Type, Char, CharList, Byte, ByteList, Symbol, SymbolList, Pair, Range, Concatenation, Slice, Partial, List,
        Expression, External, True, False, Custom,
    ][i];
    assert_eq!(t as usize, i);
    t
}

fn err_class(e: &DataError) -> &'static str {
    let m = format!("{}", e);
    if m.starts_with("Clone limit reached") {
        "CloneLimit"
    } else if m.starts_with("No mapped index found during clone") {
        "NoMapped"
    } else if m.starts_with("Invalid data index") {
        "InvalidIndex"
    } else if m.starts_with("Not a basic type") {
        "NotBasic"
    } else if m.starts_with("Cannot clone") {
        "CannotClone"
    } else if m.starts_with("Uninitialized list contains non-list item") {
        "UninitNonItem"
    } else if m.starts_with("Associative item in list is not a valid item") {
        "NotAssoc"
    } else if m.starts_with("Data block size exceeds max items") {
        "MaxItems"
    } else if m.starts_with("Invalid symbol table index") {
        "InvalidSymIndex"
    } else {
        "Other"
    }
}

// ------------------------------------------------------------------ raw cells
fn show_cell(c: &BasicData<()>) -> String {
    use BasicData::*;
    match c {
        Unit => "U".into(),
        True => "T".into(),
        False => "F".into(),
        Type(t) => format!("Ty{}", *t as usize),
        Number(n) => format!("N{}", show_num(*n)),
        Char(c) => format!("Ch{:x}", *c as u32),
        Byte(b) => format!("By{:x}", b),
        Symbol(s) => format!("Sy{:x}", s),
        SymbolList(n) => format!("SL{}", n),
        Expression(e) => format!("Ex{}", e),
        External(e) => format!("Xt{}", e),
        CharList(n) => format!("CL{}", n),
        ByteList(n) => format!("BL{}", n),
        Pair(a, b) => format!("Pr{}.{}", a, b),
        Range(a, b) => format!("Rg{}.{}", a, b),
        Slice(a, b) => format!("Sc{}.{}", a, b),
        Partial(a, b) => format!("Pa{}.{}", a, b),
        List(a, b) => format!("Li{}.{}", a, b),
        Concatenation(a, b) => format!("Cc{}.{}", a, b),
        Custom(_) => "Cu".into(),
        Empty => "_".into(),
        UninitializedList(a, b) => format!("UL{}.{}", a, b),
        ListItem(a) => format!("It{}", a),
        AssociativeItem(s, a) => format!("As{:x}.{}", s, a),
        Value(a, b) => format!("Va{}.{}", a, b),
        ValueRoot(a) => format!("VR{}", a),
        Register(a, b) => format!("Re{}.{}", a, b),
        RegisterRoot(a) => format!("RR{}", a),
        InstructionWithData(i, d) => format!("ID{}.{}", *i as usize, d),
        Instruction(i) => format!("In{}", *i as usize),
        JumpPoint(a) => format!("JP{}", a),
        Frame(a, b) => format!("Fr{}.{}", a, b),
        FrameIndex(a) => format!("FI{}", a),
        FrameRegister(a) => format!("FG{}", a),
        FrameRoot => "FR".into(),
        CloneItem(a) => format!("CI{}", a),
        CloneIndexMap(a, b) => format!("CM{}.{}", a, b),
    }
}

fn two_dec(s: &str) -> (usize, usize) {
    let mut it = s.split('.');
    let a = it.next().expect("a").parse().expect("dec");
    let b = it.next().expect("b").parse().expect("dec");
    (a, b)
}

/// Inverse of `show_cell` for the cell kinds a script may push raw (no instruction cells).
fn parse_cell(s: &str) -> BasicData<()> {
    use BasicData::*;
    if s == "U" {
        return Unit;
    }
    if s == "T" {
        return True;
    }
    if s == "F" {
        return False;
    }
    if s == "_" {
        return Empty;
    }
    if s == "Cu" {
        return Custom(());
    }
    if s == "FR" {
        return FrameRoot;
    }
    if let Some(r) = s.strip_prefix('N') {
        return Number(parse_num(r));
    }
    let (k, r) = s.split_at(2);
    let d = |x: &str| -> usize { x.parse().expect("dec") };
    match k {
        "Ty" => Type(type_of_index(d(r))),
        "Ch" => Char(char::from_u32(u32::from_str_radix(r, 16).expect("hex")).expect("cp")),
        "By" => Byte(u8::from_str_radix(r, 16).expect("hex")),
        "Sy" => Symbol(u64::from_str_radix(r, 16).expect("hex")),
        "SL" => SymbolList(d(r)),
        "Ex" => Expression(d(r)),
        "Xt" => External(d(r)),
        "CL" => CharList(d(r)),
        "BL" => ByteList(d(r)),
        "Pr" => {
            let (a, b) = two_dec(r);
            Pair(a, b)
        }
        "Rg" => {
            let (a, b) = two_dec(r);
            Range(a, b)
        }
        "Sc" => {
            let (a, b) = two_dec(r);
            Slice(a, b)
        }
        "Pa" => {
            let (a, b) = two_dec(r);
            Partial(a, b)
        }
        "Li" => {
            let (a, b) = two_dec(r);
            List(a, b)
        }
        "Cc" => {
            let (a, b) = two_dec(r);
            Concatenation(a, b)
        }
        "UL" => {
            let (a, b) = two_dec(r);
            UninitializedList(a, b)
        }
        "It" => ListItem(d(r)),
        "As" => {
            let mut it = r.split('.');
            let s = u64::from_str_radix(it.next().expect("sym"), 16).expect("hex");
            AssociativeItem(s, d(it.next().expect("idx")))
        }
        "Va" => {
            let (a, b) = two_dec(r);
            Value(a, b)
        }
        "VR" => ValueRoot(d(r)),
        "Re" => {
            let (a, b) = two_dec(r);
            Register(a, b)
        }
        "RR" => RegisterRoot(d(r)),
        "JP" => JumpPoint(d(r)),
        "Fr" => {
            let (a, b) = two_dec(r);
            Frame(a, b)
        }
        "FI" => FrameIndex(d(r)),
        "FG" => FrameRegister(d(r)),
        "CI" => CloneItem(d(r)),
        "CM" => {
            let (a, b) = two_dec(r);
            CloneIndexMap(a, b)
        }
        _ => panic!("bad raw cell {}", s),
    }
}

fn raw_state(d: &D, cfg: &str) -> String {
    let lay = d.verif_block_layout();
    let heap = d.verif_heap();
    let (hv, hr, hf) = d.verif_heads();
    let (ds, dc, dz) = lay[4];
    let mut junk = 0;
    for i in dc..dz {
        if heap[ds + i] != BasicData::Empty {
            junk += 1;
        }
    }
    let mut maps_before = 0;
    for c in heap[..ds.min(heap.len())].iter() {
        if let BasicData::CloneIndexMap(_, _) = c {
            maps_before += 1;
        }
    }
    let (ss, sc, _) = lay[2];
    let sy: Vec<String> = (0..sc)
        .map(|i| match &heap[ss + i] {
            BasicData::AssociativeItem(s, a) => format!("{:x}.{}", s, a),
            c => format!("?{}", show_cell(c)),
        })
        .collect();
    let cells: Vec<String> = (0..dc).map(|i| show_cell(&heap[ds + i])).collect();
    format!(
        "st={}:{}:{}:{}:{}:{}:{}:{}:{};cfg={};sy=[{}];d=[{}]",
        ds,
        dc,
        dz,
        d.data_retention_count(),
        opt_s(hv),
        opt_s(hr),
        opt_s(hf),
        junk,
        maps_before,
        cfg,
        sy.join(","),
        cells.join(",")
    )
}

// ------------------------------------------------------------------ structural read-back
struct Budget {
    left: usize,
}

fn tree(d: &D, addr: usize, b: &mut Budget) -> String {
    if b.left == 0 {
        return "~".to_string();
    }
    b.left -= 1;
    let t = match d.get_data_type(addr) {
        Err(_) => return "Err".to_string(),
        Ok(t) => t,
    };
    let two = |name: &str, r: Result<(usize, usize), DataError>, b: &mut Budget| -> String {
        match r {
            Err(_) => format!("{}(Err)", name),
            Ok((x, y)) => {
                let l = tree(d, x, b);
                let r = tree(d, y, b);
                format!("{}({},{})", name, l, r)
            }
        }
    };
    match t {
        GarnishDataType::Invalid => "Inv".to_string(),
        GarnishDataType::Unit => "U".to_string(),
        GarnishDataType::True => "T".to_string(),
        GarnishDataType::False => "F".to_string(),
        GarnishDataType::Custom => "Cu".to_string(),
        GarnishDataType::Type => match d.get_type(addr) {
            Ok(t) => format!("Ty{}", t as usize),
            Err(_) => "Ty(Err)".to_string(),
        },
        GarnishDataType::Number => match d.get_number(addr) {
            Ok(n) => format!("N{}", show_num(n)),
            Err(_) => "N(Err)".to_string(),
        },
        GarnishDataType::Char => match d.get_char(addr) {
            Ok(c) => format!("Ch{:x}", c as u32),
            Err(_) => "Ch(Err)".to_string(),
        },
        GarnishDataType::Byte => match d.get_byte(addr) {
            Ok(c) => format!("By{:x}", c),
            Err(_) => "By(Err)".to_string(),
        },
        GarnishDataType::Symbol => match d.get_symbol(addr) {
            Ok(c) => format!("Sy{:x}", c),
            Err(_) => "Sy(Err)".to_string(),
        },
        GarnishDataType::Expression => match d.get_expression(addr) {
            Ok(c) => format!("Ex{}", c),
            Err(_) => "Ex(Err)".to_string(),
        },
        GarnishDataType::External => match d.get_external(addr) {
            Ok(c) => format!("Xt{}", c),
            Err(_) => "Xt(Err)".to_string(),
        },
        GarnishDataType::CharList => match d.get_char_list_len(addr) {
            Err(_) => "Cl(Err)".to_string(),
            Ok(len) => format!(
                "Cl({})",
                dotted((0..len).map(|i| match catch(|| d.get_char_list_item(addr, SimpleNumber::Integer(i as i32))) {
                    Ok(Ok(Some(c))) => format!("{:x}", c as u32),
                    Ok(Ok(None)) => "none".to_string(),
                    Ok(Err(_)) => "err".to_string(),
                    Err(_) => "panic".to_string(),
                }))
            ),
        },
        GarnishDataType::ByteList => match d.get_byte_list_len(addr) {
            Err(_) => "Bl(Err)".to_string(),
            Ok(len) => format!(
                "Bl({})",
                dotted((0..len).map(|i| match catch(|| d.get_byte_list_item(addr, SimpleNumber::Integer(i as i32))) {
                    Ok(Ok(Some(c))) => format!("{:x}", c),
                    Ok(Ok(None)) => "none".to_string(),
                    Ok(Err(_)) => "err".to_string(),
                    Err(_) => "panic".to_string(),
                }))
            ),
        },
        GarnishDataType::SymbolList => match d.get_symbol_list_len(addr) {
            Err(_) => "Sl(Err)".to_string(),
            Ok(len) => format!(
                "Sl({})",
                dotted((0..len).map(|i| match catch(|| d.get_symbol_list_item(addr, SimpleNumber::Integer(i as i32))) {
                    Ok(Ok(Some(SymbolListPart::Symbol(s)))) => format!("s{:x}", s),
                    Ok(Ok(Some(SymbolListPart::Number(n)))) => format!("n{}", show_num(n)),
                    Ok(Ok(None)) => "none".to_string(),
                    Ok(Err(_)) => "err".to_string(),
                    Err(_) => "panic".to_string(),
                }))
            ),
        },
        GarnishDataType::Pair => two("P", d.get_pair(addr), b),
        GarnishDataType::Concatenation => two("K", d.get_concatenation(addr), b),
        GarnishDataType::Range => two("R", d.get_range(addr), b),
        GarnishDataType::Slice => two("Z", d.get_slice(addr), b),
        GarnishDataType::Partial => two("A", d.get_partial(addr), b),
        GarnishDataType::List => match d.get_list_len(addr) {
            Err(_) => "L(Err)".to_string(),
            Ok(len) => {
                let mut items = vec![];
                let mut keys: Vec<u64> = vec![];
                for i in 0..len {
                    match catch(|| d.get_list_item(addr, SimpleNumber::Integer(i as i32))) {
                        Ok(Ok(Some(a))) => {
                            if let Ok((l, _)) = d.get_pair(a) {
                                if let Ok(s) = d.get_symbol(l) {
                                    if !keys.contains(&s) {
                                        keys.push(s);
                                    }
                                }
                            }
                            items.push(tree(d, a, b));
                        }
                        Ok(Ok(None)) => items.push("none".to_string()),
                        Ok(Err(_)) => items.push("err".to_string()),
                        Err(_) => items.push("panic".to_string()),
                    }
                }
                let mut ks = vec![];
                for s in keys {
                    let r = match catch(|| d.get_list_item_with_symbol(addr, s)) {
                        Ok(Ok(Some(a))) => tree(d, a, b),
                        Ok(Ok(None)) => "none".to_string(),
                        Ok(Err(_)) => "err".to_string(),
                        Err(_) => "panic".to_string(),
                    };
                    ks.push(format!("{:x}>{}", s, r));
                }
                format!("L({}^{})", items.join(","), ks.join(","))
            }
        },
    }
}

fn regs(d: &D, b: &mut Budget) -> String {
    let n = d.get_register_len();
    let v: Vec<String> = (0..n)
        .map(|i| match d.get_register(i) {
            Some(a) => tree(d, a, b),
            None => "none".to_string(),
        })
        .collect();
    format!("R[{}]", v.join(";"))
}

/// Registers, values (popped on a clone), frames (popped on a clone; each with the registers it restores),
/// names of the given symbols, trees at the given (label, address) pairs.
fn snapshot(d: &D, syms: &[u64], keep: &[(String, usize)]) -> String {
    let mut b = Budget { left: 3000 };
    let r = regs(d, &mut b);
    let mut c = d.clone();
    let mut vs = vec![];
    let mut guard = 0;
    while let Some(a) = c.pop_value_stack() {
        vs.push(tree(d, a, &mut b));
        guard += 1;
        if guard > 10000 {
            vs.push("LOOP".to_string());
            break;
        }
    }
    let mut c = d.clone();
    let mut fs = vec![];
    guard = 0;
    loop {
        match catch(|| c.pop_frame()) {
            Ok(Ok(Some(j))) => {
                fs.push(format!("{}:{}", j, regs(&c, &mut b)));
            }
            Ok(Ok(None)) => break,
            Ok(Err(_)) => {
                fs.push("err".to_string());
                break;
            }
            Err(_) => {
                fs.push("panic".to_string());
                break;
            }
        }
        guard += 1;
        if guard > 10000 {
            fs.push("LOOP".to_string());
            break;
        }
    }
    let ys: Vec<String> = syms
        .iter()
        .map(|s| match catch(|| d.get_symbol_string(*s)) {
            Ok(Ok(Some(n))) => format!("{:x}={}", s, string_to_hex(&n).replace(',', ".")),
            Ok(Ok(None)) => format!("{:x}=none", s),
            Ok(Err(_)) => format!("{:x}=err", s),
            Err(_) => format!("{:x}=panic", s),
        })
        .collect();
    let ks: Vec<String> = keep.iter().map(|(l, a)| format!("{}@{}:{}", l, a, tree(d, *a, &mut b))).collect();
    format!("{} V[{}] F[{}] Y[{}] K[{}]", r, vs.join(";"), fs.join(";"), ys.join(";"), ks.join(";"))
}

/// A snapshot without the `@<addr>` annotations of its K entries (trees never contain '@').
fn strip_addrs(s: &str) -> String {
    let mut out = String::with_capacity(s.len());
    let mut skipping = false;
    for c in s.chars() {
        if skipping {
            if c.is_ascii_digit() {
                continue;
            }
            skipping = false;
        }
        if c == '@' {
            skipping = true;
            continue;
        }
        out.push(c);
    }
    out
}

/// `-` for malformed-heap scripts (kind M): the getters may loop or panic there.
fn gsnap(on: bool, d: &D, syms: &[u64], keep: &[(String, usize)]) -> String {
    if on { snapshot(d, syms, keep) } else { "-".to_string() }
}

fn symtab_syms(d: &D) -> Vec<u64> {
    let lay = d.verif_block_layout();
    let heap = d.verif_heap();
    let (ss, sc, _) = lay[2];
    (0..sc)
        .filter_map(|i| match &heap[ss + i] {
            BasicData::AssociativeItem(s, _) => Some(*s),
            _ => None,
        })
        .collect()
}

// ------------------------------------------------------------------ graph scripts
struct G {
    snap: bool,
    d: D,
    cfg: String,
    slots: Vec<Option<usize>>,
    syms: Vec<u64>,
    records: Vec<String>,
}

fn slot(g: &G, s: &str) -> Result<usize, String> {
    let i: usize = s.parse().map_err(|_| format!("bad slot {}", s))?;
    match g.slots.get(i) {
        Some(Some(a)) => Ok(*a),
        Some(None) => Err(format!("DEADSLOT{}", i)),
        None => Err(format!("NOSLOT{}", i)),
    }
}

fn slots2(g: &G, s: &str) -> Result<(usize, usize), String> {
    let mut it = s.split('.');
    let a = slot(g, it.next().ok_or("two slots")?)?;
    let b = slot(g, it.next().ok_or("two slots")?)?;
    Ok((a, b))
}

fn de(e: DataError) -> String {
    format!("BUILDERR:{}", err_class(&e))
}

fn keep_list(g: &G, extra: &[usize]) -> Vec<(String, usize)> {
    // every slot inside the retained prefix, plus the extra roots (labelled by position)
    let ret = g.d.data_retention_count();
    let mut k = vec![];
    for (i, s) in g.slots.iter().enumerate() {
        if let Some(a) = s {
            if *a < ret {
                k.push((format!("s{}", i), *a));
            }
        }
    }
    for (i, a) in extra.iter().enumerate() {
        k.push((format!("x{}", i), *a));
    }
    k
}

fn do_opt(g: &mut G, roots: Vec<usize>, root_slots: Vec<usize>) {
    let pre = raw_state(&g.d, &g.cfg);
    let keep_pre = keep_list(g, &roots);
    let spre = gsnap(g.snap, &g.d, &g.syms, &keep_pre);
    let ret = g.d.data_retention_count();
    let r = catch(|| g.d.optimize(&roots));
    let post = raw_state(&g.d, &g.cfg);
    let (res, mapped) = match &r {
        Ok(Ok(m)) => (format!("Ok:{}", dotted(m.iter().map(|x| x.to_string()))), Some(m.clone())),
        Ok(Err(e)) => (format!("Err:{}", err_class(e)), None),
        Err(_) => ("PANIC".to_string(), None),
    };
    let spost = match &mapped {
        Some(m) => {
            // addresses the store now reports: retained slots unchanged, extra roots through the mapping
            let mut keep_post: Vec<(String, usize)> = keep_pre.iter().filter(|(l, _)| l.starts_with('s')).cloned().collect();
            for (i, a) in m.iter().enumerate() {
                keep_post.push((format!("x{}", i), *a));
            }
            // slot table: roots -> mapped, retained -> same, others dead
            for s in g.slots.iter_mut() {
                if let Some(a) = s {
                    if *a >= ret {
                        *s = None;
                    }
                }
            }
            for (i, sl) in root_slots.iter().enumerate() {
                g.slots[*sl] = Some(m[i]);
            }
            gsnap(g.snap, &g.d, &g.syms, &keep_post)
        }
        None => match catch(|| gsnap(g.snap, &g.d, &g.syms, &keep_pre)) {
            Ok(s) => s,
            Err(_) => "SNAPPANIC".to_string(),
        },
    };
    g.records.push(format!(
        "O | roots={} | res={} | pre={} | post={} | spre={} | spost={} | ys={}",
        dotted(roots.iter().map(|x| x.to_string())),
        res,
        pre,
        post,
        spre,
        spost,
        dotted(g.syms.iter().map(|x| format!("{:x}", x)))
    ));
}

fn do_clone(g: &mut G, addr: usize) {
    let pre = raw_state(&g.d, &g.cfg);
    let cursor = g.d.get_data_len();
    // "leaves the original intact": every live slot is read before and after
    let mut keep: Vec<(String, usize)> = vec![];
    for (i, s) in g.slots.iter().enumerate() {
        if let Some(a) = s {
            keep.push((format!("s{}", i), *a));
        }
    }
    keep.push(("A".to_string(), addr));
    let spre = gsnap(g.snap, &g.d, &g.syms, &keep);
    let r = catch(|| g.d.clone_data(addr));
    let post = raw_state(&g.d, &g.cfg);
    let res = match &r {
        Ok(Ok(a)) => format!("Ok:{}", a),
        Ok(Err(e)) => format!("Err:{}", err_class(e)),
        Err(_) => "PANIC".to_string(),
    };
    let mut keep_post = keep.clone();
    match &r {
        Ok(Ok(a)) => {
            keep_post.push(("B".to_string(), *a));
            g.slots.push(Some(*a));
        }
        _ => g.slots.push(None),
    }
    let spost = match catch(|| gsnap(g.snap, &g.d, &g.syms, &keep_post)) {
        Ok(s) => s,
        Err(_) => "SNAPPANIC".to_string(),
    };
    g.records.push(format!(
        "C | arg={} | res={} | pre={} | post={} | spre={} | spost={} | cur={} | ys={}",
        addr,
        res,
        pre,
        post,
        spre,
        spost,
        cursor,
        dotted(g.syms.iter().map(|x| format!("{:x}", x)))
    ));
}

fn graph_token(g: &mut G, tok: &str) -> Result<(), String> {
    let b = tok.as_bytes();
    let rest1 = &tok[1..];
    // multi-letter tokens first
    if let Some(r) = tok.strip_prefix("opt") {
        let sl = dec_list(r);
        let mut roots = vec![];
        for s in &sl {
            roots.push(slot(g, &s.to_string())?);
        }
        do_opt(g, roots, sl);
        return Ok(());
    }
    if let Some(r) = tok.strip_prefix("oraw") {
        // optimize with raw addresses as roots (not slots)
        let roots = dec_list(r);
        do_opt(g, roots, vec![]);
        return Ok(());
    }
    if let Some(r) = tok.strip_prefix("cl") {
        let a = slot(g, r)?;
        do_clone(g, a);
        return Ok(());
    }
    if let Some(r) = tok.strip_prefix("craw") {
        do_clone(g, r.parse().map_err(|_| "bad addr")?);
        return Ok(());
    }
    if tok == "ret" {
        g.d.retain_all_current_data();
        return Ok(());
    }
    if let Some(r) = tok.strip_prefix("ret") {
        g.d.set_data_retention_count(r.parse().map_err(|_| "bad count")?);
        return Ok(());
    }
    if let Some(r) = tok.strip_prefix("raw") {
        let a = g.d.push_to_data_block(parse_cell(r)).map_err(de)?;
        g.slots.push(Some(a));
        return Ok(());
    }
    if let Some(r) = tok.strip_prefix("sl") {
        let a = g.d.start_list(r.parse().map_err(|_| "bad len")?).map_err(de)?;
        g.slots.push(Some(a));
        return Ok(());
    }
    if let Some(r) = tok.strip_prefix("al") {
        let (l, a) = slots2(g, r)?;
        g.d.add_to_list(l, a).map_err(de)?;
        return Ok(());
    }
    if let Some(r) = tok.strip_prefix("el") {
        let l = slot(g, r)?;
        g.d.end_list(l).map_err(de)?;
        return Ok(());
    }
    match b[0] {
        b'+' => {
            match b[1] {
                b'r' => {
                    let a = slot(g, &tok[2..])?;
                    g.d.push_register(a).map_err(de)?
                }
                b'v' => {
                    let a = slot(g, &tok[2..])?;
                    g.d.push_value_stack(a).map_err(de)?
                }
                b'f' => g.d.push_frame(tok[2..].parse().map_err(|_| "bad jump")?).map_err(de)?,
                _ => return Err("bad + op".into()),
            }
            Ok(())
        }
        b'-' => {
            match b[1] {
                b'r' => {
                    g.d.pop_register().map_err(de)?;
                }
                b'v' => {
                    g.d.pop_value_stack();
                }
                b'f' => {
                    g.d.pop_frame().map_err(de)?;
                }
                _ => return Err("bad - op".into()),
            }
            Ok(())
        }
        b'=' => {
            let a = slot(g, &tok[2..])?;
            match g.d.get_current_value_mut() {
                Some(v) => *v = a,
                None => return Err("NOVALUE".into()),
            }
            Ok(())
        }
        _ => {
            let a = match b[0] {
                b'U' => g.d.add_unit(),
                b'T' => g.d.add_true(),
                b'F' => g.d.add_false(),
                b'i' | b'f' => g.d.add_number(parse_num(tok)),
                b'c' => g.d.add_char(char::from_u32(u32::from_str_radix(rest1, 16).map_err(|_| "hex")?).ok_or("cp")?),
                b'b' => g.d.add_byte(u8::from_str_radix(rest1, 16).map_err(|_| "hex")?),
                b's' => g.d.add_symbol(u64::from_str_radix(rest1, 16).map_err(|_| "hex")?),
                b'Y' => g.d.add_type(type_of_index(rest1.parse().map_err(|_| "type")?)),
                b'E' => g.d.add_expression(rest1.parse().map_err(|_| "dec")?),
                b'X' => g.d.add_external(rest1.parse().map_err(|_| "dec")?),
                b'C' => {
                    let s: String = hex_list(rest1).into_iter().map(|c| char::from_u32(c as u32).expect("cp")).collect();
                    g.d.add_string(&s)
                }
                b'B' => {
                    let v: Vec<u8> = hex_list(rest1).into_iter().map(|c| c as u8).collect();
                    g.d.add_byte_slice(&v)
                }
                b'N' => {
                    let s: String = hex_list(rest1).into_iter().map(|c| char::from_u32(c as u32).expect("cp")).collect();
                    let r = g.d.parse_add_symbol(&s);
                    if let Ok(a) = &r {
                        if let Ok(v) = g.d.get_symbol(*a) {
                            if !g.syms.contains(&v) {
                                g.syms.push(v);
                            }
                        }
                    }
                    r
                }
                b'M' => {
                    let (x, y) = slots2(g, rest1)?;
                    match catch(|| g.d.merge_to_symbol_list(x, y)) {
                        Ok(r) => r,
                        Err(_) => return Err("BUILDPANIC".into()),
                    }
                }
                b'P' => {
                    let (x, y) = slots2(g, rest1)?;
                    g.d.add_pair((x, y))
                }
                b'K' => {
                    let (x, y) = slots2(g, rest1)?;
                    g.d.add_concatenation(x, y)
                }
                b'R' => {
                    let (x, y) = slots2(g, rest1)?;
                    g.d.add_range(x, y)
                }
                b'Z' => {
                    let (x, y) = slots2(g, rest1)?;
                    g.d.add_slice(x, y)
                }
                b'A' => {
                    let (x, y) = slots2(g, rest1)?;
                    g.d.add_partial(x, y)
                }
                b'L' => {
                    let mut addrs = vec![];
                    for s in dec_list(rest1) {
                        addrs.push(slot(g, &s.to_string())?);
                    }
                    match g.d.start_list(addrs.len()) {
                        Err(e) => Err(e),
                        Ok(l) => {
                            let mut r = Ok(l);
                            for a in addrs {
                                if let Err(e) = g.d.add_to_list(l, a) {
                                    r = Err(e);
                                    break;
                                }
                            }
                            match r {
                                Ok(l) => g.d.end_list(l),
                                e => e,
                            }
                        }
                    }
                }
                _ => return Err(format!("BADTOKEN:{}", tok)),
            }
            .map_err(de)?;
            g.slots.push(Some(a));
            Ok(())
        }
    }
}

fn settings_of(s: &str) -> (StorageSettings, String) {
    // <init>:<F|M><n>:<max|->
    let p: Vec<&str> = s.split(':').collect();
    let init: usize = p[0].parse().expect("init");
    let n: usize = p[1][1..].parse().expect("n");
    let strat = if p[1].starts_with('M') { ReallocationStrategy::Multiplicative(n) } else { ReallocationStrategy::FixedSize(n) };
    let max = if p[2] == "-" { usize::MAX } else { p[2].parse().expect("max") };
    (StorageSettings::new(init, max, strat), format!("{}:{}", p[1], p[2]))
}

fn run_graph(rest: &str, snap: bool) -> (String, String) {
    let mut toks: Vec<&str> = rest.split(' ').filter(|x| !x.is_empty()).collect();
    let (ds, cfg) = if !toks.is_empty() && toks[0].starts_with('@') {
        let t = toks.remove(0);
        settings_of(&t[1..])
    } else {
        (StorageSettings::default(), "F10:-".to_string())
    };
    let d = match BasicGarnishData::new_with_settings(
        StorageSettings::default(),
        StorageSettings::default(),
        StorageSettings::default(),
        StorageSettings::default(),
        ds,
        StorageSettings::default(),
        NoOpCompanion::new(),
    ) {
        Ok(d) => d,
        Err(_) => return ("NEWERR".to_string(), "-".to_string()),
    };
    let mut g = G { snap, d, cfg, slots: vec![], syms: vec![], records: vec![] };
    let mut status = "done".to_string();
    for t in toks {
        match catch(|| graph_token(&mut g, t)) {
            Ok(Ok(())) => {}
            Ok(Err(e)) => {
                status = format!("STOP:{}:{}", t, e);
                break;
            }
            Err(_) => {
                status = format!("STOP:{}:BUILDPANIC", t);
                break;
            }
        }
    }
    let mut out = g.records.join(" ## ");
    if out.is_empty() {
        out = "NOREC".to_string();
    }
    (format!("{} ## {}", status, out), format!("syms={}", dotted(g.syms.iter().map(|s| format!("{:x}", s)))))
}

// ------------------------------------------------------------------ programs
const STEP_LIMIT: usize = 1500;

#[derive(Clone, Copy, PartialEq)]
enum Mode {
    Base,
    Every,
    Twice,
    Rooted,
    Single(usize),
}

struct RunOut {
    end: String,    // End:<tree> | Err | PANIC | LIMIT
    steps: usize,
    calls: usize,   // optimize calls made
    bad: Vec<String>, // read-back mismatches / optimize errors: "<step>:<what>"
    raws: Vec<String>,
    sampled_frame: bool, // a raw record of a state with a live frame has been taken
}

fn inject(d: &mut D, step: usize, rooted: bool, out: &mut RunOut, want_raw: bool) {
    let has_frame = d.verif_heads().2.is_some();
    let want_raw = want_raw || (has_frame && !out.sampled_frame && !rooted);
    if want_raw && has_frame {
        out.sampled_frame = true;
    }
    let syms = symtab_syms(d);
    let mut roots: Vec<usize> = vec![];
    if rooted {
        if let Some(a) = d.get_current_value() {
            roots.push(a);
        }
        let n = d.get_register_len();
        if n > 0 {
            if let Some(a) = d.get_register(n - 1) {
                roots.push(a);
            }
            if let Some(a) = d.get_register(0) {
                roots.push(a);
            }
        }
    }
    let keep_pre: Vec<(String, usize)> = roots.iter().enumerate().map(|(i, a)| (format!("x{}", i), *a)).collect();
    let pre = raw_state(d, "F10:-");
    let spre = snapshot(d, &syms, &keep_pre);
    let r = catch(|| d.optimize(&roots));
    out.calls += 1;
    match r {
        Ok(Ok(m)) => {
            let keep_post: Vec<(String, usize)> = m.iter().enumerate().map(|(i, a)| (format!("x{}", i), *a)).collect();
            let spost = snapshot(d, &syms, &keep_post);
            if strip_addrs(&spre) != strip_addrs(&spost) && out.bad.len() < 3 {
                out.bad.push(format!("{}:READBACK:{}=>{}", step, spre, spost));
            }
            if want_raw {
                let post = raw_state(d, "F10:-");
                out.raws.push(format!(
                    "O | roots={} | res=Ok:{} | pre={} | post={} | spre={} | spost={} | ys={}",
                    dotted(roots.iter().map(|x| x.to_string())),
                    dotted(m.iter().map(|x| x.to_string())),
                    pre,
                    post,
                    spre,
                    spost,
                    dotted(syms.iter().map(|x| format!("{:x}", x)))
                ));
            }
        }
        Ok(Err(e)) => {
            if out.bad.len() < 3 {
                out.bad.push(format!("{}:OPTERR:{}", step, err_class(&e)));
            }
            if out.raws.len() < 6 {
                let now = raw_state(d, "F10:-");
                out.raws.push(format!(
                    "O | roots={} | res=Err:{} | pre={} | post={} | spre={} | spost={} | ys={}",
                    dotted(roots.iter().map(|x| x.to_string())),
                    err_class(&e),
                    pre,
                    now,
                    spre,
                    spre,
                    dotted(syms.iter().map(|x| format!("{:x}", x)))
                ));
            }
        }
        Err(_) => {
            if out.bad.len() < 3 {
                out.bad.push(format!("{}:OPTPANIC", step));
            }
        }
    }
}

fn run_program(built: &D, mode: Mode, raw_steps: &[usize]) -> RunOut {
    let mut d = built.clone();
    let mut out = RunOut { end: String::new(), steps: 0, calls: 0, bad: vec![], raws: vec![], sampled_frame: false };
    let mut step = 0usize;
    loop {
        // step boundary
        match mode {
            Mode::Base => {}
            Mode::Every => inject(&mut d, step, false, &mut out, raw_steps.contains(&step)),
            Mode::Twice => {
                inject(&mut d, step, false, &mut out, false);
                inject(&mut d, step, false, &mut out, false);
            }
            Mode::Rooted => inject(&mut d, step, true, &mut out, raw_steps.contains(&step)),
            Mode::Single(k) => {
                if k == step {
                    inject(&mut d, step, false, &mut out, false)
                }
            }
        }
        match catch(|| execute_current_instruction(&mut d)) {
            Err(_) => {
                out.end = "PANIC".to_string();
                break;
            }
            Ok(Err(_)) => {
                out.end = "Err".to_string();
                break;
            }
            Ok(Ok(info)) => match info.get_state() {
                SimpleRuntimeState::Running => {}
                SimpleRuntimeState::End => {
                    let mut b = Budget { left: 6000 };
                    out.end = match d.get_current_value() {
                        Some(a) => format!("End:{}", tree(&d, a, &mut b)),
                        None => "End:novalue".to_string(),
                    };
                    break;
                }
            },
        }
        step += 1;
        if step > STEP_LIMIT {
            out.end = "LIMIT".to_string();
            break;
        }
    }
    out.steps = step;
    out
}

fn run_x(rest: &str) -> (String, String) {
    let mut parts = rest.split(' ').filter(|x| !x.is_empty());
    let src = hex_to_string(parts.next().unwrap_or("-"));
    let mut kmax = 24usize;
    for p in parts {
        if let Some(v) = p.strip_prefix("k=") {
            kmax = v.parse().expect("k");
        }
    }
    let built = catch(|| -> Result<D, String> {
        let toks = lex(&src).map_err(|_| "LEX")?;
        let pr = parse(&toks).map_err(|_| "PARSE")?;
        let mut d: D = BasicGarnishData::new(NoOpCompanion::new()).map_err(|_| "NEW")?;
        build(pr.get_root(), pr.get_nodes().clone(), &mut d).map_err(|_| "BUILD")?;
        let start = d.get_from_jump_table(0).ok_or("NOJUMP")?;
        d.set_instruction_cursor(start).map_err(|_| "CURSOR")?;
        // everything the instructions refer to was added by the build: keep it in place
        d.retain_all_current_data();
        let u = d.add_unit().map_err(|_| "UNIT")?;
        d.push_value_stack(u).map_err(|_| "PUSH")?;
        Ok(d)
    });
    let built = match built {
        Ok(Ok(d)) => d,
        Ok(Err(e)) => return (format!("NOBUILD:{}", e), "-".to_string()),
        Err(_) => return ("NOBUILD:PANIC".to_string(), "-".to_string()),
    };
    let base = run_program(&built, Mode::Base, &[]);
    let n = base.steps;
    let raw_steps: Vec<usize> = if n == 0 { vec![0] } else { vec![n / 3, (2 * n) / 3, n] };
    let every = run_program(&built, Mode::Every, &raw_steps);
    let twice = run_program(&built, Mode::Twice, &[]);
    let rooted = run_program(&built, Mode::Rooted, &[n / 2]);
    let mut singles_ok = 0;
    let mut singles_n = 0;
    let mut first_bad = "-".to_string();
    let mut err_recs: Vec<String> = vec![];
    let ks: Vec<usize> = if n + 1 <= kmax { (0..=n).collect() } else { (0..kmax).map(|i| i * n / (kmax - 1)).collect() };
    for k in ks {
        let r = run_program(&built, Mode::Single(k), &[]);
        for raw in r.raws.iter().filter(|x| x.contains("| res=Err:")) {
            if err_recs.len() < 2 {
                err_recs.push(raw.clone());
            }
        }
        singles_n += 1;
        if r.end == base.end && r.bad.is_empty() {
            singles_ok += 1;
        } else if first_bad == "-" {
            first_bad = format!("{}:{}:{}", k, r.end, r.bad.join("+"));
        }
    }
    let show = |r: &RunOut| format!("{}@{}c{}[{}]", r.end, r.steps, r.calls, r.bad.join("+"));
    let mut recs = vec![format!(
        "base={} | every={} | twice={} | rooted={} | singles={}/{}:{}",
        show(&base),
        show(&every),
        show(&twice),
        show(&rooted),
        singles_ok,
        singles_n,
        first_bad
    )];
    recs.extend(every.raws.iter().cloned());
    recs.extend(rooted.raws.iter().cloned());
    recs.extend(twice.raws.iter().filter(|x| x.contains("| res=Err:")).take(2).cloned());
    recs.extend(err_recs);
    (recs.join(" ## "), "-".to_string())
}

fn main() {
    // per-case deadline: short for bulk runs, the check re-runs a case that missed it alone with a long one
    let deadline: u64 = std::env::var("VERIF_OPT_DEADLINE_MS").ok().and_then(|v| v.parse().ok()).unwrap_or(10000);
    supervised(deadline, |line| {
        let (kind, rest) = line.split_at(1);
        let rest = rest.trim_start();
        let r = catch(|| match kind {
            "G" => run_graph(rest, true),
            "M" => run_graph(rest, false),
            "X" => run_x(rest),
            _ => ("BADCASE".to_string(), "-".to_string()),
        });
        match r {
            Ok((res, oracle)) => format!("{}\t{}\t{}", line, res, oracle),
            Err(_) => format!("{}\tHARNESSPANIC\t-", line),
        }
    });
}
