"""C08 Undefined operand combinations yield unit, after offering them to the host."""
import collections, os
import vplib, deferlib
from vplib import Verdict, log

PID = "C08"
MANIFEST_ENTRY = {
 "level_claimed": {
  "category": "proof",
  "text": "Theorems in coq/Properties/C08.v about an executable type-level model of one runtime step (coq/Model/OpDispatch.v) that is driven by tables regenerated from /repo on every run (coq/Gen/Exec.v: execute.rs's instruction -> op map; coq/Gen/Dispatch.v: every match arm over GarnishDataType of perform_op, perform_unary_op, access, get_access_addr, access_with_integer, access_with_symbol, apply_internal, type_cast, perform_comparison, the three access_*_internal, make_range_internal, with the catch-all `defer_op .. push_unit` shape and its argument order recognised syntactically): for every instruction, every combination of operand types (and inner types of Type/Slice/Partial/Pair values) for which the hand-pinned coq/Spec/Defined.v defines no result, and every host mode, the step is Ok, calls defer_op exactly once with the operation and both operand types/addresses in source order, consumes its operands, and pushes exactly one value, unit, when the host declines or is absent and nothing when it accepts; conversely a defined combination is never deferred; the 'unsupported types' error of the look-up helpers reaches no caller. The type domain is finite (56 x 101 x 102 x 3) so the proofs are vm_compute over forallb lifted with enumeration-completeness lemmas. Values are covered by the correspondence run: the model (extracted to OCaml) and the real runtime (both data implementations, hosts absent/declining/accepting) are run on every instruction x every ordered pair of representative values of the 21 types and diffed, and the extracted spec is evaluated directly on the implementation's results.",
  "design_ref": "DESIGN.md section 8 C08"
 },
 "level_note": "Finite-domain proof (the bound is the property's own quantifier: types, not values). Trusted: Coq kernel; the translator tools/sync/{execmap,dispatch}.py and the names in tools/arms.json; the hand-written meaning of each listed arm body in Model/OpDispatch.v (tied by the correspondence run, which covers representative values only); Spec/Defined.v is pinned by hand from the code's listed arms (no type table exists in /repo/docs). Data-object failures on defined combinations (list look-ups, conversions) belong to C07/C15/C16 and are only counted. Three defects were fixed in /repo (see known_findings.json).",
 "technique": "Coq finite proof by computation over regenerated dispatch tables + exhaustive type-matrix differential run (harness/src/bin/defer.rs vs extracted model) + direct oracle from the extracted spec"
}
TRUSTED = vplib.BASE_TRUSTED + [
    "tools/sync/execmap.py, tools/sync/dispatch.py, tools/arms.json: the catch-all `defer_op .. push_unit` shape and its argument order are recognised exactly (any other defer_op shape raises); every other arm is classified by the features read from its current body (calls defer_op? which look-up helpers? tests for / produces the unsupported-types code?), its name (exact body hash, else the arm of the same function with the same patterns, else `other`) only refines what the correspondence run compares",
    "coq/Spec/Defined.v: pinned by hand from the operand pairs the runtime lists (no type table in /repo/docs)",
    "coq/Model/OpDispatch.v: hand-written meaning of each named arm body (tied by the matrix correspondence over representative values)",
    "harness hosts: SimpleGarnishData::set_op_handler with auxiliary data; BasicGarnishData with a recording BasicDataCompanion; the accepting host pushes exactly one register (the documented contract)",
]


def classify(rec, what):
    """known-findings classifier: returns a finding id or None.  (No C08 finding is open:
    the three defects seen in round 1 were fixed in /repo.)"""
    return None


def expected_from_spec(spec, host, impl):
    """spec: 'undefined <outcome>' -> dict of what the implementation must show"""
    m = deferlib.parse_fields(spec[len("undefined "):])
    pops, pushes = int(m["pops"]), int(m["pushes"])
    host_pushed = 1 if host == "Y" else 0
    return {"class": "Ok", "d": str(pushes + host_pushed - pops),
            "top": deferlib.HOST_VALUE if host == "Y" else "Unit",
            "calls": m["calls"], "cur": "1", "vs": "0", "sent": "ok"}


def direct(rec):
    """the property statement on one implementation result.  -> (in_domain, failure or None)"""
    spec = rec["spec"]
    if spec in (None, "-") or rec["impl"].startswith("UNBUILDABLE"):
        return False, None
    i = deferlib.parse_fields(rec["impl"])
    host = rec["case"].split(" ")[1]
    if i["class"] == "Err:Unsupported":
        return spec.startswith("undefined"), "the 'unsupported types' error reached the caller"
    if not spec.startswith("undefined"):
        return False, None
    e = expected_from_spec(spec, host, rec["case"][0])
    if i["class"] != "Ok":
        return True, "execution failed (%s) on an undefined operand combination" % i["class"]
    if host != "A" and not deferlib.calls_match(i["calls"], e["calls"]):
        n = len(i["calls"])
        return True, ("defer_op was not called" if n == 0 else
                      "defer_op was called %d times" % n if n > 1 else
                      "defer_op got %s, expected %s (operation, left, right in source order)" % (i["calls"][0], e["calls"][0]))
    if i["d"] != e["d"]:
        return True, "register depth changed by %s, expected %s (exactly one result)" % (i["d"], e["d"])
    if i["top"] != e["top"]:
        return True, ("the result is %s, expected unit" % i["top"]) if host != "Y" else \
            ("the host's result was not used unchanged (top is %s)" % i["top"])
    if i["cur"] != e["cur"] or i["vs"] != e["vs"] or i["sent"] != e["sent"]:
        return True, "execution did not simply continue (cursor %s, value stack %s, stack below %s)" % (i["cur"], i["vs"], i["sent"])
    return True, None


def fallback_direct(rec):
    """when the extracted spec is unavailable: the clauses that need no `defined`"""
    if rec["impl"].startswith("UNBUILDABLE"):
        return None
    i = deferlib.parse_fields(rec["impl"])
    host = rec["case"].split(" ")[1]
    if i["class"] == "Err:Unsupported":
        return "the 'unsupported types' error reached the caller"
    calls = i.get("calls") or []
    if len(calls) > 1:
        return "defer_op was called %d times" % len(calls)
    if len(calls) == 1:
        if "@x" in calls[0] or "@R," in calls[0]:
            return "defer_op operands are not in source order: %s" % calls[0]
        if i["class"] != "Ok":
            return "execution failed after defer_op"
        want = deferlib.HOST_VALUE if host == "Y" else "Unit"
        if i["top"] != want:
            return "after defer_op the result is %s, expected %s" % (i["top"], want)
    return None


def evaluate(v, recs, stats, samples):
    disagreements = 0
    listed = {f["id"] for f in vplib.findings_for(PID)}
    seen_domain = set()
    for rec in recs:
        parts = rec["case"].split(" ")
        if rec["impl"].startswith("UNBUILDABLE"):
            stats["unbuildable"] += 1
            continue
        if rec["impl"].startswith(("BADCASE", "PANIC:harness")):
            v.tie_failure("defer harness could not run %s: %s" % (rec["case"], rec["impl"]))
            continue
        icls = rec["impl"].split(" ")[0]
        stats["impl_" + icls] += 1
        # tie 2: model vs implementation
        st, detail = deferlib.compare_model(rec)
        stats["model_" + st] += 1
        if st == "differ":
            disagreements += 1
            if disagreements <= 5:
                v.tie_failure("correspondence defer: %s impl=[%s] model=[%s]: %s" % (rec["case"], rec["impl"], rec["model"], detail))
        elif st == "data":
            key = "%s %s %s" % (parts[0], parts[2], detail)
            stats["data_object_anomalies"][key] += 1
        # direct oracle
        if rec["spec"] is None:
            fail = fallback_direct(rec)
            in_dom = False
        else:
            in_dom, fail = direct(rec)
        if in_dom:
            stats["undefined_cases"] += 1
            seen_domain.add((parts[2], rec["desc"], parts[1], parts[0]))
            if fail is None and len(samples) < 8 and stats["undefined_cases"] % 9973 == 1:
                samples.append({"case": rec["case"], "impl": rec["impl"], "spec": rec["spec"]})
        if fail:
            fid = classify(rec, fail)
            if fid and fid in listed:
                v.known_hit(fid, "%s -> %s" % (rec["case"], rec["impl"]))
            else:
                stats["property_failures"] += 1
                v.violation(component="defer", input=rec["case"], impl=rec["impl"], expected=rec["spec"], model=rec["model"],
                            operands=rec["desc"], what=fail)
    stats["model_disagreements"] = disagreements
    return len(seen_domain)


def run(tier, seed):
    v = Verdict(PID, tier, seed)
    v.assumptions = [
        "an operand's type (and, for Type / Slice / Partial / Pair values, the type one level inside) determines which arm a step takes; values matter only inside listed arms",
        "for `~#` the right operand's type is the type it denotes when it is a Type value (what type_cast dispatches on and reports to the host)",
        "one-operand operations report (Unit, 0) as their right operand (EmptyApply: the unit value it applies)",
        "operands are pushed in source order, left then right (what the builder emits; MakePair, which is total, is the one exception)",
    ]
    sy = vplib.sync(["instr", "execmap", "truth", "dispatch", "dispatch_strict"])
    for k, e in sy["errors"].items():
        v.tie_failure("translator %s: %s" % (k, e))
    try:
        from sync import dispatch as _d
        for n in _d.NOTES:
            v.notes.append("translator: " + n)
    except Exception:
        pass
    changed_fp = []
    try:
        from sync import dispatch
        changed_fp = dispatch.fingerprint_changes()
    except Exception as e:   # already reported through sync
        changed_fp = ["?"]
    # the extracted model/spec first, so a failing theorem does not keep it from being rebuilt
    okx, outx = vplib.coq_make(["Extract/DispatchExtract.vo"])
    if not okx:
        v.tie_failure("extraction of the dispatch model failed: " + " | ".join(outx.strip().splitlines()[-4:])[:400])
    pr = vplib.prove(PID, ["Proofs/C08", "Spec/Defined.v"])
    for f in pr["failures"]:
        v.tie_failure("prove: " + f)
    v.coverage.update(vplib.proof_coverage(
        pr, "make -C coq Properties/C08.vo && coqc Properties/C08.v (Print Assumptions) && tools/props/c08.py matrix", TRUSTED))
    ok, out = vplib.cargo_build("debug", bins=["defer"])
    if not ok:
        v.tie_failure("harness build failed: " + out[-400:])
    okm, outm = vplib.ocaml_build("dispatch")
    if not okm:
        v.tie_failure("model driver build failed: " + outm[-300:])
    stats = collections.Counter()
    stats["data_object_anomalies"] = collections.Counter()
    samples = []
    cases = []
    distinct = 0
    if ok:
        deferlib.check_names(v)
        # a changed function body (or any broken tie) buys the thorough matrix
        eff = "thorough" if (tier == "thorough" or changed_fp or v.tie_failures) else "quick"
        cases = deferlib.gen_cases(eff)
        recs, err = deferlib.run_matrix(cases)
        if err:
            v.tie_failure("matrix run: " + err)
        if recs is not None:
            distinct = evaluate(v, recs, stats, samples)
        stats["matrix"] = eff
        # contexts derived from a configured SimpleGarnishData keep the host: the same cases on a clone give the same answers
        base = [c for c in cases if c.startswith(("S D ", "S Y "))]
        step = max(1, len(base) // (4000 if eff == "quick" else 40000))
        base = base[::step]
        exe = vplib.private_copy(vplib.harness_bin("defer"))
        rc1, outs = vplib.run_lines([exe], "\n".join(base) + "\n", timeout=900)
        rc2, outc = vplib.run_lines([exe], "\n".join("C" + c[1:] for c in base) + "\n", timeout=900)
        try:
            os.remove(exe)
        except OSError:
            pass
        if rc1 != 0 or rc2 != 0 or len(outs) != len(base) or len(outc) != len(base):
            v.tie_failure("derived-context run failed rc=%s/%s lines=%d/%d/%d" % (rc1, rc2, len(outs), len(outc), len(base)))
        else:
            nbad = 0
            for c, a, b in zip(base, outs, outc):
                ra, rb = a.split("\t")[1:2], b.split("\t")[1:2]
                if ra != rb:
                    nbad += 1
                    if nbad <= 5:
                        v.violation(component="dispatch", input="C" + c[1:], what="a context derived with clone_with_aux_without_data answers "
                                    "differently from the context it was derived from (the host is not offered the operation the same way)",
                                    impl=(rb or ["?"])[0][:300], expected=(ra or ["?"])[0][:300])
            stats["derived_context_cases"] = len(base)
            stats["derived_context_differences"] = nbad
    stats["data_object_anomalies"] = dict(stats["data_object_anomalies"].most_common(12))
    v.coverage.update({
        "evaluations": len(cases),
        "distinct_nontrivial": distinct,
        "rule": "every instruction x every ordered pair (single for one-operand operations) of representative values of the 21 "
                "types (quick: 1-3 per type; thorough: empty, singleton, typical, nested; every Type value as right operand of "
                "~# and type-equal) x host absent/declining/accepting x SimpleGarnishData/BasicGarnishData; a case is "
                "non-trivial when the pinned spec defines no result for it (distinct = instruction x operand abstractions x "
                "host x implementation)",
        "samples": samples,
        "histogram": {k: (dict(x) if isinstance(x, collections.Counter) else x) for k, x in stats.items()},
        "regenerated_tables": sy["changed"],
        "changed_function_bodies": changed_fp,
    })
    if stats.get("data_object_anomalies"):
        v.notes.append("data-object failures on DEFINED combinations are outside C08 (C07/C15/C16): " +
                       "; ".join("%s x%d" % kv for kv in list(stats["data_object_anomalies"].items())[:6]))
    return v.finish("proof")


def replay(obj):
    cases = [x["input"] for x in obj.get("violations", []) if x.get("input")]
    if not cases:
        print("replay names a broken tie, not an input:", obj.get("no_longer_checks"))
        return run("quick", obj.get("seed", 0))
    ok, out = vplib.cargo_build("debug", bins=["defer"])
    vplib.ocaml_build("dispatch")
    recs, err = deferlib.run_matrix(cases)
    if recs is None:
        print("replay could not run:", err)
        return 2
    rc = 0
    for rec in recs:
        in_dom, fail = direct(rec) if rec["spec"] is not None else (False, fallback_direct(rec))
        if fail:
            rc = 1
        print("%s: %s impl=[%s] spec=[%s]%s" % ("FAILS" if fail else "ok", rec["case"], rec["impl"], rec["spec"],
                                               (" -- " + fail) if fail else ""))
    return rc
