(* Model of data/src/data/parsing.rs (parse_number_internal / parse_simple_number,
   parse_char_list, parse_byte_list, parse_byte_list_numbers), of the symbol
   text handling (parse_symbol) and of the length headers the two data
   implementations write for text (data/src/runtime.rs parse_add_*,
   data/src/basic/garnish/garnish_impl.rs parse_add_*, data/src/basic/basic.rs
   add_string / get_symbol_string).

   Strings are lists of code points ([N]).  [utf8_len] is concrete because the
   Rust mixes String::len() (bytes) with chars() (code points).  Slicing that
   can panic and `usize` subtraction that can underflow (debug profile) are
   [Panic].  i32::from_str_radix / u32::from_str are modelled as the standard
   library documents them; str::parse::<f64> is the argument [pf] of the number
   parser, whose instance [parse_f64] (grammar + correctly rounded conversion
   through Flocq) is defined here and is what the driver runs; char::is_numeric on
   non-ASCII characters is the oracle argument [uni_numeric].
   No proofs in this file. *)
From Coq Require Import ZArith NArith List Bool.
From Coq Require Import Floats.SpecFloat.
From Flocq Require Import IEEE754.BinarySingleNaN IEEE754.Binary IEEE754.Bits.
From GV Require Import Base.Result Model.Num.
Import ListNotations.
Local Open Scope N_scope.

Definition str := list N.

(* ---- characters ---- *)
Definition ch_quote : N := 34.     (* double quote *)
Definition ch_apos : N := 39.      (* apostrophe *)
Definition ch_bslash : N := 92.    (* backslash *)
Definition ch_us : N := 95.        (* underscore *)
Definition ch_zero : N := 48.      (* digit zero *)
Definition ch_space : N := 32.
Definition ch_lbrace : N := 123.
Definition ch_rbrace : N := 125.
Definition ch_colon : N := 58.
Definition ch_plus : N := 43.
Definition ch_minus : N := 45.
Definition ch_nl : N := 10.
Definition ch_tab : N := 9.
Definition ch_cr : N := 13.

Definition utf8_len (c : N) : N :=
  if c <? 128 then 1 else if c <? 2048 then 2 else if c <? 65536 then 3 else 4.

(* String::len(): bytes *)
Fixpoint str_len (s : str) : N :=
  match s with [] => 0 | c :: r => utf8_len c + str_len r end.
(* chars().count() *)
Definition chars_count (s : str) : N := N.of_nat (length s).

(* &s[a..b] with byte offsets; Panic when a > b, b > len or an offset is not on
   a character boundary *)
Fixpoint drop_bytes (s : str) (a : N) : option str :=
  if a =? 0 then Some s else
  match s with
  | [] => None
  | c :: r => if utf8_len c <=? a then drop_bytes r (a - utf8_len c) else None
  end.
Fixpoint take_bytes (s : str) (n : N) : option str :=
  if n =? 0 then Some [] else
  match s with
  | [] => None
  | c :: r =>
      if utf8_len c <=? n then
        match take_bytes r (n - utf8_len c) with Some t => Some (c :: t) | None => None end
      else None
  end.
Definition slice_bytes (s : str) (a b : N) : res str :=
  if b <? a then Panic 1 else
  match drop_bytes s a with
  | None => Panic 1
  | Some t => match take_bytes t (b - a) with None => Panic 1 | Some u => Ok u end
  end.

(* number of leading characters equal to q *)
Fixpoint count_leading (q : N) (s : str) : N :=
  match s with
  | c :: r => if c =? q then 1 + count_leading q r else 0
  | [] => 0
  end.

Definition skip_chars (n : N) (s : str) : str := skipn (N.to_nat n) s.
Definition take_chars (n : N) (s : str) : str := firstn (N.to_nat n) s.

(* str::find('_') followed by the two slices &input[0..i], &input[i+1..]:
   both offsets are character boundaries, so no panic is possible *)
Fixpoint split_at_first (x : N) (s : str) : option (str * str) :=
  match s with
  | [] => None
  | c :: r =>
      if c =? x then Some ([], r)
      else match split_at_first x r with
           | Some (a, b) => Some (c :: a, b)
           | None => None
           end
  end.

Fixpoint remove_char (x : N) (s : str) : str :=
  match s with
  | [] => []
  | c :: r => if c =? x then remove_char x r else c :: remove_char x r
  end.

Fixpoint trim_start (x : N) (s : str) : str :=
  match s with
  | c :: r => if c =? x then trim_start x r else s
  | [] => []
  end.
Definition trim_end (x : N) (s : str) : str := rev (trim_start x (rev s)).
Definition trim_both (x : N) (s : str) : str := trim_end x (trim_start x s).

Definition starts_with_char (x : N) (s : str) : bool :=
  match s with c :: _ => c =? x | [] => false end.

(* ---- char::to_digit(radix) ---- *)
Definition to_digit (radix c : N) : option N :=
  let d :=
    if (48 <=? c) && (c <=? 57) then Some (c - 48)
    else if (97 <=? c) && (c <=? 122) then Some (c - 87)
    else if (65 <=? c) && (c <=? 90) then Some (c - 55)
    else None in
  match d with
  | Some v => if v <? radix then Some v else None
  | None => None
  end.

(* digits accumulated most significant first; None on an invalid digit *)
Fixpoint digits_acc (radix : N) (s : str) (acc : N) : option N :=
  match s with
  | [] => Some acc
  | c :: r =>
      match to_digit radix c with
      | Some d => digits_acc radix r (acc * radix + d)
      | None => None
      end
  end.

(* i32::from_str_radix: empty -> Err; a lone sign -> Err; optional '+' / '-';
   every character a digit of the radix; overflow -> Err.  The checked
   accumulation overflows at some prefix iff the final value is out of range
   (the prefix values are monotone), so the range is tested at the end. *)
Definition i32_from_str_radix (s : str) (radix : N) : option Z :=
  match s with
  | [] => None
  | c :: r =>
      if (c =? ch_plus) || (c =? ch_minus) then
        match r with
        | [] => None
        | _ =>
            match digits_acc radix r 0 with
            | None => None
            | Some v =>
                let z := if c =? ch_minus then (- Z.of_N v)%Z else Z.of_N v in
                if in_i32 z then Some z else None
            end
        end
      else
        match digits_acc radix s 0 with
        | None => None
        | Some v => if in_i32 (Z.of_N v) then Some (Z.of_N v) else None
        end
  end.

(* u32::from_str: as above, radix 10, no '-' (it is then an invalid digit) *)
Definition u32_from_str (s : str) : option N :=
  match s with
  | [] => None
  | c :: r =>
      let body := if c =? ch_plus then r else s in
      match body with
      | [] => None
      | _ =>
          match digits_acc 10 body 0 with
          | None => None
          | Some v => if v <=? 4294967295 then Some v else None
          end
      end
  end.

Definition err_parse : N := 1.

(* ---- str::parse::<f64> (core::num::dec2flt) ----
   Grammar, as the standard library documents it:
     Float  ::= Sign? ( 'inf' | 'infinity' | 'nan' | Number )      (case-insensitive)
     Number ::= ( Digit+ | Digit+ '.' Digit* | Digit* '.' Digit+ ) Exp?
     Exp    ::= 'e' Sign? Digit+
   and the value is the binary64 nearest (ties to even) to the decimal number.
   The rounding is Flocq's division core + binary_round_aux on the exact
   integers m * 10^e / 1 or m / 10^-e (Proofs/C14/DecFloat.v: it is the IEEE
   rounding of the rational).  Exponents that certainly overflow or underflow
   to zero are decided without computing the power. *)
Definition is_dec_digit (c : N) : bool := (48 <=? c) && (c <=? 57).

(* digits consumed: (accumulated value, number of digits, rest) *)
Fixpoint take_digits (s : str) (acc : N) (n : N) : N * N * str :=
  match s with
  | c :: r => if is_dec_digit c then take_digits r (acc * 10 + (c - 48)) (n + 1) else (acc, n, s)
  | [] => (acc, n, [])
  end.

Definition lower_ascii (c : N) : N := if (65 <=? c) && (c <=? 90) then c + 32 else c.
Fixpoint str_eqb (a b : str) : bool :=
  match a, b with
  | [], [] => true
  | x :: a', y :: b' => (x =? y) && str_eqb a' b'
  | _, _ => false
  end.

(* the part after the sign: Some (mantissa, decimal exponent) *)
Definition parse_decimal (s : str) : option (N * Z) :=
  let '(i, ni, r1) := take_digits s 0 0 in
  let '(m, nf, r2) :=
    match r1 with
    | c :: r => if c =? 46 then take_digits r i 0 else (i, 0, r1)
    | [] => (i, 0, [])
    end in
  if ni + nf =? 0 then None else
  match r2 with
  | [] => Some (m, (- Z.of_N nf)%Z)
  | c :: r =>
      if (c =? 101) || (c =? 69) then
        let '(neg, r3) :=
          match r with
          | x :: r' => if x =? ch_minus then (true, r') else if x =? ch_plus then (false, r') else (false, r)
          | [] => (false, [])
          end in
        match r3 with
        | d :: _ =>
            if is_dec_digit d then
              let '(e, _, r4) := take_digits r3 0 0 in
              match r4 with
              | [] => Some (m, ((if neg then - Z.of_N e else Z.of_N e) - Z.of_N nf)%Z)
              | _ :: _ => None
              end
            else None
        | [] => None
        end
      else None
  end.

Definition f64_nan : binary64 := Binary.B754_nan 53 1024 false 1%positive (eq_refl _).

(* SpecFloat result -> binary64 (the result of binary_round_aux is always valid) *)
Definition sf_to_b64 (x : SpecFloat.spec_float) : binary64 :=
  match x with
  | SpecFloat.S754_zero s => Binary.B754_zero 53 1024 s
  | SpecFloat.S754_infinity s => Binary.B754_infinity 53 1024 s
  | SpecFloat.S754_nan => f64_nan
  | SpecFloat.S754_finite s m e =>
      match Sumbool.sumbool_of_bool (SpecFloat.bounded 53 1024 m e) with
      | left H => Binary.B754_finite 53 1024 s m e H
      | right _ => f64_nan
      end
  end.

(* correctly rounded mx / my *)
Definition f64_of_ratio (neg : bool) (mx my : positive) : binary64 :=
  let '(mz, ez, lz) := SpecFloat.SFdiv_core_binary 53 1024 (Zpos mx) 0 (Zpos my) 0 in
  sf_to_b64 (BinarySingleNaN.binary_round_aux 53 1024 BinarySingleNaN.mode_NE neg mz ez lz).

Definition f64_of_decimal (neg : bool) (m : N) (e10 : Z) : binary64 :=
  match m with
  | N0 => Binary.B754_zero 53 1024 neg
  | Npos p =>
      if (310 <=? e10)%Z then Binary.B754_infinity 53 1024 neg        (* >= 10^310 *)
      else if (10000 * (Z.log2 (Zpos p) + 1) + 33219 * e10 <=? -10750000)%Z
      then Binary.B754_zero 53 1024 neg                               (* < 2^-1075 *)
      else if (0 <=? e10)%Z then f64_of_ratio neg (p * Z.to_pos (10 ^ e10)) 1
      else f64_of_ratio neg p (Z.to_pos (10 ^ (- e10)))
  end.

Definition parse_f64 (s : str) : option binary64 :=
  match s with
  | [] => None
  | c :: r =>
      let '(neg, body) :=
        if c =? ch_minus then (true, r) else if c =? ch_plus then (false, r) else (false, s) in
      match body with
      | [] => None
      | _ :: _ =>
          match parse_decimal body with
          | Some (m, e) => Some (f64_of_decimal neg m e)
          | None =>
              let l := map lower_ascii body in
              if str_eqb l [110; 97; 110] then Some f64_nan
              else if str_eqb l [105; 110; 102] || str_eqb l [105; 110; 102; 105; 110; 105; 116; 121]
              then Some (Binary.B754_infinity 53 1024 neg)
              else None
          end
      end
  end.

Section WithOracles.
  (* str::parse::<f64>: None = Err *)
  Variable pf : str -> option binary64.
  (* char::is_numeric on non-ASCII characters *)
  Variable uni_numeric : N -> bool.

  Definition is_numeric (c : N) : bool :=
    if c <? 128 then (48 <=? c) && (c <=? 57) else uni_numeric c.

  (* parse_number_internal (with the radix split as fixed: trim_start_matches,
     and a non-numeric prefix is not a radix prefix) *)
  Definition parse_number_internal (input : str) (default_radix : N) : res num :=
    let split : res (N * str) :=
      match split_at_first ch_us input with
      | None => Ok (default_radix, input)
      | Some (part, rest) =>
          if starts_with_char ch_zero part then
            match u32_from_str (trim_start ch_zero part) with
            | None => Ok (default_radix, input)   (* not a radix prefix: 0.5_5, 0_5 *)
            | Some v => if (v <? 2) || (36 <? v) then Err err_parse else Ok (v, rest)
            end
          else Ok (default_radix, input)
      end in
    do ri <- split ;
    let '(radix, inp) := ri in
    let stripped := remove_char ch_us inp in
    match i32_from_str_radix stripped radix with
    | Some v => Ok (Int v)
    | None =>
        if radix =? 10 then
          match pf stripped with
          | Some f => Ok (Flt f)
          | None => Err err_parse
          end
        else Err err_parse
    end.

  Definition parse_simple_number (input : str) : res num := parse_number_internal input 10.

  (* char::from_u32(v as u32) *)
  Definition char_from_i32 (v : Z) : option N :=
    let u := (v mod 4294967296)%Z in
    if ((u <? 55296) || ((57344 <=? u) && (u <=? 1114111)))%Z then Some (Z.to_N u) else None.

  (* the body loop of parse_char_list; [uni] = Some u while in_unicode *)
  Fixpoint char_list_loop (quotes : N) (cs : str) (out : str) (esc : bool) (uni : option str) : res str :=
    match cs with
    | [] => Ok out
    | c :: rest =>
        match uni with
        | Some u =>
            if c =? ch_rbrace then
              do n <- parse_number_internal u 16 ;
              match n with
              | Flt _ => Err err_parse
              | Int v =>
                  match char_from_i32 v with
                  | None => Err err_parse
                  | Some x => char_list_loop quotes rest (out ++ [x]) esc None
                  end
              end
            else char_list_loop quotes rest out esc (Some (if c =? ch_lbrace then u else u ++ [c]))
        | None =>
            if esc then
              if c =? 110 then char_list_loop quotes rest (out ++ [ch_nl]) false None
              else if c =? 116 then char_list_loop quotes rest (out ++ [ch_tab]) false None
              else if c =? 114 then char_list_loop quotes rest (out ++ [ch_cr]) false None
              else if c =? 48 then char_list_loop quotes rest (out ++ [0]) false None
              else if c =? ch_bslash then char_list_loop quotes rest (out ++ [ch_bslash]) false None
              else if c =? ch_quote then char_list_loop quotes rest (out ++ [ch_quote]) false None
              else if c =? 117 then char_list_loop quotes rest out false (Some [])
              else Err err_parse
            else if c =? ch_bslash then char_list_loop quotes rest out true None
            else if ((c =? ch_nl) || (c =? ch_tab)) && (quotes <=? 1) then char_list_loop quotes rest out false None
            else char_list_loop quotes rest (out ++ [c]) false None
        end
    end.

  (* parse_char_list, with real_len as fixed (chars().count()); the usize
     subtraction panics on underflow (debug profile) *)
  Definition parse_char_list (input : str) : res str :=
    if str_len input =? 0 then Ok [] else
    let q := count_leading ch_quote input in
    if q =? str_len input then Ok [] else
    if chars_count input <? q * 2 then Panic 2 else
    let real_len := chars_count input - q * 2 in
    char_list_loop q (take_chars real_len (skip_chars q input)) [] false None.

  Fixpoint byte_numbers_loop (cs : str) (cur : str) (out : list N) : res (list N) :=
    match cs with
    | [] => Ok out
    | c :: rest =>
        if is_numeric c || (c =? ch_us) then byte_numbers_loop rest (cur ++ [c]) out
        else if (c =? ch_space) && negb (match cur with [] => true | _ => false end) then
          do n <- parse_simple_number cur ;
          match n with
          | Flt _ => Err err_parse
          | Int v =>
              if ((v <? 0) || (255 <? v))%Z then Err err_parse
              else byte_numbers_loop rest [] (out ++ [Z.to_N v])
          end
        else Err err_parse
    end.

  Definition parse_byte_list_numbers (input : str) : res (list N) :=
    byte_numbers_loop (input ++ [ch_space]) [] [].

  Fixpoint byte_text_loop (cs : str) (out : list N) (esc : bool) : res (list N) :=
    match cs with
    | [] => Ok out
    | c :: rest =>
        if esc then
          if c =? 110 then byte_text_loop rest (out ++ [ch_nl]) false
          else if c =? 116 then byte_text_loop rest (out ++ [ch_tab]) false
          else if c =? 114 then byte_text_loop rest (out ++ [ch_cr]) false
          else if c =? 48 then byte_text_loop rest (out ++ [0]) false
          else if c =? ch_bslash then byte_text_loop rest (out ++ [ch_bslash]) false
          else if c =? ch_apos then byte_text_loop rest (out ++ [ch_apos]) false
          else Err err_parse
        else if c =? ch_bslash then byte_text_loop rest out true
        else byte_text_loop rest (out ++ [c mod 256]) false      (* c as u8 *)
    end.

  (* parse_byte_list, with the all-quotes early return and the char-count
     real_len of the fixed code *)
  Definition parse_byte_list (input : str) : res (list N) :=
    let q := count_leading ch_apos input in
    if q =? str_len input then Ok [] else
    if chars_count input <? q * 2 then Panic 3 else
    let real_len := chars_count input - q * 2 in
    if 2 <=? q then
      do body <- slice_bytes input q (str_len input - q) ;
      parse_byte_list_numbers body
    else byte_text_loop (take_chars real_len (skip_chars q input)) [] false.
End WithOracles.

(* ---- symbols: parse_symbol hashes the name with ':' trimmed from both ends ---- *)
Definition symbol_key (name : str) : str := trim_both ch_colon name.

(* ---- what the data implementations store for text ---- *)
(* BasicGarnishData: a header cell holding a length, then one cell per item *)
Inductive cell : Type :=
| CCharList (len : N) | CChar (c : N)
| CByteList (len : N) | CByte (b : N)
| CSymbol (s : N).

(* [hdr] is the length written into the header: chars().count() in the fixed
   code, String::len() before *)
Definition basic_text_cells (hdr : str -> N) (s : str) : list cell :=
  CCharList (hdr s) :: map CChar s.
Definition basic_add_string := basic_text_cells chars_count.
Definition basic_bytes_cells (bs : list N) : list cell :=
  CByteList (N.of_nat (length bs)) :: map CByte bs.

(* parse_add_symbol: Symbol cell, CharList header + chars, symbol table entry
   (symbol, index of the header) *)
Definition basic_parse_add_symbol (hdr : str -> N) (hash : str -> N) (base : N) (name : str)
  : list cell * (N * N) :=
  (CSymbol (hash (symbol_key name)) :: basic_text_cells hdr name, (hash (symbol_key name), base + 1)).

(* readers: get_char_list_len is the header; get_char_list_item i reads cell
   index+1+i (as_char: Err when it is not a Char); get_symbol_string slices
   header-many cells and unwraps as_char (Panic) *)
Definition cell_at (cells : list cell) (i : N) : option cell := nth_error cells (N.to_nat i).

Definition basic_char_list_len (cells : list cell) (idx : N) : res N :=
  match cell_at cells idx with
  | Some (CCharList n) => Ok n
  | _ => Err 2
  end.
Definition basic_char_list_item (cells : list cell) (idx i : N) : res (option N) :=
  do n <- basic_char_list_len cells idx ;
  if n <=? i then Ok None else
  match cell_at cells (idx + 1 + i) with
  | Some (CChar c) => Ok (Some c)
  | _ => Err 2
  end.
Fixpoint read_chars_panic (cells : list cell) : res str :=
  match cells with
  | [] => Ok []
  | CChar c :: r => do t <- read_chars_panic r ; Ok (c :: t)
  | _ :: _ => Panic 4
  end.
Definition basic_slice_chars (cells : list cell) (idx : N) : res str :=
  do n <- basic_char_list_len cells idx ;
  let start := N.to_nat (idx + 1) in
  if N.of_nat (length cells) <? idx + 1 + n then Panic 5
  else read_chars_panic (firstn (N.to_nat n) (skipn start cells)).
(* get_symbol_string over a one-entry table *)
Definition basic_get_symbol_string (cells : list cell) (entry : N * N) (sym : N) : res (option str) :=
  if fst entry =? sym then do s <- basic_slice_chars cells (snd entry) ; Ok (Some s) else Ok None.

Definition basic_byte_list_len (cells : list cell) (idx : N) : res N :=
  match cell_at cells idx with
  | Some (CByteList n) => Ok n
  | _ => Err 2
  end.
Definition basic_byte_list_item (cells : list cell) (idx i : N) : res (option N) :=
  do n <- basic_byte_list_len cells idx ;
  if n <=? i then Ok None else
  match cell_at cells (idx + 1 + i) with
  | Some (CByte c) => Ok (Some c)
  | _ => Err 2
  end.

(* SimpleGarnishData keeps the String / Vec<u8>; get_char_list_len is
   chars().count() in the fixed code (String::len() before) *)
Definition simple_char_list_len (hdr : str -> N) (s : str) : N := hdr s.
Definition simple_char_list_item (s : str) (i : N) : res (option N) :=
  match nth_error s (N.to_nat i) with Some c => Ok (Some c) | None => Err 2 end.

(* SimpleGarnishData::parse_add_symbol: symbol_to_name.insert(parse_symbol(from), from) *)
Definition simple_parse_add_symbol (hash : str -> N) (name : str) : N * str := (hash (symbol_key name), name).
Definition simple_symbol_name (entry : N * str) (sym : N) : option str :=
  if fst entry =? sym then Some (snd entry) else None.

(* read every item the way the harness does: for i < len *)
Fixpoint read_items (item : N -> res (option N)) (n : nat) (i : N) : list (res (option N)) :=
  match n with
  | O => []
  | S k => item i :: read_items item k (i + 1)
  end.

(* the observable result of a one-literal program: (len, items) *)
Definition stored_text := (N * list (res (option N)))%type.

Definition simple_store_chars (hdr : str -> N) (s : str) : stored_text :=
  let n := simple_char_list_len hdr s in (n, read_items (simple_char_list_item s) (N.to_nat n) 0).
Definition basic_store_chars (s : str) : stored_text :=
  let cells := basic_text_cells chars_count s in   (* parse_add_char_list uses Vec<char>::len() *)
  match basic_char_list_len cells 0 with
  | Ok n => (n, read_items (basic_char_list_item cells 0) (N.to_nat n) 0)
  | _ => (0, [])
  end.
Definition simple_store_bytes (bs : list N) : stored_text :=
  let n := N.of_nat (length bs) in
  (n, read_items (fun i => match nth_error bs (N.to_nat i) with Some b => Ok (Some b) | None => Err 2 end) (N.to_nat n) 0).
Definition basic_store_bytes (bs : list N) : stored_text :=
  let cells := basic_bytes_cells bs in
  match basic_byte_list_len cells 0 with
  | Ok n => (n, read_items (basic_byte_list_item cells 0) (N.to_nat n) 0)
  | _ => (0, [])
  end.
