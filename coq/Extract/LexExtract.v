(* Extraction of the lexer model and the executable C13 spec checker for the
   correspondence check.  ExtrOcamlBasic only; positive/N stay Coq datatypes.
   No Extract Constant. *)
Require Import ExtrOcamlBasic.
From Coq Require Import NArith ZArith List.
From GV Require Import Gen.TokenTypes Gen.Tokens Model.Lexer Spec.LexSpec.
Cd "../build/ocaml".
Extraction "lex_model.ml" lex_run lex token_type_index all_token_type spec_verdict operator_spellings Z.of_N.  (* Z.of_N: ocaml/zconv.ml mentions the type z *)
Cd "../../coq".
