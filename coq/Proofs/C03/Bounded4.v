(* Length-4 clause over a representative alphabet (one token type per
   definition-kind / priority class / special role).  The alphabet is part of
   the statement; nothing is claimed for token types outside it. *)
From Coq Require Import List Arith Bool NArith Lia.
From GV Require Import Base.Result Gen.TokenTypes Gen.Defs Model.Parser Model.BuilderWL
  Spec.TreeShape Proofs.C03.Bounded.
Import ListNotations.

Definition rep_alphabet : list token_type :=
  [TT_Number; TT_Identifier; TT_ExpressionTerminator; TT_Unknown;
   TT_StartExpression; TT_EndExpression; TT_StartGroup; TT_EndGroup; TT_StartSideEffect; TT_EndSideEffect;
   TT_Whitespace; TT_Subexpression; TT_ExpressionSeparator; TT_Annotation;
   TT_PlusSign; TT_MultiplicationSign; TT_Period; TT_Pair; TT_Comma; TT_InfixIdentifier;
   TT_Opposite; TT_Not; TT_Reapply; TT_PrefixIdentifier;
   TT_EmptyApply; TT_RightInternal; TT_SuffixIdentifier;
   TT_And; TT_JumpIfTrue; TT_ElseJump; TT_Apply; TT_ApplyTo].

Definition both_ok (toks : list token_type) : bool := pipe_ok toks && c04_ok toks.

Lemma both_ok_rep_4 : forallb both_ok (seqs_exact rep_alphabet 4) = true.
Proof. vm_compute. reflexivity. Qed.

Theorem pipeline_bounded_4_rep (toks : list token_type) :
  length toks = 4 -> (forall t, In t toks -> In t rep_alphabet) ->
  pipe_ok toks = true /\ c04_ok toks = true.
Proof.
  intros Hl Hin. pose proof both_ok_rep_4 as F. rewrite forallb_forall in F.
  specialize (F toks). rewrite <- Hl in F.
  assert (B : both_ok toks = true) by (apply F; apply seqs_exact_complete, Hin).
  unfold both_ok in B. apply andb_true_iff in B. exact B.
Qed.
