(* (d) base: vocabulary for comparing the tree compiler Model/Compile.v (what the
   builder model is proved equal to) with the AST compiler Model/CompileExpr.v
   (what the machine simulation of C01 is about): states that only grow,
   conversion of data operands to literal values, running the pending bodies
   LIFO, and the composition rules for blocks of out-of-line bodies with the
   jump-table segment they patch. *)
From Coq Require Import ZArith NArith List Bool Arith Lia.
From GV Require Import Base.Result Base.Host Gen.TokenTypes Gen.Defs Gen.Instr Model.Num Model.Value
  Model.Parser Model.BuilderWL Model.Machine Model.Compile Model.CompileExpr Model.CompileWL
  Spec.Ast Spec.Printer Spec.Eval Spec.Fragment Proofs.C05.InlBase.
Import ListNotations.

Notation cci := Compile.ci.
Notation ccm := Compile.cm.
Notation ccj := Compile.cj.

Definition lit_all : nat -> bool := fun _ => true.

(* a state extended by instructions, metadata and jump entries *)
Definition sx (s : cst) (code : list instr) (ms : list (option nat)) (js : list nat) : cst :=
  mkC (cci s ++ code) (ccm s ++ ms) (ccj s ++ js).

Lemma sx_nil s : sx s [] [] [] = s.
Proof. destruct s. unfold sx. cbn. rewrite !app_nil_r. reflexivity. Qed.
Lemma sx_sx s a b c a' b' c' : sx (sx s a b c) a' b' c' = sx s (a ++ a') (b ++ b') (c ++ c').
Proof. unfold sx. cbn. rewrite <- !app_assoc. reflexivity. Qed.
Lemma emit_sx s a b c i m : emit (sx s a b c) i m = sx s (a ++ [i]) (b ++ [m]) c.
Proof. unfold emit, sx. cbn. rewrite <- !app_assoc. reflexivity. Qed.
Lemma emit_s s i m : emit s i m = sx s [i] [m] [].
Proof. unfold emit, sx. rewrite app_nil_r. reflexivity. Qed.
Lemma new_jump_sx s a b c v : new_jump (sx s a b c) v = sx s a b (c ++ [v]).
Proof. unfold new_jump, sx. cbn. rewrite <- !app_assoc. reflexivity. Qed.
Lemma new_jump_s s v : new_jump s v = sx s [] [] [v].
Proof. unfold new_jump, sx. rewrite !app_nil_r. reflexivity. Qed.

Definition il0 (s : cst) : nat := il empty_init s.
Definition jl0 (s : cst) : nat := jl empty_init s.
Lemma il0_len s : il0 s = length (cci s).  Proof. reflexivity. Qed.
Lemma jl0_len s : jl0 s = length (ccj s).  Proof. reflexivity. Qed.
Lemma il0_sx s a b c : il0 (sx s a b c) = il0 s + length a.
Proof. unfold il0, il, sx. cbn. rewrite app_length. reflexivity. Qed.
Lemma jl0_sx s a b c : jl0 (sx s a b c) = jl0 s + length c.
Proof. unfold jl0, jl, sx. cbn. rewrite app_length. reflexivity. Qed.

Section Base.
Variable sym_hash : list N -> N.
Variable toks : list atok.
Variable ns : list pnode.

Notation conv := (convert sym_hash toks ns).

Lemma conv_app a b x y : conv a = Ok x -> conv b = Ok y -> conv (a ++ b) = Ok (x ++ y).
Proof.
  revert x. induction a as [|[i o] a IH]; intros x Ha Hb.
  - injection Ha as <-. exact Hb.
  - cbn [app convert] in *. destruct (match o with ONone => Ok MNone | ONum n => Ok (MNum n)
      | OData ni => do v <- operand_value sym_hash toks ns ni; Ok (MVal v) | OExpr j => Ok (MVal (VExpr (N.of_nat j))) end) as [m| | |];
      try discriminate Ha. cbn [bind] in *.
    destruct (conv a) as [r| | |]; try discriminate Ha. cbn [bind] in Ha. injection Ha as <-.
    rewrite (IH r eq_refl Hb). reflexivity.
Qed.

Lemma conv_length a x : conv a = Ok x -> length x = length a.
Proof.
  revert x. induction a as [|[i o] a IH]; intros x Ha.
  - injection Ha as <-. reflexivity.
  - cbn [convert] in Ha. destruct (match o with ONone => Ok MNone | ONum n => Ok (MNum n)
      | OData ni => do v <- operand_value sym_hash toks ns ni; Ok (MVal v) | OExpr j => Ok (MVal (VExpr (N.of_nat j))) end) as [m| | |];
      try discriminate Ha. cbn [bind] in Ha.
    destruct (conv a) as [r| | |]; try discriminate Ha. cbn [bind] in Ha. injection Ha as <-.
    cbn [length]. rewrite (IH r eq_refl). reflexivity.
Qed.

Lemma conv_none i : conv [(i, ONone)] = Ok [ins i].
Proof. reflexivity. Qed.
Lemma conv_num i n : conv [(i, ONum n)] = Ok [insn i n].
Proof. reflexivity. Qed.

(* ---- the pending bodies, LIFO ---- *)
Definition run_all (fuel : nat) (ps : list pend) (s : cst) : res cst :=
  fold_left (fun (acc : res cst) (q : pend) => do a <- acc; Compile.run_body empty_init lit_all fuel q a) (rev ps) (Ok s).

Lemma fold_run_bind fuel : forall l (r : res cst),
  fold_left (fun (acc : res cst) (q : pend) => do a <- acc; Compile.run_body empty_init lit_all fuel q a) l r
  = do a <- r; fold_left (fun (acc : res cst) (q : pend) => do a <- acc; Compile.run_body empty_init lit_all fuel q a) l (Ok a).
Proof.
  induction l as [|q l IH]; intros r; cbn [fold_left].
  - destruct r; reflexivity.
  - rewrite IH. destruct r; try reflexivity. cbn [bind]. rewrite IH. reflexivity.
Qed.

Lemma run_all_nil fuel s : run_all fuel [] s = Ok s.
Proof. reflexivity. Qed.

Lemma run_all_app fuel a b s : run_all fuel (a ++ b) s = do s' <- run_all fuel b s; run_all fuel a s'.
Proof. unfold run_all. rewrite rev_app_distr, fold_left_app. apply fold_run_bind. Qed.

Lemma run_all_one fuel p s : run_all fuel [p] s = Compile.run_body empty_init lit_all fuel p s.
Proof. reflexivity. Qed.

Lemma run_body_unfold f p s :
  Compile.run_body empty_init lit_all (S f) p s =
  do s1 <- Compile.patch empty_init s (p_jump p) (il0 s);
  do x <- Compile.inl empty_init lit_all (p_jump p) (p_tree p) (Compile.plain (p_containing p)) s1;
  let '(s2, ps, _) := x in run_all f ps (Compile.finish empty_init s2 (p_end p)).
Proof. reflexivity. Qed.

(* ---- a block of bodies: placed at [ob] with jump entries from [jb], patches
   the segment [ji0] (which starts at index [j]) to [ji], appends [ool] / [jo] ---- *)
Definition bodies_ok (need : nat) (ps : list pend) (j : nat) (ji0 ji : list nat) (ob jb : nat)
           (ool : list minstr) (jo : list nat) : Prop :=
  forall fuel s2 pre mid, need <= fuel ->
    ccj s2 = pre ++ ji0 ++ mid -> length pre = j -> il0 s2 = ob -> jl0 s2 = jb ->
    exists code' ms',
      run_all fuel ps s2 = Ok (mkC (cci s2 ++ code') (ccm s2 ++ ms') (pre ++ ji ++ mid ++ jo)) /\
      conv code' = Ok ool.

Lemma bodies_nil need j ji ob jb : bodies_ok need [] j ji ji ob jb [] [].
Proof.
  intros fuel s2 pre mid _ Hc _ _ _. exists [], []. split; [|reflexivity].
  rewrite run_all_nil, !app_nil_r, <- Hc. destruct s2; reflexivity.
Qed.

Lemma bodies_weaken need need' ps j ji0 ji ob jb ool jo :
  need <= need' -> bodies_ok need ps j ji0 ji ob jb ool jo -> bodies_ok need' ps j ji0 ji ob jb ool jo.
Proof. intros Hle H fuel s2 pre mid Hf. apply H. lia. Qed.

(* the segment may be seen as part of a longer one *)
Lemma bodies_frame need ps j ji0 ji ob jb ool jo a b :
  length ji0 = length ji ->
  bodies_ok need ps (j + length a) ji0 ji ob jb ool jo ->
  bodies_ok need ps j (a ++ ji0 ++ b) (a ++ ji ++ b) ob jb ool jo.
Proof.
  intros Hl H fuel s2 pre mid Hf Hc Hp Hi Hj.
  destruct (H fuel s2 (pre ++ a) (b ++ mid) Hf) as (code' & ms' & Hr & Hcv).
  - rewrite Hc, <- !app_assoc. reflexivity.
  - rewrite app_length. lia.
  - exact Hi.
  - exact Hj.
  - exists code', ms'. split; [|exact Hcv]. rewrite Hr. f_equal. rewrite <- !app_assoc. reflexivity.
Qed.

Lemma bodies_frame_r need ps j ji0 ji ob jb ool jo b :
  length ji0 = length ji ->
  bodies_ok need ps j ji0 ji ob jb ool jo ->
  bodies_ok need ps j (ji0 ++ b) (ji ++ b) ob jb ool jo.
Proof.
  intros Hl H. apply (bodies_frame need ps j ji0 ji ob jb ool jo [] b Hl). cbn [length]. rewrite Nat.add_0_r. exact H.
Qed.

Lemma bodies_frame_l need ps j ji0 ji ob jb ool jo a :
  length ji0 = length ji ->
  bodies_ok need ps (j + length a) ji0 ji ob jb ool jo ->
  bodies_ok need ps j (a ++ ji0) (a ++ ji) ob jb ool jo.
Proof.
  intros Hl H. pose proof (bodies_frame need ps j ji0 ji ob jb ool jo a [] Hl H) as G.
  rewrite !app_nil_r in G. exact G.
Qed.

(* two blocks on disjoint segments: the one registered later runs first *)
Lemma bodies_app need psl psr j jil0 jil jir0 jir ob jb ooll jol oolr jor :
  length jil0 = length jil -> length jir0 = length jir ->
  bodies_ok need psl j jil0 jil (ob + length oolr) (jb + length jor) ooll jol ->
  bodies_ok need psr (j + length jil0) jir0 jir ob jb oolr jor ->
  bodies_ok need (psl ++ psr) j (jil0 ++ jir0) (jil ++ jir) ob jb (oolr ++ ooll) (jor ++ jol).
Proof.
  intros Hl1 Hl2 HL HR fuel s2 pre mid Hf Hc Hp Hi Hj.
  destruct (HR fuel s2 (pre ++ jil0) mid Hf) as (c1 & m1 & Hr1 & Hcv1).
  { rewrite Hc, <- !app_assoc. reflexivity. }
  { rewrite app_length. lia. }
  { exact Hi. } { exact Hj. }
  set (s3 := mkC (cci s2 ++ c1) (ccm s2 ++ m1) ((pre ++ jil0) ++ jir ++ mid ++ jor)) in *.
  destruct (HL fuel s3 pre (jir ++ mid ++ jor) Hf) as (c2 & m2 & Hr2 & Hcv2).
  { unfold s3. cbn. rewrite <- !app_assoc. reflexivity. }
  { exact Hp. }
  { unfold s3, il0, il. cbn. rewrite app_length. rewrite (conv_length _ _ Hcv1) at 1. unfold il0, il in Hi. cbn in Hi. lia. }
  { unfold s3, jl0, jl. cbn. unfold jl0, jl in Hj. cbn in Hj. rewrite Hc in Hj.
    rewrite !app_length in *. lia. }
  exists (c1 ++ c2), (m1 ++ m2). split; [|apply conv_app; assumption].
  rewrite run_all_app, Hr1. cbn [bind]. fold s3. rewrite Hr2. unfold s3. cbn. f_equal.
  rewrite <- !app_assoc. reflexivity.
Qed.

(* two blocks on the same segment, one after the other: [psa] (registered later) first *)
Lemma bodies_seq need psa psb j ji0 ji1 ji2 ob jb oola joa oolb job :
  length ji0 = length ji1 ->
  bodies_ok need psa j ji0 ji1 ob jb oola joa ->
  bodies_ok need psb j ji1 ji2 (ob + length oola) (jb + length joa) oolb job ->
  bodies_ok need (psb ++ psa) j ji0 ji2 ob jb (oola ++ oolb) (joa ++ job).
Proof.
  intros Hl HA HB fuel s2 pre mid Hf Hc Hp Hi Hj.
  destruct (HA fuel s2 pre mid Hf Hc Hp Hi Hj) as (c1 & m1 & Hr1 & Hcv1).
  set (s3 := mkC (cci s2 ++ c1) (ccm s2 ++ m1) (pre ++ ji1 ++ mid ++ joa)) in *.
  destruct (HB fuel s3 pre (mid ++ joa) Hf) as (c2 & m2 & Hr2 & Hcv2).
  { unfold s3. cbn. reflexivity. }
  { exact Hp. }
  { unfold s3, il0, il. cbn. rewrite app_length. rewrite (conv_length _ _ Hcv1) at 1. unfold il0, il in Hi. cbn in Hi. lia. }
  { unfold s3, jl0, jl. cbn. unfold jl0, jl in Hj. cbn in Hj. rewrite Hc in Hj. rewrite !app_length in *. lia. }
  exists (c1 ++ c2), (m1 ++ m2). split; [|apply conv_app; assumption].
  rewrite run_all_app, Hr1. cbn [bind]. fold s3. rewrite Hr2. unfold s3. cbn. f_equal.
  rewrite <- !app_assoc. reflexivity.
Qed.

(* ---- the end instructions of a body that is not the program ---- *)
Definition no_end (ends : list instr) : Prop := Forall (fun e => fst e <> I_EndExpression) ends.

Lemma finish_no_end s ends : no_end ends ->
  Compile.finish empty_init s ends = sx s ends (map (fun _ => None) ends) [].
Proof.
  intros H. unfold finish.
  generalize (last_instr empty_init s) as last. generalize (existsb (Nat.eqb (il empty_init s)) (ccj s)) as tg.
  intros tg last. revert s. induction ends as [|e r IH]; intros s; cbn [fold_left map].
  - rewrite sx_nil. reflexivity.
  - inversion H as [|? ? He Hr]; subst.
    assert (E : instruction_eqb (fst e) I_EndExpression = false).
    { destruct (fst e); try reflexivity. contradiction. }
    replace (match last with
             | Some li => if instr_eqb li e && instruction_eqb (fst e) I_EndExpression && negb tg then s else emit s e None
             | None => emit s e None end) with (emit s e None)
      by (destruct last; [rewrite E, andb_false_r|]; reflexivity).
    rewrite (IH Hr), emit_s, sx_sx. reflexivity.
Qed.

(* one body: patches its own placeholder, runs, ends, then its own bodies *)
Lemma upd_mid (pre : list nat) x mid v :
  upd (pre ++ x :: mid) (length pre) (fun _ => v) = Some (pre ++ v :: mid).
Proof.
  induction pre as [|y pre IH]; cbn [app length upd]; [reflexivity|]. rewrite IH. reflexivity.
Qed.

Lemma patch_mid s pre x mid v : ccj s = pre ++ x :: mid ->
  Compile.patch empty_init s (length pre) v = Ok (mkC (cci s) (ccm s) (pre ++ v :: mid)).
Proof.
  intros H. unfold patch. cbn [i_jump_len empty_init Nat.ltb Nat.leb]. rewrite Nat.sub_0_r, H, upd_mid. reflexivity.
Qed.

End Base.
