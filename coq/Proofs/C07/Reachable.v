(* C07: the store-invariant HYPOTHESES of the BasicGarnishData theorems (Proofs/C07/Basic.v:
   block_ok, run_ok, frame index >= 1) discharged from the invariant [G] that C15 proves for
   every reachable store of Model/BasicStore.v (fresh store with progressing settings, then
   any history of the C15 operation vocabulary).

   Correspondence between the two descriptions of the same quantities:
     Model/BasicStore.v      block = {b_start; b_cursor; b_size; b_settings} over nat, heap : list cell
     Model/RuntimeIndex.v    block = {b_start; b_cursor; b_size} over N, heap_len : N
   [view s b] is the RuntimeIndex block of block [b] of store [s], [hlen s] its heap length. *)
From Coq Require Import NArith ZArith List Bool Arith Lia.
From GV Require Import Base.Result Gen.Instr Model.StoreBase Model.BasicStore Model.StoreOps Spec.AbsTables
  Proofs.C15.ListFacts Proofs.C15.Layout Proofs.C15.Stable Proofs.C15.Steps Proofs.C15.History.
From GV Require Model.Num Model.RuntimeIndex Proofs.C07.Arith Proofs.C07.Basic.
From GV Require Import Proofs.C07.TextInv.
Import ListNotations.

Module RI := GV.Model.RuntimeIndex.
Module CB := GV.Proofs.C07.Basic.

Definition nblk (b : block) : RI.block :=
  RI.Build_block (N.of_nat (b_start b)) (N.of_nat (b_cursor b)) (N.of_nat (b_size b)).
Definition view (s : basic) (b : blk) : RI.block := nblk (get_block s b).
Definition hlen (s : basic) : N := N.of_nat (length (heap s)).

(* ---- reachable stores ---- *)
Definition reachable (s : basic) : Prop :=
  exists si sj ss se sd sc s0 ops rs,
    progressing si /\ progressing sj /\ progressing ss /\ progressing se /\ progressing sd /\ progressing sc /\
    new_with_settings si sj ss se sd sc = Ok (s0, Done tt) /\
    run bstep ops s0 = Ok (s, rs).

(* every history reaches a store (no panic, no error on the way): the quantifier below is not empty *)
Lemma every_history_reaches : forall si sj ss se sd sc,
  progressing si -> progressing sj -> progressing ss -> progressing se -> progressing sd -> progressing sc ->
  forall ops, exists s, reachable s /\ exists s0 rs, new_with_settings si sj ss se sd sc = Ok (s0, Done tt) /\
                                       run bstep ops s0 = Ok (s, rs).
Proof.
  intros si sj ss se sd sc Pi Pj Ps Pe Pd Pc ops.
  destruct (fresh_store_ok si sj ss se sd sc Pi Pj Ps Pe Pd Pc) as (s0 & H0 & G0 & _).
  destruct (run_ok ops s0 G0) as (s & rs & Hr & _).
  exists s. split.
  - exists si, sj, ss, se, sd, sc, s0, ops, rs.
    exact (conj Pi (conj Pj (conj Ps (conj Pe (conj Pd (conj Pc (conj H0 Hr))))))).
  - exists s0, rs. split; assumption.
Qed.

Lemma reachable_G : forall s, reachable s -> G s.
Proof.
  intros s (si & sj & ss & se & sd & sc & s0 & ops & rs & Pi & Pj & Ps & Pe & Pd & Pc & H0 & Hr).
  destruct (fresh_store_ok si sj ss se sd sc Pi Pj Ps Pe Pd Pc) as (s0' & H0' & G0 & _).
  rewrite H0 in H0'. inversion H0'. subst s0'.
  exact (proj1 (run_stable ops s0 s rs G0 Hr)).
Qed.

Lemma reachable_Inv : forall s, reachable s -> Inv s.
Proof. intros s H. exact (good_inv s (g_good s (reachable_G s H))). Qed.

(* ---- bridge lemmas: C15's invariant implies the hypotheses of Proofs/C07/Basic.v ---- *)
Lemma offset_fits : forall f b, offset f b + f b <= total_size f.
Proof. intros f b. unfold total_size. destruct b; cbn [offset]; lia. Qed.

Lemma Inv_block_ok : forall s b, Inv s -> CB.block_ok (hlen s) (view s b).
Proof.
  intros s b I. unfold CB.block_ok, view, nblk, hlen. cbn [RI.b_cursor RI.b_size RI.b_start].
  pose proof (inv_cursor s I b) as Hc. pose proof (inv_start s I b) as Hs. pose proof (inv_len s I) as Hl.
  pose proof (offset_fits (sz s) b) as Hf. unfold cur, sz, st in *. lia.
Qed.

Lemma data_cursor : forall s, Inv s -> RI.b_cursor (view s BData) = N.of_nat (length (data s)).
Proof. intros s I. rewrite (data_len s I). reflexivity. Qed.

(* a list header (open or finished) at data index p owns its 2*len cells below the cursor *)
Lemma G_list_run : forall s p c len, G s -> nth_error (data s) p = Some c -> header_len c = Some len ->
  CB.run_ok (view s BData) (N.of_nat p) (2 * N.of_nat len).
Proof.
  intros s p c len Gs Hp Hh. unfold CB.run_ok. rewrite (data_cursor s (good_inv s (g_good s Gs))).
  destruct (g_region s Gs p c len Hp Hh) as [Hb _]. lia.
Qed.

Lemma run_ok_shorter : forall d i n m, (m <= n)%N -> CB.run_ok d i n -> CB.run_ok d i m.
Proof. intros d i n m H R. unfold CB.run_ok in *. lia. Qed.

Lemma G_frame_index : forall s i, G s -> cur_frame s = Some i -> (1 <= N.of_nat i)%N.
Proof. intros s i Gs H. pose proof (g_cur_frame s Gs i H). lia. Qed.

(* ---- the Basic theorems for every reachable store ---- *)
Theorem block_get_reachable : forall s b index, reachable s -> no_panic (RI.block_get (hlen s) (view s b) index).
Proof. intros s b index R. apply CB.block_get_no_panic. apply Inv_block_ok. apply reachable_Inv. exact R. Qed.

Theorem block_prefix_slice_reachable : forall s b, reachable s -> no_panic (RI.block_prefix_slice (hlen s) (view s b)).
Proof. intros s b R. apply CB.block_prefix_slice_no_panic. apply Inv_block_ok. apply reachable_Inv. exact R. Qed.

(* push_to_<block>: grow_if_full succeeds and leaves room, so the unchecked write of push_to_block is in range *)
Theorem block_push_reachable : forall s b, reachable s ->
  exists s1, grow_if_full b s = Ok (s1, Done tt) /\ Inv s1 /\
    exists b', RI.block_push (hlen s1) (view s1 b) = Ok b' /\ CB.block_ok (hlen s1) b'.
Proof.
  intros s b R. pose proof (g_good s (reachable_G s R)) as Gd.
  destruct (grow_ok s b Gd) as (s1 & Hg & G1 & Hlt & _).
  exists s1. split; [exact Hg|]. split; [exact (good_inv s1 G1)|].
  apply CB.block_push_no_panic.
  - apply Inv_block_ok. exact (good_inv s1 G1).
  - unfold view, nblk. cbn [RI.b_cursor RI.b_size]. unfold cur, sz in Hlt. lia.
Qed.

(* reallocate_heap with any new sizes that are at least the cursors: every copy loop stays inside both heaps *)
Theorem realloc_copy_reachable : forall s new b, reachable s -> (forall b', cur s b' <= new b') ->
  RI.realloc_copy (cur s b) (N.of_nat (total_size new)) (N.of_nat (offset new b)) (hlen s) (RI.b_start (view s b)) = Ok tt.
Proof.
  intros s new b R Hnew.
  apply (CB.realloc_copy_no_panic (cur s b) (N.of_nat (total_size new)) (N.of_nat (offset new b)) (N.of_nat (new b)) (hlen s) (view s b)).
  - apply Inv_block_ok. apply reachable_Inv. exact R.
  - unfold view, nblk, cur. cbn [RI.b_cursor]. lia.
  - unfold view, nblk. cbn [RI.b_cursor]. pose proof (Hnew b) as H. unfold cur in H. lia.
  - pose proof (offset_fits new b). lia.
Qed.

(* get_list_item_iter on any list header of a reachable store, for every pair of extents *)
Theorem extents_list_reachable : forall s p len ac es ee, reachable s ->
  nth_error (data s) p = Some (CList len ac) ->
  no_panic (RI.basic_iter_slice (hlen s) (view s BData) (N.of_nat p) (N.of_nat len) es ee).
Proof.
  intros s p len ac es ee R Hp. pose proof (reachable_G s R) as Gs.
  apply CB.extents_no_panic.
  - apply Inv_block_ok. exact (good_inv s (g_good s Gs)).
  - eapply run_ok_shorter; [|eapply (G_list_run s p _ len Gs Hp); reflexivity]. lia.
Qed.

(* end_list on any open list of a reachable store *)
Theorem end_list_slice_reachable : forall s p len count, reachable s ->
  nth_error (data s) p = Some (CUninitializedList len count) ->
  no_panic (RI.basic_end_list_slice (hlen s) (view s BData) (N.of_nat p) (N.of_nat len)).
Proof.
  intros s p len count R Hp. pose proof (reachable_G s R) as Gs.
  apply CB.basic_end_list_slice_no_panic.
  - apply Inv_block_ok. exact (good_inv s (g_good s Gs)).
  - eapply (G_list_run s p _ len Gs Hp). reflexivity.
Qed.

(* pop_frame on any reachable store *)
Theorem pop_frame_reachable : forall s i, reachable s -> cur_frame s = Some i ->
  no_panic (RI.pop_frame_index (N.of_nat i)).
Proof. intros s i R H. apply CB.pop_frame_no_panic. apply (G_frame_index s i (reachable_G s R) H). Qed.

(* ------------------------------------------------------------------------------------------
   Text runs and association counts: not part of C15's [G] (its model lets add_string write any
   header), so the strengthened invariant [X] of Proofs/C07/TextInv.v is used, for histories whose
   text operations write the character count as the header ([wf_op]; /repo since 626dd96). *)
Definition reachable_wf (s : basic) : Prop :=
  exists si sj ss se sd sc s0 ops rs,
    progressing si /\ progressing sj /\ progressing ss /\ progressing se /\ progressing sd /\ progressing sc /\
    new_with_settings si sj ss se sd sc = Ok (s0, Done tt) /\
    Forall wf_op ops /\ run bstep ops s0 = Ok (s, rs).

Lemma reachable_wf_reachable : forall s, reachable_wf s -> reachable s.
Proof.
  intros s (si & sj & ss & se & sd & sc & s0 & ops & rs & Pi & Pj & Ps & Pe & Pd & Pc & H0 & _ & Hr).
  exists si, sj, ss, se, sd, sc, s0, ops, rs. exact (conj Pi (conj Pj (conj Ps (conj Pe (conj Pd (conj Pc (conj H0 Hr))))))).
Qed.

Lemma every_wf_history_reaches : forall si sj ss se sd sc,
  progressing si -> progressing sj -> progressing ss -> progressing se -> progressing sd -> progressing sc ->
  forall ops, Forall wf_op ops -> exists s, reachable_wf s /\ exists s0 rs, new_with_settings si sj ss se sd sc = Ok (s0, Done tt) /\
                                                           run bstep ops s0 = Ok (s, rs).
Proof.
  intros si sj ss se sd sc Pi Pj Ps Pe Pd Pc ops Hwf.
  destruct (fresh_store_ok si sj ss se sd sc Pi Pj Ps Pe Pd Pc) as (s0 & H0 & G0 & _).
  destruct (run_ok ops s0 G0) as (s & rs & Hr & _).
  exists s. split.
  - exists si, sj, ss, se, sd, sc, s0, ops, rs. exact (conj Pi (conj Pj (conj Ps (conj Pe (conj Pd (conj Pc (conj H0 (conj Hwf Hr)))))))).
  - exists s0, rs. split; assumption.
Qed.

Theorem X_reachable : forall s, reachable_wf s -> X (data s).
Proof.
  intros s (si & sj & ss & se & sd & sc & s0 & ops & rs & Pi & Pj & Ps & Pe & Pd & Pc & H0 & Hwf & Hr).
  destruct (fresh_store_ok si sj ss se sd sc Pi Pj Ps Pe Pd Pc) as (s0' & H0' & G0 & Hw).
  rewrite H0 in H0'. inversion H0'. subst s0'.
  apply (run_X ops s0 s rs G0); [|exact Hwf|exact Hr].
  unfold data. rewrite (Hw BData). apply X_nil.
Qed.

Definition text_header (c : cell) (n : nat) : Prop := c = CCharList n \/ c = CByteList n.

Lemma X_text_run : forall s p c n, reachable_wf s -> nth_error (data s) p = Some c -> text_header c n ->
  CB.run_ok (view s BData) (N.of_nat p) (N.of_nat n).
Proof.
  intros s p c n R Hp Hc. pose proof (X_reachable s R) as Hx.
  pose proof (reachable_Inv s (reachable_wf_reachable s R)) as Iv.
  unfold CB.run_ok. rewrite (data_cursor s Iv).
  destruct Hc as [-> | ->]; [destruct (x_chars _ Hx p n Hp) as [Hb _]|destruct (x_bytes _ Hx p n Hp) as [Hb _]]; lia.
Qed.

(* get_char_list_iter / get_byte_list_iter on any text header of a reachable store, every pair of extents *)
Theorem extents_text_reachable : forall s p c n es ee, reachable_wf s ->
  nth_error (data s) p = Some c -> text_header c n ->
  no_panic (RI.basic_iter_slice (hlen s) (view s BData) (N.of_nat p) (N.of_nat n) es ee).
Proof.
  intros s p c n es ee R Hp Hc. apply CB.extents_no_panic.
  - apply Inv_block_ok. exact (reachable_Inv s (reachable_wf_reachable s R)).
  - eapply X_text_run; eassumption.
Qed.

(* get_symbol_string's character slice and the block-relative slices of conversions/bytes.rs *)
Theorem text_slices_reachable : forall s p c n, reachable_wf s ->
  nth_error (data s) p = Some c -> text_header c n ->
  no_panic (RI.data_run_slice (hlen s) (view s BData) (N.of_nat p) (N.of_nat n)) /\
  no_panic (RI.bytes_conv_slice (hlen s) (N.of_nat p) (N.of_nat n)).
Proof.
  intros s p c n R Hp Hc.
  pose proof (Inv_block_ok s BData (reachable_Inv s (reachable_wf_reachable s R))) as Hb.
  pose proof (X_text_run s p c n R Hp Hc) as Hr. split.
  - apply CB.data_run_slice_no_panic; assumption.
  - eapply CB.bytes_conv_slice_no_panic; eassumption.
Qed.

(* the cells those slices unwrap are Char / Byte cells: `.as_char().unwrap()` / `.as_byte().unwrap()` cannot fail *)
Theorem text_cells_reachable : forall s p n, reachable_wf s ->
  (nth_error (data s) p = Some (CCharList n) -> forall k, 1 <= k <= n -> exists x, nth_error (data s) (p + k) = Some (CChar x)) /\
  (nth_error (data s) p = Some (CByteList n) -> forall k, 1 <= k <= n -> exists x, nth_error (data s) (p + k) = Some (CByte x)).
Proof.
  intros s p n R. pose proof (X_reachable s R) as Hx. split; intro Hp.
  - exact (proj2 (x_chars _ Hx p n Hp)).
  - exact (proj2 (x_bytes _ Hx p n Hp)).
Qed.

(* get_list_item_with_symbol on any finished list of a reachable store *)
Theorem assoc_slice_reachable : forall s p len ac, reachable_wf s ->
  nth_error (data s) p = Some (CList len ac) ->
  no_panic (RI.basic_assoc_slice (hlen s) (view s BData) (N.of_nat p) (N.of_nat len) (N.of_nat ac)).
Proof.
  intros s p len ac R Hp. pose proof (reachable_G s (reachable_wf_reachable s R)) as Gs.
  apply CB.basic_assoc_slice_no_panic.
  - apply Inv_block_ok. exact (good_inv s (g_good s Gs)).
  - eapply (G_list_run s p _ len Gs Hp). reflexivity.
  - pose proof (x_cells _ (X_reachable s R) p _ Hp) as Hk. cbn [okcell] in Hk. lia.
Qed.

(* non-vacuity: a history with text, bytes, a symbol and a keyed list; every header found satisfies the above *)
Definition ex_history7 : list op :=
  [OText 2 [104%N; 233%N]; OBytes [1%N; 2%N; 3%N]; OSymbol 77%N 1 [97%N]; ONumber (SInt 5%Z); OPair 7 10;
   OListStart 1; OListAdd 12 11; OListEnd 12; OFramePush 3].

Lemma ex_history7_wf : Forall wf_op ex_history7.
Proof. repeat constructor. Qed.

Definition ex_history7_statement : Prop :=
  match new_default with
  | Ok (s0, Done tt) =>
      match run bstep ex_history7 s0 with
      | Ok (s, _) => nth_error (data s) 0 = Some (CCharList 2) /\ nth_error (data s) 3 = Some (CByteList 3) /\
                     nth_error (data s) 12 = Some (CList 1 1) /\ cur_frame s = Some 16
      | _ => False
      end
  | _ => False
  end.

Lemma ex_history7_runs : Forall wf_op ex_history7 /\ ex_history7_statement.
Proof. split; [exact ex_history7_wf|]. vm_compute. repeat split; reflexivity. Qed.

(* ---- the side condition [wf_op] is necessary: C15's model lets add_string write any header, and a header that
   announces more characters than were pushed (what /repo did for multi-byte text before 626dd96, C14) reaches a
   store on which the text invariant fails (the cells after the header are not Char cells: `as_char().unwrap()`) *)
Lemma default_progressing : progressing default_settings.
Proof. split; [reflexivity|cbn; lia]. Qed.

Definition needs_wf_statement : Prop :=
  match new_default with
  | Ok (s0, Done tt) =>
      match run bstep [OText 3 []] s0 with
      | Ok (s, _) => nth_error (data s) 0 = Some (CCharList 3) /\ length (data s) = 1
      | _ => False
      end
  | _ => False
  end.

Lemma needs_wf_computation : needs_wf_statement.
Proof. vm_compute. split; reflexivity. Qed.

Theorem text_invariant_needs_wf : exists s, reachable s /\ ~ X (data s).
Proof.
  pose proof needs_wf_computation as H. unfold needs_wf_statement in H.
  destruct new_default as [[s0 [[]|e]]| | |] eqn:E0; try contradiction.
  destruct (run bstep [OText 3 []] s0) as [[s rs]| | |] eqn:Er; try contradiction.
  exists s. split.
  - exists default_settings, default_settings, default_settings, default_settings, default_settings, default_settings, s0, [OText 3 []], rs.
    pose proof default_progressing as dp. unfold new_default in E0.
    exact (conj dp (conj dp (conj dp (conj dp (conj dp (conj dp (conj E0 Er))))))).
  - intros Hx. destruct H as [H1 H2]. destruct (x_chars _ Hx 0 3 H1) as [Hb _]. lia.
Qed.
