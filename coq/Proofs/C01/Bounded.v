(* Bounded agreement of the AST compiler with the builder model: for every
   AST of the core grammar with at most 3 constructors over a small literal
   pool, parsing the printed tokens with Model/Parser.v and building with
   Model/BuilderWL.v yields exactly compile_prog's instruction and jump tables
   (entry 0).  The bound is in the statement and in the name; the unbounded
   agreement is validated on every generated program of every check run. *)
From Coq Require Import ZArith NArith List Bool Arith.
From Flocq Require Import IEEE754.Binary IEEE754.Bits.
From GV Require Import Base.Result Base.Host Gen.Instr Model.Num Model.Value Model.Machine
  Model.CompileExpr Model.CompileWL Spec.Ast Spec.Printer Spec.Eval.
Import ListNotations.

Definition num_eqb (a b : num) : bool :=
  match a, b with
  | Int x, Int y => Z.eqb x y
  | Flt x, Flt y => Z.eqb (bits_of_b64 x) (bits_of_b64 y)
  | _, _ => false
  end.
Definition sympart_eqb (a b : sympart) : bool :=
  match a, b with SPSym x, SPSym y => N.eqb x y | SPNum x, SPNum y => num_eqb x y | _, _ => false end.
Fixpoint leqb {A} (f : A -> A -> bool) (a b : list A) : bool :=
  match a, b with [], [] => true | x :: a', y :: b' => f x y && leqb f a' b' | _, _ => false end.

Fixpoint val_eqb (a b : val) : bool :=
  match a, b with
  | VUnit, VUnit | VTrue, VTrue | VFalse, VFalse | VCustom, VCustom => true
  | VType x, VType y => data_type_eqb x y
  | VNum x, VNum y => num_eqb x y
  | VChar x, VChar y | VByte x, VByte y | VSym x, VSym y | VExpr x, VExpr y | VExternal x, VExternal y => N.eqb x y
  | VSymList x, VSymList y => leqb sympart_eqb x y
  | VChars x, VChars y | VBytes x, VBytes y => leqb N.eqb x y
  | VPair a1 a2, VPair b1 b2 | VConcat a1 a2, VConcat b1 b2 | VRange a1 a2, VRange b1 b2
  | VSlice a1 a2, VSlice b1 b2 | VPartial a1 a2, VPartial b1 b2 => val_eqb a1 b1 && val_eqb a2 b2
  | VList xs, VList ys =>
      (fix go (xs ys : list val) : bool :=
         match xs, ys with [], [] => true | x :: xs', y :: ys' => val_eqb x y && go xs' ys' | _, _ => false end) xs ys
  | _, _ => false
  end.

Definition minstr_eqb (a b : minstr) : bool :=
  instruction_eqb (fst a) (fst b) && mop_eqb val_eqb (snd a) (snd b).
Definition program_eqb (p q : program) : bool :=
  leqb minstr_eqb (code p) (code q) && leqb Nat.eqb (jt p) (jt q).

(* a stand-in for the symbol hash: any function will do, both routes use the same one *)
Definition sh (name : list N) : N := fold_left (fun acc c => (acc * 131 + c)%N) name 7%N.

Definition agrees (e : expr) : bool :=
  match wl_program sh e with
  | Ok (p, entry) => Nat.eqb entry 0 && program_eqb p (compile_prog sh e)
  | _ => false
  end.

(* ---- every AST with at most 3 constructors over the pool ---- *)
Definition pool : list expr :=
  [ELit (LInt 2); ELit (LFloat 15 1); ELit (LStr [97%N]); ELit (LSym [97%N]); ELit LUnit; ELit LTrue; EValue; EIdent [98%N]].
Definition unops : list unop := [UAbs; UNeg; UBitNot; UNot; UTis; ULeft; URight; ULen; UEmptyApply].
Definition binops : list binop :=
  [BAdd; BSub; BMul; BDiv; BIntDiv; BPow; BRem; BBitAnd; BBitOr; BBitXor; BShl; BShr;
   BLt; BLe; BGt; BGe; BEq; BNe; BXor; BPair; BAccess; BApply; BApplyTo].

Definition unary_of (xs : list expr) : list expr :=
  flat_map (fun x => map (fun o => EUn o x) unops ++ [EGroup x; ENested 1 x; ENested 1 (EReapply x)]) xs.
Definition binary_of (ls rs : list expr) : list expr :=
  flat_map (fun l => flat_map (fun r =>
    map (fun o => match o, r with
                  | BAccess, EIdent nm => EBin BAccess l (ELit (LProp nm))
                  | _, _ => EBin o l r
                  end) binops ++
    [EAnd l r; EOr l r; EList Space l r; EList Comma l r; ECond false l r; ECond true l r;
     ESeq Semi l r; ESeq Blank l r] ++
    (if is_atom l then [ESide l r] else []) ++
    (if is_cond l then [EElse l r] else [])) rs) ls.

Definition size1 : list expr := pool.
Definition size2 : list expr := unary_of size1.
Definition size3 : list expr := unary_of size2 ++ binary_of size1 size1.
Definition corpus3 : list expr :=
  filter printable (map parenthesize (size1 ++ size2 ++ size3)).

Theorem compile_agrees_with_builder_bounded_3 : forallb agrees corpus3 = true.
Proof. vm_compute. reflexivity. Qed.

Lemma compile_agrees_bounded_3 : forall e, In e corpus3 -> agrees e = true.
Proof. intros e H. exact (proj1 (forallb_forall agrees corpus3) compile_agrees_with_builder_bounded_3 e H). Qed.

(* the corpus is not trivial *)
Example corpus3_size : 1500 <= length corpus3.
Proof. vm_compute. repeat constructor. Qed.
