(* Proper trees over a node array: the links of every node are the indices of
   its children ([tree_at]), what [tree_of] guarantees, index disjointness, and
   the handler of build() that a node's definition selects, by kind. *)
From Coq Require Import List Arith Bool NArith Lia.
From GV Require Import Base.Result Gen.TokenTypes Gen.Defs Gen.Instr Model.Parser Model.BuilderWL Model.Compile
  Proofs.C05.InlBase.
Import ListNotations.

Definition oix (o : option tree) : option nat := match o with Some a => Some (t_ix a) | None => None end.

Fixpoint tree_at (nodes : list pnode) (t : tree) : Prop :=
  match t with
  | T ix d l r =>
    (exists pn, nth_error nodes ix = Some pn /\ n_def pn = d /\ n_left pn = oix l /\ n_right pn = oix r) /\
    match l with Some a => tree_at nodes a | None => True end /\
    match r with Some b => tree_at nodes b | None => True end
  end.

Lemma tree_of_aux_ix : forall fuel nodes i t, tree_of_aux fuel nodes i = Some t -> t_ix t = i.
Proof.
  intros fuel nodes i t H. destruct fuel as [|f]; [discriminate|]. cbn [tree_of_aux] in H.
  destruct (nth_error nodes i) as [n|]; [|discriminate].
  destruct (n_left n) as [lk|]; destruct (n_right n) as [rk|];
    repeat match type of H with context [tree_of_aux f nodes ?k] => destruct (tree_of_aux f nodes k) end;
    try discriminate; inversion H; reflexivity.
Qed.

Lemma tree_of_aux_at : forall fuel nodes i t, tree_of_aux fuel nodes i = Some t -> tree_at nodes t.
Proof.
  induction fuel as [|f IH]; intros nodes i t H; [discriminate|].
  cbn [tree_of_aux] in H. destruct (nth_error nodes i) as [n|] eqn:Hn; [|discriminate].
  destruct (n_left n) as [lk|] eqn:Hl; destruct (n_right n) as [rk|] eqn:Hr.
  - destruct (tree_of_aux f nodes lk) as [lt|] eqn:Elt; [|discriminate].
    destruct (tree_of_aux f nodes rk) as [rt|] eqn:Ert; [|discriminate].
    inversion H; subst. cbn [tree_at]. split; [|split; eauto].
    exists n. cbn [oix]. rewrite (tree_of_aux_ix _ _ _ _ Elt), (tree_of_aux_ix _ _ _ _ Ert). auto.
  - destruct (tree_of_aux f nodes lk) as [lt|] eqn:Elt; [|discriminate].
    inversion H; subst. cbn [tree_at]. split; [|split; eauto].
    exists n. cbn [oix]. rewrite (tree_of_aux_ix _ _ _ _ Elt). auto.
  - destruct (tree_of_aux f nodes rk) as [rt|] eqn:Ert; [|discriminate].
    inversion H; subst. cbn [tree_at]. split; [|split; eauto].
    exists n. cbn [oix]. rewrite (tree_of_aux_ix _ _ _ _ Ert). auto.
  - inversion H; subst. cbn [tree_at]. split; [|split; exact I]. exists n. auto.
Qed.

Lemma nodup_b_NoDup : forall l, nodup_b l = true -> NoDup l.
Proof.
  induction l as [|x l IH]; intros H; [constructor|]. cbn in H. apply andb_true_iff in H. destruct H as [H1 H2].
  constructor; [|apply IH; exact H2]. intros Hin. apply negb_true_iff in H1.
  assert (existsb (Nat.eqb x) l = true); [|congruence]. apply existsb_exists. exists x. split; [exact Hin | apply Nat.eqb_refl].
Qed.

Lemma tree_of_at : forall nodes root t, tree_of nodes root = Some t ->
  tree_at nodes t /\ NoDup (indices t) /\ t_ix t = root.
Proof.
  intros nodes root t H. unfold tree_of in H.
  destruct (tree_of_aux (length nodes) nodes root) as [t'|] eqn:E; [|discriminate].
  destruct (nodup_b (indices t')) eqn:En; [|discriminate]. inversion H; subst.
  split; [eapply tree_of_aux_at; eauto|]. split; [apply nodup_b_NoDup; exact En | eapply tree_of_aux_ix; eauto].
Qed.

Lemma ix_in : forall t, In (t_ix t) (indices t).
Proof. intros [ix d l r]. left. reflexivity. Qed.

Definition oindices (o : option tree) : list nat := match o with Some a => indices a | None => [] end.

Lemma indices_T : forall ix d l r, indices (T ix d l r) = ix :: oindices l ++ oindices r.
Proof. intros. reflexivity. Qed.

Lemma size_indices : forall t, size t = length (indices t).
Proof.
  induction t as [ix d l r IHl IHr] using tree_ind'. cbn [size indices length]. rewrite app_length. f_equal. f_equal.
  - destruct l as [a|]; [apply IHl; reflexivity | reflexivity].
  - destruct r as [b|]; [apply IHr; reflexivity | reflexivity].
Qed.

Lemma nodup_app_inv : forall A (a b : list A), NoDup (a ++ b) ->
  NoDup a /\ NoDup b /\ (forall x, In x a -> ~ In x b).
Proof.
  intros A a b. induction a as [|x a IH]; intros H; cbn in *.
  - split; [constructor|]. split; [exact H|]. intros x [].
  - inversion H as [|? ? Hn Hd]; subst. destruct (IH Hd) as [Ha [Hb Hab]]. rewrite in_app_iff in Hn.
    split; [constructor; tauto|]. split; [exact Hb|].
    intros y [Hy|Hy]; [subst; tauto | apply Hab; exact Hy].
Qed.

Lemma nodup_app_intro : forall A (a b : list A), NoDup a -> NoDup b -> (forall x, In x a -> ~ In x b) -> NoDup (a ++ b).
Proof.
  intros A a b Ha Hb Hab. induction a as [|x a IH]; cbn; [exact Hb|].
  inversion Ha; subst. constructor.
  - rewrite in_app_iff. intros [H|H]; [contradiction | apply (Hab x (or_introl eq_refl) H)].
  - apply IH; [assumption|]. intros y Hy. apply Hab. right. exact Hy.
Qed.

(* what NoDup of a node's indices says about the node and its children *)
Lemma nodup_node : forall ix d l r, NoDup (indices (T ix d l r)) ->
  ~ In ix (oindices l) /\ ~ In ix (oindices r) /\ NoDup (oindices l) /\ NoDup (oindices r) /\
  (forall x, In x (oindices l) -> ~ In x (oindices r)).
Proof.
  intros ix d l r H. rewrite indices_T in H. inversion H as [|? ? Hn Hd]; subst.
  rewrite in_app_iff in Hn.
  destruct (nodup_app_inv _ _ _ Hd) as [A [B C]]. tauto.
Qed.

(* ---- the handler a definition selects ---- *)
Section Handlers.
Variable init : binit.
Variable lit_ok : nat -> bool.

Ltac by_def d H := destruct d; cbn in H; try discriminate H; inversion H; subst; reflexivity.

Lemma hpn_value : forall s crj st ni pn i w, kind_of (n_def pn) = KValue i w ->
  handle_parse_node init lit_ok s crj st ni pn = handle_value_like lit_ok i w s st ni pn.
Proof. intros s crj st ni pn i w H. unfold handle_parse_node. by_def (n_def pn) H. Qed.

Lemma hpn_unary_prefix : forall s crj st ni pn i, kind_of (n_def pn) = KUnary i true ->
  handle_parse_node init lit_ok s crj st ni pn = handle_unary i (n_right pn) s st ni.
Proof. intros s crj st ni pn i H. unfold handle_parse_node. by_def (n_def pn) H. Qed.

Lemma hpn_unary_suffix : forall s crj st ni pn i, kind_of (n_def pn) = KUnary i false ->
  handle_parse_node init lit_ok s crj st ni pn = handle_unary_suffix i s st ni pn.
Proof. intros s crj st ni pn i H. unfold handle_parse_node. by_def (n_def pn) H. Qed.

Lemma hpn_binary : forall s crj st ni pn i lf, kind_of (n_def pn) = KBinary i lf ->
  handle_parse_node init lit_ok s crj st ni pn = handle_binary i lf s st ni pn.
Proof.
  intros s crj st ni pn i lf H. unfold handle_parse_node, kind_of in *.
  destruct (n_def pn); cbn in H; try discriminate H; cbn; inversion H; subst; reflexivity.
Qed.

Lemma hpn_list : forall s crj st ni pn, kind_of (n_def pn) = KList ->
  handle_parse_node init lit_ok s crj st ni pn = handle_list s st ni pn.
Proof. intros s crj st ni pn H. unfold handle_parse_node. by_def (n_def pn) H. Qed.

Lemma hpn_logical : forall s crj st ni pn i, kind_of (n_def pn) = KLogical i ->
  handle_parse_node init lit_ok s crj st ni pn = handle_logical init i s st ni pn.
Proof. intros s crj st ni pn i H. unfold handle_parse_node. by_def (n_def pn) H. Qed.

Lemma hpn_jump_if : forall s crj st ni pn i, kind_of (n_def pn) = KJumpIf i ->
  handle_parse_node init lit_ok s crj st ni pn = handle_jump_if init i s st ni pn.
Proof. intros s crj st ni pn i H. unfold handle_parse_node. by_def (n_def pn) H. Qed.

Lemma hpn_else : forall s crj st ni pn, kind_of (n_def pn) = KElse ->
  handle_parse_node init lit_ok s crj st ni pn = handle_else init s st ni pn.
Proof. intros s crj st ni pn H. unfold handle_parse_node. by_def (n_def pn) H. Qed.

Lemma hpn_fix_suffix : forall s crj st ni pn, kind_of (n_def pn) = KFixApply false ->
  handle_parse_node init lit_ok s crj st ni pn = handle_fix_apply lit_ok (n_left pn) (n_right pn) s st ni.
Proof. intros s crj st ni pn H. unfold handle_parse_node. by_def (n_def pn) H. Qed.

Lemma hpn_fix_prefix : forall s crj st ni pn, kind_of (n_def pn) = KFixApply true ->
  handle_parse_node init lit_ok s crj st ni pn = handle_fix_apply lit_ok (n_right pn) None s st ni.
Proof. intros s crj st ni pn H. unfold handle_parse_node. by_def (n_def pn) H. Qed.

Lemma kind_group : forall d, kind_of d = KGroup -> d = D_Group.
Proof. intros d H. destruct d; cbn in H; try discriminate H; reflexivity. Qed.
Lemma kind_side_effect : forall d, kind_of d = KSideEffect -> d = D_SideEffect.
Proof. intros d H. destruct d; cbn in H; try discriminate H; reflexivity. Qed.
Lemma kind_nested : forall d, kind_of d = KNested -> d = D_NestedExpression.
Proof. intros d H. destruct d; cbn in H; try discriminate H; reflexivity. Qed.
Lemma kind_reapply : forall d, kind_of d = KReapply -> d = D_Reapply.
Proof. intros d H. destruct d; cbn in H; try discriminate H; reflexivity. Qed.
Lemma kind_subexpr : forall d, kind_of d = KSubexpr -> d = D_Subexpression \/ d = D_ExpressionSeparator.
Proof. intros d H. destruct d; cbn in H; try discriminate H; auto. Qed.
Lemma kind_infix : forall d, kind_of d = KInfix -> d = D_InfixApply.
Proof. intros d H. destruct d; cbn in H; try discriminate H; reflexivity. Qed.
Lemma hpn_err : forall s crj st ni pn, kind_of (n_def pn) = KErr ->
  handle_parse_node init lit_ok s crj st ni pn = berr.
Proof.
  intros s crj st ni pn H. unfold handle_parse_node, kind_of in *.
  destruct (n_def pn); cbn in H; try discriminate H; try reflexivity.
Qed.
End Handlers.
