(* C15  Stored values read back unchanged, however the store grows.
   Only statements, [exact] and [Print Assumptions] live here (and Examples
   showing the hypotheses are satisfiable and the interesting branches taken). *)
From Coq Require Import NArith ZArith List Bool Arith Lia.
From GV Require Import Base.Result Gen.Instr Model.StoreBase Model.BasicStore Model.SimpleStore Model.StoreOps
  Spec.AbsTables Proofs.C15.Layout Proofs.C15.Stable Proofs.C15.Steps Proofs.C15.History Proofs.C15.AbsView
  Proofs.C15.NoProgress Proofs.C15.SimpleIntern.
Import ListNotations.

(* ---- BasicGarnishData: the storage layer ---- *)

(* reallocate_heap with any new sizes >= the cursors (and within max_items):
   returns Ok, re-establishes the layout invariant and changes no table *)
Theorem C15_reallocate_preserves_tables : forall s new, Inv s -> (forall b, cur s b <= new b) ->
  (forall b, exceeds (new b) (max_items (sett s b)) = false) ->
  exists s', reallocate_heap new s = Ok (s', Done tt) /\ Inv s' /\ abs s' = abs s /\ (forall b, sz s' b = new b).
Proof. exact reallocate_abs. Qed.
Print Assumptions C15_reallocate_preserves_tables.

(* every push_to_<block>_block, under every growth setting that can make
   progress: Ok, the invariant holds again, exactly the one table is extended
   (tpush appends to table b and to no other) and the returned index is the
   old length of that table *)
Theorem C15_push_extends_one_table : forall s b c, Good s ->
  exists s', push_to b c s = Ok (s', Done (snd (tpush b c (abs s)))) /\ Good s' /\ abs s' = fst (tpush b c (abs s)).
Proof. exact push_abs. Qed.
Print Assumptions C15_push_extends_one_table.

(* the _mut accessors: exactly the one named cell changes *)
Theorem C15_update_changes_one_cell : forall s b i c, Inv s -> i < cur s b ->
  exists s', set_in_block b i c s = Ok (s', Done tt) /\ Inv s' /\ tupdate b i c (abs s) = Some (abs s').
Proof. exact update_abs. Qed.
Print Assumptions C15_update_changes_one_cell.

(* a fresh store with progressing settings satisfies the invariant and is empty *)
Theorem C15_fresh_store : forall si sj ss se sd sc,
  progressing si -> progressing sj -> progressing ss -> progressing se -> progressing sd -> progressing sc ->
  exists s0, new_with_settings si sj ss se sd sc = Ok (s0, Done tt) /\ G s0 /\ (forall b, window s0 b = []).
Proof. exact fresh_store_ok. Qed.
Print Assumptions C15_fresh_store.

(* every operation of the history vocabulary (instructions, jump table and its
   patch, symbol tables, custom, every data adder, text, bytes, list
   construction, register / value / frame stacks): no panic, the invariant
   holds again, everything stored before still reads back *)
Theorem C15_step : forall o s, G s -> exists s' r, bstep o s = Ok (s', r) /\ G s' /\ Stable s s'.
Proof. exact bstep_ok. Qed.
Print Assumptions C15_step.

(* ---- lifted to all histories ---- *)
Theorem C15_readback : forall si sj ss se sd sc ops1 ops2,
  progressing si -> progressing sj -> progressing ss -> progressing se -> progressing sd -> progressing sc ->
  exists s0 s1 s2 r1 r2,
    new_with_settings si sj ss se sd sc = Ok (s0, Done tt) /\
    run bstep ops1 s0 = Ok (s1, r1) /\ run bstep ops2 s1 = Ok (s2, r2) /\
    length r1 = length ops1 /\ length r2 = length ops2 /\
    Inv s1 /\ Inv s2 /\
    (forall a, frozen (data s1) a -> get_from_block BData a s2 = get_from_block BData a s1) /\
    (forall i x, get_instruction i s1 = Ok (Some x) -> get_instruction i s2 = Ok (Some x)).
Proof. exact readback_history. Qed.
Print Assumptions C15_readback.

(* what an adder returns is the address of a frozen cell holding the value *)
Theorem C15_stored_value_is_frozen : forall s c, G s -> plain c -> stable_kind c = true ->
  exists s', push_to_data_block c s = Ok (s', Done (length (data s))) /\ G s' /\
    nth_error (data s') (length (data s)) = Some c /\ frozen (data s') (length (data s)).
Proof. exact stored_cell. Qed.
Print Assumptions C15_stored_value_is_frozen.

(* so are the header, the items and the associations of a finished list *)
Theorem C15_list_cells_are_frozen : forall T p len ac k, RegionOk T ->
  nth_error T p = Some (CList len ac) -> k <= 2 * len -> frozen T (p + k).
Proof. exact list_cells_frozen. Qed.
Print Assumptions C15_list_cells_are_frozen.

(* ---- the side condition is necessary ---- *)
Theorem C15_no_progress_refuted :
  ~ progressing stuck_fixed /\
  exists s0 s1 s2 r1 r2,
    new_with_settings stuck_fixed stuck_fixed stuck_fixed stuck_fixed stuck_fixed stuck_fixed = Ok (s0, Done tt) /\
    run bstep [OJump 5] s0 = Ok (s1, r1) /\
    get_from_jump_table 0 s1 = Ok (Some 5) /\
    run bstep [OInstr I_Add None; OInstr I_Put None] s1 = Ok (s2, r2) /\
    get_from_jump_table 0 s2 = Ok None.
Proof. exact (conj stuck_fixed_not_progressing no_progress_overwrites). Qed.
Print Assumptions C15_no_progress_refuted.

Theorem C15_no_progress_panics :
  ~ progressing stuck_mult /\
  exists s0,
    new_with_settings stuck_mult stuck_mult stuck_mult stuck_mult stuck_mult stuck_mult = Ok (s0, Done tt) /\
    run bstep [ONumber (SInt 1%Z)] s0 = Panic P_push_index.
Proof. exact (conj stuck_mult_not_progressing no_progress_panics). Qed.
Print Assumptions C15_no_progress_panics.

(* ---- SimpleGarnishData ---- *)
(* the data vector only grows: what is stored reads back after any history
   (h: the intern-table hash, an oracle; dom: the constants added) *)
Theorem C15_simple_readback : forall (h : sdata -> N) (dom : sdata -> Prop),
  (forall v w, dom v -> dom w -> h v = h w -> v = w) ->
  forall ops s s' rs a v, SInv h dom s -> ops_dom dom ops -> run (sstep h) ops s = Ok (s', rs) ->
  nth_error (s_data s) a = Some v -> nth_error (s_data s') a = Some v.
Proof. exact simple_readback. Qed.
Print Assumptions C15_simple_readback.

(* adding an equal constant again returns the same address, a different
   constant a different address, whatever happens in between -- under the
   hypothesis that the hash does not collide on the constants added *)
Theorem C15_simple_intern : forall (h : sdata -> N) (dom : sdata -> Prop),
  (forall v w, dom v -> dom w -> h v = h w -> v = w) ->
  forall v w ops s s1 s2 s3 a1 a2 rs r1 r2,
  SInv h dom s -> dom v -> dom w -> ops_dom dom ops ->
  cache_add h v s = Ok (s1, r1) -> r1 = Done a1 ->
  run (sstep h) ops s1 = Ok (s2, rs) ->
  cache_add h w s2 = Ok (s3, r2) -> r2 = Done a2 ->
  (v = w -> a1 = a2) /\ (v <> w -> a1 <> a2) /\
  nth_error (s_data s3) a1 = Some v /\ nth_error (s_data s3) a2 = Some w.
Proof. exact simple_intern. Qed.
Print Assumptions C15_simple_intern.

(* ---- non-vacuity ---- *)
Definition ex_settings (init : nat) (p : strategy) : settings := mkSettings init None p.

Example C15_ex_progressing :
  progressing (ex_settings 0 (FixedSize 1)) /\ progressing (ex_settings 1 (Multiplicative 2)) /\
  progressing default_settings /\ ~ progressing (ex_settings 0 (Multiplicative 2)).
Proof.
  split; [split; [reflexivity|cbn; lia]|].
  split; [split; [reflexivity|cbn; lia]|].
  split; [split; [reflexivity|cbn; lia]|].
  intros [_ H]. cbn in H. destruct H as [_ H]. inversion H.
Qed.

(* a history in which four different blocks are reallocated while the others
   are partly filled; the number, the pair and the list stored early read
   back at the end *)
Definition ex_history : list op :=
  [ONumber (SInt 7%Z); OInstr I_Add None; OJump 3; OPair 0 0; OCustom; OListStart 1; OListAdd 2 1; OListEnd 2;
   OInstr I_Put (Some 0); ORegPush 0; OValPush 1; OFramePush 4; OExprSym 9%N 1; ONumber (SInt 8%Z)].

Example C15_ex_history :
  let st := ex_settings 0 (FixedSize 1) in
  match new_with_settings st st st st st st with
  | Ok (s0, Done tt) =>
      match run bstep ex_history s0 with
      | Ok (s, rs) =>
          get_number 0 s = Ok (SInt 7%Z) /\ get_pair 1 s = Ok (0, 0) /\ get_list_len 2 s = Ok 1 /\
          get_list_item 2 0%Z s = Ok (Some 1) /\ length (heap s) = 15 /\
          nth_error rs 13 = Some (RAddr 9)
      | _ => False
      end
  | _ => False
  end.
Proof. vm_compute. repeat split; reflexivity. Qed.

(* the no-collision hypothesis of the intern theorems is satisfiable on a
   non-trivial domain, and an (artificial) colliding hash makes interning
   return one address for two different constants *)
Definition ex_dom (v : sdata) : Prop := exists z, v = SNumber (SInt z).
Definition ex_hash (v : sdata) : N := match v with SNumber (SInt z) => Z.to_N (Z.abs z * 2 + (if Z.ltb z 0 then 1 else 0)) | _ => 0%N end.

Example C15_ex_hash_injective : forall v w, ex_dom v -> ex_dom w -> ex_hash v = ex_hash w -> v = w.
Proof.
  intros v w [a ->] [b ->] H. cbn in H. f_equal. f_equal.
  destruct (Z.ltb a 0) eqn:Ea; destruct (Z.ltb b 0) eqn:Eb;
    [apply Z.ltb_lt in Ea; apply Z.ltb_lt in Eb | apply Z.ltb_lt in Ea; apply Z.ltb_ge in Eb
    | apply Z.ltb_ge in Ea; apply Z.ltb_lt in Eb | apply Z.ltb_ge in Ea; apply Z.ltb_ge in Eb];
    apply (f_equal Z.of_N) in H; rewrite !Z2N.id in H by (destruct a, b; cbn; try discriminate; auto with zarith);
    destruct a, b; cbn in *; try discriminate; try congruence; auto with zarith.
Qed.

Example C15_ex_collision :
  let h := fun _ : sdata => 0%N in
  match run (sstep h) [ONumber (SInt 1%Z); ONumber (SInt 2%Z)] simple_new with
  | Ok (_, [RAddr a; RAddr b]) => a = b
  | _ => False
  end.
Proof. vm_compute. reflexivity. Qed.
