(* C02  Precedence, associativity and grouping follow the operator table.
   Only statements, [exact] and [Print Assumptions] live here. *)
From Coq Require Import List Arith Bool NArith.
From GV Require Import Base.Result Gen.TokenTypes Gen.Defs Model.Parser Spec.RefTable Spec.Pratt
  Proofs.C02.Table Proofs.C02.Triples.
Import ListNotations.

(* (a) the priority map extracted from parser.rs orders every pair of definitions as
   the pinned reference table does, registers the same definitions, and every token
   type has the pinned definition / kind / associativity class *)
Theorem C02_table_order : forall (d1 d2 : definition) a b x y,
  priority d1 = Some a -> priority d2 = Some b -> ref_rank d1 = Some x -> ref_rank d2 = Some y ->
  N.compare a b = N.compare x y.
Proof. exact table_order_agrees. Qed.
Print Assumptions C02_table_order.

Theorem C02_table_domain : forall d : definition,
  (exists a, priority d = Some a) <-> (exists x, ref_rank d = Some x).
Proof. exact table_same_domain. Qed.
Print Assumptions C02_table_domain.

Theorem C02_token_classes : forallb token_agrees all_token_type = true.
Proof. exact tokens_agree_all. Qed.
Print Assumptions C02_token_classes.

(* (b) every expression with at most three operators around atomic operands, without
   and with whitespace around binary operators: the reference accepts it and parse
   returns exactly the tree the pinned table dictates (bound = the property's own) *)
Theorem C02_pairs_triples_upto_3_operators : forall (ops tight spaced : list token_type),
  length ops <= 3 -> (forall o, In o ops -> In o op_alphabet) ->
  render ops false false = Some tight -> render ops false true = Some spaced ->
  (exists t, pratt tight = Some t) /\ c02_agree tight = true /\ c02_agree spaced = true.
Proof. exact c02_pairs_triples. Qed.
Print Assumptions C02_pairs_triples_upto_3_operators.

(* brackets override: both groupings of every ordered pair of operators *)
Theorem C02_brackets_override : forall (o1 o2 : token_type) (toks : list token_type),
  In toks (grouped_variants o1 o2) -> (exists t, pratt toks = Some t) /\ c02_agree toks = true.
Proof. exact c02_brackets_override. Qed.
Print Assumptions C02_brackets_override.

(* (c) the unbounded statement: not proved (needs the refinement of the parent-linked
   node array to a stack of right-spine frames) *)
Definition C02_full_statement : Prop := forall toks : list token_type, c02_agree toks = true.

(* non-vacuity and what the reference means on concrete inputs *)
Example C02_ex_precedence :
  pratt [TT_Number; TT_PlusSign; TT_Number; TT_MultiplicationSign; TT_Number]
  = Some (RBin D_Addition (Some 1) (RAtom D_Number 0)
            (RBin D_MultiplicationSign (Some 3) (RAtom D_Number 2) (RAtom D_Number 4))) /\
  pratt [TT_Number; TT_Pair; TT_Number; TT_Pair; TT_Number]
  = Some (RBin D_Pair (Some 1) (RAtom D_Number 0) (RBin D_Pair (Some 3) (RAtom D_Number 2) (RAtom D_Number 4))) /\
  pratt [TT_Number; TT_Subtraction; TT_Number; TT_Subtraction; TT_Number]
  = Some (RBin D_Subtraction (Some 3) (RBin D_Subtraction (Some 1) (RAtom D_Number 0) (RAtom D_Number 2)) (RAtom D_Number 4)).
Proof. vm_compute. repeat split; reflexivity. Qed.

Example C02_ex_coverage : N.leb 100000 (N.of_nat rendered_count) = true.
Proof. vm_compute. reflexivity. Qed.
