(* C20 on the operator fragment, WITHOUT the exclusion of class C05-K2.

   The frame and relocation theorems of C20 (Proofs/Builder/Transport.v:
   C20_frame_full_builder_proof, C20_relocated_full_builder_proof) carry the
   hypothesis [~ Known_C05_K2 t].  Proofs/C05/OperatorNoK2.v shows that for
   every token list on which the reference parser [Spec.Pratt.pratt] is
   defined (the whole operator fragment) the parser model accepts and the tree
   it links is not in that class (pratt_parse_tree).  Composing the two -- no
   new induction -- gives the statements below: for such a token list every
   successful build into ANY data object refers to its own jump entries and
   instructions only, and is the build into the empty data object, relocated. *)
From Coq Require Import List Arith Bool NArith.
From GV Require Import Base.Result Gen.TokenTypes Gen.Defs Gen.Instr Model.Parser Model.BuilderWL Model.Compile
  Spec.Pratt Spec.WfCode Spec.Reloc
  Proofs.C05.Known Proofs.C05.OperatorNoK2 Proofs.C20.Statements Proofs.Builder.Transport.
Import ListNotations.

(* frame *)
Lemma C20_frame_operator_expressions_proof : forall toks rt, pratt toks = Some rt ->
  exists root nodes t,
    parse toks = Ok (root, nodes) /\ Compile.tree_of nodes root = Some t /\
    forall init lit fuel r,
      build nodes init lit fuel root = Ok r -> own_code init (code_of_build r) = true.
Proof.
  intros toks rt H. destruct (pratt_parse_tree toks rt H) as (root & ns & t & Hp & _ & Ht & Hk).
  exists root, ns, t. split; [exact Hp|]. split; [exact Ht|].
  intros init lit fuel r Hb.
  exact (C20_frame_full_builder_proof ns root t init lit fuel r Ht Hk Hb).
Qed.

(* relocation (and frame, as in C20_relocated_full_parsed) *)
Lemma C20_relocated_operator_expressions_proof : forall toks rt, pratt toks = Some rt ->
  exists root nodes t,
    parse toks = Ok (root, nodes) /\ Compile.tree_of nodes root = Some t /\
    forall init lit fuel fuel0 r r0,
      build nodes init lit fuel root = Ok r -> build nodes empty_init lit fuel0 root = Ok r0 ->
      relocated init (code_of_build r0) (code_of_build r) = true /\ own_code init (code_of_build r) = true.
Proof.
  intros toks rt H. destruct (pratt_parse_tree toks rt H) as (root & ns & t & Hp & _ & Ht & Hk).
  exists root, ns, t. split; [exact Hp|]. split; [exact Ht|].
  intros init lit fuel fuel0 r r0 Hb Hb0. split.
  - exact (C20_relocated_full_builder_proof ns root t init lit fuel fuel0 r r0 Ht Hk Hb Hb0).
  - exact (C20_frame_full_builder_proof ns root t init lit fuel r Ht Hk Hb).
Qed.
