(* Executable model of the runtime: one [step] per call of
   execute_current_instruction (runtime/src/execute.rs) and one function per
   operation of runtime/src/runtime/{put,jumps,logical,arithmetic,bitwise,
   comparison,equality,pair,list,access,internals,apply,resolve,sideeffect}.rs.

   State: instruction cursor, register stack, value stack, frame stack, host
   state and host trace.  Values are structural trees ([val]); registers and
   value-stack entries hold the tree of the value their address denotes (the
   data store itself is C15/C16's subject).  The instruction table carries, for
   data operands, the tree of the constant; the jump table is the one the
   builder produced.  Which operation an instruction runs comes from the
   generated Gen/Exec.v.

   Frames are modelled as BasicGarnishData has them: a frame remembers the
   register stack as it was when the frame was pushed and pop_frame restores it
   (SimpleGarnishData keeps a marker in the register vector and truncates to
   it: the same thing whenever the callee does not pop below the marker).
   Without a frame pop_frame answers None and leaves the registers alone.

   Outside the model ([E_unmodeled], never a claim about the code): ranges,
   slices, concatenations, partial application, type casts, byte lists as
   operands of access, float powers, symbol lists with numeric parts, a symbol
   lookup in a list that carries the key twice (the two data implementations
   answer differently).  No proofs in this file. *)
From Coq Require Import ZArith NArith List Bool.
From Flocq Require Import IEEE754.Binary IEEE754.Bits.
From GV Require Import Base.Result Base.Host Gen.Instr Gen.Exec Gen.CmpTable Model.Num Model.Value.
Import ListNotations.

Definition E_noreg : N := 1%N.        (* state error: No references in register. *)
Definition E_state : N := 2%N.        (* any other RuntimeError *)
Definition E_unsupported : N := 3%N.  (* RuntimeError::unsupported_types() *)
Definition E_unmodeled : N := 99%N.

Inductive mop : Type :=
| MNone
| MNum (n : nat)        (* jump-table index or list length *)
| MVal (v : val).       (* the constant a data operand denotes *)

Definition minstr : Type := (instruction * mop)%type.

Record program : Type := mkProg { code : list minstr; jt : list nat }.

Section Machine.
Variable hstate : Type.
Variable host : hstate -> host_call -> hstate * option val.

Record state : Type := mkSt {
  pc : nat;
  regs : list val;                      (* head = top *)
  vals : list val;                      (* head = current value *)
  frames : list (nat * list val);       (* return point, registers at the call *)
  hs : hstate;
  tr : trace
}.

Definition set_regs (s : state) (r : list val) : state := mkSt (pc s) r (vals s) (frames s) (hs s) (tr s).
Definition set_vals (s : state) (v : list val) : state := mkSt (pc s) (regs s) v (frames s) (hs s) (tr s).
Definition push (s : state) (v : val) : state := set_regs s (v :: regs s).

Definition ask (s : state) (c : host_call) : state * option val :=
  let '(h', r) := host (hs s) c in
  (mkSt (pc s) (regs s) (vals s) (frames s) h' (tr s ++ [c]), r).

(* next_ref *)
Definition next_ref (s : state) : res (val * state) :=
  match regs s with
  | v :: r => Ok (v, set_regs s r)
  | [] => Err E_noreg
  end.
(* next_two_raw_ref: (first popped, second popped) *)
Definition next_two (s : state) : res (val * val * state) :=
  do r1 <- next_ref s;
  let '(a, s1) := r1 in
  do r2 <- next_ref s1;
  let '(b, s2) := r2 in
  Ok (a, b, s2).

Definition push_unit (s : state) : state := push s VUnit.
Definition push_bool (s : state) (b : bool) : state := push s (if b then VTrue else VFalse).

(* defer_op, then unit when the host declines *)
Definition defer (s : state) (i : instruction) (l : val) (r : option val) : state :=
  let '(s1, a) := ask s (HDefer i l r) in
  match a with Some v => push s1 v | None => push_unit s1 end.

Definition is_true_value (v : val) : bool :=
  match type_of_val v with T_False | T_Unit => false | _ => true end.

Definition jump_point (p : program) (j : nat) : res nat :=
  match nth_error (jt p) j with Some t => Ok t | None => Err E_state end.

(* result of an operation: the state and Some(next instruction) / None *)
Definition opres : Type := res (state * option nat).
Definition stay (s : state) : opres := Ok (s, None).

(* ------------------------------------------------ arithmetic.rs, bitwise.rs *)
Definition is_flt (n : num) : bool := match n with Flt _ => true | Int _ => false end.
Definition no_powf (a _ : binary64) : binary64 := a.

Definition perform_op (i : instruction) (o : Num.binop) (s : state) : opres :=
  do r <- next_two s;
  let '(rgt, lft, s1) := r in
  match lft, rgt with
  | VNum a, VNum b =>
      if match o with OpPow => is_flt a || is_flt b | _ => false end then Err E_unmodeled else
      match num_binop no_powf o a b with
      | Some n => stay (push s1 (VNum n))
      | None => stay (push_unit s1)
      end
  | _, _ => stay (defer s1 i lft (Some rgt))
  end.

Definition perform_unary_op (i : instruction) (o : Num.unop) (s : state) : opres :=
  do r <- next_ref s;
  let '(v, s1) := r in
  match v with
  | VNum a =>
      match num_unop o a with
      | Some n => stay (push s1 (VNum n))
      | None => stay (push_unit s1)
      end
  | _ => stay (defer s1 i v None)
  end.

(* ------------------------------------------------------------ comparison.rs *)
(* cmp_list: item by item, then the lengths (the i32 index of the Rust loop
   cannot overflow for lists that fit in memory) *)
Fixpoint cmp_items (l r : list N) : comparison :=
  match l, r with
  | [], [] => Eq
  | [], _ :: _ => Lt
  | _ :: _, [] => Gt
  | x :: l', y :: r' => match (x ?= y)%N with Eq => cmp_items l' r' | c => c end
  end.

(* perform_comparison: Ok None = partial_cmp answered None (NaN) *)
Definition perform_comparison (false_ord : comparison) (lft rgt : val) : res (option comparison) :=
  match lft, rgt with
  | VNum a, VNum b => Ok (num_partial_cmp a b)
  | VChar a, VChar b => Ok (Some (a ?= b)%N)
  | VByte a, VByte b => Ok (Some (a ?= b)%N)
  | VChars a, VChars b => Ok (Some (cmp_items a b))
  | VBytes a, VBytes b => Ok (Some (cmp_items a b))
  | VSlice _ _, VSlice _ _ => Err E_unmodeled
  | _, _ => Ok (Some false_ord)
  end.

Definition ord_holds (t : ord_test) (c : comparison) : bool :=
  match t, c with
  | Is_lt, Lt => true | Is_lt, _ => false
  | Is_le, Gt => false | Is_le, _ => true
  | Is_gt, Gt => true | Is_gt, _ => false
  | Is_ge, Lt => false | Is_ge, _ => true
  | Is_eq, Eq => true | Is_eq, _ => false
  | Is_ne, Eq => false | Is_ne, _ => true
  end.

(* less_than & co: the operator's false_ord and Ordering test come from the generated table *)
Definition comparison_op (o : cmp_op) (s : state) : opres :=
  do r <- next_two s;
  let '(rgt, lft, s1) := r in
  do c <- perform_comparison (op_false_ord o) lft rgt;
  match c with
  | Some c => stay (push_bool s1 (ord_holds (op_test o) c))
  | None => stay (push_unit s1)
  end.

(* -------------------------------------------------------------- equality.rs *)
Fixpoint items_eqb (l r : list N) : bool :=
  match l, r with
  | [], [] => true
  | x :: l', y :: r' => (x =? y)%N && items_eqb l' r'
  | _, _ => false
  end.
Definition sympart_eqb (a b : sympart) : bool :=
  match a, b with
  | SPSym x, SPSym y => (x =? y)%N
  | SPNum x, SPNum y => num_eq x y
  | _, _ => false
  end.
Fixpoint symparts_eqb (l r : list sympart) : bool :=
  match l, r with
  | [], [] => true
  | x :: l', y :: r' => sympart_eqb x y && symparts_eqb l' r'
  | _, _ => false
  end.

(* data_equal with its worklist unfolded on trees: None = outside the model *)
Fixpoint data_equal (l r : val) : option bool :=
  match l, r with
  | VUnit, VUnit | VTrue, VTrue | VFalse, VFalse => Some true
  | VType a, VType b => Some (data_type_eqb a b)
  | VExpr a, VExpr b => Some (a =? b)%N
  | VExternal a, VExternal b => Some (a =? b)%N
  | VSym a, VSym b => Some (a =? b)%N
  | VChar a, VChar b => Some (a =? b)%N
  | VByte a, VByte b => Some (a =? b)%N
  | VNum a, VNum b => Some (num_eq a b)
  | VChar c, VChars cs | VChars cs, VChar c =>
      Some (match cs with [c'] => (c' =? c)%N | _ => false end)
  | VByte c, VBytes cs | VBytes cs, VByte c =>
      Some (match cs with [c'] => (c' =? c)%N | _ => false end)
  | VChars a, VChars b => Some (items_eqb a b)
  | VBytes a, VBytes b => Some (items_eqb a b)
  | VSymList a, VSymList b => Some (symparts_eqb a b)
  | VPair a1 a2, VPair b1 b2 =>
      match data_equal a1 b1, data_equal a2 b2 with
      | Some x, Some y => Some (x && y)
      | _, _ => None
      end
  | VList xs, VList ys =>
      (fix go (xs ys : list val) : option bool :=
         match xs, ys with
         | [], [] => Some true
         | x :: xs', y :: ys' =>
             match data_equal x y, go xs' ys' with
             | Some a, Some b => Some (a && b)
             | _, _ => None
             end
         | _, _ => Some false
         end) xs ys
  | (VRange _ _ | VSlice _ _ | VConcat _ _), _ | _, (VRange _ _ | VSlice _ _ | VConcat _ _) => None
  | _, _ => Some false
  end.

Definition equality_op (negate : bool) (s : state) : opres :=
  match regs s with
  | rgt :: lft :: rest =>
      match data_equal lft rgt with
      | Some b => stay (push_bool (set_regs s rest) (xorb negate b))
      | None => Err E_unmodeled
      end
  | _ => Err E_state       (* "Not enough registers to perform comparison." *)
  end.

(* ----------------------------------------------------------------- list.rs *)
Definition make_list (len : nat) (s : state) : opres :=
  if Nat.ltb (length (regs s)) len then Err E_state
  else stay (push (set_regs s (skipn len (regs s))) (VList (rev (firstn len (regs s))))).

Fixpoint keyed (items : list val) (sym : N) : list val :=
  match items with
  | [] => []
  | VPair (VSym k) v :: r => if (k =? sym)%N then v :: keyed r sym else keyed r sym
  | _ :: r => keyed r sym
  end.

(* access_with_symbol: Ok (Some v) / Ok None / Err unsupported *)
Definition access_with_symbol (sym : N) (v : val) : res (option val) :=
  match v with
  | VPair (VSym k) x => Ok (if (k =? sym)%N then Some x else None)
  | VPair _ _ => Ok None
  | VList items =>
      match keyed items sym with
      | [] => Ok None
      | [x] => Ok (Some x)
      | _ => Err E_unmodeled
      end
  | VSlice _ _ | VConcat _ _ => Err E_unmodeled
  | _ => Err E_unsupported
  end.

Definition access_with_integer (index : num) (v : val) : res (option val) :=
  match v with
  | VPair (VSym _) _ => Ok (if num_eq index (Int 0) then Some v else None)
  | VPair _ _ => Ok None
  | VList items =>
      match index with
      | Int z =>
          if (z <? 0)%Z then Ok None
          else Ok (Some (match nth_z items z with Some x => x | None => VUnit end))
      | Flt _ => Err E_unmodeled
      end
  | VChars cs =>
      match index with
      | Int z =>
          if (z <? 0)%Z then Ok None
          else Ok (match nth_z cs z with Some c => Some (VChar c) | None => None end)
      | Flt _ => Err E_unmodeled
      end
  | VBytes _ | VSymList _ | VRange _ _ | VSlice _ _ | VConcat _ _ => Err E_unmodeled
  | _ => Err E_unsupported
  end.

Definition get_access_addr (rgt lft : val) : res (option val) :=
  match rgt with
  | VNum i => access_with_integer i lft
  | VSym s => access_with_symbol s lft
  | _ => Err E_unsupported
  end.

Definition merge_to_symbol_list (l r : val) : res val :=
  match l, r with
  | VSym a, VSym b => Ok (VSymList [SPSym a; SPSym b])
  | VSym a, VSymList y => Ok (VSymList (SPSym a :: y))
  | VSymList x, VSym b => Ok (VSymList (x ++ [SPSym b]))
  | VSymList x, VSymList y => Ok (VSymList (x ++ y))
  | _, _ => Err E_unmodeled
  end.

Definition push_found (s : state) (f : option val) : state :=
  match f with Some v => push s v | None => push_unit s end.

(* --------------------------------------------------------------- access.rs *)
Definition access_op (s : state) : opres :=
  do r <- next_two s;
  let '(rgt, lft, s1) := r in
  match type_of_val lft, type_of_val rgt with
  | T_Symbol, T_Symbol | T_Symbol, T_SymbolList | T_SymbolList, T_Symbol | T_SymbolList, T_SymbolList
  | T_SymbolList, T_Number | T_Number, T_SymbolList | T_Symbol, T_Number | T_Number, T_Symbol =>
      do v <- merge_to_symbol_list lft rgt; stay (push s1 v)
  | T_Pair, T_Number | T_Pair, T_Symbol | T_List, T_Number | T_List, T_Symbol
  | T_CharList, T_Number | T_ByteList, T_Number | T_Range, T_Number
  | T_Concatenation, T_Number | T_Concatenation, T_Symbol | T_Slice, T_Number | T_Slice, T_Symbol =>
      do f <- get_access_addr rgt lft; stay (push_found s1 f)
  | _, _ => stay (defer s1 I_Access lft (Some rgt))
  end.

(* ------------------------------------------------------------ internals.rs *)
Definition access_left_internal (s : state) : opres :=
  do r <- next_ref s;
  let '(v, s1) := r in
  match v with
  | VPair a _ => stay (push s1 a)
  | VRange _ _ | VSlice _ _ | VConcat _ _ => Err E_unmodeled
  | _ => stay (defer s1 I_AccessLeftInternal v None)
  end.
Definition access_right_internal (s : state) : opres :=
  do r <- next_ref s;
  let '(v, s1) := r in
  match v with
  | VPair _ b => stay (push s1 b)
  | VRange _ _ | VSlice _ _ | VConcat _ _ => Err E_unmodeled
  | _ => stay (defer s1 I_AccessRightInternal v None)
  end.
Definition access_length_internal (s : state) : opres :=
  do r <- next_ref s;
  let '(v, s1) := r in
  match v with
  | VPair (VSym _) _ => stay (push s1 (VNum (Int 1)))
  | VPair _ _ => stay (push_unit s1)
  | VList items => stay (push s1 (VNum (Int (Z.of_nat (length items)))))
  | VChars cs => stay (push s1 (VNum (Int (Z.of_nat (length cs)))))
  | VBytes bs => stay (push s1 (VNum (Int (Z.of_nat (length bs)))))
  | VRange _ _ | VSlice _ _ | VConcat _ _ => Err E_unmodeled
  | _ => stay (defer s1 I_AccessLengthInternal v None)
  end.

(* ---------------------------------------------------------------- apply.rs *)
Definition apply_internal (p : program) (i : instruction) (s : state) : opres :=
  do r <- next_two s;
  let '(rgt, lft, s1) := r in
  let next := S (pc s) in
  match type_of_val lft, type_of_val rgt with
  | T_Expression, _ =>
      match lft with
      | VExpr j =>
          do n <- jump_point p (N.to_nat j);
          Ok (mkSt (pc s1) (regs s1) (rgt :: vals s1) ((next, regs s1) :: frames s1) (hs s1) (tr s1), Some n)
      | _ => Err E_state
      end
  | T_External, _ =>
      match lft with
      | VExternal k =>
          let '(s2, a) := ask s1 (HApply k rgt) in
          Ok (match a with Some v => push s2 v | None => push_unit s2 end, Some next)
      | _ => Err E_state
      end
  | T_Partial, _ => Err E_unmodeled
  | T_Symbol, T_SymbolList | T_SymbolList, T_Symbol | T_SymbolList, T_SymbolList =>
      do v <- merge_to_symbol_list lft rgt; Ok (push s1 v, Some next)
  | T_Range, T_Range | T_Slice, T_Range => Err E_unmodeled
  | T_SymbolList, T_Number | T_List, T_Number | T_Pair, T_Number =>
      match rgt with
      | VNum n => do f <- access_with_integer n lft; Ok (push_found s1 f, Some next)
      | _ => Err E_state
      end
  | T_Pair, T_Symbol | T_List, T_Symbol =>
      match rgt with
      | VSym sy => do f <- access_with_symbol sy lft; Ok (push_found s1 f, Some next)
      | _ => Err E_state
      end
  | T_List, T_SymbolList => Err E_unmodeled
  | T_List, T_Range | T_Concatenation, T_Range | T_CharList, T_Range | T_ByteList, T_Range | T_SymbolList, T_Range =>
      Err E_unmodeled
  | _, _ => Ok (defer s1 i lft (Some rgt), Some next)
  end.

(* ------------------------------------------------------------------ put.rs *)
Definition put_op (o : mop) (s : state) : opres :=
  match o with MVal v => stay (push s v) | _ => Err E_state end.
Definition put_value (s : state) : opres :=
  match vals s with v :: _ => stay (push s v) | [] => stay (push_unit s) end.
Definition push_value (s : state) : opres :=
  do r <- next_ref s; let '(v, s1) := r in stay (set_vals s1 (v :: vals s1)).
Definition update_value (s : state) : opres :=
  do r <- next_ref s;
  let '(v, s1) := r in
  match vals s1 with _ :: rest => stay (set_vals s1 (v :: rest)) | [] => Err E_state end.

(* ---------------------------------------------------------- sideeffect.rs *)
Definition start_side_effect (s : state) : opres :=
  match vals s with v :: _ => stay (set_vals s (v :: vals s)) | [] => stay (set_vals s [VUnit]) end.
Definition end_side_effect (s : state) : opres :=
  match vals s with
  | [] => Err E_state
  | _ :: rest =>
      match regs s with
      | _ :: r => stay (mkSt (pc s) r rest (frames s) (hs s) (tr s))
      | [] => Err E_state
      end
  end.

(* ---------------------------------------------------------------- jumps.rs *)
Definition jump_op (p : program) (j : nat) (s : state) : opres :=
  do t <- jump_point p j; Ok (s, Some t).
Definition jump_if (p : program) (when_true : bool) (j : nat) (s : state) : opres :=
  do t <- jump_point p j;
  do r <- next_ref s;
  let '(v, s1) := r in
  if Bool.eqb (is_true_value v) when_true then Ok (s1, Some t) else Ok (s1, None).
Definition end_expression (p : program) (s : state) : opres :=
  do r <- next_ref s;
  let '(v, s1) := r in
  match frames s1 with
  | [] =>
      match vals s1 with
      | _ :: rest => Ok (set_vals s1 (v :: rest), Some (length (code p)))
      | [] => Err E_state
      end
  | (ret, saved) :: fr =>
      Ok (mkSt (pc s1) (v :: saved) (tl (vals s1)) fr (hs s1) (tr s1), Some ret)
  end.

(* -------------------------------------------------------------- logical.rs *)
Definition and_op (p : program) (j : nat) (s : state) : opres :=
  do r <- next_ref s;
  let '(v, s1) := r in
  if is_true_value v then do t <- jump_point p j; Ok (s1, Some t)
  else stay (push_bool s1 false).
Definition or_op (p : program) (j : nat) (s : state) : opres :=
  do r <- next_ref s;
  let '(v, s1) := r in
  if is_true_value v then stay (push_bool s1 true)
  else do t <- jump_point p j; Ok (s1, Some t).
Definition xor_op (s : state) : opres :=
  do r <- next_two s;
  let '(a, b, s1) := r in
  stay (push_bool s1 (xorb (is_true_value a) (is_true_value b))).
Definition not_op (s : state) : opres :=
  do r <- next_ref s; let '(v, s1) := r in stay (push_bool s1 (negb (is_true_value v))).
Definition tis_op (s : state) : opres :=
  do r <- next_ref s; let '(v, s1) := r in stay (push_bool s1 (is_true_value v)).

(* ----------------------------------------------------------------- pair.rs *)
Definition make_pair (s : state) : opres :=
  do r <- next_two s;
  let '(lft, rgt, s1) := r in
  stay (push s1 (VPair lft rgt)).

(* -------------------------------------------------------------- resolve.rs *)
Definition resolve_op (o : mop) (s : state) : opres :=
  match o with
  | MVal d =>
      do found <-
        match vals s with
        | [] => Ok None
        | cur :: _ =>
            match get_access_addr d cur with
            | Ok f => Ok f
            | Err c => if N.eqb c E_unsupported then Ok None else Err c
            | Panic x => Panic x
            | OutOfFuel => OutOfFuel
            end
        end;
      match found with
      | Some v => stay (push s v)
      | None =>
          match d with
          | VSym sy =>
              let '(s1, a) := ask s (HResolve sy) in
              match a with Some v => stay (push s1 v) | None => stay (push_unit s1) end
          | _ => stay (push_unit s)
          end
      end
  | _ => Err E_state
  end.

(* -------------------------------------------------------------- execute.rs *)
Definition need_num (o : mop) : res nat := match o with MNum n => Ok n | _ => Err E_state end.

Definition run_op (p : program) (i : instruction) (f : op_fn) (o : mop) (s : state) : opres :=
  match f with
  | Op_add => perform_op i OpAdd s
  | Op_subtract => perform_op i OpSub s
  | Op_multiply => perform_op i OpMul s
  | Op_divide => perform_op i OpDiv s
  | Op_integer_divide => perform_op i OpIntDiv s
  | Op_power => perform_op i OpPow s
  | Op_remainder => perform_op i OpRem s
  | Op_opposite => perform_unary_op i OpNeg s
  | Op_absolute_value => perform_unary_op i OpAbs s
  | Op_bitwise_not => perform_unary_op i OpNot s
  | Op_bitwise_and => perform_op i OpAnd s
  | Op_bitwise_or => perform_op i OpOr s
  | Op_bitwise_xor => perform_op i OpXor s
  | Op_bitwise_left_shift => perform_op i OpShl s
  | Op_bitwise_right_shift => perform_op i OpShr s
  | Op_xor => xor_op s
  | Op_not => not_op s
  | Op_tis => tis_op s
  | Op_put_value => put_value s
  | Op_push_value => push_value s
  | Op_update_value => update_value s
  | Op_start_side_effect => start_side_effect s
  | Op_end_side_effect => end_side_effect s
  | Op_equal => equality_op false s
  | Op_not_equal => equality_op true s
  | Op_less_than => comparison_op CLt s
  | Op_less_than_or_equal => comparison_op CLe s
  | Op_greater_than => comparison_op CGt s
  | Op_greater_than_or_equal => comparison_op CGe s
  | Op_make_pair => make_pair s
  | Op_access => access_op s
  | Op_access_left_internal => access_left_internal s
  | Op_access_right_internal => access_right_internal s
  | Op_access_length_internal => access_length_internal s
  | Op_end_expression => end_expression p s
  | Op_apply => apply_internal p I_Apply s
  | Op_empty_apply => apply_internal p I_EmptyApply (push_unit s)
  | Op_and => do j <- need_num o; and_op p j s
  | Op_or => do j <- need_num o; or_op p j s
  | Op_put => put_op o s
  | Op_make_list => do n <- need_num o; make_list n s
  | Op_resolve => resolve_op o s
  | Op_jump_if_true => do j <- need_num o; jump_if p true j s
  | Op_jump_if_false => do j <- need_num o; jump_if p false j s
  | Op_jump => do j <- need_num o; jump_op p j s
  | Op_type_of | Op_type_cast | Op_type_equal | Op_make_range | Op_make_start_exclusive_range
  | Op_make_end_exclusive_range | Op_make_exclusive_range | Op_concat | Op_partial_apply | Op_reapply =>
      Err E_unmodeled
  end.

Inductive stepres : Type :=
| SRun (s : state)
| SEnd (s : state)
| SErr (c : N) (s : state).

(* execute_current_instruction *)
Definition step (p : program) (s : state) : stepres :=
  match nth_error (code p) (pc s) with
  | None => SEnd s
  | Some (i, o) =>
      let r :=
        match exec_op i with
        | None => Ok (s, None)                       (* Instruction::Invalid => None *)
        | Some (f, takes) =>
            if takes && match o with MNone => true | _ => false end then Err E_state   (* instruction_error *)
            else run_op p i f o s
        end in
      match r with
      | Ok (s1, next) =>
          let n := match next with Some n => n | None => S (pc s) end in
          if Nat.leb (length (code p)) n then SEnd s1
          else SRun (mkSt n (regs s1) (vals s1) (frames s1) (hs s1) (tr s1))
      | Err c => SErr c s
      | Panic _ => SErr E_state s
      | OutOfFuel => SErr E_state s
      end
  end.

Inductive runres : Type :=
| REnd (s : state) (steps : nat)
| RErr (c : N) (s : state)
| RFuel (s : state).

Fixpoint run_from (fuel : nat) (count : nat) (p : program) (s : state) : runres :=
  match fuel with
  | O => RFuel s
  | S f =>
      match step p s with
      | SRun s1 => run_from f (S count) p s1
      | SEnd s1 => REnd s1 count
      | SErr c s1 => RErr c s1
      end
  end.
Definition run (fuel : nat) (p : program) (s : state) : runres := run_from fuel 0 p s.

(* the state tests/src/main.rs starts from: cursor at the entry, the input
   value pushed on the value stack *)
Definition initial (p : program) (entry : nat) (input : val) (h : hstate) : option state :=
  match nth_error (jt p) entry with
  | Some start => Some (mkSt start [] [input] [] h [])
  | None => None
  end.

Definition current_value (s : state) : option val :=
  match vals s with v :: _ => Some v | [] => None end.

End Machine.

Arguments pc {hstate} s.
Arguments regs {hstate} s.
Arguments vals {hstate} s.
Arguments frames {hstate} s.
Arguments hs {hstate} s.
Arguments tr {hstate} s.
