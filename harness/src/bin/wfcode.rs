//! wfcode (C05): lex / parse / build on both data implementations and print what the build
//! added, with the data type found at every data-operand address.
//!   T <tt> <tt> ...        token-type indices (declaration order of TokenType)
//!   S <cp>,<cp>,...        source text as hex code points ("-" = empty)
//!   A <cp>,..;<cp>,..      two source texts: the first is built into the data object before the
//!                          second; the report is about the second build only (oracle gets
//!                          init=<instruction len>,<jump len>,<last instruction> before it)
//! Output: <case>\t<result>\t<oracle>
//!   result:  L=<ok|ERR|PANIC> P=<ERRn|PANIC|OK:root:[def.sec.parent.left.right.tok;...]>
//!            B=<ERRn|PANIC|OK:entry:I[..]:J[..]:M[..]> K=<K[type index per data operand]> (SimpleGarnishData)
//!            BB=<same|..> BK=<same|..>  (BasicGarnishData; `same` when equal to the Simple text)
//!   oracle:  toks=<token-type indices seen by parse>
#[path = "../codekit.rs"]
mod codekit;
use codekit::*;
use garnish_verif_harness::*;

fn build_and_show<D: Kit>(prefix: &Option<Parsed>, p: &Parsed) -> (String, String, String) {
    let mut data = D::fresh();
    if let Some(pre) = prefix {
        if build_into(&mut data, pre).is_err() {
            return ("PREFIXFAIL".to_string(), "-".to_string(), "-".to_string());
        }
    }
    let il = data.get_instruction_len();
    let jl = data.get_jump_table_len();
    let last = if il == 0 {
        "none".to_string()
    } else {
        match data.get_instruction(il - 1) {
            Some((i, d)) => format!("{}{}", i as usize, show_operand(&data, i, d)),
            None => "none".to_string(),
        }
    };
    let init = format!("{},{},{}", il, jl, last);
    match build_into(&mut data, p) {
        Err(c) => (c, "-".to_string(), init),
        Ok(b) => (show_built(&data, &b), show_kinds(&data, b.instr_from, b.instr_to), init),
    }
}

fn main() {
    supervised(3000, |line| {
        let (kind, rest) = line.split_at(1);
        let rest = rest.trim_start();
        let (kind, rest, prefix) = if kind == "A" {
            let mut it = rest.splitn(2, ';');
            let pre = it.next().unwrap_or("-");
            let main = it.next().unwrap_or("-");
            let prefix = match tokens_of("S", pre) {
                Lexed::Tokens(t, _) => parse_tokens(&t).ok(),
                Lexed::Fail(_) => None,
            };
            if prefix.is_none() {
                return format!("{}\tBADPREFIX\t-", line);
            }
            ("S", main, prefix)
        } else {
            (kind, rest, None)
        };
        match tokens_of(kind, rest) {
            Lexed::Fail(c) => {
                if c == "BADCASE" {
                    format!("{}\tBADCASE\t-", line)
                } else {
                    format!("{}\tL={}\t-", line, c)
                }
            }
            Lexed::Tokens(tokens, idx) => {
                let mut init_field = String::new();
                let res = match parse_tokens(&tokens) {
                    Err(c) => format!("P={} B=- K=- BB=same BK=same", c),
                    Ok(p) => {
                        let (b, k, init) = build_and_show::<Simple>(&prefix, &p);
                        let (bb, bk, initb) = build_and_show::<Basic>(&prefix, &p);
                        init_field = if prefix.is_some() { format!(" init={}", init) } else { String::new() };
                        format!(
                            "P=OK:{}:[{}] B={} K={} BB={} BK={}",
                            p.root,
                            show_nodes(&p.nodes),
                            b,
                            k,
                            if bb == b && initb == init { "same".to_string() } else { format!("{}@{}", bb, initb) },
                            if bk == k { "same".to_string() } else { bk }
                        )
                    }
                };
                format!("{}\tL=ok {}\t{}{}", line, res, toks_field(&idx), init_field)
            }
        }
    });
}
