(* Facts about the end-to-end fragment used by Properties/C01.v: it contains no
   side-effect block and no nested expression, so the K2 class and the label
   condition of C01 are vacuous on it; a concrete member. *)
From Coq Require Import ZArith NArith List Bool Arith Lia.
From GV Require Import Base.Result Base.Host Gen.Instr Model.Num Model.Value Model.Machine
  Model.CompileExpr Model.CompileWL Spec.Ast Spec.Printer Spec.Eval Spec.Fragment
  Proofs.C01.Labels Proofs.C01.Stages Proofs.C01.Main Proofs.C01.Bounded Proofs.C01.Witness.
Import ListNotations.

Lemma efrag_mono lvl lvl' : lvl <= lvl' -> forall e, efrag lvl e = true -> efrag lvl' e = true.
Proof.
  intros Hle. induction e; intros F; try discriminate F; cbn [efrag] in *; try reflexivity;
    repeat (apply andb_true_iff in F; let G := fresh "G" in destruct F as [F G]);
    repeat (apply andb_true_iff; split); auto;
    match goal with H : (?k <=? lvl) = true |- (?k <=? lvl') = true =>
      apply Nat.leb_le; apply Nat.leb_le in H; lia end.
Qed.

Lemma frag_no_K2 lvl : forall e, efrag lvl e = true -> known_K2 e = false.
Proof.
  induction e; intros F; try discriminate F; cbn [efrag] in F;
    repeat (apply andb_true_iff in F; let G := fresh "G" in destruct F as [F G]); cbn [known_K2];
    try reflexivity; try (apply IHe; assumption);
    rewrite IHe1, IHe2 by assumption; reflexivity.
Qed.

(* without nested expressions (levels 0-3) the label condition is vacuous *)
Lemma frag_lab_ok : forall e, efrag 3 e = true -> forall ic lk j ajb jb, lab_okC ic lk e j ajb jb = true.
Proof.
  induction e; intros F ic lk j ajb jb; try discriminate F; cbn [efrag] in F;
    repeat (apply andb_true_iff in F; let G := fresh "G" in destruct F as [F G]); cbn [lab_okC];
    try reflexivity; try (apply IHe; assumption).
  - destruct (right_first o); rewrite IHe1, IHe2 by assumption; reflexivity.
  - rewrite IHe1, IHe2 by assumption; reflexivity.
  - rewrite IHe1, IHe2 by assumption; reflexivity.
  - rewrite IHe1, IHe2 by assumption; reflexivity.
  - destruct ic; rewrite IHe1, IHe2 by assumption; reflexivity.
  - destruct ic; rewrite IHe1, IHe2 by assumption; reflexivity.
  - exfalso. match goal with H : (6 <=? 3) = true |- _ => discriminate H end.
Qed.

Lemma frag3_labels_ok e : efrag 3 e = true -> labels_ok e = true.
Proof. intros F. unfold labels_ok. apply frag_lab_ok. exact F. Qed.

(*  a = (1 + 2) * -- 3 , x . y < 4 && $ ?> { 5 6 } ~~ |> 7
    25 constructors: comma list, right-to-left pair, a round group, a prefix operator,
    access with a property, comparison, &&, a conditional with an else, a nested
    expression (labelled with the jump-table index of its body) applied with `~~`, a space list *)
Definition demo_e2e : expr :=
  EList Comma
    (EBin BPair (EIdent [97%N])
       (EBin BMul (EGroup (EBin BAdd (ELit (LInt 1)) (ELit (LInt 2)))) (EUn UNeg (ELit (LInt 3)))))
    (EElse
       (ECond false
          (EAnd (EBin BLt (EBin BAccess (EIdent [120%N]) (ELit (LProp [121%N]))) (ELit (LInt 4))) EValue)
          (EUn UEmptyApply (ENested 5 (EList Space (ELit (LInt 5)) (ELit (LInt 6))))))
       (ELit (LInt 7))).

Example demo_e2e_in_fragment :
  frag_e2e demo_e2e = true /\ printable demo_e2e = true /\ Nat.leb 12 (Ast.size demo_e2e) = true /\
  known_K1 demo_e2e = false /\ known_K2 demo_e2e = false /\ labels_ok demo_e2e = true.
Proof. vm_compute. repeat split; reflexivity. Qed.

Example frag_e2e_excludes :
  frag_e2e (ENested 1 (ESeq Blank EValue EValue)) = false /\
  frag_e2e (ESide EValue (ELit (LInt 1))) = false /\
  frag_e2e (EGroup (ESeq Semi EValue EValue)) = false /\
  frag_e2e (EReapply (ESide EValue (ELit (LInt 1)))) = false.
Proof. repeat split; reflexivity. Qed.

(* the agreement the theorem asserts, observed on the member above *)
Example demo_e2e_agrees : agrees demo_e2e = true.
Proof. vm_compute. reflexivity. Qed.

(*  2 ~> { $ + 1 } ~> { $ * 3 }   : two functions, one applied to the result of the other *)
Definition demo_apply2 : expr :=
  EBin BApplyTo
    (EBin BApplyTo (ELit (LInt 2)) (ENested 2 (EBin BAdd EValue (ELit (LInt 1)))))
    (ENested 1 (EBin BMul EValue (ELit (LInt 3)))).

Example demo_apply2_ok :
  frag_e2e demo_apply2 = true /\ printable demo_apply2 = true /\ known_K1 demo_apply2 = false /\
  known_K2 demo_apply2 = false /\ labels_ok demo_apply2 = true /\
  eval_prog sh unit nohost 20 demo_apply2 VUnit tt = ODone (VNum (Int 9)) (tt, []).
Proof. vm_compute. repeat split; reflexivity. Qed.

(*  { $ < 3 ?> ^~ $ + 1 |> $ } <~ 0   : a loop: the body restarts itself with $ + 1 until $ = 3 *)
Definition demo_loop : expr :=
  EBin BApply
    (ENested 1 (EElse (ECond false (EBin BLt EValue (ELit (LInt 3))) (EReapply (EBin BAdd EValue (ELit (LInt 1))))) EValue))
    (ELit (LInt 0)).

Example demo_loop_ok :
  frag_e2e demo_loop = true /\ printable demo_loop = true /\ known_K1 demo_loop = false /\
  known_K2 demo_loop = false /\ labels_ok demo_loop = true /\
  eval_prog sh unit nohost 40 demo_loop VUnit tt = ODone (VNum (Int 3)) (tt, []).
Proof. vm_compute. repeat split; reflexivity. Qed.

(*  { $ + 1 ; $ * 2 } <~ 3   : a function whose body is a sequence of two statements *)
Definition demo_seq : expr :=
  EBin BApply
    (ENested 1 (ESeq Semi (EBin BAdd EValue (ELit (LInt 1))) (EBin BMul EValue (ELit (LInt 2)))))
    (ELit (LInt 3)).

Example demo_seq_ok :
  frag_e2e demo_seq = true /\ printable demo_seq = true /\ known_K1 demo_seq = false /\
  known_K2 demo_seq = false /\ labels_ok demo_seq = true /\
  eval_prog sh unit nohost 20 demo_seq VUnit tt = ODone (VNum (Int 8)) (tt, []).
Proof. vm_compute. repeat split; reflexivity. Qed.
