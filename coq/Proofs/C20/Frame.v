(* C20 frame, inductive part (for every proper tree and every initial state):
   the tree compiler never asks for a write to a jump-table entry below the
   initial jump-table length -- the builder model's E_foreign_jump outcome is
   unreachable -- and, by Proofs/C05/Operands.v, every jump operand and
   expression value of the new code names a jump entry of the new range. *)
From Coq Require Import List Arith Bool NArith Lia.
From GV Require Import Base.Result Gen.TokenTypes Gen.Defs Gen.Instr Model.Parser Model.BuilderWL Model.Compile
  Spec.WfCode Spec.Reloc Proofs.C05.InlBase Proofs.C05.Operands.
Import ListNotations.

Lemma bind_err : forall A B (r : res A) (f : A -> res B) e,
  bind r f = Err e -> r = Err e \/ exists a, r = Ok a /\ f a = Err e.
Proof. intros A B [a|c| |] f e H; try discriminate; [right; exists a; auto | left; cbn in H; inversion H; reflexivity]. Qed.

Lemma seq2_err : forall a f e,
  seq2 a f = Err e -> a = Err e \/ exists s1 p1 i1, a = Ok (s1, p1, i1) /\ f s1 = Err e.
Proof.
  intros a f e H. unfold seq2 in H. apply bind_err in H. destruct H as [H|[[[s1 p1] i1] [Ha H]]]; [left; exact H|].
  right. exists s1, p1, i1. split; [exact Ha|].
  apply bind_err in H. destruct H as [H|[[[s2 p2] i2] [Hf H]]]; [exact H | discriminate].
Qed.

Lemma drop_items_err : forall a e, drop_items a = Err e -> a = Err e.
Proof.
  intros a e H. unfold drop_items in H. apply bind_err in H.
  destruct H as [H|[[[s p] i] [_ H]]]; [exact H | discriminate].
Qed.

Definition benign (e : N) : Prop := e = E_build \/ e = E_literal.

Ltac inv_err :=
  match goal with
  | H : seq2 _ _ = Err _ |- _ =>
    apply seq2_err in H; destruct H as [H | (?s1 & ?p1 & ?i1 & ?Ha & H)]
  | H : drop_items _ = Err _ |- _ => apply drop_items_err in H
  | H : bind _ _ = Err _ |- _ => apply bind_err in H; destruct H as [H | (?x & ?Hb & H)]
  | H : ret _ = Err _ |- _ => discriminate H
  | H : Ok _ = Err _ |- _ => discriminate H
  | H : cerr = Err _ |- _ => inversion H; subst; clear H
  | H : @Err _ _ = Err _ |- _ => inversion H; subst; clear H
  | H : context [if ?b then _ else _] |- _ =>
    match type of H with _ = Err _ => destruct b eqn:? end
  | H : context [match ?o with _ => _ end] |- _ =>
    match type of H with _ = Err _ => destruct o eqn:? end
  end.

Section Frame.
Variable nodes : list pnode.
Variable init : binit.
Variable lit_ok : nat -> bool.
Notation jlo := (i_jump_len init).
Notation JL := (jl init).

(* inline compilation fails only with the builder's own error or a literal error *)
Lemma inl_err_benign : forall t rj cx s e, inl init lit_ok rj t cx s = Err e -> benign e.
Proof.
  induction t as [ix d l r IHl IHr] using tree_ind'.
  intros rj cx s e H. cbn [inl] in H. cbv zeta in H.
  destruct (kind_of d) eqn:Hk.
  all: repeat inv_err.
  all: try solve [ left; reflexivity | right; reflexivity ].
  all: try solve [ eapply IHl; [reflexivity | eassumption] | eapply IHr; [reflexivity | eassumption] ].
Qed.

Lemma benign_not_foreign : forall e, benign e -> e <> E_foreign_jump.
Proof. intros e [H|H] Hf; subst; discriminate. Qed.

Lemma fold_bodies_not_foreign : forall f,
  (forall p s, st_ok nodes init s -> pend_ok nodes init s p -> run_body init lit_ok f p s <> Err E_foreign_jump) ->
  forall l s0, Forall (pend_ok nodes init s0) l -> st_ok nodes init s0 ->
  fold_bodies init lit_ok f l (Ok s0) <> Err E_foreign_jump.
Proof.
  intros f Hf. induction l as [|q l IHl]; intros s0 Hl Hs0 H; [discriminate|].
  unfold fold_bodies in H. cbn [fold_left bind] in H.
  inversion Hl as [|? ? Hq Hl']; subst.
  destruct (run_body init lit_ok f q s0) as [sq|e| |] eqn:Eq.
  - destruct (run_body_ok nodes init lit_ok _ _ _ _ Eq Hs0 Hq) as [Hsq Hjq].
    apply (IHl sq); [eapply Forall_pend_mono; [|exact Hl']; exact Hjq | exact Hsq | exact H].
  - destruct (fold_bodies_err init lit_ok f l) as [_ [He' _]]. unfold fold_bodies in He'. rewrite He' in H.
    inversion H; subst. exact (Hf q s0 Hs0 Hq Eq).
  - destruct (fold_bodies_err init lit_ok f l) as [_ [_ Hp']]. unfold fold_bodies in Hp'. rewrite Hp' in H. discriminate.
  - destruct (fold_bodies_err init lit_ok f l) as [Ho' _]. unfold fold_bodies in Ho'. rewrite Ho' in H. discriminate.
Qed.

Lemma run_body_not_foreign : forall fuel p s,
  st_ok nodes init s -> pend_ok nodes init s p -> run_body init lit_ok fuel p s <> Err E_foreign_jump.
Proof.
  induction fuel as [|f IH]; intros p s Hst Hp H; [discriminate|].
  cbn [run_body] in H.
  destruct Hp as [Ht [Hc [Hj He]]].
  apply bind_err in H. destruct H as [H|[s1 [Hpatch H]]].
  { eapply patch_not_foreign; [|exact H]. lia. }
  destruct (patch_ok _ _ _ _ _ Hpatch) as [_ [Hci [Hcm Hlen]]].
  assert (HJ1 : JL s1 = JL s) by (unfold jl; rewrite Hlen; reflexivity).
  assert (Hst1 : st_ok nodes init s1) by (eapply st_ok_same; eauto).
  apply bind_err in H. destruct H as [H|[[[s2 ps] its] [Hinl H]]].
  { exact (benign_not_foreign _ (inl_err_benign _ _ _ _ _ H) eq_refl). }
  assert (R : res_ok nodes init s2 ps its).
  { eapply inl_ok; [exact Ht | exact Hinl | exact Hst1 | rewrite HJ1; exact Hj | cbn [cx_containing plain]; rewrite HJ1; exact Hc]. }
  destruct R as [Hst2 [Hps _]].
  pose proof (ext_jl init _ _ (inl_ext init lit_ok _ _ _ _ _ _ _ Hinl)) as E2.
  destruct (finish_ok nodes init (p_end p) s2 Hst2) as [Hst3 HJ3].
  { eapply Forall_impl; [|exact He]. intros e. apply end_ok_mono. lia. }
  revert H. apply (fold_bodies_not_foreign f IH).
  - apply Forall_rev. eapply Forall_pend_mono; [|exact Hps]. lia.
  - exact Hst3.
Qed.

Theorem compile_not_foreign : forall t, tree_in nodes t -> compile init lit_ok t <> Err E_foreign_jump.
Proof.
  intros t Ht H. unfold compile in H.
  set (s1 := new_jump (mkC [] [] []) (il init (mkC [] [] []))) in *.
  assert (Hst1 : st_ok nodes init s1) by (unfold st_ok, s1; cbn; repeat split; constructor).
  assert (HJ1 : JL s1 = S jlo) by (unfold s1; rewrite jl_new_jump; unfold jl; cbn; lia).
  apply bind_err in H. destruct H as [H|[[[s2 ps] its] [Hinl H]]].
  { exact (benign_not_foreign _ (inl_err_benign _ _ _ _ _ H) eq_refl). }
  assert (R : res_ok nodes init s2 ps its).
  { eapply inl_ok; [exact Ht | exact Hinl | exact Hst1 | lia | cbn [cx_containing plain]; lia]. }
  destruct R as [Hst2 [Hps _]].
  destruct (finish_ok nodes init default_end s2 Hst2) as [Hst3 HJ3].
  { constructor; [left; reflexivity | constructor]. }
  apply bind_err in H. destruct H as [H|[s4 [_ H]]]; [|discriminate].
  revert H. apply (fold_bodies_not_foreign (size t) (run_body_not_foreign (size t))).
  - apply Forall_rev. eapply Forall_pend_mono; [|exact Hps]. lia.
  - exact Hst3.
Qed.

(* the references of the new code stay in the new jump range *)
Theorem compile_own_refs : forall t r,
  tree_in nodes t -> compile init lit_ok t = Ok r ->
  forallb (own_ref jlo (jlo + length (cj (fst r)))) (ci (fst r)) = true /\
  in_range jlo (jlo + length (cj (fst r))) (snd r) = true.
Proof.
  intros t r Ht H. destruct (compile_operands_meta nodes init lit_ok t r Ht H) as [Hops _].
  split.
  - apply forallb_forall. intros io Hin. apply In_nth_error in Hin. destruct Hin as [k Hk].
    specialize (Hops k io Hk). unfold code_of_compile in Hops. cbn [k_instrs k_jumps fst] in Hops.
    unfold WfCode.jlo, WfCode.jhi in Hops. cbn [k_jumps] in Hops.
    destruct io as [i o]. unfold own_ref. cbn [fst snd]. unfold operand_ok in Hops.
    destruct o as [|n|n|j]; try reflexivity.
    + destruct (jumping i) eqn:Ej; [|reflexivity].
      destruct i; try discriminate; cbn in Hops; try exact Hops.
    + destruct i; try discriminate. exact Hops.
  - (* the reported entry is the first new jump entry *)
    unfold compile in H.
    apply bind_ok in H. destruct H as [[[s2 ps] its] [Hinl H]].
    apply bind_ok in H. destruct H as [s4 [Hfold H]]. inversion H; subst. clear H. cbn [snd fst].
    set (s1 := new_jump (mkC [] [] []) (il init (mkC [] [] []))) in *.
    assert (Hst1 : st_ok nodes init s1) by (unfold st_ok, s1; cbn; repeat split; constructor).
    assert (HJ1 : JL s1 = S jlo) by (unfold s1; rewrite jl_new_jump; unfold jl; cbn; lia).
    assert (R : res_ok nodes init s2 ps its).
    { eapply inl_ok; [exact Ht | exact Hinl | exact Hst1 | lia | cbn [cx_containing plain]; lia]. }
    destruct R as [Hst2 [Hps _]].
    pose proof (ext_jl init _ _ (inl_ext init lit_ok _ _ _ _ _ _ _ Hinl)) as E2.
    destruct (finish_ok nodes init default_end s2 Hst2) as [Hst3 HJ3].
    { constructor; [left; reflexivity | constructor]. }
    assert (G : forall l s0 s', Forall (pend_ok nodes init s0) l -> st_ok nodes init s0 ->
                fold_bodies init lit_ok (size t) l (Ok s0) = Ok s' -> JL s0 <= JL s').
    { induction l as [|q l IHl]; intros s0 s0' Hl Hs0 Hf; cbn in Hf.
      - inversion Hf; subst. lia.
      - unfold fold_bodies in Hf. cbn [fold_left bind] in Hf.
        destruct (run_body init lit_ok (size t) q s0) as [sq| | |] eqn:Eq.
        + inversion Hl as [|? ? Hq Hl']; subst.
          destruct (run_body_ok nodes init lit_ok _ _ _ _ Eq Hs0 Hq) as [Hsq Hjq].
          assert (JL sq <= JL s0'); [|lia].
          apply (IHl sq s0'); [eapply Forall_pend_mono; [|exact Hl']; exact Hjq | exact Hsq | exact Hf].
        + destruct (fold_bodies_err init lit_ok (size t) l) as [_ [He' _]]. unfold fold_bodies in He'. rewrite He' in Hf. discriminate.
        + destruct (fold_bodies_err init lit_ok (size t) l) as [_ [_ Hp']]. unfold fold_bodies in Hp'. rewrite Hp' in Hf. discriminate.
        + destruct (fold_bodies_err init lit_ok (size t) l) as [Ho' _]. unfold fold_bodies in Ho'. rewrite Ho' in Hf. discriminate. }
    assert (HJ4 : JL (finish init s2 default_end) <= JL s4).
    { apply (G (rev ps)); [| exact Hst3 | exact Hfold].
      apply Forall_rev. eapply Forall_pend_mono; [|exact Hps]. lia. }
    unfold in_range. apply andb_true_iff. split; [apply Nat.leb_le; lia|].
    apply Nat.ltb_lt. unfold jl in *. lia.
Qed.
End Frame.
