(* Basic facts about the tree compiler of Model/Compile.v used by the inductive
   proofs of C05 and C20: an induction principle for trees with optional
   children, inversion of the sequencing combinators, and the fact that inline
   compilation only appends to the three tables. *)
From Coq Require Import List Arith Bool NArith Lia.
From GV Require Import Base.Result Gen.TokenTypes Gen.Defs Gen.Instr Model.Parser Model.BuilderWL Model.Compile.
Import ListNotations.

Lemma tree_ind_opt : forall (P : tree -> Prop),
  (forall ix d l r,
      match l with Some a => P a | None => True end ->
      match r with Some b => P b | None => True end -> P (T ix d l r)) ->
  forall t, P t.
Proof.
  intros P H. fix IH 1. intros [ix d l r]. apply H.
  - destruct l as [a|]; [apply IH | exact I].
  - destruct r as [b|]; [apply IH | exact I].
Qed.

Lemma tree_ind' : forall (P : tree -> Prop),
  (forall ix d l r, (forall a, l = Some a -> P a) -> (forall b, r = Some b -> P b) -> P (T ix d l r)) ->
  forall t, P t.
Proof.
  intros P H. apply tree_ind_opt. intros ix d l r Hl Hr. apply H.
  - intros a Ha. subst. exact Hl.
  - intros b Hb. subst. exact Hr.
Qed.

Lemma bind_ok : forall A B (r : res A) (f : A -> res B) b,
  bind r f = Ok b -> exists a, r = Ok a /\ f a = Ok b.
Proof. intros A B [a| | |] f b H; try discriminate. exists a. auto. Qed.

Lemma seq2_ok : forall a f s2 ps items,
  seq2 a f = Ok (s2, ps, items) ->
  exists s1 p1 i1 p2 i2, a = Ok (s1, p1, i1) /\ f s1 = Ok (s2, p2, i2) /\ ps = p1 ++ p2 /\ items = i1 ++ i2.
Proof.
  intros a f s2 ps items H. unfold seq2 in H.
  apply bind_ok in H. destruct H as [[[s1 p1] i1] [Ha H]].
  apply bind_ok in H. destruct H as [[[s2' p2] i2] [Hf H]].
  inversion H; subst. exists s1, p1, i1, p2, i2. auto.
Qed.

Lemma drop_items_ok : forall a s ps items,
  drop_items a = Ok (s, ps, items) -> exists i0, a = Ok (s, ps, i0) /\ items = [].
Proof.
  intros a s ps items H. unfold drop_items in H.
  apply bind_ok in H. destruct H as [[[s1 p1] i1] [Ha H]]. inversion H; subst. exists i1. auto.
Qed.

Lemma ret_ok : forall s s' ps items, ret s = Ok (s', ps, items) -> s' = s /\ ps = [] /\ items = [].
Proof. intros s s' ps items H. unfold ret in H. inversion H. auto. Qed.

(* one step of inversion of a successful compile action *)
Ltac inv_ok :=
  match goal with
  | H : seq2 _ _ = Ok (_, _, _) |- _ =>
    apply seq2_ok in H; destruct H as (?s1 & ?p1 & ?i1 & ?p2 & ?i2 & ?Ha & ?Hf & ?Hp & ?Hi); subst
  | H : drop_items _ = Ok (_, _, _) |- _ => apply drop_items_ok in H; destruct H as (?i0 & ?Ha & ?Hi); subst
  | H : ret _ = Ok (_, _, _) |- _ => apply ret_ok in H; destruct H as (? & ? & ?); subst
  | H : bind _ _ = Ok _ |- _ => apply bind_ok in H; destruct H as (?x & ?Hb1 & ?Hb2)
  | H : cerr = Ok _ |- _ => discriminate H
  | H : @Err _ _ = Ok _ |- _ => discriminate H
  | H : Ok _ = Ok _ |- _ => inversion H; subst; clear H
  | H : context [if ?b then _ else _] |- _ =>
    match type of H with _ = Ok _ => destruct b eqn:? end
  | H : context [match ?o with _ => _ end] |- _ =>
    match type of H with _ = Ok _ => destruct o eqn:? end
  end.

Section Base.
Variable init : binit.
Variable lit_ok : nat -> bool.

(* ---- only appending ---- *)
Definition ext (s s' : cst) : Prop :=
  exists a b c, ci s' = ci s ++ a /\ cm s' = cm s ++ b /\ cj s' = cj s ++ c /\ length a = length b.

Lemma ext_refl : forall s, ext s s.
Proof. intros s. exists [], [], []. rewrite !app_nil_r. auto. Qed.

Lemma ext_trans : forall s1 s2 s3, ext s1 s2 -> ext s2 s3 -> ext s1 s3.
Proof.
  intros s1 s2 s3 [a [b [c [Ha [Hb [Hc Hl]]]]]] [a' [b' [c' [Ha' [Hb' [Hc' Hl']]]]]].
  exists (a ++ a'), (b ++ b'), (c ++ c').
  rewrite Ha', Hb', Hc', Ha, Hb, Hc, !app_assoc, !app_length. auto.
Qed.

Lemma ext_emit : forall s i m, ext s (emit s i m).
Proof. intros s i m. exists [i], [m], []. cbn. rewrite app_nil_r. auto. Qed.

Lemma ext_new_jump : forall s x, ext s (new_jump s x).
Proof. intros s x. exists [], [], [x]. cbn. rewrite !app_nil_r. auto. Qed.

Lemma ext_il : forall s s', ext s s' -> il init s <= il init s'.
Proof. intros s s' [a [b [c [Ha _]]]]. unfold il. rewrite Ha, app_length. lia. Qed.

Lemma ext_jl : forall s s', ext s s' -> jl init s <= jl init s'.
Proof. intros s s' [a [b [c [_ [_ [Hc _]]]]]]. unfold jl. rewrite Hc, app_length. lia. Qed.

Lemma il_emit : forall s i m, il init (emit s i m) = S (il init s).
Proof. intros. unfold il, emit. cbn. rewrite app_length. cbn. lia. Qed.
Lemma jl_emit : forall s i m, jl init (emit s i m) = jl init s.
Proof. intros. reflexivity. Qed.
Lemma il_new_jump : forall s x, il init (new_jump s x) = il init s.
Proof. intros. reflexivity. Qed.
Lemma jl_new_jump : forall s x, jl init (new_jump s x) = S (jl init s).
Proof. intros. unfold jl, new_jump. cbn. rewrite app_length. cbn. lia. Qed.

Lemma ext_emit_r : forall s s1 i m, ext s s1 -> ext s (emit s1 i m).
Proof. intros. eapply ext_trans; [eassumption | apply ext_emit]. Qed.
Lemma ext_new_jump_r : forall s s1 x, ext s s1 -> ext s (new_jump s1 x).
Proof. intros. eapply ext_trans; [eassumption | apply ext_new_jump]. Qed.

(* walk backwards from the target state along the facts at hand *)
Ltac ext_solve :=
  repeat match goal with
         | |- ext ?s ?s => apply ext_refl
         | H : ext ?a ?b |- ext ?a ?b => exact H
         | |- ext _ (emit _ _ _) => apply ext_emit_r
         | |- ext _ (new_jump _ _) => apply ext_new_jump_r
         | H : ext ?m ?s' |- ext ?s ?s' => apply (ext_trans s m s'); [|exact H]
         end.

Theorem inl_ext : forall t rj cx s s' ps items,
  inl init lit_ok rj t cx s = Ok (s', ps, items) -> ext s s'.
Proof.
  induction t as [ix d l r IHl IHr] using tree_ind'.
  intros rj cx s s' ps items H.
  cbn [inl] in H. cbv zeta in H.
  destruct (kind_of d) eqn:Hk.
  all: repeat inv_ok.
  all: repeat match goal with
              | H : inl _ _ _ _ _ _ = Ok _ |- _ =>
                first [ eapply IHl in H; [|reflexivity] | eapply IHr in H; [|reflexivity] ]
              end.
  all: ext_solve.
Qed.
End Base.

(* walk backwards from the target state along the facts at hand *)
Ltac ext_solve_g :=
  repeat match goal with
         | |- ext ?s ?s => apply ext_refl
         | H : ext ?a ?b |- ext ?a ?b => exact H
         | |- ext _ (emit _ _ _) => apply ext_emit_r
         | |- ext _ (new_jump _ _) => apply ext_new_jump_r
         | H : ext ?m ?s' |- ext ?s ?s' => apply (ext_trans s m s'); [|exact H]
         end.


