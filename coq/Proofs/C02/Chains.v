(* the end of parse() on a complete tree, and small facts shared by the final theorems *)
From Coq Require Import List Arith Bool NArith Lia.
From GV Require Import Base.Result Gen.TokenTypes Gen.Defs Model.Parser Spec.RefTable Spec.Pratt Spec.Chains
  Proofs.C02.Spine Proofs.C02.Denote Proofs.C02.Validate Proofs.C02.Invariant Proofs.C02.Steps.
Import ListNotations.

(* ---- the end of parse(): nothing left to fix up on a complete tree ---- *)
Lemma denotes_right_lt ns : forall t p j n r,
  denotes ns p t -> has_id t j -> nth_error ns j = Some n -> n_right n = Some r -> r < length ns.
Proof.
  induction t as [i d k|i d k a IH|i d k a IH|i d k l IHl r0 IHr|b i k a IH]; intros p j n r D Hj Hn Hr; simpl in D, Hj;
    destruct D as (n0 & Hn0 & A).
  - subst j. rewrite Hn0 in Hn. injection Hn as <-. destruct A as (_ & _ & _ & _ & _ & A6 & _). congruence.
  - destruct A as (A1 & A2 & A3 & A4 & A5 & A6 & A7). destruct Hj as [->|Hj].
    + rewrite Hn0 in Hn. injection Hn as <-. rewrite A5 in Hr. injection Hr as <-.
      eapply denotes_lt; [exact A7|apply has_id_root].
    + eapply IH; eauto.
  - destruct A as (A1 & A2 & A3 & A4 & A5 & A6 & A7). destruct Hj as [->|Hj].
    + rewrite Hn0 in Hn. injection Hn as <-. congruence.
    + eapply IH; eauto.
  - destruct A as (A1 & A2 & A3 & A4 & A5 & A6). destruct Hj as [->|[Hj|Hj]].
    + rewrite Hn0 in Hn. injection Hn as <-. rewrite A4 in Hr. injection Hr as <-.
      eapply denotes_lt; [exact A6|apply has_id_root].
    + eapply IHl; eauto.
    + eapply IHr; eauto.
  - destruct A as (A1 & A2 & A3 & A4 & A5 & A6 & A7). destruct Hj as [->|Hj].
    + rewrite Hn0 in Hn. injection Hn as <-. rewrite A5 in Hr. injection Hr as <-.
      eapply denotes_lt; [exact A7|apply has_id_root].
    + eapply IH; eauto.
Qed.

Lemma map_fix_right_id ns t :
  denotes ns None t -> (forall j, j < length ns -> has_id t j) ->
  map (fun n => match n_right n with
                | Some r => if Nat.leb (length ns) r then set_right None n else n
                | None => n end) ns = ns.
Proof.
  intros D Cov. transitivity (map (fun x : pnode => x) ns); [|apply map_id]. apply map_ext_in. intros n Hin.
  destruct (In_nth_error _ _ Hin) as [j Hj].
  destruct (n_right n) as [r|] eqn:Er; [|reflexivity].
  pose proof (denotes_right_lt ns t None j n r D (Cov j (nth_error_lt _ _ _ Hj)) Hj Er) as L.
  destruct (Nat.leb_spec (length ns) r); [lia|reflexivity].
Qed.

Lemma definition_eqb_refl d : definition_eqb d d = true.
Proof. unfold definition_eqb. apply N.eqb_refl. Qed.

Lemma rtree_eqb_refl t : rtree_eqb t t = true.
Proof.
  induction t; simpl; rewrite ?definition_eqb_refl, ?Nat.eqb_refl, ?opt_nat_eqb_refl; auto.
  - rewrite IHt1, IHt2. reflexivity.
  - rewrite IHt. destruct b; reflexivity.
Qed.

