(* What C16 means for lookups: a list is a sequence of items, some of which
   are associations (a pair whose left is a symbol).  Looking a symbol up
   returns the value of the association keyed by it, if any.  With distinct
   keys (the property's assumption) "the" association is unique; [assoc_lookup]
   takes the first, so the specification is deterministic without it. *)
From Coq Require Import NArith List.
Import ListNotations.

(* an item as the lookup sees it: Some (key, value address) for an association *)
Definition assoc_view := option (N * nat).

Fixpoint assoc_lookup (sym : N) (l : list assoc_view) : option nat :=
  match l with
  | [] => None
  | Some (k, v) :: r => if N.eqb k sym then Some v else assoc_lookup sym r
  | None :: r => assoc_lookup sym r
  end.

Definition keys_of (l : list assoc_view) : list N :=
  flat_map (fun a => match a with Some (k, _) => [k] | None => [] end) l.

(* every association keyed by [sym] in [l] has value [v] (what distinct keys give) *)
Definition unique_value (sym : N) (l : list assoc_view) (v : nat) : Prop :=
  forall v', In (Some (sym, v')) l -> v' = v.

Lemma assoc_lookup_none : forall sym l, (forall v, ~ In (Some (sym, v)) l) -> assoc_lookup sym l = None.
Proof.
  intros sym l. induction l as [|[[k v]|] r IH]; intro H; cbn; [reflexivity| |].
  - destruct (N.eqb k sym) eqn:E.
    + apply N.eqb_eq in E. subst k. exfalso. apply (H v). left. reflexivity.
    + apply IH. intros v' Hin. apply (H v'). right. exact Hin.
  - apply IH. intros v' Hin. apply (H v'). right. exact Hin.
Qed.

Lemma assoc_lookup_some : forall sym l v, In (Some (sym, v)) l -> unique_value sym l v -> assoc_lookup sym l = Some v.
Proof.
  intros sym l v. induction l as [|[[k v0]|] r IH]; intros Hin Hu; cbn; [destruct Hin| |].
  - destruct (N.eqb k sym) eqn:E.
    + apply N.eqb_eq in E. subst k. f_equal. apply Hu. left. reflexivity.
    + destruct Hin as [Heq|Hin]; [inversion Heq; subst; rewrite N.eqb_refl in E; discriminate|].
      apply IH; [exact Hin|]. intros v' H'. apply Hu. right. exact H'.
  - destruct Hin as [Heq|Hin]; [discriminate|]. apply IH; [exact Hin|]. intros v' H'. apply Hu. right. exact H'.
Qed.

(* NoDup keys gives uniqueness *)
Lemma nodup_unique : forall sym l v, NoDup (keys_of l) -> In (Some (sym, v)) l -> unique_value sym l v.
Proof.
  intros sym l v. induction l as [|a r IH]; intros Hnd Hin v' Hin'; [destruct Hin|].
  cbn [keys_of flat_map] in Hnd. fold (keys_of r) in Hnd.
  assert (Hkeys : forall x, In (Some (sym, x)) r -> In sym (keys_of r)).
  { intros x Hx. unfold keys_of. apply in_flat_map. exists (Some (sym, x)). split; [exact Hx|left; reflexivity]. }
  destruct Hin as [Ha|Hin]; destruct Hin' as [Ha'|Hin'].
  - congruence.
  - subst a. cbn in Hnd. inversion Hnd; subst. exfalso. apply H1. eapply Hkeys. exact Hin'.
  - subst a. cbn in Hnd. inversion Hnd; subst. exfalso. apply H1. eapply Hkeys. exact Hin.
  - apply IH; try assumption. destruct a as [[k x]|]; cbn in Hnd; [inversion Hnd; assumption|assumption].
Qed.
