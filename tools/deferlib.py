"""Shared by tools/props/c08.py and c10.py: the operation x operand-type x host-mode
matrix (harness/src/bin/defer.rs on the implementation side,
ocaml/dispatch_driver.ml with the extracted Coq model and specs on the other)."""
import os, sys
import vplib
sys.path.insert(0, os.path.dirname(os.path.abspath(__file__)))
from sync import rustsrc as R

HOST_VALUE = "Number:424242"
IMPLS = ["S", "B"]
HOSTS = ["A", "D", "Y"]

# representatives the harness can build (see defer.rs `build`); quick tier uses the first `q`
REPS = {
    "Invalid": (["0"], 1), "Unit": (["0"], 1), "True": (["0"], 1), "False": (["0"], 1),
    "Number": (["1", "0", "2", "3", "4"], 2),
    "Char": (["0", "1"], 1),
    "CharList": (["2", "0", "1", "3"], 2),
    "Byte": (["0", "1"], 1),
    "ByteList": (["2", "0", "1"], 2),
    "Symbol": (["0", "1", "2"], 2),
    "SymbolList": (["0", "1", "2"], 1),
    "Pair": (["0", "1", "2"], 2),
    "Range": (["0", "1", "2"], 1),
    "Concatenation": (["1", "0", "2"], 2),
    "Slice": (["0", "1", "5", "2", "3", "4"], 3),
    "Partial": (["0", "1"], 2),
    "List": (["2", "0", "3", "1", "4", "5"], 3),
    "Expression": (["0"], 1), "External": (["0"], 1), "Custom": (["0"], 1),
}


def enums():
    ins = R.enum_variants(R.read("traits/src/instructions.rs"), "Instruction")
    tys = R.enum_variants(R.read("traits/src/data.rs"), "GarnishDataType")
    return ins, tys


def reps_for(tys, tier, type_values="few"):
    """list of representative ids, grouped by type name"""
    out = []
    for t in tys:
        if t == "Type":
            vals = tys if type_values == "all" else ["Number", "Unit"] if tier == "quick" else ["Number", "Unit", "List", "Type"]
            out += ["Type.%s" % v for v in vals]
            continue
        if t not in REPS:
            out.append("%s.0" % t)     # a type the harness does not know: reported UNBUILDABLE
            continue
        ids, q = REPS[t]
        out += ["%s.%s" % (t, k) for k in (ids[:q] if tier == "quick" else ids)]
    return out


# operand counts as the spec pins them (Spec/Defined.v `operands`); the check verifies
# against the extracted spec that this list has the same instructions
BINARY = ["Add", "Subtract", "Multiply", "Divide", "IntegerDivide", "Power", "Remainder", "BitwiseAnd", "BitwiseOr",
          "BitwiseXor", "BitwiseShiftLeft", "BitwiseShiftRight", "Access", "Apply", "ApplyType", "MakeRange",
          "MakeStartExclusiveRange", "MakeEndExclusiveRange", "MakeExclusiveRange", "Equal", "NotEqual", "TypeEqual",
          "LessThan", "LessThanOrEqual", "GreaterThan", "GreaterThanOrEqual", "MakePair", "Concat", "PartialApply", "Xor"]
UNARY = ["Opposite", "AbsoluteValue", "BitwiseNot", "AccessLeftInternal", "AccessRightInternal", "AccessLengthInternal",
         "EmptyApply", "TypeOf", "Not", "Tis", "And", "Or", "JumpIfTrue", "JumpIfFalse"]
TRUTH = ["JumpIfTrue", "JumpIfFalse", "And", "Or", "Xor", "Not", "Tis"]


def gen_cases(tier, only=None, hosts=HOSTS, impls=IMPLS):
    """the matrix as case lines.  only: restrict to these instruction names."""
    ins, tys = enums()
    few = reps_for(tys, tier, "few")
    allty = reps_for(tys, tier, "all")
    cases = []
    for i in ins:
        if only is not None and i not in only:
            continue
        if i in BINARY:
            rights = allty if i in ("ApplyType", "TypeEqual") else few
            pairs = [(l, r) for l in few for r in rights]
        elif i in UNARY:
            pairs = [(l, "-") for l in (allty if i == "TypeOf" else few)]
        else:
            # not an operation over operand types: a handful of operand pairs, to see that
            # nothing is deferred and the outcome does not depend on the types
            pick = [x for x in few if x.split(".")[0] in ("Number", "Symbol", "List", "Unit", "Expression", "Pair")]
            pairs = [(l, r) for l in pick[:6] for r in pick[:6]]
        for impl in impls:
            for h in hosts:
                for l, r in pairs:
                    cases.append("%s %s %s %s %s" % (impl, h, i, l, r))
    return cases


def parse_fields(s):
    """'Ok d=-1 top=Unit calls=[..] cur=1 ...' -> dict with 'class' and the k=v fields"""
    parts = s.split(" ")
    d = {"class": parts[0]}
    for p in parts[1:]:
        if "=" in p:
            k, v = p.split("=", 1)
            d[k] = v
    if "calls" in d:
        inner = d["calls"][1:-1]
        d["calls"] = inner.split(";") if inner else []
    return d


def run_matrix(cases, timeout=900):
    """-> (records, error).  record: dict(case, impl(raw), desc, model(raw), spec(raw))"""
    ins, tys = enums()
    text = "\n".join(cases) + "\n"
    # a private copy: a concurrent cargo build may replace the binary mid-run
    exe = vplib.private_copy(vplib.harness_bin("defer"))
    try:
        rc, impl = vplib.run_lines([exe], text, timeout=timeout)
    finally:
        try:
            os.remove(exe)
        except OSError:
            pass
    if rc != 0 or len(impl) != len(cases):
        return None, "defer harness rc=%s lines=%d/%d %s" % (rc, len(impl), len(cases), impl[-1:] if impl else "")
    hdr = "#instructions " + " ".join(ins) + "\n#types " + " ".join(tys) + "\n"
    rc, model = vplib.run_lines([os.path.join(vplib.OCAML_BUILD, "dispatch_driver")], hdr + "\n".join(impl) + "\n", timeout=timeout)
    recs = []
    model_ok = rc == 0 and len(model) == len(cases)
    for k, line in enumerate(impl):
        p = line.split("\t")
        if len(p) != 3:
            return None, "defer harness: malformed line %r" % line
        rec = {"case": p[0], "impl": p[1], "desc": p[2], "model": None, "spec": None, "truth": None}
        if model_ok:
            m = model[k].split("\t")
            if len(m) >= 3 and m[0] == p[0]:
                rec["model"], rec["spec"] = m[1], m[2]
                if len(m) > 3 and m[3].startswith("truth="):
                    rec["truth"] = m[3][6:].split(",")
            else:
                model_ok = False
        recs.append(rec)
    err = None if model_ok else "dispatch_driver rc=%s lines=%d/%d %s" % (rc, len(model), len(cases), model[-1:] if model else "")
    if not model_ok:
        for r in recs:
            r["model"] = r["spec"] = r["truth"] = None
    return recs, err


def top_matches(model_top, impl_top):
    if model_top in ("None", "Any"):
        return True
    if model_top == "Unit":
        return impl_top == "Unit"
    if model_top == "Host":
        return impl_top == HOST_VALUE
    t = impl_top.split(":")[0]
    if model_top.startswith("Bool:"):
        return t == ("True" if model_top == "Bool:true" else "False")
    if model_top.startswith("Is:"):
        return t == model_top[3:]
    if model_top.startswith("OneOf:"):
        return t in model_top[6:].split(",")
    return False


def calls_match(impl_calls, model_calls):
    """the harness prints @0U when the address is zero AND holds unit (Simple's unit value lives
    at address zero): that matches a model @0 as well as a model @U"""
    if len(impl_calls) != len(model_calls):
        return False
    for a, b in zip(impl_calls, model_calls):
        if a != b and a.replace("@0U)", "@0)") != b and a.replace("@0U)", "@U)") != b:
            return False
    return True


def compare_model(rec):
    """model vs implementation on one case.  -> (status, detail)
    status: 'same' | 'skip' | 'data' (a data-object anomaly on an arm the model marks
    data dependent: other properties' territory) | 'differ'"""
    if rec["model"] in (None, "-") or rec["impl"].startswith("UNBUILDABLE"):
        return "skip", ""
    host = rec["case"].split(" ")[1]
    m = parse_fields(rec["model"])
    i = parse_fields(rec["impl"])
    if m["class"] == "Untyped":
        if i.get("calls"):
            return "differ", "a non-operand instruction called defer_op"
        return "skip", ""
    dep = m["dep"] == "1"
    pops, pushes = int(m["pops"]), int(m["pushes"])
    ic = i["class"]
    allowed = {"Ok": ["Ok"], "Err:Unsupported": ["Err:Unsupported"], "Err:Other": ["Err:Other"],
               "OkOrUnsupported": ["Ok", "Err:Unsupported"]}[m["class"]]
    if ic not in allowed:
        if dep and ic in ("Err:Other", "PANIC"):
            return "data", "%s on a data-dependent arm" % ic
        return "differ", "result class %s, model %s" % (ic, m["class"])
    if i.get("sent") != "ok":
        return "differ", "the register below the operands was disturbed"
    if ic != "Ok":
        if i["d"] != str(-pops):
            return "differ", "depth delta %s on error, model %d" % (i["d"], -pops)
        return "same", ""
    host_pushed = 1 if (m["calls"] and host == "Y") else 0
    frames = int(m.get("frames", "0"))
    # SimpleGarnishData keeps frame markers (type Custom) in the register vector
    marker = frames if rec["case"].startswith("S ") else 0
    if int(i["d"]) != pushes + host_pushed + marker - pops:
        return "differ", "depth delta %s, model %d" % (i["d"], pushes + host_pushed + marker - pops)
    if int(i["vs"]) != frames:
        return "differ", "value stack delta %s, model %d" % (i["vs"], frames)
    if host != "A" and not calls_match(i["calls"], m["calls"]):
        return "differ", "defer_op calls %s, model %s" % (i["calls"], m["calls"])
    if marker and i["top"] != "Custom":
        return "differ", "top %s, model: a frame marker" % i["top"]
    if not marker and pushes + host_pushed > 0 and not top_matches("Host" if host_pushed else m["top"], i["top"]):
        return "differ", "top %s, model %s" % (i["top"], m["top"])
    if m["jump"] == "1":
        # the step jumps somewhere (jump table entry 0 -> 3 in the harness' setup)
        if i["cur"] != "3":
            return "differ", "cursor %s, model jumps" % i["cur"]
    elif i["cur"] != "1":
        return "differ", "cursor %s, model falls through" % i["cur"]
    return "same", ""


def check_names(v):
    """the harness' hard-wired instruction/type lists still are /repo's enums"""
    ins, tys = enums()
    rc, out = vplib.run_lines([vplib.harness_bin("defer")], "#names\n", timeout=60)
    got = out[0].split("\t") if out else []
    if len(got) < 3 or got[1].split(" ") != ins or got[2].split(" ") != tys:
        v.tie_failure("defer harness: its instruction / type name tables differ from /repo's enums")
        return False
    return True
