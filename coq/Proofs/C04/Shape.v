(* Prop reading of the boolean checkers of Spec/TreeShape.v *)
From Coq Require Import List Arith Bool NArith Lia.
From GV Require Import Base.Result Gen.TokenTypes Gen.Defs Model.Parser Spec.TreeShape.
Import ListNotations.

Lemma forallb_i_spec {A} (f : nat -> A -> bool) (l : list A) : forall k,
  forallb_i f k l = true <-> (forall i x, nth_error l i = Some x -> f (k + i) x = true).
Proof.
  induction l as [|a r IH]; intros k; simpl.
  - split; [intros _ i x H; destruct i; discriminate|auto].
  - rewrite andb_true_iff, IH. split.
    + intros [Ha Hr] i x H. destruct i as [|i]; simpl in H.
      * injection H as <-. rewrite Nat.add_0_r. exact Ha.
      * replace (k + S i) with (S k + i) by lia. apply Hr, H.
    + intros H. split.
      * specialize (H 0 a eq_refl). rewrite Nat.add_0_r in H. exact H.
      * intros i x Hx. replace (S k + i) with (k + S i) by lia. apply H. exact Hx.
Qed.

Lemma opt_nat_eqb_eq a b : opt_nat_eqb a b = true <-> a = b.
Proof.
  destruct a, b; simpl; split; intros H; try discriminate; try reflexivity.
  - apply Nat.eqb_eq in H. congruence.
  - injection H as ->. apply Nat.eqb_refl.
Qed.

Lemma nodup_b_sound l : nodup_b l = true -> NoDup l.
Proof.
  induction l as [|x r IH]; simpl; intros H; [constructor|].
  apply andb_true_iff in H. destruct H as [Hx Hr]. constructor; [|apply IH, Hr].
  intros Hin. apply negb_true_iff in Hx.
  assert (existsb (Nat.eqb x) r = true); [|congruence].
  apply existsb_exists. exists x. split; [exact Hin|apply Nat.eqb_refl].
Qed.

(* child and parent links agree at a node *)
Definition links_agree_at (ns : list pnode) (i : nat) : Prop :=
  exists n, nth_error ns i = Some n /\
    (forall c, n_left n = Some c \/ n_right n = Some c ->
       exists cn, nth_error ns c = Some cn /\ n_parent cn = Some i) /\
    (forall a b, n_left n = Some a -> n_right n = Some b -> a <> b).

Lemma child_ok_sound ns i c k : child_ok ns i c = true -> c = Some k ->
  exists cn, nth_error ns k = Some cn /\ n_parent cn = Some i.
Proof.
  intros H ->. unfold child_ok in H. destruct (nth_error ns k) as [cn|]; [|discriminate].
  exists cn. split; [reflexivity|]. apply opt_nat_eqb_eq, H.
Qed.

Lemma node_links_ok_sound ns i : node_links_ok ns i = true -> links_agree_at ns i.
Proof.
  unfold node_links_ok. destruct (nth_error ns i) as [n|] eqn:E; [|discriminate].
  intros H. apply andb_true_iff in H. destruct H as [H HD].
  apply andb_true_iff in H. destruct H as [HL HR].
  exists n. split; [reflexivity || exact E|]. split.
  - intros c [Hc|Hc]; [exact (child_ok_sound ns i (n_left n) c HL Hc)|exact (child_ok_sound ns i (n_right n) c HR Hc)].
  - intros a b Ha Hb Hab. rewrite Ha, Hb in HD. apply negb_true_iff in HD.
    apply Nat.eqb_neq in HD. congruence.
Qed.

(* what [proper_tree_b] establishes: the root has no parent; the in-order walk from
   the root terminates, visits no node twice, child and parent links agree at every
   visited node, and every node it does not visit is a dropped separator *)
Theorem proper_tree_b_sound ns root : ns <> [] -> proper_tree_b ns root = true ->
  (exists rn, nth_error ns root = Some rn /\ n_parent rn = None) /\
  exists o, inorder ns root = Some o /\ NoDup o /\
            (forall i, In i o -> links_agree_at ns i) /\
            (forall i n, nth_error ns i = Some n -> In i o \/ is_separator_node n = true).
Proof.
  intros Hne H. unfold proper_tree_b in H. destruct ns as [|n0 r]; [congruence|].
  apply andb_true_iff in H. destruct H as [Hroot Hin].
  split.
  - destruct (nth_error (n0 :: r) root) as [rn|]; [|discriminate].
    exists rn. split; [reflexivity|]. destruct (n_parent rn); [discriminate|reflexivity].
  - destruct (inorder (n0 :: r) root) as [o|]; [|discriminate].
    apply andb_true_iff in Hin. destruct Hin as [Hin Hreach].
    apply andb_true_iff in Hin. destruct Hin as [Hnd Hlinks].
    exists o. split; [reflexivity|]. split; [apply nodup_b_sound, Hnd|]. split.
    + intros i Hi. rewrite forallb_forall in Hlinks. apply node_links_ok_sound, Hlinks, Hi.
    + intros i n Hn. rewrite forallb_i_spec in Hreach. specialize (Hreach i n Hn). simpl in Hreach.
      apply orb_true_iff in Hreach. destruct Hreach as [Hr|Hr]; [left|right; exact Hr].
      apply existsb_exists in Hr. destruct Hr as [x [Hx Hxe]]. apply Nat.eqb_eq in Hxe. subst x. exact Hx.
Qed.
