(* What C08 demands of one step, written against Spec.Defined (pinned by hand)
   and the observable part of a model outcome. *)
From Coq Require Import NArith List Bool Arith.
From GV Require Import Gen.Instr Gen.Exec Gen.Dispatch Model.OpDispatch Spec.Defined Proofs.C08.Enum.
Import ListNotations.

(* `x ~# T` casts to the type the right operand denotes when it is a Type value *)
Definition effective_right (i : instruction) (r : operand) : data_type :=
  if instruction_eqb i I_ApplyType && data_type_eqb (o_ty r) T_Type then o_sub r else o_ty r.

(* the case has the number of operands the operation takes *)
Definition well_shaped (i : instruction) (r : option operand) : bool :=
  match operands i, r with
  | Some 2, Some _ | Some 1, None => true
  | _, _ => false
  end.

(* ... and the language defines no result for their types *)
Definition undefined_case (i : instruction) (l : operand) (r : option operand) : bool :=
  well_shaped i r &&
  match r with
  | Some r => negb (defined i (o_ty l) (effective_right i r))
  | None => negb (defined i (o_ty l) T_Unit)
  end.

Definition defined_case (i : instruction) (l : operand) (r : option operand) : bool :=
  well_shaped i r &&
  match r with
  | Some r => defined i (o_ty l) (effective_right i r)
  | None => defined i (o_ty l) T_Unit
  end.

(* the one host call C08 demands: the operation, both operands in source order.
   A one-operand operation has no right operand; the runtime's convention for
   that slot is (Unit, 0) -- for `~~` (EmptyApply) the unit value it applies. *)
Definition expected_call (i : instruction) (l : operand) (r : option operand) : call :=
  match r with
  | Some r => {| c_op := i; c_lty := o_ty l; c_la := AtLeft; c_rty := effective_right i r; c_ra := AtRight |}
  | None => {| c_op := i; c_lty := o_ty l; c_la := AtLeft; c_rty := T_Unit;
               c_ra := if instruction_eqb i I_EmptyApply then AtUnit else AtZero |}
  end.

Definition operand_count (r : option operand) : nat := match r with Some _ => 2 | None => 1 end.

(* the whole observable outcome C08 demands:
   the step is Ok (and does not depend on a data-object lookup), exactly the one
   call, all operands consumed, no jump; declining / absent host: exactly one
   value, unit, pushed; accepting host: nothing pushed besides what the host
   pushed itself (its result is used unchanged) *)
Definition c08_expected (i : instruction) (l : operand) (r : option operand) (h : host_mode) : outcome :=
  {| res := ROk; data_dep := false; calls := [expected_call i l r];
     pops := operand_count r;
     pushes := match h with HAccept => 0 | _ => 1 end;
     top_is := match h with HAccept => TopHost | _ => TopUnit end;
     jumps := false; frames := 0 |}.

Definition c08_check (i : instruction) (l : operand) (r : option operand) (h : host_mode) : bool :=
  implb (undefined_case i l r) (outcome_eqb (step i l r h) (c08_expected i l r h)).

(* converse: a defined combination is never offered to the host (so [defined]
   is exactly the set of triples the code does not defer) *)
Definition never_defers_check (i : instruction) (l : operand) (r : option operand) (h : host_mode) : bool :=
  implb (defined_case i l r) (match calls (step i l r h) with [] => true | _ => false end).

(* no step lets the 'unsupported types' error code reach its caller *)
Definition escapes (c : rclass) : bool :=
  match c with RErrUnsupported | ROkOrUnsupported => true | _ => false end.
Definition absorbed_check (i : instruction) (l : operand) (r : option operand) (h : host_mode) : bool :=
  implb (well_shaped i r) (negb (escapes (res (step i l r h)))).

(* the model covers exactly the operations the spec lists, with that arity *)
Definition arity_check (i : instruction) : bool :=
  match arity i, operands i with
  | Some a, Some b => Nat.eqb a b
  | None, None => true
  | _, _ => false
  end.

(* the helpers' scrutinee is the parameter the hand-written lookups assume:
   get_access_addr(this, right, left) dispatches on `right`,
   access_with_integer(this, index, value) / access_with_symbol(this, sym, value) on `value` *)
Definition helper_params_check : bool :=
  match scrutinee_of F_get_access_addr, scrutinee_of F_access_with_integer, scrutinee_of F_access_with_symbol with
  | [SParam 1], [SParam 2], [SParam 2] => true
  | _, _, _ => false
  end.
