(* C06 on the operator fragment, unbounded: for every token list on which the
   reference precedence-climbing parser of C02 (Spec/Pratt.v) is defined --
   values, prefix / suffix / binary operators of every rank, conditionals and
   else-chains, && / ||, apply forms, comma and space lists, round brackets to
   any depth, whitespace -- the tree the parser produces keeps the arity
   discipline of Proofs/C06/Balanced.v unless it is in class C06-K1, K3 or K4.
   (K2 -- an operand position without a value -- and C05-K2 -- a conditional as
   the left operand of && / || -- cannot occur in the fragment.)
   By induction on the index-carrying tree of C02, through Proofs/Builder/PrattBridge.v. *)
From Coq Require Import List Arith Bool NArith Lia.
From GV Require Import Base.Result Gen.TokenTypes Gen.Defs Gen.Instr Model.Parser Model.BuilderWL Model.Compile
  Spec.RefTable Spec.Pratt Spec.Chains Proofs.C02.Denote Proofs.C02.Full
  Proofs.C05.InlBase Proofs.C05.Known Proofs.C06.Known Proofs.C06.Balanced Proofs.C06.Static
  Proofs.Builder.TreeAt Proofs.Builder.DrainSim Proofs.Builder.PrattBridge.
Import ListNotations.

(* ---- the definitions the reference parser puts at each position ---- *)
Definition atom_ok (d : definition) : bool :=
  match kind_of d with Compile.KValue i _ => negb (instruction_eqb i I_EndExpression) | _ => false end.
Definition pre_ok (d : definition) : bool :=
  match kind_of d with KUnary _ true | KReapply | KFixApply true => true | _ => false end.
Definition suf_ok (d : definition) : bool :=
  match kind_of d with KUnary _ false | KFixApply false => true | _ => false end.
Definition bin_ok (d : definition) : bool :=
  match kind_of d with Compile.KBinary _ _ | KList | KLogical _ | KJumpIf _ | KElse | KSubexpr | KInfix => true | _ => false end.

Fixpoint rshape (t : rtree) : bool :=
  match t with
  | RAtom d _ => atom_ok d
  | RPre d _ a => pre_ok d && rshape a
  | RSuf d _ a => suf_ok d && rshape a
  | RBin d _ l r => bin_ok d && rshape l && rshape r
  | RGroup _ _ a => rshape a      (* ( a ) and { a } *)
  end.

Definition item_ok (it : item) : bool :=
  match it with
  | IValue d _ => atom_ok d | IPrefix d _ => pre_ok d | ISuffix d _ => suf_ok d | IBinary d _ => bin_ok d
  | _ => true
  end.

Lemma ref_def_ok : forall t,
  match ref_kind t with
  | KValue => atom_ok (ref_def t) | KPrefix => pre_ok (ref_def t) | KSuffix => suf_ok (ref_def t)
  | KBinary => bin_ok (ref_def t) | _ => true
  end = true.
Proof. intros t. destruct t; reflexivity. Qed.

Lemma items_of_ok : forall toks i prev sp its,
  items_of toks i prev sp = Some its -> forallb item_ok its = true.
Proof.
  induction toks as [|t r IH]; intros i prev sp its H; cbn [items_of] in H; [injection H as <-; reflexivity|].
  pose proof (ref_def_ok t) as Hd.
  destruct (ref_kind t) eqn:Hk; try discriminate H; try (eapply IH; exact H).
  all: destruct (items_of r (S i) _ false) as [rest|] eqn:Hr; [|discriminate H]; injection H as <-;
       rewrite forallb_app; cbn [forallb item_ok]; rewrite (IH _ _ _ _ Hr);
       rewrite ?Hd, ?andb_true_r;
       destruct prev as [p|]; try reflexivity;
       destruct (sp && ends_value_k p && _); reflexivity.
Qed.

Lemma climb_shape : forall f q acc its t rest,
  forallb item_ok its = true -> match acc with Some a => rshape a = true | None => True end ->
  climb f q acc its = Some (t, rest) -> rshape t = true /\ forallb item_ok rest = true.
Proof.
  induction f as [|f IH]; intros q acc its t rest Hits Hacc H; [discriminate|].
  cbn [climb] in H. destruct acc as [lhs|].
  - destruct its as [|[d i|d i|d i|d i|b i|b i] r]; try (injection H as <- <-; auto).
    + cbn [forallb item_ok] in Hits. apply andb_true_iff in Hits. destruct Hits as [Hd Hr].
      destruct (inside d q); [|injection H as <- <-; split; [exact Hacc | cbn; rewrite Hd, Hr; reflexivity]].
      eapply IH; [exact Hr | | exact H]. cbn. rewrite Hd, Hacc. reflexivity.
    + cbn [forallb item_ok] in Hits. apply andb_true_iff in Hits. destruct Hits as [Hd Hr].
      destruct (inside d q); [|injection H as <- <-; split; [exact Hacc | cbn; rewrite Hd, Hr; reflexivity]].
      destruct (ref_rank d) as [p|]; [|discriminate].
      destruct (climb f p None r) as [[rhs r']|] eqn:E; [|discriminate].
      destruct (IH p None r rhs r' Hr I E) as [A B].
      eapply IH; [exact B | | exact H]. cbn. rewrite Hd, Hacc, A. reflexivity.
  - destruct its as [|[d i|d i|d i|d i|b i|b i] r]; try discriminate.
    + cbn [forallb item_ok] in Hits. apply andb_true_iff in Hits. destruct Hits as [Hd Hr].
      eapply IH; [exact Hr | | exact H]. exact Hd.
    + cbn [forallb item_ok] in Hits. apply andb_true_iff in Hits. destruct Hits as [Hd Hr].
      destruct (ref_rank d) as [p|]; [|discriminate].
      destruct (climb f p None r) as [[arg r']|] eqn:E; [|discriminate].
      destruct (IH p None r arg r' Hr I E) as [A B].
      eapply IH; [exact B | | exact H]. cbn. rewrite Hd, A. reflexivity.
    + cbn [forallb item_ok] in Hits.
      destruct (climb f (blimit b) None r) as [[inner [|[d0 i0|d0 i0|d0 i0|d0 i0|b0 i0|b0 i0] r']]|] eqn:E; try discriminate.
      destruct (bkind_eqb b b0); [|discriminate].
      destruct (IH (blimit b) None r inner _ Hits I E) as [A B]. cbn [forallb item_ok] in B.
      eapply IH; [exact B | | exact H]. exact A.
Qed.

Lemma pratt_shape : forall toks R, pratt toks = Some R -> rshape R = true.
Proof.
  intros toks R H. unfold pratt in H. destruct (items_of toks 0 None false) as [its|] eqn:Hi; [|discriminate].
  destruct (climb (4 * length its + 8) INF None its) as [[t [|c rc]]|] eqn:Hc; try discriminate. injection H as <-.
  exact (proj1 (climb_shape _ INF None its t [] (items_of_ok _ _ _ _ _ Hi) I Hc)).
Qed.

Lemma rshape_shift : forall a t, rshape (shift_rtree a t) = rshape t.
Proof. intros a. induction t; cbn; rewrite ?IHt, ?IHt1, ?IHt2; reflexivity. Qed.

(* ---- chains ---- *)
Definition chain_good (es : list tree) : bool :=
  match rev es with e :: before => negb (is_cond e) && forallb is_cond before | [] => false end.

Lemma atom_ok_norm : forall d, atom_ok (norm_atom d) = true -> atom_ok d = true.
Proof. intros d H. destruct d; try exact H; reflexivity. Qed.

Lemma chain_elems_img_ne : forall t, rshape (erase t) = true -> chain_elems (img t) <> [].
Proof.
  induction t as [i d k|i d k a IH|i d k a IH|i d k l IHl r IHr|b i k a IH]; intros Hs; cbn [erase rshape img chain_elems] in *.
  - apply atom_ok_norm in Hs. unfold atom_ok in Hs. destruct (kind_of d); try discriminate Hs. discriminate.
  - apply andb_true_iff in Hs. destruct Hs as [Hd _]. unfold pre_ok in Hd. destruct (kind_of d); try discriminate Hd; discriminate.
  - apply andb_true_iff in Hs. destruct Hs as [Hd _]. unfold suf_ok in Hd. destruct (kind_of d); try discriminate Hd; discriminate.
  - apply andb_true_iff in Hs. destruct Hs as [Hs Hr]. apply andb_true_iff in Hs. destruct Hs as [_ Hl].
    destruct (kind_of d); try discriminate. intros E. apply app_eq_nil in E. destruct E as [E _]. exact (IHl Hl E).
  - destruct b; discriminate.
Qed.

Lemma forallb_rev : forall A (f : A -> bool) l, forallb f (rev l) = forallb f l.
Proof.
  intros A f l. induction l as [|x l IH]; [reflexivity|]. cbn [rev forallb]. rewrite forallb_app, IH. cbn. rewrite andb_true_r. apply andb_comm.
Qed.

Lemma chain_good_app : forall es1 es2, es2 <> [] -> chain_good (es1 ++ es2) = true ->
  forallb is_cond es1 = true /\ chain_good es2 = true.
Proof.
  intros es1 es2 Hne H. unfold chain_good in *. rewrite rev_app_distr in H.
  destruct (rev es2) as [|e b] eqn:E.
  - exfalso. apply Hne. rewrite <- (rev_involutive es2), E. reflexivity.
  - cbn [app] in H. apply andb_true_iff in H. destruct H as [H1 H2]. rewrite forallb_app in H2.
    apply andb_true_iff in H2. destruct H2 as [H2 H3]. rewrite forallb_rev in H3. rewrite H1, H2. auto.
Qed.

Lemma at_heads_inv : forall f u i d l r, at_heads f u (T i d l r) = false ->
  (u = false -> f (T i d l r) = false) /\
  opt_b (at_heads f (match kind_of d with KElse => true | _ => false end)) l = false /\
  opt_b (at_heads f (match kind_of d with KElse => true | _ => false end)) r = false.
Proof.
  intros f u i d l r H. cbn [at_heads] in H. cbv zeta in H.
  apply orb_false_iff in H. destruct H as [H Hr]. apply orb_false_iff in H. destruct H as [H Hl].
  split; [intros ->; exact H | auto].
Qed.

Lemma count_other : forall d' i d l r, kind_of d' = KList -> kind_of d <> KList -> count_items d' (T i d l r) = 1.
Proof. intros d' i d l r H1 H2. cbn [count_items]. rewrite (deq_kind_false d d' H2 H1). reflexivity. Qed.

(* ---- the arity discipline on the image of an operator expression ---- *)
Definition concl (lst : option definition) (cond tail : bool) (t : tree) : Prop :=
  if cond then
    (forallb is_cond (chain_elems t) = true -> bal lst true tail t = Some 0) /\
    (chain_good (chain_elems t) = true -> bal lst true tail t = Some 1)
  else bal lst false tail t = Some (match lst with Some d' => count_items d' t | None => 1 end).

Definition lst_ok (lst : option definition) : Prop := match lst with Some d' => kind_of d' = KList | None => True end.

Lemma concl_plain : forall lst cond tail t,
  lst_ok lst -> is_cond t = false -> chain_elems t = [t] ->
  (forall c, bal lst c tail t = Some 1) ->
  (forall d', lst = Some d' -> count_items d' t = 1) -> concl lst cond tail t.
Proof.
  intros lst cond tail t Hl Hc He Hb Hcnt. unfold concl. destruct cond.
  - rewrite He. cbn [forallb]. rewrite Hc. split; [discriminate | intros _; apply Hb].
  - rewrite Hb. destruct lst as [d'|]; [rewrite (Hcnt d' eq_refl)|]; reflexivity.
Qed.

Lemma existsb_negb_false : forall A (f : A -> bool) l, existsb (fun e => negb (f e)) l = false -> forallb f l = true.
Proof.
  intros A f l. induction l as [|x l IH]; intros H; [reflexivity|]. cbn in *.
  apply orb_false_iff in H. destruct H as [H1 H2]. apply negb_false_iff in H1. rewrite H1, (IH H2). reflexivity.
Qed.

(* the head of a chain outside K1 / K4: conditionals, then one final else *)
Lemma head_good : forall t, chain_elems t <> [] -> kind_of (t_def t) = KElse ->
  chain_no_else_node t = false -> chain_early_else_node t = false -> chain_good (chain_elems t) = true.
Proof.
  intros t Hne Hk H1 H2. unfold chain_no_else_node, chain_early_else_node, chain_good in *. rewrite Hk in H1, H2.
  destruct (rev (chain_elems t)) as [|e b] eqn:E.
  - exfalso. apply Hne. rewrite <- (rev_involutive (chain_elems t)), E. reflexivity.
  - rewrite H1. cbn [negb andb]. apply existsb_negb_false. exact H2.
Qed.

(* a list item: a nested list of the same definition contributes its items, anything else one *)
Lemma item_val : forall d a,
  bal (Some d) false false a = Some (count_items d a) ->
  (if definition_eqb (t_def a) d then bal (Some d) false false a
   else if is_some_n (bal (Some d) false false a) 1 then Some 1 else None) = Some (count_items d a).
Proof.
  intros d a H. destruct (definition_eqb (t_def a) d) eqn:E; [exact H|].
  assert (Hc : count_items d a = 1) by (destruct a as [i0 d0 l0 r0]; cbn [count_items t_def] in *; rewrite E; reflexivity).
  rewrite H, Hc. reflexivity.
Qed.

Definition P_bal (t : ntree) : Prop :=
  rshape (erase t) = true -> forall lst cond tail,
    lst_ok lst -> (cond = true -> lst = None) ->
    at_heads chain_no_else_node cond (img t) = false ->
    at_heads chain_early_else_node cond (img t) = false ->
    reapply_pending tail (img t) = false -> drops_arms (img t) = false ->
    concl lst cond tail (img t).

(* what the induction hypothesis gives for a child in a plain position *)
Lemma child_plain : forall a tail, P_bal a -> rshape (erase a) = true ->
  opt_b (at_heads chain_no_else_node false) (Some (img a)) = false ->
  opt_b (at_heads chain_early_else_node false) (Some (img a)) = false ->
  reapply_pending tail (img a) = false -> drops_arms (img a) = false ->
  is_some_n (bal None false tail (img a)) 1 = true.
Proof.
  intros a tail IH Hs H1 H2 H3 H4. specialize (IH Hs None false tail I (fun E => ltac:(discriminate E)) H1 H2 H3 H4).
  unfold concl in IH. rewrite IH. reflexivity.
Qed.

Theorem bal_img : forall t, P_bal t.
Proof.
  induction t as [i d k|i d k a IH|i d k a IH|i d k l IHl r IHr|b i k a IH];
    intros Hs lst cond tail Hlst Hcl Hn Hearly Hre Hda; cbn [erase rshape img] in *.
  - (* a value *)
    apply atom_ok_norm in Hs. unfold atom_ok in Hs. destruct (kind_of d) eqn:Hk; try discriminate Hs.
    apply concl_plain; auto.
    + unfold is_cond. cbn [t_def]. rewrite Hk. reflexivity.
    + cbn [chain_elems]. rewrite Hk. reflexivity.
    + intros c. cbn [bal]. rewrite Hk. apply negb_true_iff in Hs. rewrite Hs. reflexivity.
    + intros d' ->. apply count_other; [exact Hlst | rewrite Hk; discriminate].
  - (* a prefix operator *)
    apply andb_true_iff in Hs. destruct Hs as [Hd Hsa].
    destruct (at_heads_inv _ _ _ _ _ _ Hn) as [_ [_ Hn']]. destruct (at_heads_inv _ _ _ _ _ _ Hearly) as [_ [_ He']].
    cbn [reapply_pending drops_arms opt_b] in Hre, Hda.
    unfold pre_ok in Hd. destruct (kind_of d) eqn:Hk; try discriminate Hd.
    all: try match type of Hk with _ = KUnary _ ?c => destruct c; [|discriminate Hd] end.
    all: try match type of Hk with _ = KFixApply ?c => destruct c; [|discriminate Hd] end.
    all: cbn [orb] in Hre, Hda; rewrite ?orb_false_r in Hre.
    all: try (apply orb_false_iff in Hre; destruct Hre as [Htl Hre]; apply negb_false_iff in Htl; subst tail).
    all: apply concl_plain; auto;
      [ unfold is_cond; cbn [t_def]; rewrite Hk; reflexivity
      | cbn [chain_elems]; rewrite Hk; reflexivity
      | intros c; cbn [bal]; rewrite Hk; cbn [andb];
        rewrite (child_plain a false IH Hsa Hn' He' Hre Hda); reflexivity
      | intros d' ->; apply count_other; [exact Hlst | rewrite Hk; discriminate] ].
  - (* a suffix operator *)
    apply andb_true_iff in Hs. destruct Hs as [Hd Hsa].
    destruct (at_heads_inv _ _ _ _ _ _ Hn) as [_ [Hn' _]]. destruct (at_heads_inv _ _ _ _ _ _ Hearly) as [_ [He' _]].
    cbn [reapply_pending drops_arms opt_b] in Hre, Hda.
    unfold suf_ok in Hd. destruct (kind_of d) eqn:Hk; try discriminate Hd.
    all: try match type of Hk with _ = KUnary _ ?c => destruct c; [discriminate Hd|] end.
    all: try match type of Hk with _ = KFixApply ?c => destruct c; [discriminate Hd|] end.
    all: cbn [orb] in Hre, Hda; rewrite ?orb_false_r in Hre, Hda.
    all: apply concl_plain; auto;
      [ unfold is_cond; cbn [t_def]; rewrite Hk; reflexivity
      | cbn [chain_elems]; rewrite Hk; reflexivity
      | intros c; cbn [bal]; rewrite Hk; cbn [andb];
        rewrite (child_plain a false IH Hsa Hn' He' Hre Hda); reflexivity
      | intros d' ->; apply count_other; [exact Hlst | rewrite Hk; discriminate] ].
  - (* a binary operator *)
    apply andb_true_iff in Hs. destruct Hs as [Hs Hsr]. apply andb_true_iff in Hs. destruct Hs as [Hd Hsl].
    destruct (at_heads_inv _ _ _ _ _ _ Hn) as [Hn0 [Hnl Hnr]]. destruct (at_heads_inv _ _ _ _ _ _ Hearly) as [He0 [Hel Her]].
    cbn [reapply_pending drops_arms opt_b] in Hre, Hda.
    unfold bin_ok in Hd. destruct (kind_of d) eqn:Hk; try discriminate Hd.
    all: cbn [orb] in Hda.
    all: apply orb_false_iff in Hre; destruct Hre as [Hrl Hrr].
    all: apply orb_false_iff in Hda; destruct Hda as [Hdl Hdr]; try (apply orb_false_iff in Hdl; destruct Hdl as [Hreg Hdl]).
    + (* plain binary *)
      apply concl_plain; auto;
        [ unfold is_cond; cbn [t_def]; rewrite Hk; reflexivity
        | cbn [chain_elems]; rewrite Hk; reflexivity
        | intros c; cbn [bal]; rewrite Hk;
          rewrite (child_plain l false IHl Hsl Hnl Hel Hrl Hdl), (child_plain r false IHr Hsr Hnr Her Hrr Hdr); reflexivity
        | intros d' ->; apply count_other; [exact Hlst | rewrite Hk; discriminate] ].
    + (* a list: the children are items of this list *)
      assert (Hl' : bal (Some d) false false (img l) = Some (count_items d (img l))).
      { exact (IHl Hsl (Some d) false false Hk (fun E => ltac:(discriminate E)) Hnl Hel Hrl Hdl). }
      assert (Hr' : bal (Some d) false false (img r) = Some (count_items d (img r))).
      { exact (IHr Hsr (Some d) false false Hk (fun E => ltac:(discriminate E)) Hnr Her Hrr Hdr). }
      assert (Hb : forall c, bal lst c tail (T i d (Some (img l)) (Some (img r))) =
                            if (match lst with Some d' => definition_eqb d' d | None => false end)
                            then Some (count_items d (img l) + count_items d (img r)) else Some 1).
      { intros c. cbn [bal]. rewrite Hk. rewrite (item_val d (img l) Hl'), (item_val d (img r) Hr').
        cbn [list_count]. rewrite Nat.eqb_refl. reflexivity. }
      unfold concl. destruct cond.
      * rewrite (Hcl eq_refl) in *. cbn [chain_elems]. rewrite Hk. rewrite Hb. cbn [forallb is_cond t_def]. unfold is_cond. cbn [t_def]. rewrite Hk.
        split; [discriminate | intros _; reflexivity].
      * rewrite Hb. destruct lst as [d'|]; [|reflexivity]. cbn [count_items].
        destruct (definition_eqb d' d) eqn:E.
        -- apply definition_eqb_eq in E. subst d'. rewrite definition_eqb_refl. reflexivity.
        -- rewrite definition_eqb_sym, E. reflexivity.
    + (* && / || *)
      apply concl_plain; auto;
        [ unfold is_cond; cbn [t_def]; rewrite Hk; reflexivity
        | cbn [chain_elems]; rewrite Hk; reflexivity
        | intros c; cbn [bal]; rewrite Hk; cbn [opt_b]; rewrite Hreg;
          rewrite (child_plain l false IHl Hsl Hnl Hel Hrl Hdl), (child_plain r tail IHr Hsr Hnr Her Hrr Hdr); reflexivity
        | intros d' ->; apply count_other; [exact Hlst | rewrite Hk; discriminate] ].
    + (* a conditional: nothing left under an else-chain, one operand otherwise *)
      assert (Hb : forall c, bal lst c tail (T i d (Some (img l)) (Some (img r))) = if c then Some 0 else Some 1).
      { intros c. cbn [bal]. rewrite Hk.
        rewrite (child_plain l false IHl Hsl Hnl Hel Hrl Hdl), (child_plain r tail IHr Hsr Hnr Her Hrr Hdr). reflexivity. }
      unfold concl. destruct cond.
      * cbn [chain_elems]. rewrite Hk, Hb. unfold chain_good. cbn [rev app forallb]. unfold is_cond. cbn [t_def]. rewrite Hk.
        split; [intros _; reflexivity | discriminate].
      * rewrite Hb. destruct lst as [d'|]; [rewrite count_other; [reflexivity | exact Hlst | rewrite Hk; discriminate] | reflexivity].
    + (* an else-chain: conditionals, then the final else *)
      pose proof (IHl Hsl None true tail I (fun _ => eq_refl) Hnl Hel Hrl Hdl) as [Al0 Al1].
      pose proof (IHr Hsr None true tail I (fun _ => eq_refl) Hnr Her Hrr Hdr) as [Ar0 Ar1].
      pose proof (chain_elems_img_ne r Hsr) as Hner.
      assert (Hel' : chain_elems (T i d (Some (img l)) (Some (img r))) = chain_elems (img l) ++ chain_elems (img r))
        by (cbn [chain_elems]; rewrite Hk; reflexivity).
      assert (Hgood : forall c, chain_good (chain_elems (img l) ++ chain_elems (img r)) = true ->
                bal lst c tail (T i d (Some (img l)) (Some (img r))) = Some 1).
      { intros c Hg. destruct (chain_good_app _ _ Hner Hg) as [G1 G2].
        cbn [bal]. rewrite Hk. rewrite (Al0 G1), (Ar1 G2). cbn [is_some_n Nat.eqb]. destruct c; reflexivity. }
      unfold concl. destruct cond.
      * rewrite Hel'. split.
        -- intros Hall. rewrite forallb_app in Hall. apply andb_true_iff in Hall. destruct Hall as [G1 G2].
           cbn [bal]. rewrite Hk. rewrite (Al0 G1), (Ar0 G2). reflexivity.
        -- apply Hgood.
      * rewrite Hgood.
        -- destruct lst as [d'|]; [rewrite count_other; [reflexivity | exact Hlst | rewrite Hk; discriminate] | reflexivity].
        -- rewrite <- Hel'. apply head_good; [rewrite Hel'; intros E; apply app_eq_nil in E; destruct E as [_ E]; exact (Hner E)
                                            | cbn [t_def]; exact Hk | apply Hn0; reflexivity | apply He0; reflexivity ].
    + (* a sequence `a ; b`: the left value is dropped (UpdateValue), the right one is the result;
         both sides start with nothing pending when the sequence does *)
      apply concl_plain; auto;
        [ unfold is_cond; cbn [t_def]; rewrite Hk; reflexivity
        | cbn [chain_elems]; rewrite Hk; reflexivity
        | intros c; cbn [bal]; rewrite Hk;
          rewrite (child_plain l tail IHl Hsl Hnl Hel Hrl Hdl), (child_plain r tail IHr Hsr Hnr Her Hrr Hdr); reflexivity
        | intros d' ->; apply count_other; [exact Hlst | rewrite Hk; discriminate] ].
    + (* infix apply *)
      apply concl_plain; auto;
        [ unfold is_cond; cbn [t_def]; rewrite Hk; reflexivity
        | cbn [chain_elems]; rewrite Hk; reflexivity
        | intros c; cbn [bal]; rewrite Hk;
          rewrite (child_plain l false IHl Hsl Hnl Hel Hrl Hdl), (child_plain r false IHr Hsr Hnr Her Hrr Hdr); reflexivity
        | intros d' ->; apply count_other; [exact Hlst | rewrite Hk; discriminate] ].
  - (* a group ( a ), or a nested expression { a }: an out-of-line body that starts with nothing pending *)
    destruct (at_heads_inv _ _ _ _ _ _ Hn) as [_ [_ Hn']]. destruct (at_heads_inv _ _ _ _ _ _ Hearly) as [_ [_ He']].
    destruct b; cbn [bdef] in *; cbn [reapply_pending drops_arms opt_b kind_of orb] in Hre, Hda, Hn', He'.
    + apply concl_plain; auto.
      * intros c. cbn [bal kind_of].
        pose proof (child_plain a tail IH Hs Hn' He' Hre Hda) as Hc. apply is_some_n_eq in Hc. exact Hc.
      * intros d' ->. apply count_other; [exact Hlst | discriminate].
    + apply concl_plain; auto.
      * intros c. cbn [bal kind_of]. rewrite (child_plain a true IH Hs Hn' He' Hre Hda). reflexivity.
      * intros d' ->. apply count_other; [exact Hlst | discriminate].
Qed.

(* ---- && / || never has a conditional as its left operand (C05-K2 is outside the fragment) ---- *)
Definition rootrank (t : rtree) : option N := match t with RBin d _ _ _ => ref_rank d | _ => None end.

Fixpoint leftok (t : rtree) : bool :=
  match t with
  | RAtom _ _ => true
  | RPre _ _ a | RSuf _ _ a | RGroup _ _ a => leftok a
  | RBin d _ l r =>
    (match rootrank l with
     | Some p => match ref_rank d with Some pd => N.leb p pd | None => false end
     | None => true
     end) && leftok l && leftok r
  end.

Definition stops (q : N) (its : list item) : Prop :=
  match its with
  | IBinary d _ :: _ | ISuffix d _ :: _ => inside d q = false
  | _ => True
  end.

Lemma climb_stops : forall f q acc its t rest, climb f q acc its = Some (t, rest) -> stops q rest.
Proof.
  induction f as [|f IH]; intros q acc its t rest H; [discriminate|].
  cbn [climb] in H. destruct acc as [lhs|].
  - destruct its as [|[d i|d i|d i|d i|b i|b i] r]; try (injection H as <- <-; exact I).
    + destruct (inside d q) eqn:E; [eapply IH; exact H | injection H as <- <-; exact E].
    + destruct (inside d q) eqn:E; [|injection H as <- <-; exact E].
      destruct (ref_rank d) as [p|]; [|discriminate].
      destruct (climb f p None r) as [[rhs r']|]; [|discriminate]. eapply IH; exact H.
  - destruct its as [|[d i|d i|d i|d i|b i|b i] r]; try discriminate.
    + eapply IH; exact H.
    + destruct (ref_rank d) as [p|]; [|discriminate].
      destruct (climb f p None r) as [[arg r']|]; [|discriminate]. eapply IH; exact H.
    + destruct (climb f (blimit b) None r) as [[inner [|[d0 i0|d0 i0|d0 i0|d0 i0|b0 i0|b0 i0] r']]|]; try discriminate.
      destruct (bkind_eqb b b0); [|discriminate]. eapply IH; exact H.
Qed.

(* the operator that may extend [lhs] under limit [q] binds no tighter than the root of [lhs] *)
Definition lbound (lhs : rtree) (q : N) (its : list item) : Prop :=
  match rootrank lhs with
  | Some p =>
    match its with
    | IBinary d _ :: _ => inside d q = true -> exists pd, ref_rank d = Some pd /\ N.le p pd
    | _ => True
    end
  | None => True
  end.

Lemma not_inside_ge : forall d p q, inside d q = true -> inside d p = false ->
  exists pd, ref_rank d = Some pd /\ N.le p pd.
Proof.
  intros d p q H1 H2. unfold inside in *. destruct (ref_rank d) as [pd|]; [|discriminate].
  exists pd. split; [reflexivity|]. apply orb_false_iff in H2. destruct H2 as [A _]. apply N.ltb_ge in A. exact A.
Qed.

Lemma climb_leftok : forall f q acc its t rest,
  climb f q acc its = Some (t, rest) ->
  match acc with Some lhs => leftok lhs = true /\ lbound lhs q its | None => True end ->
  leftok t = true.
Proof.
  induction f as [|f IH]; intros q acc its t rest H Hacc; [discriminate|].
  cbn [climb] in H. destruct acc as [lhs|].
  - destruct Hacc as [Hl Hb].
    destruct its as [|[d i|d i|d i|d i|b i|b i] r]; try (injection H as <- <-; exact Hl).
    + (* suffix *)
      destruct (inside d q) eqn:E; [|injection H as <- <-; exact Hl].
      eapply IH; [exact H|]. split; [exact Hl | exact I].
    + (* binary *)
      destruct (inside d q) eqn:E; [|injection H as <- <-; exact Hl].
      destruct (ref_rank d) as [p|] eqn:Hp; [|discriminate].
      destruct (climb f p None r) as [[rhs r']|] eqn:Er; [|discriminate].
      pose proof (IH _ _ _ _ _ Er I) as Hrhs. pose proof (climb_stops _ _ _ _ _ _ Er) as Hst.
      eapply IH; [exact H|]. split.
      * cbn [leftok]. rewrite Hl, Hrhs, Hp, !andb_true_r.
        unfold lbound in Hb. destruct (rootrank lhs) as [pl|]; [|reflexivity].
        destruct (Hb E) as [pd [Hpd Hle]]. rewrite Hp in Hpd. injection Hpd as <-. apply N.leb_le. exact Hle.
      * unfold lbound. cbn [rootrank]. rewrite Hp.
        destruct r' as [|[d' i'|d' i'|d' i'|d' i'|b' i'|b' i'] r'']; try exact I.
        intros E'. cbn [stops] in Hst. exact (not_inside_ge d' p q E' Hst).
  - destruct its as [|[d i|d i|d i|d i|b i|b i] r]; try discriminate.
    + eapply IH; [exact H|]. split; [reflexivity | exact I].
    + destruct (ref_rank d) as [p|]; [|discriminate].
      destruct (climb f p None r) as [[arg r']|] eqn:Er; [|discriminate].
      pose proof (IH _ _ _ _ _ Er I) as Harg.
      eapply IH; [exact H|]. split; [exact Harg | exact I].
    + destruct (climb f (blimit b) None r) as [[inner [|[d0 i0|d0 i0|d0 i0|d0 i0|b0 i0|b0 i0] r']]|] eqn:Er; try discriminate.
      destruct (bkind_eqb b b0); [|discriminate].
      pose proof (IH _ _ _ _ _ Er I) as Hin.
      eapply IH; [exact H|]. split; [exact Hin | exact I].
Qed.

Lemma pratt_leftok : forall toks R, pratt toks = Some R -> leftok R = true.
Proof.
  intros toks R H. unfold pratt in H. destruct (items_of toks 0 None false) as [its|]; [|discriminate].
  destruct (climb (4 * length its + 8) INF None its) as [[t [|c rc]]|] eqn:Hc; try discriminate. injection H as <-.
  exact (climb_leftok _ INF None its t [] Hc I).
Qed.

Lemma leftok_shift : forall a t, leftok (shift_rtree a t) = leftok t.
Proof.
  intros a. induction t as [d k|d k x IH|d k x IH|d k l IHl r IHr|b k x IH]; cbn [shift_rtree leftok]; auto.
  rewrite IHl, IHr. destruct l; reflexivity.
Qed.

Lemma logical_rank : forall d i, kind_of d = KLogical i -> ref_rank d = Some 410%N \/ ref_rank d = Some 430%N.
Proof. intros d i H. destruct d; cbn in H; try discriminate H; auto. Qed.

Lemma registers_root_rank : forall t, rshape (erase t) = true -> registers (img t) = true ->
  exists p, rootrank (erase t) = Some p /\ (p = 700%N \/ p = 800%N).
Proof.
  intros t Hs H. destruct t as [i d k|i d k a|i d k a|i d k l r|b i k a]; cbn [img registers erase rshape rootrank] in *.
  - apply atom_ok_norm in Hs. unfold atom_ok in Hs. destruct (kind_of d); discriminate.
  - apply andb_true_iff in Hs. destruct Hs as [Hd _]. unfold pre_ok in Hd. destruct (kind_of d); discriminate.
  - apply andb_true_iff in Hs. destruct Hs as [Hd _]. unfold suf_ok in Hd. destruct (kind_of d); discriminate.
  - destruct d; cbn in H; try discriminate H; eexists; split; try reflexivity; auto.
  - destruct b; discriminate.
Qed.

Lemma leftok_drops : forall t, rshape (erase t) = true -> leftok (erase t) = true -> drops_arms (img t) = false.
Proof.
  induction t as [i d k|i d k a IH|i d k a IH|i d k l IHl r IHr|b i k a IH]; intros Hs Hl; cbn [erase rshape leftok img drops_arms opt_b] in *.
  - apply atom_ok_norm in Hs. unfold atom_ok in Hs. destruct (kind_of d); try discriminate Hs. reflexivity.
  - apply andb_true_iff in Hs. destruct Hs as [Hd Hsa]. rewrite (IH Hsa Hl).
    unfold pre_ok in Hd. destruct (kind_of d); try discriminate Hd; reflexivity.
  - apply andb_true_iff in Hs. destruct Hs as [Hd Hsa]. rewrite (IH Hsa Hl).
    unfold suf_ok in Hd. destruct (kind_of d); try discriminate Hd; reflexivity.
  - apply andb_true_iff in Hs. destruct Hs as [Hs Hsr]. apply andb_true_iff in Hs. destruct Hs as [Hd Hsl].
    apply andb_true_iff in Hl. destruct Hl as [Hl Hlr]. apply andb_true_iff in Hl. destruct Hl as [Hroot Hll].
    rewrite (IHl Hsl Hll), (IHr Hsr Hlr), !orb_false_r.
    destruct (kind_of d) eqn:Hk; try reflexivity.
    destruct (registers (img l)) eqn:Hreg; [|reflexivity]. exfalso.
    destruct (registers_root_rank l Hsl Hreg) as [p [Hp Hv]]. rewrite Hp in Hroot.
    destruct (logical_rank d i0 Hk) as [E|E]; rewrite E in Hroot; apply N.leb_le in Hroot; destruct Hv; subst p; discriminate Hroot || (cbv in Hroot; congruence).
  - destruct b; cbn [bdef kind_of]; exact (IH Hs Hl).
Qed.

(* ---- the theorem ---- *)
Theorem operator_expression_balanced : forall toks R, pratt toks = Some R ->
  exists root nodes t,
    parse toks = Ok (root, nodes) /\ Compile.tree_of nodes root = Some t /\
    drops_arms t = false /\
    (has_chain_no_else t = false -> has_chain_early_else t = false -> has_reapply_pending t = false ->
     balanced t = true).
Proof.
  intros toks R H. destruct (pratt_tree_of toks R H) as (Tn & ns & Hp & Ht & _ & _ & E).
  pose proof (pratt_shape toks R H) as Hs. pose proof (pratt_leftok toks R H) as Hl.
  rewrite E, rshape_shift in Hs. rewrite E, leftok_shift in Hl.
  pose proof (leftok_drops Tn Hs Hl) as Hd.
  exists (nid Tn), ns, (img Tn). split; [exact Hp|]. split; [exact Ht|]. split; [exact Hd|].
  intros H1 H4 H3. unfold balanced.
  pose proof (bal_img Tn Hs None false true I (fun E0 => ltac:(discriminate E0)) H1 H4 H3 Hd) as Hb.
  unfold concl in Hb. rewrite Hb. reflexivity.
Qed.
