(* C16, the concatenation clause under weaker laws of the register stack.

   Proofs/C16/Concat.v proves the traversal theorems for every data
   implementation satisfying [RegLaws]: push/pop leave every value getter
   unchanged at every address.  The BasicGarnishData model cannot satisfy
   that: its registers are cells pushed into the data block, so a push
   changes what the getters answer at the address of the new cell (and may
   move the whole heap).  Here the same theorems are proved from

     [keeps s s']   every getter that answered [Ok r] in s answers [Ok r] in s'
                    (nothing is said about reads that failed in s);
     [RegLawsInv]   a state invariant [il_inv] that push and pop re-establish,
                    a register stack of abstract slots [il_stack] (a slot carries
                    the value [il_val]; Basic's slots also carry the cell index,
                    so that "stack restored" pins the chain head), push/pop are a
                    stack on it, and [il_frame s s'] implies [keeps s s'].

   [of_reglaws] shows that every [RegLaws] gives a [RegLawsInv]; the instance
   for [basic_ops] is in Proofs/C16/ConcatBasic.v. *)
From Coq Require Import NArith ZArith List Bool Arith Lia.
From GV Require Import Base.Result Gen.Instr Model.StoreBase Model.BasicStore Model.SimpleStore Model.Lists
  Spec.AssocSpec Proofs.C16.SimpleLookup Proofs.C16.Concat.
Import ListNotations.

Section GenericInv.
Context {St : Type} (D : DataOps St).

(* what was readable in s reads the same in s' *)
Record keeps (s s' : St) : Prop := mkKeeps {
  kp_type : forall a t, d_get_data_type D a s = Ok t -> d_get_data_type D a s' = Ok t;
  kp_symbol : forall a k, d_get_symbol D a s = Ok k -> d_get_symbol D a s' = Ok k;
  kp_pair : forall a p, d_get_pair D a s = Ok p -> d_get_pair D a s' = Ok p;
  kp_concat : forall a p, d_get_concatenation D a s = Ok p -> d_get_concatenation D a s' = Ok p;
  kp_len : forall a n, d_get_list_len D a s = Ok n -> d_get_list_len D a s' = Ok n;
  kp_item : forall a z r, d_get_list_item D a z s = Ok r -> d_get_list_item D a z s' = Ok r }.

Lemma keeps_refl : forall s, keeps s s.
Proof. intro s. constructor; auto. Qed.

Lemma keeps_trans : forall a b c, keeps a b -> keeps b c -> keeps a c.
Proof. intros a b c [A1 A2 A3 A4 A5 A6] [B1 B2 B3 B4 B5 B6]. constructor; auto. Qed.

Lemma same_data_keeps : forall s s', same_data D s s' -> keeps s s'.
Proof.
  intros s s' [H1 H2 H3 H4 H5 H6]. constructor; intros.
  - rewrite H1. assumption.
  - rewrite H2. assumption.
  - rewrite H3. assumption.
  - rewrite H4. assumption.
  - rewrite H5. assumption.
  - rewrite H6. assumption.
Qed.

Lemma denotes_keeps : forall s s' a t, keeps s s' -> denotes D s a t -> denotes D s' a t.
Proof.
  intros s s' a t K H. induction H as [a items Ht Hl Hi | a t Ht H1 H2 H3 | a l r tl tr Ht Hc Hl IHl Hr IHr].
  - apply den_list; [apply (kp_type _ _ K); exact Ht|apply (kp_len _ _ K); exact Hl|].
    intros i x Hx. apply (kp_item _ _ K). apply Hi. exact Hx.
  - apply den_item with (t := t); try assumption. apply (kp_type _ _ K). exact Ht.
  - apply den_cat with (l := l) (r := r); try assumption; [apply (kp_type _ _ K); exact Ht|apply (kp_concat _ _ K); exact Hc].
Qed.

Lemma viewed_keeps : forall s s' a v, keeps s s' -> viewed D s a v -> viewed D s' a v.
Proof.
  intros s s' a v K H. inversion H as [l x k Ht Hp Hlt Hs | l x lt Ht Hp Hlt Hns | t Ht Hnp]; subst.
  - apply view_assoc with (l := l); [apply (kp_type _ _ K)|apply (kp_pair _ _ K)|apply (kp_type _ _ K)|apply (kp_symbol _ _ K)]; assumption.
  - apply view_pair_other with (l := l) (v := x) (lt := lt); [apply (kp_type _ _ K)|apply (kp_pair _ _ K)|apply (kp_type _ _ K)|]; assumption.
  - apply view_other with (t := t); [apply (kp_type _ _ K)|]; assumption.
Qed.

(* the laws.  pop_register of SimpleGarnishData refuses a StackFrame (data
   type Custom), hence the side condition of [il_pop] (as in RegLaws). *)
Record RegLawsInv : Type := mkRegLawsInv {
  il_slot : Type;
  il_val : il_slot -> nat;
  il_inv : St -> Prop;
  il_stack : St -> list il_slot;          (* newest first *)
  il_frame : St -> St -> Prop;
  il_frame_refl : forall s, il_frame s s;
  il_frame_trans : forall a b c, il_frame a b -> il_frame b c -> il_frame a c;
  il_keeps : forall s s', il_inv s -> il_inv s' -> il_frame s s' -> keeps s s';
  il_len : forall s, il_inv s -> d_get_register_len D s = Ok (length (il_stack s));
  il_push : forall a s, il_inv s ->
    exists s' x, d_push_register D a s = Ok (s', Done tt) /\ il_inv s' /\
                 il_stack s' = x :: il_stack s /\ il_val x = a /\ il_frame s s';
  il_pop : forall x r t s, il_inv s -> il_stack s = x :: r ->
    d_get_data_type D (il_val x) s = Ok t -> t <> T_Custom ->
    exists s', d_pop_register D s = Ok (s', Done (Some (il_val x))) /\ il_inv s' /\
               il_stack s' = r /\ il_frame s s' }.

(* every RegLaws is a RegLawsInv: slots are the values, no invariant *)
Definition of_reglaws (L : RegLaws D) : RegLawsInv.
Proof.
  refine (mkRegLawsInv nat (fun a => a) (fun _ => True) (regs L) (frame L) (frame_refl D L) (frame_trans D L) _ _ _ _).
  - intros s s' _ _ H. apply same_data_keeps. apply (frame_data D L). exact H.
  - intros s _. apply (law_len D L).
  - intros a s _. destruct (law_push D L a s) as (s' & H1 & H2 & H3). exists s', a. auto.
  - intros x r t s _ H1 H2 H3. destruct (law_pop D L x r t s H1 H2 H3) as (s' & A & B & C). exists s'. auto.
Defined.

Section TraverseInv.
Variable L : RegLawsInv.
Variable check : nat -> nat -> St -> res (option nat).
Variable chk : nat -> nat -> option nat.
Variable s0 : St.
Variable base : list (il_slot L).
Hypothesis Hi0 : il_inv L s0.
(* the check only reads the value getters *)
Hypothesis Hinv : forall s, keeps s0 s -> forall i a r, check i a s0 = Ok r -> check i a s = Ok r.

Definition swseq (rev : bool) (work : list (il_slot L * ctree)) : list nat := flat_map (fun p => order rev (snd p)) work.
Fixpoint swnodes (work : list (il_slot L * ctree)) : nat :=
  match work with
  | [] => 0
  | p :: w => nodes (snd p) + swnodes w
  end.
Definition sden (p : il_slot L * ctree) : Prop := denotes D s0 (il_val L (fst p)) (snd p).

Lemma swnodes_length : forall work, length work <= swnodes work.
Proof.
  induction work as [|[a t] w IH]; [apply Nat.le_refl|].
  cbn [swnodes length snd]. pose proof (nodes_pos t). lia.
Qed.

Lemma iter_loop_spec_inv : forall rev fuel work index s,
  il_inv L s -> il_frame L s0 s -> il_stack L s = map fst work ++ base ->
  Forall sden work ->
  (forall a, In a (swseq rev work) -> forall i, check i a s0 = Ok (chk i a)) ->
  swnodes work < fuel ->
  exists s' idx' work',
    iter_loop D fuel rev check (length base) index s = Ok (s', Done (scan chk index (swseq rev work), idx')) /\
    il_inv L s' /\ il_frame L s0 s' /\ il_stack L s' = map fst work' ++ base /\
    Forall sden work' /\ swnodes work' <= swnodes work.
Proof.
  intro rev. induction fuel as [|f IH]; intros work index s His Hfr Hregs Hden Hchk Hfuel; [lia|].
  rewrite iter_loop_unfold.
  erewrite sbind_done by (apply sread_ok; apply (il_len L); exact His).
  rewrite Hregs.
  destruct work as [|[x t] w].
  - cbn [map app]. rewrite Nat.leb_refl. exists s, index, []. cbn [swseq flat_map scan map app].
    split; [reflexivity|]. split; [exact His|]. split; [exact Hfr|]. split; [exact Hregs|]. split; [constructor|apply Nat.le_refl].
  - cbn [map fst app length].
    assert (E : (S (length (map fst w ++ base)) <=? length base) = false)
      by (apply Nat.leb_gt; rewrite app_length; lia).
    rewrite E. clear E.
    inversion Hden as [|? ? Ha Hw]; subst. unfold sden in Ha. cbn [fst snd] in Ha.
    pose proof (il_keeps L _ _ Hi0 His Hfr) as Hsd.
    destruct (denotes_type D _ _ _ Ha) as (ty & Hty & Hnc).
    cbn [map fst app] in Hregs.
    assert (Htys : d_get_data_type D (il_val L x) s = Ok ty) by (apply (kp_type _ _ Hsd); exact Hty).
    destruct (il_pop L x (map fst w ++ base) ty s His Hregs Htys Hnc) as (s1 & Hpop & Hi1 & Hregs1 & Hfr1).
    erewrite sbind_done by exact Hpop. cbv beta iota.
    assert (Hfr01 : il_frame L s0 s1) by (eapply il_frame_trans; eassumption).
    pose proof (il_keeps L _ _ Hi0 Hi1 Hfr01) as Hsd1.
    cbn [swnodes snd] in Hfuel.
    assert (Hwn : forall y, swnodes ((x, y) :: w) = nodes y + swnodes w) by reflexivity.
    assert (Hws : forall y, swseq rev ((x, y) :: w) = order rev y ++ swseq rev w) by reflexivity.
    rewrite Hws in Hchk. rewrite Hws.
    set (a := il_val L x) in *.
    inversion Ha as [a' items Htype Hlen Hitems | a' t' Htype Hnl Hncat Hncus | a' l r tl tr Htype Hcat Hl Hr]; subst a'; subst t.
    + (* a list leaf *)
      unfold iter_body.
      erewrite sbind_done by (apply sread_ok; apply (kp_type _ _ Hsd1); exact Htype). cbv beta iota.
      erewrite sbind_done by (apply sread_ok; apply (kp_len _ _ Hsd1); exact Hlen).
      erewrite sbind_done.
      2:{ apply sread_ok. apply iter_items_spec with (chk := chk).
          - intros j y Hj. cbn [plus]. apply (kp_item _ _ Hsd1). apply Hitems. exact Hj.
          - intros y Hy k. apply (Hinv _ Hsd1). apply Hchk. cbn [order]. apply in_or_app. left. exact Hy. }
      rewrite Nat.add_0_r. cbn [order]. rewrite scan_app.
      destruct (scan chk index items) as [v|] eqn:Esc.
      * exists s1, (index + length items), w.
        split; [reflexivity|]. split; [exact Hi1|]. split; [exact Hfr01|]. split; [exact Hregs1|]. split; [exact Hw|].
        rewrite Hwn. lia.
      * destruct (IH w (index + length items) s1 Hi1 Hfr01 Hregs1 Hw) as (s' & idx' & work' & Hrun & Hi' & Hfr' & Hregs' & Hden' & Hle).
        { intros y Hy i. apply Hchk. apply in_or_app. right. exact Hy. }
        { cbn [nodes] in Hfuel. lia. }
        exists s', idx', work'.
        split; [exact Hrun|]. split; [exact Hi'|]. split; [exact Hfr'|]. split; [exact Hregs'|]. split; [exact Hden'|].
        rewrite Hwn. lia.
    + (* a single item *)
      erewrite iter_body_other; [|apply (kp_type _ _ Hsd1); exact Htype|exact Hnl|exact Hncat].
      erewrite sbind_done.
      2:{ apply sread_ok. apply (Hinv _ Hsd1). apply Hchk. cbn [order]. left. reflexivity. }
      cbn [order app scan].
      destruct (chk index a) as [v|] eqn:Esc.
      * exists s1, (S index), w.
        split; [reflexivity|]. split; [exact Hi1|]. split; [exact Hfr01|]. split; [exact Hregs1|]. split; [exact Hw|].
        rewrite Hwn. lia.
      * destruct (IH w (S index) s1 Hi1 Hfr01 Hregs1 Hw) as (s' & idx' & work' & Hrun & Hi' & Hfr' & Hregs' & Hden' & Hle).
        { intros y Hy i. apply Hchk. apply in_or_app. right. exact Hy. }
        { cbn [nodes] in Hfuel. lia. }
        exists s', idx', work'.
        split; [exact Hrun|]. split; [exact Hi'|]. split; [exact Hfr'|]. split; [exact Hregs'|]. split; [exact Hden'|].
        rewrite Hwn. lia.
    + (* a nested concatenation: its two children go back on the stack *)
      unfold iter_body.
      erewrite sbind_done by (apply sread_ok; apply (kp_type _ _ Hsd1); exact Htype). cbv beta iota.
      assert (Hcc : concat_children D rev a s1 = Ok (if rev then (r, l) else (l, r))).
      { unfold concat_children. rewrite (kp_concat _ _ Hsd1 _ _ Hcat). cbn [bind fst snd]. destruct rev; reflexivity. }
      erewrite sbind_done by (apply sread_ok; exact Hcc).
      set (cn := if rev then (r, l) else (l, r)).
      set (tfst := if rev then tr else tl). set (tsnd := if rev then tl else tr).
      assert (Hdf : denotes D s0 (fst cn) tfst) by (unfold cn, tfst; destruct rev; assumption).
      assert (Hds : denotes D s0 (snd cn) tsnd) by (unfold cn, tsnd; destruct rev; assumption).
      destruct (il_push L (snd cn) s1 Hi1) as (s2 & x2 & Hpush2 & Hi2 & Hregs2 & Hv2 & Hfr2).
      erewrite sbind_done by exact Hpush2.
      destruct (il_push L (fst cn) s2 Hi2) as (s3 & x3 & Hpush3 & Hi3 & Hregs3 & Hv3 & Hfr3).
      erewrite sbind_done by exact Hpush3.
      assert (Hfr03 : il_frame L s0 s3) by (eapply il_frame_trans; [eapply il_frame_trans; eassumption|eassumption]).
      destruct (IH ((x3, tfst) :: (x2, tsnd) :: w) index s3 Hi3 Hfr03) as (s' & idx' & work' & Hrun & Hi' & Hfr' & Hregs' & Hden' & Hle).
      { rewrite Hregs3, Hregs2, Hregs1. reflexivity. }
      { constructor; [unfold sden; cbn [fst snd]; rewrite Hv3; exact Hdf|].
        constructor; [unfold sden; cbn [fst snd]; rewrite Hv2; exact Hds|exact Hw]. }
      { intros y Hy i. apply Hchk. unfold swseq in Hy. cbn [flat_map snd] in Hy. fold (swseq rev w) in Hy.
        rewrite app_assoc in Hy. apply in_app_or in Hy. apply in_or_app. destruct Hy as [Hy|Hy]; [left|right; exact Hy].
        cbn [order]. unfold tfst, tsnd in Hy. destruct rev; exact Hy. }
      { cbn [swnodes snd]. cbn [nodes] in Hfuel.
        assert (nodes tfst + nodes tsnd = nodes tl + nodes tr) by (unfold tfst, tsnd; destruct rev; lia). lia. }
      exists s', idx', work'.
      assert (Hseq : swseq rev ((x3, tfst) :: (x2, tsnd) :: w) = order rev (Cat tl tr) ++ swseq rev w).
      { unfold swseq. cbn [flat_map snd]. rewrite app_assoc. f_equal. cbn [order]. unfold tfst, tsnd. destruct rev; reflexivity. }
      rewrite Hseq in Hrun.
      split; [exact Hrun|]. split; [exact Hi'|]. split; [exact Hfr'|]. split; [exact Hregs'|]. split; [exact Hden'|].
      rewrite Hwn. cbn [nodes]. cbn [swnodes snd] in Hle.
      assert (nodes tfst + nodes tsnd = nodes tl + nodes tr) by (unfold tfst, tsnd; destruct rev; lia). lia.
Qed.

(* the borrowed registers are handed back *)
Lemma clear_spec_inv : forall fuel work s,
  il_inv L s -> il_frame L s0 s -> il_stack L s = map fst work ++ base ->
  Forall sden work ->
  length work < fuel ->
  exists s', clear_registers D fuel (length base) s = Ok (s', Done tt) /\ il_inv L s' /\ il_frame L s0 s' /\ il_stack L s' = base.
Proof.
  induction fuel as [|f IH]; intros work s His Hfr Hregs Hden Hfuel; [lia|].
  cbn [clear_registers].
  erewrite sbind_done by (apply sread_ok; apply (il_len L); exact His).
  rewrite Hregs.
  destruct work as [|[x t] w].
  - cbn [map app]. rewrite Nat.leb_refl. exists s. split; [reflexivity|]. split; [exact His|]. split; [exact Hfr|exact Hregs].
  - cbn [map fst app length].
    assert (E : (S (length (map fst w ++ base)) <=? length base) = false)
      by (apply Nat.leb_gt; rewrite app_length; lia).
    rewrite E. clear E.
    inversion Hden as [|? ? Ha Hw]; subst. unfold sden in Ha. cbn [fst snd] in Ha.
    pose proof (il_keeps L _ _ Hi0 His Hfr) as Hsd.
    destruct (denotes_type D _ _ _ Ha) as (ty & Hty & Hnc).
    cbn [map fst app] in Hregs.
    assert (Htys : d_get_data_type D (il_val L x) s = Ok ty) by (apply (kp_type _ _ Hsd); exact Hty).
    destruct (il_pop L x (map fst w ++ base) ty s His Hregs Htys Hnc) as (s1 & Hpop & Hi1 & Hregs1 & Hfr1).
    erewrite sbind_done by exact Hpop.
    apply (IH w s1); [exact Hi1|eapply il_frame_trans; eassumption|exact Hregs1|exact Hw|cbn [length] in Hfuel; lia].
Qed.
End TraverseInv.

(* ---- iterate_concatenation ---- *)
Lemma iterate_spec_inv : forall (L : RegLawsInv) rev check chk fuel addr tl tr s,
  il_inv L s -> denotes D s addr (Cat tl tr) ->
  (forall s', keeps s s' -> forall i a r, check i a s = Ok r -> check i a s' = Ok r) ->
  (forall a, In a (order rev (Cat tl tr)) -> forall i, check i a s = Ok (chk i a)) ->
  concat_fuel (Cat tl tr) <= fuel ->
  exists s' idx,
    iterate_concatenation D fuel rev check addr s = Ok (s', Done (scan chk 0 (order rev (Cat tl tr)), idx)) /\
    il_inv L s' /\ il_stack L s' = il_stack L s /\ il_frame L s s'.
Proof.
  intros L rev check chk fuel addr tl tr s His Hden Hinv Hchk Hfuel.
  inversion Hden as [| | a' l r tl' tr' Htype Hcat Hl Hr]; subst.
  unfold iterate_concatenation.
  assert (Hcc : concat_children D rev addr s = Ok (if rev then (r, l) else (l, r))).
  { unfold concat_children. rewrite Hcat. cbn [bind fst snd]. destruct rev; reflexivity. }
  erewrite sbind_done by (apply sread_ok; exact Hcc).
  erewrite sbind_done by (apply sread_ok; apply (il_len L); exact His).
  set (cn := if rev then (r, l) else (l, r)).
  set (tfst := if rev then tr else tl). set (tsnd := if rev then tl else tr).
  assert (Hdf : denotes D s (fst cn) tfst) by (unfold cn, tfst; destruct rev; assumption).
  assert (Hds : denotes D s (snd cn) tsnd) by (unfold cn, tsnd; destruct rev; assumption).
  destruct (il_push L (snd cn) s His) as (s2 & x2 & Hpush2 & Hi2 & Hregs2 & Hv2 & Hfr2).
  erewrite sbind_done by exact Hpush2.
  destruct (il_push L (fst cn) s2 Hi2) as (s3 & x3 & Hpush3 & Hi3 & Hregs3 & Hv3 & Hfr3).
  erewrite sbind_done by exact Hpush3.
  assert (Hfr03 : il_frame L s s3) by (eapply il_frame_trans; eassumption).
  assert (Hnodes : nodes tfst + nodes tsnd = nodes tl + nodes tr) by (unfold tfst, tsnd; destruct rev; lia).
  assert (Hseq : swseq L rev [(x3, tfst); (x2, tsnd)] = order rev (Cat tl tr)).
  { unfold swseq. cbn [flat_map snd]. rewrite app_nil_r. cbn [order]. unfold tfst, tsnd. destruct rev; reflexivity. }
  unfold concat_fuel in Hfuel. cbn [nodes] in Hfuel.
  destruct (iter_loop_spec_inv L check chk s (il_stack L s) His Hinv rev fuel [(x3, tfst); (x2, tsnd)] 0 s3 Hi3 Hfr03)
    as (s4 & idx & work' & Hrun & Hi4 & Hfr4 & Hregs4 & Hden4 & Hle).
  { rewrite Hregs3, Hregs2. reflexivity. }
  { constructor; [unfold sden; cbn [fst snd]; rewrite Hv3; exact Hdf|].
    constructor; [unfold sden; cbn [fst snd]; rewrite Hv2; exact Hds|constructor]. }
  { rewrite Hseq. exact Hchk. }
  { cbn [swnodes snd]. lia. }
  rewrite Hseq in Hrun.
  erewrite sbind_done by exact Hrun.
  destruct (clear_spec_inv L s (il_stack L s) His fuel work' s4 Hi4 Hfr4 Hregs4 Hden4) as (s5 & Hclr & Hi5 & Hfr5 & Hregs5).
  { pose proof (swnodes_length L work'). cbn [swnodes snd] in Hle. lia. }
  erewrite sbind_done by exact Hclr.
  exists s5, idx. split; [reflexivity|]. split; [exact Hi5|]. split; [exact Hregs5|exact Hfr5].
Qed.

(* ---- 1. indexing ---- *)
Lemma index_concat_gen_inv : forall (L : RegLawsInv) fuel addr tl tr s z,
  il_inv L s -> denotes D s addr (Cat tl tr) -> concat_fuel (Cat tl tr) <= fuel ->
  exists s', index_concatenation_for D fuel addr z s = Ok (s', Done (scan (chk_index z) 0 (flatten (Cat tl tr)))) /\
             il_inv L s' /\ il_stack L s' = il_stack L s /\ il_frame L s s'.
Proof.
  intros L fuel addr tl tr s z His Hden Hfuel. unfold index_concatenation_for.
  destruct (iterate_spec_inv L false
              (fun current_index a (_ : St) => if Z.eqb (Z.of_nat current_index) z then Ok (Some a) else Ok None)
              (chk_index z) fuel addr tl tr s His Hden) as (s' & idx & Hrun & H).
  - intros s' _ i a r Hr. exact Hr.
  - intros a _ i. unfold chk_index. destruct (Z.eqb (Z.of_nat i) z); reflexivity.
  - exact Hfuel.
  - erewrite sbind_done by exact Hrun. exists s'. split; [reflexivity|exact H].
Qed.

Theorem concat_index_inv : forall (L : RegLawsInv) fuel addr tl tr s k,
  il_inv L s -> denotes D s addr (Cat tl tr) -> concat_fuel (Cat tl tr) <= fuel ->
  exists s', index_concatenation_for D fuel addr (Z.of_nat k) s = Ok (s', Done (nth_error (flatten (Cat tl tr)) k)) /\
             il_inv L s' /\ il_stack L s' = il_stack L s /\ il_frame L s s'.
Proof.
  intros L fuel addr tl tr s k His Hden Hfuel.
  destruct (index_concat_gen_inv L fuel addr tl tr s (Z.of_nat k) His Hden Hfuel) as (s' & Hrun & H).
  exists s'. split; [|exact H]. rewrite Hrun. pose proof (scan_index (flatten (Cat tl tr)) 0 k) as E. cbn [plus] in E. rewrite E. reflexivity.
Qed.

Theorem concat_index_negative_inv : forall (L : RegLawsInv) fuel addr tl tr s z,
  il_inv L s -> denotes D s addr (Cat tl tr) -> concat_fuel (Cat tl tr) <= fuel -> (z < 0)%Z ->
  exists s', index_concatenation_for D fuel addr z s = Ok (s', Done None) /\
             il_inv L s' /\ il_stack L s' = il_stack L s /\ il_frame L s s'.
Proof.
  intros L fuel addr tl tr s z His Hden Hfuel Hz.
  destruct (index_concat_gen_inv L fuel addr tl tr s z His Hden Hfuel) as (s' & Hrun & H).
  exists s'. split; [|exact H]. rewrite Hrun. rewrite scan_index_negative by exact Hz. reflexivity.
Qed.

(* ---- 2. symbol lookup ---- *)
Lemma gvia_keeps : forall sym s s', keeps s s' -> forall a r,
  get_value_if_association D sym a s = Ok r -> get_value_if_association D sym a s' = Ok r.
Proof.
  intros sym s s' K a r. unfold get_value_if_association.
  destruct (d_get_data_type D a s) as [t| | |] eqn:Et; cbn [bind]; try discriminate.
  rewrite (kp_type _ _ K _ _ Et). cbn [bind].
  destruct t; try (intro H; exact H).
  destruct (d_get_pair D a s) as [lr| | |] eqn:Ep; cbn [bind]; try discriminate.
  rewrite (kp_pair _ _ K _ _ Ep). cbn [bind].
  destruct (d_get_data_type D (fst lr) s) as [lt| | |] eqn:Elt; cbn [bind]; try discriminate.
  rewrite (kp_type _ _ K _ _ Elt). cbn [bind].
  destruct lt; try (intro H; exact H).
  destruct (d_get_symbol D (fst lr) s) as [k| | |] eqn:Es; cbn [bind]; try discriminate.
  rewrite (kp_symbol _ _ K _ _ Es). cbn [bind]. intro H; exact H.
Qed.

Theorem concat_lookup_inv : forall (L : RegLawsInv) fuel sym addr tl tr s (view : nat -> assoc_view),
  il_inv L s -> denotes D s addr (Cat tl tr) -> concat_fuel (Cat tl tr) <= fuel ->
  (forall a, In a (lookup_order (Cat tl tr)) -> viewed D s a (view a)) ->
  exists s', access_with_symbol D fuel sym addr s =
               Ok (s', Done (assoc_lookup sym (map view (lookup_order (Cat tl tr))))) /\
             il_inv L s' /\ il_stack L s' = il_stack L s /\ il_frame L s s'.
Proof.
  intros L fuel sym addr tl tr s view His Hden Hfuel Hview.
  assert (Ht : d_get_data_type D addr s = Ok T_Concatenation) by (inversion Hden; assumption).
  unfold access_with_symbol.
  erewrite sbind_done by (apply sread_ok; exact Ht). cbv beta iota.
  destruct (iterate_spec_inv L true (fun (_ : nat) a s => get_value_if_association D sym a s)
              (chk_sym view sym) fuel addr tl tr s His Hden) as (s' & idx & Hrun & H).
  - intros s' Hs' i a r. apply gvia_keeps. exact Hs'.
  - intros a Ha i. rewrite (gvia_viewed D sym s a (view a) i (Hview a Ha)). reflexivity.
  - exact Hfuel.
  - erewrite sbind_done by exact Hrun. exists s'. cbn [fst]. rewrite scan_sym. split; [reflexivity|exact H].
Qed.

(* what the first hit means when no key occurs twice among the leaves *)
Corollary concat_lookup_found_inv : forall (L : RegLawsInv) fuel sym addr tl tr s (view : nat -> assoc_view) a v,
  il_inv L s -> denotes D s addr (Cat tl tr) -> concat_fuel (Cat tl tr) <= fuel ->
  (forall a, In a (lookup_order (Cat tl tr)) -> viewed D s a (view a)) ->
  NoDup (keys_of (map view (lookup_order (Cat tl tr)))) ->
  In a (flatten (Cat tl tr)) -> view a = Some (sym, v) ->
  exists s', access_with_symbol D fuel sym addr s = Ok (s', Done (Some v)) /\
             il_inv L s' /\ il_stack L s' = il_stack L s /\ il_frame L s s'.
Proof.
  intros L fuel sym addr tl tr s view a v His Hden Hfuel Hview Hnd Hin Hva.
  destruct (concat_lookup_inv L fuel sym addr tl tr s view His Hden Hfuel Hview) as (s' & Hrun & H).
  exists s'. split; [|exact H]. rewrite Hrun.
  assert (Hperm : forall t x, In x (order false t) -> In x (order true t)).
  { induction t as [items|b|l IHl r IHr]; intros x Hx; cbn [order] in *; try exact Hx.
    apply in_app_or in Hx. apply in_or_app. destruct Hx as [Hx|Hx]; [right; apply IHl|left; apply IHr]; exact Hx. }
  assert (Hin' : In (Some (sym, v)) (map view (lookup_order (Cat tl tr)))).
  { rewrite <- Hva. apply in_map. apply Hperm. exact Hin. }
  rewrite (assoc_lookup_some sym _ v Hin'); [reflexivity|]. apply nodup_unique; assumption.
Qed.

(* ---- 3. the fuel [concat_fuel] is enough ---- *)
Theorem concat_fuel_suffices_inv : forall (L : RegLawsInv) fuel addr tl tr s,
  il_inv L s -> denotes D s addr (Cat tl tr) -> concat_fuel (Cat tl tr) <= fuel ->
  (forall z, index_concatenation_for D fuel addr z s <> OutOfFuel) /\
  (forall sym view, (forall a, In a (lookup_order (Cat tl tr)) -> viewed D s a (view a)) ->
     access_with_symbol D fuel sym addr s <> OutOfFuel).
Proof.
  intros L fuel addr tl tr s His Hden Hfuel. split.
  - intro z. destruct (index_concat_gen_inv L fuel addr tl tr s z His Hden Hfuel) as (s' & Hrun & _). rewrite Hrun. discriminate.
  - intros sym view Hview.
    destruct (concat_lookup_inv L fuel sym addr tl tr s view His Hden Hfuel Hview) as (s' & Hrun & _). rewrite Hrun. discriminate.
Qed.
End GenericInv.

Arguments il_slot {St D} _.
Arguments il_val {St D} _ _.
Arguments il_inv {St D} _ _.
Arguments il_stack {St D} _ _.
Arguments il_frame {St D} _ _ _.
