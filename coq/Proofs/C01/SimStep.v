(* The inductive step of the simulation: from SimAll at every level up to n to
   SimAll (S n).  The per-construct work is in SimDone.v (outcome ODone) and
   SimRestart.v (outcome ORestart); here are apply, expression bodies, and the
   assembly. *)
From Coq Require Import ZArith NArith List Bool Arith Lia.
From GV Require Import Base.Result Base.Host Gen.Instr Gen.Exec Model.Num Model.Value Model.Machine
  Model.CompileExpr Spec.Ast Spec.Eval
  Proofs.C01.MachineFacts Proofs.C01.Sizes Proofs.C01.Placement Proofs.C01.Labels Proofs.C01.OpRefine Proofs.C01.Fragment
  Proofs.C01.Steps Proofs.C01.ApplySteps Proofs.C01.Sim Proofs.C01.NoRestart Proofs.C01.SimDone Proofs.C01.SimRestart.
Import ListNotations.

Section SimStep.
Variable sym_hash : list N -> N.
Variable hstate : Type.
Variable host : hstate -> host_call -> hstate * option val.
Hypothesis Hdef : declines_defer hstate host.
Variable pbodies : list (N * expr).
Variable P : program.

Notation St := (mkSt hstate).
Notation star := (star hstate host P).
Notation C := (code P).
Notation J := (jt P).
Notation eval := (eval sym_hash hstate host pbodies).
Notation eval_items := (eval_items sym_hash hstate host pbodies).
Notation eval_chain := (eval_chain sym_hash hstate host pbodies).
Notation apply_val := (apply_val sym_hash hstate host pbodies).
Notation run_body := (run_body sym_hash hstate host pbodies).
Notation lplaced := (lplaced sym_hash C J).
Notation lplacedC := (lplacedC sym_hash C J).
Notation est := (st hstate).
Notation SimEval := (SimEval sym_hash hstate host pbodies P).
Notation SimItems := (SimItems sym_hash hstate host pbodies P).
Notation SimChain := (SimChain sym_hash hstate host pbodies P).
Notation SimApply := (SimApply sym_hash hstate host pbodies P).
Notation SimBody := (SimBody sym_hash hstate host pbodies P).
Notation SimAll := (SimAll sym_hash hstate host pbodies P).

Hypothesis Hbodies : bodies_ok sym_hash pbodies P.

Variable n : nat.
Hypothesis IH : forall m, m <= n -> SimAll m.

(* the induction hypotheses in the forms SimDone / SimRestart use, for one enclosing body *)
Section Cont.
Variable cont pcont : nat.
Hypothesis Hcj : nth_error J cont = Some pcont.
Hypothesis Hcp : pcont < length C.

Lemma ihd : forall m, m <= n -> forall e vin (s : est) v s',
  eval m e vin s = ODone v s' ->
  frag e = true -> shape_ok e = true -> forall b, seq_ok b e = true ->
  forall pc j ob jb sg vs fs mt,
  lplaced cont None e pc j ob jb -> pc + si (sizes None e) < length C -> observable mt = snd s ->
  exists vin' mt',
    star (St pc sg (vin :: vs) fs (fst s) mt) (St (pc + si (sizes None e)) (v :: sg) (vin' :: vs) fs (fst s') mt') /\
    observable mt' = snd s' /\ (is_seq e = false -> vin' = vin).
Proof.
  intros m Hm e vin s v s' E Hf Hsh b Hsq pc j ob jb sg vs fs mt Hp Hl Ho.
  destruct (IH m Hm) as (HE & _).
  exact (HE e vin s (ODone v s') E Hf Hsh b Hsq cont pcont pc j ob jb sg vs fs mt Hp Hcj Hcp Hl Ho).
Qed.

Lemma ihr : forall m, m <= n -> forall e vin (s : est) v s',
  eval m e vin s = ORestart v s' ->
  frag e = true -> shape_ok e = true -> forall b, seq_ok b e = true ->
  forall pc j ob jb sg vs fs mt,
  lplaced cont None e pc j ob jb -> pc + si (sizes None e) < length C -> observable mt = snd s ->
  Restarted hstate host P pcont pc sg vin vs fs s mt v s'.
Proof.
  intros m Hm e vin s v s' E Hf Hsh b Hsq pc j ob jb sg vs fs mt Hp Hl Ho.
  destruct (IH m Hm) as (HE & _).
  exact (HE e vin s (ORestart v s') E Hf Hsh b Hsq cont pcont pc j ob jb sg vs fs mt Hp Hcj Hcp Hl Ho).
Qed.

Lemma ihid : forall m, m <= n -> forall k e vin (s : est) items s',
  eval_items m k e vin s = ODone items s' ->
  frag e = true -> shape_ok e = true -> seq_ok false e = true ->
  forall pc j ob jb sg vs fs mt,
  lplaced cont (Some k) e pc j ob jb -> pc + si (sizes (Some k) e) < length C -> observable mt = snd s ->
  exists mt',
    star (St pc sg (vin :: vs) fs (fst s) mt)
         (St (pc + si (sizes (Some k) e)) (rev items ++ sg) (vin :: vs) fs (fst s') mt') /\
    observable mt' = snd s' /\ length items = leaves k e.
Proof.
  intros m Hm k e vin s items s' E Hf Hsh Hsq pc j ob jb sg vs fs mt Hp Hl Ho.
  destruct (IH m Hm) as (_ & HI & _).
  exact (HI k e vin s (ODone items s') E Hf Hsh Hsq cont pcont pc j ob jb sg vs fs mt Hp Hcj Hcp Hl Ho).
Qed.

Lemma ihir : forall m, m <= n -> forall k e vin (s : est) v s',
  eval_items m k e vin s = ORestart v s' ->
  frag e = true -> shape_ok e = true -> seq_ok false e = true ->
  forall pc j ob jb sg vs fs mt,
  lplaced cont (Some k) e pc j ob jb -> pc + si (sizes (Some k) e) < length C -> observable mt = snd s ->
  Restarted hstate host P pcont pc sg vin vs fs s mt v s'.
Proof.
  intros m Hm k e vin s v s' E Hf Hsh Hsq pc j ob jb sg vs fs mt Hp Hl Ho.
  destruct (IH m Hm) as (_ & HI & _).
  exact (HI k e vin s (ORestart v s') E Hf Hsh Hsq cont pcont pc j ob jb sg vs fs mt Hp Hcj Hcp Hl Ho).
Qed.

Lemma ihcd : forall m, m <= n -> forall e vin (s : est) o s',
  eval_chain m e vin s = ODone o s' ->
  lchain e = true -> frag e = true -> shape_okC true e = true -> seq_ok false e = true ->
  forall pc j aob ajb ob jb jj pjoin sg vs fs mt,
  lplacedC true cont None e pc j aob ajb ob jb jj ->
  nth_error J jj = Some pjoin -> pjoin < length C -> pc + ci (csizes e) < length C -> observable mt = snd s ->
  exists mt', observable mt' = snd s' /\
    match o with
    | None => star (St pc sg (vin :: vs) fs (fst s) mt) (St (pc + ci (csizes e)) sg (vin :: vs) fs (fst s') mt')
    | Some v => star (St pc sg (vin :: vs) fs (fst s) mt) (St pjoin (v :: sg) (vin :: vs) fs (fst s') mt')
    end.
Proof.
  intros m Hm e vin s o s' E Hlc Hf Hsh Hsq pc j aob ajb ob jb jj pjoin sg vs fs mt Hp Hj Hpj Hl Ho.
  destruct (IH m Hm) as (_ & _ & HC & _).
  pose proof (HC e vin s (ODone o s') E Hlc Hf Hsh Hsq cont pcont pc j aob ajb ob jb jj pjoin sg vs fs mt Hp Hcj Hcp Hj Hpj Hl Ho) as R.
  destruct o; exact R.
Qed.

Lemma ihcr : forall m, m <= n -> forall e vin (s : est) v s',
  eval_chain m e vin s = ORestart v s' ->
  lchain e = true -> frag e = true -> shape_okC true e = true -> seq_ok false e = true ->
  forall pc j aob ajb ob jb jj pjoin sg vs fs mt,
  lplacedC true cont None e pc j aob ajb ob jb jj ->
  nth_error J jj = Some pjoin -> pjoin < length C -> pc + ci (csizes e) < length C -> observable mt = snd s ->
  Restarted hstate host P pcont pc sg vin vs fs s mt v s'.
Proof.
  intros m Hm e vin s v s' E Hlc Hf Hsh Hsq pc j aob ajb ob jb jj pjoin sg vs fs mt Hp Hj Hpj Hl Ho.
  destruct (IH m Hm) as (_ & _ & HC & _).
  exact (HC e vin s (ORestart v s') E Hlc Hf Hsh Hsq cont pcont pc j aob ajb ob jb jj pjoin sg vs fs mt Hp Hcj Hcp Hj Hpj Hl Ho).
Qed.

Lemma ihad : forall f x (s : est) v s',
  apply_val n f x s = ODone v s' ->
  forall (ea : bool) pcx sg vs fs mt,
  (ea = true -> x = VUnit) ->
  nth_error C pcx = Some (ins (if ea then I_EmptyApply else I_Apply)) -> S pcx < length C ->
  observable mt = snd s ->
  exists mt',
    star (St pcx (if ea then f :: sg else x :: f :: sg) vs fs (fst s) mt) (St (S pcx) (v :: sg) vs fs (fst s') mt') /\
    observable mt' = snd s'.
Proof.
  destruct (IH n (le_n n)) as (_ & _ & _ & HA & _). exact HA.
Qed.

End Cont.

(* ---- expressions, items, chains ---- *)
Lemma sim_eval_step : SimEval (S n).
Proof.
  intros e vin s o E Hf Hsh b Hsq cont pcont pc j ob jb sg vs fs mt Hp Hcj Hcp Hl Ho.
  destruct o as [v s' | v s' | w | ]; try exact I.
  - exact (sim_eval_done sym_hash hstate host Hdef pbodies P n cont pcont Hcp
             (ihd cont pcont Hcj Hcp) (ihid cont pcont Hcj Hcp) (ihcd cont pcont Hcj Hcp) (ihad)
             e vin s v s' E Hf Hsh b Hsq pc j ob jb sg vs fs mt Hp Hl Ho).
  - exact (sim_eval_restart sym_hash hstate host pbodies P n cont pcont Hcj Hcp
             (ihd cont pcont Hcj Hcp) (ihid cont pcont Hcj Hcp) (ihcd cont pcont Hcj Hcp)
             (ihr cont pcont Hcj Hcp) (ihir cont pcont Hcj Hcp) (ihcr cont pcont Hcj Hcp)
             e vin s v s' E Hf Hsh b Hsq pc j ob jb sg vs fs mt Hp Hl Ho).
Qed.

Lemma sim_items_step' : SimItems (S n).
Proof.
  intros k e vin s o E Hf Hsh Hsq cont pcont pc j ob jb sg vs fs mt Hp Hcj Hcp Hl Ho.
  pose proof (ihd cont pcont Hcj Hcp) as D. pose proof (ihid cont pcont Hcj Hcp) as Di.
  pose proof (ihcd cont pcont Hcj Hcp) as Dc. pose proof (ihr cont pcont Hcj Hcp) as R.
  pose proof (ihir cont pcont Hcj Hcp) as Ri. pose proof (ihcr cont pcont Hcj Hcp) as Rc.
  destruct o as [items s' | v s' | w | ]; try exact I.
  - eapply (sim_items_step sym_hash hstate host); eauto.
  - eapply (rs_items sym_hash hstate host); eauto.
Qed.

Lemma sim_chain_step' : SimChain (S n).
Proof.
  intros e vin s o E Hlc Hf Hsh Hsq cont pcont pc j aob ajb ob jb jj pjoin sg vs fs mt Hp Hcj Hcp Hj Hpj Hl Ho.
  pose proof (ihd cont pcont Hcj Hcp) as D. pose proof (ihid cont pcont Hcj Hcp) as Di.
  pose proof (ihcd cont pcont Hcj Hcp) as Dc. pose proof (ihr cont pcont Hcj Hcp) as R.
  pose proof (ihir cont pcont Hcj Hcp) as Ri. pose proof (ihcr cont pcont Hcj Hcp) as Rc.
  destruct o as [oo s' | v s' | w | ]; try exact I.
  - assert (X : exists mt', observable mt' = snd s' /\
      match oo with
      | None => star (St pc sg (vin :: vs) fs (fst s) mt) (St (pc + ci (csizes e)) sg (vin :: vs) fs (fst s') mt')
      | Some v => star (St pc sg (vin :: vs) fs (fst s) mt) (St pjoin (v :: sg) (vin :: vs) fs (fst s') mt')
      end).
    { eapply (sim_chain_step sym_hash hstate host); eauto. }
    destruct oo; exact X.
  - eapply (rs_chain sym_hash hstate host); eauto.
Qed.

(* ---- apply ---- *)
Lemma sim_apply_step : SimApply (S n).
Proof.
  intros f x s v s' H ea pcx sg vs fs mt Hx Hn Hl Ho.
  change (if ea then I_EmptyApply else I_Apply) with (apply_instr ea) in Hn.
  change (if ea then f :: sg else x :: f :: sg) with (apply_regs ea f x sg).
  destruct f; cbn [Eval.apply_val] in H;
    try (unfold lift in H;
         match type of H with context [prim_apply_data ?a ?b] =>
           destruct (prim_apply_data a b) as [[r|] w] eqn:Hpd end; [|discriminate];
         injection H as <- <-;
         match type of Hpd with prim_apply_data ?a _ = _ =>
           destruct (apply_data hstate host Hdef P (apply_instr ea) a x r w pcx sg vs fs (fst s) mt I Hpd) as (t' & Ea & Ot) end;
         exists t'; split; [|congruence];
         apply star_one;
         rewrite (step_apply_gen hstate host P ea _ x pcx sg vs fs (fst s) mt _ (S pcx) Hx Hn Ea Hl); reflexivity).
  - (* an expression value: its body runs *)
    destruct (find_body pbodies body) as [b|] eqn:Hfb; [|discriminate].
    destruct (Hbodies body b Hfb) as (pcb & jb1 & ob1 & jb2 & Hj & Hp & Hend & Hf & Hsh & Hsq).
    assert (Hlb : pcb + si (sizes None b) < length C) by (eapply SimDone.nth_lt; eauto).
    assert (Hpcb : pcb < length C) by lia.
    pose proof (apply_expr hstate host P (apply_instr ea) body x pcb pcx sg vs fs (fst s) mt Hj) as Ea.
    pose proof (step_apply_gen hstate host P ea _ x pcx sg vs fs (fst s) mt _ pcb Hx Hn Ea Hpcb) as Hs1.
    cbn [regs vals frames hs tr] in Hs1.
    destruct (IH n (le_n n)) as (_ & _ & _ & _ & HB).
    destruct (HB b x s v s' H Hf Hsh Hsq (N.to_nat body) pcb jb1 ob1 jb2 sg vs ((S pcx, sg) :: fs) mt Hp Hj Hlb Ho)
      as (junk & vin' & mt' & Hst & Ho').
    exists mt'. split; auto.
    eapply star_step; [exact Hs1|]. eapply star_trans; [exact Hst|].
    apply star_one. apply step_end_frame; auto.
  - (* an external value: the host's apply *)
    unfold call_host in H. destruct (host (fst s) (HApply n0 x)) as [h' r] eqn:Hh.
    injection H as <- <-. cbn [fst snd].
    pose proof (apply_ext hstate host P (apply_instr ea) n0 x pcx sg vs fs (fst s) mt) as Ea.
    rewrite Hh in Ea. cbn [fst snd] in Ea.
    exists (mt ++ [HApply n0 x]). split.
    + apply star_one.
      rewrite (step_apply_gen hstate host P ea _ x pcx sg vs fs (fst s) mt _ (S pcx) Hx Hn Ea Hl). reflexivity.
    + rewrite observable_app, Ho. reflexivity.
Qed.

(* ---- an expression body ---- *)
Lemma sim_body_step : SimBody (S n).
Proof.
  intros b vin s v s' H Hf Hsh Hsq cont pcb j ob jb sg vs fs mt Hp Hj Hl Ho.
  rewrite run_body_S' in H.
  assert (Hpcb : pcb < length C) by lia.
  destruct (IH n (le_n n)) as (HE & _ & _ & _ & HB).
  destruct (Eval.eval sym_hash hstate host pbodies n b vin s) as [v0 s0 | v1 s1 | w | ] eqn:Ev; try discriminate.
  - injection H as -> ->.
    destruct (HE b vin s (ODone v s') Ev Hf Hsh true Hsq cont pcb pcb j ob jb sg vs fs mt Hp Hj Hpcb Hl Ho)
      as (vin' & mt' & Hst & Ho' & _).
    exists [], vin', mt'. split; auto.
  - destruct (HE b vin s (ORestart v1 s1) Ev Hf Hsh true Hsq cont pcb pcb j ob jb sg vs fs mt Hp Hj Hpcb Hl Ho)
      as (junk1 & mt1 & Hst1 & Ho1).
    destruct (HB b v1 s1 v s' H Hf Hsh Hsq cont pcb j ob jb (junk1 ++ sg) vs fs mt1 Hp Hj Hl Ho1)
      as (junk2 & vin' & mt2 & Hst2 & Ho2).
    exists (junk2 ++ junk1), vin', mt2. split; auto.
    rewrite <- app_assoc. eapply star_trans; [exact Hst1 | exact Hst2].
Qed.

Lemma sim_all_step : SimAll (S n).
Proof.
  repeat split.
  - apply sim_eval_step.
  - apply sim_items_step'.
  - apply sim_chain_step'.
  - apply sim_apply_step.
  - apply sim_body_step.
Qed.

End SimStep.
