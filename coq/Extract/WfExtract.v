(* Extraction for the C05 correspondence: parser and worklist-builder models,
   the tree compiler and the well-formedness checker (ExtrOcamlBasic only). *)
Require Import ExtrOcamlBasic.
From Coq Require Import List NArith ZArith.
From GV Require Import Base.Result Gen.TokenTypes Gen.Defs Gen.Instr Model.Parser Model.BuilderWL
  Model.Compile Spec.WfCode.
Cd "../build/ocaml".
Extraction "wf_model.ml" parse trim_tokens build build_fuel empty_init all_token_type all_instruction
  definition_index secondary_index instruction_index token_type_index Z.of_N N.of_nat N.to_nat
  compile_nodes same_code tree_of wf_report wf_code_b code_of_build.
Cd "../../coq".
