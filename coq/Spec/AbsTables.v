(* What C15 means: a store is six independent growable tables.  Pushing to
   one table appends to that table and to no other; a table entry changes
   only when an operation names it.  [abs] reads the six tables off the
   heap of the Basic model: per block, firstn cursor (skipn start heap). *)
From Coq Require Import List Arith.
From GV Require Import Model.StoreBase Model.BasicStore.
Import ListNotations.

Record tables : Type := mkTables {
  t_instr : list cell; t_jump : list cell; t_sym : list cell;
  t_expr : list cell; t_data : list cell; t_custom : list cell }.

Definition tget (t : tables) (b : blk) : list cell :=
  match b with
  | BInstr => t_instr t | BJump => t_jump t | BSym => t_sym t
  | BExpr => t_expr t | BData => t_data t | BCustom => t_custom t
  end.

Definition tset (t : tables) (b : blk) (l : list cell) : tables :=
  match b with
  | BInstr => mkTables l (t_jump t) (t_sym t) (t_expr t) (t_data t) (t_custom t)
  | BJump => mkTables (t_instr t) l (t_sym t) (t_expr t) (t_data t) (t_custom t)
  | BSym => mkTables (t_instr t) (t_jump t) l (t_expr t) (t_data t) (t_custom t)
  | BExpr => mkTables (t_instr t) (t_jump t) (t_sym t) l (t_data t) (t_custom t)
  | BData => mkTables (t_instr t) (t_jump t) (t_sym t) (t_expr t) l (t_custom t)
  | BCustom => mkTables (t_instr t) (t_jump t) (t_sym t) (t_expr t) (t_data t) l
  end.

(* append one entry to one table; the address is the old length *)
Definition tpush (b : blk) (c : cell) (t : tables) : tables * nat :=
  (tset t b (tget t b ++ [c]), length (tget t b)).

(* overwrite entry i of table b *)
Definition tupdate (b : blk) (i : nat) (c : cell) (t : tables) : option tables :=
  match set_ix (tget t b) i c with
  | Some l => Some (tset t b l)
  | None => None
  end.

Definition tread (b : blk) (i : nat) (t : tables) : option cell := nth_error (tget t b) i.

(* the abstraction function *)
Definition window (s : basic) (b : blk) : list cell :=
  firstn (b_cursor (get_block s b)) (skipn (b_start (get_block s b)) (heap s)).

Definition abs (s : basic) : tables :=
  mkTables (window s BInstr) (window s BJump) (window s BSym) (window s BExpr) (window s BData) (window s BCustom).
