(* A structurally recursive compiler from the AST to the instruction table and
   jump table that compiler/src/build/build.rs produces for the parsed text of
   that AST, in the same layout:

     root 0:  inline code of the program, EndExpression,
     then every out-of-line body (right operand of && / ||, arm of a
     conditional, body of a nested expression) in the order build()'s LIFO
     root stack pops them: a body pushed later is emitted earlier, and the
     bodies a body pushes follow it immediately.

   Jump-table entries are allocated in emission order: entry 0 is the program,
   then the entries of the inline code, then those of the out-of-line bodies
   in layout order.  Because sizes are compositional, every address and index
   is computed directly: an expression is compiled at a position
     pc  address of its first inline instruction
     j   first jump-table index its inline code allocates
     ob  address where its block of out-of-line bodies starts
     jb  first jump-table index that block allocates.

   Tied to the Rust builder on every run by the correspondence check (the
   instruction dump of the real build, and Model/BuilderWL.v run on the printed
   tokens: Model/CompileWL.v).  No proofs in this file.
   (Model/Compile.v is the labelled-tree compiler of C05/C06/C20; this file is the AST-level one.) *)
From Coq Require Import ZArith NArith List Bool Arith.
From GV Require Import Base.Host Gen.Instr Model.Num Model.Value Model.Machine Spec.Ast Spec.Eval.
Import ListNotations.

Record sz : Type := mkSz { si : nat; so : nat; sji : nat; sjo : nat }.
Definition sz_leaf : sz := mkSz 1 0 0 0.

Definition same_kind (a b : list_kind) : bool :=
  match a, b with Space, Space | Comma, Comma => true | _, _ => false end.
Definition in_list (lk : option list_kind) (k : list_kind) : bool :=
  match lk with Some k' => same_kind k' k | None => false end.

(* the body of the right operand of `&&` / `||` ends with Tis, JumpTo join *)
Definition logical_ends (r : expr) : nat := 2.

(* sizes of a chain: inline, inline jump entries, arms block (code, entries),
   item out-of-line block (code, entries), number of conditional items *)
Record csz : Type := mkCsz { ci : nat; cji : nat; cao : nat; cajo : nat; cio : nat; cijo : nat; cn : nat }.

Definition to_sz (c : csz) : sz := mkSz (ci c) (cio c) (cji c) (cijo c).
Definition of_sz (s : sz) : csz := mkCsz (si s) (sji s) 0 0 (so s) (sjo s) 0.

(* one recursion for both readings of a node: [inchain] = the node is an item
   (or a sub-chain) of an else-chain whose head is above it *)
Fixpoint sizesC (inchain : bool) (lk : option list_kind) (e : expr) {struct e} : csz :=
  let plain e' lk' := to_sz (sizesC false lk' e') in
  match e with
  | ELit _ | EValue | EIdent _ => of_sz sz_leaf
  | EUn _ x => let s := to_sz (sizesC false None x) in of_sz (mkSz (si s + 1) (so s) (sji s) (sjo s))
  | EBin _ l r =>
      let a := to_sz (sizesC false None l) in let b := to_sz (sizesC false None r) in
      of_sz (mkSz (si a + si b + 1) (so a + so b) (sji a + sji b) (sjo a + sjo b))
  | EAnd l r | EOr l r =>
      let a := to_sz (sizesC false None l) in let b := to_sz (sizesC false None r) in
      of_sz (mkSz (si a + 1) (si b + logical_ends r + so b + so a) (sji a + 2) (sji b + sjo b + sjo a))
  | EList k l r =>
      let a := to_sz (sizesC false (Some k) l) in let b := to_sz (sizesC false (Some k) r) in
      of_sz (mkSz (si a + si b + (if in_list lk k then 0 else 1)) (so a + so b) (sji a + sji b) (sjo a + sjo b))
  | EGroup x => of_sz (to_sz (sizesC false None x))
  | ECond _ c a =>
      let x := to_sz (sizesC false None c) in let y := to_sz (sizesC false None a) in
      if inchain then mkCsz (si x + 1) (sji x + 1) (si y + 1 + so y) (sji y + sjo y) (so x) (sjo x) 1
      else of_sz (mkSz (si x + 2) (si y + 1 + so y + so x) (sji x + 2) (sji y + sjo y + sjo x))
  | EElse l r =>
      let a := sizesC true None l in let b := sizesC true None r in
      if inchain then
        mkCsz (ci a + ci b) (cji a + cji b) (cao a + cao b) (cajo a + cajo b) (cio a + cio b) (cijo a + cijo b) (cn a + cn b)
      else
        let n := cn a + cn b in
        of_sz (mkSz (ci a + ci b) (cao a + cao b + cio a + cio b)
                    (cji a + cji b + (if Nat.eqb n 0 then 0 else 1)) (cajo a + cajo b + cijo a + cijo b))
  | ESeq _ l r =>
      let a := to_sz (sizesC false None l) in let b := to_sz (sizesC false None r) in
      of_sz (mkSz (si a + 1 + si b) (so a + so b) (sji a + sji b) (sjo a + sjo b))
  | ESide a s =>
      let x := to_sz (sizesC false None a) in let y := to_sz (sizesC false None s) in
      of_sz (mkSz (si x + 1 + si y + 1) (so x + so y) (sji x + sji y) (sjo x + sjo y))
  | ENested _ b =>
      let y := to_sz (sizesC false None b) in of_sz (mkSz 1 (si y + 1 + so y) 1 (sji y + sjo y))
  | EReapply x => let s := to_sz (sizesC false None x) in of_sz (mkSz (si s + 2) (so s) (sji s) (sjo s))
  end.
Definition sizes (lk : option list_kind) (e : expr) : sz := to_sz (sizesC false lk e).
Definition csizes (e : expr) : csz := sizesC true None e.

Record frag : Type := mkFrag { f_inl : list minstr; f_ool : list minstr; f_ji : list nat; f_jo : list nat }.
Record cfrag : Type := mkCfrag {
  c_inl : list minstr; c_ji : list nat;
  c_arms : list minstr; c_ajo : list nat;
  c_iool : list minstr; c_ijo : list nat }.

Definition ins (i : instruction) : minstr := (i, MNone).
Definition insn (i : instruction) (n : nat) : minstr := (i, MNum n).

Definition unop_instr (o : unop) : instruction :=
  match o with
  | UAbs => I_AbsoluteValue | UNeg => I_Opposite | UBitNot => I_BitwiseNot
  | UNot => I_Not | UTis => I_Tis | ULeft => I_AccessLeftInternal
  | URight => I_AccessRightInternal | ULen => I_AccessLengthInternal | UEmptyApply => I_EmptyApply
  end.
Definition binop_instr (o : binop) : instruction :=
  match o with
  | BAdd => I_Add | BSub => I_Subtract | BMul => I_Multiply | BDiv => I_Divide
  | BIntDiv => I_IntegerDivide | BPow => I_Power | BRem => I_Remainder
  | BBitAnd => I_BitwiseAnd | BBitOr => I_BitwiseOr | BBitXor => I_BitwiseXor
  | BShl => I_BitwiseShiftLeft | BShr => I_BitwiseShiftRight
  | BLt => I_LessThan | BLe => I_LessThanOrEqual | BGt => I_GreaterThan | BGe => I_GreaterThanOrEqual
  | BEq => I_Equal | BNe => I_NotEqual | BXor => I_Xor
  | BPair => I_MakePair | BAccess => I_Access | BApply => I_Apply | BApplyTo => I_Apply
  end.
(* Pair and ApplyTo push (left, right): the right operand is emitted first *)
Definition right_first (o : binop) : bool :=
  match o with BPair | BApplyTo => true | _ => false end.

(* number of items a list node of kind k collects from e *)
Fixpoint leaves (k : list_kind) (e : expr) : nat :=
  match e with
  | EList k' l r => if same_kind k k' then leaves k l + leaves k r else 1
  | _ => 1
  end.

Section Compile.
Variable sym_hash : list N -> N.

Definition atom_instr (e : expr) : minstr :=
  match e with
  | ELit l => (I_Put, MVal (lit_val sym_hash l))
  | EValue => ins I_PutValue
  | EIdent name => (I_Resolve, MVal (VSym (sym_hash name)))
  | _ => ins I_Invalid
  end.

Definition to_frag (c : cfrag) : frag := mkFrag (c_inl c) (c_iool c) (c_ji c) (c_ijo c).
Definition of_frag (f : frag) : cfrag := mkCfrag (f_inl f) (f_ji f) [] [] (f_ool f) (f_jo f).

(* [cont]: jump-table index of the enclosing expression body (what `^~` jumps to).
   One recursion for both readings of a node (see sizesC).  Plain reading:
   position (pc, j, ob, jb).  Chain reading: [aob]/[ajb] where this
   sub-chain's arms go, [ob]/[jb] where the out-of-line bodies of its
   conditions go, [jjoin] the chain's join entry. *)
Fixpoint compC (inchain : bool) (cont : nat) (lk : option list_kind) (e : expr)
         (pc j aob ajb ob jb jjoin : nat) {struct e} : cfrag :=
  match e with
  | ELit _ | EValue | EIdent _ => of_frag (mkFrag [atom_instr e] [] [] [])
  | EUn o x =>
      let f := to_frag (compC false cont None x pc j 0 0 ob jb 0) in
      of_frag (mkFrag (f_inl f ++ [ins (unop_instr o)]) (f_ool f) (f_ji f) (f_jo f))
  | EBin o l r =>
      let a := sizes None l in let b := sizes None r in
      if right_first o then
        let fr := to_frag (compC false cont None r pc j 0 0 (ob + so a) (jb + sjo a) 0) in
        let fl := to_frag (compC false cont None l (pc + si b) (j + sji b) 0 0 ob jb 0) in
        of_frag (mkFrag (f_inl fr ++ f_inl fl ++ [ins (binop_instr o)]) (f_ool fl ++ f_ool fr)
                        (f_ji fr ++ f_ji fl) (f_jo fl ++ f_jo fr))
      else
        let fl := to_frag (compC false cont None l pc j 0 0 (ob + so b) (jb + sjo b) 0) in
        let fr := to_frag (compC false cont None r (pc + si a) (j + sji a) 0 0 ob jb 0) in
        of_frag (mkFrag (f_inl fl ++ f_inl fr ++ [ins (binop_instr o)]) (f_ool fr ++ f_ool fl)
                        (f_ji fl ++ f_ji fr) (f_jo fr ++ f_jo fl))
  | EAnd l r | EOr l r =>
      let i := match e with EAnd _ _ => I_And | _ => I_Or end in
      let a := sizes None l in let b := sizes None r in
      let lr := si b + logical_ends r + so b in                 (* size of the body of r *)
      let fl := to_frag (compC false cont None l pc j 0 0 (ob + lr) (jb + sji b + sjo b) 0) in
      let jr := j + sji a in                                    (* entry of the right operand *)
      let jj := jr + 1 in
      let fr := to_frag (compC false cont None r ob jb 0 0 (ob + si b + logical_ends r) (jb + sji b) 0) in
      let ends := [ins I_Tis; insn I_JumpTo jj] in
      of_frag (mkFrag (f_inl fl ++ [insn i jr])
                      (f_inl fr ++ ends ++ f_ool fr ++ f_ool fl)
                      (f_ji fl ++ [ob; pc + si a + 1])
                      (f_ji fr ++ f_jo fr ++ f_jo fl))
  | EList k l r =>
      let a := sizes (Some k) l in let b := sizes (Some k) r in
      let fl := to_frag (compC false cont (Some k) l pc j 0 0 (ob + so b) (jb + sjo b) 0) in
      let fr := to_frag (compC false cont (Some k) r (pc + si a) (j + sji a) 0 0 ob jb 0) in
      of_frag (mkFrag (f_inl fl ++ f_inl fr ++ (if in_list lk k then [] else [insn I_MakeList (leaves k e)]))
                      (f_ool fr ++ f_ool fl) (f_ji fl ++ f_ji fr) (f_jo fr ++ f_jo fl))
  | EGroup x => of_frag (to_frag (compC false cont None x pc j 0 0 ob jb 0))
  | ECond neg c a =>
      let x := sizes None c in let y := sizes None a in
      let jmp := if neg then I_JumpIfFalse else I_JumpIfTrue in
      if inchain then
        let fc := to_frag (compC false cont None c pc j 0 0 ob jb 0) in
        let ja := j + sji x in
        let fa := to_frag (compC false cont None a aob ajb 0 0 (aob + si y + 1) (ajb + sji y) 0) in
        mkCfrag (f_inl fc ++ [insn jmp ja]) (f_ji fc ++ [aob])
                (f_inl fa ++ [insn I_JumpTo jjoin] ++ f_ool fa) (f_ji fa ++ f_jo fa)
                (f_ool fc) (f_jo fc)
      else
        let la := si y + 1 + so y in
        let fc := to_frag (compC false cont None c pc j 0 0 (ob + la) (jb + sji y + sjo y) 0) in
        let ja := j + sji x in
        let jj := ja + 1 in
        let fa := to_frag (compC false cont None a ob jb 0 0 (ob + si y + 1) (jb + sji y) 0) in
        of_frag (mkFrag (f_inl fc ++ [insn jmp ja; ins I_PutValue])
                        (f_inl fa ++ [insn I_JumpTo jj] ++ f_ool fa ++ f_ool fc)
                        (f_ji fc ++ [ob; pc + si x + 2])
                        (f_ji fa ++ f_jo fa ++ f_jo fc))
  | EElse l r =>
      let a := csizes l in let b := csizes r in
      if inchain then
        let fl := compC true cont None l pc j (aob + cao b) (ajb + cajo b) (ob + cio b) (jb + cijo b) jjoin in
        let fr := compC true cont None r (pc + ci a) (j + cji a) aob ajb ob jb jjoin in
        mkCfrag (c_inl fl ++ c_inl fr) (c_ji fl ++ c_ji fr)
                (c_arms fr ++ c_arms fl) (c_ajo fr ++ c_ajo fl)
                (c_iool fr ++ c_iool fl) (c_ijo fr ++ c_ijo fl)
      else
        let n := cn a + cn b in
        let jj := j + cji a + cji b in
        let arms_total := cao b + cao a in
        let arms_jtotal := cajo b + cajo a in
        (* arms of r are laid out before the arms of l; item bodies of r before those of l *)
        let fl := compC true cont None l pc j (ob + cao b) (jb + cajo b)
                        (ob + arms_total + cio b) (jb + arms_jtotal + cijo b) jj in
        let fr := compC true cont None r (pc + ci a) (j + cji a) ob jb
                        (ob + arms_total) (jb + arms_jtotal) jj in
        of_frag (mkFrag (c_inl fl ++ c_inl fr)
                        (c_arms fr ++ c_arms fl ++ c_iool fr ++ c_iool fl)
                        (c_ji fl ++ c_ji fr ++ (if Nat.eqb n 0 then [] else [pc + ci a + ci b]))
                        (c_ajo fr ++ c_ajo fl ++ c_ijo fr ++ c_ijo fl))
  | ESeq _ l r =>
      let a := sizes None l in let b := sizes None r in
      let fl := to_frag (compC false cont None l pc j 0 0 (ob + so b) (jb + sjo b) 0) in
      let fr := to_frag (compC false cont None r (pc + si a + 1) (j + sji a) 0 0 ob jb 0) in
      of_frag (mkFrag (f_inl fl ++ [ins I_UpdateValue] ++ f_inl fr) (f_ool fr ++ f_ool fl)
                      (f_ji fl ++ f_ji fr) (f_jo fr ++ f_jo fl))
  | ESide at_ sd =>
      let a := sizes None at_ in let b := sizes None sd in
      let fa := to_frag (compC false cont None at_ pc j 0 0 (ob + so b) (jb + sjo b) 0) in
      let fs := to_frag (compC false cont None sd (pc + si a + 1) (j + sji a) 0 0 ob jb 0) in
      of_frag (mkFrag (f_inl fa ++ [ins I_StartSideEffect] ++ f_inl fs ++ [ins I_EndSideEffect])
                      (f_ool fs ++ f_ool fa) (f_ji fa ++ f_ji fs) (f_jo fs ++ f_jo fa))
  | ENested _ b =>
      let y := sizes None b in
      let fb := to_frag (compC false j None b ob jb 0 0 (ob + si y + 1) (jb + sji y) 0) in
      of_frag (mkFrag [(I_Put, MVal (VExpr (N.of_nat j)))]
                      (f_inl fb ++ [ins I_EndExpression] ++ f_ool fb)
                      [ob]
                      (f_ji fb ++ f_jo fb))
  | EReapply x =>
      let f := to_frag (compC false cont None x pc j 0 0 ob jb 0) in
      of_frag (mkFrag (f_inl f ++ [ins I_UpdateValue; insn I_JumpTo cont]) (f_ool f) (f_ji f) (f_jo f))
  end.

Definition comp (cont : nat) (lk : option list_kind) (e : expr) (pc j ob jb : nat) : frag :=
  to_frag (compC false cont lk e pc j 0 0 ob jb 0).
Definition comp_chain (cont : nat) (e : expr) (pc j aob ajb iob ijb jjoin : nat) : cfrag :=
  compC true cont None e pc j aob ajb iob ijb jjoin.

(* the whole program: jump entry 0 is the program itself *)
Definition compile_prog (e : expr) : program :=
  let s := sizes None e in
  let f := comp 0 None e 0 1 (si s + 1) (1 + sji s) in
  mkProg (f_inl f ++ [ins I_EndExpression] ++ f_ool f) (0 :: f_ji f ++ f_jo f).

End Compile.
