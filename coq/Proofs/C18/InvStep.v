(* Every step of the main loop preserves the invariant of Invariant.v. *)
From Coq Require Import List Arith Bool NArith Lia Sorted.
From GV Require Import Base.Result Gen.TokenTypes Gen.Defs Model.Parser Spec.Layout Spec.LayoutSim
  Proofs.C18.StepParts Proofs.C18.Settled Proofs.C18.Invariant.
Import ListNotations.

Definition stk (st : pstate) : list nat := rev (map fst (group_stack st)).
Definition ugv (st : pstate) : option nat := hd_error (stk st).
Definition M_ok (st : pstate) : Prop :=
  current_group st = match group_stack st with [] => None | _ => Some (length (group_stack st) - 1) end.

Record Inv (st : pstate) : Prop := mkInv {
  i_nll : next_last_left st = None;
  i_m : M_ok st;
  i_wf : WF (nodes st) (stk st);
  i_np : ge_top (next_parent st) (ugv st);
  i_ll : ge_top (last_left st) (ugv st)
}.

Lemma stk_snoc (gs : list (nat * bool)) g b : rev (map fst (gs ++ [(g, b)])) = g :: rev (map fst gs).
Proof. rewrite map_app, rev_app_distr. reflexivity. Qed.

Lemma ug_of_M st : M_ok st -> under_group_of st = Ok (ugv st).
Proof.
  unfold M_ok, under_group_of, ugv, stk. intros ->.
  destruct (group_stack st) as [|a l] eqn:E; [reflexivity|].
  destruct (@exists_last _ (a :: l) ltac:(discriminate)) as (l' & [g b] & Hl). rewrite Hl.
  rewrite app_length. cbn [length]. replace (length l' + 1 - 1) with (length l') by lia.
  rewrite nth_error_app2, Nat.sub_diag by lia. cbn [nth_error]. rewrite stk_snoc. reflexivity.
Qed.

Lemma removelast_pair_snoc {A} (l : list A) l' x : removelast_pair l = Some (l', x) -> l = l' ++ [x].
Proof.
  revert l' x. induction l as [|a r IH]; intros l' x H; [discriminate H|].
  cbn [removelast_pair] in H. destruct r as [|b r'].
  - injection H as <- <-. reflexivity.
  - destruct (removelast_pair (b :: r')) as [[r'' y]|] eqn:E; [|discriminate H].
    injection H as <- <-. cbn [app]. f_equal. apply IH. reflexivity.
Qed.

(* ---- the adjusted state ---- *)
Lemma adjusted_inv st0 ug ll ps pg :
  Inv st0 -> under_group_of st0 = Ok ug -> adjust3_of st0 ug = Ok (ll, ps, pg) ->
  Inv (adjusted st0 ll ps pg) /\ ug = ugv st0.
Proof.
  intros HI Hug Ha. rewrite (ug_of_M _ (i_m _ HI)) in Hug. injection Hug as <-. split; [|reflexivity].
  constructor; try exact (i_nll _ HI); try exact (i_m _ HI); try exact (i_wf _ HI); try exact (i_np _ HI).
  change (ge_top ll (ugv st0)). pose proof (i_ll _ HI) as Hl. unfold adjust3_of in Ha.
  destruct (last_left st0) as [li|] eqn:El; [|injection Ha as <- _ _; destruct (ugv st0); exact I].
  destruct (nth_error (nodes st0) li) as [n|] eqn:En; [|discriminate Ha].
  match type of Ha with (if ?c then _ else _) = _ => destruct c eqn:Ec end; injection Ha as <- _ _; [|exact Hl].
  destruct (ugv st0) as [u|] eqn:Eu; [|exact I]. cbn in Hl |- *.
  apply andb_true_iff in Ec. destruct Ec as [Ec _]. apply andb_true_iff in Ec. destruct Ec as [Ec _].
  apply andb_true_iff in Ec. destruct Ec as [_ Ec]. apply negb_true_iff in Ec. cbn [opt_nat_eqb] in Ec.
  apply Nat.eqb_neq in Ec.
  assert (Hu : In u (stk st0)) by (unfold ugv in Eu; destruct (stk st0); [discriminate Eu|injection Eu as ->; left; reflexivity]).
  destruct (wf_inside _ _ (i_wf _ HI) u Hu li n En) as [H1 _]. apply H1. lia.
Qed.

(* ---- parse_token keeps WF ---- *)
Lemma PT_WF id d l ns rtl ns' p tl S :
  WF ns S -> id = length ns -> parse_token id d l ns (hd_error S) rtl = Ok (ns', p, tl) -> ge_top l (hd_error S) ->
  WF ns' S /\ length ns' = length ns /\ ge_top p (hd_error S) /\ gt_top tl (hd_error S) /\
  (d = D_SideEffect -> rtl = false -> forall pp, p = Some pp ->
     exists pn, nth_error ns' pp = Some pn /\ (shape2 pn = false \/ hd_error S = Some pp)).
Proof.
  intros W Hid H Hl.
  assert (Hin : forall u, hd_error S = Some u -> In u S)
    by (intros u Hu; destruct S; [discriminate Hu|injection Hu as ->; left; reflexivity]).
  destruct (parse_token_spec id d l ns (hd_error S) rtl ns' p tl) as (R & A & B & C & D & E); try assumption.
  - intros u Hu. exact (wf_inside _ _ W u (Hin u Hu)).
  - intros u Hu. exact (wf_group _ _ W u (Hin u Hu)).
  - intros u Hu. subst id. exact (wf_range _ _ W u (Hin u Hu)).
  - assert (W' : WF ns' S).
    { destruct (hd_error S) as [u|] eqn:Eu.
      - apply (WF_GRel u ns ns' S W Eu). apply (Rel_GRel id); [exact R|]. subst id. exact (wf_range _ _ W u (Hin u eq_refl)).
      - destruct S; [apply WF_nil|discriminate Eu]. }
    split; [exact W'|]. split; [exact (proj1 R)|]. split; [exact A|]. split; [exact B|].
    intros Hd Hr pp Hpp. destruct (E Hd Hr pp Hpp) as (pn & Hpn & Hs).
    assert (Hlt : pp < length ns') by (rewrite (proj1 R); apply nth_error_Some; rewrite Hpn; discriminate).
    destruct (nth_error ns' pp) as [pn'|] eqn:Epn'; [|apply nth_error_None in Epn'; lia].
    exists pn'. split; [reflexivity|]. destruct (proj2 R pp pn' Epn') as (pn0 & Hpn0 & D0 & F0 & _).
    rewrite Hpn in Hpn0. injection Hpn0 as <-.
    destruct Hs as [Hs|Hs]; [left|right; exact Hs]. unfold shape2. rewrite D0.
    destruct (definition_eqb (n_def pn) D_SideEffect) eqn:Ed; [|reflexivity].
    exfalso. apply Hs, definition_eqb_SE, Ed.
Qed.

(* ---- the final push ---- *)
Lemma pushed_fields i sec st1 d p l r :
  definition_eqb d D_Drop = false ->
  exists x, pushed_nodes i sec st1 (d, p, l, r) = nodes st1 ++ [x] /\
            n_parent x = p /\ n_left x = l /\ n_right x = r /\
            (definition_eqb d D_Identifier = false -> n_def x = d).
Proof.
  intros Hd. unfold pushed_nodes. rewrite Hd. eexists. split; [reflexivity|]. cbn [n_parent n_left n_right n_def].
  repeat split. intros ->. reflexivity.
Qed.

Lemma finish_inv i sec cid st1 inf :
  WF (pushed_nodes i sec st1 inf) (stk st1) -> M_ok st1 -> ge_top (next_parent st1) (ugv st1) ->
  (forall k, next_last_left st1 = Some k -> ge_top (Some k) (ugv st1)) ->
  (next_last_left st1 = None -> ge_top (Some cid) (ugv st1)) ->
  Inv (step_finish i sec cid (st1, inf)).
Proof.
  intros W Hm Hnp Hk Hc. constructor.
  - reflexivity.
  - exact Hm.
  - exact W.
  - exact Hnp.
  - change (ge_top (match next_last_left st1 with
                    | Some k => Some k
                    | None => match pushed_nodes i sec st1 inf with [] => None | _ => Some cid end
                    end) (ugv st1)).
    destruct (next_last_left st1) as [k|]; [exact (Hk k eq_refl)|].
    destruct (pushed_nodes i sec st1 inf); [destruct (ugv st1); exact I|exact (Hc eq_refl)].
Qed.

(* pushing the token's node on a WF list, fields bounded against the innermost group *)
Lemma WF_pushed i sec st1 d p l r S :
  WF (nodes st1) S -> ge_top p (hd_error S) -> gt_top l (hd_error S) -> gt_top r (hd_error S) ->
  WF (pushed_nodes i sec st1 (d, p, l, r)) S.
Proof.
  intros W Hp Hl Hr. destruct (definition_eqb d D_Drop) eqn:Ed.
  - unfold pushed_nodes. rewrite Ed. exact W.
  - destruct (pushed_fields i sec st1 d p l r Ed) as (x & -> & Xp & Xl & Xr & _).
    apply WF_push; [exact W|]. rewrite Xp, Xl, Xr. exact (bounds_top S p l r (wf_dec _ _ W) Hp Hl Hr).
Qed.

Lemma gt_top_len ns S k : WF ns S -> length ns <= k -> gt_top (Some k) (hd_error S).
Proof.
  intros W Hk. destruct S as [|u r]; [exact I|]. cbn. pose proof (wf_range _ _ W u (or_introl eq_refl)). lia.
Qed.
Lemma gt_ge_top o ug : gt_top o ug -> ge_top o ug.
Proof. destruct ug; [apply ogt_oge|auto]. Qed.
Lemma gt_top_None ug : gt_top None ug.
Proof. destruct ug; exact I. Qed.
Lemma ge_top_None ug : ge_top None ug.
Proof. destruct ug; exact I. Qed.

Lemma assumed_right_gt ns S (b : bool) :
  WF ns S -> gt_top (if b then None else Some (length ns + 1)) (hd_error S).
Proof. intros W. destruct b; [apply gt_top_None|apply (gt_top_len ns S _ W); lia]. Qed.

(* ---- the arms ---- *)
Section ArmsInv.
Variables (i : nat) (sec : secondary) (st : pstate) (t : tail4).
Hypothesis HI : Inv st.
Let cid := length (nodes st).
Let ug := ugv st.

Lemma cid_ge : ge_top (Some cid) ug.
Proof. apply gt_ge_top. apply (gt_top_len (nodes st) (stk st) cid (i_wf _ HI)). unfold cid. lia. Qed.

Lemma ll_or_cid : forall o, o = last_left st ->
  (forall k, o = Some k -> ge_top (Some k) ug) /\ (o = None -> ge_top (Some cid) ug).
Proof. intros o ->. split; [intros k Hk; rewrite <- Hk; exact (i_ll _ HI)|intros _; exact cid_ge]. Qed.

Lemma arm_ws_inv r : arm_ws st ug t = Ok r -> Inv (step_finish i sec cid r).
Proof.
  unfold arm_ws. destruct (space_list_check st ug) as [cfl| | |]; cbn [bind]; try discriminate.
  intros H. injection H as <-. destruct (ll_or_cid _ eq_refl) as [A B].
  apply finish_inv; [exact (i_wf _ HI)|exact (i_m _ HI)|exact (i_np _ HI)|exact A|exact B].
Qed.

Lemma arm_annot_inv r : arm_annot D_Drop st t = Ok r -> Inv (step_finish i sec cid r).
Proof.
  unfold arm_annot. intros H. injection H as <-. destruct (ll_or_cid _ eq_refl) as [A B].
  apply finish_inv; [exact (i_wf _ HI)|exact (i_m _ HI)|exact (i_np _ HI)|exact A|exact B].
Qed.

(* a list node synthesised in front of the token's node *)
Lemma make_list_node_WF ns : make_list_node cid (cid + 1) st ug = Ok ns ->
  WF ns (stk st) /\ length ns = S cid.
Proof.
  unfold make_list_node.
  destruct (parse_token cid D_List (last_left st) (nodes st) ug false) as [[[ns1 p] tl]| | |] eqn:Ep; cbn [bind]; try discriminate.
  intros H. injection H as <-.
  destruct (PT_WF cid D_List _ _ false _ _ _ (stk st) (i_wf _ HI) eq_refl Ep (i_ll _ HI)) as (W1 & L1 & A & B & _).
  split; [|rewrite app_length, L1; cbn [length]; unfold cid; lia].
  apply WF_push; [exact W1|]. cbn [n_parent n_left n_right].
  apply (bounds_top (stk st) p tl (Some (cid + 1)) (wf_dec _ _ W1) A B).
  apply (gt_top_len ns1 (stk st) _ W1). rewrite L1. unfold cid. lia.
Qed.

Lemma arm_value_inv d r : arm_value cid d st ug t = Ok r -> Inv (step_finish i sec cid r).
Proof.
  unfold arm_value. destruct (check_for_list st).
  - destruct (make_list_node cid (cid + 1) st ug) as [ns| | |] eqn:El; cbn [bind]; try discriminate.
    destruct (make_list_node_WF ns El) as [Wn Ln].
    destruct (parse_token (cid + 1) d (Some cid) ns ug false) as [[[ns2 p] tl]| | |] eqn:Ep; cbn [bind]; try discriminate.
    intros H. injection H as <-.
    destruct (PT_WF (cid + 1) d _ _ false _ _ _ (stk st) Wn ltac:(lia) Ep cid_ge) as (W2 & L2 & A & B & _).
    apply finish_inv; cbn [next_last_left nodes next_parent].
    + apply WF_pushed; [exact W2|exact A|exact B|apply gt_top_None].
    + exact (i_m _ HI).
    + exact (i_np _ HI).
    + intros k Hk. injection Hk as <-. apply gt_ge_top, (gt_top_len ns (stk st) _ Wn). lia.
    + discriminate.
  - destruct (parse_token cid d (last_left st) (nodes st) ug false) as [[[ns2 p] tl]| | |] eqn:Ep; cbn [bind]; try discriminate.
    intros H. injection H as <-.
    destruct (PT_WF cid d _ _ false _ _ _ (stk st) (i_wf _ HI) eq_refl Ep (i_ll _ HI)) as (W2 & L2 & A & B & _).
    apply finish_inv; cbn [next_last_left nodes next_parent].
    + apply WF_pushed; [exact W2|exact A|exact B|apply gt_top_None].
    + exact (i_m _ HI).
    + exact (i_np _ HI).
    + rewrite (i_nll _ HI). discriminate.
    + intros _. exact cid_ge.
Qed.

Lemma ar_gt (b : bool) ns : WF ns (stk st) -> length ns = cid ->
  gt_top (if b then None else Some (cid + 1)) ug.
Proof. intros W L. rewrite <- L. apply assumed_right_gt, W. Qed.

Lemma arm_binary_inv rtl (b : bool) d r :
  arm_binary rtl cid (if b then None else Some (cid + 1)) d st ug t = Ok r -> Inv (step_finish i sec cid r).
Proof.
  unfold arm_binary.
  destruct (parse_token cid d (last_left st) (nodes st) ug rtl) as [[[ns2 p] tl]| | |] eqn:Ep; cbn [bind]; try discriminate.
  intros H. injection H as <-.
  destruct (PT_WF cid d _ _ rtl _ _ _ (stk st) (i_wf _ HI) eq_refl Ep (i_ll _ HI)) as (W2 & L2 & A & B & _).
  apply finish_inv; cbn [next_last_left nodes next_parent].
  - apply WF_pushed; [exact W2|exact A|exact B|exact (ar_gt b ns2 W2 L2)].
  - exact (i_m _ HI).
  - exact cid_ge.
  - rewrite (i_nll _ HI). discriminate.
  - intros _. exact cid_ge.
Qed.

Lemma arm_suffix_inv d r : arm_suffix cid d st ug t = Ok r -> Inv (step_finish i sec cid r).
Proof.
  unfold arm_suffix.
  destruct (parse_token cid d (last_left st) (nodes st) ug false) as [[[ns2 p] tl]| | |] eqn:Ep; cbn [bind]; try discriminate.
  intros H. injection H as <-.
  destruct (PT_WF cid d _ _ false _ _ _ (stk st) (i_wf _ HI) eq_refl Ep (i_ll _ HI)) as (W2 & L2 & A & B & _).
  apply finish_inv; cbn [next_last_left nodes next_parent].
  - apply WF_pushed; [exact W2|exact A|exact B|apply gt_top_None].
  - exact (i_m _ HI).
  - exact cid_ge.
  - rewrite (i_nll _ HI). discriminate.
  - intros _. exact cid_ge.
Qed.

Lemma arm_prefix_inv (b : bool) d r :
  arm_prefix cid (if b then None else Some (cid + 1)) d st ug t = Ok r -> Inv (step_finish i sec cid r).
Proof.
  unfold arm_prefix. destruct (check_for_list st).
  - destruct (make_list_node cid (cid + 1) st ug) as [ns| | |] eqn:El; cbn [bind]; try discriminate.
    destruct (make_list_node_WF ns El) as [Wn Ln].
    intros H. injection H as <-.
    apply finish_inv; cbn [next_last_left nodes next_parent].
    + apply WF_pushed; [exact Wn|exact cid_ge|apply gt_top_None|apply (gt_top_len ns (stk st) _ Wn); lia].
    + exact (i_m _ HI).
    + apply gt_ge_top, (gt_top_len ns (stk st) _ Wn). lia.
    + intros k Hk. injection Hk as <-. apply gt_ge_top, (gt_top_len ns (stk st) _ Wn). lia.
    + discriminate.
  - intros H. injection H as <-.
    apply finish_inv; cbn [next_last_left nodes next_parent].
    + apply WF_pushed; [exact (i_wf _ HI)|exact (i_np _ HI)|apply gt_top_None|exact (ar_gt b _ (i_wf _ HI) eq_refl)].
    + exact (i_m _ HI).
    + exact cid_ge.
    + rewrite (i_nll _ HI). discriminate.
    + intros _. exact cid_ge.
Qed.
End ArmsInv.

Lemma M_ok_snoc (gs : list (nat * bool)) x :
  Some (length gs) = match gs ++ [x] with [] => None | _ => Some (length (gs ++ [x]) - 1) end.
Proof.
  destruct (gs ++ [x]) eqn:E; [destruct gs; discriminate E|]. rewrite <- E, app_length. cbn [length]. f_equal. lia.
Qed.

Section ArmsStack.
Variables (i : nat) (sec : secondary) (st : pstate) (t : tail4).
Hypothesis HI : Inv st.
Let cid := length (nodes st).
Let ug := ugv st.

Lemma stack_lt_cid : forall x, In x (stk st) -> x < cid.
Proof. intros x Hx. exact (wf_range _ _ (i_wf _ HI) x Hx). Qed.

Lemma arm_startgroup_inv (b : bool) d r :
  is_group_like d = true -> d <> D_SideEffect ->
  arm_startgroup cid (if b then None else Some (cid + 1)) d st ug t = Ok r -> Inv (step_finish i sec cid r).
Proof.
  intros Hgl Hnse.
  assert (Hdrop : definition_eqb d D_Drop = false) by (destruct d; try discriminate Hgl; reflexivity).
  assert (Hid : definition_eqb d D_Identifier = false) by (destruct d; try discriminate Hgl; reflexivity).
  unfold arm_startgroup. destruct (check_for_list st).
  - destruct (make_list_node cid (cid + 1) st ug) as [ns| | |] eqn:El; cbn [bind]; try discriminate.
    destruct (make_list_node_WF st HI ns El) as [Wn Ln]. fold cid in Ln.
    intros H. injection H as <-.
    destruct (pushed_fields i sec
                (mkState ns (Some (cid + 1)) (last_left st) false (last_token st) (Some (cid + 1))
                         (group_stack st ++ [(cid + 1, false)]) (Some (length (group_stack st)))
                         (t_prev t) (t_sig t) (t_sep t) (t_se t))
                d (Some cid) None (Some (cid + 1 + 1)) Hdrop) as (x & Epush & Xp & Xl & Xr & Xd).
    specialize (Xd Hid). cbn [nodes] in Epush.
    apply finish_inv; cbn [next_last_left nodes next_parent group_stack current_group]; unfold ugv, stk;
      cbn [group_stack]; rewrite ?stk_snoc; cbn [hd_error].
    + rewrite Epush. apply (WF_open _ _ (cid + 1) x).
      * apply WF_push; [exact Wn|]. rewrite Xp, Xl, Xr.
        apply (bounds_top (stk st) (Some cid) None (Some (cid + 1 + 1)) (wf_dec _ _ Wn)).
        -- exact (cid_ge st HI).
        -- apply gt_top_None.
        -- apply (gt_top_len ns (stk st) _ Wn). lia.
      * rewrite app_length, Ln. cbn [length]. lia.
      * rewrite nth_error_app2 by lia. replace (cid + 1 - length ns) with 0 by lia. reflexivity.
      * rewrite Xd. exact Hgl.
      * rewrite Xr. cbn. lia.
      * intros y Hy. pose proof (stack_lt_cid y Hy). lia.
      * intros n p Hn Hd. rewrite nth_error_app2 in Hn by lia. replace (cid + 1 - length ns) with 0 in Hn by lia.
        injection Hn as <-. congruence.
    + unfold M_ok. cbn [current_group group_stack]. apply M_ok_snoc.
    + cbn. lia.
    + intros k Hk. injection Hk as <-. cbn. lia.
    + discriminate.
  - intros H. injection H as <-.
    destruct (pushed_fields i sec
                (mkState (nodes st) (Some cid) (last_left st) false (last_token st) (next_last_left st)
                         (group_stack st ++ [(cid, false)]) (Some (length (group_stack st)))
                         (t_prev t) (t_sig t) (t_sep t) (t_se t))
                d (next_parent st) None (if b then None else Some (cid + 1)) Hdrop) as (x & Epush & Xp & Xl & Xr & Xd).
    specialize (Xd Hid). cbn [nodes] in Epush.
    apply finish_inv; cbn [next_last_left nodes next_parent group_stack current_group]; unfold ugv, stk;
      cbn [group_stack]; rewrite ?stk_snoc; cbn [hd_error].
    + rewrite Epush. apply (WF_open _ _ cid x).
      * apply WF_push; [exact (i_wf _ HI)|]. rewrite Xp, Xl, Xr.
        apply (bounds_top (stk st) (next_parent st) None _ (wf_dec _ _ (i_wf _ HI))).
        -- exact (i_np _ HI).
        -- apply gt_top_None.
        -- exact (ar_gt st b _ (i_wf _ HI) eq_refl).
      * rewrite app_length. cbn [length]. unfold cid. lia.
      * rewrite nth_error_app2 by (unfold cid; lia). unfold cid. rewrite Nat.sub_diag. reflexivity.
      * rewrite Xd. exact Hgl.
      * rewrite Xr. destruct b; cbn; lia.
      * exact stack_lt_cid.
      * intros n p Hn Hd. rewrite nth_error_app2 in Hn by (unfold cid; lia). unfold cid in Hn. rewrite Nat.sub_diag in Hn.
        injection Hn as <-. congruence.
    + unfold M_ok. cbn [current_group group_stack]. apply M_ok_snoc.
    + cbn. lia.
    + rewrite (i_nll _ HI). discriminate.
    + intros _. cbn. lia.
Qed.

Lemma arm_startse_inv (b : bool) r :
  arm_startse cid (if b then None else Some (cid + 1)) D_SideEffect st ug t = Ok r -> Inv (step_finish i sec cid r).
Proof.
  unfold arm_startse.
  destruct (parse_token cid D_SideEffect (last_left st) (nodes st) ug false) as [[[ns2 p] tl]| | |] eqn:Ep; cbn [bind]; try discriminate.
  intros H. injection H as <-.
  destruct (PT_WF cid D_SideEffect _ _ false _ _ _ (stk st) (i_wf _ HI) eq_refl Ep (i_ll _ HI)) as (W2 & L2 & A & B & E).
  destruct (pushed_fields i sec
              (mkState ns2 (Some cid) (last_left st) false (last_token st) (next_last_left st)
                       (group_stack st ++ [(cid, check_for_list st)]) (Some (length (group_stack st)))
                       (t_prev t) (t_sig t) (t_sep t) (t_se t))
              D_SideEffect p tl (if b then None else Some (cid + 1)) eq_refl) as (x & Epush & Xp & Xl & Xr & Xd).
  specialize (Xd eq_refl). cbn [nodes] in Epush.
  apply finish_inv; cbn [next_last_left nodes next_parent group_stack current_group]; unfold ugv, stk;
    cbn [group_stack]; rewrite ?stk_snoc; cbn [hd_error].
  - rewrite Epush. apply (WF_open _ _ cid x).
    + apply WF_push; [exact W2|]. rewrite Xp, Xl, Xr.
      apply (bounds_top (stk st) p tl _ (wf_dec _ _ W2) A B). exact (ar_gt st b ns2 W2 L2).
    + rewrite app_length, L2. cbn [length]. unfold cid. lia.
    + rewrite nth_error_app2 by (unfold cid in *; lia). replace (cid - length ns2) with 0 by (unfold cid in *; lia). reflexivity.
    + rewrite Xd. reflexivity.
    + rewrite Xr. destruct b; cbn; lia.
    + exact stack_lt_cid.
    + intros n pp Hn _ _ Hp. rewrite nth_error_app2 in Hn by (unfold cid in *; lia).
      replace (cid - length ns2) with 0 in Hn by (unfold cid in *; lia). injection Hn as <-.
      rewrite Xp in Hp. destruct (E eq_refl eq_refl pp Hp) as (pn & Hpn & Hs).
      exists pn. split; [|exact Hs]. rewrite nth_error_app1; [exact Hpn|]. apply nth_error_Some. rewrite Hpn. discriminate.
  - unfold M_ok. cbn [current_group group_stack]. apply M_ok_snoc.
  - cbn. lia.
  - rewrite (i_nll _ HI). discriminate.
  - intros _. cbn. lia.
Qed.

Lemma sub_def_not_group ln : (definition_eqb (n_def ln) D_Subexpression || definition_eqb (n_def ln) D_ExpressionSeparator) = true ->
  is_group_like (n_def ln) = false.
Proof. destruct (n_def ln); try discriminate; reflexivity. Qed.

Lemma end_fixup_GRel g rest gl ns :
  stk st = g :: rest -> end_fixup cid st gl = Ok ns -> GRel g (nodes st) ns.
Proof.
  intros Hstk. unfold end_fixup.
  destruct (last_left st) as [l|] eqn:El; [|intros H; injection H as <-; apply GRel_refl].
  destruct (nth_error (nodes st) l) as [ln|] eqn:En; [|discriminate].
  match goal with |- context [upd (nodes st) l (fun _ => ?x)] => remember x as ln1 eqn:Hln1 end.
  assert (Hf : n_def ln1 = n_def ln /\ n_left ln1 = n_left ln /\ n_parent ln1 = n_parent ln /\
               (n_right ln1 = n_right ln \/ n_right ln1 = None))
    by (rewrite Hln1; destruct (_ || _ || _); repeat split; auto).
  clear Hln1. destruct Hf as (Fd & Fl & Fp & Fr).
  destruct (upd (nodes st) l (fun _ => ln1)) as [ns1|] eqn:E1; [|discriminate].
  assert (R1 : GRel g (nodes st) ns1).
  { apply (GRel_upd g _ _ _ _ E1). intros x Hx. rewrite En in Hx. injection Hx as <-.
    split; [exact Fd|]. split; [exact Fl|]. split; [left; exact Fp|]. destruct Fr as [Fr|Fr]; [left|right; left]; exact Fr. }
  match goal with |- (if ?c then _ else _) = _ -> _ => destruct c eqn:Ec end; [|intros H; injection H as <-; exact R1].
  apply andb_true_iff in Ec. destruct Ec as [Ec _]. rewrite Fd in Ec.
  (* the trailing separator lies strictly inside the group *)
  assert (Hg : In g (stk st)) by (rewrite Hstk; left; reflexivity).
  assert (Hlg : g < l).
  { pose proof (i_ll _ HI) as Hl. unfold ugv in Hl. rewrite Hstk, El in Hl. cbn in Hl.
    destruct (Nat.eq_dec l g) as [->|Hne]; [|lia].
    destruct (wf_group _ _ (i_wf _ HI) g Hg) as (gn & Hgn & Hgl). rewrite En in Hgn. injection Hgn as <-.
    rewrite (sub_def_not_group ln Ec) in Hgl. discriminate Hgl. }
  destruct (wf_inside _ _ (i_wf _ HI) g Hg l ln En) as [HIn _]. destruct (HIn Hlg) as (Ip & Il & _).
  destruct (n_left ln1) as [lf|] eqn:Elf; [|intros H; injection H as <-; exact R1].
  destruct (upd ns1 lf (set_parent (n_parent ln1))) as [ns2|] eqn:E2; [|discriminate].
  assert (Hlf : g < lf) by (rewrite <- Fl in Il; exact Il).
  assert (R2 : GRel g (nodes st) ns2).
  { apply (GRel_trans g _ _ _ R1). apply (GRel_upd g _ _ _ _ E2). intros x Hx.
    split; [reflexivity|]. split; [reflexivity|]. split; [|left; reflexivity].
    right. split; [exact Hlf|]. cbn [set_parent n_parent]. rewrite Fp. exact Ip. }
  destruct (n_parent ln1) as [pp|]; [|intros H; injection H as <-; exact R2].
  destruct (upd ns2 pp (set_right (Some lf))) as [ns3|] eqn:E3; [|discriminate].
  intros H. injection H as <-. apply (GRel_trans g _ _ _ R2). apply (GRel_upd g _ _ _ _ E3). intros x Hx.
  split; [reflexivity|]. split; [reflexivity|]. split; [left; reflexivity|]. right. right. cbn. exact Hlf.
Qed.

Lemma arm_end_inv tok r : arm_end cid tok st t = Ok r -> Inv (step_finish i sec cid r).
Proof.
  unfold arm_end.
  destruct (removelast_pair (group_stack st)) as [[gs' [g nlc]]|] eqn:Er; [|discriminate].
  apply removelast_pair_snoc in Er.
  assert (Hstk : stk st = g :: rev (map fst gs')) by (unfold stk; rewrite Er; apply stk_snoc).
  destruct (nth_error (nodes st) g) as [sgn|]; [|discriminate].
  destruct (expected_end (n_def sgn)) as [ex|]; [|discriminate].
  destruct (negb (token_type_eqb tok ex)); [discriminate|].
  destruct (end_fixup cid st g) as [ns| | |] eqn:Ef; cbn [bind]; try discriminate.
  intros H. injection H as <-.
  pose proof (end_fixup_GRel g _ g ns Hstk Ef) as R.
  assert (Wg : WF ns (g :: rev (map fst gs'))).
  { apply (WF_GRel g (nodes st)); [rewrite <- Hstk; exact (i_wf _ HI)|reflexivity|exact R]. }
  pose proof (WF_pop _ _ _ Wg) as W'.
  assert (Hlt : forall y, In y (rev (map fst gs')) -> y < g).
  { pose proof (wf_dec _ _ Wg) as Hd. inversion Hd as [|a l Hs Hf]; subst. rewrite Forall_forall in Hf. exact Hf. }
  assert (Hge : forall o, ge_top o (Some g) -> ge_top o (hd_error (rev (map fst gs')))).
  { intros o Ho. destruct (rev (map fst gs')) as [|y ys] eqn:Ey; [exact I|]. cbn [hd_error ge_top] in *.
    apply (oge_le o g y); [|exact Ho]. pose proof (Hlt y (or_introl eq_refl)). lia. }
  apply finish_inv; cbn [next_last_left nodes next_parent group_stack current_group pushed_nodes drop_info];
    unfold ugv, stk; cbn [group_stack].
  - change (definition_eqb D_Drop D_Drop) with true. cbv iota. exact W'.
  - unfold M_ok. reflexivity.
  - apply Hge. pose proof (i_np _ HI) as Hnp. unfold ugv in Hnp. rewrite Hstk in Hnp. exact Hnp.
  - intros k Hk. injection Hk as <-. apply Hge. cbn. lia.
  - discriminate.
Qed.

Lemma subexpr_drop_GRel u ig gi ns1 drop :
  subexpr_drop st ig gi = Ok (ns1, drop) -> GRel u (nodes st) ns1.
Proof.
  unfold subexpr_drop. destruct (last_left st) as [l|]; [|intros H; injection H as <- _; apply GRel_refl].
  destruct (nth_error (nodes st) l) as [ln|] eqn:En; [|discriminate].
  destruct (upd (nodes st) l _) as [ns'|] eqn:E1; [|discriminate].
  intros H. injection H as <- _. apply (GRel_upd u _ _ _ _ E1). intros x Hx. rewrite En in Hx. injection Hx as <-.
  destruct (is_optional (n_def ln)); repeat split; auto.
Qed.

Lemma arm_subexpr_inv (b : bool) d r :
  arm_subexpr cid (if b then None else Some (cid + 1)) d st ug t = Ok r -> Inv (step_finish i sec cid r).
Proof.
  unfold arm_subexpr.
  destruct (subexpr_group st) as [[ig gi]| | |]; cbn [bind]; try discriminate.
  destruct (ll_or_cid st HI _ eq_refl) as [LA LB].
  destruct (definition_eqb ig D_Group).
  - destruct (space_list_check st ug) as [cfl| | |]; cbn [bind]; try discriminate.
    intros H. injection H as <-.
    apply finish_inv; [exact (i_wf _ HI)|exact (i_m _ HI)|exact (i_np _ HI)|exact LA|exact LB].
  - destruct (subexpr_drop st ig gi) as [[ns1 drop]| | |] eqn:Ed; cbn [bind]; try discriminate.
    assert (W1 : WF ns1 (stk st)).
    { destruct (stk st) as [|u rest] eqn:Es; [apply WF_nil|].
      apply (WF_GRel u (nodes st)); [rewrite <- Es; exact (i_wf _ HI)|reflexivity|exact (subexpr_drop_GRel u _ _ _ _ Ed)]. }
    assert (L1 : length ns1 = cid) by exact (proj1 (subexpr_drop_GRel 0 _ _ _ _ Ed)).
    destruct drop.
    + intros H. injection H as <-.
      apply finish_inv; cbn [next_last_left nodes next_parent pushed_nodes drop_info].
      * change (definition_eqb D_Drop D_Drop) with true. cbv iota. exact W1.
      * exact (i_m _ HI).
      * exact (i_np _ HI).
      * exact LA.
      * exact LB.
    + destruct (parse_token cid d (last_left st) ns1 ug false) as [[[ns2 p] tl]| | |] eqn:Ep; cbn [bind]; try discriminate.
      intros H. injection H as <-.
      destruct (PT_WF cid d _ _ false _ _ _ (stk st) W1 (eq_sym L1) Ep (i_ll _ HI)) as (W2 & L2 & A & B & _).
      apply finish_inv; cbn [next_last_left nodes next_parent].
      * apply WF_pushed; [exact W2|exact A|exact B|]. apply (ar_gt st b ns2 W2). lia.
      * exact (i_m _ HI).
      * exact (cid_ge st HI).
      * rewrite (i_nll _ HI). discriminate.
      * intros _. exact (cid_ge st HI).
Qed.
End ArmsStack.

(* ---- closing a side-effect block: the adjustment of last_left is settled ---- *)
Lemma shape2_not_finished ns ug p pn :
  nth_error ns p = Some pn -> shape2 pn = false -> finished_block ns ug (Some p) = false.
Proof.
  intros Hn Hs. unfold finished_block. rewrite Hn. unfold shape2 in Hs.
  destruct (definition_eqb (n_def pn) D_SideEffect); [|reflexivity]. cbn [andb] in Hs |- *.
  destruct (n_left pn); [rewrite andb_false_r; reflexivity|discriminate Hs].
Qed.

Lemma arm_end_settled i sec st t tok r :
  Inv st -> arm_end (length (nodes st)) tok st t = Ok r ->
  adjust_settled (step_finish i sec (length (nodes st)) r) = true.
Proof.
  intros HI. unfold arm_end.
  destruct (removelast_pair (group_stack st)) as [[gs' [g nlc]]|] eqn:Er; [|discriminate].
  apply removelast_pair_snoc in Er.
  assert (Hstk : stk st = g :: rev (map fst gs')) by (unfold stk; rewrite Er; apply stk_snoc).
  destruct (nth_error (nodes st) g) as [sgn|]; [|discriminate].
  destruct (expected_end (n_def sgn)) as [ex|]; [|discriminate].
  destruct (negb (token_type_eqb tok ex)); [discriminate|].
  destruct (end_fixup (length (nodes st)) st g) as [ns| | |] eqn:Ef; cbn [bind]; try discriminate.
  intros H. injection H as <-.
  pose proof (end_fixup_GRel st HI g _ g ns Hstk Ef) as R.
  assert (Wg : WF ns (g :: rev (map fst gs'))).
  { apply (WF_GRel g (nodes st)); [rewrite <- Hstk; exact (i_wf _ HI)|reflexivity|exact R]. }
  destruct (wf_chain _ _ Wg) as [Pe _].
  unfold adjust_settled, step_finish, pushed_nodes, drop_info.
  cbn [fst snd nodes last_left next_last_left].
  change (definition_eqb D_Drop D_Drop) with true. cbv iota.
  set (st' := mkState ns (next_parent st) (Some g) nlc (Some i) None gs'
                      (match gs' with [] => None | _ :: _ => Some (length gs' - 1) end)
                      (t_prev t) (t_sig t) (t_sep t) (t_se t)).
  change (match under_group_of st', nth_error ns g with
          | Ok ug, Some n =>
            if finished_block ns ug (Some g)
            then match n_parent n with
                 | Some p => match nth_error ns p with Some _ => true | None => false end
                 | None => false
                 end && negb (finished_block ns ug (n_parent n))
            else true
          | _, _ => true
          end = true).
  assert (Hm : M_ok st') by reflexivity.
  rewrite (ug_of_M st' Hm). unfold ugv, stk. cbn [group_stack st'].
  destruct (nth_error ns g) as [n|] eqn:En; [|reflexivity].
  destruct (finished_block ns (hd_error (rev (map fst gs'))) (Some g)) eqn:Efb; [|reflexivity].
  unfold finished_block in Efb. rewrite En in Efb.
  apply andb_true_iff in Efb. destruct Efb as [Efb El]. apply andb_true_iff in Efb. destruct Efb as [Efb Ep].
  apply andb_true_iff in Efb. destruct Efb as [Ed _].
  destruct (n_parent n) as [p|] eqn:Epar; [|discriminate Ep].
  destruct (n_left n) as [|] eqn:Elf; [discriminate El|].
  destruct (Pe n p En (definition_eqb_SE _ Ed) Elf Epar) as (pn & Hpn & Hs).
  rewrite Hpn. cbn [andb]. apply negb_true_iff.
  destruct Hs as [Hs|Hs]; [exact (shape2_not_finished ns _ p pn Hpn Hs)|].
  rewrite Hs. apply finished_block_ug.
Qed.

(* ---- one step ---- *)
Theorem step_preserves_inv n i tok st0 st' : Inv st0 -> step n i tok st0 = Ok st' -> Inv st'.
Proof.
  intros HI Hs.
  destruct (step_inv _ _ _ _ _ Hs) as (ug & ll & ps & pg & r & Hug & Ha & Harm & ->).
  destruct (adjusted_inv st0 ug ll ps pg HI Hug Ha) as [HA ->].
  set (A := adjusted st0 ll ps pg) in *.
  change (length (nodes st0)) with (length (nodes A)) in *.
  change (ugv st0) with (ugv A) in *.
  destruct tok; cbn [get_definition fst snd step_arm] in Harm |- *;
    first
      [ discriminate Harm
      | exact (arm_ws_inv i _ A _ HA r Harm)
      | exact (arm_annot_inv i _ A _ HA r Harm)
      | exact (arm_value_inv i _ A _ HA _ r Harm)
      | exact (arm_binary_inv i _ A _ HA _ _ _ r Harm)
      | exact (arm_suffix_inv i _ A _ HA _ r Harm)
      | exact (arm_prefix_inv i _ A _ HA _ _ r Harm)
      | eapply (arm_startgroup_inv i _ A _ HA); [| |exact Harm]; [reflexivity|discriminate]
      | exact (arm_startse_inv i _ A _ HA _ r Harm)
      | exact (arm_end_inv i _ A _ HA _ r Harm)
      | exact (arm_subexpr_inv i _ A _ HA _ _ r Harm) ].
Qed.

Lemma inv_init : Inv init_state.
Proof.
  constructor; try reflexivity; try exact I. apply WF_nil.
Qed.

Theorem step_end_settled n i st0 st' :
  Inv st0 -> step n i TT_EndSideEffect st0 = Ok st' -> adjust_settled st' = true.
Proof.
  intros HI Hs.
  destruct (step_inv _ _ _ _ _ Hs) as (ug & ll & ps & pg & r & Hug & Ha & Harm & ->).
  destruct (adjusted_inv st0 ug ll ps pg HI Hug Ha) as [HA ->].
  cbn [get_definition fst snd step_arm] in Harm |- *.
  exact (arm_end_settled i _ (adjusted st0 ll ps pg) _ _ r HA Harm).
Qed.
