(* What C10 means by "false": exactly two values are false, unit `()` and the
   false value `$!`.  PINNED BY HAND from the property text; independent of the
   generated falsy sets (that the code agrees is Proofs/C10). *)
From Coq Require Import List Bool.
From GV Require Import Gen.Instr.
Import ListNotations.

Definition falsy : list data_type := [T_Unit; T_False].

Definition is_falsy (t : data_type) : bool := existsb (data_type_eqb t) falsy.
(* the truth value of any value of type [t] *)
Definition truth (t : data_type) : bool := negb (is_falsy t).

(* the seven constructs that test a value: `?>` `!>` `&&` `||` `^^` `!!` `??` *)
Definition testing_constructs : list instruction :=
  [I_JumpIfTrue; I_JumpIfFalse; I_And; I_Or; I_Xor; I_Not; I_Tis].
