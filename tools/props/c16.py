"""C16 Lists keep their order and find every key."""
import itertools, os, re
import vplib
from vplib import Verdict, log

PID = "C16"
MANIFEST_ENTRY = {
 "level_claimed": {
  "category": "proof",
  "text": "Theorems in coq/Properties/C16.v about executable models of both data stores' list construction and lookup (SimpleGarnishData: every item placed in an open-addressing table by address modulo length at end_list, lookup probes from symbol modulo length; BasicGarnishData: associations written beside the items, stably sorted at end_list, binary-searched) and of the runtime's index_list / access_with_symbol: for a list built from items i1..in with start_list/add_to_list/end_list on either store (Basic: from any state satisfying the C15 heap invariant) the length is n, index k yields ik, the items iterate in insertion order, and for distinct symbol keys looking a symbol up returns the value of the pair keyed by it if present and 'absent' otherwise, never an error, for every mix of keyed and unkeyed items (Simple: the probe visits every slot, the placement keeps every item; Basic: the stable sort puts the associations first in key order and the binary search finds exactly the keyed entry); outside 0..n-1 Simple answers 'no item', index_list answers 'no item'/unit on every store, and Basic's direct accessor answers 'no item' below 0 and Err past the end (finding C16-K1, stated as a theorem). The models are tied to data/src/runtime.rs, data/src/basic/garnish/garnish_impl.rs, data/src/basic/search.rs, runtime/src/runtime/list.rs and traits/src/helpers/concatenation.rs on every run: all lists up to a bound over {number, text, symbol, pair keyed by symbol, pair keyed by non-symbol, nested list}, random larger lists with adversarial symbol values, both data implementations, read back through get_list_len / get_list_item / get_list_item_iter / get_list_item_with_symbol and through the Access and Apply operations and concatenations, on the real code and on the extracted model; an independent association-list oracle in Python checks the implementation directly.",
  "design_ref": "DESIGN.md section 8 C16"
 },
 "level_note": "Concatenations on BOTH store models: proved (Proofs/C16/Concat.v, ConcatInv.v, ConcatBasic.v) on the executable model of iterate_concatenation_mut_with_method (a worklist on the register stack), index_concatenation_for, access_with_integer and access_with_symbol. The generic theorems hold for every data implementation satisfying the register-stack laws RegLawsInv (a state invariant re-established by push/pop; push/pop form a stack of slots; every getter result that was Ok stays the same; RegLaws, where push/pop leave all getters untouched, is a special case). Instances: the SimpleGarnishData model (C16_simple_concat_*, final state = initial state) and the BasicGarnishData model (C16_basic_concat_index, _index_negative, _lookup, _lookup_finds_every_key, _fuel_suffices) under the C15 heap invariant plus a well-formed register chain (RegsOk). For any concatenation tree whose leaves are lists or single values and fuel >= the number of tree nodes: index k returns item k of the left-to-right flattening, no item (not an error) past the end or for a negative index; a symbol lookup returns the value of the first association keyed by the symbol in the traversal order the code uses (children right to left, list items first to last), so every key is found when keys are distinct; OutOfFuel is never returned; every borrowed register is popped again. On Basic, where registers are cells appended to the data block and a push may reallocate the heap, the final state satisfies the invariant again, cur_register is the same cell, the register values are unchanged, the data table is the old one followed by dead Register cells only, every other table and head is unchanged (non-vacuity: a store built by the model's own operations, with a heap reallocation during the traversal). Partial: the Access/Apply dispatch, slices of concatenations and Float indices are modelled and tied by correspondence only. Known finding C16-K1 (BasicGarnishData::get_list_item called directly with an index >= length returns Err, pinned by an existing test) is excluded and re-confirmed on every run; through Access/Apply such an index yields unit on both stores (fixed in index_list). Assumes distinct symbol keys (as the property does), Integer indices, slice::sort_by stable. Trusted: Coq kernel, extraction, harness/src/bin/list.rs, ocaml/list_driver.ml, this file.",
 "technique": "Coq proof (loop invariants for probe / placement / binary search, sortedness of the stable sort) over an executable model + differential correspondence with the Rust implementation"
}

TRUSTED = vplib.BASE_TRUSTED + [
    "oracle hypotheses: slice::sort_by is a stable sort; the intern-table hash is a function (values taken from the implementation per case)",
    "tools/props/c16.py: independent association-list oracle",
]
LIST = "list"
MAXU = 2 ** 64 - 1


# ------------------------------------------------------------------- oracle
def hx(v):
    return ("-%x" % -v) if v < 0 else ("%x" % v)


def item_tree(spec):
    k, body = spec[0], spec[1:]
    if k == "n":
        return "N(i%s)" % hx(int(body))
    if k == "t":
        return "Cl(%s)" % body
    if k == "s":
        return "Sy(%x)" % int(body, 16)
    if k == "k":
        a, b = body.split("=")
        return "P(Sy(%x),N(i%s))" % (int(a, 16), hx(int(b)))
    if k == "p":
        a, b = body.split("=")
        return "P(N(i%s),N(i%s))" % (hx(int(a)), hx(int(b)))
    if k == "l":
        return "L(%s)" % ",".join("N(i%x)" % i for i in range(int(body)))
    if k == "u":
        return "U"
    raise ValueError(spec)


def keyed(spec):
    """(key, value tree) of an association item, else None"""
    if spec[0] == "k":
        a, b = spec[1:].split("=")
        return int(a, 16), "N(i%s)" % hx(int(b))
    return None


def lookup(items, sym):
    for it in items:
        kv = keyed(it)
        if kv and kv[0] == sym:
            return kv[1]
    return None


def expect_list(items, syms, imp):
    """expected text of every field of a list section; Basic's direct get_list_item past the
    end is listed separately (known finding C16-K1)"""
    n = len(items)
    trees = [item_tree(i) for i in items]
    exp = {"len": str(n)}
    its = []
    for k in range(-1, n + 2):
        its.append("%d:%s" % (k, trees[k] if 0 <= k < n else "none"))
    exp["items"] = ",".join(its)
    exp["iter"] = ",".join(trees)
    exp["sym"] = ",".join("%x:%s" % (s, lookup(items, s) or "none") for s in syms)
    acc = []
    for k in range(-2, n + 2):
        acc.append("i%d:%s" % (k, trees[k] if 0 <= k < n else "U"))
    for s in syms:
        acc.append("y%x:%s" % (s, lookup(items, s) or "U"))
    exp["acc"] = ",".join(acc)
    exp["app"] = exp["acc"]
    return exp


def expect_concat(parts, syms, n_hint):
    """parts: list of item lists in left-to-right order (the last one may be a single value)"""
    flat = [it for p in parts for it in p]
    trees = [item_tree(i) for i in flat]
    n = len(flat)
    exp = {"iter": ",".join("i%x:%s" % (i, t) for i, t in enumerate(trees)) + "/%d" % n}
    rev = [it for p in reversed(parts) for it in p]
    exp["riter"] = ",".join("i%x:%s" % (i, item_tree(t)) for i, t in enumerate(rev)) + "/%d" % n
    acc = []
    for k in range(-2, n_hint + 2):
        acc.append("i%d:%s" % (k, trees[k] if 0 <= k < n else "U"))
    for s in syms:
        acc.append("y%x:%s" % (s, lookup(flat, s) or "U"))
    exp["acc"] = ",".join(acc)
    return exp


SEC = re.compile(r"(A|B|C1|C2)@(\w+)(?:\{([^}]*)\})?")


def parse_body(body):
    out = {}
    for m in SEC.finditer(body):
        fields = {}
        if m.group(3) is not None:
            for part in m.group(3).split(" "):
                if "=" in part:
                    k, v = part.split("=", 1)
                    fields[k] = v
        out[m.group(1)] = (m.group(2), fields)
    return out


def oracle_check(case, body):
    """returns (problems, known) -- known: list of (finding id, witness)"""
    secs = case.split(" | ")
    imp = secs[0]
    toks = lambda s: [] if s in ("-", "") else s.split(" ")
    items, syms = toks(secs[1]), [int(x, 16) for x in toks(secs[2])]
    items2 = toks(secs[3]) if len(secs) > 3 and secs[3] != "-" else None
    problems, known = [], []
    if body in ("PANIC", "ITEMERR", "BUILDERR", "HANG", "CRASH"):
        return ["building the list: " + body], known
    got = parse_body(body)
    for name in ("A", "B"):
        if name not in got or got[name][0] == "err":
            problems.append("list %s could not be built" % name)
            continue
        exp = expect_list(items, syms, imp)
        f = got[name][1]
        for key, want in exp.items():
            have = f.get(key, "")
            if have == want:
                continue
            if key == "items":
                # compare entry by entry; Basic past the end: the listed finding
                hs, ws = have.split(","), want.split(",")
                for h, w in zip(hs, ws):
                    if h == w:
                        continue
                    k = int(h.split(":")[0])
                    if imp == "B" and k >= len(items) and h.endswith(":err"):
                        known.append(("C16-K1", "%s: get_list_item index %d of a list of %d -> Err" % (case, k, len(items))))
                    else:
                        problems.append("%s.get_list_item: %s, expected %s" % (name, h, w))
                if len(hs) != len(ws):
                    problems.append("%s.items has %d entries, expected %d" % (name, len(hs), len(ws)))
            else:
                problems.append("%s.%s = [%s], expected [%s]" % (name, key, have[:300], want[:300]))
    if items2 is not None:
        # the single value on the right of C2; a list there is spliced item by item
        x = [items[0]] if items else ["u"]
        if x[0][0] == "l":
            x = ["n%d" % i for i in range(int(x[0][1:]))]
        for name, parts in (("C1", [items, items2]), ("C2", [items, items2, x])):
            if name not in got or got[name][0] == "err":
                problems.append("concatenation %s missing" % name)
                continue
            exp = expect_concat(parts, syms, len(items) + len(items2) + (1 if name == "C2" else 0))
            f = got[name][1]
            for key, want in exp.items():
                have = f.get(key, "")
                if have != want:
                    problems.append("%s.%s = [%s], expected [%s]" % (name, key, have[:300], want[:300]))
    return problems, known


# ---------------------------------------------------------------- generators
KINDS = ["n", "t", "s", "k", "p", "l"]


def mk_item(kind, i, key=None):
    if kind == "n":
        return "n%d" % (i + 1)
    if kind == "t":
        return "t%x.%x" % (0x61 + i % 20, 0x62 + i % 20)
    if kind == "s":
        return "s%x" % (0x500 + i)
    if kind == "k":
        return "k%x=%d" % (key if key is not None else 0x10 + i, 100 + i)
    if kind == "p":
        return "p%d=%d" % (i, 200 + i)
    if kind == "l":
        return "l2"
    if kind == "u":
        return "u"
    raise ValueError(kind)


def syms_for(items, extra):
    ks = [keyed(i)[0] for i in items if keyed(i)]
    out = []
    for s in ks + list(extra):
        if s not in out:
            out.append(s)
    return out


def key_sets(rng, n, count):
    """adversarial sets of distinct u64 keys for a list of n items"""
    n = max(n, 1)
    sets = [
        [n * (j + 1) for j in range(count)],                         # all equal modulo the length
        [MAXU - j for j in range(count)],                            # maximum and neighbours
        [0] + [n * j + 1 for j in range(1, count)],                  # zero first
        sorted(rng.getrandbits(64) for _ in range(count)),           # sorted
        sorted((rng.getrandbits(64) for _ in range(count)), reverse=True),
        [2 ** 63 + j * n for j in range(count)],
        [j for j in range(1, count + 1)],
    ]
    ks = rng.choice(sets)
    seen, out = set(), []
    for k in ks:
        k %= 2 ** 64
        while k in seen:
            k = (k + 1) % 2 ** 64
        seen.add(k)
        out.append(k)
    return out


def gen_cases(tier, seed):
    rng = vplib.rng_for(seed, "C16")
    cases = []          # (stream, line); streams: exh, rand (oracle on), dup (correspondence only)
    L = 5 if tier == "thorough" else 4
    for n in range(0, L + 1):
        for combo in itertools.product(KINDS, repeat=n):
            items = [mk_item(k, i) for i, k in enumerate(combo)]
            syms = syms_for(items, [0x999, 0x500])
            for imp in ("B", "S"):
                cases.append(("exh", "%s | %s | %s | -" % (imp, " ".join(items) or "-", " ".join("%x" % s for s in syms))))
    # concatenations of short lists
    seconds = [[], ["k77=1"], ["n9", "k78=2", "t7a"], ["l2", "p1=1"]]
    for n in range(0, 3):
        for combo in itertools.product(KINDS, repeat=n):
            items = [mk_item(k, i) for i, k in enumerate(combo)]
            for sec in seconds:
                syms = syms_for(items + sec, [0x999])
                for imp in ("B", "S"):
                    cases.append(("exh", "%s | %s | %s | %s" % (imp, " ".join(items) or "-", " ".join("%x" % s for s in syms), " ".join(sec) or "-")))
    # random larger lists with adversarial keys
    n_rand = 1500 if tier == "thorough" else 250
    for _ in range(n_rand):
        n = rng.choice([5, 6, 7, 8, 9, 12, 16, 17, 31, 40]) if rng.random() < 0.8 else rng.randint(1, 60)
        kinds = [rng.choice(["k", "k", "k", "n", "t", "s", "p", "l", "u"]) for _ in range(n)]
        nk = kinds.count("k")
        m = rng.randint(0, 6) if rng.random() < 0.4 else 0
        kinds2 = [rng.choice(["k", "n", "p", "t"]) for _ in range(m)]
        keys = key_sets(rng, n, nk + kinds2.count("k"))
        rng.shuffle(keys) if rng.random() < 0.5 else None
        ki = iter(keys)
        items = [mk_item(k, i, next(ki) if k == "k" else None) for i, k in enumerate(kinds)]
        items2 = [mk_item(k, 100 + i, next(ki) if k == "k" else None) for i, k in enumerate(kinds2)]
        absent = [x for x in (0, 1, n, MAXU, rng.getrandbits(64), keys[0] + n if keys else 7) if x not in keys][:4]
        syms = syms_for(items + items2, [a % 2 ** 64 for a in absent])
        for imp in ("B", "S"):
            cases.append(("rand", "%s | %s | %s | %s" % (imp, " ".join(items), " ".join("%x" % s for s in syms), " ".join(items2) if m else "-")))
    # duplicate keys: the property says nothing; correspondence only
    for _ in range(n_rand // 5):
        n = rng.randint(2, 12)
        items = [mk_item(rng.choice(["k", "k", "n", "p"]), i, rng.choice([3, 5, n, 2 * n])) for i in range(n)]
        syms = syms_for(items, [9])
        for imp in ("B", "S"):
            cases.append(("dup", "%s | %s | %s | %s" % (imp, " ".join(items), " ".join("%x" % s for s in syms), rng.choice(["-", "k3=1 n2"]))))
    return cases


# ----------------------------------------------------------------- the check
_EXE = {}


def list_exe(profile="debug"):
    if profile not in _EXE:
        _EXE[profile] = vplib.private_copy(vplib.harness_bin(LIST, profile))
    return _EXE[profile]


def run_pair(lines, profile="debug"):
    text = "\n".join(lines) + "\n"
    rc, impl = vplib.run_lines([list_exe(profile)], text, timeout=1800)
    if rc != 0 or len(impl) != len(lines):
        return None, None, "list harness rc=%s lines=%d/%d %s" % (rc, len(impl), len(lines), impl[-1:] if impl else "")
    rc, model = vplib.run_lines([vplib.OCAML_BUILD + "/list_driver"], "\n".join(impl) + "\n", timeout=3000)
    if rc != 0 or len(model) != len(lines):
        return impl, None, "list_driver rc=%s lines=%d/%d %s" % (rc, len(model), len(lines), model[-1:] if model else "")
    return impl, model, None


def run(tier, seed):
    v = Verdict(PID, tier, seed)
    v.assumptions = ["symbol keys of a list (and of the lists of a concatenation) are distinct",
                     "indices are Integer numbers", "slice::sort_by is a stable sort",
                     "item addresses handed to add_to_list are addresses of stored values"]
    sy = vplib.sync(["storecells"])
    for name, e in sy.get("errors", {}).items():
        v.tie_failure("translator %s: %s" % (name, e))
    v.coverage["tables_regenerated"] = sy.get("changed", [])
    pr = vplib.prove(PID, ["Proofs/C16"], extra_targets=["Extract/ListExtract.vo", "Proofs/C15/Variants.vo"])
    for f in pr["failures"]:
        v.tie_failure("prove: " + f)
    v.coverage.update(vplib.proof_coverage(
        pr, "make -C coq Properties/C16.vo && coqc Properties/C16.v (Print Assumptions) && tools/props/c16.py correspondence", TRUSTED))
    ok, out = vplib.cargo_build("debug", bins=[LIST])
    if not ok:
        v.tie_failure("harness build failed: " + out[-400:])
    okm, outm = vplib.ocaml_build("list") if os.path.exists(vplib.OCAML_BUILD + "/list_model.ml") else (False, "no extracted model")
    if not okm:
        v.tie_failure("model driver build failed: " + outm[-300:])
    cases = gen_cases(tier, seed)
    stats = {"cases": len(cases), "model_disagreements": 0, "property_failures": 0, "known_hits": 0, "by_stream": {},
             "by_length": {}, "keyed_lookups_found": 0, "keyed_lookups_absent": 0, "with_concatenation": 0}
    listed = {f["id"] for f in vplib.findings_for(PID)}
    samples, distinct, viol = [], set(), []
    if ok:
        impl, model, err = run_pair([c for _, c in cases])
        if err:
            v.tie_failure("correspondence run: " + err)
        for i, line in enumerate(impl or []):
            stream = cases[i][0]
            case, body, _ = line.split("\t")
            stats["by_stream"][stream] = stats["by_stream"].get(stream, 0) + 1
            secs = case.split(" | ")
            n = 0 if secs[1] == "-" else len(secs[1].split(" "))
            stats["by_length"][n] = stats["by_length"].get(n, 0) + 1
            if len(secs) > 3 and secs[3] != "-":
                stats["with_concatenation"] += 1
            if stream != "dup":
                probs, known = oracle_check(case, body)
                for fid, w in known:
                    if fid in listed:
                        stats["known_hits"] += 1
                        if fid not in v.known:
                            v.known_hit(fid, w)
                    else:
                        probs.append("unlisted: " + w)
                if probs:
                    stats["property_failures"] += 1
                    viol.append((n, case, probs, body))
                m = re.search(r"sym=([^ }]*)", body)
                if m and m.group(1):
                    for e in m.group(1).split(","):
                        if e.endswith(":none"):
                            stats["keyed_lookups_absent"] += 1
                        else:
                            stats["keyed_lookups_found"] += 1
                if n > 0:
                    distinct.add(case.split(" | ", 1)[1])
            if model is not None:
                mbody = model[i].split("\t")[1]
                if mbody != body:
                    stats["model_disagreements"] += 1
                    if stats["model_disagreements"] <= 5:
                        j = 0
                        while j < min(len(body), len(mbody)) and body[j] == mbody[j]:
                            j += 1
                        v.tie_failure("correspondence list (%s): %s | impl ...%s | model ...%s" % (
                            stream, case[:300], body[max(0, j - 80):j + 80], mbody[max(0, j - 80):j + 80]))
            if len(samples) < 6 and i % max(1, len(cases) // 6) == 0:
                samples.append({"case": case[:200], "impl": body[:300]})
    viol.sort(key=lambda x: x[0])
    for n, case, probs, body in viol[:20]:
        v.violation(component="list", input=case, what=probs[0], all_problems=probs[:6], impl=body[:1500])
    v.coverage.update({
        "evaluations": len(cases),
        "distinct_nontrivial": len(distinct),
        "rule": "all lists of length 0..%d over {number, text, symbol, pair keyed by symbol, pair keyed by non-symbol, nested list}, "
                "concatenations of the lists of length 0..2 with four second lists; random lists of length up to 60 with adversarial "
                "distinct symbol keys (equal modulo the length, 0, 2^64-1 and neighbours, sorted, reverse-sorted, 2^63+), absent query "
                "symbols; duplicate keys (correspondence only); x both data implementations, built directly and through MakeList, read "
                "back directly and through Access/Apply. A case is non-trivial when the list is not empty; distinct item/symbol "
                "specifications are counted" % (5 if tier == "thorough" else 4),
        "samples": samples,
        "histogram": stats,
    })
    return v.finish("proof")


def replay(obj):
    cases = [x["input"] for x in obj.get("violations", []) if "input" in x]
    if not cases:
        print("replay names a broken tie, not an input:", obj.get("no_longer_checks"))
        return run("quick", obj.get("seed", 0))
    ok, out = vplib.cargo_build("debug", bins=[LIST])
    if not ok:
        print("harness build failed")
        return 1
    rc, impl = vplib.run_lines([list_exe()], "\n".join(cases) + "\n", timeout=600)
    bad = 0
    for line in impl:
        case, body, _ = line.split("\t")
        probs, known = oracle_check(case, body)
        if probs:
            bad = 1
            print("FAILS: %s\n   %s" % (case, probs[0]))
        else:
            print("ok: %s%s" % (case, "  (known: %s)" % known[0][0] if known else ""))
    return bad
