(* C16, the concatenation clause on the BasicGarnishData model.

   Basic's register stack is a chain of Register / RegisterRoot cells in the
   data block, headed by [cur_register]; a push appends one cell to the data
   table (growing / reallocating the heap when the block is full), a pop only
   moves the head back.  Under the C15 heap invariant [G] and a well-formed
   chain ([RegsOk]) this satisfies the laws [RegLawsInv] of
   Proofs/C16/ConcatInv.v:
     slots      = (cell index, value) along the chain, newest first;
     frame s s' = the data table of s' is the one of s followed by register
                  cells, every other table and every head except
                  [cur_register] is unchanged;
     keeps      = every data cell of s is still there in s', so every getter
                  that answered in s answers the same in s'.
   Hence indexing / symbol lookup of a concatenation on Basic returns what
   the flattening says, and afterwards [cur_register] is the very cell it was
   before (the traversal leaves only dead register cells behind). *)
From Coq Require Import NArith ZArith List Bool Arith Lia.
From GV Require Import Base.Result Gen.Instr Model.StoreBase Model.BasicStore Model.SimpleStore Model.StoreOps Model.Lists
  Spec.AbsTables Spec.AssocSpec
  Proofs.C15.ListFacts Proofs.C15.Layout Proofs.C15.Stable Proofs.C15.Steps Proofs.C15.History
  Proofs.C16.SimpleLookup Proofs.C16.BasicBuild Proofs.C16.Concat Proofs.C16.ConcatInv.
Import ListNotations.

(* ---- the register chain ---- *)
Definition is_reg_cell (c : cell) : Prop :=
  match c with CRegister _ _ | CRegisterRoot _ => True | _ => False end.

(* [pchain T head l]: from [head] the chain in the data table T is the slots l
   (cell index, value), newest first; previous-links go strictly down *)
Inductive pchain (T : list cell) : option nat -> list (nat * nat) -> Prop :=
| pc_nil : pchain T None []
| pc_root : forall i v, nth_error T i = Some (CRegisterRoot v) -> pchain T (Some i) [(i, v)]
| pc_cons : forall i p v r, nth_error T i = Some (CRegister p v) -> p < i -> pchain T (Some p) r ->
    pchain T (Some i) ((i, v) :: r).

Fixpoint slots (fuel : nat) (current : option nat) (T : list cell) : list (nat * nat) :=
  match current with
  | None => []
  | Some i =>
      match fuel with
      | O => []
      | S f =>
          match nth_error T i with
          | Some (CRegister p v) => (i, v) :: slots f (Some p) T
          | Some (CRegisterRoot v) => [(i, v)]
          | _ => []
          end
      end
  end.

Definition bstack (s : basic) : list (nat * nat) := slots (chain_fuel s) (cur_register s) (data s).

(* the invariant: the C15 store invariant and a well-formed register chain *)
Definition RegsOk (s : basic) : Prop := G s /\ exists l, pchain (data s) (cur_register s) l.

Lemma pchain_lt : forall T i l, pchain T (Some i) l -> i < length T.
Proof. intros T i l H. inversion H; subst; apply nth_error_Some; congruence. Qed.

Lemma pchain_slots : forall T cur l, pchain T cur l -> forall fuel, (forall i, cur = Some i -> i < fuel) -> slots fuel cur T = l.
Proof.
  intros T cur l H. induction H as [|i v Hi|i p v r Hi Hp Hr IH]; intros fuel Hf.
  - destruct fuel; reflexivity.
  - pose proof (Hf i eq_refl). destruct fuel; [lia|]. cbn [slots]. rewrite Hi. reflexivity.
  - pose proof (Hf i eq_refl). destruct fuel; [lia|]. cbn [slots]. rewrite Hi. f_equal.
    apply IH. intros j Hj. inversion Hj; subst. lia.
Qed.

Lemma pchain_regchain : forall s cur l, Inv s -> pchain (data s) cur l ->
  forall fuel, (forall i, cur = Some i -> i < fuel) -> register_chain fuel cur s = Ok (map snd l).
Proof.
  intros s cur l I H. induction H as [|i v Hi|i p v r Hi Hp Hr IH]; intros fuel Hf.
  - destruct fuel; reflexivity.
  - pose proof (Hf i eq_refl). destruct fuel; [lia|]. cbn [register_chain].
    rewrite (get_from_block_ok s BData i I). fold (data s). rewrite Hi. reflexivity.
  - pose proof (Hf i eq_refl). destruct fuel; [lia|]. cbn [register_chain].
    rewrite (get_from_block_ok s BData i I). fold (data s). rewrite Hi.
    rewrite IH; [reflexivity|]. intros j Hj. inversion Hj; subst. lia.
Qed.

Lemma pchain_app : forall T cells cur l, pchain T cur l -> pchain (T ++ cells) cur l.
Proof.
  intros T cells cur l H. induction H as [|i v Hi|i p v r Hi Hp Hr IH].
  - constructor.
  - apply pc_root. rewrite nth_error_app1; [exact Hi|]. apply nth_error_Some. congruence.
  - apply pc_cons with (p := p); [|exact Hp|exact IH]. rewrite nth_error_app1; [exact Hi|]. apply nth_error_Some. congruence.
Qed.

Lemma pchain_head : forall T cur l, pchain T cur l -> cur = match l with [] => None | x :: _ => Some (fst x) end.
Proof. intros T cur l H. inversion H; reflexivity. Qed.

Lemma head_lt_fuel : forall s l, Inv s -> pchain (data s) (cur_register s) l ->
  forall i, cur_register s = Some i -> i < chain_fuel s.
Proof.
  intros s l I H i E. rewrite E in H. apply pchain_lt in H. rewrite (data_len s I) in H.
  unfold chain_fuel. change (b_cursor (blk_data s)) with (cur s BData). lia.
Qed.

Lemma bstack_eq : forall s l, Inv s -> pchain (data s) (cur_register s) l -> bstack s = l.
Proof. intros s l I H. unfold bstack. apply pchain_slots; [exact H|]. apply (head_lt_fuel s l I H). Qed.

Lemma registers_rev_eq : forall s l, Inv s -> pchain (data s) (cur_register s) l -> registers_rev s = Ok (map snd l).
Proof. intros s l I H. unfold registers_rev. apply pchain_regchain; [exact I|exact H|]. apply (head_lt_fuel s l I H). Qed.

Lemma RegsOk_inv : forall s, RegsOk s -> Inv s.
Proof. intros s [Gs _]. apply (good_inv s (g_good s Gs)). Qed.

Lemma RegsOk_chain : forall s, RegsOk s -> pchain (data s) (cur_register s) (bstack s).
Proof. intros s H. pose proof (RegsOk_inv s H) as I. destruct H as [_ [l Hl]]. rewrite (bstack_eq s l I Hl). exact Hl. Qed.

(* ---- every data cell of s is still there in s' ---- *)
Definition extends (s s' : basic) : Prop := forall p c, nth_error (data s) p = Some c -> nth_error (data s') p = Some c.

Lemma extends_read : forall s s', Inv s -> Inv s' -> extends s s' ->
  forall i c, get_from_block BData i s = Ok c -> get_from_block BData i s' = Ok c.
Proof.
  intros s s' I I' X i c H. rewrite (get_from_block_ok s BData i I) in H. rewrite (get_from_block_ok s' BData i I').
  fold (data s) in H. fold (data s'). destruct (nth_error (data s) i) as [c0|] eqn:E; [|discriminate].
  rewrite (X _ _ E). exact H.
Qed.

Lemma extends_keeps : forall s s', Inv s -> Inv s' -> extends s s' -> keeps basic_ops s s'.
Proof.
  intros s s' I I' X. pose proof (extends_read s s' I I' X) as R.
  constructor; cbn [basic_ops d_get_data_type d_get_symbol d_get_pair d_get_concatenation d_get_list_len d_get_list_item].
  - intros a t. unfold get_data_type. destruct (get_from_block BData a s) as [c| | |] eqn:E; cbn [bind]; try discriminate.
    rewrite (R _ _ E). intro H; exact H.
  - intros a t. unfold get_symbol. destruct (get_from_block BData a s) as [c| | |] eqn:E; cbn [bind]; try discriminate.
    rewrite (R _ _ E). intro H; exact H.
  - intros a t. unfold get_pair. destruct (get_from_block BData a s) as [c| | |] eqn:E; cbn [bind]; try discriminate.
    rewrite (R _ _ E). intro H; exact H.
  - intros a t. unfold get_concatenation. destruct (get_from_block BData a s) as [c| | |] eqn:E; cbn [bind]; try discriminate.
    rewrite (R _ _ E). intro H; exact H.
  - intros a t. unfold get_list_len. destruct (get_from_block BData a s) as [c| | |] eqn:E; cbn [bind]; try discriminate.
    rewrite (R _ _ E). intro H; exact H.
  - intros a z r. unfold get_list_item. destruct (get_from_block BData a s) as [c| | |] eqn:E; cbn [bind]; try discriminate.
    rewrite (R _ _ E). cbn [bind]. destruct (as_list c) as [la| | |]; cbn [bind]; try (intro H; exact H).
    destruct (z <? 0)%Z; [intro H; exact H|].
    destruct (fst la <=? usize_of_int z); [intro H; exact H|].
    destruct (get_from_block BData (a + 1 + usize_of_int z) s) as [c2| | |] eqn:E2; cbn [bind]; try discriminate.
    rewrite (R _ _ E2). intro H; exact H.
Qed.

(* ---- the frame ---- *)
Definition bframe (s s' : basic) : Prop :=
  (exists cells, data s' = data s ++ cells /\ Forall is_reg_cell cells) /\
  (forall b, b <> BData -> window s' b = window s b) /\
  cur_value s' = cur_value s /\ cur_frame s' = cur_frame s /\ ip s' = ip s /\ retention s' = retention s.

Lemma bframe_refl : forall s, bframe s s.
Proof. intro s. split; [exists []; split; [symmetry; apply app_nil_r|constructor]|]. repeat split. Qed.

Lemma bframe_trans : forall a b c, bframe a b -> bframe b c -> bframe a c.
Proof.
  intros a b c ((l1 & D1 & F1) & W1 & A1 & A2 & A3 & A4) ((l2 & D2 & F2) & W2 & B1 & B2 & B3 & B4).
  split; [exists (l1 ++ l2); split; [rewrite D2, D1, app_assoc; reflexivity|apply Forall_app; split; assumption]|].
  split; [intros x Hx; rewrite W2, W1 by exact Hx; reflexivity|]. repeat split; congruence.
Qed.

Lemma bframe_extends : forall s s', bframe s s' -> extends s s'.
Proof.
  intros s s' ((l & D & _) & _) p c H. rewrite D. rewrite nth_error_app1; [exact H|]. apply nth_error_Some. congruence.
Qed.

Lemma basic_keeps : forall s s', RegsOk s -> RegsOk s' -> bframe s s' -> keeps basic_ops s s'.
Proof. intros s s' H H' F. apply extends_keeps; [apply RegsOk_inv; exact H|apply RegsOk_inv; exact H'|apply bframe_extends; exact F]. Qed.

(* ---- length, push, pop ---- *)
Lemma basic_len_law : forall s, RegsOk s -> d_get_register_len basic_ops s = Ok (length (bstack s)).
Proof.
  intros s H. pose proof (RegsOk_inv s H) as I. pose proof (RegsOk_chain s H) as C.
  cbn [d_get_register_len basic_ops]. unfold get_register_len. rewrite (registers_rev_eq s _ I C). cbn [bind].
  rewrite map_length. reflexivity.
Qed.

Lemma push_cell_then_head : forall s c a l,
  G s -> plain c -> is_reg_cell c ->
  pchain (data s ++ [c]) (Some (length (data s))) ((length (data s), a) :: l) ->
  exists s1, push_to_data_block c s = Ok (s1, Done (length (data s))) /\
    let s' := set_cur_register s1 (Some (length (data s))) in
    RegsOk s' /\ bstack s' = (length (data s), a) :: l /\ bframe s s'.
Proof.
  intros s c a l Gs Hp Hr Hc.
  destruct (push_data_ok s c Gs Hp) as (s1 & H1 & G1 & _ & (_ & D1 & W1 & Hh)).
  exists s1. split; [exact H1|]. cbv zeta.
  set (s' := set_cur_register s1 (Some (length (data s)))).
  pose proof (same_store_set_cur_register s1 (Some (length (data s)))) as SS. fold s' in SS.
  assert (G' : G s') by (apply (same_store_G s1 s' SS G1); intros i Hi; apply (g_cur_frame s1 G1); exact Hi).
  assert (D' : data s' = data s ++ [c]) by (unfold data; rewrite (same_store_window s1 s' BData SS); exact D1).
  assert (C' : pchain (data s') (cur_register s') ((length (data s), a) :: l)) by (rewrite D'; exact Hc).
  split; [split; [exact G'|eexists; exact C']|].
  split; [apply bstack_eq; [apply (good_inv s' (g_good s' G'))|exact C']|].
  destruct Hh as (A1 & A2 & A3 & A4 & A5).
  split; [exists [c]; split; [exact D'|constructor; [exact Hr|constructor]]|].
  split; [intros b Hb; rewrite (same_store_window s1 s' b SS); apply W1; exact Hb|].
  repeat split; assumption.
Qed.

Lemma basic_push_law : forall a s, RegsOk s ->
  exists s' x, d_push_register basic_ops a s = Ok (s', Done tt) /\ RegsOk s' /\
               bstack s' = x :: bstack s /\ snd x = a /\ bframe s s'.
Proof.
  intros a s H. pose proof (RegsOk_chain s H) as C. destruct H as [Gs _].
  cbn [d_push_register basic_ops]. unfold push_register, sbind, sget. cbv beta iota.
  destruct (cur_register s) as [prev|] eqn:Ec.
  - destruct (push_cell_then_head s (CRegister prev a) a (bstack s) Gs) as (s1 & H1 & R' & B' & F').
    + split; [reflexivity|exact I].
    + exact I.
    + apply pc_cons with (p := prev).
      * rewrite nth_error_app2, Nat.sub_diag by lia. reflexivity.
      * apply (pchain_lt _ _ _ C).
      * apply pchain_app. exact C.
    + rewrite H1. eexists. exists (length (data s), a). split; [reflexivity|]. split; [exact R'|]. split; [exact B'|]. split; [reflexivity|exact F'].
  - destruct (push_cell_then_head s (CRegisterRoot a) a [] Gs) as (s1 & H1 & R' & B' & F').
    + split; [reflexivity|exact I].
    + exact I.
    + apply pc_root. rewrite nth_error_app2, Nat.sub_diag by lia. reflexivity.
    + assert (E : bstack s = []) by (inversion C; reflexivity).
      rewrite H1, E. eexists. exists (length (data s), a). split; [reflexivity|]. split; [exact R'|]. split; [exact B'|]. split; [reflexivity|exact F'].
Qed.

Lemma head_move_ok : forall s h l, G s -> pchain (data s) h l ->
  let s' := set_cur_register s h in RegsOk s' /\ bstack s' = l /\ bframe s s'.
Proof.
  intros s h l Gs C. cbv zeta. set (s' := set_cur_register s h).
  pose proof (same_store_set_cur_register s h) as SS. fold s' in SS.
  assert (G' : G s') by (apply (same_store_G s s' SS Gs); intros i Hi; apply (g_cur_frame s Gs); exact Hi).
  assert (D' : data s' = data s) by (unfold data; apply (same_store_window s s' BData SS)).
  assert (C' : pchain (data s') (cur_register s') l) by (rewrite D'; exact C).
  split; [split; [exact G'|eexists; exact C']|].
  split; [apply bstack_eq; [apply (good_inv s' (g_good s' G'))|exact C']|].
  split; [exists []; split; [rewrite D'; symmetry; apply app_nil_r|constructor]|].
  split; [intros b _; apply (same_store_window s s' b SS)|]. repeat split.
Qed.

Lemma basic_pop_law : forall (x : nat * nat) r t s, RegsOk s -> bstack s = x :: r ->
  d_get_data_type basic_ops (snd x) s = Ok t -> t <> T_Custom ->
  exists s', d_pop_register basic_ops s = Ok (s', Done (Some (snd x))) /\ RegsOk s' /\
             bstack s' = r /\ bframe s s'.
Proof.
  intros x r t s H Hst _ _. pose proof (RegsOk_inv s H) as I. pose proof (RegsOk_chain s H) as C. destruct H as [Gs _].
  rewrite Hst in C. cbn [d_pop_register basic_ops]. unfold pop_register.
  remember (cur_register s) as cr eqn:Ecr.
  inversion C as [|i v Hi E1 E2|i p v r' Hi Hp Hr E1 E2]; subst.
  - rewrite (get_from_block_ok s BData i I). fold (data s). rewrite Hi.
    destruct (head_move_ok s None [] Gs (pc_nil _)) as (R' & B' & F').
    eexists. split; [reflexivity|]. split; [exact R'|]. split; [exact B'|exact F'].
  - rewrite (get_from_block_ok s BData i I). fold (data s). rewrite Hi.
    destruct (head_move_ok s (Some p) r Gs Hr) as (R' & B' & F').
    eexists. split; [reflexivity|]. split; [exact R'|]. split; [exact B'|exact F'].
Qed.

Definition basic_laws : RegLawsInv basic_ops :=
  mkRegLawsInv basic_ops (nat * nat)%type snd RegsOk bstack bframe bframe_refl bframe_trans
    basic_keeps basic_len_law basic_push_law basic_pop_law.

(* the stack of slots pins the head cell and the register values *)
Lemma basic_restored : forall s s', RegsOk s -> RegsOk s' -> bstack s' = bstack s ->
  cur_register s' = cur_register s /\ registers_rev s' = registers_rev s.
Proof.
  intros s s' H H' E. pose proof (RegsOk_chain s H) as C. pose proof (RegsOk_chain s' H') as C'.
  split.
  - rewrite (pchain_head _ _ _ C), (pchain_head _ _ _ C'), E. reflexivity.
  - rewrite (registers_rev_eq s _ (RegsOk_inv s H) C), (registers_rev_eq s' _ (RegsOk_inv s' H') C'), E. reflexivity.
Qed.

(* ---- the theorems on the BasicGarnishData model ---- *)
Theorem basic_concat_index : forall fuel addr tl tr s k,
  RegsOk s -> denotes basic_ops s addr (Cat tl tr) -> concat_fuel (Cat tl tr) <= fuel ->
  exists s', index_concatenation_for basic_ops fuel addr (Z.of_nat k) s = Ok (s', Done (nth_error (flatten (Cat tl tr)) k)) /\
             RegsOk s' /\ cur_register s' = cur_register s /\ registers_rev s' = registers_rev s /\ bframe s s'.
Proof.
  intros fuel addr tl tr s k H Hden Hfuel.
  destruct (concat_index_inv basic_ops basic_laws fuel addr tl tr s k H Hden Hfuel) as (s' & Hrun & H' & E & F).
  exists s'. split; [exact Hrun|]. split; [exact H'|].
  destruct (basic_restored s s' H H' E) as [E1 E2]. split; [exact E1|]. split; [exact E2|exact F].
Qed.

Theorem basic_concat_index_negative : forall fuel addr tl tr s z,
  RegsOk s -> denotes basic_ops s addr (Cat tl tr) -> concat_fuel (Cat tl tr) <= fuel -> (z < 0)%Z ->
  exists s', index_concatenation_for basic_ops fuel addr z s = Ok (s', Done None) /\
             RegsOk s' /\ cur_register s' = cur_register s /\ registers_rev s' = registers_rev s /\ bframe s s'.
Proof.
  intros fuel addr tl tr s z H Hden Hfuel Hz.
  destruct (concat_index_negative_inv basic_ops basic_laws fuel addr tl tr s z H Hden Hfuel Hz) as (s' & Hrun & H' & E & F).
  exists s'. split; [exact Hrun|]. split; [exact H'|].
  destruct (basic_restored s s' H H' E) as [E1 E2]. split; [exact E1|]. split; [exact E2|exact F].
Qed.

(* an item as the symbol lookup sees it, read off the data table *)
Lemma basic_viewed : forall s a, G s -> valid_item (data s) a -> viewed basic_ops s a (bview (data s) a).
Proof.
  intros s a Gs [Ha Hl]. pose proof (good_inv s (g_good s Gs)) as I. unfold bview.
  destruct (nth_error (data s) a) as [c|] eqn:Ec; [|apply nth_error_None in Ec; lia].
  assert (Hr : get_from_block BData a s = Ok c) by (rewrite (get_from_block_ok s BData a I); fold (data s); rewrite Ec; reflexivity).
  assert (Ht : d_get_data_type basic_ops a s = Ok (cell_type c)) by (cbn; unfold get_data_type; rewrite Hr; reflexivity).
  destruct c; try (eapply view_other; [exact Ht|cbn; discriminate]).
  rename a0 into lft. rename b into rgt.
  assert (Hp : d_get_pair basic_ops a s = Ok (lft, rgt)) by (cbn; unfold get_pair; rewrite Hr; reflexivity).
  pose proof (Hl lft rgt eq_refl) as Hlt.
  destruct (nth_error (data s) lft) as [cl|] eqn:El; [|apply nth_error_None in El; lia].
  assert (Hrl : get_from_block BData lft s = Ok cl) by (rewrite (get_from_block_ok s BData lft I); fold (data s); rewrite El; reflexivity).
  assert (Htl : d_get_data_type basic_ops lft s = Ok (cell_type cl)) by (cbn; unfold get_data_type; rewrite Hrl; reflexivity).
  destruct cl; try (eapply view_pair_other; [exact Ht|exact Hp|exact Htl|cbn; discriminate]).
  apply view_assoc with (l := lft); try assumption.
  cbn. unfold get_symbol. rewrite Hrl. reflexivity.
Qed.

Theorem basic_concat_lookup : forall fuel sym addr tl tr s,
  RegsOk s -> denotes basic_ops s addr (Cat tl tr) -> concat_fuel (Cat tl tr) <= fuel ->
  (forall a, In a (lookup_order (Cat tl tr)) -> valid_item (data s) a) ->
  exists s', access_with_symbol basic_ops fuel sym addr s =
               Ok (s', Done (assoc_lookup sym (map (bview (data s)) (lookup_order (Cat tl tr))))) /\
             RegsOk s' /\ cur_register s' = cur_register s /\ registers_rev s' = registers_rev s /\ bframe s s'.
Proof.
  intros fuel sym addr tl tr s H Hden Hfuel Hv.
  destruct (concat_lookup_inv basic_ops basic_laws fuel sym addr tl tr s (bview (data s)) H Hden Hfuel) as (s' & Hrun & H' & E & F).
  - intros a Ha. apply basic_viewed; [exact (proj1 H)|apply Hv; exact Ha].
  - exists s'. split; [exact Hrun|]. split; [exact H'|].
    destruct (basic_restored s s' H H' E) as [E1 E2]. split; [exact E1|]. split; [exact E2|exact F].
Qed.

Theorem basic_concat_lookup_found : forall fuel sym addr tl tr s a v,
  RegsOk s -> denotes basic_ops s addr (Cat tl tr) -> concat_fuel (Cat tl tr) <= fuel ->
  (forall a, In a (lookup_order (Cat tl tr)) -> valid_item (data s) a) ->
  NoDup (keys_of (map (bview (data s)) (lookup_order (Cat tl tr)))) ->
  In a (flatten (Cat tl tr)) -> bview (data s) a = Some (sym, v) ->
  exists s', access_with_symbol basic_ops fuel sym addr s = Ok (s', Done (Some v)) /\
             RegsOk s' /\ cur_register s' = cur_register s /\ registers_rev s' = registers_rev s /\ bframe s s'.
Proof.
  intros fuel sym addr tl tr s a v H Hden Hfuel Hv Hnd Hin Hva.
  destruct (concat_lookup_found_inv basic_ops basic_laws fuel sym addr tl tr s (bview (data s)) a v H Hden Hfuel) as (s' & Hrun & H' & E & F); try assumption.
  - intros a' Ha. apply basic_viewed; [exact (proj1 H)|apply Hv; exact Ha].
  - exists s'. split; [exact Hrun|]. split; [exact H'|].
    destruct (basic_restored s s' H H' E) as [E1 E2]. split; [exact E1|]. split; [exact E2|exact F].
Qed.

Theorem basic_concat_fuel_suffices : forall fuel addr tl tr s,
  RegsOk s -> denotes basic_ops s addr (Cat tl tr) -> concat_fuel (Cat tl tr) <= fuel ->
  (forall z, index_concatenation_for basic_ops fuel addr z s <> OutOfFuel) /\
  (forall sym, (forall a, In a (lookup_order (Cat tl tr)) -> valid_item (data s) a) ->
     access_with_symbol basic_ops fuel sym addr s <> OutOfFuel).
Proof.
  intros fuel addr tl tr s H Hden Hfuel.
  destruct (concat_fuel_suffices_inv basic_ops basic_laws fuel addr tl tr s H Hden Hfuel) as [A B].
  split; [exact A|]. intros sym Hv. apply (B sym (bview (data s))).
  intros a Ha. apply basic_viewed; [exact (proj1 H)|apply Hv; exact Ha].
Qed.

(* ---- reading a concatenation tree off the data table ---- *)
Lemma basic_den_list : forall s p items ac, G s ->
  nth_error (data s) p = Some (CList (length items) ac) ->
  firstn (length items) (skipn (p + 1) (data s)) = map CListItem items ->
  denotes basic_ops s p (LeafList items).
Proof.
  intros s p items ac Gs Hh Hi. pose proof (good_inv s (g_good s Gs)) as I.
  assert (Hr : get_from_block BData p s = Ok (CList (length items) ac))
    by (rewrite (get_from_block_ok s BData p I); fold (data s); rewrite Hh; reflexivity).
  apply den_list; cbn [basic_ops d_get_data_type d_get_list_len d_get_list_item].
  - unfold get_data_type. rewrite Hr. reflexivity.
  - unfold get_list_len. rewrite Hr. reflexivity.
  - intros i x Hx. unfold get_list_item. rewrite Hr. cbn [bind as_list fst].
    assert (Hlt : i < length items) by (apply nth_error_Some; congruence).
    assert (E : (Z.of_nat i <? 0)%Z = false) by (apply Z.ltb_ge; lia). rewrite E.
    unfold usize_of_int. rewrite Z.max_l, Nat2Z.id by lia.
    assert (E2 : (length items <=? i) = false) by (apply Nat.leb_gt; exact Hlt). rewrite E2.
    rewrite (get_from_block_ok s BData _ I). fold (data s).
    assert (Hn : nth_error (data s) (p + 1 + i) = Some (CListItem x)).
    { pose proof (nth_error_window (data s) (p + 1) (length items) i) as W. rewrite Hi in W.
      apply Nat.ltb_lt in Hlt. rewrite Hlt in W. rewrite <- W. rewrite nth_error_map, Hx. reflexivity. }
    rewrite Hn. reflexivity.
Qed.

(* the list that build_list has just finished *)
Lemma basic_den_built : forall s T items, G s -> built T items (data s) -> denotes basic_ops s (length T) (LeafList items).
Proof.
  intros s T items Gs Hb. pose proof Hb as (_ & _ & Hh & Hi & _).
  apply (basic_den_list s (length T) items _ Gs Hh).
  apply list_ext_nth. intro i. rewrite nth_error_window. destruct (i <? length items) eqn:E.
  - apply Nat.ltb_lt in E. rewrite (Hi i E), nth_error_map, (nth_error_nth' items 0 E). reflexivity.
  - apply Nat.ltb_ge in E. symmetry. apply nth_error_None. rewrite map_length. exact E.
Qed.

Lemma basic_den_cat : forall s a l r tl tr, G s -> nth_error (data s) a = Some (CConcatenation l r) ->
  denotes basic_ops s l tl -> denotes basic_ops s r tr -> denotes basic_ops s a (Cat tl tr).
Proof.
  intros s a l r tl tr Gs Ha Hl Hr. pose proof (good_inv s (g_good s Gs)) as I.
  assert (Hg : get_from_block BData a s = Ok (CConcatenation l r))
    by (rewrite (get_from_block_ok s BData a I); fold (data s); rewrite Ha; reflexivity).
  apply den_cat with (l := l) (r := r); try assumption; cbn [basic_ops d_get_data_type d_get_concatenation].
  - unfold get_data_type. rewrite Hg. reflexivity.
  - unfold get_concatenation. rewrite Hg. reflexivity.
Qed.

Lemma basic_den_item : forall s a c, G s -> nth_error (data s) a = Some c ->
  cell_type c <> T_List -> cell_type c <> T_Concatenation -> cell_type c <> T_Custom ->
  denotes basic_ops s a (LeafItem a).
Proof.
  intros s a c Gs Ha H1 H2 H3. pose proof (good_inv s (g_good s Gs)) as I.
  apply den_item with (t := cell_type c); try assumption.
  cbn [basic_ops d_get_data_type]. unfold get_data_type. rewrite (get_from_block_ok s BData a I). fold (data s). rewrite Ha. reflexivity.
Qed.

(* a tree read in s is still there in every state whose data table extends the one of s
   (for instance after further add_* / build_list: [built] keeps the old cells) *)
Lemma basic_den_extends : forall s s' a t, G s -> G s' -> extends s s' -> denotes basic_ops s a t -> denotes basic_ops s' a t.
Proof.
  intros s s' a t Gs Gs' X H. apply (denotes_keeps basic_ops s s' a t); [|exact H].
  apply extends_keeps; [apply (good_inv s (g_good s Gs))|apply (good_inv s' (g_good s' Gs'))|exact X].
Qed.

(* ---- a Basic store built by the model's own operations: two keyed lists, their
   concatenation, a nested concatenation, two registers already on the stack, and the
   data block one cell short of full (so the traversal reallocates the heap) ---- *)
Definition ex_basic_ops : list op :=
  [OSym 5%N; ONumber (SInt 7%Z); OPair 0 1;          (* 2: :5 = 7 *)
   OSym 12%N; ONumber (SInt 9%Z); OPair 3 4;         (* 5: :12 = 9 *)
   OSym 20%N; OPair 6 1;                             (* 7: :20 = 7 *)
   OListStart 2; OListAdd 8 2; OListAdd 8 1; OListEnd 8;        (* 8: (:5 = 7, 7) *)
   OListStart 2; OListAdd 13 5; OListAdd 13 7; OListEnd 13;     (* 13: (:12 = 9, :20 = 7) *)
   OConcat 8 13;                                     (* 18: list 8 <> list 13 *)
   OPair 0 4;                                        (* 19: :5 = 9, the key 5 a second time *)
   OConcat 18 19;                                    (* 20: (8 <> 13) <> pair 19 *)
   OUnit; OUnit; OUnit; OUnit; OUnit; OUnit;         (* 21..26 *)
   ORegPush 1; ORegPush 4].                          (* register cells 27, 28 *)

Definition ex_basic_blank : basic :=
  let b := new_block 0 default_settings in mkBasic [] b b b b b b None None None 0 0.

Definition ex_basic_store : basic :=
  match new_default with
  | Ok (s0, _) => match run bstep ex_basic_ops s0 with Ok (s, _) => s | _ => s0 end
  | _ => ex_basic_blank
  end.

Definition ex_btree18 : ctree := Cat (LeafList [2; 1]) (LeafList [5; 7]).
Definition ex_btree20 : ctree := Cat ex_btree18 (LeafItem 19).

Definition outcome_of {A} (r : res (basic * outcome A)) : option (outcome A) :=
  match r with Ok (_, o) => Some o | _ => None end.

Lemma progressing_default : progressing default_settings.
Proof. split; [reflexivity|cbn; lia]. Qed.

Lemma ex_basic_G : G ex_basic_store.
Proof.
  destruct (fresh_store_ok default_settings default_settings default_settings default_settings default_settings default_settings)
    as (s0 & H0 & G0 & _); try apply progressing_default.
  unfold ex_basic_store, new_default. rewrite H0.
  destruct (run_ok ex_basic_ops s0 G0) as (s & rs & Hr & Gs & _). rewrite Hr. exact Gs.
Qed.

Lemma ex_basic_regs : RegsOk ex_basic_store.
Proof.
  split; [apply ex_basic_G|]. exists [(28, 4); (27, 1)].
  assert (E : cur_register ex_basic_store = Some 28) by (vm_compute; reflexivity). rewrite E.
  apply pc_cons with (p := 27); [vm_compute; reflexivity|lia|apply pc_root; vm_compute; reflexivity].
Qed.

Lemma ex_basic_den20 : denotes basic_ops ex_basic_store 20 ex_btree20.
Proof.
  pose proof ex_basic_G as Gs.
  apply basic_den_cat with (l := 18) (r := 19); [exact Gs|vm_compute; reflexivity| |].
  - apply basic_den_cat with (l := 8) (r := 13); [exact Gs|vm_compute; reflexivity| |].
    + apply basic_den_list with (ac := 1); [exact Gs|vm_compute; reflexivity|vm_compute; reflexivity].
    + apply basic_den_list with (ac := 2); [exact Gs|vm_compute; reflexivity|vm_compute; reflexivity].
  - apply basic_den_item with (c := CPair 0 4); [exact Gs|vm_compute; reflexivity|cbn; discriminate..].
Qed.

Lemma ex_basic_valid20 : forall a, In a (lookup_order ex_btree20) -> valid_item (data ex_basic_store) a.
Proof.
  intros a Ha. cbn in Ha.
  repeat (destruct Ha as [<-|Ha];
          [split; [vm_compute; lia|intros l r H; vm_compute in H; inversion H; subst; vm_compute; lia]|]).
  destruct Ha.
Qed.
