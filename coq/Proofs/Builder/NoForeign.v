(* The worklist model of build() never asks for a write below the initial
   jump-table length: its E_foreign_jump outcome is unreachable, for EVERY node
   array (proper tree or not), initial state, literal oracle and fuel.  Every
   record the builder creates carries a placeholder index taken from the
   current jump-table length, and every arm registered with an else-chain head
   likewise. *)
From Coq Require Import List Arith Bool NArith Lia.
From GV Require Import Base.Result Gen.TokenTypes Gen.Defs Gen.Instr Model.Parser Model.BuilderWL Model.Compile
  Proofs.C05.InlBase Proofs.Builder.BState.
Import ListNotations.

Section NF.
Variable nodes : list pnode.
Variable init : binit.
Variable lit_ok : nat -> bool.
Notation jlo := (i_jump_len init).

Definition rec_ok (b : bnode) : Prop :=
  (forall j, b_jump_upd b = Some j -> jlo <= j) /\ Forall (fun it : nat * nat => jlo <= snd it) (b_cond_items b).

Definition inv (s : bstate) : Prop := forall i b, lk s i = Some (Some b) -> rec_ok b.

Lemma inv_setb : forall s s' i b, setb s s' i b -> inv s -> rec_ok b -> inv s'.
Proof.
  intros s s' i b [H1 [H2 _]] Hi Hb j b' Hj. destruct (Nat.eq_dec j i) as [E|E].
  - subst j. rewrite H1 in Hj. inversion Hj; subst. exact Hb.
  - rewrite H2 in Hj by exact E. exact (Hi j b' Hj).
Qed.

Lemma inv_same : forall s s', (forall j, lk s' j = lk s j) -> inv s -> inv s'.
Proof. intros s s' H Hi j b Hj. rewrite H in Hj. exact (Hi j b Hj). Qed.

Lemma jl_ge : forall s, jlo <= jump_len init s.
Proof. intros s. unfold jump_len. lia. Qed.

Lemma rec_ok_new : forall b, b_jump_upd b = None -> b_cond_items b = [] -> rec_ok b.
Proof. intros b H1 H2. split; [intros j E; congruence | rewrite H2; constructor]. Qed.

Ltac rec_solve Hi :=
  unfold rec_ok;
  cbn [b_jump_upd b_cond_items b_set_init b_set_contrib b_inc_count b_add_item b_set_left_built
       b_new b_new_list b_new_cond b_new_jump b_new_jump_end];
  split;
  [ let j := fresh in let E := fresh in intros j E;
    first [ discriminate E
          | injection E as E; subst; apply jl_ge
          | match goal with H : lk _ _ = Some (Some ?b) |- _ => exact (proj1 (Hi _ _ H) _ E) end ]
  | first [ apply Forall_nil
          | match goal with H : lk _ _ = Some (Some ?b) |- Forall _ (b_cond_items ?b) => exact (proj2 (Hi _ _ H)) end
          | apply Forall_app; split;
            [ match goal with H : lk _ _ = Some (Some ?b) |- Forall _ (b_cond_items ?b) => exact (proj2 (Hi _ _ H)) end
            | apply Forall_cons; [cbn [snd]; apply jl_ge | apply Forall_nil] ] ] ].

Lemma inv_push_instr : forall s i m, inv s -> inv (push_instr s i m).
Proof. intros s i m H. exact H. Qed.
Lemma inv_push_jump : forall s x, inv s -> inv (push_jump s x).
Proof. intros s x H. exact H. Qed.
Lemma inv_push_root : forall s x, inv s -> inv (push_root s x).
Proof. intros s x H. exact H. Qed.

Lemma fold_push_root_lk : forall (items : list (nat * nat)) s1 j,
  lk (fold_left (fun acc it => push_root acc (fst it)) items s1) j = lk s1 j.
Proof. induction items as [|it items IH]; intros s1 j; [reflexivity|]. cbn [fold_left]. rewrite IH. reflexivity. Qed.

Lemma fold_assign_inv : forall c jt items r s3,
  fold_left (fun (acc : res bstate) (it : nat * nat) =>
               do a <- acc; assign_b a (fst it) (b_new_jump_end (fst it) c (snd it) [(I_JumpTo, ONum jt)])) items r = Ok s3 ->
  (forall s2, r = Ok s2 -> inv s2) -> Forall (fun it : nat * nat => jlo <= snd it) items -> inv s3.
Proof.
  induction items as [|it items IH]; intros r s3 H Hr Hf.
  - cbn in H. apply Hr. exact H.
  - cbn [fold_left] in H. inversion Hf as [|? ? Hit Hf']; subst. apply (IH _ _ H); [|exact Hf'].
    intros s2' Hs2'. apply bind_ok in Hs2'. destruct Hs2' as [a [Ha Hs2']]. apply assign_b_ok in Hs2'.
    apply (inv_setb _ _ _ _ Hs2'); [apply Hr; exact Ha|].
    split; [cbn; intros j E; injection E as E; subst; exact Hit | cbn; constructor].
Qed.

Theorem hpn_inv : forall s crj st ni pn s' st',
  handle_parse_node init lit_ok s crj st ni pn = Ok (s', st') -> inv s -> inv s'.
Proof.
  intros s crj st ni pn s' st' H Hi.
  unfold handle_parse_node in H.
  destruct (n_def pn);
    unfold handle_value_like, handle_unary, handle_unary_suffix, handle_binary, handle_list, handle_logical,
           handle_jump_if, handle_else, handle_fix_apply in H;
    try (destruct (binary_instruction _) as [[? ?]|]).
  all: try discriminate H.
  all: repeat inv_b.
  all: try exact Hi.
  all: try solve [
    repeat match goal with
           | |- inv (push_instr _ _ _) => apply inv_push_instr
           | |- inv (push_jump _ _) => apply inv_push_jump
           | |- inv (push_root _ _) => apply inv_push_root
           | H : inv ?s |- inv ?s => exact H
           | H : setb ?s ?s' ?i ?b |- inv ?s' => apply (inv_setb _ _ _ _ H); [| rec_solve Hi]
           end ].
  1,2: change (lk (push_jump s 0) n = Some (Some b)) in Heqo0;
       apply inv_push_instr; apply (inv_setb _ _ _ _ H1); [exact Hi | rec_solve Hi].
  apply (fold_assign_inv _ _ _ _ _ H0).
  - intros s2 E. injection E as E. subst s2. intros j b' Hj. rewrite fold_push_root_lk in Hj. exact (Hi j b' Hj).
  - rewrite <- Heql. exact (proj2 (Hi _ _ H)).
Qed.

Lemma after_node_inv : forall s ni s', after_node s ni = Ok s' -> inv s -> inv s'.
Proof.
  intros s ni s' H Hi. unfold after_node in H.
  destruct (nth_error (bnodes s) ni) as [[b|]|] eqn:Hb; try (injection H as H; subst; exact Hi).
  change (lk s ni = Some (Some b)) in Hb.
  destruct (b_contrib b); [|injection H as H; subst; exact Hi].
  destruct (b_list_parent b) as [[p d]|]; [|injection H as H; subst; exact Hi].
  repeat inv_b.
  match goal with H2 : setb _ s' _ _, H1 : setb s _ _ _ |- _ =>
    apply (inv_setb _ _ _ _ H2); [apply (inv_setb _ _ _ _ H1); [exact Hi | rec_solve Hi] |] end.
  assert (Hx : inv x) by (match goal with H1 : setb s x _ _ |- _ => apply (inv_setb _ _ _ _ H1); [exact Hi | rec_solve Hi] end).
  rec_solve Hx.
Qed.

Definition not_fj {A} (r : res A) : Prop := r <> Err E_foreign_jump.

Lemma bind_nfj : forall A B (r : res A) (f : A -> res B), not_fj r -> (forall a, not_fj (f a)) -> not_fj (bind r f).
Proof. intros A B r f Hr Hf. unfold not_fj in *. destruct r; cbn; auto; intros E; apply Hr; congruence. Qed.
Lemma get_b_nfj : forall s i, not_fj (get_b s i).
Proof. intros s i. unfold not_fj, get_b. destruct (nth_error (bnodes s) i) as [[b|]|]; discriminate. Qed.
Lemma put_b_nfj : forall s i b, not_fj (put_b s i b).
Proof. intros s i b. unfold not_fj, put_b. destruct (upd _ _ _); discriminate. Qed.
Lemma assign_b_nfj : forall s i b, not_fj (assign_b s i b).
Proof. intros s i b. unfold not_fj, assign_b. destruct (upd _ _ _); discriminate. Qed.
Lemma need_nfj : forall A (o : option A), not_fj (need o).
Proof. intros A o. unfold not_fj, need. destruct o; discriminate. Qed.
Lemma ok_nfj : forall A (a : A), not_fj (Ok a). Proof. intros; discriminate. Qed.
Lemma berr_nfj : forall A, not_fj (@berr A). Proof. intros; discriminate. Qed.
Lemma elit_nfj : forall A, not_fj (@Err A E_literal). Proof. intros; discriminate. Qed.

Lemma fold_assign_nfj : forall c jt items r,
  not_fj r ->
  not_fj (fold_left (fun (acc : res bstate) (it : nat * nat) =>
               do a <- acc; assign_b a (fst it) (b_new_jump_end (fst it) c (snd it) [(I_JumpTo, ONum jt)])) items r).
Proof.
  induction items as [|it items IH]; intros r Hr; [exact Hr|]. cbn [fold_left]. apply IH.
  apply bind_nfj; [exact Hr | intros a; apply assign_b_nfj].
Qed.

Ltac nfj :=
  repeat match goal with
         | |- not_fj (bind _ _) => apply bind_nfj; [| intros ?]
         | |- not_fj (get_b _ _) => apply get_b_nfj
         | |- not_fj (put_b _ _ _) => apply put_b_nfj
         | |- not_fj (assign_b _ _ _) => apply assign_b_nfj
         | |- not_fj (need _) => apply need_nfj
         | |- not_fj (Ok _) => apply ok_nfj
         | |- not_fj berr => apply berr_nfj
         | |- not_fj (Err E_literal) => apply elit_nfj
         | |- not_fj (fold_left _ _ _) => apply fold_assign_nfj
         | |- not_fj (if ?b then _ else _) => destruct b
         | |- not_fj (let '(_, _) := ?x in _) => destruct x
         | |- not_fj (match ?x with _ => _ end) => destruct x
         end.

Lemma hpn_not_fj : forall s crj st ni pn, not_fj (handle_parse_node init lit_ok s crj st ni pn).
Proof.
  intros s crj st ni pn. unfold handle_parse_node.
  destruct (n_def pn);
    unfold handle_value_like, handle_unary, handle_unary_suffix, handle_binary, handle_list, handle_logical,
           handle_jump_if, handle_else, handle_fix_apply;
    try (destruct (binary_instruction _) as [[? ?]|]).
  all: nfj.
Qed.

Lemma nfj_err_cast : forall A B e, @not_fj A (Err e) -> @not_fj B (Err e).
Proof. intros A B e H E. apply H. injection E as E. rewrite E. reflexivity. Qed.

Lemma after_node_nfj : forall s ni, not_fj (after_node s ni).
Proof. intros s ni. unfold after_node. nfj. Qed.

Lemma drain_nfj : forall fuel s crj st, inv s ->
  not_fj (drain nodes init lit_ok fuel s crj st) /\
  (forall s' f, drain nodes init lit_ok fuel s crj st = Ok (s', f) -> inv s').
Proof.
  induction fuel as [|fuel IH]; intros s crj st Hi; [split; [discriminate | intros; discriminate]|].
  cbn [drain]. destruct st as [|ni rest]; [split; [discriminate | intros s' f E; injection E as E _; subst; exact Hi]|].
  fold (bump s). destruct (Nat.ltb (max_steps nodes) (steps (bump s))); [split; [discriminate | intros; discriminate]|].
  destruct (nth_error nodes ni) as [pn|]; [|split; [discriminate | intros; discriminate]].
  pose proof (hpn_not_fj (bump s) crj rest ni pn) as Hn.
  destruct (handle_parse_node init lit_ok (bump s) crj rest ni pn) as [[s1 st1]|e|p|] eqn:Hh; cbn [bind];
    try (split; [first [assumption | discriminate | eapply nfj_err_cast; eassumption] | intros; discriminate]).
  assert (Hi1 : inv s1) by (eapply hpn_inv; [exact Hh | exact Hi]).
  pose proof (after_node_nfj s1 ni) as Ha.
  destruct (after_node s1 ni) as [s2|e|p|] eqn:Han; cbn [bind];
    try (split; [first [assumption | discriminate | eapply nfj_err_cast; eassumption] | intros; discriminate]).
  apply IH. eapply after_node_inv; eauto.
Qed.

Lemma finish_root_bnodes : forall s ix, bnodes (finish_root init s ix) = bnodes s.
Proof.
  intros s ix. unfold finish_root. generalize (last_instruction init s). intros last.
  generalize (existsb (Nat.eqb (instr_len init s)) (jumps s)). intros tg.
  match goal with |- bnodes (fold_left ?f ?en s) = _ => generalize en end. intros ends.
  revert s. induction ends as [|e ends IH]; intros s; [reflexivity|]. cbn [fold_left].
  destruct last as [li|]; [destruct (instr_eqb li e && instruction_eqb (fst e) I_EndExpression && negb tg)|]; rewrite IH; reflexivity.
Qed.

Lemma roots_nfj : forall dfuel fuel s, inv s -> not_fj (roots nodes init lit_ok dfuel fuel s).
Proof.
  intros dfuel. induction fuel as [|fuel IH]; intros s Hi; [discriminate|].
  cbn [roots]. destruct (root_stack s) as [|ri rest]; [discriminate|].
  set (s0 := mkBS (bnodes s) (instrs s) (meta s) (jumps s) rest (steps s)).
  assert (Hi0 : inv s0) by exact Hi.
  assert (G : forall s1 crj, inv s1 ->
            not_fj (do d <- drain nodes init lit_ok dfuel s1 crj [ri]; let '(s2, _) := d in
                    roots nodes init lit_ok dfuel fuel (finish_root init s2 ri))).
  { intros s1 crj Hi1. destruct (drain_nfj dfuel s1 crj [ri] Hi1) as [Hn Hok].
    destruct (drain nodes init lit_ok dfuel s1 crj [ri]) as [[s2 lf]|e|p|] eqn:Hd; cbn [bind];
      try first [assumption | discriminate | eapply nfj_err_cast; eassumption].
    apply IH. intros j b Hj. unfold lk in Hj. rewrite finish_root_bnodes in Hj. exact (Hok s2 lf eq_refl j b Hj). }
  destruct (nth_error (bnodes s0) ri) as [[b|]|] eqn:Hb.
  - destruct (b_jump_upd b) as [index|] eqn:Hju.
    + unfold set_jump. pose proof (proj1 (Hi0 ri b Hb) index Hju) as Hge.
      destruct (Nat.ltb index jlo) eqn:El; [apply Nat.ltb_lt in El; lia|].
      destruct (upd (jumps s0) (index - jlo) (fun _ => instr_len init s0)) as [l|]; cbn [bind]; [|discriminate].
      apply G. exact Hi0.
    + cbn [bind]. apply G. exact Hi0.
  - cbn [bind]. apply G. exact Hi0.
  - cbn [bind]. apply G. exact Hi0.
Qed.

Theorem build_no_foreign_jump : forall fuel root, build nodes init lit_ok fuel root <> Err E_foreign_jump.
Proof.
  intros fuel root. unfold build. destruct nodes as [|n0 ns'] eqn:En; [discriminate|]. rewrite <- En.
  destruct (negb (root <? length nodes)); [discriminate|].
  destruct (negb (links_in_range nodes)); [discriminate|].
  set (s0 := mkBS (map (fun _ : pnode => None) nodes) [] [] [] [root] 0).
  pose proof (assign_b_nfj s0 root (b_new root jlo)) as Ha.
  destruct (assign_b s0 root (b_new root jlo)) as [s1|e|p|] eqn:Has; cbn [bind]; try first [assumption | discriminate | eapply nfj_err_cast; eassumption].
  assert (Hi1 : inv s1).
  { apply assign_b_ok in Has. apply (inv_setb _ _ _ _ Has).
    - intros j b Hj. unfold lk, s0 in Hj. cbn [bnodes] in Hj. apply nth_error_In in Hj. apply in_map_iff in Hj. destruct Hj as [? [E _]]. discriminate E.
    - apply rec_ok_new; reflexivity. }
  pose proof (roots_nfj fuel fuel s1 Hi1) as Hr.
  destruct (roots nodes init lit_ok fuel fuel s1) as [s2|e|p|]; cbn [bind]; try first [assumption | discriminate | eapply nfj_err_cast; eassumption].
Qed.

End NF.
