(* Forward simulation: if the reference evaluator gives an expression of the
   fragment a value, the code CompileExpr places for it, started with the
   same `$`, host state and pending operands, runs to the end of its inline
   code with that value pushed, the same host state, and the same observable
   trace.  By induction on the evaluator's fuel, for the three mutually
   recursive readings (expression, list items, else-chain). *)
From Coq Require Import ZArith NArith List Bool Arith Lia.
From GV Require Import Base.Result Base.Host Gen.Instr Gen.Exec Model.Num Model.Value Model.Machine
  Model.CompileExpr Spec.Ast Spec.Eval
  Proofs.C01.MachineFacts Proofs.C01.Sizes Proofs.C01.Placement Proofs.C01.OpRefine Proofs.C01.Fragment Proofs.C01.Steps.
Import ListNotations.

Section Sim.
Variable sym_hash : list N -> N.
Variable hstate : Type.
Variable host : hstate -> host_call -> hstate * option val.
Hypothesis Hdef : declines_defer hstate host.
Variable pbodies : list (N * expr).
Variable P : program.

Notation St := (mkSt hstate).
Notation star := (star hstate host P).
Notation C := (code P).
Notation J := (jt P).
Notation eval := (eval sym_hash hstate host pbodies).
Notation eval_items := (eval_items sym_hash hstate host pbodies).
Notation eval_chain := (eval_chain sym_hash hstate host pbodies).
Notation placed := (placed sym_hash C J).
Notation placedC := (placedC sym_hash C J).
Notation est := (st hstate).

Lemma obind_done : forall (A B : Type) (o : out est A) (k : A -> est -> out est B) b s',
  obind o k = ODone b s' -> exists a s1, o = ODone a s1 /\ k a s1 = ODone b s'.
Proof. intros A B o k b s' H. destruct o; cbn in H; try discriminate. eauto. Qed.

(* ------------------------------------------------------------ statements *)
Definition SimEval (n : nat) : Prop :=
  forall e vin (s : est) v s',
  eval n e vin s = ODone v s' ->
  frag e = true -> shape_ok e = true ->
  forall b, seq_ok b e = true ->
  forall cont pc j ob jb sg vs fs mt,
  placed cont None e pc j ob jb ->
  pc + si (sizes None e) < length C ->
  observable mt = snd s ->
  exists vin' mt',
    star (St pc sg (vin :: vs) fs (fst s) mt)
         (St (pc + si (sizes None e)) (v :: sg) (vin' :: vs) fs (fst s') mt') /\
    observable mt' = snd s' /\
    (is_seq e = false -> vin' = vin).

Definition SimItems (n : nat) : Prop :=
  forall k e vin (s : est) items s',
  eval_items n k e vin s = ODone items s' ->
  frag e = true -> shape_ok e = true -> seq_ok false e = true ->
  forall cont pc j ob jb sg vs fs mt,
  placed cont (Some k) e pc j ob jb ->
  pc + si (sizes (Some k) e) < length C ->
  observable mt = snd s ->
  exists mt',
    star (St pc sg (vin :: vs) fs (fst s) mt)
         (St (pc + si (sizes (Some k) e)) (rev items ++ sg) (vin :: vs) fs (fst s') mt') /\
    observable mt' = snd s' /\
    length items = leaves k e.

(* a chain of conditionals: either every condition fails and nothing is pushed,
   or an arm is taken and control arrives at the chain's join point *)
Definition SimChain (n : nat) : Prop :=
  forall e vin (s : est) o s',
  eval_chain n e vin s = ODone o s' ->
  lchain e = true ->
  frag e = true -> shape_okC true e = true -> seq_ok false e = true ->
  forall cont pc j aob ajb ob jb jj pjoin sg vs fs mt,
  placedC true cont None e pc j aob ajb ob jb jj ->
  nth_error J jj = Some pjoin -> pjoin < length C ->
  pc + ci (csizes e) < length C ->
  observable mt = snd s ->
  exists mt', observable mt' = snd s' /\
    match o with
    | None =>
        star (St pc sg (vin :: vs) fs (fst s) mt) (St (pc + ci (csizes e)) sg (vin :: vs) fs (fst s') mt')
    | Some v =>
        star (St pc sg (vin :: vs) fs (fst s) mt) (St pjoin (v :: sg) (vin :: vs) fs (fst s') mt')
    end.

Definition SimAll (n : nat) : Prop := SimEval n /\ SimItems n /\ SimChain n.

End Sim.
