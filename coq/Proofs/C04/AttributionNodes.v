(* C04, the attribution clause, carried from the tree compiler to the node array,
   the worklist builder and the parser:
   - the tree-level exemption of Proofs/C04/Attribution.v ([owed]) covers every
     node that Spec.TreeShape.exempt_from_attribution does not exempt, once the
     parent links of the array agree with the tree (what validate_tree checks);
   - the in-order walk of Spec.TreeShape visits exactly the nodes of the tree;
   - compile_agrees_full transports the result to BuilderWL.build;
   - hence [covered_tree_b] for every accepted token list (outside C05-K2 and
     with no ignored child, both decidable on the parsed tree). *)
From Coq Require Import List Arith Bool NArith Lia.
From GV Require Import Base.Result Gen.TokenTypes Gen.Defs Gen.Instr Model.Parser Model.BuilderWL Model.Compile
  Spec.TreeShape Spec.WfCode
  Proofs.C05.InlBase Proofs.C05.Known Proofs.C05.Operands
  Proofs.Builder.TreeAt Proofs.Builder.ValidTree Proofs.Builder.Transport
  Proofs.C04.Tokens Proofs.C04.Validated Proofs.C04.Attribution.
Import ListNotations.

(* ---- parent links of the array agree with the tree ---- *)
Definition names_parent (nodes : list pnode) (ix : nat) (o : option tree) : Prop :=
  match o with
  | Some a => exists cn, nth_error nodes (t_ix a) = Some cn /\ n_parent cn = Some ix
  | None => True
  end.

Fixpoint parents_agree (nodes : list pnode) (t : tree) : Prop :=
  match t with
  | T ix d l r =>
    names_parent nodes ix l /\ names_parent nodes ix r /\
    match l with Some a => parents_agree nodes a | None => True end /\
    match r with Some b => parents_agree nodes b | None => True end
  end.

Lemma tree_at_root : forall nodes t, tree_at nodes t ->
  exists pn, nth_error nodes (t_ix t) = Some pn /\ n_def pn = t_def t /\
             n_left pn = oix (t_left t) /\ n_right pn = oix (t_right t).
Proof. intros nodes [ix d l r] [H _]. exact H. Qed.

(* every node the array-level predicate does not exempt is owed on the tree *)
Lemma owed_complete : forall nodes t, tree_at nodes t -> parents_agree nodes t ->
  forall pl,
    (forall n, nth_error nodes (t_ix t) = Some n -> exempt_t pl (t_def t) = true ->
               exempt_from_attribution nodes n = true) ->
    forall i n, In i (indices t) -> nth_error nodes i = Some n ->
                exempt_from_attribution nodes n = false -> In i (owed pl t).
Proof.
  intros nodes. induction t as [ix d l r IHl IHr] using tree_ind'.
  intros Hat Hpa pl Hroot i n Hi Hn Hex.
  destruct Hat as [[pn [Hpn [Hd [Hln Hrn]]]] [Hal Har]].
  destruct Hpa as [Hnl [Hnr [Hpl Hpr]]].
  cbn [t_ix t_def] in Hroot.
  (* a child [a] of this node: its exemption on the tree implies the array's *)
  assert (Hchild : forall a, tree_at nodes a -> names_parent nodes ix (Some a) ->
            forall na, nth_error nodes (t_ix a) = Some na -> exempt_t (child_pl d) (t_def a) = true ->
                       exempt_from_attribution nodes na = true).
  { intros a Ha [cn [Hcn Hp]] na Hna Het. rewrite Hcn in Hna. inversion Hna; subst na. clear Hna.
    destruct (tree_at_root _ _ Ha) as [pa [Hpa' [Hda _]]]. rewrite Hcn in Hpa'. inversion Hpa'; subst pa. clear Hpa'.
    unfold exempt_from_attribution. rewrite Hp, Hpn, Hd, Hda.
    unfold exempt_t in Het. unfold is_list_def in Het.
    destruct (definition_eqb (t_def a) D_Group); [reflexivity|].
    destruct (definition_eqb (t_def a) D_ElseJump); [reflexivity|].
    cbn [orb] in *.
    destruct (definition_eqb (t_def a) D_List || definition_eqb (t_def a) D_CommaList); [|discriminate].
    cbn [andb] in *. unfold child_pl in Het. destruct (is_list_def d); [exact Het | discriminate]. }
  rewrite indices_T in Hi. cbn [owed]. destruct Hi as [Hi|Hi].
  - subst i. apply in_or_app. left.
    destruct (exempt_t pl d) eqn:E; [|left; reflexivity].
    rewrite (Hroot n Hn eq_refl) in Hex. discriminate.
  - apply in_or_app. right. apply in_app_or in Hi. apply in_or_app. destruct Hi as [Hi|Hi].
    + left. destruct l as [a|]; [|contradiction]. cbn [oindices] in Hi.
      apply (IHl a eq_refl Hal Hpl (child_pl d) (Hchild a Hal Hnl) i n Hi Hn Hex).
    + right. destruct r as [b|]; [|contradiction]. cbn [oindices] in Hi.
      apply (IHr b eq_refl Har Hpr (child_pl d) (Hchild b Har Hnr) i n Hi Hn Hex).
Qed.

Lemma exempt_none_sound : forall nodes n, exempt_t None (n_def n) = true -> exempt_from_attribution nodes n = true.
Proof.
  intros nodes n H. unfold exempt_t in H. unfold exempt_from_attribution.
  rewrite andb_false_r, orb_false_r in H. rewrite H. reflexivity.
Qed.

(* ---- C04 attribution, on the tree compiler, in the vocabulary of Spec.TreeShape ---- *)
Theorem compile_attributes_all_trees : forall nodes root t init lit r,
  tree_of nodes root = Some t -> parents_agree nodes t ->
  ~ Known_C05_K2 t -> all_children_used t = true ->
  compile init lit t = Ok r ->
  forall i n, In i (indices t) -> nth_error nodes i = Some n ->
    exempt_from_attribution nodes n = false -> In (Some i) (cm (fst r)).
Proof.
  intros nodes root t init lit r Ht Hpa Hk2 Hu Hc i n Hi Hn Hex.
  destruct (tree_of_at _ _ _ Ht) as [Hat [_ _]].
  assert (Hg : drops_arms t = false).
  { destruct (drops_arms t) eqn:E; [exfalso; apply Hk2; exact E | reflexivity]. }
  apply (compile_att init lit t r Hg Hu Hc).
  apply (owed_complete nodes t Hat Hpa None) with (n := n); auto.
  intros n0 Hn0 He. destruct (tree_at_root _ _ Hat) as [pn [Hpn [Hd _]]].
  rewrite Hpn in Hn0. inversion Hn0; subst n0. apply exempt_none_sound. rewrite Hd. exact He.
Qed.

(* ... and on the worklist transliteration of build() *)
Theorem build_attributes_all_trees : forall nodes root t init lit fuel r,
  tree_of nodes root = Some t -> parents_agree nodes t ->
  ~ Known_C05_K2 t -> all_children_used t = true ->
  build nodes init lit fuel root = Ok r ->
  forall i n, In i (indices t) -> nth_error nodes i = Some n ->
    exempt_from_attribution nodes n = false -> In (Some i) (meta (fst r)).
Proof.
  intros nodes root t init lit fuel r Ht Hpa Hk2 Hu Hb i n Hi Hn Hex.
  pose proof (compile_agrees_full_proof _ _ _ _ _ _ _ Ht Hb) as Hc.
  exact (compile_attributes_all_trees nodes root t init lit _ Ht Hpa Hk2 Hu Hc i n Hi Hn Hex).
Qed.

(* ---- the in-order walk of Spec.TreeShape visits exactly the nodes of the tree ---- *)
Fixpoint iot (t : tree) : list nat :=
  match t with
  | T ix _ l r =>
    (match l with Some a => iot a | None => [] end) ++ ix :: (match r with Some b => iot b | None => [] end)
  end.

Lemma iot_indices : forall t i, In i (iot t) <-> In i (indices t).
Proof.
  induction t as [ix d l r IHl IHr] using tree_ind'. intros i. cbn [iot indices].
  rewrite in_app_iff. cbn [In]. rewrite in_app_iff.
  assert (A : In i (match l with Some a => iot a | None => [] end) <-> In i (match l with Some a => indices a | None => [] end))
    by (destruct l as [a|]; [apply IHl; reflexivity | tauto]).
  assert (B : In i (match r with Some b => iot b | None => [] end) <-> In i (match r with Some b => indices b | None => [] end))
    by (destruct r as [b|]; [apply IHr; reflexivity | tauto]).
  tauto.
Qed.

Lemma inorder_go_tree_at : forall ns t, tree_at ns t ->
  forall fuel stack acc,
    inorder_go (2 * size t + fuel) ns stack (Some (t_ix t)) acc
    = inorder_go fuel ns stack None (rev (iot t) ++ acc).
Proof.
  intros ns. induction t as [ix d l r IHl IHr] using tree_ind'. intros Hat fuel stack acc.
  destruct Hat as [[pn [Hpn [Hd [Hln Hrn]]]] [Hal Har]].
  cbn [t_ix size iot].
  set (sl := match l with Some a => size a | None => 0 end).
  set (sr := match r with Some b => size b | None => 0 end).
  replace (2 * S (sl + sr) + fuel) with (S (2 * sl + S (2 * sr + fuel))) by lia.
  cbn [inorder_go]. rewrite Hpn, Hln.
  assert (L : inorder_go (2 * sl + S (2 * sr + fuel)) ns (ix :: stack) (oix l) acc
              = inorder_go (S (2 * sr + fuel)) ns (ix :: stack) None
                           (rev (match l with Some a => iot a | None => [] end) ++ acc)).
  { destruct l as [a|]; cbn [oix]; [apply (IHl a eq_refl Hal) | reflexivity]. }
  rewrite L. cbn [inorder_go]. rewrite Hpn, Hrn.
  assert (R : forall acc', inorder_go (2 * sr + fuel) ns stack (oix r) acc'
              = inorder_go fuel ns stack None
                           (rev (match r with Some b => iot b | None => [] end) ++ acc')).
  { intros acc'. destruct r as [b|]; cbn [oix]; [apply (IHr b eq_refl Har) | reflexivity]. }
  rewrite R. f_equal. rewrite rev_app_distr. cbn [rev]. rewrite <- !app_assoc. reflexivity.
Qed.

Lemma size_le_nodes : forall ns t, tree_at ns t -> NoDup (indices t) -> size t <= length ns.
Proof.
  intros ns t Hat Hnd. rewrite size_indices. rewrite <- (seq_length (length ns) 0).
  apply NoDup_incl_length; [exact Hnd|]. intros x Hx. apply in_seq.
  pose proof (tree_at_in_range ns t Hat x Hx). lia.
Qed.

Theorem inorder_of_tree : forall ns root t, tree_of ns root = Some t -> inorder ns root = Some (iot t).
Proof.
  intros ns root t Ht. destruct (tree_of_at _ _ _ Ht) as [Hat [Hnd Hix]].
  pose proof (size_le_nodes ns t Hat Hnd) as Hsz.
  unfold inorder. subst root.
  replace (4 * length ns + 4) with (2 * size t + S (4 * length ns + 3 - 2 * size t)) by lia.
  rewrite (inorder_go_tree_at ns t Hat). cbn [inorder_go]. rewrite app_nil_r, rev_involutive. reflexivity.
Qed.

(* ---- what validate_tree establishes gives the parent links ---- *)
Lemma well_linked_parents : forall ns v, (forall i, marked v i -> children_ok ns v i) ->
  forall t, tree_at ns t -> marked v (t_ix t) -> parents_agree ns t.
Proof.
  intros ns v Hclosed. induction t as [ix d l r IHl IHr] using tree_ind'. intros Hat Hm.
  destruct Hat as [[pn [Hpn [Hd [Hln Hrn]]]] [Hal Har]]. cbn [t_ix] in Hm.
  pose proof (Hclosed ix Hm) as Hc. unfold children_ok in Hc.
  assert (HL : forall a, l = Some a -> exists cn, nth_error ns (t_ix a) = Some cn /\ n_parent cn = Some ix /\ marked v (t_ix a)).
  { intros a Ha. apply Hc. exists pn. split; [exact Hpn|]. left. rewrite Hln, Ha. reflexivity. }
  assert (HR : forall b, r = Some b -> exists cn, nth_error ns (t_ix b) = Some cn /\ n_parent cn = Some ix /\ marked v (t_ix b)).
  { intros b Hb. apply Hc. exists pn. split; [exact Hpn|]. right. rewrite Hrn, Hb. reflexivity. }
  cbn [parents_agree]. repeat split.
  - destruct l as [a|]; [|exact I]. destruct (HL a eq_refl) as [cn [H1 [H2 _]]]. exists cn. auto.
  - destruct r as [b|]; [|exact I]. destruct (HR b eq_refl) as [cn [H1 [H2 _]]]. exists cn. auto.
  - destruct l as [a|]; [|exact I]. destruct (HL a eq_refl) as [cn [_ [_ H3]]]. apply (IHl a eq_refl Hal H3).
  - destruct r as [b|]; [|exact I]. destruct (HR b eq_refl) as [cn [_ [_ H3]]]. apply (IHr b eq_refl Har H3).
Qed.

Lemma parsed_parents_agree : forall toks root ns t,
  parse toks = Ok (root, ns) -> tree_of ns root = Some t -> parents_agree ns t.
Proof.
  intros toks root ns t Hp Ht.
  destruct (tree_of_at _ _ _ Ht) as [Hat [_ Hix]].
  assert (Hne : ns <> []).
  { intros E. subst ns. destruct (tree_at_root _ _ Hat) as [pn [Hpn _]]. destruct (t_ix t); discriminate. }
  destruct (parse_accepts_only_trees toks root ns Hp Hne) as [v [Hroot [_ [Hclosed _]]]].
  apply (well_linked_parents ns v Hclosed t Hat). rewrite Hix. exact Hroot.
Qed.

(* ---- the checker clause of Spec.TreeShape, for every accepted token list ---- *)
Lemma existsb_meta : forall (m : list (option nat)) i, In (Some i) m ->
  existsb (fun x => match x with Some k => Nat.eqb k i | None => false end) m = true.
Proof. intros m i H. apply existsb_exists. exists (Some i). split; [exact H | apply Nat.eqb_refl]. Qed.

Theorem build_covered_tree : forall nodes root t init lit fuel r,
  tree_of nodes root = Some t -> parents_agree nodes t ->
  ~ Known_C05_K2 t -> all_children_used t = true ->
  build nodes init lit fuel root = Ok r ->
  covered_tree_b nodes root (fst r) = true.
Proof.
  intros nodes root t init lit fuel r Ht Hpa Hk2 Hu Hb.
  unfold covered_tree_b. apply andb_true_iff. split.
  - destruct (C05_operands_meta_builder_proof _ _ _ _ _ _ _ Ht Hb) as [_ [Hlen _]].
    cbn [code_of_build k_meta k_instrs] in Hlen. apply Nat.eqb_eq. exact Hlen.
  - rewrite (inorder_of_tree _ _ _ Ht). apply forallb_forall. intros i Hi.
    apply iot_indices in Hi. destruct (tree_of_at _ _ _ Ht) as [Hat _].
    pose proof (tree_at_in_range nodes t Hat i Hi) as Hlt.
    destruct (nth_error nodes i) as [n|] eqn:Hn; [|apply nth_error_None in Hn; lia].
    destruct (exempt_from_attribution nodes n) eqn:Hex; [reflexivity|]. cbn [orb].
    apply existsb_meta.
    exact (build_attributes_all_trees nodes root t init lit fuel r Ht Hpa Hk2 Hu Hb i n Hi Hn Hex).
Qed.

Theorem parsed_covered_tree : forall toks root ns,
  parse toks = Ok (root, ns) -> ns <> [] ->
  exists t, tree_of ns root = Some t /\
    forall init lit fuel r, ~ Known_C05_K2 t -> all_children_used t = true ->
      build ns init lit fuel root = Ok r -> covered_tree_b ns root (fst r) = true.
Proof.
  intros toks root ns Hp Hne.
  destruct (parse_tree_of_proof toks root ns Hp) as [E|[t Ht]]; [contradiction|].
  exists t. split; [exact Ht|]. intros init lit fuel r Hk2 Hu Hb.
  exact (build_covered_tree ns root t init lit fuel r Ht (parsed_parents_agree toks root ns t Hp Ht) Hk2 Hu Hb).
Qed.

(* ---- the two exclusions are necessary (by evaluation) ---- *)
(* C05-K2 (k2_nodes of Proofs/C05/Refuted.v): `1 ?> 2` directly as the left
   operand of && -- the arm `2` (node 3) is registered with the && node and
   never emitted: no instruction is attributed to it *)
Definition k2_nodes' : list pnode :=
  [ mkNode D_And S_BinaryLeftToRight None (Some 1) (Some 4) None;
    mkNode D_JumpIfTrue S_BinaryLeftToRight (Some 0) (Some 2) (Some 3) None;
    mkNode D_Number S_Value (Some 1) None None None;
    mkNode D_Number S_Value (Some 1) None None None;
    mkNode D_Number S_Value (Some 0) None None None ].

Lemma attribution_K2_refuted :
  exists t r,
    tree_of k2_nodes' 0 = Some t /\ Known_C05_K2 t /\ all_children_used t = true /\
    build k2_nodes' empty_init lit_all (build_fuel k2_nodes') 0 = Ok r /\
    In 3 (indices t) /\ ~ In (Some 3) (meta (fst r)) /\
    covered_tree_b k2_nodes' 0 (fst r) = false.
Proof.
  destruct (tree_of k2_nodes' 0) as [t|] eqn:Et; [|vm_compute in Et; discriminate].
  destruct (build k2_nodes' empty_init lit_all (build_fuel k2_nodes') 0) as [r| | |] eqn:Er;
    try (vm_compute in Er; discriminate).
  exists t, r. vm_compute in Et. inversion Et; subst t. vm_compute in Er. inversion Er; subst r.
  repeat split; try (vm_compute; reflexivity).
  - vm_compute. tauto.
  - vm_compute. intros H. repeat (destruct H as [H|H]; [discriminate|]). exact H.
Qed.

(* a left child below a prefix operator (a tree the parser does not link):
   build() never visits it *)
Definition ignored_nodes : list pnode :=
  [ mkNode D_Opposite S_UnaryPrefix None (Some 1) (Some 2) None;
    mkNode D_Number S_Value (Some 0) None None None;
    mkNode D_Number S_Value (Some 0) None None None ].

Lemma attribution_ignored_child_refuted :
  exists t r,
    tree_of ignored_nodes 0 = Some t /\ ~ Known_C05_K2 t /\ all_children_used t = false /\
    build ignored_nodes empty_init lit_all (build_fuel ignored_nodes) 0 = Ok r /\
    In 1 (indices t) /\ ~ In (Some 1) (meta (fst r)) /\
    covered_tree_b ignored_nodes 0 (fst r) = false.
Proof.
  destruct (tree_of ignored_nodes 0) as [t|] eqn:Et; [|vm_compute in Et; discriminate].
  destruct (build ignored_nodes empty_init lit_all (build_fuel ignored_nodes) 0) as [r| | |] eqn:Er;
    try (vm_compute in Er; discriminate).
  exists t, r. vm_compute in Et. inversion Et; subst t. vm_compute in Er. inversion Er; subst r.
  repeat split; try (vm_compute; reflexivity).
  - unfold Known_C05_K2. vm_compute. discriminate.
  - vm_compute. tauto.
  - vm_compute. intros H. repeat (destruct H as [H|H]; [discriminate|]). exact H.
Qed.

(* ---- bounded: the parser links no ignored child and no C05-K2 shape ---- *)
Definition parsed_tree_ok (toks : list token_type) : bool :=
  match parse toks with
  | Ok (root, ns) =>
    match ns with
    | [] => true
    | _ => match tree_of ns root with
           | Some t => all_children_used t && negb (drops_arms t)
           | None => false
           end
    end
  | _ => true
  end.

Lemma parsed_tree_ok_reduced_4 : forall toks, length toks <= 4 ->
  (forall x, In x toks -> In x reduced_alphabet) -> parsed_tree_ok toks = true.
Proof.
  assert (H : forallb (fun n => all_seqs_ok parsed_tree_ok reduced_alphabet n []) [0; 1; 2; 3; 4] = true)
    by (vm_compute; reflexivity).
  intros toks Hl Hin. rewrite forallb_forall in H.
  assert (Hn : In (length toks) [0; 1; 2; 3; 4]) by (cbn [In]; lia).
  exact (all_seqs_ok_spec _ _ _ _ [] (H _ Hn) toks eq_refl Hin).
Qed.
