(* Witnesses: each finding class excluded by the static theorem of C06 contains
   a program whose built code is NOT typable (by evaluation; the abstract
   interpreter is complete for "not typable" only through its own validation,
   so the witnesses state the failure of [infer_depths], and for K1 / K2 also
   the stuck abstract machine). *)
From Coq Require Import List Arith Bool NArith Lia.
From GV Require Import Base.Result Gen.TokenTypes Gen.Defs Gen.Instr Model.Parser Model.BuilderWL Model.Compile
  Spec.Depth Proofs.C05.Known Proofs.C05.Refuted Proofs.C06.Known.
Import ListNotations.

Definition untypable_witness (toks : list token_type) (cls : tree -> bool) : bool :=
  match parse toks with
  | Ok (root, nodes) =>
    match tree_of nodes root, build nodes empty_init lit_all (build_fuel nodes) root with
    | Some t, Ok r =>
      cls t && negb (has_terminator t) &&
      match infer_depths (prog_of_build empty_init r) with None => true | Some _ => false end
    | _, _ => false
    end
  | _ => false
  end.

(* `1 ?> 2 |> 3 ?> 4` *)
Definition k1_toks : list token_type :=
  [TT_Number; TT_JumpIfTrue; TT_Number; TT_ElseJump; TT_Number; TT_JumpIfTrue; TT_Number].
(* `( )` *)
Definition k2_toks : list token_type := [TT_StartGroup; TT_EndGroup].
(* `[ 5 ]` : a side-effect block that is the whole program *)
Definition k2b_toks : list token_type := [TT_StartSideEffect; TT_Number; TT_EndSideEffect].
(* `1 + ( ^~ 2 )` *)
Definition k3_toks : list token_type := [TT_Number; TT_PlusSign; TT_StartGroup; TT_Reapply; TT_Number; TT_EndGroup].
(* `1 |> 2` *)
Definition k4_toks : list token_type := [TT_Number; TT_ElseJump; TT_Number].

Lemma K1_untypable : untypable_witness k1_toks has_chain_no_else = true. Proof. vm_compute. reflexivity. Qed.
Lemma K2_untypable : untypable_witness k2_toks has_empty_value = true. Proof. vm_compute. reflexivity. Qed.
Lemma K2b_untypable : untypable_witness k2b_toks has_empty_value = true. Proof. vm_compute. reflexivity. Qed.
Lemma K3_untypable : untypable_witness k3_toks has_reapply_pending = true. Proof. vm_compute. reflexivity. Qed.
Lemma K4_untypable : untypable_witness k4_toks has_chain_early_else = true. Proof. vm_compute. reflexivity. Qed.

(* K1 on the abstract machine: the path on which no condition holds reaches
   EndExpression with no operand and the machine is stuck (the runtime reports
   "No references in register") *)
Definition k1_prog : prog := Eval vm_compute in prog_of_build empty_init (built empty_init (parsed k1_toks)).
(* Put 1; JumpIfTrue; Put 3; JumpIfTrue; EndExpression: take the fall-through twice *)
Definition k1_path : list acfg :=
  [mkA 0 0 0 []; mkA 1 1 0 []; mkA 2 0 0 []; mkA 3 1 0 []; mkA 4 0 0 []].
Fixpoint path_ok (p : prog) (l : list acfg) : bool :=
  match l with
  | c1 :: ((c2 :: _) as rest) =>
    existsb (fun o => match o with
                      | AStep c => Nat.eqb (a_pc c) (a_pc c2) && Nat.eqb (a_r c) (a_r c2) && Nat.eqb (a_v c) (a_v c2)
                                   && Nat.eqb (length (a_frames c)) (length (a_frames c2))
                      | AHalt _ _ => false
                      end) (asteps p c1) && path_ok p rest
  | _ => true
  end.
Lemma K1_machine_stuck :
  path_ok k1_prog k1_path = true /\ asteps k1_prog (mkA 4 0 0 []) = [].
Proof. vm_compute. split; reflexivity. Qed.

(* regression (former C06-K5, inside the class the property excludes): `1 ?> 2 |> ;;`.
   Before commit b7aaffe the body's closing EndExpression was skipped after the
   explicit `;;` and the chain's join entry was the arm's own entry (the arm was
   re-entered forever); now the join names an EndExpression of its own *)
Definition k5_toks : list token_type := [TT_Number; TT_JumpIfTrue; TT_Number; TT_ElseJump; TT_ExpressionTerminator].
Definition k5_prog : prog := Eval vm_compute in prog_of_build empty_init (built empty_init (parsed k5_toks)).
Lemma K5_repaired :
  pg_instrs k5_prog = [(I_Put, OData 0); (I_JumpIfTrue, ONum 1); (I_EndExpression, ONone); (I_EndExpression, ONone);
                       (I_Put, OData 2); (I_JumpTo, ONum 2)] /\
  pg_jumps k5_prog = [0; 4; 3] /\
  path_ok k5_prog [mkA 0 0 0 []; mkA 1 1 0 []; mkA 4 0 0 []; mkA 5 1 0 []; mkA 3 1 0 []] = true /\
  asteps k5_prog (mkA 3 1 0 []) = [AHalt 0 0].
Proof. vm_compute. repeat split; reflexivity. Qed.
