(* (d), second half: the text of a CharList / ByteList token (the quoted literals).  Instance of
   Proofs.C13.LexMaxGen4 (the invariant needs start_quote_count, end_quote_count and at_end).
   This is the converse of Proofs.C14.LexSpellingThen.lex_literal_general.

   How the lexer makes a quoted literal (start_token, arm_start_list, arm_list), q the quote:
   * start_token enters the Start state on q; further q are appended there (opening run of n);
   * the first non-quote x after the opening run: if n = 2 the token ends as the empty literal
     q q and x starts a fresh token; otherwise start_quote_count := n, x is appended and the
     Body state is entered (at the end-of-input flush nothing is appended; that state only leads
     to the Unterminated error);
   * in the Body state end_quote_count is the length of the quote run that ends the text read so
     far: a non-quote resets it, a quote increments it, and as soon as it equals
     start_quote_count the token ends (the character after it starts a fresh token).
   Hence the text is  q^2,  or  q^n x body q^n  with n >= 1, n <> 2, x <> q, and [runs_ok q n 0 body]:
   every quote run inside body is shorter than n and body does not end with q -- the literal ends
   at the FIRST place where n consecutive quotes occur after the opening run. *)
From Coq Require Import Arith NArith List Bool Lia.
From GV Require Import Base.Result Gen.TokenTypes Gen.Tokens Model.Lexer Spec.LexSpec
  Proofs.C13.LexBase Proofs.C13.LexInv Proofs.C13.LexRun Proofs.C13.LexOp Proofs.C13.LexMaxGen4
  Proofs.C13.LexMaximal Proofs.C14.LexSpelling Proofs.C14.LexSpellingThen.
Import ListNotations.
Local Open Scope N_scope.

Definition lit_shape (k : kind) (txt : list N) : Prop :=
  txt = repeat (kq k) 2 \/
  exists n x body, (1 <= n)%nat /\ n <> 2%nat /\ x <> kq k /\ runs_ok (kq k) n 0 body = true /\
                   txt = repeat (kq k) n ++ (x :: body) ++ repeat (kq k) n.

(* ------------------------------------------------------------ runs_ok *)
Lemma runs_ok_quotes_then : forall q n e j c, (j + e < n)%nat -> c <> q ->
  runs_ok q n j (repeat q e ++ [c]) = true.
Proof.
  intros q n e. induction e as [|e IH]; intros j c Hlt Hc; cbn [repeat app runs_ok].
  - replace (c =? q) with false by (symmetry; apply N.eqb_neq; exact Hc). reflexivity.
  - rewrite N.eqb_refl. apply andb_true_iff. split; [apply Nat.ltb_lt; lia|]. apply IH; [lia | exact Hc].
Qed.

Lemma runs_ok_extend : forall q n b0 j e c, runs_ok q n j b0 = true -> (e < n)%nat -> c <> q ->
  runs_ok q n j (b0 ++ repeat q e ++ [c]) = true.
Proof.
  intros q n b0. induction b0 as [|y b0 IH]; intros j e c H He Hc.
  - cbn [runs_ok] in H. apply Nat.eqb_eq in H. subst j. cbn [app]. apply runs_ok_quotes_then; [lia | exact Hc].
  - cbn [app runs_ok] in *. destruct (y =? q).
    + apply andb_true_iff in H as [H1 H2]. rewrite H1. cbn [andb]. apply IH; assumption.
    + apply IH; assumption.
Qed.

Lemma snoc_text : forall (q : N) n e x b0,
  (repeat q n ++ x :: b0 ++ repeat q e) ++ [q] = repeat q n ++ x :: b0 ++ repeat q (S e).
Proof.
  intros. rewrite <- app_assoc. f_equal. cbn [app]. f_equal. rewrite <- app_assoc. f_equal. apply repeat_snoc.
Qed.

Lemma kq_neq : forall k, kq k <> 0.
Proof. destruct k; cbn; discriminate. Qed.

Section LitK.
  Variables un ua : N -> bool.
  Variable k : kind.
  Notation start_token := (start_token un ua).
  Notation run_arm := (run_arm un ua).
  Notation q := (kq k).

  Definition TM (ty : option token_type) (txt : list N) (nx : option N) : Prop :=
    ty = Some (kty k) -> lit_shape k txt.

  Definition body_ok (l : lexer) : Prop :=
    exists n e x b0, (1 <= n)%nat /\ n <> 2%nat /\ x <> q /\ (e < n)%nat /\
      sqc l = N.of_nat n /\ eqc l = N.of_nat e /\ runs_ok q n 0 b0 = true /\
      cur l = repeat q n ++ x :: b0 ++ repeat q e.

  Definition Inv (l : lexer) : Prop :=
    (st l = ksst k -> (exists n, (1 <= n)%nat /\ cur l = repeat q n) /\ eqc l = 0) /\
    (st l = kbst k -> at_end l = false -> body_ok l) /\
    (st l <> ksst k -> st l <> kbst k -> cur_ty l <> Some (kty k)) /\
    (st l = SNoToken -> eqc l = 0).

  Lemma Inv_ext : forall l l', cur l = cur l' -> cur_ty l = cur_ty l' -> st l = st l' ->
    could_sub l = could_sub l' -> sqc l = sqc l' -> eqc l = eqc l' -> at_end l = at_end l' -> Inv l -> Inv l'.
  Proof. intros l l' E1 E2 E3 E4 E5 E6 E7. unfold Inv, body_ok. rewrite E1, E2, E3, E5, E6, E7. auto. Qed.

  Lemma Inv_at_end : forall l, Inv l -> Inv (set_at_end l true).
  Proof.
    intros l (H1 & H2 & H3 & H4). unfold Inv. cbn. split; [exact H1|]. split; [|split; assumption].
    intros _ Hf. discriminate Hf.
  Qed.

  Lemma Inv_idle : forall l, cur l = [] -> cur_ty l = None -> st l = SNoToken -> could_sub l = false ->
    sqc l = 0 -> eqc l = 0 -> Inv l.
  Proof.
    intros l E1 E2 E3 E4 E5 E6. unfold Inv. rewrite E2, E3, E6.
    repeat split; intros; try discriminate; try reflexivity; destruct k; discriminate.
  Qed.

  Ltac split_all := repeat match goal with |- _ /\ _ => split end.

  Lemma nolit_op : forall p o, current_operator p = Some o -> o <> Some (kty k).
  Proof. intros p o H ->. eapply op_not_nonop; [exact H | destruct k; cbn; auto with nonop]. Qed.

  (* ------------------------------------------------------------ start_token *)
  Lemma Inv_start' : forall l c, eqc l = 0 -> result (start_token l c) = None -> Inv (start_token l c).
  Proof.
    intros l c Heq. unfold Lexer.start_token.
    destruct (current_operator _) eqn:Eop.
    - intros _. unfold Inv. cbn. split_all; try (intros Hh; destruct k; discriminate Hh).
      intros _ _. eapply nolit_op; exact Eop.
    - repeat break_if; cbn; intros Hr; try discriminate; unfold Inv; cbn; rewrite ?Heq;
        split_all; try reflexivity; intros Hh; try (destruct k; discriminate Hh); try discriminate Hh;
        try (intros Hh2; try (destruct k; discriminate Hh2); try discriminate Hh2;
             try (destruct k; cbn in *; congruence)).
      + split; [|reflexivity]. exists 1%nat. split; [lia|]. cbn [repeat].
        match goal with H : (c =? ch_dquote) = true |- _ => apply N.eqb_eq in H; subst c end.
        destruct k; [reflexivity | discriminate Hh].
      + split; [|reflexivity]. exists 1%nat. split; [lia|]. cbn [repeat].
        match goal with H : (c =? ch_squote) = true |- _ => apply N.eqb_eq in H; subst c end.
        destruct k; [discriminate Hh | reflexivity].
  Qed.

  Lemma Inv_start : forall l c, could_sub l = false -> eqc l = 0 -> result (start_token l c) = None -> Inv (start_token l c).
  Proof. intros l c _. apply Inv_start'. Qed.

  (* -------------------------------------------------------------- state arms *)
  Notation arm_max := (arm_max Inv TM).

  Ltac plain Hn Hst :=
    unfold LexMaxGen4.arm_max; cbn; rewrite ?Hst;
    first
      [ exact I
      | split; [intros _ nx _ | intros _ nx]; unfold TM; intros Hty;
        exfalso; first [exact (Hn Hty) | destruct k; discriminate Hty]
      | intros _; split;
        [ unfold Inv; cbn; rewrite ?Hst; split_all;
          try (intros Hh; destruct k; discriminate Hh);
          try (intros Hh; discriminate Hh);
          intros _ _; first [exact Hn | destruct k; discriminate]
        | intros t Ht; discriminate Ht ] ].

  Ltac other_state arm :=
    intros l c Hwf (Hs0 & Hs1 & Hn & Hnt) Hres Hst Hk1 Hk2;
    assert (Hn' : cur_ty l <> Some (kty k)) by (apply Hn; assumption);
    unfold Lexer.run_arm; rewrite Hst; unfold arm;
    repeat break_if; plain Hn' Hst.

  Lemma arm_Number_max : forall l c, WF l -> Inv l -> result l = None -> st l = SNumber ->
    st l <> ksst k -> st l <> kbst k -> arm_max l c (run_arm l c).
  Proof. other_state arm_number. Qed.
  Lemma arm_Identifier_max : forall l c, WF l -> Inv l -> result l = None -> st l = SIdentifier ->
    st l <> ksst k -> st l <> kbst k -> arm_max l c (run_arm l c).
  Proof. other_state arm_identifier. Qed.
  Lemma arm_Annotation_max : forall l c, WF l -> Inv l -> result l = None -> st l = SAnnotation ->
    st l <> ksst k -> st l <> kbst k -> arm_max l c (run_arm l c).
  Proof. other_state arm_annotation. Qed.
  Lemma arm_LineAnnotation_max : forall l c, WF l -> Inv l -> result l = None -> st l = SLineAnnotation ->
    st l <> ksst k -> st l <> kbst k -> arm_max l c (run_arm l c).
  Proof. other_state arm_line_annotation. Qed.
  Lemma arm_Spaces_max : forall l c, WF l -> Inv l -> result l = None -> st l = SSpaces ->
    st l <> ksst k -> st l <> kbst k -> arm_max l c (run_arm l c).
  Proof. other_state arm_spaces. Qed.
  Lemma arm_Subexpression_max : forall l c, WF l -> Inv l -> result l = None -> st l = SSubexpression ->
    st l <> ksst k -> st l <> kbst k -> arm_max l c (run_arm l c).
  Proof. other_state arm_subexpression. Qed.

  Ltac other_list arm :=
    intros l c Hwf (Hs0 & Hs1 & Hn & Hnt) Hres Hst Hk1 Hk2;
    assert (Hn' : cur_ty l <> Some (kty k)) by (apply Hn; assumption);
    unfold Lexer.run_arm; rewrite Hst; unfold arm;
    rewrite Hst in Hk1, Hk2; clear Hs0 Hs1 Hn Hnt;
    unfold LexMaxGen4.arm_max, TM, Inv, body_ok;
    revert Hn' Hk1 Hk2; destruct k; intros Hn' Hk1 Hk2;
    try (exfalso; first [apply Hk1; reflexivity | apply Hk2; reflexivity]);
    repeat break_if; cbn [negb andb]; repeat break_if;
    cbn; rewrite ?Hst;
    first
      [ exact I
      | split; [intros _ nx _ | intros _ nx]; intros Hty; exfalso; exact (Hn' Hty)
      | intros _; split;
        [ split_all;
          try (intros Hh; discriminate Hh);
          intros _ _; first [exact Hn' | discriminate]
        | intros t Ht; discriminate Ht ] ].

  Lemma arm_CharList_other : forall l c, WF l -> Inv l -> result l = None -> st l = SCharList ->
    st l <> ksst k -> st l <> kbst k -> arm_max l c (run_arm l c).
  Proof. other_list arm_list. Qed.
  Lemma arm_ByteList_other : forall l c, WF l -> Inv l -> result l = None -> st l = SByteList ->
    st l <> ksst k -> st l <> kbst k -> arm_max l c (run_arm l c).
  Proof. other_list arm_list. Qed.
  Lemma arm_StartCharList_other : forall l c, WF l -> Inv l -> result l = None -> st l = SStartCharList ->
    st l <> ksst k -> st l <> kbst k -> arm_max l c (run_arm l c).
  Proof. other_list arm_start_list. Qed.
  Lemma arm_StartByteList_other : forall l c, WF l -> Inv l -> result l = None -> st l = SStartByteList ->
    st l <> ksst k -> st l <> kbst k -> arm_max l c (run_arm l c).
  Proof. other_list arm_start_list. Qed.

  Lemma arm_Float_max : forall l c, WF l -> Inv l -> result l = None -> st l = SFloat ->
    st l <> ksst k -> st l <> kbst k -> arm_max l c (run_arm l c).
  Proof.
    intros l c Hwf (Hs0 & Hs1 & Hn & Hnt) Hres Hst Hk1 Hk2.
    assert (Hn' : cur_ty l <> Some (kty k)) by (apply Hn; assumption).
    unfold Lexer.run_arm. rewrite Hst. unfold arm_float.
    destruct (is_number_char un ua c).
    - plain Hn' Hst.
    - destruct ((c =? ch_period) && ends_with ch_period (cur l)) eqn:Esplit.
      + apply andb_true_iff in Esplit as [Hc Hend]. apply N.eqb_eq in Hc. subst c.
        destruct (text_col (set_start_row l (text_row l)) =? 0); [exact I|].
        change ch_period with 46.
        change (push (set_start_col (Lexer.start_token un ua (set_start_row l (text_row l)) 46)
                        (text_col (set_start_row l (text_row l)) - 1)) 46) with (float_split_state un ua l).
        rewrite float_split_state_eq. cbn [cur]. rewrite current_operator_range.
        unfold LexMaxGen4.arm_max. intros _. split.
        * unfold Inv; cbn. split_all; try (intros Hh; destruct k; discriminate Hh).
          intros _ _. destruct k; discriminate.
        * intros t Ht. inversion Ht; subst. cbn. exists 46. split; [reflexivity|].
          unfold TM. cbn. destruct k; discriminate.
      + plain Hn' Hst.
  Qed.

  Lemma arm_Operator_max : forall l c, WF l -> Inv l -> result l = None -> st l = SOperator ->
    st l <> ksst k -> st l <> kbst k -> arm_max l c (run_arm l c).
  Proof.
    intros l c Hwf (Hs0 & Hs1 & Hn & Hnt) Hres Hst Hk1 Hk2.
    assert (Hn' : cur_ty l <> Some (kty k)) by (apply Hn; assumption).
    unfold Lexer.run_arm. rewrite Hst. unfold arm_operator.
    destruct (current_operator (cur (push l c))) eqn:Eop.
    - unfold LexMaxGen4.arm_max; cbn. intros _. split; [|intros t Ht; discriminate Ht].
      unfold Inv; cbn. rewrite ?Hst. split_all; try (intros Hh; destruct k; discriminate Hh).
      intros _ _; eapply nolit_op; exact Eop.
    - repeat break_if; plain Hn' Hst.
  Qed.

  (* ------------------------------------------------- the two arms of the literal itself *)
  Lemma arm_start_good : forall l c, WF l -> Inv l -> result l = None -> st l = ksst k ->
    arm_max l c (arm_start_list q (kbst k) l c).
  Proof.
    intros l c Hwf (Hs0 & Hs1 & Hn & Hnt) Hres Hst.
    destruct (Hs0 Hst) as [(n & Hn1 & Hcur) Heq0].
    assert (Hbl : byte_len (cur l) = N.of_nat n) by (rewrite Hcur; apply byte_len_repeat, kq_ascii).
    unfold arm_start_list. rewrite Hbl.
    destruct (c =? q) eqn:Ecq; cbn [negb].
    - apply N.eqb_eq in Ecq. subst c.
      replace (q =? ch_nul) with false by (destruct k; reflexivity). cbn [andb negb].
      unfold LexMaxGen4.arm_max. intros _. split; [|intros t Ht; discriminate Ht].
      unfold Inv, body_ok; proj. rewrite Hst. split_all.
      + intros _. split; [|exact Heq0]. exists (S n). split; [lia|]. rewrite Hcur. apply repeat_snoc.
      + intros Hh. destruct k; discriminate Hh.
      + intros Hh. exfalso. apply Hh. reflexivity.
      + intros Hh. destruct k; discriminate Hh.
    - destruct (N.of_nat n =? 2) eqn:E2.
      + cbn [negb andb]. unfold LexMaxGen4.arm_max.
        assert (Hshape : lit_shape k (cur l)).
        { left. rewrite Hcur. apply N.eqb_eq in E2. replace n with 2%nat by lia. reflexivity. }
        split; [intros _ nx _ | intros _ nx]; intros _; exact Hshape.
      + cbn [negb andb]. proj.
        destruct ((c =? ch_nul) && at_end l) eqn:Enul; cbn [negb].
        * apply andb_true_iff in Enul as [_ Hae].
          unfold LexMaxGen4.arm_max. intros _. split; [|intros t Ht; discriminate Ht].
          unfold Inv, body_ok; proj. split_all.
          -- intros Hh. destruct k; discriminate Hh.
          -- intros _ Hf. congruence.
          -- intros _ Hh. exfalso. apply Hh. reflexivity.
          -- intros Hh. destruct k; discriminate Hh.
        * unfold LexMaxGen4.arm_max. intros _. split; [|intros t Ht; discriminate Ht].
          unfold Inv, body_ok; proj. split_all.
          -- intros Hh. destruct k; discriminate Hh.
          -- intros _ _. exists n, 0%nat, c, []. split_all; try reflexivity; try lia.
             ++ apply N.eqb_neq in E2. lia.
             ++ apply N.eqb_neq. exact Ecq.
             ++ rewrite Hcur. reflexivity.
          -- intros _ Hh. exfalso. apply Hh. reflexivity.
          -- intros Hh. destruct k; discriminate Hh.
  Qed.

  Lemma arm_list_good : forall l c, WF l -> Inv l -> result l = None -> (at_end l = true -> c = 0) ->
    st l = kbst k -> arm_max l c (arm_list q l c).
  Proof.
    intros l c Hwf (Hs0 & Hs1 & Hn & Hnt) Hres Hflush Hst.
    unfold arm_list.
    destruct (at_end l) eqn:Hae.
    - rewrite (Hflush eq_refl). replace (0 =? q) with false by (destruct k; reflexivity).
      unfold LexMaxGen4.arm_max. intros _. split; [|intros t Ht; discriminate Ht].
      unfold Inv, body_ok; proj. rewrite Hst, Hae. split_all.
      + intros Hh. destruct k; discriminate Hh.
      + intros _ Hf. discriminate Hf.
      + intros _ Hh. exfalso. apply Hh. reflexivity.
      + intros Hh. destruct k; discriminate Hh.
    - destruct (Hs1 Hst eq_refl) as (n & e & x & b0 & Hn1 & Hn2 & Hx & He & Hsq & Heq & Hok & Hcur).
      destruct (c =? q) eqn:Ecq.
      + apply N.eqb_eq in Ecq. subst c. proj. rewrite Hsq, Heq.
        destruct (N.of_nat n =? N.of_nat e + 1) eqn:Ecl.
        * apply N.eqb_eq in Ecl.
          unfold LexMaxGen4.arm_max. proj.
          split; [intros Hf; discriminate Hf | intros _ nx].
          intros _. right. exists n, x, b0. split_all; try assumption.
          rewrite Hcur, snoc_text. replace (S e) with n by lia. reflexivity.
        * apply N.eqb_neq in Ecl.
          unfold LexMaxGen4.arm_max. intros _. split; [|intros t Ht; discriminate Ht].
          unfold Inv, body_ok; proj. rewrite Hst, Hae. split_all.
          -- intros Hh. destruct k; discriminate Hh.
          -- intros _ _. exists n, (S e), x, b0. split_all; try assumption; try lia.
             rewrite Hcur. apply snoc_text.
          -- intros _ Hh. exfalso. apply Hh. reflexivity.
          -- intros Hh. destruct k; discriminate Hh.
      + apply N.eqb_neq in Ecq.
        unfold LexMaxGen4.arm_max. intros _. split; [|intros t Ht; discriminate Ht].
        unfold Inv, body_ok; proj. rewrite Hst, Hae. split_all.
        * intros Hh. destruct k; discriminate Hh.
        * intros _ _. exists n, 0%nat, x, (b0 ++ repeat q e ++ [c]). split_all; try assumption; try lia; try reflexivity.
          -- apply runs_ok_extend; assumption.
          -- rewrite Hcur. cbn [repeat]. rewrite app_nil_r.
             repeat (progress (rewrite <- ?app_assoc; cbn [app])). reflexivity.
        * intros _ Hh. exfalso. apply Hh. reflexivity.
        * intros Hh. destruct k; discriminate Hh.
  Qed.

  Lemma Inv_arm : forall l c, WF l -> Inv l -> result l = None -> (at_end l = true -> c = 0) ->
    arm_max l c (run_arm l c).
  Proof.
    intros l c Hwf Hinv Hres Hflush.
    destruct (lstate_eqb (st l) (ksst k)) eqn:E1.
    { assert (Hst : st l = ksst k) by (revert E1; destruct (st l), k; cbn; congruence).
      replace (run_arm l c) with (arm_start_list q (kbst k) l c)
        by (unfold Lexer.run_arm; rewrite Hst; destruct k; reflexivity).
      apply (arm_start_good l c Hwf Hinv Hres Hst). }
    destruct (lstate_eqb (st l) (kbst k)) eqn:E2.
    { assert (Hst : st l = kbst k) by (revert E2; destruct (st l), k; cbn; congruence).
      replace (run_arm l c) with (arm_list q l c)
        by (unfold Lexer.run_arm; rewrite Hst; destruct k; reflexivity).
      apply (arm_list_good l c Hwf Hinv Hres Hflush Hst). }
    assert (Hk1 : st l <> ksst k) by (intros Hh; rewrite Hh in E1; destruct k; discriminate E1).
    assert (Hk2 : st l <> kbst k) by (intros Hh; rewrite Hh in E2; destruct k; discriminate E2).
    destruct (st l) eqn:Hst.
    - unfold Lexer.run_arm. rewrite Hst. unfold LexMaxGen4.arm_max. intros Hr.
      split; [|intros t Ht; discriminate Ht].
      apply Inv_start'; [destruct Hinv as (_ & _ & _ & Hnt); exact (Hnt Hst)|exact Hr].
    - apply arm_Operator_max; auto; rewrite Hst; assumption.
    - apply arm_Spaces_max; auto; rewrite Hst; assumption.
    - apply arm_Subexpression_max; auto; rewrite Hst; assumption.
    - apply arm_Number_max; auto; rewrite Hst; assumption.
    - apply arm_Float_max; auto; rewrite Hst; assumption.
    - apply arm_Identifier_max; auto; rewrite Hst; assumption.
    - apply arm_Annotation_max; auto; rewrite Hst; assumption.
    - apply arm_LineAnnotation_max; auto; rewrite Hst; assumption.
    - apply arm_CharList_other; auto; rewrite Hst; assumption.
    - apply arm_StartCharList_other; auto; rewrite Hst; assumption.
    - apply arm_ByteList_other; auto; rewrite Hst; assumption.
    - apply arm_StartByteList_other; auto; rewrite Hst; assumption.
  Qed.

  Theorem lex_tokens_TM_lit : forall s ts,
    lex un ua s = Ok ts ->
    forall pre t post, ts = pre ++ t :: post ->
      TM (Some (tok_type t)) (tok_text t) (hd_error (texts post)).
  Proof. exact (lex_tokens_max un ua Inv TM Inv_ext Inv_at_end Inv_idle Inv_start Inv_arm). Qed.
End LitK.

(* ------------------------------------------------- readable forms *)
Theorem lex_literal_shape : forall un ua k s ts,
  lex un ua s = Ok ts ->
  forall pre t post, ts = pre ++ t :: post -> tok_type t = kty k ->
    tok_text t = repeat (kq k) 2 \/
    exists n x body, (1 <= n)%nat /\ n <> 2%nat /\ x <> kq k /\ runs_ok (kq k) n 0 body = true /\
                     tok_text t = repeat (kq k) n ++ (x :: body) ++ repeat (kq k) n.
Proof.
  intros un ua k s ts H pre t post E Hty.
  exact (lex_tokens_TM_lit un ua k s ts H pre t post E (f_equal Some Hty)).
Qed.

Theorem lex_char_list_shape : forall un ua s ts,
  lex un ua s = Ok ts ->
  forall pre t post, ts = pre ++ t :: post -> tok_type t = TT_CharList ->
    tok_text t = [34; 34] \/
    exists n x body, (1 <= n)%nat /\ n <> 2%nat /\ x <> 34 /\ runs_ok 34 n 0 body = true /\
                     tok_text t = repeat 34 n ++ (x :: body) ++ repeat 34 n.
Proof. intros un ua. exact (lex_literal_shape un ua KChar). Qed.

Theorem lex_byte_list_shape : forall un ua s ts,
  lex un ua s = Ok ts ->
  forall pre t post, ts = pre ++ t :: post -> tok_type t = TT_ByteList ->
    tok_text t = [39; 39] \/
    exists n x body, (1 <= n)%nat /\ n <> 2%nat /\ x <> 39 /\ runs_ok 39 n 0 body = true /\
                     tok_text t = repeat 39 n ++ (x :: body) ++ repeat 39 n.
Proof. intros un ua. exact (lex_literal_shape un ua KByte). Qed.

(* the decomposition  q^n x body q^n  (x <> q) of a text is unique *)
Lemma open_run_unique : forall (q : N) n n' x x' r r', x <> q -> x' <> q ->
  repeat q n ++ x :: r = repeat q n' ++ x' :: r' -> n = n' /\ x = x' /\ r = r'.
Proof.
  intros q n. induction n as [|n IH]; intros [|n'] x x' r r' Hx Hx' H; cbn [repeat app] in H.
  - inversion H. auto.
  - inversion H. congruence.
  - inversion H. congruence.
  - inversion H as [H1]. destruct (IH n' x x' r r' Hx Hx' H1) as (-> & -> & ->). auto.
Qed.

(* with the forward direction (Proofs.C14.LexSpellingThen.lex_literal_general): the text
   q^n x body q^n  (n >= 1, n <> 2, x <> q) is lexed as ONE literal token exactly when every quote
   run of body is shorter than n and body does not end with a quote *)
Theorem lex_literal_one_token_iff : forall un ua k n x body, (1 <= n)%nat -> n <> 2%nat -> x <> kq k ->
  (lex un ua (literal_text k n (x :: body)) = Ok [mkTok (literal_text k n (x :: body)) (kty k) 0 0]
   <-> runs_ok (kq k) n 0 body = true).
Proof.
  intros un ua k n x body Hn1 Hn2 Hx. split.
  - intros H.
    destruct (lex_literal_shape un ua k _ _ H [] _ [] eq_refl eq_refl) as [E|(n' & x' & body' & _ & _ & Hx' & Hok & E)];
      cbn [tok_text] in E; unfold literal_text in E.
    + exfalso. destruct n as [|[|[|n]]]; try lia; cbn in E; inversion E; try congruence.
    + cbn [app] in E. destruct (open_run_unique _ _ _ _ _ _ _ Hx Hx' E) as (<- & <- & E2).
      apply app_inv_tail in E2. subst body'. exact Hok.
  - apply lex_literal_general; assumption.
Qed.
