"""setup: build everything the checks need from files on disk (offline)."""
import glob, os, sys, time
import vplib


def main():
    t0 = time.time()
    os.makedirs(vplib.OCAML_BUILD, exist_ok=True)
    rc_all = 0
    ok, out = vplib.coq_make([], timeout=3400)
    print("coq make all:", "ok" if ok else "FAILED", "%.0fs" % (time.time() - t0), flush=True)
    if not ok:
        print(out[-3000:])
        rc_all = 1
    for drv in sorted(glob.glob(os.path.join(vplib.VERIF, "ocaml", "*_driver.ml"))):
        comp = os.path.basename(drv)[:-len("_driver.ml")]
        if os.path.exists(os.path.join(vplib.OCAML_BUILD, comp + "_model.ml")):
            ok, out = vplib.ocaml_build(comp)
            print("ocaml", comp, "ok" if ok else "FAILED", flush=True)
            if not ok:
                print(out[-2000:])
                rc_all = 1
    for prof in ("debug", "release"):
        ok, out = vplib.cargo_build(prof)
        print("cargo", prof, "ok" if ok else "FAILED", flush=True)
        if not ok:
            print(out[-3000:])
            rc_all = 1
    print("setup done in %.0fs" % (time.time() - t0), flush=True)
    return rc_all
