(* (b) the parser's parent-linked node array as a stack of right-spine frames.
   [spine ns fs c]: the open frames [fs] (innermost first) are nodes of [ns], each the
   parent of the next inner one, the innermost waiting for the child index [c].
   The parent-chain walk of parse_token pops exactly the frames [Spec.Chains.pop]
   pops (within its fuel and its count guard), and the re-linking it does afterwards
   makes the popped subtree the left child of the node about to be appended. *)
From Coq Require Import List Arith Bool NArith Lia.
From GV Require Import Base.Result Gen.TokenTypes Gen.Defs Model.Parser Spec.RefTable Spec.Pratt Spec.Chains
  Proofs.C02.Denote.
Import ListNotations.

Definition top_id (fs : list frame) : option nat :=
  match fs with [] => None | f :: _ => Some (frame_id f) end.

Definition frame_lo (f : frame) : nat :=
  match f with FBin _ _ _ l => lo l | FPre i _ _ => i | FGroup _ i _ => i end.

Definition frame_wf (f : frame) : Prop :=
  match f with FBin i _ _ l => ordered l /\ hi l < i | FPre _ _ _ => True | FGroup _ _ _ => True end.

Definition frame_has (f : frame) (j : nat) : Prop :=
  match f with FBin i _ _ l => j = i \/ has_id l j | FPre i _ _ => j = i | FGroup _ i _ => j = i end.

Fixpoint frames_have (fs : list frame) (j : nat) : Prop :=
  match fs with [] => False | f :: r => frame_has f j \/ frames_have r j end.

(* all indices of the frames are below [b], outer frames below inner ones *)
Fixpoint fordered (fs : list frame) (b : nat) : Prop :=
  match fs with
  | [] => True
  | f :: r => frame_id f < b /\ frame_wf f /\ fordered r (frame_lo f)
  end.

Fixpoint bottom_lo (fs : list frame) (x : nat) : nat :=
  match fs with [] => x | f :: r => bottom_lo r (frame_lo f) end.

(* the node of a frame: parent [p], pending right child [c] *)
Definition frame_node (ns : list pnode) (f : frame) (p : option nat) (c : nat) : Prop :=
  match f with
  | FBin i d k l =>
    exists n, nth_error ns i = Some n /\ bin_shape n d k /\ n_parent n = p /\
              n_left n = Some (nid l) /\ n_right n = Some c /\ denotes ns (Some i) l
  | FPre i d k =>
    exists n, nth_error ns i = Some n /\ n_sec n = S_UnaryPrefix /\ n_def n = d /\ n_parent n = p /\
              n_left n = None /\ n_right n = Some c /\ n_tok n = Some k
  | FGroup b i k =>
    exists n, nth_error ns i = Some n /\ n_sec n = S_StartGrouping /\ n_def n = bdef b /\ n_parent n = p /\
              n_left n = None /\ n_right n = Some c /\ n_tok n = Some k
  end.

Fixpoint spine (ns : list pnode) (fs : list frame) (c : nat) : Prop :=
  match fs with
  | [] => True
  | f :: r => frame_node ns f (top_id r) c /\ spine ns r (frame_id f)
  end.

(* ---- shape facts ---- *)
Lemma frame_lo_le f : frame_wf f -> frame_lo f <= frame_id f.
Proof. destruct f as [i d k l|i d k|b i k]; simpl; [|lia|lia]. intros [O H]. pose proof (ordered_lo_hi l O) as B. lia. Qed.

Lemma frame_has_range f j : frame_wf f -> frame_has f j -> frame_lo f <= j <= frame_id f.
Proof.
  destruct f as [i d k l|i d k|b i k]; simpl; [|lia|lia]. intros [O H] [->|Hj].
  - pose proof (ordered_lo_hi l O) as B. lia.
  - pose proof (ordered_range l j O Hj) as B. lia.
Qed.

Lemma fordered_mono fs b b' : b <= b' -> fordered fs b -> fordered fs b'.
Proof. destruct fs as [|f r]; simpl; [auto|]. intros L (H1 & H2 & H3). repeat split; auto. lia. Qed.

Lemma frames_have_lt : forall fs b j, fordered fs b -> frames_have fs j -> j < b.
Proof.
  induction fs as [|f r IH]; intros b j; simpl; [tauto|]. intros (H1 & H2 & H3) [Hj|Hj].
  - pose proof (frame_has_range f j H2 Hj) as B. lia.
  - specialize (IH _ _ H3 Hj). pose proof (frame_lo_le f H2) as B. lia.
Qed.

Lemma plug_nid f t : nid (plug f t) = frame_id f.
Proof. destruct f; reflexivity. Qed.
Lemma plug_lo f t : lo (plug f t) = frame_lo f.
Proof. destruct f; reflexivity. Qed.
Lemma plug_hi f t : hi (plug f t) = hi t.
Proof. destruct f; reflexivity. Qed.

Lemma plug_ordered f t : frame_wf f -> frame_id f < lo t -> ordered t -> ordered (plug f t).
Proof. destruct f as [i d k l|i d k|b i k]; simpl; intros W L O; [destruct W; auto|auto|auto]. Qed.

Lemma plug_has f t j : has_id (plug f t) j <-> frame_has f j \/ has_id t j.
Proof. destruct f as [i d k l|i d k|b i k]; simpl; tauto. Qed.

Lemma plug_denotes ns f p t :
  frame_node ns f p (nid t) -> denotes ns (Some (frame_id f)) t -> denotes ns p (plug f t).
Proof.
  destruct f as [i d k l|i d k|b i k]; simpl.
  - intros (n & H1 & H2 & H3 & H4 & H5 & H6) D. exists n. repeat split; auto; apply H2.
  - intros (n & H1 & H2 & H3 & H4 & H5 & H6 & H7) D. exists n. repeat split; auto.
  - intros (n & H1 & H2 & H3 & H4 & H5 & H6 & H7) D. exists n. repeat split; auto.
Qed.

(* ---- closing all frames ---- *)
Lemma close_denotes ns : forall fs t,
  spine ns fs (nid t) -> denotes ns (top_id fs) t -> denotes ns None (close fs t).
Proof.
  induction fs as [|f r IH]; intros t S D; simpl in *; [exact D|].
  destruct S as [S1 S2]. apply IH.
  - rewrite plug_nid. exact S2.
  - apply plug_denotes; assumption.
Qed.

Lemma close_ordered : forall fs t, fordered fs (lo t) -> ordered t -> ordered (close fs t).
Proof.
  induction fs as [|f r IH]; intros t F O; simpl in *; [exact O|].
  destruct F as (F1 & F2 & F3). apply IH.
  - rewrite plug_lo. exact F3.
  - apply plug_ordered; assumption.
Qed.

Lemma close_lo : forall fs t, lo (close fs t) = bottom_lo fs (lo t).
Proof. induction fs as [|f r IH]; intros t; simpl; [reflexivity|]. rewrite IH, plug_lo. reflexivity. Qed.

Lemma close_has : forall fs t j, has_id (close fs t) j <-> frames_have fs j \/ has_id t j.
Proof.
  induction fs as [|f r IH]; intros t j; simpl; [tauto|]. rewrite IH, plug_has. tauto.
Qed.

(* ---- [spine] only looks at the nodes of the frames ---- *)
Lemma frame_node_ext ns ns' f p c :
  (forall j, frame_has f j -> nth_error ns' j = nth_error ns j) ->
  frame_node ns f p c -> frame_node ns' f p c.
Proof.
  destruct f as [i d k l|i d k|b i k]; simpl; intros E.
  - intros (n & H1 & H2 & H3 & H4 & H5 & H6). exists n. rewrite E by auto. repeat split; auto; try apply H2.
    eapply denotes_ext; [|exact H6]. intros j Hj. apply E. auto.
  - intros (n & H). exists n. rewrite E by auto. exact H.
  - intros (n & H). exists n. rewrite E by auto. exact H.
Qed.

Lemma spine_ext ns ns' : forall fs c,
  (forall j, frames_have fs j -> nth_error ns' j = nth_error ns j) -> spine ns fs c -> spine ns' fs c.
Proof.
  induction fs as [|f r IH]; intros c E; simpl; [auto|]. intros [S1 S2]. split.
  - eapply frame_node_ext; [|exact S1]. intros j Hj. apply E. simpl. auto.
  - apply IH; [|exact S2]. intros j Hj. apply E. simpl. auto.
Qed.

Lemma nth_error_app_old {A} (l : list A) x j : j < length l -> nth_error (l ++ [x]) j = nth_error l j.
Proof. intros H. apply nth_error_app1. exact H. Qed.

Lemma nth_error_app_new {A} (l : list A) x : nth_error (l ++ [x]) (length l) = Some x.
Proof. rewrite nth_error_app2 by lia. rewrite Nat.sub_diag. reflexivity. Qed.

(* ---- one pop step preserves everything; hence so does [pop] ---- *)
Lemma pop_ind (Q : list frame -> ntree -> Prop) d :
  (forall f r t, Q (f :: r) t -> Q r (plug f t)) ->
  forall fs t fs' t', Q fs t -> pop d fs t = (fs', t') -> Q fs' t'.
Proof.
  intros Hstep. induction fs as [|f r IH]; intros t fs' t' HQ H; cbn [pop] in H.
  - injection H as <- <-. exact HQ.
  - destruct (stays_below d f).
    + injection H as <- <-. exact HQ.
    + eapply IH; [|exact H]. apply Hstep. exact HQ.
Qed.

Lemma pop_close d : forall fs t fs' t', pop d fs t = (fs', t') -> close fs' t' = close fs t.
Proof.
  intros fs t fs' t' H.
  apply (pop_ind (fun a b => close a b = close fs t) d) with (fs := fs) (t := t); auto.
Qed.

Lemma pop_top d : forall fs t fs' t', pop d fs t = (fs', t') ->
  match fs' with [] => True | f :: _ => stays_below d f = true end.
Proof.
  induction fs as [|f r IH]; intros t fs' t' H; cbn [pop] in H.
  - injection H as <- <-. exact I.
  - destruct (stays_below d f) eqn:E.
    + injection H as <- <-. exact E.
    + eapply IH; eauto.
Qed.

(* the state of the links around an operand [t] sitting below the frames [fs] *)
Record linked (ns : list pnode) (fs : list frame) (t : ntree) : Prop := mkLinked {
  lk_spine : spine ns fs (nid t);
  lk_den : denotes ns (top_id fs) t;
  lk_ford : fordered fs (lo t);
  lk_ord : ordered t
}.

Lemma linked_plug ns f r t : linked ns (f :: r) t -> linked ns r (plug f t).
Proof.
  intros [S D F O]. simpl in S, D, F. destruct S as [S1 S2]. destruct F as (F1 & F2 & F3).
  constructor.
  - rewrite plug_nid. exact S2.
  - apply plug_denotes; assumption.
  - rewrite plug_lo. exact F3.
  - apply plug_ordered; assumption.
Qed.

Lemma pop_linked ns d fs t fs' t' : linked ns fs t -> pop d fs t = (fs', t') -> linked ns fs' t'.
Proof. apply (pop_ind (linked ns) d). intros f r t0. apply linked_plug. Qed.

Lemma pop_hi d fs t fs' t' : pop d fs t = (fs', t') -> hi t' = hi t.
Proof.
  apply (pop_ind (fun _ b => hi b = hi t) d); [|reflexivity]. intros f r t0 H. rewrite plug_hi. exact H.
Qed.

Lemma pop_bottom d fs t fs' t' : pop d fs t = (fs', t') -> bottom_lo fs' (lo t') = bottom_lo fs (lo t).
Proof.
  apply (pop_ind (fun a b => bottom_lo a (lo b) = bottom_lo fs (lo t)) d); [|reflexivity].
  intros f r t0 H. rewrite plug_lo. exact H.
Qed.

Lemma pop_has d fs t fs' t' : pop d fs t = (fs', t') ->
  forall j, frames_have fs' j \/ has_id t' j <-> frames_have fs j \/ has_id t j.
Proof.
  apply (pop_ind (fun a b => forall j, frames_have a j \/ has_id b j <-> frames_have fs j \/ has_id t j) d);
    [|tauto].
  intros f r t0 H j. rewrite <- H. simpl. rewrite plug_has. tauto.
Qed.

Lemma pop_length d fs t fs' t' : pop d fs t = (fs', t') -> length fs' <= length fs.
Proof.
  apply (pop_ind (fun a _ => length a <= length fs) d); [|lia]. intros f r t0 H. simpl in H. lia.
Qed.

(* ---- the walk ---- *)
Definition walk_stop (my their : N) (rtl : bool) : bool := N.ltb my their || (N.eqb my their && rtl).

(* the innermost open bracket: the parser's [under_group] *)
Fixpoint first_group (fs : list frame) : option nat :=
  match fs with
  | [] => None
  | FGroup _ i _ :: _ => Some i
  | _ :: r => first_group r
  end.

Lemma first_group_has : forall fs g, first_group fs = Some g -> frames_have fs g.
Proof.
  induction fs as [|f r IH]; intros g H; [discriminate|]. simpl.
  destruct f; simpl in H; [right; apply IH; exact H|right; apply IH; exact H|injection H as <-; left; reflexivity].
Qed.

Lemma pop_first_group d fs t fs' t' : pop d fs t = (fs', t') -> first_group fs' = first_group fs.
Proof.
  revert t. induction fs as [|f r IH]; intros t H; cbn [pop] in H.
  - injection H as <- <-. reflexivity.
  - destruct (stays_below d f) eqn:E.
    + injection H as <- <-. reflexivity.
    + rewrite (IH _ H). destruct f; try reflexivity. discriminate E.
Qed.

(* the parser's comparison agrees with the table's for every open operator frame *)
Definition compat (d : definition) (my : N) (rtl : bool) (fs : list frame) : Prop :=
  forall f, In f fs -> is_fgroup f = false ->
    exists their, priority (frame_def f) = Some their /\ walk_stop my their rtl = stays_below d f /\
                  is_group_like (frame_def f) = false.

Lemma frame_node_walk ns f p c :
  frame_node ns f p c ->
  exists n, nth_error ns (frame_id f) = Some n /\ n_def n = frame_def f /\ n_parent n = p /\
            n_right n = Some c /\ secondary_eqb (n_sec n) S_UnarySuffix = false.
Proof.
  destruct f as [i d k l|i d k|b i k]; simpl.
  - intros (n & H1 & [H2 H2'] & H3 & H4 & H5 & H6). exists n. repeat split; auto.
    destruct H2' as [(B & _)|[(B & _)|(B & _)]]; [destruct (n_sec n); try discriminate; reflexivity|rewrite B; reflexivity|rewrite B; reflexivity].
  - intros (n & H1 & H2 & H3 & H4 & H5 & H6 & H7). exists n. repeat split; auto. rewrite H2. reflexivity.
  - intros (n & H1 & H2 & H3 & H4 & H5 & H6 & H7). exists n. repeat split; auto. rewrite H2. reflexivity.
Qed.

Lemma walk_spine ns id d my rtl : forall fs t fuel count fs' t',
  spine ns fs (nid t) -> compat d my rtl fs -> fordered fs (lo t) -> ordered t -> hi t < id ->
  length fs < fuel -> count + length fs <= length ns ->
  pop d fs t = (fs', t') ->
  walk fuel ns id my false rtl (first_group fs) (top_id fs) (Some (nid t)) count = Ok (top_id fs', Some (nid t')).
Proof.
  induction fs as [|f r IH]; intros t fuel count fs' t' Sp C F O Hid Hfuel Hcount Hpop;
    (destruct fuel as [|fuel]; [simpl in Hfuel; lia|]); cbn [pop] in Hpop.
  - injection Hpop as <- <-. reflexivity.
  - simpl in Sp. destruct Sp as [S1 S2]. simpl in F. destruct F as (F1 & F2 & F3).
    destruct (frame_node_walk _ _ _ _ S1) as (n & Hn & Hd & Hp & Hr & Hs).
    destruct (is_fgroup f) eqn:Eg.
    + (* the innermost open bracket: the walk stops here whatever the operator *)
      destruct f as [i d0 k l|i d0 k|b i k]; try discriminate Eg.
      cbn [stays_below] in Hpop. injection Hpop as <- <-.
      cbn [walk top_id first_group frame_id]. cbn [frame_id] in Hn. rewrite Hn. unfold prio_of. rewrite Hd.
      destruct b; cbn [frame_def bdef priority bind is_group_like]; rewrite Nat.eqb_refl; cbn [andb]; rewrite orb_true_r; reflexivity.
    + destruct (C f (or_introl eq_refl) Eg) as (their & Hth & Hcmp & Hgl).
      assert (Hfg : first_group (f :: r) = first_group r) by (destruct f; try reflexivity; discriminate Eg).
      rewrite Hfg.
      cbn [walk top_id]. rewrite Hn. unfold prio_of. rewrite Hd, Hth. cbn [bind].
      rewrite Hs, Hgl. cbn [andb negb orb].
      fold (walk_stop my their rtl). rewrite Hcmp.
      destruct (stays_below d f) eqn:E.
      * injection Hpop as <- <-. cbn [orb]. reflexivity.
      * cbn [orb]. rewrite Hr.
        pose proof (ordered_lo_hi t O) as B.
        rewrite opt_nat_eqb_some_neq by lia.
        simpl in Hcount. destruct (Nat.ltb_spec (length ns) (S count)); [lia|].
        rewrite Hp. rewrite <- (plug_nid f t).
        apply IH.
        -- rewrite plug_nid. exact S2.
        -- intros f' Hf'. apply C. right. exact Hf'.
        -- rewrite plug_lo. exact F3.
        -- apply plug_ordered; assumption.
        -- rewrite plug_hi. exact Hid.
        -- simpl in Hfuel. lia.
        -- lia.
        -- exact Hpop.
Qed.

Lemma fordered_length : forall fs b, fordered fs b -> length fs <= b.
Proof.
  induction fs as [|f r IH]; intros b; simpl; [lia|]. intros (F1 & F2 & F3).
  specialize (IH _ F3). pose proof (frame_lo_le f F2) as B. lia.
Qed.

(* definitions of nodes that need no special treatment anywhere in the loop *)
Definition calm_def (d : definition) : bool :=
  negb (definition_eqb d D_SideEffect) && negb (is_optional d) &&
  negb (definition_eqb d D_Subexpression) && negb (definition_eqb d D_ExpressionSeparator).

Definition plain_def (d : definition) : bool := negb (is_group_like d) && calm_def d.

Lemma prio10_plain d : priority d = Some 10%N -> plain_def d = true.
Proof. destruct d; intros H; try reflexivity; vm_compute in H; discriminate H. Qed.

Lemma plain_not_group d : plain_def d = true -> is_group_like d = false.
Proof.
  unfold plain_def. intros H. apply andb_true_iff in H. destruct H as [H _].
  apply negb_true_iff. exact H.
Qed.

Lemma plain_calm d : plain_def d = true -> calm_def d = true.
Proof. unfold plain_def. intros H. apply andb_true_iff in H. apply H. Qed.

(* a completed operand: what last_left points at when an operator arrives *)
Definition closed_operand (t : ntree) : Prop :=
  match t with
  | NAtom _ _ _ => True
  | NSuf _ d _ _ => (exists their, priority d = Some their) /\ plain_def d = true
  | NGroup _ _ _ _ => True
  | _ => False
  end.

Lemma walk_operand ns id my rtl ug t p fuel :
  denotes ns p t -> closed_operand t -> ordered t -> hi t < id ->
  walk_stop my 10 rtl = false -> walk_stop my 20 rtl = false ->
  match ug with Some g => g <> nid t | None => True end ->
  walk (S fuel) ns id my false rtl ug (Some (nid t)) (Some (nid t)) 0
  = walk fuel ns id my false rtl ug p (Some (nid t)) 1.
Proof.
  intros D Cl O Hid Hstop Hstop20 Hug.
  destruct t as [i d k|i d k a|i d k a|i d k l r|b i k a]; simpl in Cl; try contradiction;
    simpl in D; destruct D as (n & Hn & A); pose proof (nth_error_lt _ _ _ Hn) as Hlen;
    cbn [walk nid]; rewrite Hn; unfold prio_of.
  - destruct A as (A1 & A2 & A3 & A4 & A5 & A6 & A7). rewrite A3. cbn [bind].
    assert (Hs : secondary_eqb (n_sec n) S_UnarySuffix = false) by (destruct (n_sec n); try discriminate; reflexivity).
    rewrite Hs, (plain_not_group _ (prio10_plain _ A3)). cbn [andb negb]. fold (walk_stop my 10 rtl). rewrite Hstop. cbn [orb].
    rewrite A6, A4. cbn [opt_nat_eqb].
    destruct (Nat.ltb_spec (length ns) 1); [lia|]. reflexivity.
  - destruct A as (A1 & A2 & A3 & A4 & A5 & A6 & A7). destruct Cl as [[their Hth] Hpl]. rewrite A2, Hth. cbn [bind].
    rewrite A1, (plain_not_group _ Hpl). cbn [secondary_eqb secondary_index N.eqb Pos.eqb andb negb orb].
    rewrite A5, A3. cbn [opt_nat_eqb].
    destruct (Nat.ltb_spec (length ns) 1); [lia|]. reflexivity.
  - destruct A as (A1 & A2 & A3 & A4 & A5 & A6 & A7). rewrite A2.
    assert (Hb : priority (bdef b) = Some 20%N /\ is_group_like (bdef b) = true) by (destruct b; split; reflexivity).
    destruct Hb as [Hb1 Hb2]. rewrite Hb1, Hb2. cbn [bind].
    rewrite A1. cbn [secondary_eqb secondary_index N.eqb Pos.eqb andb negb].
    fold (walk_stop my 20 rtl). rewrite Hstop20. cbn [orb].
    assert (Hg : match ug with Some g => g =? i | None => false end = false).
    { destruct ug as [g|]; [|reflexivity]. apply Nat.eqb_neq. exact Hug. }
    rewrite Hg. rewrite A5, A3.
    destruct O as [O1 O2]. pose proof (ordered_lo_hi a O2) as B. simpl in Hid.
    rewrite opt_nat_eqb_some_neq by lia.
    destruct (Nat.ltb_spec (length ns) 1); [lia|]. reflexivity.
Qed.

(* changing the parent field of the root of a subtree *)
Lemma denotes_reparent ns ns' p q t n :
  ordered t -> denotes ns p t -> nth_error ns (nid t) = Some n ->
  nth_error ns' (nid t) = Some (set_parent q n) ->
  (forall j, has_id t j -> j <> nid t -> nth_error ns' j = nth_error ns j) ->
  denotes ns' q t.
Proof.
  intros O D Hn Hnew E. revert D.
  destruct t as [i d k|i d k a|i d k a|i d k l r|b i k a]; simpl in *; intros (n0 & Hn0 & A);
    rewrite Hn in Hn0; injection Hn0 as <-; exists (set_parent q n); (split; [exact Hnew|]).
  - unfold atom_node in *. simpl. tauto.
  - destruct A as (A1 & A2 & A3 & A4 & A5 & A6 & A7). simpl. repeat split; auto.
    eapply denotes_ext; [|exact A7]. intros j Hj. destruct O as [O1 O2].
    pose proof (ordered_range a j O2 Hj) as R. apply E; [auto|lia].
  - destruct A as (A1 & A2 & A3 & A4 & A5 & A6 & A7). simpl. repeat split; auto.
    eapply denotes_ext; [|exact A7]. intros j Hj. destruct O as [O1 O2].
    pose proof (ordered_range a j O2 Hj) as R. apply E; [auto|lia].
  - destruct A as (A1 & A2 & A3 & A4 & A5 & A6). destruct O as (O1 & O2 & O3 & O4).
    simpl. repeat split; auto; try apply A1.
    + eapply denotes_ext; [|exact A5]. intros j Hj.
      pose proof (ordered_range l j O3 Hj) as R. apply E; [auto|lia].
    + eapply denotes_ext; [|exact A6]. intros j Hj.
      pose proof (ordered_range r j O4 Hj) as R. apply E; [auto|lia].
  - destruct A as (A1 & A2 & A3 & A4 & A5 & A6 & A7). simpl. repeat split; auto.
    eapply denotes_ext; [|exact A7]. intros j Hj. destruct O as [O1 O2].
    pose proof (ordered_range a j O2 Hj) as R. apply E; [auto|lia].
Qed.

(* parse_token on a completed operand below the open frames: the walk closes the
   frames [pop] closes, the closed subtree [t'] becomes the left child of the node
   [length ns] about to be appended, and the innermost remaining frame its parent *)
Lemma parse_token_linked ns fs t d my rtl fs' t' :
  linked ns fs t -> closed_operand t -> priority d = Some my ->
  definition_eqb d D_SideEffect = false -> walk_stop my 10 rtl = false -> walk_stop my 20 rtl = false ->
  compat d my rtl fs -> pop d fs t = (fs', t') ->
  exists ns', parse_token (length ns) d (Some (nid t)) ns (first_group fs) rtl = Ok (ns', top_id fs', Some (nid t')) /\
              length ns' = length ns /\ spine ns' fs' (length ns) /\ denotes ns' (Some (length ns)) t' /\
              (forall j, j < length ns -> j <> nid t' -> top_id fs' <> Some j -> nth_error ns' j = nth_error ns j).
Proof.
  intros L Cl Hprio Hse Hstop Hstop20 C Hpop.
  pose proof (pop_linked _ _ _ _ _ _ L Hpop) as L'.
  destruct L as [Sp D F O]. destruct L' as [Sp' D' F' O'].
  pose proof (ordered_lo_hi t O) as B. pose proof (ordered_lo_hi t' O') as B'.
  pose proof (denotes_root _ _ _ D) as (nt & Hnt & _). pose proof (nth_error_lt _ _ _ Hnt) as Hlt.
  pose proof (fordered_length _ _ F) as Hfl.
  pose proof (pop_hi _ _ _ _ _ Hpop) as Ehi.
  assert (Hhi : hi t < length ns).
  { rewrite <- Ehi. eapply denotes_lt; [exact D'|apply has_id_hi]. }
  assert (Hug : match first_group fs with Some g => g <> nid t | None => True end).
  { destruct (first_group fs) as [g|] eqn:Eg; [|exact I].
    pose proof (frames_have_lt _ _ _ F (first_group_has _ _ Eg)) as R. lia. }
  destruct (denotes_root _ _ _ D') as (n' & Hn' & Hp').
  pose proof (nth_error_lt _ _ _ Hn') as Hlt'.
  unfold parse_token, prio_of. rewrite Hprio. cbn [bind]. rewrite Hse.
  rewrite (walk_operand ns (length ns) my rtl (first_group fs) t (top_id fs) (S (length ns)) D Cl O Hhi Hstop Hstop20 Hug).
  rewrite (walk_spine ns (length ns) d my rtl fs t (S (length ns)) 1 fs' t' Sp C F O Hhi ltac:(lia) ltac:(lia) Hpop).
  cbn [bind].
  destruct (upd_some ns (nid t') (set_parent (Some (length ns))) Hlt') as [ns1 U1].
  pose proof (upd_same _ _ _ _ _ U1 Hn') as Hnew1.
  destruct fs' as [|f r].
  - (* no frame left: the new node becomes the root *)
    cbn [top_id opt_nat_eqb]. rewrite U1. exists ns1. split; [reflexivity|].
    split; [eapply upd_len; eauto|]. split; [exact I|]. split.
    + eapply denotes_reparent; eauto. intros j _ Hj. apply (upd_other _ _ _ _ j U1 Hj).
    + intros j _ Hj _. apply (upd_other _ _ _ _ j U1 Hj).
  - (* the innermost remaining frame [f] adopts the new node as its right child *)
    simpl in Sp'. destruct Sp' as [S1 S2]. simpl in F'. destruct F' as (F1 & F2 & F3).
    destruct (frame_node_walk _ _ _ _ S1) as (nf & Hnf & Hdf & Hpf & Hrf & Hsf).
    assert (Hne : frame_id f <> nid t') by lia.
    cbn [top_id]. rewrite (opt_nat_eqb_some_neq _ _ Hne). rewrite U1. cbn [bind].
    rewrite (upd_other _ _ _ _ _ U1 Hne), Hnf.
    pose proof (nth_error_lt _ _ _ Hnf) as Hltf.
    destruct (upd_some ns1 (frame_id f) (set_right (Some (length ns)))) as [ns2 U2];
      [rewrite (upd_len _ _ _ _ U1); exact Hltf|]. rewrite U2. rewrite Hrf.
    destruct (upd_some ns2 (nid t') (set_parent (Some (length ns)))) as [ns3 U3];
      [rewrite (upd_len _ _ _ _ U2), (upd_len _ _ _ _ U1); exact Hlt'|]. rewrite U3.
    exists ns3. split; [reflexivity|].
    split; [rewrite (upd_len _ _ _ _ U3), (upd_len _ _ _ _ U2), (upd_len _ _ _ _ U1); reflexivity|].
    assert (Hother : forall j, j <> nid t' -> j <> frame_id f -> nth_error ns3 j = nth_error ns j).
    { intros j J1 J2. rewrite (upd_other _ _ _ _ j U3 J1), (upd_other _ _ _ _ j U2 J2).
      apply (upd_other _ _ _ _ j U1 J1). }
    assert (Hf3 : nth_error ns3 (frame_id f) = Some (set_right (Some (length ns)) nf)).
    { rewrite (upd_other _ _ _ _ _ U3 Hne). eapply upd_same; [exact U2|].
      rewrite (upd_other _ _ _ _ _ U1 Hne). exact Hnf. }
    assert (Ht3 : nth_error ns3 (nid t') = Some (set_parent (Some (length ns)) n')).
    { assert (E2 : nth_error ns2 (nid t') = Some (set_parent (Some (length ns)) n')).
      { rewrite (upd_other _ _ _ _ _ U2) by lia. exact Hnew1. }
      rewrite (upd_same _ _ _ _ _ U3 E2). destruct n'; reflexivity. }
    split; [|split].
    + (* the frames *)
      simpl. split.
      * clear -S1 Hnf Hf3 Hother F2 B' F1.
        destruct f as [i d0 k l|i d0 k|b i k]; simpl in *.
        -- destruct S1 as (n & H1 & H2 & H3 & H4 & H5 & H6). rewrite Hnf in H1. injection H1 as <-.
           exists (set_right (Some (length ns)) nf). split; [exact Hf3|]. simpl. repeat split; auto; try apply H2.
           eapply denotes_ext; [|exact H6]. intros j Hj. destruct F2 as [O2 H2'].
           pose proof (ordered_range l j O2 Hj) as R. apply Hother; lia.
        -- destruct S1 as (n & H1 & H2). rewrite Hnf in H1. injection H1 as <-.
           exists (set_right (Some (length ns)) nf). split; [exact Hf3|]. simpl. tauto.
        -- destruct S1 as (n & H1 & H2). rewrite Hnf in H1. injection H1 as <-.
           exists (set_right (Some (length ns)) nf). split; [exact Hf3|]. simpl. tauto.
      * eapply spine_ext; [|exact S2]. intros j Hj.
        pose proof (frames_have_lt _ _ _ F3 Hj) as R. pose proof (frame_lo_le f F2) as R2.
        apply Hother; lia.
    + eapply denotes_reparent; eauto. intros j Hj Hj2. apply Hother; [exact Hj2|].
      pose proof (ordered_range t' j O' Hj) as R. lia.
    + intros j _ J1 J2. apply Hother; [exact J1|]. intros ->. apply J2. reflexivity.
Qed.
