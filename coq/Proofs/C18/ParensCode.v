(* C18, result half for parentheses, end to end for brackets around a whole operator
   expression: the parser's trees of `toks` and `( toks )` (images of the index-carrying
   trees of C02) are related by [grel] -- one Group node on top, node indices renamed --
   so the builder model emits the same instruction stream (data operands compared by
   position only), the same jump table and reports the same entry. *)
From Coq Require Import List Arith Bool NArith Lia.
From GV Require Import Base.Result Gen.TokenTypes Gen.Defs Gen.Instr Model.Parser Model.BuilderWL Model.Compile
  Spec.RefTable Spec.Pratt Spec.Chains Spec.Layout
  Proofs.C02.Spine Proofs.C02.Denote Proofs.C02.Chains Proofs.C02.OpExpr Proofs.C02.Full
  Proofs.C05.Known Proofs.C05.InlBase Proofs.Builder.PrattBridge Proofs.Builder.Transport
  Proofs.C18.ViaPratt Proofs.C18.GroupSim.
Import ListNotations.

Definition zlab (_ : nat) : nat := 0.
(* an instruction with its data operand (a parse-node index in the model) blanked *)
Definition erase_data (i : instr) : instr := ren zlab i.

Lemma untok_shift_rtree a : forall t, untok (shift_rtree a t) = untok t.
Proof.
  induction t as [d k|d k x IH|d k x IH|d k l IHl r IHr|b k x IH]; cbn [shift_rtree untok]; rewrite ?IH, ?IHl, ?IHr; try reflexivity.
  destruct k; reflexivity.
Qed.

Lemma erase_grel : forall A B ctx lo cond, wfd ctx A -> wfd ctx B -> untok (erase A) = untok (erase B) ->
  grel lit_all lit_all zlab zlab lo cond (img A) (img B).
Proof.
  induction A as [i d k|i d k a IH|i d k a IH|i d k l IHl r IHr|b i k a IH];
    intros [i0 d0 k0|i0 d0 k0 a0|i0 d0 k0 a0|i0 d0 k0 l0 r0|b0 i0 k0 a0] ctx lo cond WA WB H;
    cbn [erase untok] in H; try discriminate H; cbn [img]; cbn [wfd] in WA, WB.
  - injection H as H. rewrite WA, WB, H. apply grel_node_intro; try reflexivity; exact I.
  - injection H as -> H. apply grel_node_intro; try reflexivity; try exact I; cbn [orel]; eapply IH; eassumption.
  - injection H as -> H. apply grel_node_intro; try reflexivity; try exact I; cbn [orel]; eapply IH; eassumption.
  - injection H as -> _ Hl Hr. destruct WA as [WA1 WA2], WB as [WB1 WB2].
    apply grel_node_intro; try reflexivity; cbn [orel]; [eapply IHl|eapply IHr]; eassumption.
  - injection H as -> H. apply grel_node_intro; try reflexivity; try exact I; cbn [orel]; eapply IH; eassumption.
Qed.

Lemma pratt_parse_wfd toks T : pratt toks = Some T ->
  exists Tn ns, parse toks = Ok (nid Tn, ns) /\ Compile.tree_of ns (nid Tn) = Some (img Tn) /\
                wfd false Tn /\ untok (erase Tn) = untok T.
Proof.
  intros H. destruct (pratt_parse toks T H) as (Tn & ns & its & Hits & _ & Hins & Hp & DT & OT & _ & _ & E).
  exists Tn, ns. split; [exact Hp|]. split; [eapply denotes_tree_of; eauto|]. split.
  - eapply spine_insert_wfd; [|exact Hins]. eapply items_of_sane; exact Hits.
  - rewrite E, untok_shift_rtree. reflexivity.
Qed.

(* both token lists are accepted, and whenever the builder model succeeds on both (into the
   same data object, any fuel) it has emitted the same instructions -- operation, jump /
   length / expression operands; data operands blanked -- the same jump table and reports
   the same entry *)
Definition same_code_of_builds (toks toks' : list token_type) : Prop :=
  exists root nodes root' nodes',
    parse toks = Ok (root, nodes) /\
    parse toks' = Ok (root', nodes') /\
    forall init fuel fuel' r r',
      build nodes init lit_all fuel root = Ok r ->
      build nodes' init lit_all fuel' root' = Ok r' ->
      map erase_data (instrs (fst r')) = map erase_data (instrs (fst r)) /\
      jumps (fst r') = jumps (fst r) /\ snd r' = snd r.

Theorem parens_whole_same_code (toks : list token_type) (T : rtree) :
  no_separators toks = true -> pratt toks = Some T ->
  same_code_of_builds toks (TT_StartGroup :: toks ++ [TT_EndGroup]).
Proof.
  unfold same_code_of_builds.
  intros Hns Hpr. pose proof (pratt_wrapped toks T Hns Hpr) as Hpr'.
  destruct (pratt_parse_wfd _ _ Hpr) as (Tn & ns & Hp & Ht & Hw & Hu).
  destruct (pratt_parse_wfd _ _ Hpr') as (Tn' & ns' & Hp' & Ht' & Hw' & Hu').
  exists (nid Tn), ns, (nid Tn'), ns'. split; [exact Hp|]. split; [exact Hp'|].
  intros init fuel fuel' r r' Hb Hb'.
  cbn [untok] in Hu'. rewrite untok_shift_rtree, <- Hu in Hu'.
  destruct Tn' as [i d k|i d k a|i d k a|i d k l0 r0|b i k A]; cbn [erase untok] in Hu'; try discriminate Hu'.
  injection Hu' as -> HuA. cbn [wfd] in Hw'.
  assert (Hg : grel lit_all lit_all zlab zlab None false (img (NGroup BRound i k A)) (img Tn)).
  { cbn [img bdef]. apply grel_group_intro; [reflexivity|]. eapply erase_grel; eassumption. }
  pose proof (compile_agrees_full_proof _ _ _ _ _ _ _ Ht Hb) as Hc.
  pose proof (compile_agrees_full_proof _ _ _ _ _ _ _ Ht' Hb') as Hc'.
  destruct (compile_sim init lit_all lit_all zlab zlab _ _ _ _ Hg Hc) as (c' & Hc2 & Hv1 & Hv2).
  rewrite Hc' in Hc2. injection Hc2 as <- Hs. cbn [ci cj] in Hv1, Hv2.
  split; [exact Hv1|]. split; [exact Hv2|exact Hs].
Qed.
