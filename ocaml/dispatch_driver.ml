(* defer driver (model side of the C08 / C10 matrix).

   Input: first two lines
     #instructions <name> <name> ...      (enum order of traits/src/instructions.rs)
     #types <name> <name> ...             (enum order of GarnishDataType)
   written by tools/props/c08.py from the same parse of /repo that generates
   Gen/Instr.v; they are zipped with the extracted [all_instruction] /
   [all_data_type], so no name table is written down here.
   Then the harness' output lines
     <impl> <host> <Instruction> <lrep> <rrep>\t<impl result>\t l=<ty>/<sub> r=<ty>/<sub>|-
   Output:  <case>\t<model outcome>\t<spec>\ttruth=<left 0|1>,<right 0|1|->   (Spec.Falsy.truth)
     model:  <class> dep=<0|1> pops=<n> pushes=<n> top=<..> jump=<0|1> frames=<n> calls=[..]
     spec:   undefined <expected outcome, same format> | defined | -  *)
let rec int_of_nat = function O -> 0 | S n -> 1 + int_of_nat n

let instr_names : (string * instruction) list ref = ref []
let type_names : (string * data_type) list ref = ref []

let zip_names what names values =
  if List.length names <> List.length values then
    failwith (Printf.sprintf "%s: %d names for %d constructors" what (List.length names) (List.length values));
  List.combine names values

let name_of tbl v = fst (List.find (fun (_, x) -> x = v) tbl)
let tyname t = name_of !type_names t
let iname i = name_of !instr_names i
let ty_of s = try List.assoc s !type_names with Not_found -> failwith ("unknown type " ^ s)
let instr_of s = try List.assoc s !instr_names with Not_found -> failwith ("unknown instruction " ^ s)

let operand_of (s : string) : operand option =
  if s = "-" then None
  else match split_on '/' s with
    | [t; sub] -> Some { o_ty = ty_of t; o_sub = ty_of sub }
    | _ -> failwith ("bad operand descriptor " ^ s)

let tag = function AtLeft -> "L" | AtRight -> "R" | AtZero -> "0" | AtUnit -> "U"
let show_call c =
  Printf.sprintf "%s(%s@%s,%s@%s)" (iname c.c_op) (tyname c.c_lty) (tag c.c_la) (tyname c.c_rty) (tag c.c_ra)
let show_top = function
  | TopNone -> "None" | TopUnit -> "Unit" | TopBool b -> if b then "Bool:true" else "Bool:false"
  | TopIs t -> "Is:" ^ tyname t
  | TopOneOf l -> "OneOf:" ^ String.concat "," (List.map tyname l)
  | TopAny -> "Any" | TopHost -> "Host"
let show_class = function
  | ROk -> "Ok" | RErrUnsupported -> "Err:Unsupported" | RErrOther -> "Err:Other"
  | ROkOrUnsupported -> "OkOrUnsupported" | RUntyped -> "Untyped"
let show_outcome o =
  Printf.sprintf "%s dep=%d pops=%d pushes=%d top=%s jump=%d frames=%d calls=[%s]"
    (show_class o.res) (if o.data_dep then 1 else 0) (int_of_nat o.pops) (int_of_nat o.pushes)
    (show_top o.top_is) (if o.jumps then 1 else 0) (int_of_nat o.frames)
    (String.concat ";" (List.map show_call o.calls))

let host_of = function "A" -> HAbsent | "D" -> HDecline | "Y" -> HAccept | s -> failwith ("bad host " ^ s)

let strip_prefix p s =
  let n = String.length p in
  if String.length s >= n && String.sub s 0 n = p then String.sub s n (String.length s - n)
  else failwith ("expected " ^ p ^ " in " ^ s)

let () =
  iter_lines (fun line ->
    if String.length line > 0 && line.[0] = '#' then begin
      match split_on ' ' line with
      | "#instructions" :: names -> instr_names := zip_names "instructions" names all_instruction
      | "#types" :: names -> type_names := zip_names "types" names all_data_type
      | _ -> failwith ("bad header " ^ line)
    end else
    match split_on '\t' line with
    | case :: impl :: desc :: _ ->
      let is_unbuildable = String.length impl >= 11 && String.sub impl 0 11 = "UNBUILDABLE" in
      if is_unbuildable || desc = "-" then Printf.printf "%s\t-\t-\n" case
      else begin
        match split_on ' ' case, split_on ' ' desc with
        | [_; h; i; _; _], [ld; rd] ->
          let i = instr_of i and h = host_of h in
          let l = operand_of (strip_prefix "l=" ld) and r = operand_of (strip_prefix "r=" rd) in
          (match l with
           | None -> Printf.printf "%s\t-\t-\n" case
           | Some l ->
             let o = step i l r h in
             let spec =
               if undefined_case i l r then "undefined " ^ show_outcome (c08_expected i l r h)
               else if defined_case i l r then "defined"
               else "-" in
             let tr = (match r with Some r -> if truth r.o_ty then "1" else "0" | None -> "-") in
             Printf.printf "%s\t%s\t%s\ttruth=%s,%s\n" case (show_outcome o) spec
               (if truth l.o_ty then "1" else "0") tr)
        | _ -> failwith ("bad case " ^ line)
      end
    | _ -> failwith ("bad line " ^ line))
