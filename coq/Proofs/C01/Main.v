(* C01 for every construct of the core language (stages 1-4): the induction on
   the evaluator's fuel, the nested bodies of a compiled program, and the
   statement about whole programs (compile_prog, initial state, run to End). *)
From Coq Require Import ZArith NArith List Bool Arith Lia.
From GV Require Import Base.Result Base.Host Gen.Instr Gen.Exec Model.Num Model.Value Model.Machine
  Model.CompileExpr Spec.Ast Spec.Eval
  Proofs.C01.MachineFacts Proofs.C01.Sizes Proofs.C01.Placement Proofs.C01.Labels Proofs.C01.OpRefine Proofs.C01.Fragment
  Proofs.C01.Steps Proofs.C01.Sim Proofs.C01.NoRestart Proofs.C01.SimDone Proofs.C01.SimStep.
Import ListNotations.

Section Main.
Variable sym_hash : list N -> N.
Variable hstate : Type.
Variable host : hstate -> host_call -> hstate * option val.
Hypothesis Hdef : declines_defer hstate host.
Variable pbodies : list (N * expr).
Variable P : program.
Hypothesis Hbodies : bodies_ok sym_hash pbodies P.

Lemma sim_all : forall n m, m <= n -> SimAll sym_hash hstate host pbodies P m.
Proof.
  induction n; intros m Hm.
  - assert (m = 0) by lia. subst m. repeat split.
    + intros e vin s o E. cbn in E. subst o. intros; exact I.
    + intros k e vin s o E. cbn in E. subst o. intros; exact I.
    + intros e vin s o E. cbn in E. subst o. intros; exact I.
    + intros f x s v s' E. discriminate.
    + intros b vin s v s' E. discriminate.
  - destruct (Nat.eq_dec m (S n)) as [-> | Hne].
    + apply (sim_all_step sym_hash hstate host Hdef pbodies P Hbodies n). exact IHn.
    + apply IHn. lia.
Qed.

End Main.

(* ------------------------------------------- the nested bodies of a program *)
Section Bodies.
Variable sym_hash : list N -> N.
Variable C : list minstr.
Variable J : list nat.
Notation lplaced := (lplaced sym_hash C J).
Notation lplacedC := (lplacedC sym_hash C J).

Definition body_in (lbl : N) (b : expr) : Prop :=
  exists pcb jb1 ob1 jb2,
    nth_error J (N.to_nat lbl) = Some pcb /\
    lplaced (N.to_nat lbl) None b pcb jb1 ob1 jb2 /\
    nth_error C (pcb + si (sizes None b)) = Some (ins I_EndExpression) /\
    frag b = true /\ shape_ok b = true /\ seq_ok true b = true.

Lemma shape_plain_item : forall e, is_cond e = false -> is_else e = false -> shape_okC true e = shape_okC false e.
Proof. destruct e; intros; cbn [shape_okC]; auto; discriminate. Qed.

Ltac and2 H a b := apply andb_prop in H; destruct H as [a b].
Ltac and3 H a b c := apply andb_prop in H; destruct H as [H c]; apply andb_prop in H; destruct H as [a b].
Ltac and4 H a b c d := apply andb_prop in H; destruct H as [H d]; and3 H a b c.

Lemma lchain_items : forall e, lchain e = true -> is_cond e = true \/ is_else e = true.
Proof. destruct e; cbn; intros; auto; discriminate. Qed.

(* every nested body of an expression placed in the program is in the program *)
Lemma placed_bodies : forall e,
  (forall cont lk pc j ob jb sb,
     lplaced cont lk e pc j ob jb -> frag e = true -> shape_ok e = true -> seq_ok sb e = true ->
     forall lbl b, In (lbl, b) (bodies e) -> body_in lbl b) /\
  (forall cont pc j aob ajb ob jb jj,
     lplacedC true cont None e pc j aob ajb ob jb jj -> frag e = true -> shape_okC true e = true -> seq_ok false e = true ->
     forall lbl b, In (lbl, b) (bodies e) -> body_in lbl b).
Proof.
  induction e.
  1-3: split; intros; cbn in *; contradiction.
  - (* EUn *) destruct IHe as [IH1 _].
    assert (Hplain : forall cont lk pc j ob jb sb,
       lplaced cont lk (EUn o e) pc j ob jb -> frag (EUn o e) = true -> shape_ok (EUn o e) = true -> seq_ok sb (EUn o e) = true ->
       forall lbl b, In (lbl, b) (bodies (EUn o e)) -> body_in lbl b).
    { intros cont lk pc j ob jb sb Hp Hf Hsh Hsq lbl b Hin. cbn [frag shape_okC seq_ok bodies] in *.
      edestruct (lplaced_EUn sym_hash C J) as (Px & _); [exact Hp | ]. eapply IH1; eauto. }
    split; [exact Hplain|].
    intros cont pc j aob ajb ob jb jj Hp Hf Hsh Hsq lbl b Hin.
    eapply (Hplain cont None pc j ob jb false); eauto.
    eapply lplacedC_plain_item; eauto.
  - (* EBin *) destruct IHe1 as [IHl _]. destruct IHe2 as [IHr _].
    assert (Hplain : forall cont lk pc j ob jb sb,
       lplaced cont lk (EBin o e1 e2) pc j ob jb -> frag (EBin o e1 e2) = true -> shape_ok (EBin o e1 e2) = true -> seq_ok sb (EBin o e1 e2) = true ->
       forall lbl b, In (lbl, b) (bodies (EBin o e1 e2)) -> body_in lbl b).
    { intros cont lk pc j ob jb sb Hp Hf Hsh Hsq lbl b Hin. cbn [frag shape_okC seq_ok bodies] in *.
      and2 Hf Hfl Hfr. and2 Hsh Hshl Hshr. and2 Hsq Hsql Hsqr. apply in_app_or in Hin.
      destruct (right_first o) eqn:Hrf.
      - edestruct (lplaced_EBin_rl sym_hash C J) as (Pr & Pl & _); [exact Hrf | exact Hp | ].
        destruct Hin; [eapply IHl | eapply IHr]; eauto.
      - edestruct (lplaced_EBin_lr sym_hash C J) as (Pl & Pr & _); [exact Hrf | exact Hp | ].
        destruct Hin; [eapply IHl | eapply IHr]; eauto. }
    split; [exact Hplain|].
    intros cont pc j aob ajb ob jb jj Hp Hf Hsh Hsq lbl b Hin.
    eapply (Hplain cont None pc j ob jb false); eauto. eapply lplacedC_plain_item; eauto.
  - (* EAnd *) destruct IHe1 as [IHl _]. destruct IHe2 as [IHr _].
    assert (Hplain : forall cont lk pc j ob jb sb,
       lplaced cont lk (EAnd e1 e2) pc j ob jb -> frag (EAnd e1 e2) = true -> shape_ok (EAnd e1 e2) = true -> seq_ok sb (EAnd e1 e2) = true ->
       forall lbl b, In (lbl, b) (bodies (EAnd e1 e2)) -> body_in lbl b).
    { intros cont lk pc j ob jb sb Hp Hf Hsh Hsq lbl b Hin. cbn [frag shape_okC seq_ok bodies] in *.
      and2 Hf Hfl Hfr. and2 Hsh Hshl Hshr. and2 Hsq Hsql Hsqr. apply in_app_or in Hin.
      edestruct (lplaced_logical sym_hash C J true) as (Pl & Pr & _); [exact Hp | ].
      destruct Hin; [eapply IHl | eapply IHr]; eauto. }
    split; [exact Hplain|].
    intros cont pc j aob ajb ob jb jj Hp Hf Hsh Hsq lbl b Hin.
    eapply (Hplain cont None pc j ob jb false); eauto. eapply lplacedC_plain_item; eauto.
  - (* EOr *) destruct IHe1 as [IHl _]. destruct IHe2 as [IHr _].
    assert (Hplain : forall cont lk pc j ob jb sb,
       lplaced cont lk (EOr e1 e2) pc j ob jb -> frag (EOr e1 e2) = true -> shape_ok (EOr e1 e2) = true -> seq_ok sb (EOr e1 e2) = true ->
       forall lbl b, In (lbl, b) (bodies (EOr e1 e2)) -> body_in lbl b).
    { intros cont lk pc j ob jb sb Hp Hf Hsh Hsq lbl b Hin. cbn [frag shape_okC seq_ok bodies] in *.
      and2 Hf Hfl Hfr. and2 Hsh Hshl Hshr. and2 Hsq Hsql Hsqr. apply in_app_or in Hin.
      edestruct (lplaced_logical sym_hash C J false) as (Pl & Pr & _); [exact Hp | ].
      destruct Hin; [eapply IHl | eapply IHr]; eauto. }
    split; [exact Hplain|].
    intros cont pc j aob ajb ob jb jj Hp Hf Hsh Hsq lbl b Hin.
    eapply (Hplain cont None pc j ob jb false); eauto. eapply lplacedC_plain_item; eauto.
  - (* EList *) destruct IHe1 as [IHl _]. destruct IHe2 as [IHr _].
    assert (Hplain : forall cont lk pc j ob jb sb,
       lplaced cont lk (EList k e1 e2) pc j ob jb -> frag (EList k e1 e2) = true -> shape_ok (EList k e1 e2) = true -> seq_ok sb (EList k e1 e2) = true ->
       forall lbl b, In (lbl, b) (bodies (EList k e1 e2)) -> body_in lbl b).
    { intros cont lk pc j ob jb sb Hp Hf Hsh Hsq lbl b Hin. cbn [frag shape_okC seq_ok bodies] in *.
      and2 Hf Hfl Hfr. and3 Hsh Hnl Hshl Hshr. and2 Hsq Hsql Hsqr. apply in_app_or in Hin.
      edestruct (lplaced_EList sym_hash C J) as (Pl & Pr & _); [exact Hp | ].
      destruct Hin; [eapply IHl | eapply IHr]; eauto. }
    split; [exact Hplain|].
    intros cont pc j aob ajb ob jb jj Hp Hf Hsh Hsq lbl b Hin.
    eapply (Hplain cont None pc j ob jb false); eauto. eapply lplacedC_plain_item; eauto.
  - (* EGroup *) destruct IHe as [IH1 _].
    assert (Hplain : forall cont lk pc j ob jb sb,
       lplaced cont lk (EGroup e) pc j ob jb -> frag (EGroup e) = true -> shape_ok (EGroup e) = true -> seq_ok sb (EGroup e) = true ->
       forall lbl b, In (lbl, b) (bodies (EGroup e)) -> body_in lbl b).
    { intros cont lk pc j ob jb sb Hp Hf Hsh Hsq lbl b Hin. cbn [frag shape_okC seq_ok bodies] in *.
      pose proof (lplaced_EGroup sym_hash C J _ _ _ _ _ _ _ Hp) as Px. eapply IH1; eauto. }
    split; [exact Hplain|].
    intros cont pc j aob ajb ob jb jj Hp Hf Hsh Hsq lbl b Hin.
    eapply (Hplain cont None pc j ob jb false); eauto. eapply lplacedC_plain_item; eauto.
  - (* ECond *) destruct IHe1 as [IHc _]. destruct IHe2 as [IHa _]. split.
    + intros cont lk pc j ob jb sb Hp Hf Hsh Hsq lbl b Hin. cbn [frag shape_okC seq_ok bodies] in *.
      and2 Hf Hfl Hfr. and2 Hsh Hshl Hshr. and2 Hsq Hsql Hsqr. apply in_app_or in Hin.
      edestruct (lplaced_ECond sym_hash C J) as (Pc & Pa & _); [exact Hp | ].
      destruct Hin; [eapply IHc | eapply IHa]; eauto.
    + intros cont pc j aob ajb ob jb jj Hp Hf Hsh Hsq lbl b Hin. cbn [frag shape_okC seq_ok bodies] in *.
      and2 Hf Hfl Hfr. and2 Hsh Hshl Hshr. and2 Hsq Hsql Hsqr. apply in_app_or in Hin.
      edestruct (lplacedC_ECond sym_hash C J) as (Pc & Pa & _); [exact Hp | ].
      destruct Hin; [eapply IHc | eapply IHa]; eauto.
  - (* EElse *) destruct IHe1 as [IHl1 IHl2]. destruct IHe2 as [IHr1 IHr2]. split.
    + intros cont lk pc j ob jb sb Hp Hf Hsh Hsq lbl b Hin. cbn [frag shape_okC seq_ok bodies] in *.
      and2 Hf Hfl Hfr. and4 Hsh Hll Hpr Hshl Hshr. and2 Hsq Hsql Hsqr. apply in_app_or in Hin.
      edestruct (lplaced_EElse_head sym_hash C J) as (Pl & Pr & _); [exact Hp | ].
      unfold plain in Hpr. apply andb_prop in Hpr. destruct Hpr as [A B].
      apply negb_true_iff in A. apply negb_true_iff in B.
      destruct Hin.
      * eapply IHl2; eauto.
      * eapply (IHr1 cont None _ _ _ _ false); eauto. eapply lplacedC_plain_item; eauto.
    + intros cont pc j aob ajb ob jb jj Hp Hf Hsh Hsq lbl b Hin. cbn [frag shape_okC seq_ok bodies] in *.
      and2 Hf Hfl Hfr. and2 Hsh Hshl Hshr. and2 Hsq Hsql Hsqr. apply in_app_or in Hin.
      edestruct (lplacedC_EElse sym_hash C J) as (Pl & Pr); [exact Hp | ].
      destruct Hin; [eapply IHl2 | eapply IHr2]; eauto.
  - (* ESeq *) destruct IHe1 as [IHl _]. destruct IHe2 as [IHr _].
    assert (Hplain : forall cont lk pc j ob jb sb,
       lplaced cont lk (ESeq s e1 e2) pc j ob jb -> frag (ESeq s e1 e2) = true -> shape_ok (ESeq s e1 e2) = true -> seq_ok sb (ESeq s e1 e2) = true ->
       forall lbl b, In (lbl, b) (bodies (ESeq s e1 e2)) -> body_in lbl b).
    { intros cont lk pc j ob jb sb Hp Hf Hsh Hsq lbl b Hin. cbn [frag shape_okC seq_ok bodies] in *.
      and2 Hf Hfl Hfr. and2 Hsh Hshl Hshr. and3 Hsq Hb Hsql Hsqr. apply in_app_or in Hin.
      edestruct (lplaced_ESeq sym_hash C J) as (Pl & Pr & _); [exact Hp | ].
      destruct Hin; [eapply IHl | eapply IHr]; eauto. }
    split; [exact Hplain|].
    intros cont pc j aob ajb ob jb jj Hp Hf Hsh Hsq lbl b Hin. cbn [seq_ok] in Hsq. discriminate.
  - (* ESide *) destruct IHe1 as [IHl _]. destruct IHe2 as [IHr _].
    assert (Hplain : forall cont lk pc j ob jb sb,
       lplaced cont lk (ESide e1 e2) pc j ob jb -> frag (ESide e1 e2) = true -> shape_ok (ESide e1 e2) = true -> seq_ok sb (ESide e1 e2) = true ->
       forall lbl b, In (lbl, b) (bodies (ESide e1 e2)) -> body_in lbl b).
    { intros cont lk pc j ob jb sb Hp Hf Hsh Hsq lbl b Hin. cbn [frag shape_okC seq_ok bodies] in *.
      and3 Hf Hfl Hfr Hnr. and2 Hsh Hshl Hshr. and2 Hsq Hsql Hsqr. apply in_app_or in Hin.
      edestruct (lplaced_ESide sym_hash C J) as (Pl & Pr & _); [exact Hp | ].
      destruct Hin; [eapply IHl | eapply IHr]; eauto. }
    split; [exact Hplain|].
    intros cont pc j aob ajb ob jb jj Hp Hf Hsh Hsq lbl b Hin.
    eapply (Hplain cont None pc j ob jb false); eauto. eapply lplacedC_plain_item; eauto.
  - (* ENested *) destruct IHe as [IH1 _].
    assert (Hplain : forall cont lk pc j ob jb sb,
       lplaced cont lk (ENested label e) pc j ob jb -> frag (ENested label e) = true -> shape_ok (ENested label e) = true -> seq_ok sb (ENested label e) = true ->
       forall lbl b, In (lbl, b) (bodies (ENested label e)) -> body_in lbl b).
    { intros cont lk pc j ob jb sb Hp Hf Hsh Hsq lbl b Hin. cbn [frag shape_okC seq_ok bodies] in *.
      edestruct (lplaced_ENested sym_hash C J) as (Hlbl & _ & Hj & Pb & Hend); [exact Hp | ].
      destruct Hin as [Heq | Hin].
      - injection Heq as <- <-. subst label. unfold body_in. rewrite Nat2N.id.
        exists ob, jb, (ob + si (sizes None e) + 1), (jb + sji (sizes None e)).
        split; [exact Hj | split; [exact Pb | split; [exact Hend | auto]]].
      - eapply IH1; eauto. }
    split; [exact Hplain|].
    intros cont pc j aob ajb ob jb jj Hp Hf Hsh Hsq lbl b Hin.
    eapply (Hplain cont None pc j ob jb false); eauto. eapply lplacedC_plain_item; eauto.
  - (* EReapply *) destruct IHe as [IH1 _].
    assert (Hplain : forall cont lk pc j ob jb sb,
       lplaced cont lk (EReapply e) pc j ob jb -> frag (EReapply e) = true -> shape_ok (EReapply e) = true -> seq_ok sb (EReapply e) = true ->
       forall lbl b, In (lbl, b) (bodies (EReapply e)) -> body_in lbl b).
    { intros cont lk pc j ob jb sb Hp Hf Hsh Hsq lbl b Hin. cbn [frag shape_okC seq_ok bodies] in *.
      edestruct (lplaced_EReapply sym_hash C J) as (Px & _); [exact Hp | ]. eapply IH1; eauto. }
    split; [exact Hplain|].
    intros cont pc j aob ajb ob jb jj Hp Hf Hsh Hsq lbl b Hin.
    eapply (Hplain cont None pc j ob jb false); eauto. eapply lplacedC_plain_item; eauto.
Qed.

Lemma find_body_in : forall l lbl b, find_body l lbl = Some b -> exists k, N.eqb k lbl = true /\ In (k, b) l.
Proof.
  induction l as [|[k0 b0] l IH]; intros lbl b H; [discriminate|].
  cbn in H. destruct (N.eqb k0 lbl) eqn:E.
  - injection H as <-. exists k0. split; auto. left; reflexivity.
  - destruct (IH _ _ H) as (k & Hk & Hin). exists k. split; auto. right; exact Hin.
Qed.

End Bodies.

(* ---------------------------------------------------------- whole programs *)
Section Programs.
Variable sym_hash : list N -> N.
Variable hstate : Type.
Variable host : hstate -> host_call -> hstate * option val.
Hypothesis Hdef : declines_defer hstate host.
Notation St := (mkSt hstate).

(* the labels of the nested expressions are the jump-table indices of their bodies *)
Definition labels_ok (e : expr) : bool := lab_okC false None e 1 0 (1 + sji (sizes None e)).

Lemma compile_placed : forall e,
  let P := compile_prog sym_hash e in
  Placement.placed sym_hash (code P) (jt P) 0 None e 0 1 (si (sizes None e) + 1) (1 + sji (sizes None e)) /\
  nth_error (code P) (si (sizes None e)) = Some (ins I_EndExpression) /\
  nth_error (jt P) 0 = Some 0.
Proof.
  intros e P. subst P. unfold compile_prog.
  set (f := comp sym_hash 0 None e 0 1 (si (sizes None e) + 1) (1 + sji (sizes None e))).
  destruct (comp_sizes sym_hash e 0 None 0 1 (si (sizes None e) + 1) (1 + sji (sizes None e))) as (L1 & L2 & L3 & L4).
  fold f in L1, L2, L3, L4.
  cbn [code jt]. split; [|split].
  - unfold Placement.placed. fold f. cbv zeta. repeat split.
    + apply (code_at_self _ [] (f_inl f) ([ins I_EndExpression] ++ f_ool f)).
    + apply (code_at_self _ [0] (f_ji f) (f_jo f)).
    + replace (f_inl f ++ [ins I_EndExpression] ++ f_ool f) with ((f_inl f ++ [ins I_EndExpression]) ++ f_ool f ++ [])
        by (rewrite app_nil_r, <- app_assoc; reflexivity).
      replace (si (sizes None e) + 1) with (length (f_inl f ++ [ins I_EndExpression])) by (rewrite app_length, L1; reflexivity).
      apply code_at_self.
    + replace (0 :: f_ji f ++ f_jo f) with (([0] ++ f_ji f) ++ f_jo f ++ [])
        by (rewrite app_nil_r, <- app_assoc; reflexivity).
      replace (1 + sji (sizes None e)) with (length ([0] ++ f_ji f)) by (rewrite app_length, L3; reflexivity).
      apply code_at_self.
  - rewrite nth_error_app2 by lia. rewrite L1, Nat.sub_diag. reflexivity.
  - reflexivity.
Qed.

Lemma compile_bodies_ok : forall e,
  frag e = true -> shape_ok e = true -> seq_ok true e = true -> labels_ok e = true ->
  bodies_ok sym_hash (bodies e) (compile_prog sym_hash e).
Proof.
  intros e Hf Hsh Hsq Hlab lbl b Hfb.
  destruct (find_body_in _ _ _ Hfb) as (k & Hk & Hin). apply N.eqb_eq in Hk. subst k.
  destruct (compile_placed e) as (Hp & _).
  assert (Hlp : lplaced sym_hash (code (compile_prog sym_hash e)) (jt (compile_prog sym_hash e)) 0 None e 0 1
                        (si (sizes None e) + 1) (1 + sji (sizes None e))) by (split; [exact Hp | exact Hlab]).
  destruct (placed_bodies sym_hash (code (compile_prog sym_hash e)) (jt (compile_prog sym_hash e)) e) as [PB _].
  exact (PB 0 None 0 1 _ _ true Hlp Hf Hsh Hsq lbl b Hin).
Qed.

Theorem stage4_program : forall e vin h n v h' t,
  frag e = true -> shape_ok e = true -> seq_ok true e = true -> labels_ok e = true ->
  eval_prog sym_hash hstate host n e vin h = ODone v (h', t) ->
  exists s0 fuel steps sfin,
    initial hstate (compile_prog sym_hash e) 0 vin h = Some s0 /\
    run hstate host fuel (compile_prog sym_hash e) s0 = REnd hstate sfin steps /\
    current_value hstate sfin = Some v /\ hs sfin = h' /\ observable (tr sfin) = t.
Proof.
  intros e vin h n v h' t Hf Hsh Hsq Hlab H.
  unfold eval_prog in H.
  pose proof (compile_bodies_ok e Hf Hsh Hsq Hlab) as Hb.
  destruct (compile_placed e) as (Hp & Hend & Hj0).
  set (P := compile_prog sym_hash e) in *.
  assert (Hlp : lplaced sym_hash (code P) (jt P) 0 None e 0 1 (si (sizes None e) + 1) (1 + sji (sizes None e)))
    by (split; [exact Hp | exact Hlab]).
  assert (Hl : 0 + si (sizes None e) < length (code P)) by (apply nth_error_Some; cbn [plus]; congruence).
  destruct (sim_all sym_hash hstate host Hdef (bodies e) P Hb n n (le_n n)) as (_ & _ & _ & _ & HB).
  destruct (HB e vin (h, []) v (h', t) H Hf Hsh Hsq 0 0 1 _ _ [] [] [] [] Hlp Hj0 Hl eq_refl)
    as (junk & vin' & mt' & Hstar & Ho).
  cbn [fst snd plus] in *. rewrite app_nil_r in Hstar.
  exists (St 0 [] [vin] [] h []).
  assert (Hfin : Machine.step hstate host P (St (si (sizes None e)) (v :: junk) [vin'] [] h' mt') =
                 SEnd hstate (St (si (sizes None e)) junk [v] [] h' mt')).
  { unfold Machine.step. cbn [pc]. rewrite Hend. cbn [exec_op ins andb run_op].
    unfold end_expression, next_ref. cbn [regs bind set_regs frames vals set_vals pc hs tr].
    rewrite Nat.leb_refl. reflexivity. }
  destruct (run_from_star hstate host P _ _ Hstar _ Hfin) as (fuel & Hrun).
  destruct (Hrun 0 0) as (steps & Hr).
  exists (fuel + 0), steps, (St (si (sizes None e)) junk [v] [] h' mt').
  repeat split; auto.
Qed.

(* stages 1-3: no nested expressions, so nothing to label *)
Lemma frag3_labels : forall e, frag3 e = true -> forall ic lk j ajb jb, lab_okC ic lk e j ajb jb = true.
Proof.
  induction e; cbn [frag3]; intros H ic lk j ajb jb; try discriminate; cbn [lab_okC]; auto;
    repeat (apply andb_prop in H; destruct H as [H ?]);
    try (destruct (right_first o)); try destruct ic;
    rewrite ?IHe, ?IHe1, ?IHe2 by assumption; auto.
Qed.

Theorem stage3_program : forall e vin h n v h' t,
  frag3 e = true -> shape_ok e = true -> seq_ok true e = true ->
  eval_prog sym_hash hstate host n e vin h = ODone v (h', t) ->
  exists s0 fuel steps sfin,
    initial hstate (compile_prog sym_hash e) 0 vin h = Some s0 /\
    run hstate host fuel (compile_prog sym_hash e) s0 = REnd hstate sfin steps /\
    current_value hstate sfin = Some v /\ hs sfin = h' /\ observable (tr sfin) = t.
Proof.
  intros e vin h n v h' t Hf Hsh Hsq H.
  apply (stage4_program e vin h n v h' t (frag3_frag e Hf) Hsh Hsq (frag3_labels e Hf _ _ _ _ _) H).
Qed.

End Programs.
