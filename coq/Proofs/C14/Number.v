(* Number literals: the radix form 0R_digits, canonical spellings, decimals
   with separators. *)
From Coq Require Import ZArith NArith List Bool Lia.
From Flocq Require Import IEEE754.Binary IEEE754.Bits.
From GV Require Import Base.Result Model.Num Model.Literals Spec.LitDenote
  Proofs.C14.StrLemmas Proofs.C14.Digits.
Import ListNotations.
Local Open Scope N_scope.

(* facts about the decimal spelling of the radix itself; the quantifier
   (R in 2..36) is finite, so they are established by computation *)
Definition prefix_facts (R : N) : Prop :=
  forallb (fun c => negb (c =? ch_us)) (48 :: dec_string R) = true /\
  trim_start ch_zero (48 :: dec_string R) = dec_string R /\
  u32_from_str (dec_string R) = Some R.

Lemma prefix_facts_all : Forall prefix_facts (map N.of_nat (seq 2 35)).
Proof. repeat (constructor; [vm_compute; auto|]). constructor. Qed.

Lemma prefix_facts_range : forall R, 2 <= R -> R <= 36 -> prefix_facts R.
Proof.
  intros R H2 H36. pose proof prefix_facts_all as HA. rewrite Forall_forall in HA. apply HA.
  rewrite <- (N2Nat.id R). apply in_map. apply in_seq. lia.
Qed.

Section Number.
  Variable pf : str -> option binary64.

  (* what the parser does once the radix prefix is recognised *)
  Lemma radix_form_reduces : forall R d ds', 2 <= R -> R <= 36 ->
    parse_number_internal pf (spell_radix R ds') d =
    match i32_from_str_radix (strip_seps ds') R with
    | Some v => Ok (Int v)
    | None => if R =? 10 then match pf (strip_seps ds') with Some f => Ok (Flt f) | None => Err err_parse end
              else Err err_parse
    end.
  Proof.
    intros R d ds' H2 H36. destruct (prefix_facts_range R H2 H36) as [Hus [Htrim Hu32]].
    unfold parse_number_internal, spell_radix.
    change (48 :: dec_string R ++ 95 :: ds') with ((48 :: dec_string R) ++ ch_us :: ds').
    rewrite (split_at_first_app ch_us (48 :: dec_string R) ds' Hus).
    cbn [starts_with_char]. change (48 =? ch_zero) with true. cbv iota.
    rewrite Htrim, Hu32.
    replace ((R <? 2) || (36 <? R)) with false
      by (symmetry; apply orb_false_iff; split; apply N.ltb_ge; lia).
    cbn [bind]. rewrite remove_us_strip. reflexivity.
  Qed.

  Theorem radix_literal_value : forall R d ds', 2 <= R -> R <= 36 ->
    valid_digits R (strip_seps ds') = true ->
    radix_value R (strip_seps ds') <= i32_max_N ->
    parse_number_internal pf (spell_radix R ds') d = Ok (Int (Z.of_N (radix_value R (strip_seps ds')))).
  Proof.
    intros R d ds' H2 H36 Hv Hle. rewrite radix_form_reduces by assumption.
    rewrite (from_str_radix_valid R _ Hv Hle). reflexivity.
  Qed.

  Theorem radix_literal_overflow : forall R d ds', 2 <= R -> R <= 36 -> R <> 10 ->
    valid_digits R (strip_seps ds') = true ->
    i32_max_N < radix_value R (strip_seps ds') ->
    parse_number_internal pf (spell_radix R ds') d = Err err_parse.
  Proof.
    intros R d ds' H2 H36 H10 Hv Hgt. rewrite radix_form_reduces by assumption.
    rewrite (from_str_radix_overflow R _ Hv Hgt). apply N.eqb_neq in H10. rewrite H10. reflexivity.
  Qed.

  Theorem int_roundtrip : forall R n, 2 <= R -> R <= 36 -> n <= i32_max_N ->
    parse_simple_number pf (spell_int R n) = Ok (Int (Z.of_N n)).
  Proof.
    intros R n H2 H36 Hn. unfold parse_simple_number, spell_int.
    pose proof (radix_literal_value R 10 (digits_of R n) H2 H36) as H.
    rewrite (digits_of_strip R n H2 H36) in H. rewrite (digits_of_value R n H2 H36) in H.
    apply H; [apply digits_of_valid; assumption | exact Hn].
  Qed.

  (* plain decimal spelling, `_` separators anywhere after the first digit *)
  Lemma decimal_no_prefix : forall c t, (c =? ch_us) = false -> (c =? ch_zero) = false ->
    parse_number_internal pf (c :: t) 10 =
    match i32_from_str_radix (strip_seps (c :: t)) 10 with
    | Some v => Ok (Int v)
    | None => match pf (strip_seps (c :: t)) with Some f => Ok (Flt f) | None => Err err_parse end
    end.
  Proof.
    intros c t Hus Hz. unfold parse_number_internal.
    destruct (split_at_first ch_us (c :: t)) as [[part rest]|] eqn:E.
    - destruct (split_at_first_head ch_us c t part rest Hus E) as [a' ->].
      cbn [starts_with_char]. rewrite Hz. cbn [bind]. rewrite remove_us_strip. reflexivity.
    - cbn [bind]. rewrite remove_us_strip. reflexivity.
  Qed.

  Theorem decimal_roundtrip : forall n ds', 0 < n -> n <= i32_max_N ->
    strip_seps ds' = dec_string n -> starts_with_char ch_us ds' = false ->
    parse_simple_number pf ds' = Ok (Int (Z.of_N n)).
  Proof.
    intros n ds' H0 Hn Hs Hfirst. unfold parse_simple_number.
    assert (H2 : 2 <= 10) by lia. assert (H36 : 10 <= 36) by lia.
    destruct (digits_of_leading 10 n H2 H36 H0) as [c0 [t0 [Hd Hc0]]]. fold (dec_string n) in Hd.
    pose proof Hs as Hs'. rewrite Hd in Hs'.
    destruct ds' as [|c t].
    { discriminate Hs'. }
    cbn [starts_with_char] in Hfirst.
    assert (Hcz : (c =? ch_zero) = false).
    { unfold strip_seps in Hs'. cbn [filter] in Hs'. change 95 with ch_us in Hs'. rewrite Hfirst in Hs'. cbn [negb] in Hs'.
      inversion Hs'; subst. exact Hc0. }
    rewrite (decimal_no_prefix c t Hfirst Hcz). rewrite Hs.
    unfold dec_string. rewrite (from_str_radix_valid 10 (digits_of 10 n) (digits_of_valid 10 n H2 H36)).
    - rewrite digits_of_value by assumption. reflexivity.
    - rewrite digits_of_value by assumption. exact Hn.
  Qed.

  Theorem decimal_plain : forall n, n <= i32_max_N ->
    parse_simple_number pf (dec_string n) = Ok (Int (Z.of_N n)).
  Proof.
    intros n Hn. unfold parse_simple_number, parse_number_internal.
    assert (H2 : 2 <= 10) by lia. assert (H36 : 10 <= 36) by lia.
    pose proof (digits_of_valid 10 n H2 H36) as Hv.
    destruct (valid_digits_inv _ _ Hv) as [c [t [Heq [_ Hall]]]].
    rewrite (split_at_first_none ch_us (dec_string n)) by (apply (digits_no_us 10); unfold dec_string; rewrite Heq; rewrite <- Heq; exact Hall).
    cbn [bind]. rewrite remove_us_strip. unfold dec_string. rewrite (digits_of_strip 10 n H2 H36).
    rewrite (from_str_radix_valid 10 (digits_of 10 n) Hv).
    - rewrite digits_of_value by assumption. reflexivity.
    - rewrite digits_of_value by assumption. exact Hn.
  Qed.
End Number.
