(* pipeline driver: reads the harness lines  <case>\t<impl result>\ttoks=<i,i,...>
   and prints  <case>\t<model result>\t-   in the harness' format:
     P=<ERRn | OK:root:[def.sec.parent.left.right.tok;...]> B=<ERRn|PANIC|HANG|OK:entry:I[..]:J[..]:M[..]> *)
let rec nat_of_int (i : int) : nat = if i <= 0 then O else S (nat_of_int (i - 1))
let rec int_of_nat (n : nat) : int = match n with O -> 0 | S m -> 1 + int_of_nat m

let tt_table : token_type array = Array.of_list all_token_type

let opt_nat (o : nat option) : string = match o with None -> "-" | Some n -> string_of_int (int_of_nat n)

let show_node (off : int) (n : pnode) : string =
  Printf.sprintf "%d.%d.%s.%s.%s.%s"
    (int_of_n (definition_index n.n_def)) (int_of_n (secondary_index n.n_sec))
    (opt_nat n.n_parent) (opt_nat n.n_left) (opt_nat n.n_right)
    (match n.n_tok with None -> "e" | Some t -> string_of_int (int_of_nat t + off))

let show_operand (o : operand) : string =
  match o with
  | ONone -> "-"
  | ONum k -> "n" ^ string_of_int (int_of_nat k)
  | OData _ -> "d"
  | OExpr j -> "x" ^ string_of_int (int_of_nat j)

let show_err (c : n) : string = "ERR" ^ string_of_int (int_of_n c)

(* canonical text of a reference tree (Spec.Pratt.rtree) *)
let rec show_rtree (t : rtree) : string =
  let d x = string_of_int (int_of_n (definition_index x)) in
  let n x = string_of_int (int_of_nat x) in
  match t with
  | RAtom (x, tok) -> "A" ^ d x ^ "." ^ n tok
  | RPre (x, tok, a) -> "P" ^ d x ^ "." ^ n tok ^ "(" ^ show_rtree a ^ ")"
  | RSuf (x, tok, a) -> "S" ^ d x ^ "." ^ n tok ^ "(" ^ show_rtree a ^ ")"
  | RBin (x, tok, l, r) -> "B" ^ d x ^ "." ^ (match tok with None -> "-" | Some k -> n k) ^ "(" ^ show_rtree l ^ "," ^ show_rtree r ^ ")"
  | RGroup (b, tok, a) -> (match b with BRound -> "G" | BCurly -> "N") ^ n tok ^ "(" ^ show_rtree a ^ ")"

let () =
  iter_lines (fun line ->
    match split_on '\t' line with
    | case :: impl :: oracle :: _ ->
      if String.length oracle < 5 || String.sub oracle 0 5 <> "toks=" then
        Printf.printf "%s\t%s\t-\n" case impl   (* lexing failed or hung: nothing for this model to say *)
      else begin
        let body = String.sub oracle 5 (String.length oracle - 5) in
        let body = (match String.index_opt body ';' with Some k -> String.sub body 0 k | None -> body) in
        let idx = if body = "" then [] else List.map int_of_string (split_on ',' body) in
        let toks = List.map (fun i -> tt_table.(i)) idx in
        let off = int_of_nat (fst (trim_tokens toks)) in
        let p = parse toks in
        let p_str, b_str =
          (match p with
           | Err c -> show_err c, "-"
           | Panic _ -> "PANIC", "-"
           | OutOfFuel -> "HANG", "-"
           | Ok (root, nodes) ->
             let ps = Printf.sprintf "OK:%d:[%s]" (int_of_nat root)
                        (String.concat ";" (List.map (show_node off) nodes)) in
             let b = build nodes empty_init (fun _ -> true) (build_fuel nodes) root in
             let bs =
               (match b with
                | Err c -> show_err c
                | Panic _ -> "PANIC"
                | OutOfFuel -> "HANG"
                | Ok (s, entry) ->
                  Printf.sprintf "OK:%d:I[%s]:J[%s]:M[%s]" (int_of_nat entry)
                    (String.concat "," (List.map (fun (i, o) ->
                        string_of_int (int_of_n (instruction_index i)) ^ show_operand o) s.instrs))
                    (String.concat "," (List.map (fun j -> string_of_int (int_of_nat j)) s.jumps))
                    (String.concat "," (List.map opt_nat s.meta))) in
             ps, bs) in
        let spec = (match pratt toks with Some t -> "tree=" ^ show_rtree t | None -> "-") in
        Printf.printf "%s\tL=ok P=%s B=%s\t%s\n" case p_str b_str spec
      end
    | _ -> failwith ("bad line " ^ line))
