(* C07  Executing a built program never panics the host.
   Only statements, [exact] and [Print Assumptions] live here.

   The full statement -- one step of execute_current_instruction from any state
   satisfying the global store invariant is Ok or Err and re-establishes the
   invariant, hence no run panics -- stays visible as [C07_full_statement]; it is
   NOT proved for a model of the whole runtime.  What is proved: (1) the statement
   follows from its one-step premise for any machine ([C07_run_from_step]);
   (2) per component, for ALL operand values, that the index / length arithmetic and
   slicing at every inventoried panic site reachable from execution cannot reach its
   Panic point, each under the part of the store invariant it names; (3) that every
   site the inventory (regenerated from /repo on every run) classifies as modelled
   cites one of these theorems, and that no site is unclassified. *)
From Coq Require Import ZArith NArith List String Bool.
From Flocq Require Import IEEE754.Binary IEEE754.Bits.
From GV Require Import Base.Result Model.Num Model.RuntimeIndex Gen.PanicSites
  Proofs.C07.Arith Proofs.C07.Runtime Proofs.C07.Simple Proofs.C07.Basic Proofs.C07.Depth Proofs.C07.Run
  Proofs.C07.Regress Proofs.C07.Coverage.
From GV Require Model.StoreBase Model.BasicStore Model.StoreOps Proofs.C15.Layout Proofs.C15.Stable Proofs.C15.History Proofs.C07.TextInv.
From GV Require Import Proofs.C07.Reachable.
Import ListNotations.
Local Open Scope N_scope.

Definition C07_full_statement (state : Type) (step : state -> res state) (Inv : state -> Prop) : Prop :=
  (forall s, Inv s -> no_panic (step s) /\ (forall s', step s = Ok s' -> Inv s')) /\
  (forall n s, Inv s -> no_panic (run state step n s)).

Theorem C07_run_from_step : forall state step Inv,
  step_safe state step Inv -> C07_full_statement state step Inv.
Proof. exact run_from_step. Qed.
Print Assumptions C07_run_from_step.

(* ---- numbers: every GarnishNumber operation, every operand pair *)
Theorem C07_num_ops_no_panic : forall powf o l r, num_binop_res powf o l r = Ok (num_binop powf o l r).
Proof. exact num_ops_no_panic. Qed.
Print Assumptions C07_num_ops_no_panic.

Theorem C07_usize_of_num : forall x,
  (match x with Int v => in_i32 v = true | Flt _ => True end) -> usize_of_num x <= usize_max.
Proof. exact usize_of_num_no_panic. Qed.
Print Assumptions C07_usize_of_num.

(* ---- runtime crate *)
Theorem C07_equality_start : forall register_len, no_panic (equality_start register_len).
Proof. exact equality_start_no_panic. Qed.
Print Assumptions C07_equality_start.

Theorem C07_make_list_start : forall len register_len, no_panic (make_list_start len register_len).
Proof. exact make_list_start_no_panic. Qed.
Print Assumptions C07_make_list_start.

Theorem C07_index_list : forall i k len idx, no_panic (index_container i k len idx).
Proof. exact index_list_no_panic. Qed.
Print Assumptions C07_index_list.

Theorem C07_item_getters : forall i k len idx, no_panic (get_item i k len idx).
Proof. exact get_item_no_panic. Qed.
Print Assumptions C07_item_getters.

Theorem C07_access_range : forall s e idx, no_panic (access_range s e idx).
Proof. exact access_range_no_panic. Qed.
Print Assumptions C07_access_range.

Theorem C07_make_range : forall sx ex a b, no_panic (make_range_bounds sx ex a b).
Proof. exact make_range_no_panic. Qed.
Print Assumptions C07_make_range.

Theorem C07_cast_index : forall i fuel s e, no_panic (range_to_list i fuel s e).
Proof. exact cast_index_no_panic. Qed.
Print Assumptions C07_cast_index.

Theorem C07_concat_list_item : forall i len pos,
  len < 2147483648 -> pos < len -> list_item_in_range i len pos = Ok pos.
Proof. exact list_item_in_range_some. Qed.
Print Assumptions C07_concat_list_item.

(* ---- SimpleGarnishData *)
Theorem C07_simple_assoc_probe : forall sym assoc_len, no_panic (simple_assoc_probe_start sym assoc_len).
Proof. exact simple_assoc_probe_no_panic. Qed.
Print Assumptions C07_simple_assoc_probe.

Theorem C07_simple_end_list : forall assocs, no_panic (simple_end_list assocs).
Proof. exact simple_end_list_no_panic. Qed.
Print Assumptions C07_simple_end_list.

Theorem C07_simple_concat_slice_window : forall s e,
  in_i32 s = true -> in_i32 e = true -> no_panic (simple_concat_slice_window s e).
Proof. exact simple_concat_slice_window_no_panic. Qed.
Print Assumptions C07_simple_concat_slice_window.

Theorem C07_iterators : forall a b,
  (no_panic (size_iter_next a b) /\ no_panic (size_iter_next_back a b)) /\ no_panic (vec_iter_next a b).
Proof. exact iterators_no_panic. Qed.
Print Assumptions C07_iterators.

(* ---- BasicGarnishData, under the block layout / run invariants *)
Theorem C07_extents : forall heap_len d i len es ee,
  block_ok heap_len d -> run_ok d i len -> no_panic (basic_iter_slice heap_len d i len es ee).
Proof. exact extents_no_panic. Qed.
Print Assumptions C07_extents.

Theorem C07_concat_iter : forall items_len es ee, no_panic (concat_iter_window items_len es ee).
Proof. exact concat_iter_no_panic. Qed.
Print Assumptions C07_concat_iter.

Theorem C07_block_get : forall heap_len b index, block_ok heap_len b -> no_panic (block_get heap_len b index).
Proof. exact block_get_no_panic. Qed.
Print Assumptions C07_block_get.

Theorem C07_block_push : forall heap_len b,
  block_ok heap_len b -> b_cursor b < b_size b ->
  exists b', block_push heap_len b = Ok b' /\ block_ok heap_len b'.
Proof. exact block_push_no_panic. Qed.
Print Assumptions C07_block_push.

Theorem C07_realloc_copy : forall n new_len new_start new_size old_len old,
  block_ok old_len old -> N.of_nat n <= b_cursor old ->
  b_cursor old <= new_size -> new_start + new_size <= new_len ->
  realloc_copy n new_len new_start old_len (b_start old) = Ok tt.
Proof. exact realloc_copy_no_panic. Qed.
Print Assumptions C07_realloc_copy.

Theorem C07_block_slices : forall heap_len d i len n,
  block_ok heap_len d ->
  no_panic (block_prefix_slice heap_len d) /\
  (run_ok d i n -> no_panic (data_run_slice heap_len d i n) /\ no_panic (bytes_conv_slice heap_len i n)) /\
  (run_ok d i (2 * len) -> no_panic (basic_end_list_slice heap_len d i len) /\
                           (n <= len -> no_panic (basic_assoc_slice heap_len d i len n))).
Proof. exact block_slices_no_panic. Qed.
Print Assumptions C07_block_slices.

Theorem C07_pop_frame : forall frame, 1 <= frame -> no_panic (pop_frame_index frame).
Proof. exact pop_frame_no_panic. Qed.
Print Assumptions C07_pop_frame.

Theorem C07_bsearch : forall len greater, no_panic (bsearch len greater) /\ terminates (bsearch len greater).
Proof. exact bsearch_no_panic. Qed.
Print Assumptions C07_bsearch.

Theorem C07_bytes_to_i32 : forall len, no_panic (bytes_to_i32_index len).
Proof. exact bytes_to_i32_no_panic. Qed.
Print Assumptions C07_bytes_to_i32.

Theorem C07_conversion_depth : forall max t, (render_depth max 0 t <= max)%nat.
Proof. exact conversion_depth_bounded. Qed.
Print Assumptions C07_conversion_depth.

(* ---- BasicGarnishData, for every REACHABLE store: the hypotheses above discharged from the invariant C15
   proves for Model/BasicStore.v (fresh store with progressing growth settings, then any history of the C15
   operation vocabulary).  [view s b] / [hlen s] are the RuntimeIndex description of block b / the heap of s
   (Proofs/C07/Reachable.v).  The theorems about text runs and association counts use the strengthened
   invariant of Proofs/C07/TextInv.v and histories whose text operations write the character count as header
   ([reachable_wf]; what /repo does since 626dd96). *)
Theorem C07_every_history_reaches : forall si sj ss se sd sc,
  History.progressing si -> History.progressing sj -> History.progressing ss ->
  History.progressing se -> History.progressing sd -> History.progressing sc ->
  forall ops, exists s, reachable s /\ exists s0 rs,
    BasicStore.new_with_settings si sj ss se sd sc = Ok (s0, StoreBase.Done tt) /\ StoreOps.run StoreOps.bstep ops s0 = Ok (s, rs).
Proof. exact every_history_reaches. Qed.
Print Assumptions C07_every_history_reaches.

Theorem C07_block_get_reachable : forall s b index, reachable s -> no_panic (block_get (hlen s) (view s b) index).
Proof. exact block_get_reachable. Qed.
Print Assumptions C07_block_get_reachable.

Theorem C07_block_prefix_slice_reachable : forall s b, reachable s -> no_panic (block_prefix_slice (hlen s) (view s b)).
Proof. exact block_prefix_slice_reachable. Qed.
Print Assumptions C07_block_prefix_slice_reachable.

Theorem C07_block_push_reachable : forall s b, reachable s ->
  exists s1, BasicStore.grow_if_full b s = Ok (s1, StoreBase.Done tt) /\ Layout.Inv s1 /\
    exists b', block_push (hlen s1) (view s1 b) = Ok b' /\ block_ok (hlen s1) b'.
Proof. exact block_push_reachable. Qed.
Print Assumptions C07_block_push_reachable.

Theorem C07_realloc_copy_reachable : forall s new b, reachable s -> (forall b', (Layout.cur s b' <= new b')%nat) ->
  realloc_copy (Layout.cur s b) (N.of_nat (BasicStore.total_size new)) (N.of_nat (Layout.offset new b)) (hlen s)
               (b_start (view s b)) = Ok tt.
Proof. exact realloc_copy_reachable. Qed.
Print Assumptions C07_realloc_copy_reachable.

Theorem C07_extents_list_reachable : forall s p len ac es ee, reachable s ->
  nth_error (Stable.data s) p = Some (BasicStore.CList len ac) ->
  no_panic (basic_iter_slice (hlen s) (view s BasicStore.BData) (N.of_nat p) (N.of_nat len) es ee).
Proof. exact extents_list_reachable. Qed.
Print Assumptions C07_extents_list_reachable.

Theorem C07_end_list_slice_reachable : forall s p len count, reachable s ->
  nth_error (Stable.data s) p = Some (BasicStore.CUninitializedList len count) ->
  no_panic (basic_end_list_slice (hlen s) (view s BasicStore.BData) (N.of_nat p) (N.of_nat len)).
Proof. exact end_list_slice_reachable. Qed.
Print Assumptions C07_end_list_slice_reachable.

Theorem C07_pop_frame_reachable : forall s i, reachable s -> BasicStore.cur_frame s = Some i ->
  no_panic (pop_frame_index (N.of_nat i)).
Proof. exact pop_frame_reachable. Qed.
Print Assumptions C07_pop_frame_reachable.

Theorem C07_every_wf_history_reaches : forall si sj ss se sd sc,
  History.progressing si -> History.progressing sj -> History.progressing ss ->
  History.progressing se -> History.progressing sd -> History.progressing sc ->
  forall ops, Forall TextInv.wf_op ops -> exists s, reachable_wf s /\ exists s0 rs,
    BasicStore.new_with_settings si sj ss se sd sc = Ok (s0, StoreBase.Done tt) /\ StoreOps.run StoreOps.bstep ops s0 = Ok (s, rs).
Proof. exact every_wf_history_reaches. Qed.
Print Assumptions C07_every_wf_history_reaches.

Theorem C07_extents_text_reachable : forall s p c n es ee, reachable_wf s ->
  nth_error (Stable.data s) p = Some c -> text_header c n ->
  no_panic (basic_iter_slice (hlen s) (view s BasicStore.BData) (N.of_nat p) (N.of_nat n) es ee).
Proof. exact extents_text_reachable. Qed.
Print Assumptions C07_extents_text_reachable.

Theorem C07_text_slices_reachable : forall s p c n, reachable_wf s ->
  nth_error (Stable.data s) p = Some c -> text_header c n ->
  no_panic (data_run_slice (hlen s) (view s BasicStore.BData) (N.of_nat p) (N.of_nat n)) /\
  no_panic (bytes_conv_slice (hlen s) (N.of_nat p) (N.of_nat n)).
Proof. exact text_slices_reachable. Qed.
Print Assumptions C07_text_slices_reachable.

Theorem C07_text_cells_reachable : forall s p n, reachable_wf s ->
  (nth_error (Stable.data s) p = Some (BasicStore.CCharList n) ->
     forall k, (1 <= k <= n)%nat -> exists x, nth_error (Stable.data s) (p + k) = Some (BasicStore.CChar x)) /\
  (nth_error (Stable.data s) p = Some (BasicStore.CByteList n) ->
     forall k, (1 <= k <= n)%nat -> exists x, nth_error (Stable.data s) (p + k) = Some (BasicStore.CByte x)).
Proof. exact text_cells_reachable. Qed.
Print Assumptions C07_text_cells_reachable.

Theorem C07_assoc_slice_reachable : forall s p len ac, reachable_wf s ->
  nth_error (Stable.data s) p = Some (BasicStore.CList len ac) ->
  no_panic (basic_assoc_slice (hlen s) (view s BasicStore.BData) (N.of_nat p) (N.of_nat len) (N.of_nat ac)).
Proof. exact assoc_slice_reachable. Qed.
Print Assumptions C07_assoc_slice_reachable.

(* the strengthened invariant is preserved by every operation (what the four theorems above rest on) *)
Theorem C07_text_invariant_step : forall o s s' r, Stable.G s -> TextInv.X (Stable.data s) -> TextInv.wf_op o ->
  StoreOps.bstep o s = Ok (s', r) -> TextInv.X (Stable.data s').
Proof. exact TextInv.step_X. Qed.
Print Assumptions C07_text_invariant_step.

(* the side condition on histories is necessary: with a header that announces more characters than were pushed
   (C15's model allows it; /repo did it for multi-byte text before 626dd96) a reachable store violates the invariant *)
Theorem C07_text_invariant_needs_wf : exists s, reachable s /\ ~ TextInv.X (Stable.data s).
Proof. exact text_invariant_needs_wf. Qed.
Print Assumptions C07_text_invariant_needs_wf.

(* ---- the inventory tie *)
Theorem C07_sites_covered : forall id lemma, In (id, lemma) modelled_site_lemmas -> In lemma proved.
Proof. exact every_modelled_site_has_a_lemma. Qed.
Print Assumptions C07_sites_covered.

Theorem C07_no_unmapped_site : unmapped_sites = [].
Proof. exact no_unmapped_sites. Qed.
Print Assumptions C07_no_unmapped_site.

(* ---- regression witnesses: the code before each fix: commit did reach its Panic point *)
Theorem C07_fixed_defects_refuted :
  (exists a b, range_list_len_v0 a b = Panic site_range_list_len_v0) /\
  (exists len, basic_start_list_alloc_v0 len = Panic site_start_list_mul_v0 /\ basic_start_list_alloc len = Err 4) /\
  (exists heap_len d i len es ee, block_ok heap_len d /\ run_ok d i len /\
      basic_iter_slice_v0 heap_len d i len es ee = Panic site_iter_slice /\
      no_panic (basic_iter_slice heap_len d i len es ee)) /\
  concat_iter_window_v0 3 (Int 2) (Int 0) = Panic site_concat_iter /\
  simple_concat_slice_window_v0 3 2 = Panic site_concat_window /\
  raw_shift_v0 true (Int 1) (Int 32) = Panic site_num_prim.
Proof. exact fixed_defects_refuted. Qed.
Print Assumptions C07_fixed_defects_refuted.

(* ---- non-vacuity: the hypotheses are met by concrete states and the interesting branches are taken *)
Example C07_ex_extents :
  let d := {| b_start := 40; b_cursor := 20; b_size := 30 |} in
  block_ok 100 d /\ run_ok d 3 5 /\
  basic_iter_slice 100 d 3 5 (Int 3) (Int 1) = Ok (47, 47) /\          (* reversed extents: empty *)
  basic_iter_slice 100 d 3 5 (Int (-7)) (Int 2147483647) = Ok (44, 49) /\ (* clamped to the run *)
  block_get 100 d 19 = Ok 59 /\ block_get 100 d 20 = Err 7.
Proof. cbv zeta. repeat split; try (vm_compute; intros; discriminate); vm_compute; reflexivity. Qed.

Example C07_ex_machine :
  C07_full_statement N toy_step (fun _ => True) /\ run N toy_step 2 3 = Ok 1 /\ run N toy_step 3 3 = Err 1.
Proof. exact toy_run_example. Qed.

Example C07_ex_reachable : Forall TextInv.wf_op ex_history7 /\ ex_history7_statement.
Proof. exact ex_history7_runs. Qed.

Example C07_ex_boundaries : forall powf,
  num_binop_res powf OpDiv (Int i32_min) (Int (-1)) = Ok None /\
  num_binop_res powf OpRem (Int 5) (Int 0) = Ok None /\
  num_binop_res powf OpShl (Int 1) (Int 32) = Ok None /\
  equality_start 1 = Err 1 /\ equality_start 2 = Ok 0 /\
  make_list_start 3 2 = Err 1 /\
  get_item Simple KList 3 (Int (-1)) = Ok None /\
  get_item Basic KList 3 (Int 5) = Err 3 /\
  get_item Basic KChars 3 (Int (-1)) = Ok (Some 0) /\
  simple_end_list [5; 9; 13] = Ok [9; 13; 5] /\
  bsearch 5 (fun m => 2 <? m) = Ok (Some 2) /\
  range_to_list Basic 10 (Int 3) (Int 1) = Ok [] /\
  range_to_list Basic 10 (Int 1) (Int 3) = Ok [Int 1; Int 2; Int 3].
Proof. intros powf. vm_compute. repeat split; reflexivity. Qed.
