(* (d) the whole program: [Compile.compile] on the parser's tree of the printed
   tokens is [compile_prog], after conversion of the data operands. *)
From Coq Require Import ZArith NArith List Bool Arith Lia.
From GV Require Import Base.Result Base.Host Gen.TokenTypes Gen.Defs Gen.Instr Model.Num Model.Value
  Model.Parser Model.BuilderWL Model.Machine Model.Compile Model.CompileExpr Model.CompileWL
  Spec.RefTable Spec.Pratt Spec.Chains Spec.Ast Spec.Printer Spec.Eval Spec.Fragment
  Proofs.C02.Denote Proofs.C05.InlBase Proofs.Builder.PrattBridge Proofs.C01.Sizes
  Proofs.C01.EndToEnd.PrintItems Proofs.C01.EndToEnd.PrintClimb Proofs.C01.EndToEnd.CompileBase
  Proofs.C01.EndToEnd.CompileSim Proofs.C01.EndToEnd.CompileMain.
Import ListNotations.

Lemma size_img : forall e off t, rep e off t -> Compile.size (img t) = Ast.size e.
Proof.
  induction e; intros off t R; cbn [rep] in R; try contradiction.
  - destruct t; try contradiction. reflexivity.
  - destruct t; try contradiction. reflexivity.
  - destruct t; try contradiction. reflexivity.
  - destruct (is_prefix o); destruct t; try contradiction; destruct R as (_ & _ & R);
      cbn [img Compile.size Ast.size]; rewrite (IHe _ _ R); lia.
  - destruct t; try contradiction. destruct R as (_ & _ & R1 & R2). cbn [img Compile.size Ast.size].
    rewrite (IHe1 _ _ R1), (IHe2 _ _ R2). reflexivity.
  - destruct t; try contradiction. destruct R as (_ & _ & R1 & R2). cbn [img Compile.size Ast.size].
    rewrite (IHe1 _ _ R1), (IHe2 _ _ R2). reflexivity.
  - destruct t; try contradiction. destruct R as (_ & _ & R1 & R2). cbn [img Compile.size Ast.size].
    rewrite (IHe1 _ _ R1), (IHe2 _ _ R2). reflexivity.
  - destruct k; destruct t; try contradiction; destruct R as (_ & _ & R1 & R2); cbn [img Compile.size Ast.size];
      rewrite (IHe1 _ _ R1), (IHe2 _ _ R2); reflexivity.
  - destruct t as [| | | |b ? ? t]; try contradiction. destruct b; try contradiction.
    destruct R as (_ & R). cbn [img Compile.size Ast.size]. rewrite (IHe _ _ R). lia.
  - destruct t; try contradiction. destruct R as (_ & _ & R1 & R2). cbn [img Compile.size Ast.size].
    rewrite (IHe1 _ _ R1), (IHe2 _ _ R2). reflexivity.
  - destruct t; try contradiction. destruct R as (_ & _ & R1 & R2). cbn [img Compile.size Ast.size].
    rewrite (IHe1 _ _ R1), (IHe2 _ _ R2). reflexivity.
Qed.

(* no inline instruction of the fragment is EndExpression *)
Definition ne (mi : minstr) : Prop := fst mi <> I_EndExpression.

Lemma no_end_inl sym_hash : forall e, efrag 3 e = true ->
  forall ic cont lk pc j aob ajb ob jb jj, Forall ne (c_inl (compC sym_hash ic cont lk e pc j aob ajb ob jb jj)).
Proof.
  induction e; intros F ic cont lk pc j aob ajb ob jb jj; try discriminate F; cbn [efrag] in F;
    repeat (apply andb_true_iff in F; let G := fresh "G" in destruct F as [F G]); cbn [compC].
  - constructor; [cbn; discriminate|constructor].
  - constructor; [cbn; discriminate|constructor].
  - constructor; [cbn; discriminate|constructor].
  - cbn [of_frag to_frag c_inl f_inl]. apply Forall_app. split; [apply IHe; exact F|].
    constructor; [destruct o; cbn; discriminate|constructor].
  - destruct (right_first o); cbn [of_frag to_frag c_inl f_inl]; repeat (apply Forall_app; split);
      try (apply IHe1; assumption); try (apply IHe2; assumption);
      (constructor; [destruct o; cbn; discriminate|constructor]).
  - cbn [of_frag to_frag c_inl f_inl]. apply Forall_app. split; [apply IHe1; assumption|].
    constructor; [cbn; discriminate|constructor].
  - cbn [of_frag to_frag c_inl f_inl]. apply Forall_app. split; [apply IHe1; assumption|].
    constructor; [cbn; discriminate|constructor].
  - cbn [of_frag to_frag c_inl f_inl]. repeat (apply Forall_app; split);
      try (apply IHe1; assumption); try (apply IHe2; assumption).
    destruct (in_list lk k); [constructor|]. constructor; [cbn; discriminate|constructor].
  - cbn [of_frag to_frag c_inl f_inl]. apply IHe; exact F.
  - destruct ic; cbn [of_frag to_frag c_inl f_inl]; (apply Forall_app; split; [apply IHe1; assumption|]).
    + constructor; [destruct neg; cbn; discriminate|constructor].
    + constructor; [destruct neg; cbn; discriminate|]. constructor; [cbn; discriminate|constructor].
  - destruct ic; cbn [of_frag to_frag c_inl f_inl]; (apply Forall_app; split; [apply IHe1; assumption|apply IHe2; assumption]).
Qed.

Section Prog.
Variable sym_hash : list N -> N.

Lemma conv_fst toks ns : forall a x, convert sym_hash toks ns a = Ok x -> map fst x = map fst a.
Proof.
  induction a as [|[i o] a IH]; intros x Ha.
  - injection Ha as <-. reflexivity.
  - cbn [convert] in Ha. destruct (match o with ONone => Ok MNone | ONum n => Ok (MNum n)
      | OData ni => do v <- operand_value sym_hash toks ns ni; Ok (MVal v) | OExpr j => Ok (MVal (VExpr (N.of_nat j))) end) as [m| | |];
      try discriminate Ha. cbn [bind] in Ha.
    destruct (convert sym_hash toks ns a) as [r| | |]; try discriminate Ha. cbn [bind] in Ha. injection Ha as <-.
    cbn [map fst]. rewrite (IH r eq_refl). reflexivity.
Qed.

(* the closing EndExpression of the program is always emitted *)
Lemma finish_program toks ns s code ms js mcode :
  cci s = [] -> convert sym_hash toks ns code = Ok mcode -> Forall ne mcode ->
  Compile.finish empty_init (sx s code ms js) default_end = sx s (code ++ [(I_EndExpression, ONone)]) (ms ++ [None]) js.
Proof.
  intros Hs Hc Hn. unfold Compile.finish, default_end. cbn [fold_left].
  assert (Hlast : match last_instr empty_init (sx s code ms js) with
                  | Some li => instruction_eqb (fst li) I_EndExpression = false
                  | None => True end).
  { unfold last_instr, sx. cbn [Compile.ci]. rewrite Hs. cbn [app].
    destruct (rev code) as [|li r] eqn:Er; [exact I|].
    assert (Hin : In li code) by (apply in_rev; rewrite Er; left; reflexivity).
    assert (Hf : In (fst li) (map fst mcode)) by (rewrite (conv_fst _ _ _ _ Hc); apply in_map; exact Hin).
    apply in_map_iff in Hf. destruct Hf as (mi & E & Hmi). rewrite Forall_forall in Hn. specialize (Hn mi Hmi).
    unfold ne in Hn. rewrite E in Hn. destruct (fst li); try reflexivity. contradiction. }
  destruct (last_instr empty_init (sx s code ms js)) as [li|].
  - unfold instr_eqb. cbn [fst]. rewrite Hlast. cbn [andb]. rewrite emit_sx. reflexivity.
  - rewrite emit_sx. reflexivity.
Qed.

Theorem compile_printed e Tn ns :
  efrag 3 e = true -> paren_ok e = true -> rep e 0 Tn -> denotes ns None Tn ->
  exists c0,
    Compile.compile empty_init lit_all (img Tn) = Ok (c0, 0) /\
    convert sym_hash (aprint e) ns (cci c0) = Ok (code (compile_prog sym_hash e)) /\
    ccj c0 = jt (compile_prog sym_hash e).
Proof.
  intros F P R D.
  assert (A : at_off (aprint e) 0 e) by (exists [], []; rewrite app_nil_r; split; reflexivity).
  destruct (sim_all sym_hash (aprint e) ns 0 e F P Tn 0 R (ex_intro _ None D) A) as [Hs _].
  set (sz0 := sizes None e).
  set (s1 := mkC [] [] [0]).
  destruct (Hs 0 None false s1 (si sz0 + 1) (1 + sji sz0) (fun _ => eq_refl)) as (code & ms & ji0 & ps & I1 & C1 & L1 & B1).
  change (il0 s1) with 0 in *. change (jl0 s1) with 1 in *.
  set (Fp := comp sym_hash 0 None e 0 1 (si sz0 + 1) (1 + sji sz0)) in *.
  destruct (comp_sizes sym_hash e 0 None 0 1 (si sz0 + 1) (1 + sji sz0)) as (Si & So & Sj & Sjo). fold Fp sz0 in Si, So, Sj, Sjo.
  assert (Hn : Forall ne (f_inl Fp)).
  { unfold Fp, CompileExpr.comp. cbn [to_frag f_inl]. apply no_end_inl. exact F. }
  pose proof (finish_program (aprint e) ns s1 code ms ji0 (f_inl Fp) eq_refl C1 Hn) as Hfin.
  set (s3 := sx s1 (code ++ [(I_EndExpression, ONone)]) (ms ++ [None]) ji0) in *.
  destruct (B1 (Compile.size (img Tn)) s3 [0] []) as (code' & ms' & Hr & Hc').
  - rewrite (size_img _ _ _ R). lia.
  - unfold s3, s1, sx. cbn. rewrite app_nil_r. reflexivity.
  - reflexivity.
  - unfold s3. rewrite il0_sx, app_length, <- (conv_length _ _ _ _ _ C1), Si. cbn. lia.
  - unfold s3. rewrite jl0_sx, L1, Sj. reflexivity.
  - eexists. split; [|split].
    + unfold Compile.compile. change (new_jump (mkC [] [] []) (il empty_init (mkC [] [] []))) with s1.
      change (Compile.plain (i_jump_len empty_init)) with (mkCx 0 (option_map kdef None) false).
      cbn [i_jump_len empty_init]. rewrite I1. cbn [bind]. cbv beta iota. rewrite Hfin.
      fold (run_all (Compile.size (img Tn)) ps s3). rewrite Hr. cbn [bind]. reflexivity.
    + cbn [Compile.ci]. unfold s3, s1, sx. cbn [Compile.ci app]. unfold compile_prog. cbn [Machine.code]. fold sz0 Fp.
      rewrite <- app_assoc. apply conv_app; [exact C1|]. apply conv_app; [reflexivity|exact Hc'].
    + cbn [Compile.cj]. unfold compile_prog. cbn [Machine.jt]. fold sz0 Fp. reflexivity.
Qed.

End Prog.
