(* (d) spine insertion = precedence climbing.  The classical equivalence of the
   operator-precedence stack algorithm (Spec.Chains.spine_run) with the recursive
   precedence-climbing reference (Spec.Pratt.climb): the open frames of the stack are
   the pending recursive calls of [climb] (an open bracket is the call of the IOpen case).
   Proved for every item list over values, prefix, suffix and binary operators and
   brackets (no length or depth bound). *)
From Coq Require Import List Arith Bool NArith Lia.
From GV Require Import Base.Result Gen.TokenTypes Gen.Defs Model.Parser Spec.RefTable Spec.Pratt Spec.Chains.
Import ListNotations.

(* big-step reading of [climb] *)
Inductive Climb : N -> option rtree -> list item -> rtree -> list item -> Prop :=
| C_val q d i r t r' :
    Climb q (Some (RAtom d i)) r t r' -> Climb q None (IValue d i :: r) t r'
| C_pre q d i r p arg r' t r'' :
    ref_rank d = Some p -> Climb p None r arg r' -> Climb q (Some (RPre d i arg)) r' t r'' ->
    Climb q None (IPrefix d i :: r) t r''
| C_bin_in q lhs d i r p rhs r' t r'' :
    inside d q = true -> ref_rank d = Some p -> Climb p None r rhs r' ->
    Climb q (Some (RBin d i lhs rhs)) r' t r'' ->
    Climb q (Some lhs) (IBinary d i :: r) t r''
| C_bin_out q lhs d i r :
    inside d q = false -> Climb q (Some lhs) (IBinary d i :: r) lhs (IBinary d i :: r)
| C_suf_in q lhs d i r t r' :
    inside d q = true -> Climb q (Some (RSuf d i lhs)) r t r' ->
    Climb q (Some lhs) (ISuffix d i :: r) t r'
| C_suf_out q lhs d i r :
    inside d q = false -> Climb q (Some lhs) (ISuffix d i :: r) lhs (ISuffix d i :: r)
| C_open q b i r inner k r' t r'' :
    Climb (blimit b) None r inner (IClose b k :: r') -> Climb q (Some (RGroup b i inner)) r' t r'' ->
    Climb q None (IOpen b i :: r) t r''
| C_close q lhs b k r : Climb q (Some lhs) (IClose b k :: r) lhs (IClose b k :: r)
| C_end q lhs : Climb q (Some lhs) [] lhs [].

Lemma Climb_sound q acc its t r :
  Climb q acc its t r ->
  length r <= length its /\ forall f, length its < f -> climb f q acc its = Some (t, r).
Proof.
  induction 1 as [q d i r t r' H IH
                 |q d i r p arg r' t r'' Hp H1 IH1 H2 IH2
                 |q lhs d i r p rhs r' t r'' Hin Hp H1 IH1 H2 IH2
                 |q lhs d i r Hout
                 |q lhs d i r t r' Hin H IH
                 |q lhs d i r Hout
                 |q b i r inner k r' t r'' H1 IH1 H2 IH2
                 |q lhs b k r
                 |q lhs].
  - destruct IH as [L F]. split; [simpl; lia|]. intros f Hf. destruct f as [|f]; [simpl in Hf; lia|].
    simpl. apply F. simpl in Hf. lia.
  - destruct IH1 as [L1 F1]. destruct IH2 as [L2 F2]. split; [simpl; lia|].
    intros f Hf. destruct f as [|f]; [simpl in Hf; lia|]. simpl in Hf.
    simpl. rewrite Hp. rewrite F1 by lia. apply F2. lia.
  - destruct IH1 as [L1 F1]. destruct IH2 as [L2 F2]. split; [simpl; lia|].
    intros f Hf. destruct f as [|f]; [simpl in Hf; lia|]. simpl in Hf.
    simpl. rewrite Hin, Hp. rewrite F1 by lia. apply F2. lia.
  - split; [lia|]. intros f Hf. destruct f as [|f]; [simpl in Hf; lia|]. simpl. rewrite Hout. reflexivity.
  - destruct IH as [L F]. split; [simpl; lia|]. intros f Hf. destruct f as [|f]; [simpl in Hf; lia|].
    simpl in Hf. simpl. rewrite Hin. apply F. lia.
  - split; [lia|]. intros f Hf. destruct f as [|f]; [simpl in Hf; lia|]. simpl. rewrite Hout. reflexivity.
  - destruct IH1 as [L1 F1]. destruct IH2 as [L2 F2]. simpl in L1. split; [simpl; lia|].
    intros f Hf. destruct f as [|f]; [simpl in Hf; lia|]. simpl in Hf.
    simpl. rewrite F1 by lia. destruct b; simpl; apply F2; lia.
  - split; [lia|]. intros f Hf. destruct f as [|f]; [simpl in Hf; lia|]. reflexivity.
  - split; [lia|]. intros f Hf. destruct f as [|f]; [simpl in Hf; lia|]. reflexivity.
Qed.

(* the pending calls: one per open frame, the outermost with the limit INF; an open
   bracket is the call [climb INF None] of the IOpen case, which must end at a closing
   bracket *)
Definition flimit (f : frame) : option N :=
  match f with FGroup b _ _ => Some (blimit b) | _ => ref_rank (frame_def f) end.

Definition frame_ranked (f : frame) : Prop := exists p, flimit f = Some p.

Definition rplug (f : frame) (t : rtree) : rtree :=
  match f with
  | FBin _ d k l => RBin d k (erase l) t
  | FPre _ d k => RPre d k t
  | FGroup b _ k => RGroup b k t
  end.

Lemma erase_plug f t : erase (plug f t) = rplug f (erase t).
Proof. destruct f; reflexivity. Qed.

(* what the caller of a returned call consumes before it goes on *)
Definition after_frame (f : frame) (its' its'' : list item) : Prop :=
  match f with
  | FGroup b _ _ => exists kc, its' = IClose b kc :: its''
  | _ => its'' = its'
  end.

Fixpoint Unwind (fs : list frame) (acc : option rtree) (its : list item) (T : rtree) : Prop :=
  match fs with
  | [] => Climb INF acc its T []
  | f :: r =>
    exists p rhs its' its'', flimit f = Some p /\ Climb p acc its rhs its' /\ after_frame f its' its'' /\
                             Unwind r (Some (rplug f rhs)) its'' T
  end.

(* every operator of the list has a rank below the outermost limit *)
Definition item_ranked (it : item) : Prop :=
  match it with
  | IPrefix d _ | ISuffix d _ => exists p, ref_rank d = Some p /\ (p < ROUND_LIMIT)%N
  | IBinary d _ => exists p, ref_rank d = Some p /\ (p < INF)%N /\ (is_sep_def d = false -> (p < ROUND_LIMIT)%N)
  | IValue d _ => norm_atom d = d
  | _ => True
  end.

Lemma norm_atom_store d fs : norm_atom d = d -> norm_atom (atom_store d fs) = d.
Proof.
  intros H. unfold atom_store. destruct (definition_eqb d D_Identifier) eqn:E; [|exact H].
  assert (d = D_Identifier).
  { unfold definition_eqb in E. apply N.eqb_eq in E. destruct d; try reflexivity; vm_compute in E; discriminate E. }
  subst d. destruct fs as [|f r]; [reflexivity|]. destruct (definition_eqb (frame_def f) D_Access); reflexivity.
Qed.

Lemma inside_INF d p : ref_rank d = Some p -> (p < INF)%N -> inside d INF = true.
Proof. intros H L. unfold inside. rewrite H. apply N.ltb_lt in L. rewrite L. reflexivity. Qed.

(* the limit of the innermost pending call *)
Definition limit (fs : list frame) (q : N) : Prop :=
  match fs with
  | [] => q = INF
  | f :: _ => flimit f = Some q
  end.

(* replacing the head call of the pending calls *)
Lemma Unwind_head fs acc its acc' its' T :
  (forall q t r, limit fs q -> Climb q acc' its' t r -> Climb q acc its t r) ->
  Unwind fs acc' its' T -> Unwind fs acc its T.
Proof.
  intros H. destruct fs as [|f r]; simpl.
  - apply H. reflexivity.
  - intros (p & rhs & i1 & i2 & Hp & Hc & Ha & Hu). exists p, rhs, i1, i2. split; [exact Hp|].
    split; [|split; [exact Ha|exact Hu]]. apply H; [exact Hp|exact Hc].
Qed.

Lemma Unwind_nil : forall fs t, Forall frame_ranked fs -> existsb is_fgroup fs = false ->
  Unwind fs (Some (erase t)) [] (erase (close fs t)).
Proof.
  induction fs as [|f r IH]; intros t HF HG; simpl.
  - apply C_end.
  - inversion HF as [|? ? [p Hp] HF']; subst. simpl in HG. apply orb_false_iff in HG. destruct HG as [G1 G2].
    exists p, (erase t), [], []. split; [exact Hp|]. split; [apply C_end|].
    split; [destruct f; try discriminate G1; reflexivity|].
    rewrite <- erase_plug. apply IH; assumption.
Qed.

Lemma pop_ranked d : forall fs t fs1 t1, Forall frame_ranked fs -> pop d fs t = (fs1, t1) -> Forall frame_ranked fs1.
Proof.
  induction fs as [|f r IH]; intros t fs1 t1 HF H; cbn [pop] in H.
  - injection H as <- <-. constructor.
  - destruct (stays_below d f).
    + injection H as <- <-. exact HF.
    + inversion HF; subst. eapply IH; eauto.
Qed.

Lemma pop_head d : forall fs t fs1 t1, pop d fs t = (fs1, t1) ->
  match fs1 with [] => True | f :: _ => stays_below d f = true end.
Proof.
  induction fs as [|f r IH]; intros t fs1 t1 H; cbn [pop] in H.
  - injection H as <- <-. exact I.
  - destruct (stays_below d f) eqn:E.
    + injection H as <- <-. exact E.
    + eapply IH; eauto.
Qed.

(* the frames closed by [pop] are the pending calls that return at the operator *)
Lemma pop_unwind d (its : list item) T :
  (forall q lhs, inside d q = false -> Climb q (Some lhs) its lhs its) ->
  forall fs t fs1 t1, Forall frame_ranked fs -> pop d fs t = (fs1, t1) ->
  Unwind fs1 (Some (erase t1)) its T -> Unwind fs (Some (erase t)) its T.
Proof.
  intros Hout. induction fs as [|f r IH]; intros t fs1 t1 HF H HU; cbn [pop] in H.
  - injection H as <- <-. exact HU.
  - destruct (stays_below d f) eqn:E.
    + injection H as <- <-. exact HU.
    + inversion HF as [|? ? [p Hp] HF']; subst.
      assert (Hng : is_fgroup f = false) by (destruct f; try reflexivity; discriminate E).
      assert (Hin : inside d p = false).
      { destruct f; try discriminate Hng; unfold stays_below in E; simpl in Hp, E; rewrite Hp in E; exact E. }
      simpl. exists p, (erase t), its, its. split; [exact Hp|]. split; [apply Hout; exact Hin|].
      split; [destruct f; try discriminate Hng; reflexivity|].
      rewrite <- erase_plug. eapply IH; eauto.
Qed.

(* the frames closed by a closing bracket: every pending call returns at the bracket, the
   call of the opening bracket consumes it *)
Lemma close_group_ranked b : forall fs t fs1 t1, Forall frame_ranked fs -> close_group b fs t = Some (fs1, t1) ->
  Forall frame_ranked fs1.
Proof.
  induction fs as [|f r IH]; intros t fs1 t1 HF H; [discriminate|].
  inversion HF; subst. destruct f; cbn [close_group] in H.
  - eapply IH; eauto.
  - eapply IH; eauto.
  - destruct (bkind_eqb b0 b); [|discriminate]. injection H as <- <-. assumption.
Qed.

Lemma bkind_eqb_eq a b : bkind_eqb a b = true -> a = b.
Proof. destruct a, b; intros H; try discriminate H; reflexivity. Qed.

Lemma close_group_unwind b k (its : list item) T :
  forall fs t fs1 t1, Forall frame_ranked fs -> close_group b fs t = Some (fs1, t1) ->
  Unwind fs1 (Some (erase t1)) its T -> Unwind fs (Some (erase t)) (IClose b k :: its) T.
Proof.
  induction fs as [|f r IH]; intros t fs1 t1 HF H HU; [discriminate|].
  inversion HF as [|? ? [p Hp] HF']; subst. destruct f as [i d kk l|i d kk|b' i kk]; cbn [close_group] in H.
  - simpl. exists p, (erase t), (IClose b k :: its), (IClose b k :: its). split; [exact Hp|].
    split; [apply C_close|]. split; [reflexivity|]. change (RBin d kk (erase l) (erase t)) with (erase (plug (FBin i d kk l) t)).
    eapply IH; eauto.
  - simpl. exists p, (erase t), (IClose b k :: its), (IClose b k :: its). split; [exact Hp|].
    split; [apply C_close|]. split; [reflexivity|]. change (RPre d kk (erase t)) with (erase (plug (FPre i d kk) t)).
    eapply IH; eauto.
  - destruct (bkind_eqb b' b) eqn:Eb; [|discriminate H]. apply bkind_eqb_eq in Eb. subst b'.
    injection H as <- <-. simpl. exists p, (erase t), (IClose b k :: its), its. split; [exact Hp|].
    split; [apply C_close|]. split; [exists k; reflexivity|]. exact HU.
Qed.

Lemma RL_lt_INF : (ROUND_LIMIT < INF)%N.
Proof. reflexivity. Qed.

Lemma limit_inside d fs q :
  (exists p, ref_rank d = Some p /\ (p < INF)%N /\ (top_round fs = true -> (p < ROUND_LIMIT)%N)) ->
  match fs with [] => True | f :: _ => stays_below d f = true end ->
  limit fs q -> inside d q = true.
Proof.
  intros (p & Hp & Lp & Lr) Hh Hl. destruct fs as [|f r]; simpl in Hl.
  - subst q. eapply inside_INF; eauto.
  - destruct f; simpl in Hl, Hh.
    + unfold stays_below in Hh. simpl in Hh. rewrite Hl in Hh. exact Hh.
    + unfold stays_below in Hh. simpl in Hh. rewrite Hl in Hh. exact Hh.
    + injection Hl as <-. destruct b; cbn [blimit].
      * unfold inside. rewrite Hp. specialize (Lr eq_refl). apply N.ltb_lt in Lr. rewrite Lr. reflexivity.
      * eapply inside_INF; eauto.
Qed.

Theorem spine_run_unwind : forall its n fs acc fs' t',
  Forall item_ranked its -> Forall frame_ranked fs ->
  spine_run its n (fs, acc) = Some (fs', Some t') -> existsb is_fgroup fs' = false ->
  Unwind fs (option_map erase acc) its (erase (close fs' t')).
Proof.
  induction its as [|it r IH]; intros n fs acc fs' t' HI HF H HG.
  - simpl in H. injection H as <- ->. simpl. apply Unwind_nil; assumption.
  - inversion HI as [|? ? Hit HI']; subst. cbn [spine_run] in H.
    destruct (spine_step it n (fs, acc)) as [[fs2 acc2]|] eqn:Es; [|discriminate].
    specialize (IH (next_index it n) fs2 acc2 fs' t' HI').
    destruct it as [d k|d k|d k|d k|b k|b k]; destruct acc as [t|]; cbn [spine_step] in Es; try discriminate.
    + (* value *)
      injection Es as <- <-. specialize (IH HF H HG). cbn [option_map erase] in *.
      cbn [item_ranked] in Hit. rewrite (norm_atom_store d fs Hit) in IH.
      eapply Unwind_head; [|exact IH]. intros q t0 r0 _ Hc. apply C_val. exact Hc.
    + (* prefix *)
      destruct (ref_rank d) as [p|] eqn:Ep; [|discriminate]. injection Es as <- <-.
      assert (HF2 : Forall frame_ranked (FPre n d k :: fs)) by (constructor; [exists p; exact Ep|exact HF]).
      specialize (IH HF2 H HG). cbn [option_map Unwind] in IH.
      destruct IH as (p' & rhs & its' & its'' & Hp' & Hc & Ha & HU). cbn [flimit frame_def] in Hp'.
      cbn [after_frame] in Ha. subst its''.
      cbn [option_map]. eapply Unwind_head; [|exact HU]. cbn [rplug].
      intros q t0 r0 _ Hc0. eapply C_pre; [exact Hp'|exact Hc|exact Hc0].
    + (* suffix *)
      destruct (ref_rank d) as [p|] eqn:Ep; [|discriminate].
      destruct (pop d fs t) as [fs1 t1] eqn:Epop. injection Es as <- <-.
      pose proof (pop_ranked _ _ _ _ _ HF Epop) as HF1. specialize (IH HF1 H HG).
      cbn [option_map erase] in *.
      eapply (pop_unwind d); [|exact HF|exact Epop|].
      * intros q lhs Hq. apply C_suf_out. exact Hq.
      * eapply Unwind_head; [|exact IH]. intros q t0 r0 Hl Hc. apply C_suf_in; [|exact Hc].
        eapply limit_inside; [|eapply pop_head; exact Epop|exact Hl].
        destruct Hit as (p0 & Hp0 & Hl0). exists p0. split; [exact Hp0|]. split; [|intros _; exact Hl0].
        eapply N.lt_trans; [exact Hl0|exact RL_lt_INF].
    + (* binary *)
      destruct (ref_rank d) as [p|] eqn:Ep; [|discriminate].
      destruct (pop d fs t) as [fs1 t1] eqn:Epop. destruct (sep_blocked d fs1) eqn:Esb; [discriminate Es|]. injection Es as <- <-.
      pose proof (pop_ranked _ _ _ _ _ HF Epop) as HF1.
      assert (HF2 : Forall frame_ranked (FBin n d k t1 :: fs1)) by (constructor; [exists p; exact Ep|exact HF1]).
      specialize (IH HF2 H HG). cbn [option_map Unwind] in IH.
      destruct IH as (p' & rhs & its' & its'' & Hp' & Hc & Ha & HU). cbn [flimit frame_def] in Hp'. cbn [rplug] in HU.
      cbn [after_frame] in Ha. subst its''.
      cbn [option_map].
      eapply (pop_unwind d); [|exact HF|exact Epop|].
      * intros q lhs Hq. apply C_bin_out. exact Hq.
      * eapply Unwind_head; [|exact HU]. intros q t0 r0 Hl Hc0.
        eapply C_bin_in; [|exact Hp'|exact Hc|exact Hc0].
        eapply limit_inside; [|eapply pop_head; exact Epop|exact Hl].
        destruct Hit as (p0 & Hp0 & Hl0 & Hs0). exists p0. split; [exact Hp0|]. split; [exact Hl0|].
        intros Htr. apply Hs0. unfold sep_blocked in Esb. rewrite Htr, andb_true_r in Esb. exact Esb.
    + (* opening bracket *)
      injection Es as <- <-.
      assert (HF2 : Forall frame_ranked (FGroup b n k :: fs)) by (constructor; [exists (blimit b); reflexivity|exact HF]).
      specialize (IH HF2 H HG). cbn [option_map Unwind] in IH.
      destruct IH as (p' & rhs & its' & its'' & Hp' & Hc & Ha & HU). cbn [flimit] in Hp'. injection Hp' as <-.
      cbn [after_frame] in Ha. destruct Ha as [kc ->]. cbn [rplug] in HU.
      cbn [option_map]. eapply Unwind_head; [|exact HU].
      intros q t0 r0 _ Hc0. eapply C_open; [exact Hc|exact Hc0].
    + (* closing bracket *)
      destruct (close_group b fs t) as [[fs1 t1]|] eqn:Ecl; [|discriminate]. injection Es as <- <-.
      pose proof (close_group_ranked _ _ _ _ _ HF Ecl) as HF1. specialize (IH HF1 H HG).
      cbn [option_map] in *. eapply close_group_unwind; eauto.
Qed.

(* spine insertion computes the tree precedence climbing defines *)
Theorem spine_insert_climb its T f :
  Forall item_ranked its -> spine_insert its = Some T -> length its < f ->
  climb f INF None its = Some (erase T, []).
Proof.
  intros HI H Hf. unfold spine_insert in H.
  destruct (spine_run its 0 ([], None)) as [[fs [t|]]|] eqn:E; try discriminate.
  destruct (existsb is_fgroup fs) eqn:EG; [discriminate|]. injection H as <-.
  pose proof (spine_run_unwind its 0 [] None fs t HI (Forall_nil _) E EG) as U. simpl in U.
  apply Climb_sound in U. destruct U as [_ U]. apply U. exact Hf.
Qed.
